(* Proofs_NbQueue.v — the two-level request queues of the nonblocking API (Nonblocking.v sections
   1, 2, 7) keep the structural invariant NbSpec.nb_inv when requests are POSTED and CANCELLED.

   Organisation
     1. list lemmas on zfirstn / zskipn / slice
     2. congruence lemmas: areq_wf / areq_pairs / lead_pairs depend on the lead only through
        l_geom, l_stride (l_orig, l_xaddr); l_set_off / r_set_lead change none of them
     3. the queue invariant as a CHUNK decomposition (qchunks): the non-lead queue is the
        concatenation of the slices of the leads, in lead order; equivalence with
        slices_ok + Forall lead_wf
     4. Q4 nb_inv_init
     5. Q1 queue surgery: split_last_le_app, enqueue_shape, enqueue_inv
     6. Q2 posting: post_varm_spec / post_varn_spec and corollaries (inside Section WithGeometry)
     7. Q3 cancel

   MODEL/SPEC DISCREPANCY (reported): NbSpec.nb_inv does not constrain the parity of
   maxPutID / maxGetID, and next_id = maxid + 2 on a non-empty queue.  So nb_inv alone is NOT
   preserved by a post (nb_inv_post_counterexample below).  The missing conjunct is maxid_ok, which
   is established by init_state, preserved by post (maxid := id) and by cancel (maxids untouched,
   leads only removed).  The posting theorems are stated for nb_inv_full = nb_inv /\ maxid_ok;
   cancel preserves both nb_inv (cancel_inv_nb) and nb_inv_full (cancel_inv). *)
From Pnc Require Import NbSpec Proofs_Disk Proofs_Lists.
Require Import Lia ZArith List Bool ZifyBool.
Import ListNotations.
Local Open Scope Z_scope.
Local Arguments Z.mul : simpl never.
Local Arguments Z.add : simpl never.
Local Arguments Z.sub : simpl never.
Local Arguments Z.div : simpl never.

(* ====================================================================== *)
(* 1. lists                                                                *)
(* ====================================================================== *)
Lemma zfirstn_nonpos {A} n (l : list A) : n <= 0 -> zfirstn n l = [].
Proof.
  intros H. destruct l as [|x r]; cbn [zfirstn]; [reflexivity|].
  destruct (n <=? 0) eqn:E; [reflexivity|lia].
Qed.

Lemma zskipn_nonpos {A} n (l : list A) : n <= 0 -> zskipn n l = l.
Proof.
  intros H. destruct l as [|x r]; cbn [zskipn]; [reflexivity|].
  destruct (n <=? 0) eqn:E; [reflexivity|lia].
Qed.

Lemma zfirstn_zskipn {A} (l : list A) : forall n, zfirstn n l ++ zskipn n l = l.
Proof.
  induction l as [|x r IH]; intros n; cbn [zfirstn zskipn]; [reflexivity|].
  destruct (n <=? 0) eqn:E; [reflexivity|]. cbn [app]. now rewrite IH.
Qed.

Lemma Zlen_zfirstn {A} (l : list A) : forall n, 0 <= n <= Zlen l -> Zlen (zfirstn n l) = n.
Proof.
  induction l as [|x r IH]; intros n H.
  - rewrite Zlen_nil in H. cbn [zfirstn]. rewrite Zlen_nil. lia.
  - rewrite Proofs_Disk.Zlen_cons in H. cbn [zfirstn]. destruct (n <=? 0) eqn:E.
    + rewrite Zlen_nil. lia.
    + rewrite Proofs_Disk.Zlen_cons, IH; lia.
Qed.

Lemma Zlen_zskipn {A} (l : list A) : forall n, 0 <= n <= Zlen l -> Zlen (zskipn n l) = Zlen l - n.
Proof.
  intros n H. pose proof (zfirstn_zskipn l n) as E. apply (f_equal (@Zlen A)) in E.
  rewrite Zlen_app, Zlen_zfirstn in E by exact H. lia.
Qed.

Lemma zfirstn_app_len {A} (a b : list A) : forall n, n = Zlen a -> zfirstn n (a ++ b) = a.
Proof.
  induction a as [|x a IH]; intros n Hn.
  - rewrite Zlen_nil in Hn. cbn [app]. apply zfirstn_nonpos. lia.
  - rewrite Proofs_Disk.Zlen_cons in Hn. pose proof (Zlen_nonneg a) as Hl. cbn [app zfirstn].
    destruct (n <=? 0) eqn:E; [lia|]. f_equal. apply IH. lia.
Qed.

Lemma zskipn_app_len {A} (a b : list A) : forall n, n = Zlen a -> zskipn n (a ++ b) = b.
Proof.
  induction a as [|x a IH]; intros n Hn.
  - rewrite Zlen_nil in Hn. cbn [app]. apply zskipn_nonpos. lia.
  - rewrite Proofs_Disk.Zlen_cons in Hn. pose proof (Zlen_nonneg a) as Hl. cbn [app zskipn].
    destruct (n <=? 0) eqn:E; [lia|]. apply IH. lia.
Qed.

Lemma zfirstn_app_le {A} (a b : list A) : forall n, n <= Zlen a -> zfirstn n (a ++ b) = zfirstn n a.
Proof.
  induction a as [|x a IH]; intros n Hn.
  - rewrite Zlen_nil in Hn. cbn [app]. rewrite zfirstn_nonpos by lia. reflexivity.
  - rewrite Proofs_Disk.Zlen_cons in Hn. cbn [app zfirstn].
    destruct (n <=? 0) eqn:E; [reflexivity|]. f_equal. apply IH. lia.
Qed.

Lemma zskipn_app_ge {A} (a b : list A) : forall n, Zlen a <= n -> zskipn n (a ++ b) = zskipn (n - Zlen a) b.
Proof.
  induction a as [|x a IH]; intros n Hn.
  - rewrite Zlen_nil. cbn [app]. f_equal. lia.
  - rewrite Proofs_Disk.Zlen_cons in *. pose proof (Zlen_nonneg a) as Hl. cbn [app zskipn].
    destruct (n <=? 0) eqn:E; [lia|]. rewrite IH by lia. f_equal. lia.
Qed.

Lemma zskipn_app_le {A} (a b : list A) : forall n, n <= Zlen a -> zskipn n (a ++ b) = zskipn n a ++ b.
Proof.
  induction a as [|x a IH]; intros n Hn.
  - rewrite Zlen_nil in Hn. cbn [app zskipn]. apply zskipn_nonpos. lia.
  - rewrite Proofs_Disk.Zlen_cons in Hn. cbn [app zskipn].
    destruct (n <=? 0) eqn:E; [reflexivity|]. apply IH. lia.
Qed.

(* the slice that sits between a and c *)
Lemma slice_app3 {A} (a b c : list A) : slice (a ++ b ++ c) (Zlen a) (Zlen b) = b.
Proof. unfold slice. rewrite zskipn_app_len by reflexivity. apply zfirstn_app_len. reflexivity. Qed.

Lemma slice_app3_eq {A} (a b c : list A) off num :
  off = Zlen a -> num = Zlen b -> slice (a ++ b ++ c) off num = b.
Proof. intros -> ->. apply slice_app3. Qed.

(* slices of a list that is modified outside the slice *)
Lemma slice_prefix {A} (a b : list A) off num :
  0 <= off -> 0 <= num -> off + num <= Zlen a -> slice (a ++ b) off num = slice a off num.
Proof.
  intros Ho Hn Hle. unfold slice. rewrite zskipn_app_le by lia.
  apply zfirstn_app_le. rewrite Zlen_zskipn by lia. lia.
Qed.

Lemma slice_suffix {A} (a b : list A) off num :
  Zlen a <= off -> slice (a ++ b) off num = slice b (off - Zlen a) num.
Proof. intros H. unfold slice. now rewrite zskipn_app_ge by exact H. Qed.

(* replacing the part of the queue before / after a slice does not change it *)
Lemma slice_change_after {A} (a c c' : list A) off num :
  0 <= off -> 0 <= num -> off + num <= Zlen a -> slice (a ++ c) off num = slice (a ++ c') off num.
Proof. intros. now rewrite !slice_prefix by assumption. Qed.

Lemma slice_change_before {A} (a a' c : list A) off num :
  Zlen a <= off -> slice (a ++ c) off num = slice (a' ++ c) (off - Zlen a + Zlen a') num.
Proof.
  intros H. rewrite !slice_suffix by (pose proof (Zlen_nonneg a'); lia).
  f_equal. lia.
Qed.

Lemma Forall_map_iff {A B} (f : A -> B) (P : B -> Prop) l :
  Forall P (map f l) <-> Forall (fun x => P (f x)) l.
Proof.
  induction l as [|x l IH]; cbn [map].
  - split; constructor.
  - split; intros H; inversion H as [|? ? H1 H2]; subst; constructor; try assumption; now apply IH.
Qed.

Lemma NoDup_insert {A} (a b : list A) x : NoDup (a ++ b) -> ~ In x (a ++ b) -> NoDup (a ++ x :: b).
Proof.
  intros Hnd Hin. apply (NoDup_Add (Add_app x a b)). split; assumption.
Qed.

(* ====================================================================== *)
(* 2. congruence                                                           *)
(* ====================================================================== *)
Lemma areq_wf_congr l l' q q' :
  l_geom l' = l_geom l -> l_stride l' = l_stride l ->
  r_start q' = r_start q -> r_count q' = r_count q -> r_nelems q' = r_nelems q ->
  areq_wf (mkareq q' l' 0 0) <-> areq_wf (mkareq q l 0 0).
Proof.
  intros Hg Hs H1 H2 H3. unfold areq_wf, req_stride. cbn [a_lead a_req].
  rewrite Hg, Hs, H1, H2, H3. reflexivity.
Qed.

Lemma areq_pairs_congr l l' q q' :
  l_geom l' = l_geom l -> l_stride l' = l_stride l ->
  r_start q' = r_start q -> r_count q' = r_count q -> r_xaddr q' = r_xaddr q ->
  areq_pairs (mkareq q' l' 0 0) = areq_pairs (mkareq q l 0 0).
Proof.
  intros Hg Hs H1 H2 H3. unfold areq_pairs, req_stride. cbn [a_lead a_req].
  rewrite Hg, Hs, H1, H2, H3. reflexivity.
Qed.

Lemma lead_pairs_congr l l' :
  l_geom l' = l_geom l -> l_orig l' = l_orig l -> l_xaddr l' = l_xaddr l -> lead_pairs l' = lead_pairs l.
Proof. intros Hg Ho Hx. unfold lead_pairs. now rewrite Hg, Ho, Hx. Qed.

(* l_set_off, l_set_flag, r_set_lead *)
Lemma areq_wf_set l q x j :
  areq_wf (mkareq (r_set_lead q j) (l_set_off l x) 0 0) <-> areq_wf (mkareq q l 0 0).
Proof. apply areq_wf_congr; reflexivity. Qed.
Lemma areq_pairs_set l q x j :
  areq_pairs (mkareq (r_set_lead q j) (l_set_off l x) 0 0) = areq_pairs (mkareq q l 0 0).
Proof. apply areq_pairs_congr; reflexivity. Qed.
Lemma lead_pairs_set_off l x : lead_pairs (l_set_off l x) = lead_pairs l.
Proof. apply lead_pairs_congr; reflexivity. Qed.
Lemma areq_wf_set_flag l q tf s :
  areq_wf (mkareq q (l_set_flag l tf s) 0 0) <-> areq_wf (mkareq q l 0 0).
Proof. apply areq_wf_congr; reflexivity. Qed.
Lemma areq_pairs_set_flag l q tf s :
  areq_pairs (mkareq q (l_set_flag l tf s) 0 0) = areq_pairs (mkareq q l 0 0).
Proof. apply areq_pairs_congr; reflexivity. Qed.
Lemma lead_pairs_set_flag l tf s : lead_pairs (l_set_flag l tf s) = lead_pairs l.
Proof. apply lead_pairs_congr; reflexivity. Qed.

(* what lead_wf says about a lead and ITS requests b *)
Definition chunk_ok (isput : bool) (l : lead) (b : list req) : Prop :=
  Z.even (l_id l) = isput /\ 0 <= l_id l /\
  Forall (fun q => areq_wf (mkareq q l 0 0)) b /\
  flat_map (fun q => areq_pairs (mkareq q l 0 0)) b = lead_pairs l.

Lemma lead_wf_chunk isput reqs l :
  lead_wf isput reqs l = chunk_ok isput l (slice reqs (l_nonlead_off l) (l_nonlead_num l)).
Proof. reflexivity. Qed.

Lemma chunk_ok_shift isput l b x (f : req -> Z) :
  chunk_ok isput l b -> chunk_ok isput (l_set_off l x) (map (fun r => r_set_lead r (f r)) b).
Proof.
  intros (He & Hid & Hwf & Hp). unfold chunk_ok. split; [exact He|]. split; [exact Hid|]. split.
  - apply Forall_map_iff. revert Hwf. apply Forall_impl. intros q Hq. apply areq_wf_set. exact Hq.
  - rewrite flat_map_map_comm, lead_pairs_set_off, <- Hp.
    apply flat_map_ext_In. intros q _. apply areq_pairs_set.
Qed.

(* lead_wf is preserved when the lead's nonlead_off changes consistently with a shift of its
   slice (and whatever happens to the rest of reqs) *)
Lemma lead_wf_congr isput reqs reqs' l x (f : req -> Z) :
  lead_reqs reqs' (l_set_off l x) = map (fun r => r_set_lead r (f r)) (lead_reqs reqs l) ->
  lead_wf isput reqs l -> lead_wf isput reqs' (l_set_off l x).
Proof.
  intros E H. rewrite lead_wf_chunk in *. unfold lead_reqs in E. rewrite E. apply chunk_ok_shift. exact H.
Qed.

Lemma lead_wf_same_slice isput reqs reqs' l :
  lead_reqs reqs' l = lead_reqs reqs l -> lead_wf isput reqs l -> lead_wf isput reqs' l.
Proof. intros E H. rewrite lead_wf_chunk in *. unfold lead_reqs in E. rewrite E. exact H. Qed.

(* ====================================================================== *)
(* 3. the invariant as a chunk decomposition                               *)
(* ====================================================================== *)
Fixpoint qchunks (isput : bool) (leads : list lead) (rs : list req) (k i : Z) : Prop :=
  match leads with
  | [] => rs = []
  | l :: r => exists b rest, rs = b ++ rest /\ l_nonlead_off l = k /\ Zlen b = l_nonlead_num l /\
                             0 < Zlen b /\ Forall (fun q => r_lead_off q = i) b /\ chunk_ok isput l b /\
                             qchunks isput r rest (k + Zlen b) (i + 1)
  end.

Lemma qchunks_eq isput leads rs k i k' i' :
  k = k' -> i = i' -> qchunks isput leads rs k i -> qchunks isput leads rs k' i'.
Proof. intros -> ->. exact (fun H => H). Qed.

Lemma qchunks_of_slices isput : forall leads pre rs i,
  slices_ok leads (pre ++ rs) (Zlen pre) i -> Forall (lead_wf isput (pre ++ rs)) leads ->
  qchunks isput leads rs (Zlen pre) i.
Proof.
  induction leads as [|l r IH]; intros pre rs i Hs Hw.
  - cbn [slices_ok] in Hs. cbn [qchunks]. rewrite Zlen_app in Hs.
    apply Zlen_zero_nil. lia.
  - cbn [slices_ok] in Hs. destruct Hs as (Hoff & Hnum & Hle & HF & Hrest).
    inversion Hw as [|? ? Hl Hr]; subst. rewrite Zlen_app in Hle.
    pose proof (zfirstn_zskipn rs (l_nonlead_num l)) as Ers.
    assert (Hb : Zlen (zfirstn (l_nonlead_num l) rs) = l_nonlead_num l) by (apply Zlen_zfirstn; lia).
    set (b := zfirstn (l_nonlead_num l) rs) in *. set (rest := zskipn (l_nonlead_num l) rs) in *.
    assert (Esl : slice (pre ++ rs) (Zlen pre) (l_nonlead_num l) = b).
    { rewrite <- Ers. apply slice_app3_eq; [reflexivity|symmetry; exact Hb]. }
    cbn [qchunks]. exists b, rest. split; [symmetry; exact Ers|]. split; [exact Hoff|].
    split; [exact Hb|]. split; [lia|]. split; [rewrite <- Esl; exact HF|]. split.
    + rewrite lead_wf_chunk, Hoff, Esl in Hl. exact Hl.
    + assert (Eapp : pre ++ rs = (pre ++ b) ++ rest) by (rewrite <- app_assoc, Ers; reflexivity).
      rewrite Eapp in Hrest, Hr.
      apply (qchunks_eq isput r rest (Zlen (pre ++ b)) (i + 1)); [rewrite Zlen_app; lia|reflexivity|].
      apply IH; [|exact Hr].
      replace (Zlen (pre ++ b)) with (Zlen pre + l_nonlead_num l) by (rewrite Zlen_app; lia).
      exact Hrest.
Qed.

Lemma slices_of_qchunks isput : forall leads pre rs i,
  qchunks isput leads rs (Zlen pre) i ->
  slices_ok leads (pre ++ rs) (Zlen pre) i /\ Forall (lead_wf isput (pre ++ rs)) leads.
Proof.
  induction leads as [|l r IH]; intros pre rs i H.
  - cbn [qchunks] in H. subst rs. cbn [slices_ok]. rewrite app_nil_r. split; [reflexivity|constructor].
  - cbn [qchunks] in H. destruct H as (b & rest & Ers & Hoff & Hb & Hpos & HF & Hc & Hrest).
    subst rs.
    assert (Esl : slice (pre ++ b ++ rest) (Zlen pre) (l_nonlead_num l) = b)
      by (apply slice_app3_eq; [reflexivity|symmetry; exact Hb]).
    specialize (IH (pre ++ b) rest (i + 1)).
    assert (Hq : qchunks isput r rest (Zlen (pre ++ b)) (i + 1))
      by (revert Hrest; apply qchunks_eq; [rewrite Zlen_app; lia|reflexivity]).
    destruct (IH Hq) as (Hs & Hw). rewrite <- app_assoc in Hs, Hw.
    split.
    + cbn [slices_ok]. split; [exact Hoff|]. split; [lia|].
      split; [rewrite !Zlen_app; pose proof (Zlen_nonneg rest); lia|].
      split; [rewrite Esl; exact HF|].
      replace (Zlen pre + l_nonlead_num l) with (Zlen (pre ++ b)) by (rewrite Zlen_app; lia).
      exact Hs.
    + constructor; [|exact Hw]. rewrite lead_wf_chunk, Hoff, Esl. exact Hc.
Qed.

Lemma queue_inv_chunks isput maxid leads reqs :
  queue_inv isput maxid leads reqs <->
  NoDup (map l_id leads) /\ Forall (fun l => l_id l <= maxid) leads /\
  qchunks isput leads reqs 0 0 /\ Forall (fun l => l_to_free l = false) leads.
Proof.
  unfold queue_inv. split.
  - intros (H1 & H2 & H3 & H4 & H5). repeat split; try assumption.
    apply (qchunks_of_slices isput leads [] reqs 0); [exact H3|exact H4].
  - intros (H1 & H2 & H3 & H5).
    destruct (slices_of_qchunks isput leads [] reqs 0 H3) as (Hs & Hw).
    split; [exact H1|]. split; [exact H2|]. split; [exact Hs|]. split; [exact Hw|exact H5].
Qed.

Lemma qchunks_app_elim isput : forall A B rs k i,
  qchunks isput (A ++ B) rs k i ->
  exists ra rb, rs = ra ++ rb /\ qchunks isput A ra k i /\ qchunks isput B rb (k + Zlen ra) (i + Zlen A).
Proof.
  induction A as [|a A IH]; intros B rs k i H.
  - exists [], rs. split; [reflexivity|]. split; [reflexivity|].
    revert H. cbn [app]. apply qchunks_eq; rewrite Zlen_nil; lia.
  - cbn [app qchunks] in H. destruct H as (b & rest & Ers & Hoff & Hb & Hpos & HF & Hc & Hrest).
    destruct (IH B rest _ _ Hrest) as (ra & rb & Erest & HA & HB).
    exists (b ++ ra), rb. split; [rewrite <- app_assoc, <- Erest; exact Ers|]. split.
    + cbn [qchunks]. exists b, ra. split; [reflexivity|]. split; [exact Hoff|]. split; [exact Hb|].
      split; [exact Hpos|]. split; [exact HF|]. split; [exact Hc|exact HA].
    + revert HB. apply qchunks_eq; rewrite ?Zlen_app, ?Proofs_Disk.Zlen_cons; lia.
Qed.

Lemma qchunks_app_intro isput : forall A B ra rb k i,
  qchunks isput A ra k i -> qchunks isput B rb (k + Zlen ra) (i + Zlen A) ->
  qchunks isput (A ++ B) (ra ++ rb) k i.
Proof.
  induction A as [|a A IH]; intros B ra rb k i HA HB.
  - cbn [qchunks] in HA. subst ra. cbn [app]. revert HB. apply qchunks_eq; rewrite Zlen_nil; lia.
  - cbn [qchunks] in HA. destruct HA as (b & rest & Era & Hoff & Hb & Hpos & HF & Hc & Hrest).
    subst ra. cbn [app qchunks]. exists b, (rest ++ rb). split; [apply app_assoc_reverse|].
    split; [exact Hoff|]. split; [exact Hb|]. split; [exact Hpos|]. split; [exact HF|].
    split; [exact Hc|]. apply IH; [exact Hrest|].
    revert HB. apply qchunks_eq; rewrite ?Zlen_app, ?Proofs_Disk.Zlen_cons; lia.
Qed.

(* shifting a tail of the queue: the leads' nonlead_off by dk, the back pointers by di *)
Lemma qchunks_shift isput dk di : forall B rb k i,
  qchunks isput B rb k i ->
  qchunks isput (map (fun l => l_set_off l (l_nonlead_off l + dk)) B)
          (map (fun r => r_set_lead r (r_lead_off r + di)) rb) (k + dk) (i + di).
Proof.
  induction B as [|l B IH]; intros rb k i H.
  - cbn [qchunks] in H. subst rb. reflexivity.
  - cbn [qchunks] in H. destruct H as (b & rest & Ers & Hoff & Hb & Hpos & HF & Hc & Hrest).
    subst rb. cbn [map qchunks]. rewrite map_app.
    exists (map (fun r => r_set_lead r (r_lead_off r + di)) b),
           (map (fun r => r_set_lead r (r_lead_off r + di)) rest).
    split; [reflexivity|]. split; [cbn [l_set_off l_nonlead_off]; lia|].
    split; [rewrite Zlen_map; exact Hb|]. split; [rewrite Zlen_map; exact Hpos|].
    split.
    { apply Forall_map_iff. revert HF. apply Forall_impl. intros q Hq.
      cbn [r_set_lead r_lead_off]. lia. }
    split; [apply chunk_ok_shift; exact Hc|].
    rewrite Zlen_map. specialize (IH rest _ _ Hrest). revert IH. apply qchunks_eq; lia.
Qed.

Lemma map_set_off_id (f : lead -> Z) B : map l_id (map (fun l => l_set_off l (f l)) B) = map l_id B.
Proof. rewrite map_map. apply map_ext. reflexivity. Qed.

Lemma Forall_set_off (P : lead -> Prop) (f : lead -> Z) B :
  (forall l x, P l -> P (l_set_off l x)) -> Forall P B -> Forall P (map (fun l => l_set_off l (f l)) B).
Proof. intros HP H. apply Forall_map_iff. revert H. apply Forall_impl. intros l Hl. now apply HP. Qed.

(* ====================================================================== *)
(* 4. Q4                                                                   *)
(* ====================================================================== *)
Lemma queue_inv_nil isput maxid : queue_inv isput maxid [] [].
Proof.
  unfold queue_inv. cbn [map slices_ok]. repeat split; try constructor.
Qed.

Theorem nb_inv_init : nb_inv init_state.
Proof. split; apply queue_inv_nil. Qed.

(* the conjunct missing from nb_inv: on a non-empty queue maxid has the parity of the queue *)
Definition maxid_ok (st : nbstate) : Prop :=
  (put_lead st = [] \/ Z.even (maxPutID st) = true) /\
  (get_lead st = [] \/ Z.even (maxGetID st) = false).

Definition nb_inv_full (st : nbstate) : Prop := nb_inv st /\ maxid_ok st.

Lemma maxid_ok_init : maxid_ok init_state.
Proof. split; left; reflexivity. Qed.

Theorem nb_inv_full_init : nb_inv_full init_state.
Proof. split; [exact nb_inv_init|exact maxid_ok_init]. Qed.

(* wait / cancel never change the max ids and only shrink the lead queues *)
Lemma maxid_ok_shrink st st' :
  maxid_ok st -> maxPutID st' = maxPutID st -> maxGetID st' = maxGetID st ->
  (put_lead st' = [] \/ put_lead st <> []) -> (get_lead st' = [] \/ get_lead st <> []) ->
  maxid_ok st'.
Proof.
  intros (Hp & Hg) Ep Eg Hsp Hsg. unfold maxid_ok. rewrite Ep, Eg. split.
  - destruct Hsp as [H|H]; [left; exact H|]. destruct Hp as [Hp|Hp]; [contradiction|right; exact Hp].
  - destruct Hsg as [H|H]; [left; exact H|]. destruct Hg as [Hg|Hg]; [contradiction|right; exact Hg].
Qed.

Lemma maxid_ok_same_ids st st' :
  maxid_ok st -> maxPutID st' = maxPutID st -> maxGetID st' = maxGetID st ->
  (put_lead st = [] -> put_lead st' = []) -> (get_lead st = [] -> get_lead st' = []) ->
  maxid_ok st'.
Proof.
  intros H Ep Eg Hsp Hsg. apply (maxid_ok_shrink st st' H Ep Eg).
  - destruct (put_lead st) as [|a r]; [left; apply Hsp; reflexivity|right; discriminate].
  - destruct (get_lead st) as [|a r]; [left; apply Hsg; reflexivity|right; discriminate].
Qed.

(* nb_inv_full only looks at the queues and the max ids *)
Lemma nb_inv_full_ext st st' :
  put_lead st' = put_lead st -> get_lead st' = get_lead st ->
  put_reqs st' = put_reqs st -> get_reqs st' = get_reqs st ->
  maxPutID st' = maxPutID st -> maxGetID st' = maxGetID st ->
  nb_inv_full st -> nb_inv_full st'.
Proof.
  intros E1 E2 E3 E4 E5 E6 H. unfold nb_inv_full, nb_inv, maxid_ok in *.
  rewrite E1, E2, E3, E4, E5, E6. exact H.
Qed.

Lemma or_nil_imp {A} (l : list A) (P : Prop) : l = [] \/ P -> l <> [] -> P.
Proof. intros [H|H] Hn; [contradiction|exact H]. Qed.

(* ====================================================================== *)
(* 5. Q1 queue surgery                                                     *)
(* ====================================================================== *)
Lemma split_last_le_app : forall rl key sh kept shifted,
  split_last_le rl key sh = (kept, shifted) -> kept ++ shifted = rev rl ++ sh.
Proof.
  induction rl as [|l r IH]; intros key sh kept shifted H; cbn [split_last_le] in H.
  - injection H as <- <-. reflexivity.
  - destruct (g_begin (l_geom l) <=? key) eqn:E.
    + injection H as <- <-. reflexivity.
    + apply IH in H. rewrite H. cbn [rev]. rewrite <- app_assoc. reflexivity.
Qed.

Lemma split_last_le_leads leads key kept shifted :
  split_last_le (rev leads) key [] = (kept, shifted) -> kept ++ shifted = leads.
Proof. intros H. apply split_last_le_app in H. now rewrite rev_involutive, app_nil_r in H. Qed.

(* the scan stops at the last lead whose variable begins at or before key *)
Lemma split_last_le_shifted : forall rl key sh kept shifted,
  split_last_le rl key sh = (kept, shifted) ->
  Forall (fun l => key < g_begin (l_geom l)) sh ->
  Forall (fun l => key < g_begin (l_geom l)) shifted /\
  (kept = [] \/ exists k0 kl, kept = k0 ++ [kl] /\ g_begin (l_geom kl) <= key).
Proof.
  induction rl as [|l r IH]; intros key sh kept shifted H Hsh; cbn [split_last_le] in H.
  - injection H as <- <-. split; [exact Hsh|left; reflexivity].
  - destruct (g_begin (l_geom l) <=? key) eqn:E.
    + injection H as <- <-. split; [exact Hsh|]. right. exists (rev r), l. cbn [rev]. split; [reflexivity|lia].
    + apply IH in H; [exact H|]. constructor; [lia|exact Hsh].
Qed.

Definition shift_leads (n : Z) (ls : list lead) : list lead :=
  map (fun l => l_set_off l (l_nonlead_off l + n)) ls.
Definition bump_reqs (d : Z) (rs : list req) : list req :=
  map (fun r => r_set_lead r (r_lead_off r + d)) rs.

Lemma enqueue_shape sorted key leads reqs mk_lead mk_reqs n leads' reqs' :
  enqueue sorted key leads reqs mk_lead mk_reqs n = (leads', reqs') ->
  exists kept shifted, leads = kept ++ shifted /\ (sorted = false -> shifted = []) /\
    match shifted with
    | [] => leads' = kept ++ [mk_lead (Zlen reqs)] /\ reqs' = reqs ++ mk_reqs (Zlen kept)
    | s0 :: _ => leads' = kept ++ mk_lead (l_nonlead_off s0) :: shift_leads n shifted /\
                 reqs' = zfirstn (l_nonlead_off s0) reqs ++ mk_reqs (Zlen kept) ++
                         bump_reqs 1 (zskipn (l_nonlead_off s0) reqs)
    end.
Proof.
  unfold enqueue. intros H. destruct sorted.
  - destruct (split_last_le (rev leads) key []) as [kept shifted] eqn:E.
    exists kept, shifted. split; [symmetry; eapply split_last_le_leads; exact E|].
    split; [discriminate|].
    destruct shifted as [|s0 sh]; cbv beta iota zeta in H; injection H as <- <-; split; reflexivity.
  - cbv beta iota zeta in H. exists leads, []. split; [now rewrite app_nil_r|].
    split; [reflexivity|]. injection H as <- <-. split; reflexivity.
Qed.

Lemma ids_insert kept shifted newl id n :
  NoDup (map l_id (kept ++ shifted)) -> Forall (fun l => l_id l < id) (kept ++ shifted) ->
  l_id newl = id -> NoDup (map l_id (kept ++ newl :: shift_leads n shifted)).
Proof.
  intros Hnd Hf Hid. rewrite map_app. cbn [map]. unfold shift_leads. rewrite map_set_off_id.
  rewrite map_app in Hnd. apply NoDup_insert; [exact Hnd|].
  rewrite <- map_app. intros Hin. apply in_map_iff in Hin. destruct Hin as (l & El & Hl).
  rewrite Forall_forall in Hf. specialize (Hf l Hl). lia.
Qed.

(* the uniform description of what enqueue does, given the chunk decomposition of the old queue *)
Lemma enqueue_chunks isput sorted key leads reqs mk_lead mk_reqs n leads' reqs' :
  qchunks isput leads reqs 0 0 ->
  enqueue sorted key leads reqs mk_lead mk_reqs n = (leads', reqs') ->
  exists kept shifted ra rb,
    leads = kept ++ shifted /\ reqs = ra ++ rb /\ (sorted = false -> shifted = []) /\
    qchunks isput kept ra 0 0 /\ qchunks isput shifted rb (Zlen ra) (Zlen kept) /\
    leads' = kept ++ mk_lead (Zlen ra) :: shift_leads n shifted /\
    reqs' = ra ++ mk_reqs (Zlen kept) ++ bump_reqs 1 rb.
Proof.
  intros Hch He. destruct (enqueue_shape _ _ _ _ _ _ _ _ _ He) as (kept & shifted & El & Hso & Hsh).
  subst leads. apply qchunks_app_elim in Hch. destruct Hch as (ra & rb & Er & Hk & Hs). subst reqs.
  assert (Hs' : qchunks isput shifted rb (Zlen ra) (Zlen kept)) by (revert Hs; apply qchunks_eq; lia).
  exists kept, shifted, ra, rb. split; [reflexivity|]. split; [reflexivity|]. split; [exact Hso|].
  split; [exact Hk|]. split; [exact Hs'|].
  destruct shifted as [|s0 sh].
  - destruct Hsh as (-> & ->). cbn [qchunks] in Hs'. subst rb. rewrite app_nil_r.
    split; [reflexivity|]. cbn [bump_reqs map]. rewrite app_nil_r. reflexivity.
  - destruct Hsh as (-> & ->). cbn [qchunks] in Hs'.
    destruct Hs' as (b & rest & _ & Hoff & _). rewrite Hoff.
    rewrite zfirstn_app_len, zskipn_app_len by reflexivity. split; reflexivity.
Qed.

(* Q1.  [id] is fresh w.r.t. the leads in the queue (this follows from maxid < id, and holds
   vacuously when the queue is empty and the ids restart) *)
Theorem enqueue_inv isput maxid sorted key leads reqs mk_lead mk_reqs n id leads' reqs' :
  queue_inv isput maxid leads reqs ->
  Forall (fun l => l_id l < id) leads -> Z.even id = isput -> 0 <= id -> 0 < n ->
  (forall off, l_id (mk_lead off) = id /\ l_nonlead_off (mk_lead off) = off /\
               l_nonlead_num (mk_lead off) = n /\ l_to_free (mk_lead off) = false) ->
  (forall off lo, Forall (fun q => areq_wf (mkareq q (mk_lead off) 0 0)) (mk_reqs lo) /\
                  flat_map (fun q => areq_pairs (mkareq q (mk_lead off) 0 0)) (mk_reqs lo) =
                    lead_pairs (mk_lead off) /\
                  Forall (fun q => r_lead_off q = lo) (mk_reqs lo) /\ Zlen (mk_reqs lo) = n) ->
  enqueue sorted key leads reqs mk_lead mk_reqs n = (leads', reqs') ->
  queue_inv isput id leads' reqs' /\
  exists kept shifted off, leads = kept ++ shifted /\ (sorted = false -> shifted = []) /\
                           leads' = kept ++ mk_lead off :: shift_leads n shifted.
Proof.
  intros Hq Hfresh Hev Hid Hn Hml Hmr He.
  apply queue_inv_chunks in Hq. destruct Hq as (Hnd & Hmax & Hch & Hfree).
  destruct (enqueue_chunks _ _ _ _ _ _ _ _ _ _ Hch He)
    as (kept & shifted & ra & rb & El & Er & Hso & Hk & Hs & El' & Er').
  split; [|exists kept, shifted, (Zlen ra); split; [exact El|split; [exact Hso|exact El']]].
  subst leads reqs leads' reqs'.
  destruct (Hml (Zlen ra)) as (Hnid & Hnoff & Hnnum & Hnfree).
  destruct (Hmr (Zlen ra) (Zlen kept)) as (Hwf & Hpairs & Hlo & Hlen).
  apply queue_inv_chunks. split; [|split; [|split]].
  - apply (ids_insert kept shifted _ id n); assumption.
  - apply Forall_app in Hfresh. destruct Hfresh as (Hfk & Hfs).
    apply Forall_app. split.
    + revert Hfk. apply Forall_impl. intros l Hl. lia.
    + constructor; [lia|]. apply Forall_set_off; [intros l x Hl; exact Hl|].
      revert Hfs. apply Forall_impl. intros l Hl. lia.
  - apply qchunks_app_intro; [exact Hk|].
    cbn [qchunks]. exists (mk_reqs (Zlen kept)), (bump_reqs 1 rb).
    split; [reflexivity|]. split; [lia|]. split; [lia|]. split; [lia|].
    split; [revert Hlo; apply Forall_impl; intros q Hq; lia|].
    split; [unfold chunk_ok; rewrite Hnid; repeat split; assumption|].
    apply (qchunks_shift isput n 1) in Hs. revert Hs. apply qchunks_eq; lia.
  - apply Forall_app in Hfree. destruct Hfree as (Hfk & Hfs).
    apply Forall_app. split; [exact Hfk|]. constructor; [exact Hnfree|].
    apply Forall_set_off; [intros l x Hl; exact Hl|exact Hfs].
Qed.

(* ====================================================================== *)
(* 6. Q2 posting                                                           *)
(* ====================================================================== *)
Lemma next_id_fresh isput maxid leads reqs first :
  queue_inv isput maxid leads reqs -> (leads <> [] -> Z.even maxid = isput) ->
  Z.even first = isput -> 0 <= first ->
  Z.even (next_id (Zlen leads) maxid first) = isput /\ 0 <= next_id (Zlen leads) maxid first /\
  Forall (fun l => l_id l < next_id (Zlen leads) maxid first) leads.
Proof.
  intros Hq Hpar Hf H0. unfold next_id. destruct (Zlen leads =? 0) eqn:E.
  - assert (leads = []) by (apply Zlen_zero_nil; lia). subst leads.
    split; [exact Hf|]. split; [exact H0|constructor].
  - destruct leads as [|l r]; [rewrite Zlen_nil in E; lia|].
    assert (Hne : l :: r <> []) by discriminate. specialize (Hpar Hne).
    destruct Hq as (_ & Hmax & _ & Hwf & _).
    pose proof (Forall_inv Hmax) as Hl. pose proof (Forall_inv Hwf) as Hwl. cbv beta in Hl.
    destruct Hwl as (_ & Hl0 & _).
    split; [|split; [lia|]].
    + rewrite Z.even_add, Hpar. change (Z.even 2) with true. destruct isput; reflexivity.
    + revert Hmax. apply Forall_impl. intros a Ha. lia.
Qed.

Theorem enqueue_next_inv isput maxid sorted key leads reqs mk_lead mk_reqs n first leads' reqs' :
  queue_inv isput maxid leads reqs -> (leads <> [] -> Z.even maxid = isput) ->
  Z.even first = isput -> 0 <= first -> 0 < n ->
  (forall off, l_id (mk_lead off) = next_id (Zlen leads) maxid first /\
               l_nonlead_off (mk_lead off) = off /\
               l_nonlead_num (mk_lead off) = n /\ l_to_free (mk_lead off) = false) ->
  (forall off lo, Forall (fun q => areq_wf (mkareq q (mk_lead off) 0 0)) (mk_reqs lo) /\
                  flat_map (fun q => areq_pairs (mkareq q (mk_lead off) 0 0)) (mk_reqs lo) =
                    lead_pairs (mk_lead off) /\
                  Forall (fun q => r_lead_off q = lo) (mk_reqs lo) /\ Zlen (mk_reqs lo) = n) ->
  enqueue sorted key leads reqs mk_lead mk_reqs n = (leads', reqs') ->
  Z.even (next_id (Zlen leads) maxid first) = isput /\ 0 <= next_id (Zlen leads) maxid first /\
  queue_inv isput (next_id (Zlen leads) maxid first) leads' reqs' /\
  exists kept shifted off, leads = kept ++ shifted /\ (sorted = false -> shifted = []) /\
                           leads' = kept ++ mk_lead off :: shift_leads n shifted.
Proof.
  intros Hq Hpar Hf H0 Hn Hml Hmr He.
  destruct (next_id_fresh _ _ _ _ _ Hq Hpar Hf H0) as (Hev & Hid & Hfresh).
  split; [exact Hev|]. split; [exact Hid|].
  exact (enqueue_inv _ _ _ _ _ _ _ _ _ _ _ _ Hq Hfresh Hev Hid Hn Hml Hmr He).
Qed.

(* what a successful post does to the state: newl enters one lead queue (kept ++ newl :: shifted),
   the leads behind it only get their nonlead_off moved; the other queue is untouched *)
Definition posted_into (isput : bool) (st st' : nbstate) (newl : lead) : Prop :=
  exists kept shifted,
    if isput
    then put_lead st = kept ++ shifted /\
         put_lead st' = kept ++ newl :: shift_leads (l_nonlead_num newl) shifted /\
         get_lead st' = get_lead st /\ get_reqs st' = get_reqs st /\
         maxPutID st' = l_id newl /\ maxGetID st' = maxGetID st
    else get_lead st = kept ++ shifted /\
         get_lead st' = kept ++ newl :: shift_leads (l_nonlead_num newl) shifted /\
         put_lead st' = put_lead st /\ put_reqs st' = put_reqs st /\
         maxGetID st' = l_id newl /\ maxPutID st' = maxPutID st.

Lemma Zlen_le_zsum_map {A} (f : A -> Z) l : Forall (fun p => 1 <= f p) l -> Zlen l <= zsum (map f l).
Proof.
  induction l as [|x l IH]; intros H; cbn [map zsum].
  - rewrite Zlen_nil. lia.
  - inversion H as [|? ? Hx Hl]; subst. specialize (IH Hl). rewrite Proofs_Disk.Zlen_cons. lia.
Qed.

Lemma varn_nreqs_pos g parts :
  postn_ok g parts ->
  zsum (map (fun p => zprod (part_count (fst p) (snd p)))
            (filter (fun p => negb (zprod (part_count (fst p) (snd p)) =? 0)) parts)) * g_xsz g <> 0 ->
  0 < zsum (map (fun p => if g_isrec g then hd 1 (part_count (fst p) (snd p)) else 1)
                (filter (fun p => negb (zprod (part_count (fst p) (snd p)) =? 0)) parts)).
Proof.
  intros (_ & _ & _ & Hparts) Hne.
  set (nz := filter (fun p => negb (zprod (part_count (fst p) (snd p)) =? 0)) parts) in *.
  assert (Hnz : nz <> []) by (intros E; rewrite E in Hne; cbn [map zsum] in Hne; lia).
  apply Zlen_pos_not_nil in Hnz.
  enough (Zlen nz <= zsum (map (fun p => if g_isrec g then hd 1 (part_count (fst p) (snd p)) else 1) nz)) by lia.
  apply Zlen_le_zsum_map. apply Forall_forall. intros p Hp.
  unfold nz in Hp. apply filter_In in Hp. destruct Hp as (Hin & Hz).
  destruct (g_isrec g); [|lia].
  rewrite Forall_forall in Hparts. specialize (Hparts p Hin).
  apply req_ok_count_nonneg in Hparts.
  assert (Hzp : zprod (part_count (fst p) (snd p)) <> 0) by lia.
  pose proof (zprod_nonzero_pos _ Hparts Hzp) as Hpos.
  destruct (part_count (fst p) (snd p)) as [|c cs]; cbn [hd]; [lia|].
  inversion Hpos; subst. assumption.
Qed.

Section WithGeometry.
(* proved in Proofs_NbSegs.v (the geometric content of record splitting / varn splitting) *)
Hypothesis post_varm_reqs_ok : forall g start count stride xaddr lo l,
  post_ok g start count stride -> 0 < zprod count * g_xsz g ->
  l_geom l = g -> l_stride l = stride_eff stride -> l_xaddr l = xaddr ->
  l_orig l = [(start, count, match stride with Some t => t | None => ones_like count end)] ->
  let reqs := (if g_isrec g
               then rec_split lo start count (match stride_eff stride with Some t => hd 1 t | None => 1 end)
                              (hd 1 count) (zprod count / hd 1 count) xaddr (g_xsz g)
               else [mkreq lo start count (zprod count) xaddr]) in
  Forall (fun q => areq_wf (mkareq q l 0 0)) reqs /\
  flat_map (fun q => areq_pairs (mkareq q l 0 0)) reqs = lead_pairs l /\
  Forall (fun q => r_lead_off q = lo) reqs /\
  Zlen reqs = (if g_isrec g then hd 1 count else 1) /\ 0 < Zlen reqs.
Hypothesis post_varn_reqs_ok : forall g parts xaddr lo l,
  postn_ok g parts -> l_geom l = g -> l_stride l = None -> l_xaddr l = xaddr ->
  l_orig l = map (fun p => (fst p, part_count (fst p) (snd p), ones_like (fst p)))
                 (filter (fun p => negb (zprod (part_count (fst p) (snd p)) =? 0)) parts) ->
  let reqs := varn_reqs (g_isrec g) lo (g_xsz g) parts xaddr in
  Forall (fun q => areq_wf (mkareq q l 0 0)) reqs /\
  flat_map (fun q => areq_pairs (mkareq q l 0 0)) reqs = lead_pairs l /\
  Forall (fun q => r_lead_off q = lo) reqs /\
  Zlen reqs = zsum (map (fun p => if g_isrec g then hd 1 (part_count (fst p) (snd p)) else 1)
                        (filter (fun p => negb (zprod (part_count (fst p) (snd p)) =? 0)) parts)).

Ltac name_enqueue Eq pl pr :=
  match goal with
  | Hp : context [enqueue ?a ?b ?c ?d ?e ?f ?h] |- _ =>
      destruct (enqueue a b c d e f h) as [pl pr] eqn:Eq
  end.

Lemma post_varm_spec st k g start count stride xaddr0 data sw tag :
  nb_inv_full st -> post_ok g start count stride ->
  forall st' id rc, post_varm st k g start count stride xaddr0 data sw tag = (st', id, rc) ->
  (st' = st /\ id = NC_REQ_NULL) \/
  (rc = NC_NOERR /\ 0 <= id /\ Z.even id = k_isput k /\ nb_inv_full st' /\
   exists newl, l_id newl = id /\ l_tag newl = tag /\ l_geom newl = g /\
                l_stride newl = stride_eff stride /\
                l_orig newl = [(start, count, match stride with Some t => t | None => ones_like count end)] /\
                l_to_free newl = false /\ l_nelems newl = zprod count /\
                posted_into (k_isput k) st st' newl).
Proof.
  intros (Hinv & Hmax) Hpost st' id rc Hp. unfold post_varm in Hp.
  match type of Hp with (match ?c with true => _ | false => _ end) = _ => destruct c eqn:Ek end.
  { injection Hp as <- <- <-. left. split; reflexivity. }
  cbv zeta in Hp.
  destruct (zprod count * g_xsz g =? 0) eqn:Enb.
  { injection Hp as <- <- <-. left. split; reflexivity. }
  destruct (bput_alloc st k (zprod count * g_xsz g) xaddr0) as [[[rc0 ab] aidx] xaddr] eqn:Eb.
  destruct (negb (rc0 =? NC_NOERR)) eqn:Erc.
  { injection Hp as <- <- <-. left. split; reflexivity. }
  right.
  assert (Hpos : 0 < zprod count * g_xsz g).
  { destruct Hpost as ((Hx & _) & _ & Hreq). apply req_ok_count_nonneg in Hreq.
    apply zprod_nonneg in Hreq. apply Z.eqb_neq in Enb. nia. }
  destruct Hinv as (Hput & Hget). destruct Hmax as (Hmp & Hmg).
  destruct (k_isput k) eqn:Ekp.
  - name_enqueue Henq pl pr. injection Hp as <- <- <-.
    match type of Henq with enqueue _ _ _ _ ?ml ?mr ?n = _ =>
      set (ML := ml) in *; set (MR := mr) in *; set (NN := n) in * end.
    assert (Hmr : forall off lo,
               Forall (fun q => areq_wf (mkareq q (ML off) 0 0)) (MR lo) /\
               flat_map (fun q => areq_pairs (mkareq q (ML off) 0 0)) (MR lo) = lead_pairs (ML off) /\
               Forall (fun q => r_lead_off q = lo) (MR lo) /\ Zlen (MR lo) = NN /\ 0 < Zlen (MR lo)).
    { intros off lo.
      exact (post_varm_reqs_ok g start count stride xaddr lo (ML off) Hpost Hpos
                               eq_refl eq_refl eq_refl eq_refl). }
    assert (Hn : 0 < NN) by (destruct (Hmr 0 0) as (_ & _ & _ & H4 & H5); lia).
    assert (Hmr' : forall off lo,
               Forall (fun q => areq_wf (mkareq q (ML off) 0 0)) (MR lo) /\
               flat_map (fun q => areq_pairs (mkareq q (ML off) 0 0)) (MR lo) = lead_pairs (ML off) /\
               Forall (fun q => r_lead_off q = lo) (MR lo) /\ Zlen (MR lo) = NN).
    { intros off lo. destruct (Hmr off lo) as (H1 & H2 & H3 & H4 & _). repeat split; assumption. }
    assert (Hml : forall off, l_id (ML off) = next_id (Zlen (put_lead st)) (maxPutID st) 0 /\
                              l_nonlead_off (ML off) = off /\ l_nonlead_num (ML off) = NN /\
                              l_to_free (ML off) = false).
    { intros off. split; [reflexivity|]. split; [reflexivity|]. split; reflexivity. }
    destruct (enqueue_next_inv true _ _ _ _ _ _ _ _ 0 _ _ Hput (or_nil_imp _ _ Hmp) eq_refl (Z.le_refl 0) Hn Hml Hmr' Henq)
      as (Hev & Hid & Hq & kept & shifted & off & El & _ & El').
    split; [reflexivity|]. split; [exact Hid|]. split; [exact Hev|].
    split; [split; [split; [exact Hq|exact Hget]|split; [right; exact Hev|exact Hmg]]|].
    exists (ML off). split; [reflexivity|]. split; [reflexivity|]. split; [reflexivity|].
    split; [reflexivity|]. split; [reflexivity|]. split; [reflexivity|]. split; [reflexivity|].
    exists kept, shifted. split; [exact El|]. split; [exact El'|].
    split; [reflexivity|]. split; [reflexivity|]. split; reflexivity.
  - name_enqueue Henq pl pr. injection Hp as <- <- <-.
    match type of Henq with enqueue _ _ _ _ ?ml ?mr ?n = _ =>
      set (ML := ml) in *; set (MR := mr) in *; set (NN := n) in * end.
    assert (Hmr : forall off lo,
               Forall (fun q => areq_wf (mkareq q (ML off) 0 0)) (MR lo) /\
               flat_map (fun q => areq_pairs (mkareq q (ML off) 0 0)) (MR lo) = lead_pairs (ML off) /\
               Forall (fun q => r_lead_off q = lo) (MR lo) /\ Zlen (MR lo) = NN /\ 0 < Zlen (MR lo)).
    { intros off lo.
      exact (post_varm_reqs_ok g start count stride xaddr lo (ML off) Hpost Hpos
                               eq_refl eq_refl eq_refl eq_refl). }
    assert (Hn : 0 < NN) by (destruct (Hmr 0 0) as (_ & _ & _ & H4 & H5); lia).
    assert (Hmr' : forall off lo,
               Forall (fun q => areq_wf (mkareq q (ML off) 0 0)) (MR lo) /\
               flat_map (fun q => areq_pairs (mkareq q (ML off) 0 0)) (MR lo) = lead_pairs (ML off) /\
               Forall (fun q => r_lead_off q = lo) (MR lo) /\ Zlen (MR lo) = NN).
    { intros off lo. destruct (Hmr off lo) as (H1 & H2 & H3 & H4 & _). repeat split; assumption. }
    assert (Hml : forall off, l_id (ML off) = next_id (Zlen (get_lead st)) (maxGetID st) 1 /\
                              l_nonlead_off (ML off) = off /\ l_nonlead_num (ML off) = NN /\
                              l_to_free (ML off) = false).
    { intros off. split; [reflexivity|]. split; [reflexivity|]. split; reflexivity. }
    destruct (enqueue_next_inv false _ _ _ _ _ _ _ _ 1 _ _ Hget (or_nil_imp _ _ Hmg) eq_refl Z.le_0_1 Hn Hml Hmr' Henq)
      as (Hev & Hid & Hq & kept & shifted & off & El & _ & El').
    split; [reflexivity|]. split; [exact Hid|]. split; [exact Hev|].
    split; [split; [split; [exact Hput|exact Hq]|split; [exact Hmp|right; exact Hev]]|].
    exists (ML off). split; [reflexivity|]. split; [reflexivity|]. split; [reflexivity|].
    split; [reflexivity|]. split; [reflexivity|]. split; [reflexivity|]. split; [reflexivity|].
    exists kept, shifted. split; [exact El|]. split; [exact El'|].
    split; [reflexivity|]. split; [reflexivity|]. split; reflexivity.
Qed.

Lemma post_varn_spec st k g parts xaddr0 data sw tag :
  nb_inv_full st -> postn_ok g parts ->
  forall st' id rc, post_varn st k g parts xaddr0 data sw tag = (st', id, rc) ->
  (st' = st /\ id = NC_REQ_NULL) \/
  (rc = NC_NOERR /\ 0 <= id /\ Z.even id = k_isput k /\ nb_inv_full st' /\
   exists newl, l_id newl = id /\ l_tag newl = tag /\ l_geom newl = g /\ l_stride newl = None /\
                l_orig newl = map (fun p => (fst p, part_count (fst p) (snd p), ones_like (fst p)))
                                  (filter (fun p => negb (zprod (part_count (fst p) (snd p)) =? 0)) parts) /\
                l_to_free newl = false /\
                posted_into (k_isput k) st st' newl).
Proof.
  intros (Hinv & Hmax) Hpost st' id rc Hp. unfold post_varn in Hp.
  match type of Hp with (match ?c with true => _ | false => _ end) = _ => destruct c eqn:Ek end.
  { injection Hp as <- <- <-. left. split; reflexivity. }
  cbv zeta in Hp.
  match type of Hp with (if ?c then _ else _) = _ => destruct c eqn:Enb end.
  { injection Hp as <- <- <-. left. split; reflexivity. }
  match type of Hp with context [bput_alloc ?a ?b ?c ?d] =>
    destruct (bput_alloc a b c d) as [[[rc0 ab] aidx] xaddr] eqn:Eb end.
  destruct (negb (rc0 =? NC_NOERR)) eqn:Erc.
  { injection Hp as <- <- <-. left. split; reflexivity. }
  right.
  apply Z.eqb_neq in Enb. pose proof (varn_nreqs_pos g parts Hpost Enb) as Hn.
  destruct Hinv as (Hput & Hget). destruct Hmax as (Hmp & Hmg).
  destruct (k_isput k) eqn:Ekp.
  - name_enqueue Henq pl pr. injection Hp as <- <- <-.
    match type of Henq with enqueue _ _ _ _ ?ml ?mr ?n = _ =>
      set (ML := ml) in *; set (MR := mr) in *; set (NN := n) in * end.
    assert (Hmr' : forall off lo,
               Forall (fun q => areq_wf (mkareq q (ML off) 0 0)) (MR lo) /\
               flat_map (fun q => areq_pairs (mkareq q (ML off) 0 0)) (MR lo) = lead_pairs (ML off) /\
               Forall (fun q => r_lead_off q = lo) (MR lo) /\ Zlen (MR lo) = NN).
    { intros off lo.
      exact (post_varn_reqs_ok g parts xaddr lo (ML off) Hpost eq_refl eq_refl eq_refl eq_refl). }
    assert (Hml : forall off, l_id (ML off) = next_id (Zlen (put_lead st)) (maxPutID st) 0 /\
                              l_nonlead_off (ML off) = off /\ l_nonlead_num (ML off) = NN /\
                              l_to_free (ML off) = false).
    { intros off. split; [reflexivity|]. split; [reflexivity|]. split; reflexivity. }
    destruct (enqueue_next_inv true _ _ _ _ _ _ _ _ 0 _ _ Hput (or_nil_imp _ _ Hmp) eq_refl (Z.le_refl 0)
                               Hn Hml Hmr' Henq)
      as (Hev & Hid & Hq & kept & shifted & off & El & _ & El').
    split; [reflexivity|]. split; [exact Hid|]. split; [exact Hev|].
    split; [split; [split; [exact Hq|exact Hget]|split; [right; exact Hev|exact Hmg]]|].
    exists (ML off). split; [reflexivity|]. split; [reflexivity|]. split; [reflexivity|].
    split; [reflexivity|]. split; [reflexivity|]. split; [reflexivity|].
    exists kept, shifted. split; [exact El|]. split; [exact El'|].
    split; [reflexivity|]. split; [reflexivity|]. split; reflexivity.
  - name_enqueue Henq pl pr. injection Hp as <- <- <-.
    match type of Henq with enqueue _ _ _ _ ?ml ?mr ?n = _ =>
      set (ML := ml) in *; set (MR := mr) in *; set (NN := n) in * end.
    assert (Hmr' : forall off lo,
               Forall (fun q => areq_wf (mkareq q (ML off) 0 0)) (MR lo) /\
               flat_map (fun q => areq_pairs (mkareq q (ML off) 0 0)) (MR lo) = lead_pairs (ML off) /\
               Forall (fun q => r_lead_off q = lo) (MR lo) /\ Zlen (MR lo) = NN).
    { intros off lo.
      exact (post_varn_reqs_ok g parts xaddr lo (ML off) Hpost eq_refl eq_refl eq_refl eq_refl). }
    assert (Hml : forall off, l_id (ML off) = next_id (Zlen (get_lead st)) (maxGetID st) 1 /\
                              l_nonlead_off (ML off) = off /\ l_nonlead_num (ML off) = NN /\
                              l_to_free (ML off) = false).
    { intros off. split; [reflexivity|]. split; [reflexivity|]. split; reflexivity. }
    destruct (enqueue_next_inv false _ _ _ _ _ _ _ _ 1 _ _ Hget (or_nil_imp _ _ Hmg) eq_refl Z.le_0_1
                               Hn Hml Hmr' Henq)
      as (Hev & Hid & Hq & kept & shifted & off & El & _ & El').
    split; [reflexivity|]. split; [exact Hid|]. split; [exact Hev|].
    split; [split; [split; [exact Hput|exact Hq]|split; [exact Hmp|right; exact Hev]]|].
    exists (ML off). split; [reflexivity|]. split; [reflexivity|]. split; [reflexivity|].
    split; [reflexivity|]. split; [reflexivity|]. split; [reflexivity|].
    exists kept, shifted. split; [exact El|]. split; [exact El'|].
    split; [reflexivity|]. split; [reflexivity|]. split; reflexivity.
Qed.

(* ---------- corollaries in the form used by the history theorems ---------- *)
Theorem post_varm_inv st k g start count stride xaddr data sw tag :
  nb_inv_full st -> post_ok g start count stride ->
  nb_inv_full (fst (fst (post_varm st k g start count stride xaddr data sw tag))).
Proof.
  intros Hi Hp. destruct (post_varm st k g start count stride xaddr data sw tag) as [[st' id] rc] eqn:E.
  cbn [fst].
  destruct (post_varm_spec _ _ _ _ _ _ _ _ _ _ Hi Hp _ _ _ E) as [(-> & _)|(_ & _ & _ & H & _)]; assumption.
Qed.

Theorem post_varn_inv st k g parts xaddr data sw tag :
  nb_inv_full st -> postn_ok g parts ->
  nb_inv_full (fst (fst (post_varn st k g parts xaddr data sw tag))).
Proof.
  intros Hi Hp. destruct (post_varn st k g parts xaddr data sw tag) as [[st' id] rc] eqn:E.
  cbn [fst].
  destruct (post_varn_spec _ _ _ _ _ _ _ _ Hi Hp _ _ _ E) as [(-> & _)|(_ & _ & _ & H & _)]; assumption.
Qed.

Lemma posted_into_In isput st st' newl :
  posted_into isput st st' newl ->
  In newl (if isput then put_lead st' else get_lead st') /\ nreqs st' = nreqs st + 1.
Proof.
  intros (kept & shifted & H). unfold nreqs. destruct isput.
  - destruct H as (E1 & E2 & E3 & _). rewrite E1, E2, E3. split; [apply in_elt|].
    unfold shift_leads. rewrite !Zlen_app, Proofs_Disk.Zlen_cons, Zlen_map. lia.
  - destruct H as (E1 & E2 & E3 & _). rewrite E1, E2, E3. split; [apply in_elt|].
    unfold shift_leads. rewrite !Zlen_app, Proofs_Disk.Zlen_cons, Zlen_map. lia.
Qed.

Theorem post_varm_id st k g start count stride xaddr data sw tag :
  nb_inv_full st -> post_ok g start count stride ->
  let '(st', id, rc) := post_varm st k g start count stride xaddr data sw tag in
  rc = NC_NOERR -> id <> NC_REQ_NULL ->
  Z.even id = k_isput k /\
  exists l, In l (if k_isput k then put_lead st' else get_lead st') /\ l_id l = id /\ l_tag l = tag /\
            l_orig l = [(start, count, match stride with Some t => t | None => ones_like count end)] /\
            l_to_free l = false /\ nreqs st' = nreqs st + 1.
Proof.
  intros Hi Hp. destruct (post_varm st k g start count stride xaddr data sw tag) as [[st' id] rc] eqn:E.
  intros Hrc Hid.
  destruct (post_varm_spec _ _ _ _ _ _ _ _ _ _ Hi Hp _ _ _ E)
    as [(_ & Hn)|(_ & _ & Hev & _ & l & H1 & H2 & _ & _ & H5 & H6 & _ & H8)]; [contradiction|].
  split; [exact Hev|]. destruct (posted_into_In _ _ _ _ H8) as (Hin & Hnr).
  exists l. repeat split; assumption.
Qed.

Theorem post_varm_null st k g start count stride xaddr data sw tag :
  nb_inv_full st -> post_ok g start count stride ->
  let '(st', id, rc) := post_varm st k g start count stride xaddr data sw tag in
  rc <> NC_NOERR \/ id = NC_REQ_NULL -> st' = st.
Proof.
  intros Hi Hp. destruct (post_varm st k g start count stride xaddr data sw tag) as [[st' id] rc] eqn:E.
  intros Hor.
  destruct (post_varm_spec _ _ _ _ _ _ _ _ _ _ Hi Hp _ _ _ E) as [(H & _)|(Hrc & Hid & _)]; [exact H|].
  exfalso. destruct Hor as [H|H]; [contradiction|]. unfold NC_REQ_NULL in H. lia.
Qed.

Theorem post_varn_id st k g parts xaddr data sw tag :
  nb_inv_full st -> postn_ok g parts ->
  let '(st', id, rc) := post_varn st k g parts xaddr data sw tag in
  rc = NC_NOERR -> id <> NC_REQ_NULL ->
  Z.even id = k_isput k /\
  exists l, In l (if k_isput k then put_lead st' else get_lead st') /\ l_id l = id /\ l_tag l = tag /\
            l_orig l = map (fun p => (fst p, part_count (fst p) (snd p), ones_like (fst p)))
                           (filter (fun p => negb (zprod (part_count (fst p) (snd p)) =? 0)) parts) /\
            l_to_free l = false /\ nreqs st' = nreqs st + 1.
Proof.
  intros Hi Hp. destruct (post_varn st k g parts xaddr data sw tag) as [[st' id] rc] eqn:E.
  intros Hrc Hid.
  destruct (post_varn_spec _ _ _ _ _ _ _ _ Hi Hp _ _ _ E)
    as [(_ & Hn)|(_ & _ & Hev & _ & l & H1 & H2 & _ & _ & H5 & H6 & H8)]; [contradiction|].
  split; [exact Hev|]. destruct (posted_into_In _ _ _ _ H8) as (Hin & Hnr).
  exists l. repeat split; assumption.
Qed.

Theorem post_varn_null st k g parts xaddr data sw tag :
  nb_inv_full st -> postn_ok g parts ->
  let '(st', id, rc) := post_varn st k g parts xaddr data sw tag in
  rc <> NC_NOERR \/ id = NC_REQ_NULL -> st' = st.
Proof.
  intros Hi Hp. destruct (post_varn st k g parts xaddr data sw tag) as [[st' id] rc] eqn:E.
  intros Hor.
  destruct (post_varn_spec _ _ _ _ _ _ _ _ Hi Hp _ _ _ E) as [(H & _)|(Hrc & Hid & _)]; [exact H|].
  exfalso. destruct Hor as [H|H]; [contradiction|]. unfold NC_REQ_NULL in H. lia.
Qed.

End WithGeometry.

(* ====================================================================== *)
(* 7. Q3 cancel                                                            *)
(* ====================================================================== *)
(* the same pending request, up to its position in the queue *)
Definition lead_same (l l' : lead) : Prop :=
  l_id l' = l_id l /\ l_tag l' = l_tag l /\ l_orig l' = l_orig l /\ l_xaddr l' = l_xaddr l /\
  l_geom l' = l_geom l /\ l_swapbuf l' = l_swapbuf l.

Lemma lead_same_refl l : lead_same l l.
Proof. repeat split. Qed.
Lemma lead_same_set_off l x : lead_same l (l_set_off l x).
Proof. repeat split. Qed.
Lemma lead_same_trans a b c : lead_same a b -> lead_same b c -> lead_same a c.
Proof.
  intros (A1 & A2 & A3 & A4 & A5 & A6) (B1 & B2 & B3 & B4 & B5 & B6).
  unfold lead_same. rewrite B1, B2, B3, B4, B5, B6. repeat split; assumption.
Qed.

Lemma In_shift_same n B l : In l B -> exists l', In l' (shift_leads n B) /\ lead_same l l'.
Proof.
  intros H. exists (l_set_off l (l_nonlead_off l + n)). split; [|apply lead_same_set_off].
  unfold shift_leads. apply in_map_iff. exists l. split; [reflexivity|exact H].
Qed.

(* posting keeps every pending request *)
Lemma posted_into_frame isput st st' newl :
  posted_into isput st st' newl ->
  forall l, In l (put_lead st ++ get_lead st) ->
  exists l', In l' (put_lead st' ++ get_lead st') /\ lead_same l l'.
Proof.
  intros (kept & shifted & H) l Hin. apply in_app_or in Hin. destruct isput.
  - destruct H as (E1 & E2 & E3 & _). rewrite E2, E3. destruct Hin as [Hin|Hin].
    + rewrite E1 in Hin. apply in_app_or in Hin. destruct Hin as [Hin|Hin].
      * exists l. split; [|apply lead_same_refl]. apply in_or_app. left. apply in_or_app. left. exact Hin.
      * destruct (In_shift_same (l_nonlead_num newl) _ _ Hin) as (l' & Hl' & Hs).
        exists l'. split; [|exact Hs]. apply in_or_app. left. apply in_or_app. right. right. exact Hl'.
    + exists l. split; [|apply lead_same_refl]. apply in_or_app. right. exact Hin.
  - destruct H as (E1 & E2 & E3 & _). rewrite E2, E3. destruct Hin as [Hin|Hin].
    + exists l. split; [|apply lead_same_refl]. apply in_or_app. left. exact Hin.
    + rewrite E1 in Hin. apply in_app_or in Hin. destruct Hin as [Hin|Hin].
      * exists l. split; [|apply lead_same_refl]. apply in_or_app. right. apply in_or_app. left. exact Hin.
      * destruct (In_shift_same (l_nonlead_num newl) _ _ Hin) as (l' & Hl' & Hs).
        exists l'. split; [|exact Hs]. apply in_or_app. right. apply in_or_app. right. right. exact Hl'.
Qed.

Lemma remove_lead_spec : forall leads x leads' f,
  remove_lead leads x = Some (leads', f) ->
  exists A B, leads = A ++ f :: B /\ leads' = A ++ shift_leads (- l_nonlead_num f) B /\
              l_id f = x /\ x <> NC_REQ_NULL.
Proof.
  induction leads as [|l r IH]; intros x leads' f H; cbn [remove_lead] in H; [discriminate|].
  destruct (negb (l_id l =? NC_REQ_NULL) && (l_id l =? x)) eqn:E.
  - injection H as <- <-. exists [], r. split; [reflexivity|]. split; [|lia].
    cbn [app]. unfold shift_leads. apply map_ext. intros a. f_equal; lia.
  - destruct (remove_lead r x) as [[r' f']|] eqn:Er; [|discriminate]. injection H as <- <-.
    destruct (IH _ _ _ Er) as (A & B & -> & -> & Hid & Hx).
    exists (l :: A), B. split; [reflexivity|]. split; [reflexivity|]. split; assumption.
Qed.

Lemma remove_lead_none : forall leads x,
  remove_lead leads x = None -> x <> NC_REQ_NULL -> ~ In x (map l_id leads).
Proof.
  induction leads as [|l r IH]; intros x H Hx; cbn [remove_lead] in H; cbn [map In]; [tauto|].
  destruct (negb (l_id l =? NC_REQ_NULL) && (l_id l =? x)) eqn:E; [discriminate|].
  destruct (remove_lead r x) as [[r' f']|] eqn:Er; [discriminate|].
  intros [Hl|Hr]; [lia|]. exact (IH _ Er Hx Hr).
Qed.

Theorem remove_inv isput maxid leads reqs x leads' f :
  queue_inv isput maxid leads reqs -> remove_lead leads x = Some (leads', f) ->
  queue_inv isput maxid leads' (remove_slice reqs (l_nonlead_off f) (l_nonlead_num f)).
Proof.
  intros Hq Hr. apply queue_inv_chunks in Hq. destruct Hq as (Hnd & Hmax & Hch & Hfree).
  destruct (remove_lead_spec _ _ _ _ Hr) as (A & B & -> & -> & Hid & Hx).
  apply qchunks_app_elim in Hch. destruct Hch as (ra & rb' & -> & HA & HfB).
  cbn [qchunks] in HfB. destruct HfB as (b & rest & -> & Hoff & Hb & Hpos & HF & Hc & Hrest).
  assert (Ers : remove_slice (ra ++ b ++ rest) (l_nonlead_off f) (l_nonlead_num f) = ra ++ bump_reqs (-1) rest).
  { unfold remove_slice. rewrite zfirstn_app_len by lia. f_equal.
    rewrite app_assoc, zskipn_app_len by (rewrite Zlen_app; lia).
    unfold bump_reqs. apply map_ext. intros a. f_equal; lia. }
  rewrite Ers. apply queue_inv_chunks. split; [|split; [|split]].
  - rewrite map_app in *. cbn [map] in Hnd. apply NoDup_remove_1 in Hnd.
    unfold shift_leads. rewrite map_set_off_id. exact Hnd.
  - apply Forall_app in Hmax. destruct Hmax as (H1 & H2). apply Forall_app. split; [exact H1|].
    apply Forall_set_off; [intros l y Hl; exact Hl|]. exact (Forall_inv_tail H2).
  - apply qchunks_app_intro; [exact HA|].
    apply (qchunks_shift isput (- l_nonlead_num f) (-1)) in Hrest. revert Hrest.
    apply qchunks_eq; rewrite ?Proofs_Disk.Zlen_cons; lia.
  - apply Forall_app in Hfree. destruct Hfree as (H1 & H2). apply Forall_app. split; [exact H1|].
    apply Forall_set_off; [intros l y Hl; exact Hl|]. exact (Forall_inv_tail H2).
Qed.

Lemma remove_frame leads x leads' f l :
  remove_lead leads x = Some (leads', f) -> In l leads -> l_id l <> x ->
  exists l', In l' leads' /\ lead_same l l'.
Proof.
  intros Hr Hin Hne. destruct (remove_lead_spec _ _ _ _ Hr) as (A & B & -> & -> & Hid & Hx).
  apply in_app_or in Hin. destruct Hin as [Hin|[Hin|Hin]].
  - exists l. split; [apply in_or_app; left; exact Hin|apply lead_same_refl].
  - subst l. contradiction.
  - destruct (In_shift_same (- l_nonlead_num f) _ _ Hin) as (l' & Hl' & Hs).
    exists l'. split; [apply in_or_app; right; exact Hl'|exact Hs].
Qed.

(* ids after a removal: the removed id is gone, nothing is added *)
Lemma remove_ids leads x leads' f :
  NoDup (map l_id leads) -> remove_lead leads x = Some (leads', f) ->
  ~ In x (map l_id leads') /\ incl (map l_id leads') (map l_id leads).
Proof.
  intros Hnd Hr. destruct (remove_lead_spec _ _ _ _ Hr) as (A & B & -> & -> & Hid & Hx).
  rewrite !map_app in *. cbn [map] in *. unfold shift_leads. rewrite map_set_off_id.
  rewrite Hid in Hnd. split; [exact (NoDup_remove_2 _ _ _ Hnd)|].
  intros y Hy. apply in_app_or in Hy. apply in_or_app. destruct Hy as [Hy|Hy]; [left; exact Hy|right; right; exact Hy].
Qed.

Lemma remove_nonempty leads x leads' f : remove_lead leads x = Some (leads', f) -> leads <> [].
Proof. destruct leads; [discriminate|discriminate]. Qed.

(* the state component of cancel_ids *)
Fixpoint cancel_st (st : nbstate) (ids : list Z) : nbstate :=
  match ids with
  | [] => st
  | x :: r =>
      if x =? NC_REQ_NULL then cancel_st st r
      else if Z.land x 1 =? 1 then
        match remove_lead (get_lead st) x with
        | Some (gl, l) =>
            cancel_st (set_get st gl (remove_slice (get_reqs st) (l_nonlead_off l) (l_nonlead_num l))) r
        | None => cancel_st st r
        end
      else
        match remove_lead (put_lead st) x with
        | Some (pl, l) =>
            cancel_st (set_abuf (set_put st pl (remove_slice (put_reqs st) (l_nonlead_off l) (l_nonlead_num l)))
                                (match st_abuf st with
                                 | Some a => if 0 <=? l_abuf_index l then Some (abuf_release a (l_abuf_index l)) else Some a
                                 | None => None end)) r
        | None => cancel_st st r
        end
  end.

Definition cst (r : nbstate * list Z * list Z * Z * list event) : nbstate := fst (fst (fst (fst r))).

Lemma cancel_ids_st : forall ids st i stat rc ev, cst (cancel_ids st ids i stat rc ev) = cancel_st st ids.
Proof.
  induction ids as [|x r IH]; intros st i stat rc ev; cbn [cancel_ids cancel_st]; [reflexivity|].
  destruct (x =? NC_REQ_NULL).
  { match goal with |- context [cancel_ids ?s r ?j ?t ?c ?e] =>
      specialize (IH s j t c e); destruct (cancel_ids s r j t c e) as [[[[s' a] b] c'] d] end.
    exact IH. }
  destruct (Z.land x 1 =? 1).
  - destruct (remove_lead (get_lead st) x) as [[gl l]|].
    + match goal with |- context [cancel_ids ?s r ?j ?t ?c ?e] =>
        specialize (IH s j t c e); destruct (cancel_ids s r j t c e) as [[[[s' a] b] c'] d] end.
      exact IH.
    + match goal with |- context [cancel_ids ?s r ?j ?t ?c ?e] =>
        specialize (IH s j t c e); destruct (cancel_ids s r j t c e) as [[[[s' a] b] c'] d] end.
      exact IH.
  - destruct (remove_lead (put_lead st) x) as [[pl l]|].
    + match goal with |- context [cancel_ids ?s r ?j ?t ?c ?e] =>
        specialize (IH s j t c e); destruct (cancel_ids s r j t c e) as [[[[s' a] b] c'] d] end.
      exact IH.
    + match goal with |- context [cancel_ids ?s r ?j ?t ?c ?e] =>
        specialize (IH s j t c e); destruct (cancel_ids s r j t c e) as [[[[s' a] b] c'] d] end.
      exact IH.
Qed.

(* one removal step on either queue: nb_inv alone is preserved (no id is created) *)
Lemma step_get_nb st x gl l :
  nb_inv st -> remove_lead (get_lead st) x = Some (gl, l) ->
  nb_inv (set_get st gl (remove_slice (get_reqs st) (l_nonlead_off l) (l_nonlead_num l))).
Proof.
  intros (Hp & Hg) Hr. split; cbn [set_get put_lead put_reqs get_lead get_reqs maxPutID maxGetID].
  - exact Hp.
  - exact (remove_inv _ _ _ _ _ _ _ Hg Hr).
Qed.

Lemma step_put_nb st x pl l ab :
  nb_inv st -> remove_lead (put_lead st) x = Some (pl, l) ->
  nb_inv (set_abuf (set_put st pl (remove_slice (put_reqs st) (l_nonlead_off l) (l_nonlead_num l))) ab).
Proof.
  intros (Hp & Hg) Hr. split; cbn [set_abuf set_put put_lead put_reqs get_lead get_reqs maxPutID maxGetID].
  - exact (remove_inv _ _ _ _ _ _ _ Hp Hr).
  - exact Hg.
Qed.

Lemma cancel_st_nb : forall ids st, nb_inv st -> nb_inv (cancel_st st ids).
Proof.
  induction ids as [|x r IH]; intros st H; cbn [cancel_st]; [exact H|].
  destruct (x =? NC_REQ_NULL); [apply IH; exact H|].
  destruct (Z.land x 1 =? 1).
  - destruct (remove_lead (get_lead st) x) as [[gl l]|] eqn:Er; [|apply IH; exact H].
    apply IH. exact (step_get_nb _ _ _ _ H Er).
  - destruct (remove_lead (put_lead st) x) as [[pl l]|] eqn:Er; [|apply IH; exact H].
    apply IH. exact (step_put_nb _ _ _ _ _ H Er).
Qed.

(* one removal step on either queue *)
Lemma step_get_inv st x gl l :
  nb_inv_full st -> remove_lead (get_lead st) x = Some (gl, l) ->
  nb_inv_full (set_get st gl (remove_slice (get_reqs st) (l_nonlead_off l) (l_nonlead_num l))).
Proof.
  intros ((Hp & Hg) & (Hmp & Hmg)) Hr. split; split; cbn [set_get put_lead put_reqs get_lead get_reqs maxPutID maxGetID].
  - exact Hp.
  - exact (remove_inv _ _ _ _ _ _ _ Hg Hr).
  - exact Hmp.
  - right. exact (or_nil_imp _ _ Hmg (remove_nonempty _ _ _ _ Hr)).
Qed.

Lemma step_put_inv st x pl l ab :
  nb_inv_full st -> remove_lead (put_lead st) x = Some (pl, l) ->
  nb_inv_full (set_abuf (set_put st pl (remove_slice (put_reqs st) (l_nonlead_off l) (l_nonlead_num l))) ab).
Proof.
  intros ((Hp & Hg) & (Hmp & Hmg)) Hr.
  split; split; cbn [set_abuf set_put put_lead put_reqs get_lead get_reqs maxPutID maxGetID].
  - exact (remove_inv _ _ _ _ _ _ _ Hp Hr).
  - exact Hg.
  - right. exact (or_nil_imp _ _ Hmp (remove_nonempty _ _ _ _ Hr)).
  - exact Hmg.
Qed.

Lemma cancel_st_inv : forall ids st, nb_inv_full st -> nb_inv_full (cancel_st st ids).
Proof.
  induction ids as [|x r IH]; intros st H; cbn [cancel_st]; [exact H|].
  destruct (x =? NC_REQ_NULL); [apply IH; exact H|].
  destruct (Z.land x 1 =? 1).
  - destruct (remove_lead (get_lead st) x) as [[gl l]|] eqn:Er; [|apply IH; exact H].
    apply IH. exact (step_get_inv _ _ _ _ H Er).
  - destruct (remove_lead (put_lead st) x) as [[pl l]|] eqn:Er; [|apply IH; exact H].
    apply IH. exact (step_put_inv _ _ _ _ _ H Er).
Qed.

Definition all_leads (st : nbstate) : list lead := put_lead st ++ get_lead st.

Lemma cancel_st_frame : forall ids st l,
  In l (all_leads st) -> ~ In (l_id l) ids ->
  exists l', In l' (all_leads (cancel_st st ids)) /\ lead_same l l'.
Proof.
  induction ids as [|x r IH]; intros st l Hin Hni; cbn [cancel_st].
  { exists l. split; [exact Hin|apply lead_same_refl]. }
  assert (Hne : l_id l <> x) by (intros E; apply Hni; left; symmetry; exact E).
  assert (Hnr : ~ In (l_id l) r) by (intros E; apply Hni; right; exact E).
  destruct (x =? NC_REQ_NULL); [apply IH; assumption|].
  destruct (Z.land x 1 =? 1).
  - destruct (remove_lead (get_lead st) x) as [[gl f]|] eqn:Er; [|apply IH; assumption].
    assert (H1 : exists l1, In l1 (all_leads (set_get st gl (remove_slice (get_reqs st) (l_nonlead_off f) (l_nonlead_num f)))) /\
                            lead_same l l1).
    { unfold all_leads in *. cbn [set_get put_lead get_lead]. apply in_app_or in Hin. destruct Hin as [Hin|Hin].
      - exists l. split; [apply in_or_app; left; exact Hin|apply lead_same_refl].
      - destruct (remove_frame _ _ _ _ _ Er Hin Hne) as (l1 & Hl1 & Hs).
        exists l1. split; [apply in_or_app; right; exact Hl1|exact Hs]. }
    destruct H1 as (l1 & Hl1 & Hs1).
    destruct (IH _ l1 Hl1) as (l' & Hl' & Hs').
    { destruct Hs1 as (E & _). rewrite E. exact Hnr. }
    exists l'. split; [exact Hl'|exact (lead_same_trans _ _ _ Hs1 Hs')].
  - destruct (remove_lead (put_lead st) x) as [[pl f]|] eqn:Er; [|apply IH; assumption].
    match goal with |- context [cancel_st ?s r] => set (st1 := s) end.
    assert (H1 : exists l1, In l1 (all_leads st1) /\ lead_same l l1).
    { unfold all_leads in *. unfold st1. cbn [set_abuf set_put put_lead get_lead].
      apply in_app_or in Hin. destruct Hin as [Hin|Hin].
      - destruct (remove_frame _ _ _ _ _ Er Hin Hne) as (l1 & Hl1 & Hs).
        exists l1. split; [apply in_or_app; left; exact Hl1|exact Hs].
      - exists l. split; [apply in_or_app; right; exact Hin|apply lead_same_refl]. }
    destruct H1 as (l1 & Hl1 & Hs1).
    destruct (IH _ l1 Hl1) as (l' & Hl' & Hs').
    { destruct Hs1 as (E & _). rewrite E. exact Hnr. }
    exists l'. split; [exact Hl'|exact (lead_same_trans _ _ _ Hs1 Hs')].
Qed.

Lemma land1_odd x : (Z.land x 1 =? 1) = Z.odd x.
Proof.
  change (Z.land x 1) with (Z.land x (Z.ones 1)). rewrite Z.land_ones by lia.
  change (2 ^ 1) with 2. rewrite Zmod_odd. destruct (Z.odd x); reflexivity.
Qed.

Lemma queue_ids_parity isput maxid leads reqs y :
  queue_inv isput maxid leads reqs -> In y (map l_id leads) -> Z.even y = isput.
Proof.
  intros (_ & _ & _ & Hwf & _) Hin. apply in_map_iff in Hin. destruct Hin as (l & <- & Hl).
  rewrite Forall_forall in Hwf. destruct (Hwf l Hl) as (He & _). exact He.
Qed.

(* cancel never adds an id *)
Lemma cancel_st_ids_incl : forall ids st, nb_inv st ->
  incl (map l_id (all_leads (cancel_st st ids))) (map l_id (all_leads st)).
Proof.
  induction ids as [|x r IH]; intros st H; cbn [cancel_st]; [apply incl_refl|].
  destruct (x =? NC_REQ_NULL); [apply IH; exact H|].
  destruct (Z.land x 1 =? 1).
  - destruct (remove_lead (get_lead st) x) as [[gl f]|] eqn:Er; [|apply IH; exact H].
    eapply incl_tran; [apply IH; exact (step_get_nb _ _ _ _ H Er)|].
    destruct H as (_ & Hg). destruct Hg as (Hnd & _).
    destruct (remove_ids _ _ _ _ Hnd Er) as (_ & Hincl).
    unfold all_leads. cbn [set_get put_lead get_lead]. rewrite !map_app.
    apply incl_app; [apply incl_appl, incl_refl|apply incl_appr; exact Hincl].
  - destruct (remove_lead (put_lead st) x) as [[pl f]|] eqn:Er; [|apply IH; exact H].
    eapply incl_tran; [apply IH; exact (step_put_nb _ _ _ _ _ H Er)|].
    destruct H as (Hp & _). destruct Hp as (Hnd & _).
    destruct (remove_ids _ _ _ _ Hnd Er) as (_ & Hincl).
    unfold all_leads. cbn [set_abuf set_put put_lead get_lead]. rewrite !map_app.
    apply incl_app; [apply incl_appl; exact Hincl|apply incl_appr, incl_refl].
Qed.

Lemma cancel_st_removed : forall ids st, nb_inv st ->
  forall y, 0 <= y -> In y ids -> ~ In y (map l_id (all_leads (cancel_st st ids))).
Proof.
  induction ids as [|x r IH]; intros st H y Hy Hin; [destruct Hin|].
  destruct (Z.eq_dec x y) as [E|E].
  - subst x. clear Hin. cbn [cancel_st].
    destruct (y =? NC_REQ_NULL) eqn:En; [unfold NC_REQ_NULL in En; lia|].
    assert (Hyn : y <> NC_REQ_NULL) by lia.
    pose proof H as (Hp & Hg).
    rewrite land1_odd. destruct (Z.odd y) eqn:Eo.
    + assert (Hnp : ~ In y (map l_id (put_lead st))).
      { intros Hc. apply (queue_ids_parity _ _ _ _ _ Hp) in Hc. rewrite <- Z.negb_odd, Eo in Hc. discriminate. }
      destruct (remove_lead (get_lead st) y) as [[gl f]|] eqn:Er.
      * intros Hc. apply (cancel_st_ids_incl r _ (step_get_nb _ _ _ _ H Er)) in Hc.
        unfold all_leads in Hc. cbn [set_get put_lead get_lead] in Hc. rewrite map_app in Hc.
        apply in_app_or in Hc. destruct Hc as [Hc|Hc]; [exact (Hnp Hc)|].
        destruct Hg as (Hnd & _). destruct (remove_ids _ _ _ _ Hnd Er) as (Hno & _). exact (Hno Hc).
      * intros Hc. apply (cancel_st_ids_incl r _ H) in Hc. unfold all_leads in Hc. rewrite map_app in Hc.
        apply in_app_or in Hc. destruct Hc as [Hc|Hc]; [exact (Hnp Hc)|].
        exact (remove_lead_none _ _ Er Hyn Hc).
    + assert (Hng : ~ In y (map l_id (get_lead st))).
      { intros Hc. apply (queue_ids_parity _ _ _ _ _ Hg) in Hc. rewrite <- Z.negb_odd, Eo in Hc. discriminate. }
      destruct (remove_lead (put_lead st) y) as [[pl f]|] eqn:Er.
      * intros Hc. apply (cancel_st_ids_incl r _ (step_put_nb _ _ _ _ _ H Er)) in Hc.
        unfold all_leads in Hc. cbn [set_abuf set_put put_lead get_lead] in Hc. rewrite map_app in Hc.
        apply in_app_or in Hc. destruct Hc as [Hc|Hc]; [|exact (Hng Hc)].
        destruct Hp as (Hnd & _). destruct (remove_ids _ _ _ _ Hnd Er) as (Hno & _). exact (Hno Hc).
      * intros Hc. apply (cancel_st_ids_incl r _ H) in Hc. unfold all_leads in Hc. rewrite map_app in Hc.
        apply in_app_or in Hc. destruct Hc as [Hc|Hc]; [|exact (Hng Hc)].
        exact (remove_lead_none _ _ Er Hyn Hc).
  - assert (Hr : In y r) by (destruct Hin as [Hin|Hin]; [contradiction|exact Hin]).
    cbn [cancel_st].
    destruct (x =? NC_REQ_NULL); [apply IH; assumption|].
    destruct (Z.land x 1 =? 1).
    + destruct (remove_lead (get_lead st) x) as [[gl f]|] eqn:Er; [|apply IH; assumption].
      apply IH; [exact (step_get_nb _ _ _ _ H Er)|exact Hy|exact Hr].
    + destruct (remove_lead (put_lead st) x) as [[pl f]|] eqn:Er; [|apply IH; assumption].
      apply IH; [exact (step_put_nb _ _ _ _ _ H Er)|exact Hy|exact Hr].
Qed.

(* ---------- cancel itself ---------- *)
Lemma cancel_pos_queues st n ids stat0 :
  0 < n ->
  put_lead (wr_st (cancel st n ids stat0)) = put_lead (cancel_st st ids) /\
  get_lead (wr_st (cancel st n ids stat0)) = get_lead (cancel_st st ids) /\
  put_reqs (wr_st (cancel st n ids stat0)) = put_reqs (cancel_st st ids) /\
  get_reqs (wr_st (cancel st n ids stat0)) = get_reqs (cancel_st st ids) /\
  maxPutID (wr_st (cancel st n ids stat0)) = maxPutID (cancel_st st ids) /\
  maxGetID (wr_st (cancel st n ids stat0)) = maxGetID (cancel_st st ids).
Proof.
  intros Hn. unfold cancel.
  destruct (n =? 0) eqn:E0; [lia|].
  destruct (n <? NC_PUT_REQ_ALL) eqn:E1; [unfold NC_PUT_REQ_ALL in E1; lia|].
  destruct (n <? 0) eqn:E2; [lia|].
  pose proof (cancel_ids_st ids st 0 stat0 NC_NOERR []) as Hc.
  destruct (cancel_ids st ids 0 stat0 NC_NOERR []) as [[[[st1 ids'] stat'] rc] ev].
  unfold cst in Hc. cbn [fst] in Hc. subst st1. cbn [wr_st]. repeat split.
Qed.

Lemma cancel_zero st ids stat0 : wr_st (cancel st 0 ids stat0) = st.
Proof. reflexivity. Qed.

Theorem cancel_inv st n ids stat0 : nb_inv_full st -> nb_inv_full (wr_st (cancel st n ids stat0)).
Proof.
  intros H. destruct (Z.ltb_spec 0 n) as [Hn|Hn].
  - destruct (cancel_pos_queues st n ids stat0 Hn) as (E1 & E2 & E3 & E4 & E5 & E6).
    exact (nb_inv_full_ext _ _ E1 E2 E3 E4 E5 E6 (cancel_st_inv ids st H)).
  - unfold cancel.
    destruct (n =? 0) eqn:E0; [exact H|].
    destruct (n <? NC_PUT_REQ_ALL) eqn:E1; [exact H|].
    destruct (n <? 0) eqn:E2; [|lia].
    cbv zeta. destruct H as ((Hp & Hg) & (Hmp & Hmg)).
    destruct ((n =? NC_GET_REQ_ALL) || (n =? NC_REQ_ALL));
      destruct ((n =? NC_PUT_REQ_ALL) || (n =? NC_REQ_ALL)); cbn [wr_st];
      (split; split; cbn [set_abuf set_put set_get put_lead put_reqs get_lead get_reqs maxPutID maxGetID];
       first [apply queue_inv_nil | assumption | left; reflexivity]).
Qed.

(* nb_inv alone IS preserved by cancel (no id is created) *)
Lemma nb_inv_ext st st' :
  put_lead st' = put_lead st -> get_lead st' = get_lead st ->
  put_reqs st' = put_reqs st -> get_reqs st' = get_reqs st ->
  maxPutID st' = maxPutID st -> maxGetID st' = maxGetID st ->
  nb_inv st -> nb_inv st'.
Proof.
  intros E1 E2 E3 E4 E5 E6 H. unfold nb_inv in *. rewrite E1, E2, E3, E4, E5, E6. exact H.
Qed.

Theorem cancel_inv_nb st n ids stat0 : nb_inv st -> nb_inv (wr_st (cancel st n ids stat0)).
Proof.
  intros H. destruct (Z.ltb_spec 0 n) as [Hn|Hn].
  - destruct (cancel_pos_queues st n ids stat0 Hn) as (E1 & E2 & E3 & E4 & E5 & E6).
    exact (nb_inv_ext _ _ E1 E2 E3 E4 E5 E6 (cancel_st_nb ids st H)).
  - unfold cancel.
    destruct (n =? 0) eqn:E0; [exact H|].
    destruct (n <? NC_PUT_REQ_ALL) eqn:E1; [exact H|].
    destruct (n <? 0) eqn:E2; [|lia].
    cbv zeta. destruct H as (Hp & Hg).
    destruct ((n =? NC_GET_REQ_ALL) || (n =? NC_REQ_ALL));
      destruct ((n =? NC_PUT_REQ_ALL) || (n =? NC_REQ_ALL)); cbn [wr_st];
      (split; cbn [set_abuf set_put set_get put_lead put_reqs get_lead get_reqs maxPutID maxGetID];
       first [apply queue_inv_nil | assumption]).
Qed.

(* cancel never touches the max ids *)
Theorem cancel_maxids st n ids stat0 :
  maxPutID (wr_st (cancel st n ids stat0)) = maxPutID st /\
  maxGetID (wr_st (cancel st n ids stat0)) = maxGetID st.
Proof.
  assert (Hc : forall ids st, maxPutID (cancel_st st ids) = maxPutID st /\ maxGetID (cancel_st st ids) = maxGetID st).
  { clear. induction ids as [|x r IH]; intros st; cbn [cancel_st]; [split; reflexivity|].
    destruct (x =? NC_REQ_NULL); [apply IH|].
    destruct (Z.land x 1 =? 1).
    - destruct (remove_lead (get_lead st) x) as [[gl l]|]; [|apply IH].
      destruct (IH (set_get st gl (remove_slice (get_reqs st) (l_nonlead_off l) (l_nonlead_num l)))) as (A & B).
      rewrite A, B. split; reflexivity.
    - destruct (remove_lead (put_lead st) x) as [[pl l]|]; [|apply IH].
      match goal with |- context [cancel_st ?s r] => destruct (IH s) as (A & B) end.
      rewrite A, B. split; reflexivity. }
  destruct (Z.ltb_spec 0 n) as [Hn|Hn].
  - destruct (cancel_pos_queues st n ids stat0 Hn) as (_ & _ & _ & _ & E5 & E6).
    rewrite E5, E6. apply Hc.
  - unfold cancel.
    destruct (n =? 0) eqn:E0; [split; reflexivity|].
    destruct (n <? NC_PUT_REQ_ALL) eqn:E1; [split; reflexivity|].
    destruct (n <? 0) eqn:E2; [|lia].
    cbv zeta.
    destruct ((n =? NC_GET_REQ_ALL) || (n =? NC_REQ_ALL));
      destruct ((n =? NC_PUT_REQ_ALL) || (n =? NC_REQ_ALL)); cbn [wr_st]; split; reflexivity.
Qed.

(* requests not named stay pending, unchanged up to their position in the queue *)
Theorem cancel_ids_frame st n ids stat0 :
  0 <= n ->
  forall l, In l (put_lead st ++ get_lead st) -> ~ In (l_id l) ids ->
  exists l', In l' (put_lead (wr_st (cancel st n ids stat0)) ++ get_lead (wr_st (cancel st n ids stat0))) /\
             l_id l' = l_id l /\ l_tag l' = l_tag l /\ l_orig l' = l_orig l /\ l_xaddr l' = l_xaddr l /\
             l_geom l' = l_geom l /\ l_swapbuf l' = l_swapbuf l.
Proof.
  intros Hn l Hin Hni. destruct (Z.eq_dec n 0) as [E|E].
  - subst n. rewrite cancel_zero. exists l. split; [exact Hin|]. repeat split.
  - destruct (cancel_pos_queues st n ids stat0 ltac:(lia)) as (E1 & E2 & _). rewrite E1, E2.
    exact (cancel_st_frame ids st l Hin Hni).
Qed.

(* requests named are gone *)
Theorem cancel_ids_removed st n ids stat0 :
  nb_inv st -> 0 < n ->
  forall l, In l (put_lead st ++ get_lead st) -> In (l_id l) ids ->
  ~ In (l_id l) (map l_id (put_lead (wr_st (cancel st n ids stat0)) ++ get_lead (wr_st (cancel st n ids stat0)))).
Proof.
  intros H Hn l Hin Hid.
  destruct (cancel_pos_queues st n ids stat0 Hn) as (E1 & E2 & _). rewrite E1, E2.
  apply (cancel_st_removed ids st H); [|exact Hid].
  destruct H as (Hp & Hg). apply in_app_or in Hin. destruct Hin as [Hin|Hin].
  - destruct Hp as (_ & _ & _ & Hwf & _). rewrite Forall_forall in Hwf. destruct (Hwf l Hin) as (_ & H0 & _). exact H0.
  - destruct Hg as (_ & _ & _ & Hwf & _). rewrite Forall_forall in Hwf. destruct (Hwf l Hin) as (_ & H0 & _). exact H0.
Qed.

(* ====================================================================== *)
(* 8. Examples: the invariant and the hypotheses are satisfiable            *)
(* ====================================================================== *)
(* for fully evaluated (vm_compute) closed propositions *)
Ltac conc_false :=
  match goal with
  | H : False |- _ => destruct H
  | H : ?a = ?a -> False |- _ => apply H; reflexivity
  | H : _ = _ |- _ => discriminate H
  | H : _ \/ _ |- _ => solve [destruct H; conc_false]
  end.
Ltac conc_leaf :=
  lazymatch goal with
  | |- True => exact I
  | |- False => conc_false
  | |- _ = _ => first [reflexivity | exfalso; conc_false]
  | |- _ \/ _ => first [solve [left; conc_leaf] | solve [right; conc_leaf] | exfalso; conc_false]
  | |- _ => exfalso; conc_false
  end.
Ltac conc :=
  repeat lazymatch goal with
         | |- _ /\ _ => split
         | |- Forall _ _ => constructor; cbv beta iota
         | |- NoDup _ => constructor; cbn [In]
         | |- ~ _ => intro
         | |- _ -> _ => intro
         end;
  conc_leaf.

(* structured evaluation: lists are evaluated, predicates are NOT normalised under binders *)
Lemma Forall_compute {A} (P : A -> Prop) l l' : l = l' -> Forall P l' -> Forall P l.
Proof. intros ->. exact (fun H => H). Qed.

Ltac conc_top :=
  repeat lazymatch goal with
         | |- _ /\ _ => split
         | |- let _ := _ in _ => cbv zeta
         | |- nb_inv_full _ => unfold nb_inv_full, nb_inv, maxid_ok, queue_inv
         | |- nb_inv _ => unfold nb_inv, queue_inv
         | |- lead_wf _ _ _ => unfold lead_wf, lead_reqs
         | |- Forall _ _ => eapply Forall_compute; [vm_compute; reflexivity|]; constructor; cbv beta
         end;
  vm_compute; conc.

Definition ex_g1 : geom := mkgeom 2048 8 [0;3;4] 200 3.     (* record variable *)
Definition ex_g2 : geom := mkgeom 1024 4 [4;5;6] 0 0.       (* fixed-size variable, begins earlier *)
Definition ex_parts : list (list Z * option (list Z)) :=
  [([0;0;0], Some [1;3;4]); ([5;1;0], None); ([2;0;0], Some [0;3;4])].

(* put of 2 records of g1 (2 non-lead requests) *)
Definition ex_st1 : nbstate := fst (fst (post_varm init_state KIput ex_g1 [1;0;0] [2;3;4] None 5000 [] false 11)).
(* strided put on g2: inserted BEFORE the first lead (g_begin 1024 < 2048), which is shifted *)
Definition ex_st2 : nbstate :=
  fst (fst (post_varm ex_st1 KIput ex_g2 [0;0;0] [2;5;6] (Some [2;1;1]) 9000 [] false 12)).
(* varn get on g1 with an empty part *)
Definition ex_st3 : nbstate := fst (fst (post_varn ex_st2 KIget ex_g1 ex_parts 20000 [] false 13)).

Example ex_post_ok :
  post_ok ex_g1 [1;0;0] [2;3;4] None /\ post_ok ex_g2 [0;0;0] [2;5;6] (Some [2;1;1]) /\ postn_ok ex_g1 ex_parts.
Proof. vm_compute. conc. Qed.

Example ex_queue_shape :
  map l_id (put_lead ex_st3) = [2; 0] /\ map l_nonlead_off (put_lead ex_st3) = [0; 1] /\
  map l_nonlead_num (put_lead ex_st3) = [1; 2] /\ map r_lead_off (put_reqs ex_st3) = [0; 1; 1] /\
  map l_id (get_lead ex_st3) = [1] /\ map l_nonlead_num (get_lead ex_st3) = [2] /\
  maxPutID ex_st3 = 2 /\ maxGetID ex_st3 = 1.
Proof. vm_compute. conc. Qed.

Example ex_inv1 : nb_inv_full ex_st1.
Proof. conc_top. Qed.
Example ex_inv2 : nb_inv_full ex_st2.
Proof. conc_top. Qed.
Example ex_inv3 : nb_inv_full ex_st3.
Proof. conc_top. Qed.

(* the conclusion of the geometry hypothesis on the record-split instance of ex_st1 *)
Example ex_geometry :
  let l := hd dummy_lead (put_lead ex_st1) in
  let reqs := rec_split 0 [1;0;0] [2;3;4] 1 2 12 5000 8 in
  Forall (fun q => areq_wf (mkareq q l 0 0)) reqs /\
  flat_map (fun q => areq_pairs (mkareq q l 0 0)) reqs = lead_pairs l /\
  Forall (fun q => r_lead_off q = 0) reqs /\ Zlen reqs = 2.
Proof. conc_top. Qed.

Example ex_cancel :
  map l_id (all_leads (wr_st (cancel ex_st3 2 [2; 1] [0; 0]))) = [0] /\
  nb_inv_full (wr_st (cancel ex_st3 2 [2; 1] [0; 0])).
Proof. conc_top. Qed.

(* nb_inv WITHOUT maxid_ok is not preserved by a post: the state below satisfies nb_inv (put queue
   [id 0], maxPutID = 1), the next put gets the odd id 3 *)
Definition ex_bad : nbstate := set_maxids ex_st1 1 0.
Example nb_inv_post_counterexample :
  nb_inv ex_bad /\ post_ok ex_g2 [0;0;0] [2;5;6] None /\
  ~ nb_inv (fst (fst (post_varm ex_bad KIput ex_g2 [0;0;0] [2;5;6] None 9000 [] false 12))).
Proof.
  split; [conc_top|]. split; [conc_top|].
  intros ((_ & _ & _ & Hwf & _) & _). apply Forall_inv in Hwf. destruct Hwf as (He & _).
  vm_compute in He. discriminate He.
Qed.

Print Assumptions nb_inv_full_init.
Print Assumptions enqueue_inv.
Print Assumptions split_last_le_app.
Print Assumptions post_varm_inv.
Print Assumptions post_varn_inv.
Print Assumptions post_varm_id.
Print Assumptions post_varm_null.
Print Assumptions post_varn_id.
Print Assumptions post_varn_null.
Print Assumptions cancel_inv.
Print Assumptions cancel_inv_nb.
Print Assumptions nb_inv_post_counterexample.
Print Assumptions cancel_ids_frame.
Print Assumptions cancel_ids_removed.
