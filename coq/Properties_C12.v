(* Properties_C12.v — statements only: each property theorem is stated in full and closed by
   `exact <lemma>`; the lemmas live in the Proofs_*.v files.  Assembled by tools/mkprops.py. *)
(* C12 Burst-buffer driver is transparent to the application.  Model: coq/BurstBuffer.v (src/drivers/ncbbio: *)
(* log_put, flush_core with its two loops, flush triggers, put list, status loop, close); structural facts of the *)
(* source (status loop shape, flush triggers, unlink at close, entry constants) come from Gen_bbflush.v, regenerated *)
(* by tools/tr_bbflush.py on every run.  SPEC = the default driver: every put applied directly (dstep/drun). *)
From Coq Require Import ZArith List.
From Pnc Require Import Proofs_BurstBuffer.
Set Printing Width 100.
Set Printing Depth 100000.

(* the count loop and the batch loop of ncbbio_log_flush_core agree, for EVERY entry list and buffer >= largest entry: *)
(* same number of rounds, every entry replayed exactly once and in order, every round makes progress, batches fit *)
Theorem C12_rounds_agree :
  forall (buf : Z) (es : list BurstBuffer.entry),
         (0 <= buf)%Z ->
         (forall e : BurstBuffer.entry,
          In e es -> BurstBuffer.e_valid e = true -> (0 <= BurstBuffer.e_datalen e <= buf)%Z) ->
         exists bs : list (list BurstBuffer.entry),
           BurstBuffer.batch_loop (S (length es)) buf es = Some bs /\
           concat bs = es /\
           (forall b : list BurstBuffer.entry, In b bs -> b <> nil) /\
           (es <> nil -> Z.of_nat (length bs) = BurstBuffer.count_loop buf es) /\
           (es = nil -> bs = nil /\ BurstBuffer.count_loop buf es = 1%Z) /\
           (forall b : list BurstBuffer.entry,
            In b bs ->
            (fold_right Z.add 0 (map BurstBuffer.e_datalen (BurstBuffer.valid_entries b)) <= buf)%Z).
Proof. exact @rounds_agree. Qed.
Print Assumptions C12_rounds_agree.

Theorem C12_rounds_agree_any_buffer_sign :
  forall (buf : Z) (es : list BurstBuffer.entry),
         (forall e : BurstBuffer.entry,
          In e es -> BurstBuffer.e_valid e = true -> (0 <= BurstBuffer.e_datalen e <= buf)%Z) ->
         exists bs : list (list BurstBuffer.entry),
           BurstBuffer.batch_loop (S (length es)) buf es = Some bs /\
           concat bs = es /\
           (forall b : list BurstBuffer.entry, In b bs -> b <> nil) /\
           (es <> nil -> Z.of_nat (length bs) = BurstBuffer.count_loop buf es) /\
           (es = nil -> bs = nil /\ BurstBuffer.count_loop buf es = 1%Z) /\
           (forall b : list BurstBuffer.entry,
            In b bs ->
            (fold_right Z.add 0 (map BurstBuffer.e_datalen (BurstBuffer.valid_entries b)) <=
             Z.max 0 buf)%Z) /\
           (forall b : list BurstBuffer.entry,
            In b bs ->
            BurstBuffer.valid_entries b <> nil ->
            (fold_right Z.add 0 (map BurstBuffer.e_datalen (BurstBuffer.valid_entries b)) <= buf)%Z).
Proof. exact @rounds_agree_partial. Qed.
Print Assumptions C12_rounds_agree_any_buffer_sign.

(* as stated without 0 <= buf the last conjunct fails for a log of cancelled entries only and a negative buffer *)
Theorem C12_rounds_agree_full_refuted :
  ~ rounds_agree_full.
Proof. exact @rounds_agree_refuted. Qed.
Print Assumptions C12_rounds_agree_full_refuted.

(* without the bound the batch loop spins: the hypothesis is necessary *)
Theorem C12_rounds_spin_without_bound :
  BurstBuffer.e_valid (ex_entry true (-1) 11 1) = true /\
         BurstBuffer.batch_loop 100 10 (ex_entry true (-1) 11 1 :: nil) = None /\
         BurstBuffer.count_loop 10 (ex_entry true (-1) 11 1 :: nil) = 2%Z.
Proof. exact @rounds_refuted_without_bound. Qed.
Print Assumptions C12_rounds_spin_without_bound.

(* the bound always holds: buffer_size >= maxentrysize >= every logged entry (invariant of log_put / flush / cancel) *)
Theorem C12_buffer_ge_largest_entry :
  forall (hint : Z) (l : BurstBuffer.logst),
         log_ok l ->
         forall e : BurstBuffer.entry,
         In e (BurstBuffer.l_entries l) ->
         BurstBuffer.e_valid e = true ->
         (0 <= BurstBuffer.e_datalen e <= BurstBuffer.buffer_size hint l)%Z.
Proof. exact @flush_buffer_fits. Qed.
Print Assumptions C12_buffer_ge_largest_entry.

Theorem C12_log_put_keeps_bound :
  forall (line : Z) (r : BurstBuffer.request) (l : BurstBuffer.logst),
         req_ok r -> log_ok l -> log_ok (BurstBuffer.log_put line r l).
Proof. exact @log_put_ok. Qed.
Print Assumptions C12_log_put_keeps_bound.

(* every rank of a flush performs exactly nrounds_all waits (nobody runs out of rounds, nobody waits alone); *)
(* all ranks of a collective flush complete; an independent flush never issues a collective wait *)
Theorem C12_flush_core_rank_ok :
  forall (hint : Z) (indep : bool) (inj : Z -> Z) (nall : Z) (l : BurstBuffer.logst)
           (pl : BurstBuffer.putlist) (g : Z),
         log_ok l ->
         (BurstBuffer.count_loop (BurstBuffer.buffer_size hint l) (BurstBuffer.l_entries l) <= nall)%Z ->
         exists fr : BurstBuffer.flushres,
           BurstBuffer.flush_core_rank hint indep inj nall l pl g = Some fr /\
           concat (BurstBuffer.fr_batches fr) = BurstBuffer.l_entries l /\
           (0 <= BurstBuffer.fr_trailing fr)%Z /\
           Z.of_nat (length (filter is_wait (BurstBuffer.fr_events fr))) = nall /\
           BurstBuffer.fr_trailing fr = (nall - Z.of_nat (length (BurstBuffer.fr_batches fr)))%Z /\
           (BurstBuffer.l_entries l <> nil ->
            Z.of_nat (length (BurstBuffer.fr_batches fr)) =
            BurstBuffer.count_loop (BurstBuffer.buffer_size hint l) (BurstBuffer.l_entries l)) /\
           (BurstBuffer.l_entries l = nil ->
            BurstBuffer.fr_batches fr = nil /\ BurstBuffer.fr_trailing fr = nall) /\
           (forall b : list BurstBuffer.entry, In b (BurstBuffer.fr_batches fr) -> b <> nil) /\
           BurstBuffer.fr_events fr =
           fst (BurstBuffer.run_batches (negb indep) inj (BurstBuffer.fr_batches fr) g pl) ++
           repeat (BurstBuffer.EvW 0 true) (Z.to_nat (BurstBuffer.fr_trailing fr)) /\
           BurstBuffer.fr_putlist fr =
           fst (snd (BurstBuffer.run_batches (negb indep) inj (BurstBuffer.fr_batches fr) g pl)) /\
           BurstBuffer.fr_g fr =
           snd (snd (BurstBuffer.run_batches (negb indep) inj (BurstBuffer.fr_batches fr) g pl)).
Proof. exact @flush_core_rank_ok. Qed.
Print Assumptions C12_flush_core_rank_ok.

Theorem C12_collective_rounds_agree :
  forall (cfg : BurstBuffer.config) (rs : list BurstBuffer.rstate),
         Forall (fun r : BurstBuffer.rstate => log_ok (BurstBuffer.r_log r)) rs ->
         forall r : BurstBuffer.rstate,
         In r rs ->
         (BurstBuffer.rank_rounds cfg r <=
          BurstBuffer.zmax_list (map (BurstBuffer.rank_rounds cfg) rs))%Z.
Proof. exact @collective_rounds_agree. Qed.
Print Assumptions C12_collective_rounds_agree.

Theorem C12_collective_flush_completes :
  forall (cfg : BurstBuffer.config) (nall : Z) (rs : list BurstBuffer.rstate) (k : nat),
         Forall (fun r : BurstBuffer.rstate => log_ok (BurstBuffer.r_log r)) rs ->
         (forall r : BurstBuffer.rstate, In r rs -> (BurstBuffer.rank_rounds cfg r <= nall)%Z) ->
         exists l : list (BurstBuffer.rstate * list (list BurstBuffer.entry)),
           BurstBuffer.flush_ranks cfg nall k rs = Some l /\ length l = length rs.
Proof. exact @flush_ranks_ok. Qed.
Print Assumptions C12_collective_flush_completes.

Theorem C12_indep_no_collective_wait :
  forall (hint : Z) (inj : Z -> Z) (l : BurstBuffer.logst) (pl : BurstBuffer.putlist) (g : Z),
         log_ok l ->
         BurstBuffer.l_entries l <> nil ->
         exists fr : BurstBuffer.flushres,
           BurstBuffer.flush_core_rank hint true inj
             (BurstBuffer.count_loop (BurstBuffer.buffer_size hint l) (BurstBuffer.l_entries l)) l pl
             g = Some fr /\
           BurstBuffer.fr_trailing fr = 0%Z /\
           (forall n : Z, In (BurstBuffer.EvW n true) (BurstBuffer.fr_events fr) -> False).
Proof. exact @indep_no_collective_wait. Qed.
Print Assumptions C12_indep_no_collective_wait.

(* replaying a log whose entries write no element twice = applying the puts directly, ANY batching, ANY order in a batch *)
Theorem C12_flush_refines_direct :
  forall ord : list BurstBuffer.wr -> list BurstBuffer.wr,
         (forall l : list BurstBuffer.wr, Permutation.Permutation (ord l) l) ->
         forall (bs : list (list BurstBuffer.entry)) (f : BurstBuffer.fmap),
         NoDup (map fst (BurstBuffer.log_writes (concat bs))) ->
         forall k : BurstBuffer.key,
         BurstBuffer.replay ord bs f k =
         BurstBuffer.apply_writes (BurstBuffer.log_writes (concat bs)) f k.
Proof. exact @flush_refines_direct. Qed.
Print Assumptions C12_flush_refines_direct.

Theorem C12_replay_rounds_refines :
  forall ord : list BurstBuffer.wr -> list BurstBuffer.wr,
         (forall l : list BurstBuffer.wr, Permutation.Permutation (ord l) l) ->
         forall (bss : list (list (list BurstBuffer.entry))) (n : nat) (f : BurstBuffer.fmap),
         (forall bs : list (list BurstBuffer.entry), In bs bss -> length bs <= n) ->
         NoDup
           (map fst
              (flat_map
                 (fun bs : list (list BurstBuffer.entry) => BurstBuffer.log_writes (concat bs)) bss)) ->
         forall k : BurstBuffer.key,
         BurstBuffer.replay_rounds ord bss n f k =
         BurstBuffer.apply_writes
           (flat_map (fun bs : list (list BurstBuffer.entry) => BurstBuffer.log_writes (concat bs))
              bss) f k.
Proof. exact @replay_rounds_refines. Qed.
Print Assumptions C12_replay_rounds_refines.

Theorem C12_direct_puts_map :
  forall (reqs : list BurstBuffer.request) (f0 : BurstBuffer.lfile),
         BurstBuffer.lf_map
           (fold_left
              (fun (f : BurstBuffer.lfile) (r : BurstBuffer.request) => BurstBuffer.direct_put r f)
              reqs f0) =
         BurstBuffer.apply_writes (flat_map BurstBuffer.req_writes reqs) (BurstBuffer.lf_map f0).
Proof. exact @direct_puts_map. Qed.
Print Assumptions C12_direct_puts_map.

(* every replayed entry is handed exactly its own bytes of the data log, for ANY pattern of valid / cancelled entries, buffer size and batching *)
Theorem C12_flush_data_correct :
  forall (hint : Z) (l : BurstBuffer.logst),
         log_ok l ->
         BurstBuffer.flush_data hint l =
         Some
           (map (fun e : BurstBuffer.entry => (BurstBuffer.e_line e, BurstBuffer.entry_cells e))
              (BurstBuffer.valid_entries (BurstBuffer.l_entries l))).
Proof. exact @flush_data_correct. Qed.
Print Assumptions C12_flush_data_correct.

Theorem C12_read_batches_correct :
  forall (A : Type) (cells : BurstBuffer.entry -> list A) (bs : list (list BurstBuffer.entry))
           (dl pre R : list A),
         dl = pre ++ flat_map cells (concat bs) ++ R ->
         BurstBuffer.read_batches A cells true dl bs (length pre) =
         map (fun b : list BurstBuffer.entry => map cells (BurstBuffer.valid_entries b)) bs.
Proof. exact @read_batches_correct. Qed.
Print Assumptions C12_read_batches_correct.

(* reading at databuffer instead of databuffer + dataread (seeded change C12_flush_read_offset_after_cancel) hands the first entry a later entry's bytes *)
Theorem C12_read_offset_zero_refuted :
  BurstBuffer.read_batches Z BurstBuffer.entry_cells false
           (flat_map BurstBuffer.entry_cells ex_log5) (ex_log5 :: nil) 0 <>
         map
           (fun b : list BurstBuffer.entry =>
            map BurstBuffer.entry_cells (BurstBuffer.valid_entries b)) (ex_log5 :: nil) /\
         hd nil
           (hd nil
              (BurstBuffer.read_batches Z BurstBuffer.entry_cells false
                 (flat_map BurstBuffer.entry_cells ex_log5) (ex_log5 :: nil) 0)) =
         BurstBuffer.entry_cells (ex_e5 true 3) /\
         BurstBuffer.read_batches Z BurstBuffer.entry_cells true
           (flat_map BurstBuffer.entry_cells ex_log5) (ex_log5 :: nil) 0 =
         (BurstBuffer.entry_cells (ex_e5 true 1)
          :: BurstBuffer.entry_cells (ex_e5 true 3) :: BurstBuffer.entry_cells (ex_e5 true 5) :: nil)
         :: nil.
Proof. exact @read_offset_zero_refuted. Qed.
Print Assumptions C12_read_offset_zero_refuted.

(* each logged request receives its own status (loop of the current tree); the loop before adb6eb2b does not *)
Theorem C12_status_delivery :
  delivers BurstBuffer.deliver_c.
Proof. exact @status_delivery. Qed.
Print Assumptions C12_status_delivery.

Theorem C12_status_delivery_old_refuted :
  ~ status_delivery_old_full.
Proof. exact @status_delivery_old_refuted. Qed.
Print Assumptions C12_status_delivery_old_refuted.

Theorem C12_status_delivery_old_partial :
  forall (batch : list BurstBuffer.entry) (stats : list Z) (pl : BurstBuffer.putlist),
         NoDup (batch_reqids batch) ->
         (forall e : BurstBuffer.entry,
          In e (BurstBuffer.valid_entries batch) ->
          (0 <= BurstBuffer.e_reqid e)%Z -> BurstBuffer.pl_get pl (BurstBuffer.e_reqid e) <> None) ->
         (forall (j : nat) (e : BurstBuffer.entry),
          nth_error (BurstBuffer.valid_entries batch) j = Some e ->
          (0 <= BurstBuffer.e_reqid e)%Z ->
          exists p' : BurstBuffer.preq,
            BurstBuffer.pl_get (BurstBuffer.deliver_loop true batch stats 0 pl)
              (BurstBuffer.e_reqid e) = Some p' /\
            BurstBuffer.p_ready p' = true /\ BurstBuffer.p_status p' = nth 0 stats 0%Z) /\
         (forall id : Z,
          (forall e : BurstBuffer.entry,
           In e (BurstBuffer.valid_entries batch) ->
           (0 <= BurstBuffer.e_reqid e)%Z -> BurstBuffer.e_reqid e <> id) ->
          BurstBuffer.pl_get (BurstBuffer.deliver_loop true batch stats 0 pl) id =
          BurstBuffer.pl_get pl id).
Proof. exact @status_delivery_old_partial. Qed.
Print Assumptions C12_status_delivery_old_partial.

(* record count: the driver's rule = the default driver's rule; own records visible at once; agreement after a collective flush *)
Theorem C12_recsize_eq_default :
  forall (elsz : Z) (st c : list Z) (t : option (list Z)),
         BurstBuffer.put_size_var elsz (Some c) <> 0%Z ->
         BurstBuffer.bb_recsize_var st (Some c) t =
         BurstBuffer.recs_of st c (BurstBuffer.eff_count (length st) t).
Proof. exact @bb_recsize_eq_default. Qed.
Print Assumptions C12_recsize_eq_default.

Theorem C12_log_put_recdim_var :
  forall (line vid elsz : Z) (st c : list Z) (t : option (list Z)) 
           (data : list Z) (l : BurstBuffer.logst),
         (0 < elsz)%Z ->
         (0 <= BurstBuffer.l_recdim l)%Z ->
         let r := BurstBuffer.RVar vid true elsz st (Some c) t data in
         BurstBuffer.l_recdim (BurstBuffer.log_put line r l) =
         Z.max (BurstBuffer.l_recdim l) (BurstBuffer.req_recs r).
Proof. exact @log_put_recdim_var. Qed.
Print Assumptions C12_log_put_recdim_var.

Theorem C12_log_put_recdim_varn :
  forall (line vid elsz : Z) (subs : list (list Z * option (list Z))) 
           (hc : bool) (data : list Z) (l : BurstBuffer.logst),
         (0 < elsz)%Z ->
         (0 <= BurstBuffer.l_recdim l)%Z ->
         let r := BurstBuffer.RVarn vid true elsz subs hc data in
         BurstBuffer.l_recdim (BurstBuffer.log_put line r l) =
         Z.max (BurstBuffer.l_recdim l) (BurstBuffer.req_recs r).
Proof. exact @log_put_recdim_varn. Qed.
Print Assumptions C12_log_put_recdim_varn.

Theorem C12_own_records_visible_var :
  forall (line vid elsz : Z) (st c : list Z) (t : option (list Z)) 
           (data : list Z) (r : BurstBuffer.rstate),
         (0 < elsz)%Z ->
         (0 <= BurstBuffer.l_recdim (BurstBuffer.r_log r))%Z ->
         (BurstBuffer.req_recs (BurstBuffer.RVar vid true elsz st (Some c) t data) <=
          BurstBuffer.numrecs_view
            (BurstBuffer.do_put line (BurstBuffer.RVar vid true elsz st (Some c) t data) r))%Z.
Proof. exact @own_records_visible_var. Qed.
Print Assumptions C12_own_records_visible_var.

Theorem C12_own_records_visible_varn :
  forall (line vid elsz : Z) (subs : list (list Z * option (list Z))) 
           (hc : bool) (data : list Z) (r : BurstBuffer.rstate),
         (0 < elsz)%Z ->
         (0 <= BurstBuffer.l_recdim (BurstBuffer.r_log r))%Z ->
         (BurstBuffer.req_recs (BurstBuffer.RVarn vid true elsz subs hc data) <=
          BurstBuffer.numrecs_view
            (BurstBuffer.do_put line (BurstBuffer.RVarn vid true elsz subs hc data) r))%Z.
Proof. exact @own_records_visible_varn. Qed.
Print Assumptions C12_own_records_visible_varn.

Theorem C12_collective_flush_numrecs :
  forall (ord : list BurstBuffer.wr -> list BurstBuffer.wr) (cfg : BurstBuffer.config)
           (w : BurstBuffer.world),
         good w ->
         let m :=
           BurstBuffer.zmax_list
             (map
                (fun r : BurstBuffer.rstate =>
                 BurstBuffer.log_recs (BurstBuffer.l_entries (BurstBuffer.r_log r)))
                (BurstBuffer.w_rs w)) in
         map BurstBuffer.r_nr (BurstBuffer.w_rs (BurstBuffer.flush_all cfg ord w)) =
         map (fun r : BurstBuffer.rstate => Z.max (BurstBuffer.r_nr r) m) (BurstBuffer.w_rs w) /\
         (forall r : BurstBuffer.rstate,
          In r (BurstBuffer.w_rs w) ->
          (BurstBuffer.log_recs (BurstBuffer.l_entries (BurstBuffer.r_log r)) <= m)%Z).
Proof. exact @collective_flush_numrecs. Qed.
Print Assumptions C12_collective_flush_numrecs.

(* sessions (cancel-free, documented discipline = wf_stepb): the burst-buffer world simulates the default driver *)
Theorem C12_step_simulation :
  forall ord : list BurstBuffer.wr -> list BurstBuffer.wr,
         (forall l : list BurstBuffer.wr, Permutation.Permutation (ord l) l) ->
         forall (cfg : BurstBuffer.config) (w : BurstBuffer.world) (d : BurstBuffer.dworld)
           (o : BurstBuffer.op),
         good w ->
         sim w d ->
         wf_stepb w d o = true ->
         good (fst (BurstBuffer.step cfg ord w o)) /\
         sim (fst (BurstBuffer.step cfg ord w o)) (fst (BurstBuffer.dstep d o)) /\
         (is_get o = true -> snd (BurstBuffer.step cfg ord w o) = snd (BurstBuffer.dstep d o)) /\
         (is_sync_point w o = true -> pending (fst (BurstBuffer.step cfg ord w o)) = nil).
Proof. exact @step_sim. Qed.
Print Assumptions C12_step_simulation.

Theorem C12_run_simulation :
  forall ord : list BurstBuffer.wr -> list BurstBuffer.wr,
         (forall l : list BurstBuffer.wr, Permutation.Permutation (ord l) l) ->
         forall (cfg : BurstBuffer.config) (ops : list BurstBuffer.op) (w : BurstBuffer.world)
           (d : BurstBuffer.dworld),
         good w ->
         sim w d ->
         wf_run ord cfg w d ops ->
         good (fst (BurstBuffer.run cfg ord w ops)) /\
         sim (fst (BurstBuffer.run cfg ord w ops)) (fst (BurstBuffer.drun d ops)).
Proof. exact @run_sim. Qed.
Print Assumptions C12_run_simulation.

Theorem C12_read_own_writes :
  forall ord : list BurstBuffer.wr -> list BurstBuffer.wr,
         (forall l : list BurstBuffer.wr, Permutation.Permutation (ord l) l) ->
         forall (cfg : BurstBuffer.config) (np : nat) (ops : list BurstBuffer.op) 
           (line : Z) (who : list (nat * list BurstBuffer.key)),
         wf_run ord cfg (BurstBuffer.world_init np) BurstBuffer.dworld_init
           (ops ++ BurstBuffer.OGet line who :: nil) ->
         snd
           (BurstBuffer.step cfg ord (fst (BurstBuffer.run cfg ord (BurstBuffer.world_init np) ops))
              (BurstBuffer.OGet line who)) =
         snd
           (BurstBuffer.dstep (fst (BurstBuffer.drun BurstBuffer.dworld_init ops))
              (BurstBuffer.OGet line who)).
Proof. exact @read_own_writes. Qed.
Print Assumptions C12_read_own_writes.

Theorem C12_visible_after_sync_points :
  forall ord : list BurstBuffer.wr -> list BurstBuffer.wr,
         (forall l : list BurstBuffer.wr, Permutation.Permutation (ord l) l) ->
         forall (cfg : BurstBuffer.config) (np : nat) (ops : list BurstBuffer.op)
           (o : BurstBuffer.op),
         wf_run ord cfg (BurstBuffer.world_init np) BurstBuffer.dworld_init (ops ++ o :: nil) ->
         is_sync_point (fst (BurstBuffer.run cfg ord (BurstBuffer.world_init np) ops)) o = true ->
         let w1 := fst (BurstBuffer.run cfg ord (BurstBuffer.world_init np) (ops ++ o :: nil)) in
         let d1 := fst (BurstBuffer.drun BurstBuffer.dworld_init (ops ++ o :: nil)) in
         pending w1 = nil /\
         BurstBuffer.w_spin w1 = false /\
         (forall x : BurstBuffer.key, BurstBuffer.w_file w1 x = ED d1 x) /\
         (BurstBuffer.d_pend d1 = nil ->
          forall x : BurstBuffer.key,
          BurstBuffer.w_file w1 x = BurstBuffer.lf_map (BurstBuffer.d_file d1) x).
Proof. exact @visible_after_sync_points. Qed.
Print Assumptions C12_visible_after_sync_points.

Theorem C12_bb_equals_default :
  forall ord : list BurstBuffer.wr -> list BurstBuffer.wr,
         (forall l : list BurstBuffer.wr, Permutation.Permutation (ord l) l) ->
         forall (cfg : BurstBuffer.config) (np : nat) (ops : list BurstBuffer.op) (line : Z),
         wf_run ord cfg (BurstBuffer.world_init np) BurstBuffer.dworld_init
           (ops ++ BurstBuffer.OClose line :: nil) ->
         let w1 :=
           fst
             (BurstBuffer.run cfg ord (BurstBuffer.world_init np)
                (ops ++ BurstBuffer.OClose line :: nil)) in
         let d1 :=
           fst (BurstBuffer.drun BurstBuffer.dworld_init (ops ++ BurstBuffer.OClose line :: nil)) in
         BurstBuffer.d_pend d1 = nil ->
         (forall x : BurstBuffer.key,
          BurstBuffer.w_file w1 x = BurstBuffer.lf_map (BurstBuffer.d_file d1) x) /\
         BurstBuffer.w_spin w1 = false /\ BurstBuffer.w_logs w1 = negb (BurstBuffer.c_del cfg).
Proof. exact @bb_equals_default. Qed.
Print Assumptions C12_bb_equals_default.

Theorem C12_log_removed_at_close :
  forall (cfg : BurstBuffer.config) (ord : list BurstBuffer.wr -> list BurstBuffer.wr)
           (w : BurstBuffer.world),
         BurstBuffer.w_logs (BurstBuffer.close_all cfg ord w) = negb (BurstBuffer.c_del cfg).
Proof. exact @log_removed_at_close. Qed.
Print Assumptions C12_log_removed_at_close.

Theorem C12_session_example :
  wf_run BurstBuffer.ord_id ex_cfg (BurstBuffer.world_init 2) BurstBuffer.dworld_init ex_ops /\
         BurstBuffer.d_pend (fst (BurstBuffer.drun BurstBuffer.dworld_init ex_ops)) = nil /\
         snd (BurstBuffer.run ex_cfg BurstBuffer.ord_id (BurstBuffer.world_init 2) (firstn 4 ex_ops)) =
         (20%Z :: 3%Z :: 0%Z :: 0%Z :: nil)
         :: (40%Z :: 4%Z :: 0%Z :: 2%Z :: nil) :: (40%Z :: 4%Z :: 1%Z :: 7%Z :: nil) :: nil /\
         map
           (fun x : BurstBuffer.key =>
            BurstBuffer.w_file
              (fst (BurstBuffer.run ex_cfg BurstBuffer.ord_id (BurstBuffer.world_init 2) ex_ops)) x)
           ((0%Z, 2%Z :: 1%Z :: nil)
            :: (0%Z, 2%Z :: 3%Z :: nil) :: (1%Z, 3%Z :: nil) :: (1%Z, 2%Z :: nil) :: nil) =
         Some 14%Z :: Some 13%Z :: Some 11%Z :: None :: nil.
Proof. exact @session_example. Qed.
Print Assumptions C12_session_example.
