(* Convert.v — C09: numeric type conversion and range checking.
   MODEL : interpreter of the generated table Gen_ncx.ncx_table (one entry per function
           ncmpix_[pad_]{putn,getn}_NC_<X>_<I> of the ncx.c as built): C semantics of the tests
           (usual arithmetic conversions are already explicit in the table), of the casts
           (integer -> integer: reduction modulo 2^n; float/double -> integer: truncation toward
           zero when the truncated value is representable, otherwise UNDEFINED; integer -> float,
           double -> float: round to nearest even; float -> double: exact), of the fill
           substitution and of the n-element loops; API routing (convert_swap.m4,
           ncmpio_attr.m4, dispatchers: NC_ECHAR, CDF-1/2 NC_BYTE<->uchar exemption, long).
   SPEC  : destination range as a mathematical interval; in range <-> min <= value <= max;
           result = identity / truncation toward zero / round-to-nearest-even; otherwise
           NC_ERANGE and the fill value; NaN is representable in no integer type.
   Floating-point data are exact dyadic numbers (-1)^neg * m * 2^e or +-Inf or NaN (pure Z, no
   axioms).  No proofs in this file (Proofs_Convert.v). *)
From Coq Require Import ZArith List Bool.
From Pnc Require Import Gen_ncx.
Import ListNotations.
Local Open Scope Z_scope.

(* ------------------------------------------------------------------ C types *)
Definition is_float (t : cty) : bool := match t with Float | Double => true | _ => false end.
Definition ibits (t : cty) : Z :=
  match t with Schar | Uchar => 8 | Short | Ushort => 16 | Int | Uint => 32 | _ => 64 end.
Definition isigned (t : cty) : bool :=
  match t with Schar | Short | Int | Long | Longlong => true | _ => false end.
Definition imin (t : cty) : Z := if isigned t then - 2 ^ (ibits t - 1) else 0.
Definition imax (t : cty) : Z := if isigned t then 2 ^ (ibits t - 1) - 1 else 2 ^ ibits t - 1.
(* integer conversion to a narrower/other-signed type: value modulo 2^n (C99 6.3.1.3: defined for
   unsigned targets, implementation-defined for signed ones; gcc and clang reduce modulo 2^n) *)
Definition wrap (t : cty) (z : Z) : Z :=
  let m := 2 ^ ibits t in
  let r := z mod m in
  if isigned t && (m / 2 <=? r) then r - m else r.
Definition fprec (t : cty) : Z := match t with Float => 24 | _ => 53 end.
Definition femin (t : cty) : Z := match t with Float => -149 | _ => -1074 end.
Definition femax (t : cty) : Z := match t with Float => 104 | _ => 971 end.

Definition cty_eqb (a b : cty) : bool :=
  match a, b with
  | Schar, Schar | Uchar, Uchar | Short, Short | Ushort, Ushort | Int, Int | Uint, Uint | Long, Long
  | Ulong, Ulong | Longlong, Longlong | Ulonglong, Ulonglong | Float, Float | Double, Double => true
  | _, _ => false
  end.
Definition xty_eqb (a b : xty) : bool :=
  match a, b with
  | XBYTE, XBYTE | XUBYTE, XUBYTE | XSHORT, XSHORT | XUSHORT, XUSHORT | XINT, XINT | XUINT, XUINT
  | XFLOAT, XFLOAT | XDOUBLE, XDOUBLE | XINT64, XINT64 | XUINT64, XUINT64 => true
  | _, _ => false
  end.
Definition xcty (x : xty) : cty :=
  match x with
  | XBYTE => Schar | XUBYTE => Uchar | XSHORT => Short | XUSHORT => Ushort | XINT => Int | XUINT => Uint
  | XFLOAT => Float | XDOUBLE => Double | XINT64 => Longlong | XUINT64 => Ulonglong
  end.
Definition xsize (x : xty) : Z := if is_float (xcty x) then (if cty_eqb (xcty x) Float then 4 else 8)
                                   else ibits (xcty x) / 8.

(* ------------------------------------------------------------------ values *)
(* VI z : an integer; VF neg m e : the finite binary number (-1)^neg * m * 2^e, m >= 0 (a value
   of type float has m < 2^24, -149 <= e <= 104; double m < 2^53, -1074 <= e <= 971; the
   representation need not be normalised, every operation goes through the value) *)
Inductive val := VI (z : Z) | VF (neg : bool) (m e : Z) | VInf (neg : bool) | VNaN.

Definition wf_val (t : cty) (v : val) : bool :=
  match v with
  | VI z => negb (is_float t) && (imin t <=? z) && (z <=? imax t)
  | VF _ m e => is_float t && (0 <=? m) && (m <? 2 ^ fprec t) && (femin t <=? e) && (e <=? femax t)
  | VInf _ | VNaN => is_float t
  end.

(* exact comparison of s1*m1*2^e1 with s2*m2*2^e2 (signed mantissas) *)
Definition dy_cmp (m1 e1 m2 e2 : Z) : comparison :=
  let e0 := Z.min e1 e2 in (m1 * 2 ^ (e1 - e0)) ?= (m2 * 2 ^ (e2 - e0)).
Definition smant (neg : bool) (m : Z) : Z := if neg then - m else m.

(* C comparison of two values of the same arithmetic type; None = unordered (a NaN operand) *)
Definition vcmp (a b : val) : option comparison :=
  match a, b with
  | VNaN, _ | _, VNaN => None
  | VInf na, VInf nb => Some (if na then (if nb then Eq else Lt) else (if nb then Gt else Eq))
  | VInf na, _ => Some (if na then Lt else Gt)
  | _, VInf nb => Some (if nb then Gt else Lt)
  | VI x, VI y => Some (x ?= y)
  | VI x, VF n m e => Some (dy_cmp x 0 (smant n m) e)
  | VF n m e, VI y => Some (dy_cmp (smant n m) e y 0)
  | VF n1 m1 e1, VF n2 m2 e2 => Some (dy_cmp (smant n1 m1) e1 (smant n2 m2) e2)
  end.
Definition test_op (op : cop) (c : option comparison) : bool :=
  match c with
  | None => match op with ONe => true | _ => false end
  | Some c => match op, c with
              | OGt, Gt | OLt, Lt | OGe, Gt | OGe, Eq | OLe, Lt | OLe, Eq | OEq, Eq | ONe, Lt | ONe, Gt => true
              | _, _ => false
              end
  end.

(* truncation toward zero of (-1)^neg * m * 2^e *)
Definition ftrunc (neg : bool) (m e : Z) : Z :=
  let a := if 0 <=? e then m * 2 ^ e else m / 2 ^ (- e) in
  if neg then - a else a.

(* round (-1)^neg * m * 2^e (m >= 0) to the nearest value of the binary format t, ties to even *)
Definition rne (t : cty) (neg : bool) (m e : Z) : val :=
  if m =? 0 then VF neg 0 (femin t) else
  let p := fprec t in
  let l := Z.log2 m + 1 in
  let e' := Z.max (e + l - p) (femin t) in
  if e' <=? e then
    (if femax t <? e' then VInf neg else VF neg (m * 2 ^ (e - e')) e')
  else
    let sh := e' - e in
    let q := m / 2 ^ sh in
    let r := m mod 2 ^ sh in
    let half := 2 ^ (sh - 1) in
    let q' := if (half <? r) || ((r =? half) && Z.odd q) then q + 1 else q in
    let '(q'', e'') := if q' =? 2 ^ p then (2 ^ (p - 1), e' + 1) else (q', e') in
    if femax t <? e'' then VInf neg else VF neg q'' e''.

(* C conversion of a value to type `to`; None = undefined behaviour (C99 6.3.1.4: the integral part
   of a floating value cannot be represented in the integer type) *)
Definition cconv (to : cty) (v : val) : option val :=
  match v with
  | VI z => if is_float to then Some (rne to (z <? 0) (Z.abs z) 0) else Some (VI (wrap to z))
  | VF n m e =>
      if is_float to then
        (match to with Double => Some v      (* float -> double is exact; double -> double identity *)
                     | _ => Some (rne to n m e) end)
      else let z := ftrunc n m e in
           if (imin to <=? z) && (z <=? imax to) then Some (VI z) else None
  | VInf _ | VNaN => if is_float to then Some v else None
  end.

Fixpoint cchain (ch : list cty) (v : val) : option val :=
  match ch with
  | [] => Some v
  | t :: r => match cconv t v with Some v' => cchain r v' | None => None end
  end.

Definition kval (k : kconst) : val := match k with KI z => VI z | KF n m e => VF n m e end.

(* ------------------------------------------------------------------ one element *)
(* ROk v       : NC_NOERR, v stored
   RRange f    : NC_ERANGE, f stored (None: the destination element is left as it was)
   RUndef      : the C code executes a conversion whose behaviour is undefined (status NC_NOERR)
   RUnrec      : the translator did not understand the function *)
Inductive res := ROk (v : val) | RRange (f : option val) | RUndef | RUnrec.

Definition do_act (a : cact) (fillp : option val) : res :=
  match a with
  | AFill p d => RRange (match (if p then fillp else None) with
                         | Some f => Some f
                         | None => option_map kval d
                         end)
  | AStore k => ROk (kval k)
  end.

(* the last type of the conversion chain must be the comparison type (well-formedness of the table) *)
Definition chain_ty (src : cty) (ch : list cty) : cty := last ch src.

Fixpoint run_tests (src : cty) (ts : list ctest) (fillp : option val) (v : val) (dflt : res) : res :=
  match ts with
  | [] => dflt
  | t :: r =>
      if negb (cty_eqb (chain_ty src (t_chain t)) (t_cmp t)) then RUnrec else
      match cchain (t_chain t) v with
      | None => RUndef
      | Some l => if test_op (t_op t) (vcmp l (kval (t_k t))) then do_act (t_act t) fillp
                  else run_tests src r fillp v dflt
      end
  end.

Definition src_ty (f : cfun) : cty := match f_dir f with Put => f_i f | Get => xcty (f_x f) end.
Definition dst_ty (f : cfun) : cty := match f_dir f with Put => xcty (f_x f) | Get => f_i f end.

(* bytes written by hand (ncmpix_put_NC_{SHORT,USHORT,INT,UINT}_{schar,uchar}): big-endian, n-1 high
   bytes 0xff (sign extension, when bit 7 of the promoted source is set) or 0x00, low byte (uchar)v *)
Definition ext_bytes (sext : bool) (dst : cty) (v : val) : res :=
  match v with
  | VI z => let lo := z mod 256 in
            let u := if sext && (128 <=? lo) then 2 ^ ibits dst - 256 + lo else lo in
            ROk (VI (wrap dst u))
  | _ => RUnrec
  end.

Definition conv1 (f : cfun) (fillp : option val) (v : val) : res :=
  match f_body f with
  | BIdent => ROk v
  | BTests ts casts =>
      if negb (cty_eqb (chain_ty (src_ty f) casts) (dst_ty f)) then RUnrec else
      run_tests (src_ty f) ts fillp v (match cchain casts v with Some r => ROk r | None => RUndef end)
  | BSext ts => run_tests (src_ty f) ts fillp v (ext_bytes true (dst_ty f) v)
  | BZext ts => run_tests (src_ty f) ts fillp v (ext_bytes false (dst_ty f) v)
  | BUnrec => RUnrec
  end.

(* ------------------------------------------------------------------ n elements *)
Definition NC_NOERR : Z := 0.
Definition NC_ERANGE : Z := -60.
Definition NC_ECHAR : Z := -56.
Definition status1 (r : res) : Z := match r with RRange _ => NC_ERANGE | _ => NC_NOERR end.

(* LCall : for (...) { lstatus = leaf(...); if (status == NC_NOERR) status = lstatus; }
   LInline: while (...) { if (test) { fill; status = NC_ERANGE; continue; } store; }
   LSwap/LMemcpy: block copy, status NC_NOERR *)
Definition loop_status (l : cloop) (rs : list res) : Z :=
  match l with
  | LCall => fold_left (fun st r => if st =? NC_NOERR then status1 r else st) rs NC_NOERR
  | LInline => fold_left (fun st r => match r with RRange _ => NC_ERANGE | _ => st end) rs NC_NOERR
  | _ => NC_NOERR
  end.

Definition convn (f : cfun) (fillp : option val) (vs : list val) : Z * list res :=
  match f_loop f with
  | LUnrec => (NC_NOERR, map (fun _ => RUnrec) vs)
  | l => let rs := map (conv1 f fillp) vs in (loop_status l rs, rs)
  end.

(* ------------------------------------------------------------------ table lookup *)
Definition dir_eqb (a b : cdir) : bool := match a, b with Put, Put | Get, Get => true | _, _ => false end.
Definition key_eqb (f : cfun) (d : cdir) (pad : bool) (x : xty) (i : cty) : bool :=
  dir_eqb (f_dir f) d && Bool.eqb (f_pad f) pad && xty_eqb (f_x f) x && cty_eqb (f_i f) i.
Definition lookup (d : cdir) (pad : bool) (x : xty) (i : cty) : option cfun :=
  find (fun f => key_eqb f d pad x i) ncx_table.

Definition all_x : list xty := [XBYTE; XUBYTE; XSHORT; XUSHORT; XINT; XUINT; XFLOAT; XDOUBLE; XINT64; XUINT64].
Definition all_i : list cty := [Schar; Uchar; Short; Ushort; Int; Uint; Long; Float; Double; Longlong; Ulonglong].

(* ------------------------------------------------------------------ SPEC *)
(* default fill values of the netCDF data model (pnetcdf.h, the NC_FILL_ constants) *)
Definition fill_of_cty (t : cty) : val :=
  match t with
  | Schar => VI (-127) | Uchar => VI 255 | Short => VI (-32767) | Ushort => VI 65535
  | Int => VI (-2147483647) | Uint => VI 4294967295
  | Long => VI (-2147483647)            (* `long` has no netCDF type of its own: the library documents NC_FILL_INT *)
  | Ulong => VI 4294967295
  | Longlong => VI (-9223372036854775806) | Ulonglong => VI 18446744073709551614
  | Float => VF false 15728640 99            (* 9.9692099683868690e+36f = 15 * 2^119 *)
  | Double => VF false 8444249301319680 70   (* 9.9692099683868690e+36  = 15 * 2^119 *)
  end.
Definition spec_default_fill (x : xty) : val := fill_of_cty (xcty x).

(* largest finite value of a binary format: (2^p - 1) * 2^emax *)
Definition fmax_m (t : cty) : Z := 2 ^ fprec t - 1.

(* v (a value of some source type) lies in the range of the destination type, as real numbers *)
Definition spec_in_range (dst : cty) (v : val) : bool :=
  match v with
  | VI z => if is_float dst then true      (* every 64-bit integer is below FLT_MAX *)
            else (imin dst <=? z) && (z <=? imax dst)
  | VF n m e =>
      if is_float dst then
        (* - MAX <= value <= MAX *)
        (match dy_cmp (smant n m) e (- fmax_m dst) (femax dst) with Lt => false | _ => true end) &&
        (match dy_cmp (smant n m) e (fmax_m dst) (femax dst) with Gt => false | _ => true end)
      else
        (match dy_cmp (smant n m) e (imin dst) 0 with Lt => false | _ => true end) &&
        (match dy_cmp (smant n m) e (imax dst) 0 with Gt => false | _ => true end)
  | VInf _ => false                         (* beyond every finite bound *)
  | VNaN => is_float dst                    (* NaN is representable in no integer type *)
  end.

(* the exact result for an in-range value *)
Definition spec_value (dst : cty) (v : val) : val :=
  match v with
  | VI z => if is_float dst then rne dst (z <? 0) (Z.abs z) 0 else VI z
  | VF n m e => if is_float dst then (match dst with Double => v | _ => rne dst n m e end)
                else VI (ftrunc n m e)
  | _ => v
  end.

(* dir = Put: fill := the variable's fill value (fillp) if any, else the default of the external type
   dir = Get: fill := default fill value of the memory type *)
Definition spec_fill (d : cdir) (dst : cty) (fillp : option val) : val :=
  match d, fillp with
  | Put, Some f => f
  | _, _ => fill_of_cty dst
  end.

(* same representation: no conversion takes place, the element is transferred as it is *)
Definition same_repr (a b : cty) : bool :=
  if is_float a || is_float b then cty_eqb a b
  else (ibits a =? ibits b) && Bool.eqb (isigned a) (isigned b).

Definition spec_conv (d : cdir) (src dst : cty) (fillp : option val) (v : val) : res :=
  if same_repr src dst then ROk v
  else if spec_in_range dst v then ROk (spec_value dst v)
  else RRange (Some (spec_fill d dst fillp)).

Definition spec_erange (src dst : cty) (v : val) : bool :=
  negb (same_repr src dst) && negb (spec_in_range dst v).

Definition spec_convn (d : cdir) (src dst : cty) (fillp : option val) (vs : list val) : Z * list res :=
  ((if existsb (spec_erange src dst) vs then NC_ERANGE else NC_NOERR),
   map (spec_conv d src dst fillp) vs).

(* ------------------------------------------------------------------ API routing *)
(* memory types of the typed APIs: text + 11 numeric; external types: NC_CHAR + 10 numeric *)
Inductive mty := MText | MNum (t : cty).
Inductive nct := NChar | NNum (x : xty).
Inductive route :=
  | RtEchar                     (* NC_ECHAR, nothing transferred *)
  | RtCopy                      (* bytes copied as they are (text; same type; the NC_BYTE<->uchar exemption) *)
  | RtSwap                      (* same type: byte swap only *)
  | RtEntry (f : option cfun).  (* conversion function called (None: not in the table) *)

(* ncmpii_need_convert (convert_swap.m4) *)
Definition same_type (x : xty) (t : cty) : bool :=
  let t' := match t with Long => Longlong | _ => t end in cty_eqb (xcty x) t'.

(* variables: dispatchers check NC_ECHAR; ncmpio_getput: need_convert ? ncmpii_{put,get}n_NC_<X> : swap *)
Definition route_var (fmt : Z) (d : cdir) (x : nct) (m : mty) : route :=
  match x, m with
  | NChar, MText => RtCopy
  | NChar, MNum _ | NNum _, MText => RtEchar
  | NNum x, MNum t =>
      if (fmt <? 5) && xty_eqb x XBYTE && cty_eqb t Uchar then RtCopy
      else if same_type x t then (if xsize x =? 1 then RtCopy else RtSwap)
      else RtEntry (lookup d false x t)
  end.

(* attributes (ncmpio_attr.m4, dispatchers/attr_getput.m4): `long` is passed as long long; CDF-1/2
   NC_BYTE with uchar uses the NC_UBYTE functions; 1- and 2-byte types use the padding variants *)
Definition att_pad (x : xty) : bool :=
  match x with XBYTE | XUBYTE | XSHORT | XUSHORT => true | _ => false end.
Definition route_att (fmt : Z) (d : cdir) (x : nct) (m : mty) : route :=
  match x, m with
  | NChar, MText => RtCopy
  | NChar, MNum _ | NNum _, MText => RtEchar
  | NNum x, MNum t =>
      let t' := match t with Long => Longlong | _ => t end in
      let x' := if (fmt <? 5) && xty_eqb x XBYTE && cty_eqb t' Uchar then XUBYTE else x in
      RtEntry (lookup d (att_pad x') x' t')
  end.

(* an element transferred without conversion keeps its bits; as a value of the other signedness: *)
Definition reinterpret (dst : cty) (v : val) : val :=
  match v with VI z => if is_float dst then v else VI (wrap dst z) | _ => v end.
Definition map_ok (g : val -> val) (r : res) : res := match r with ROk v => ROk (g v) | _ => r end.

Definition run_route (r : route) (dstt : cty) (fillp : option val) (vs : list val) : Z * list res :=
  match r with
  | RtEchar => (NC_ECHAR, [])
  | RtCopy | RtSwap => (NC_NOERR, map (fun v => ROk (reinterpret dstt v)) vs)
  | RtEntry (Some f) => convn f fillp vs
  | RtEntry None => (NC_NOERR, map (fun _ => RUnrec) vs)
  end.

Definition api_src (d : cdir) (x : xty) (t : cty) : cty := match d with Put => t | Get => xcty x end.
Definition api_dst (d : cdir) (x : xty) (t : cty) : cty := match d with Put => xcty x | Get => t end.
Definition exempt (fmt : Z) (x : xty) (t : cty) : bool := (fmt <? 5) && xty_eqb x XBYTE && cty_eqb t Uchar.

(* One API call on n elements (values of the source type): status and what is stored per element.
   Write direction: the fill pointer handed to the conversion is never NULL (ncmpio_inq_var_fill:
   the variable's _FillValue if defined, else the default; attributes: ncmpio_inq_default_fill_value). *)
Definition api_var (fmt : Z) (d : cdir) (x : nct) (m : mty) (var_fill : option val) (vs : list val)
  : Z * list res :=
  match x, m with
  | NNum x', MNum t =>
      run_route (route_var fmt d x m) (api_dst d x' t)
                (Some (match var_fill with Some f => f | None => spec_default_fill x' end)) vs
  | _, _ => run_route (route_var fmt d x m) Schar None vs
  end.

Definition api_att (fmt : Z) (d : cdir) (x : nct) (m : mty) (vs : list val) : Z * list res :=
  match x, m with
  | NNum x', MNum t =>
      if exempt fmt x' t then
        (* the NC_UBYTE functions operate on the bytes of the NC_BYTE attribute *)
        let '(st, rs) := run_route (route_att fmt d x m) Uchar (Some (spec_default_fill XUBYTE))
                                   (map (reinterpret Uchar) vs) in
        (st, map (map_ok (reinterpret (api_dst d x' t))) rs)
      else run_route (route_att fmt d x m) (api_dst d x' t) (Some (spec_default_fill x')) vs
  | _, _ => run_route (route_att fmt d x m) Schar None vs
  end.

(* API-level specification.  Text and numbers never convert (NC_ECHAR); NC_BYTE with unsigned char in
   CDF-1/2 is transferred without range check (the 8 bits are kept); otherwise the element rule.
   `fill` = the variable's _FillValue when defined (None for attributes / undefined). *)
Definition spec_api (fmt : Z) (d : cdir) (x : nct) (m : mty) (fill : option val) (vs : list val)
  : Z * list res :=
  match x, m with
  | NChar, MText => (NC_NOERR, map (fun v => ROk v) vs)
  | NChar, MNum _ | NNum _, MText => (NC_ECHAR, [])
  | NNum x', MNum t =>
      if exempt fmt x' t then (NC_NOERR, map (fun v => ROk (reinterpret (api_dst d x' t) v)) vs)
      else spec_convn d (api_src d x' t) (api_dst d x' t)
                      (match d with
                       | Put => Some (match fill with Some f => f | None => spec_default_fill x' end)
                       | Get => None
                       end) vs
  end.

(* ------------------------------------------------------------------ bit patterns (I/O of the harness) *)
(* IEEE-754 encoding of a value of type t (float: 32 bits, double: 64 bits); integers: two's complement *)
Definition fbits (t : cty) (v : val) : Z :=
  let p := fprec t in
  let ebits := match t with Float => 8 | _ => 11 end in
  let sign n := if (n : bool) then 2 ^ (p - 1 + ebits) else 0 in
  match v with
  | VF n m e =>
      if m =? 0 then sign n else
      let sh := Z.min (p - 1 - Z.log2 m) (e - femin t) in
      let m' := m * 2 ^ sh in
      let e' := e - sh in
      if m' <? 2 ^ (p - 1) then sign n + m'                          (* subnormal: biased exponent 0 *)
      else sign n + (e' - femin t + 1) * 2 ^ (p - 1) + (m' - 2 ^ (p - 1))
  | VInf n => sign n + (2 ^ ebits - 1) * 2 ^ (p - 1)
  | VNaN => (2 ^ ebits - 1) * 2 ^ (p - 1) + 2 ^ (p - 2)
  | VI _ => -1
  end.
Definition of_fbits (t : cty) (b : Z) : val :=
  let p := fprec t in
  let ebits := match t with Float => 8 | _ => 11 end in
  let n := 2 ^ (p - 1 + ebits) <=? b in
  let b' := b mod 2 ^ (p - 1 + ebits) in
  let be := b' / 2 ^ (p - 1) in
  let fr := b' mod 2 ^ (p - 1) in
  if be =? 2 ^ ebits - 1 then (if fr =? 0 then VInf n else VNaN)
  else if be =? 0 then VF n fr (femin t)
  else VF n (fr + 2 ^ (p - 1)) (be - 1 + femin t).

(* values are exchanged as integers: integer types their value, float types their bit pattern *)
Definition val_of_code (t : cty) (c : Z) : val := if is_float t then of_fbits t c else VI c.
Definition code_of_val (t : cty) (v : val) : Z :=
  if is_float t then fbits t v else match v with VI z => z | _ => -1 end.

(* result code for the driver: (kind, value code) kind 0 = NOERR value, 1 = ERANGE value, 2 = ERANGE nothing
   stored, 3 = undefined behaviour, 4 = unrecognised; NaN results carry code_of_val of the canonical NaN *)
Definition res_code (t : cty) (r : res) : Z * Z :=
  match r with
  | ROk v => (0, code_of_val t v)
  | RRange (Some v) => (1, code_of_val t v)
  | RRange None => (2, 0)
  | RUndef => (3, 0)
  | RUnrec => (4, 0)
  end.
Definition is_nan_val (v : val) : bool := match v with VNaN => true | _ => false end.

(* entry points used by the extracted driver: element conversion through the table and through the spec *)
Definition model1 (put pad : bool) (xi ii : Z) (has_fill : bool) (fillc : Z) (c : Z) : Z * Z :=
  let d := if put then Put else Get in
  match nth_error all_x (Z.to_nat xi), nth_error all_i (Z.to_nat ii) with
  | Some x, Some i =>
      match lookup d pad x i with
      | Some f => res_code (dst_ty f)
                    (conv1 f (if has_fill then Some (val_of_code (dst_ty f) fillc) else None)
                           (val_of_code (src_ty f) c))
      | None => (4, 0)
      end
  | _, _ => (4, 0)
  end.
Definition spec1 (put : bool) (xi ii : Z) (has_fill : bool) (fillc : Z) (c : Z) : Z * Z :=
  let d := if put then Put else Get in
  match nth_error all_x (Z.to_nat xi), nth_error all_i (Z.to_nat ii) with
  | Some x, Some i =>
      let src := api_src d x i in
      let dst := api_dst d x i in
      res_code dst (spec_conv d src dst (if has_fill then Some (val_of_code dst fillc) else None) (val_of_code src c))
  | _, _ => (4, 0)
  end.

(* API level: xi = 10 is NC_CHAR, ii = 11 is text *)
Definition nct_of (xi : Z) : nct := match nth_error all_x (Z.to_nat xi) with Some x => NNum x | None => NChar end.
Definition mty_of (ii : Z) : mty := match nth_error all_i (Z.to_nat ii) with Some t => MNum t | None => MText end.
Definition api_types (d : cdir) (x : nct) (m : mty) : cty * cty :=
  match x, m with
  | NNum x', MNum t => (api_src d x' t, api_dst d x' t)
  | _, _ => (Schar, Schar)
  end.
Definition api_model (isatt put : bool) (fmt xi ii : Z) (has_fill : bool) (fillc : Z) (cs : list Z)
  : Z * list (Z * Z) :=
  let d := if put then Put else Get in
  let x := nct_of xi in
  let m := mty_of ii in
  let '(src, dst) := api_types d x m in
  let vs := map (val_of_code src) cs in
  let fill := if has_fill then Some (val_of_code dst fillc) else None in
  let '(st, rs) := if isatt then api_att fmt d x m vs else api_var fmt d x m fill vs in
  (st, map (res_code dst) rs).
Definition api_spec (put : bool) (fmt xi ii : Z) (has_fill : bool) (fillc : Z) (cs : list Z)
  : Z * list (Z * Z) :=
  let d := if put then Put else Get in
  let x := nct_of xi in
  let m := mty_of ii in
  let '(src, dst) := api_types d x m in
  let vs := map (val_of_code src) cs in
  let fill := if has_fill then Some (val_of_code dst fillc) else None in
  let '(st, rs) := spec_api fmt d x m fill vs in
  (st, map (res_code dst) rs).

(* direct call of ncmpix_[pad_]{putn,getn}_NC_<X>_<I> on n elements (harness volume runs) *)
Definition leaf_model (put pad : bool) (xi ii : Z) (has_fill : bool) (fillc : Z) (cs : list Z)
  : Z * list (Z * Z) :=
  let d := if put then Put else Get in
  match nth_error all_x (Z.to_nat xi), nth_error all_i (Z.to_nat ii) with
  | Some x, Some i =>
      match lookup d pad x i with
      | Some f =>
          let fill := if has_fill then Some (val_of_code (dst_ty f) fillc) else None in
          let '(st, rs) := convn f fill (map (val_of_code (src_ty f)) cs) in
          (st, map (res_code (dst_ty f)) rs)
      | None => (0, map (fun _ => (4, 0)) cs)
      end
  | _, _ => (0, map (fun _ => (4, 0)) cs)
  end.
Definition leaf_spec (put : bool) (xi ii : Z) (has_fill : bool) (fillc : Z) (cs : list Z)
  : Z * list (Z * Z) :=
  let d := if put then Put else Get in
  match nth_error all_x (Z.to_nat xi), nth_error all_i (Z.to_nat ii) with
  | Some x, Some i =>
      let src := api_src d x i in
      let dst := api_dst d x i in
      let fill := if has_fill then Some (val_of_code dst fillc) else None in
      let '(st, rs) := spec_convn d src dst fill (map (val_of_code src) cs) in
      (st, map (res_code dst) rs)
  | _, _ => (0, map (fun _ => (4, 0)) cs)
  end.

(* ------------------------------------------------------------------ request level *)
(* Nonblocking requests (ncmpio_i_getput.m4, ncmpio_wait.c).  A PUT request (iput/bput) is converted
   when it is posted: ncmpi_iput/bput_* returns the conversion status (NC_ERANGE is not fatal, the
   request is queued with the fill substituted) and the later wait reports NC_NOERR for it.  A GET
   request is converted when it is completed: req_commit walks the completed requests in queue
   (= posting) order; `gate_step` is the statement that records err = ncmpio_unpack_xbuf(...):
   st = function-wide first error (return value of wait/wait_all), w = the request's status word
   (reset to NC_NOERR by extract_reqs). *)
Definition NC_EPENDING : Z := -236.
Definition gate_step (g : gate_kind) (st w err : Z) : Z * Z :=
  match g with
  | GateOwn => if err =? NC_NOERR then (st, w)
               else ((if st =? NC_NOERR then err else st), (if w =? NC_NOERR then err else w))
  | GateGlobal => if negb (err =? NC_NOERR) && (st =? NC_NOERR) then (err, err) else (st, w)
  | GateUnrec => (-9999, -9999)
  end.
Fixpoint commit_get (g : gate_kind) (st : Z) (errs : list Z) : Z * list Z :=
  match errs with
  | [] => (st, [])
  | e :: r => let '(st', w) := gate_step g st NC_NOERR e in
              let '(st'', ws) := commit_get g st' r in (st'', w :: ws)
  end.

(* one request: (is_put, external type index, memory type index, element codes) *)
Definition nbreq := (bool * Z * Z * list Z)%type.
Definition nb_conv (fmt : Z) (r : nbreq) : Z * list (Z * Z) :=
  let '(put, xi, ii, cs) := r in api_model false put fmt xi ii false 0 cs.
Definition nb_is_put (r : nbreq) : bool := let '(put, _, _, _) := r in put.

(* result: (return value of wait/wait_all, per request in posting order (post status, status word, elements)) *)
Fixpoint nb_assign (rs : list nbreq) (cv : list (Z * list (Z * Z))) (ws : list Z)
  : list (Z * Z * list (Z * Z)) :=
  match rs, cv with
  | r :: rs', c :: cv' =>
      if nb_is_put r then (fst c, NC_NOERR, snd c) :: nb_assign rs' cv' ws
      else (match ws with
            | w :: ws' => (NC_NOERR, w, snd c) :: nb_assign rs' cv' ws'
            | [] => (NC_NOERR, -9999, snd c) :: nb_assign rs' cv' []
            end)
  | _, _ => []
  end.
Definition nb_geterrs (fmt : Z) (reqs : list nbreq) : list Z :=
  map (fun r => fst (nb_conv fmt r)) (filter (fun r => negb (nb_is_put r)) reqs).
Definition nb_model (fmt : Z) (reqs : list nbreq) : Z * list (Z * Z * list (Z * Z)) :=
  (* the writes of the batch complete first (no conversion left to do), then the reads *)
  let '(rc, ws) := commit_get req_gate NC_NOERR (nb_geterrs fmt reqs) in
  (rc, nb_assign reqs (map (nb_conv fmt) reqs) ws).

(* SPEC: every request is judged on its own data *)
Definition nb_spec1 (fmt : Z) (r : nbreq) : Z * Z * list (Z * Z) :=
  let '(put, xi, ii, cs) := r in
  let '(st, rs) := api_spec put fmt xi ii false 0 cs in
  if put then (st, NC_NOERR, rs) else (NC_NOERR, st, rs).
Definition nb_spec (fmt : Z) (reqs : list nbreq) : Z * list (Z * Z * list (Z * Z)) :=
  let rs := map (nb_spec1 fmt) reqs in
  ((if existsb (fun r => negb (snd (fst r) =? NC_NOERR)) rs then NC_ERANGE else NC_NOERR), rs).

(* blocking ncmpi_put_varn_<T>[_all] (ncmpio_varn.m4) = iput_varn + wait; element kind 2 = left untouched.
   result: (status, pending requests afterwards, status of ncmpi_close, elements) *)
Definition untouched (cs : list Z) : list (Z * Z) := map (fun _ => (2, 0)) cs.
Definition varn_model_g (g : varn_kind) (indep : bool) (fmt xi ii : Z) (cs : list Z) : Z * Z * Z * list (Z * Z) :=
  let '(st, rs) := api_model false true fmt xi ii false 0 cs in
  match g with
  | VarnEarlyAny => if indep && negb (st =? NC_NOERR) then (st, 1, NC_EPENDING, untouched cs) else (st, 0, NC_NOERR, rs)
  | VarnEarlyFatal => (st, 0, NC_NOERR, rs)      (* the only status <> NC_NOERR a conversion yields is NC_ERANGE *)
  | VarnUnrec => (-9999, 0, 0, map (fun _ => (4, 0)) cs)
  end.
Definition varn_model := varn_model_g varn_gate.
Definition varn_spec (fmt xi ii : Z) (cs : list Z) : Z * Z * Z * list (Z * Z) :=
  let '(st, rs) := api_spec true fmt xi ii false 0 cs in (st, 0, NC_NOERR, rs).

(* blocking ncmpi_mput_var_<T>[_all] (dispatchers/var_getput.m4): one iput per variable, loop left at the
   first status <> NC_NOERR, wait for the requests posted before it *)
Fixpoint mput_model_loop (fmt xi ii : Z) (vars : list (list Z)) : Z * list (Z * Z) :=
  match vars with
  | [] => (NC_NOERR, [])
  | cs :: r => let '(st, rs) := api_model false true fmt xi ii false 0 cs in
               if st =? NC_NOERR then let '(st', rs') := mput_model_loop fmt xi ii r in (st', rs ++ rs')
               else (st, untouched cs ++ flat_map untouched r)
  end.
(* repaired loop: NC_ERANGE is remembered and the posting continues; any other status leaves the loop
   (that request was not queued); all posted requests are waited for *)
Fixpoint mput_cont_loop (fmt xi ii : Z) (vars : list (list Z)) (erange : Z) : Z * Z * list (Z * Z) :=
  match vars with
  | [] => (NC_NOERR, erange, [])
  | cs :: r => let '(st, rs) := api_model false true fmt xi ii false 0 cs in
               if st =? NC_ERANGE then
                 let '(e, er, rs') := mput_cont_loop fmt xi ii r st in (e, er, rs ++ rs')
               else if st =? NC_NOERR then
                 let '(e, er, rs') := mput_cont_loop fmt xi ii r erange in (e, er, rs ++ rs')
               else (st, erange, untouched cs ++ flat_map untouched r)
  end.
Definition mput_model_g (g : mput_kind) (fmt xi ii : Z) (vars : list (list Z)) : Z * Z * Z * list (Z * Z) :=
  match g with
  | MputBreakAny => let '(st, rs) := mput_model_loop fmt xi ii vars in
                    if st =? NC_NOERR then (st, 0, NC_NOERR, rs) else (st, 1, NC_EPENDING, rs)
  | MputContinue => let '(e, er, rs) := mput_cont_loop fmt xi ii vars NC_NOERR in
                    ((if e =? NC_NOERR then er else e), 0, NC_NOERR, rs)
  | MputUnrec => (-9999, 0, 0, flat_map (fun cs => map (fun _ => (4, 0)) cs) vars)
  end.
Definition mput_model := mput_model_g mput_gate.
Definition mput_spec (fmt xi ii : Z) (vars : list (list Z)) : Z * Z * Z * list (Z * Z) :=
  let rs := map (fun cs => api_spec true fmt xi ii false 0 cs) vars in
  ((if existsb (fun r => negb (fst r =? NC_NOERR)) rs then NC_ERANGE else NC_NOERR), 0, NC_NOERR,
   flat_map snd rs).
