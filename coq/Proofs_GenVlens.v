(* Proofs_GenVlens.v — the tie between the C source as built and the hand-written size rules of Header.v:

     Gen_vlens.ncmpio_NC_check_vlen_c  (c_var xsz shape) vmax = FVal (b2z (Header.check_vlen xsz shape vmax))
     Gen_vlens.ncmpio_NC_check_vlens_c (c_view h)             = FVal (Header.check_vlens h)

   for ALL inputs satisfying the guards the C code itself relies on.  Gen_vlens.v is regenerated on every
   run by tools/tr_vlens.py (tools/tr_cfun.py, target vlens) from ncmpio_enddef.c as built; its combinators
   are defined in CSub.v.  FVal means: no undefined behaviour (array index outside the object, NULL
   dereference, division by zero, signed overflow, narrowing conversion) is reachable under the guards, the
   loops terminate within the fuel the translator gives them, and no construct outside the subset was met.

   The view (what the C function reads of its arguments, in terms of the model's header):
     c_var xsz shape : NC_var     xsz, ndims = length of shape, shape = NULL when ndims = 0
                                   (ncmpio_new_NC_var allocates shape only for ndims > 0), else the array
     c_view h        : NC         format, vars.ndefined, vars.value = NULL for no variable, else the array
                                   of the variables' views
   Guards: element size >= 1; legal_shape (only the leading dimension may be 0 = NC_UNLIMITED, which
   ncmpi_def_var enforces: NC_EUNLIMPOS; without it the C loop divides by zero); ndims and the number of
   variables fit the C type int of the fields that hold them; 0 <= vlen_max < 2^63. *)
From Pnc Require Import Base Gen_consts Header CSub Gen_vlens Proofs_CSub Proofs_Vlen.
Require Import String.
Require Import Lia ZArith ZifyBool List Bool.
Import ListNotations.
Local Open Scope Z_scope.
(* ------------------------------------------------------------------------- *)
(** * ncmpio_NC_check_vlen                                                     *)
(* ------------------------------------------------------------------------- *)
Definition c_shape (shape : list Z) : c_ptr Z :=
  match shape with [] => None | _ => Some (shape, 0) end.
Definition c_var (xsz : Z) (shape : list Z) : c_NC_var :=
  {| NC_var__ndims := Zlen shape; NC_var__shape := c_shape shape; NC_var__xsz := xsz |}.

Lemma c_shape_app_cons : forall pre s r, c_shape (pre ++ s :: r) = Some (pre ++ s :: r, 0).
Proof. intros [|a pre] s r; reflexivity. Qed.

Ltac vlen_st := unfold set_ncmpio_NC_check_vlen__i, set_ncmpio_NC_check_vlen__prod;
                cbn [ncmpio_NC_check_vlen__i ncmpio_NC_check_vlen__prod
                     NC_var__ndims NC_var__shape NC_var__xsz c_var].

Lemma gen_check_vlen_loop : forall rest pre xsz vmax prod fuel,
  1 <= prod -> 0 <= vmax <= 9223372036854775807 ->
  Forall (fun s => 1 <= s) rest -> Zlen (pre ++ rest) <= 2147483647 ->
  (Datatypes.length rest < fuel)%nat ->
  c_loop fuel (ncmpio_NC_check_vlen_loop1_cdef (c_var xsz (pre ++ rest)) vmax)
              (ncmpio_NC_check_vlen_loop1_cond (c_var xsz (pre ++ rest)) vmax)
              (ncmpio_NC_check_vlen_loop1_body (c_var xsz (pre ++ rest)) vmax)
              (ncmpio_NC_check_vlen_loop1_inc (c_var xsz (pre ++ rest)) vmax)
              (mk_st_ncmpio_NC_check_vlen (Zlen pre) prod)
  = if check_vlen_loop rest prod vmax
    then CNorm (mk_st_ncmpio_NC_check_vlen (Zlen (pre ++ rest)) (prod * zprod rest))
    else CRet 0.
Proof.
  induction rest as [|s r IH]; intros pre xsz vmax prod fuel Hp Hv Hall Hlen Hf.
  - destruct fuel as [|f]; [cbn in Hf; lia|].
    rewrite c_loop_exit.
    + cbn [check_vlen_loop zprod]. rewrite app_nil_r. f_equal. f_equal. lia.
    + reflexivity.
    + unfold ncmpio_NC_check_vlen_loop1_cond. vlen_st. rewrite app_nil_r. lia.
  - destruct fuel as [|f]; [cbn in Hf; lia|].
    inversion Hall as [|? ? Hs Hr]; subst.
    assert (Hlen' : Zlen (pre ++ s :: r) = Zlen pre + 1 + Zlen r) by (rewrite cs_Zlen_app, cs_Zlen_cons; lia).
    pose proof (cs_Zlen_nonneg _ pre) as Hpre0. pose proof (cs_Zlen_nonneg _ r) as Hr0.
    rewrite c_loop_iter;
      [ | reflexivity | unfold ncmpio_NC_check_vlen_loop1_cond; vlen_st; lia ].
    unfold ncmpio_NC_check_vlen_loop1_body at 1. vlen_st.
    rewrite c_shape_app_cons.
    assert (Hok : p_ok (Some (pre ++ s :: r, 0)) (Zlen pre) = true) by (apply p_ok_some; lia).
    assert (Hget : p_get 0 (Some (pre ++ s :: r, 0)) (Zlen pre) = s)
      by (rewrite p_get_some, Z.add_0_l; apply cs_znth_app_Zlen).
    rewrite Hok, Hget, div_ok_pos by lia. rewrite quot_is_div by lia.
    cbn [andb c_chk c_bind check_vlen_loop].
    destruct (s >? vmax / prod) eqn:E.
    + reflexivity.
    + cbn [c_bind]. vlen_st. rewrite Hok, Hget.
      apply quot_test_exact in E; [|lia].
      assert (Hin : in_i64 (prod * s) = true) by (apply in_i64_iff; nia).
      rewrite Hin. cbn [andb c_chk].
      unfold ncmpio_NC_check_vlen_loop1_inc at 1. vlen_st.
      assert (Hi : in_i32 (Zlen pre + 1) = true) by (apply in_i32_iff; lia).
      rewrite Hi. cbn [c_chk c_bind]. vlen_st.
      replace (Zlen pre + 1) with (Zlen (pre ++ [s])) by (rewrite cs_Zlen_app, cs_Zlen_cons, cs_Zlen_nil; lia).
      replace (pre ++ s :: r) with ((pre ++ [s]) ++ r) by (rewrite <- app_assoc; reflexivity).
      assert (H1 : 1 <= prod * s) by nia.
      assert (H2 : Zlen ((pre ++ [s]) ++ r) <= 2147483647) by (rewrite <- app_assoc; exact Hlen).
      assert (H3 : (Datatypes.length r < f)%nat) by (cbn [Datatypes.length] in Hf; lia).
      rewrite (IH (pre ++ [s]) xsz vmax (prod * s) f H1 Hv Hr H2 H3).
      cbn [zprod]. replace (prod * s * zprod r) with (prod * (s * zprod r)) by ring. reflexivity.
Qed.

Lemma gen_check_vlen_from : forall pre rest xsz vmax,
  1 <= xsz -> 0 <= vmax <= 9223372036854775807 ->
  Forall (fun s => 1 <= s) rest -> Zlen (pre ++ rest) <= 2147483647 ->
  c_bind (c_loop (ncmpio_NC_check_vlen_loop1_fuel (c_var xsz (pre ++ rest)) vmax (mk_st_ncmpio_NC_check_vlen (Zlen pre) xsz))
              (ncmpio_NC_check_vlen_loop1_cdef (c_var xsz (pre ++ rest)) vmax)
              (ncmpio_NC_check_vlen_loop1_cond (c_var xsz (pre ++ rest)) vmax)
              (ncmpio_NC_check_vlen_loop1_body (c_var xsz (pre ++ rest)) vmax)
              (ncmpio_NC_check_vlen_loop1_inc (c_var xsz (pre ++ rest)) vmax)
              (mk_st_ncmpio_NC_check_vlen (Zlen pre) xsz))
         (fun _ => CRet 1)
  = CRet (b2z (check_vlen_loop rest xsz vmax)).
Proof.
  intros pre rest xsz vmax Hx Hv Hall Hlen.
  rewrite gen_check_vlen_loop; try assumption.
  - destruct (check_vlen_loop rest xsz vmax); reflexivity.
  - unfold ncmpio_NC_check_vlen_loop1_fuel, c_fuel_lt. vlen_st.
    rewrite cs_Zlen_app. replace (Zlen pre + Zlen rest - Zlen pre) with (Zlen rest) by lia.
    unfold Zlen. rewrite Nat2Z.id. lia.
Qed.

Theorem gen_check_vlen_eq : forall xsz shape vmax,
  1 <= xsz -> legal_shape shape -> Zlen shape <= 2147483647 ->
  0 <= vmax <= 9223372036854775807 ->
  ncmpio_NC_check_vlen_c (c_var xsz shape) vmax = FVal (b2z (check_vlen xsz shape vmax)).
Proof.
  intros xsz shape vmax Hx Hl Hlen Hv.
  unfold ncmpio_NC_check_vlen_c, ncmpio_NC_check_vlen_body, st_ncmpio_NC_check_vlen_init.
  cbn [c_bind]. vlen_st.
  destruct shape as [|s0 r].
  - cbn [c_shape p_isnull negb c_chk c_bind z2b Z.eqb]. vlen_st.
    pose proof (gen_check_vlen_from [] [] xsz vmax Hx Hv (Forall_nil _) Hlen) as H.
    cbn [app] in H. change (Zlen (@nil Z)) with 0 in H. rewrite H. reflexivity.
  - destruct Hl as [H0 Hr].
    assert (Hok : p_ok (Some (s0 :: r, 0)) 0 = true)
      by (apply p_ok_some; rewrite cs_Zlen_cons; pose proof (cs_Zlen_nonneg _ r); lia).
    cbn [c_shape p_isnull negb]. rewrite Hok. rewrite p_get_some. cbn [Z.add znth Z.eqb].
    rewrite z2b_b2z. cbn [c_chk c_bind check_vlen]. vlen_st.
    destruct (s0 =? 0) eqn:E0.
    + pose proof (gen_check_vlen_from [s0] r xsz vmax Hx Hv Hr Hlen) as H.
      cbn [app] in H. change (Zlen [s0]) with 1 in H. rewrite H. reflexivity.
    + assert (Hall : Forall (fun s => 1 <= s) (s0 :: r)) by (constructor; [lia | exact Hr]).
      pose proof (gen_check_vlen_from [] (s0 :: r) xsz vmax Hx Hv Hall Hlen) as H.
      cbn [app] in H. change (Zlen (@nil Z)) with 0 in H. rewrite H. reflexivity.
Qed.

(* ------------------------------------------------------------------------- *)
(** * ncmpio_NC_check_vlens                                                    *)
(* ------------------------------------------------------------------------- *)
Definition isrec_shape (shape : list Z) : bool :=
  match shape with s0 :: _ => s0 =? 0 | [] => false end.
Definition triple_of (p : Z * list Z) : triple := (isrec_shape (snd p), fst p, snd p).
Definition c_var_of (p : Z * list Z) : c_NC_var := c_var (fst p) (snd p).
Definition c_vars (ps : list (Z * list Z)) : c_ptr c_NC_var :=
  match ps with [] => None | _ => Some (map c_var_of ps, 0) end.
Definition c_nc (fmt : Z) (ps : list (Z * list Z)) : c_NC :=
  {| NC__format := fmt;
     NC__vars := {| NC_vararray__ndefined := Zlen ps; NC_vararray__value := c_vars ps |} |}.
Definition wf_pair (p : Z * list Z) : Prop :=
  1 <= fst p /\ legal_shape (snd p) /\ Zlen (snd p) <= 2147483647.

Lemma c_vars_app_cons : forall pre t r, c_vars (pre ++ t :: r) = Some (map c_var_of (pre ++ t :: r), 0).
Proof. intros [|a pre] t r; reflexivity. Qed.

Lemma c_vars_ok : forall pre t r, p_ok (c_vars (pre ++ t :: r)) (Zlen pre) = true.
Proof.
  intros. rewrite c_vars_app_cons. apply p_ok_some.
  rewrite cs_Zlen_map, cs_Zlen_app, cs_Zlen_cons.
  pose proof (cs_Zlen_nonneg _ pre). pose proof (cs_Zlen_nonneg _ r). lia.
Qed.

Lemma c_vars_get : forall pre t r, p_get c_NC_var_default (c_vars (pre ++ t :: r)) (Zlen pre) = c_var_of t.
Proof.
  intros. rewrite c_vars_app_cons, p_get_some, Z.add_0_l, map_app. cbn [map].
  rewrite <- (cs_Zlen_map _ _ c_var_of pre). apply cs_znth_app_Zlen.
Qed.

(* the IS_RECVAR macro on the view of a variable *)
Lemma isrec_chk : forall p,
  (if negb (p_isnull (NC_var__shape (c_var_of p))) then p_ok (NC_var__shape (c_var_of p)) 0 else true) = true.
Proof.
  intros [xsz [|s0 r]]; [reflexivity|].
  cbn [c_var_of c_var NC_var__shape c_shape fst snd p_isnull negb].
  apply p_ok_some. rewrite cs_Zlen_cons. pose proof (cs_Zlen_nonneg _ r). lia.
Qed.

Lemma isrec_val : forall p,
  z2b (if negb (p_isnull (NC_var__shape (c_var_of p)))
       then b2z (p_get 0 (NC_var__shape (c_var_of p)) 0 =? 0) else 0) = isrec_shape (snd p).
Proof.
  intros [xsz [|s0 r]]; [reflexivity|].
  cbn [c_var_of c_var NC_var__shape c_shape fst snd p_isnull negb isrec_shape].
  rewrite p_get_some. cbn [Z.add znth Z.eqb]. apply z2b_b2z.
Qed.

Lemma vlens_pass_inv : forall fmt vmax vs w cnt last nsel c' l' n',
  vlens_pass fmt vmax vs w cnt last nsel = Some (c', l', n') ->
  0 <= cnt -> (last = true -> 1 <= cnt) -> cnt <= c' /\ (l' = true -> 1 <= c').
Proof.
  intros fmt vmax vs w. induction vs as [|[[b x] sh] l IH]; intros cnt last nsel c' l' n' H H0 Hl.
  - cbn [vlens_pass] in H. inversion H; subst. split; [lia | exact Hl].
  - cbn [vlens_pass] in H.
    destruct (Bool.eqb b w).
    + destruct (check_vlen x sh vmax).
      * apply IH in H; [exact H | exact H0 | discriminate].
      * destruct (fmt >=? 5); [discriminate|].
        apply IH in H; [ | lia | lia ]. destruct H as [H1 H2]. split; [lia | exact H2].
    + apply IH in H; assumption.
Qed.

Ltac vlens_st :=
  unfold set_ncmpio_NC_check_vlens__i, set_ncmpio_NC_check_vlens__large_fix_vars_count,
         set_ncmpio_NC_check_vlens__large_rec_vars_count, set_ncmpio_NC_check_vlens__last,
         set_ncmpio_NC_check_vlens__rec_vars_count, set_ncmpio_NC_check_vlens__varp,
         set_ncmpio_NC_check_vlens__vlen_max;
  cbn [ncmpio_NC_check_vlens__i ncmpio_NC_check_vlens__large_fix_vars_count
       ncmpio_NC_check_vlens__large_rec_vars_count ncmpio_NC_check_vlens__last
       ncmpio_NC_check_vlens__rec_vars_count ncmpio_NC_check_vlens__varp
       ncmpio_NC_check_vlens__vlen_max
       NC__format NC__vars NC_vararray__ndefined NC_vararray__value c_nc].

Definition nrec_of (ps : list (Z * list Z)) : Z :=
  Zlen (filter (fun t : triple => fst (fst t)) (map triple_of ps)).
Definition last_var (vp : c_NC_var) (ps : list (Z * list Z)) : c_NC_var :=
  fold_left (fun _ p => c_var_of p) ps vp.

Lemma nrec_of_cons : forall p ps, nrec_of (p :: ps) = (if isrec_shape (snd p) then 1 else 0) + nrec_of ps.
Proof.
  intros p ps. unfold nrec_of. cbn [map filter triple_of fst].
  destruct (isrec_shape (snd p)); [rewrite cs_Zlen_cons|]; lia.
Qed.

Lemma nrec_of_bounds : forall ps, 0 <= nrec_of ps <= Zlen ps.
Proof.
  induction ps as [|p ps IH]; [unfold nrec_of; cbn; lia|].
  rewrite nrec_of_cons, cs_Zlen_cons. destruct (isrec_shape (snd p)); lia.
Qed.

Lemma gen_vlens_pass1 : forall rest pre fmt vmax cnt lastb rc lrc vp fuel nsel,
  0 <= vmax <= 9223372036854775807 ->
  0 <= cnt <= Zlen pre -> 0 <= rc <= Zlen pre -> Zlen (pre ++ rest) <= 2147483647 ->
  Forall wf_pair rest -> (Datatypes.length rest < fuel)%nat ->
  c_loop fuel (ncmpio_NC_check_vlens_loop1_cdef (c_nc fmt (pre ++ rest)))
              (ncmpio_NC_check_vlens_loop1_cond (c_nc fmt (pre ++ rest)))
              (ncmpio_NC_check_vlens_loop1_body (c_nc fmt (pre ++ rest)))
              (ncmpio_NC_check_vlens_loop1_inc (c_nc fmt (pre ++ rest)))
     {| ncmpio_NC_check_vlens__i := Zlen pre;
        ncmpio_NC_check_vlens__large_fix_vars_count := cnt;
        ncmpio_NC_check_vlens__large_rec_vars_count := lrc;
        ncmpio_NC_check_vlens__last := b2z lastb;
        ncmpio_NC_check_vlens__rec_vars_count := rc;
        ncmpio_NC_check_vlens__varp := vp;
        ncmpio_NC_check_vlens__vlen_max := vmax |}
  = match vlens_pass fmt vmax (map triple_of rest) false cnt lastb nsel with
    | None => CRet (-62)
    | Some (cnt', last', _) =>
        CNorm {| ncmpio_NC_check_vlens__i := Zlen (pre ++ rest);
                 ncmpio_NC_check_vlens__large_fix_vars_count := cnt';
                 ncmpio_NC_check_vlens__large_rec_vars_count := lrc;
                 ncmpio_NC_check_vlens__last := b2z last';
                 ncmpio_NC_check_vlens__rec_vars_count := rc + nrec_of rest;
                 ncmpio_NC_check_vlens__varp := last_var vp rest;
                 ncmpio_NC_check_vlens__vlen_max := vmax |}
    end.
Proof.
  induction rest as [|t r IH]; intros pre fmt vmax cnt lastb rc lrc vp fuel nsel Hv Hc Hrc Hlen Hwf Hf.
  - destruct fuel as [|f]; [cbn in Hf; lia|].
    rewrite c_loop_exit.
    + cbn [map vlens_pass last_var fold_left]. rewrite app_nil_r.
      unfold nrec_of. cbn [map filter]. rewrite cs_Zlen_nil, Z.add_0_r. reflexivity.
    + reflexivity.
    + unfold ncmpio_NC_check_vlens_loop1_cond. vlens_st. rewrite app_nil_r. lia.
  - destruct fuel as [|f]; [cbn in Hf; lia|].
    inversion Hwf as [|? ? Ht Hr]; subst.
    assert (Hlen' : Zlen (pre ++ t :: r) = Zlen pre + 1 + Zlen r) by (rewrite cs_Zlen_app, cs_Zlen_cons; lia).
    pose proof (cs_Zlen_nonneg _ pre) as Hpre0. pose proof (cs_Zlen_nonneg _ r) as Hr0.
    rewrite c_loop_iter;
      [ | reflexivity | unfold ncmpio_NC_check_vlens_loop1_cond; vlens_st; lia ].
    unfold ncmpio_NC_check_vlens_loop1_body at 1. vlens_st.
    rewrite c_vars_ok, c_vars_get. cbn [c_chk c_bind]. vlens_st.
    rewrite isrec_chk, isrec_val. cbn [c_chk].
    destruct Ht as [Hx [Hls Hnd]].
    assert (Hi : in_i64 (Zlen pre + 1) = true) by (apply in_i64_iff; lia).
    assert (Hpre1 : Zlen pre + 1 = Zlen (pre ++ [t])) by (rewrite cs_Zlen_app, cs_Zlen_cons, cs_Zlen_nil; lia).
    assert (Happ : pre ++ t :: r = (pre ++ [t]) ++ r) by (rewrite <- app_assoc; reflexivity).
    assert (Hlen2 : Zlen ((pre ++ [t]) ++ r) <= 2147483647) by (rewrite <- Happ; exact Hlen).
    assert (Hf' : (Datatypes.length r < f)%nat) by (cbn [Datatypes.length] in Hf; lia).
    cbn [map vlens_pass triple_of fst snd last_var fold_left]. fold (last_var (c_var_of t) r).
    rewrite nrec_of_cons.
    destruct (isrec_shape (snd t)) eqn:Erec; cbn [Bool.eqb].
    + (* record variable: counted, skipped *)
      assert (Hrc1 : in_i64 (rc + 1) = true) by (apply in_i64_iff; lia).
      rewrite Hrc1. cbn [c_chk c_bind].
      unfold ncmpio_NC_check_vlens_loop1_inc at 1. vlens_st. rewrite Hi. cbn [c_chk c_bind]. vlens_st.
      rewrite Hpre1, Happ.
      rewrite (IH (pre ++ [t]) fmt vmax cnt lastb (rc + 1) lrc (c_var_of t) f nsel Hv); try assumption; try lia.
      destruct (vlens_pass fmt vmax (map triple_of r) false cnt lastb nsel) as [[[c' l'] n']|]; [|reflexivity].
      f_equal. f_equal. lia.
    + (* fixed-size variable *)
      cbn [c_bind]. vlens_st.
      unfold c_var_of at 1. rewrite (gen_check_vlen_eq (fst t) (snd t) vmax Hx Hls Hnd Hv).
      cbn [c_call]. rewrite b2z_eq0.
      destruct (check_vlen (fst t) (snd t) vmax) eqn:Ecv; cbn [negb].
      * unfold ncmpio_NC_check_vlens_loop1_inc at 1. vlens_st. rewrite Hi. cbn [c_chk c_bind]. vlens_st.
        rewrite Hpre1, Happ.
        etransitivity;
          [ apply (IH (pre ++ [t]) fmt vmax cnt false rc lrc (c_var_of t) f (nsel + 1) Hv); try assumption; lia
          | rewrite Z.add_0_l; reflexivity ].
      * destruct (fmt >=? 5) eqn:Ef; cbn [c_bind]; [reflexivity|]. vlens_st.
        assert (Hc1 : in_i64 (cnt + 1) = true) by (apply in_i64_iff; lia).
        rewrite Hc1. cbn [c_chk c_bind]. vlens_st.
        unfold ncmpio_NC_check_vlens_loop1_inc at 1. vlens_st. rewrite Hi. cbn [c_chk c_bind]. vlens_st.
        rewrite Hpre1, Happ.
        etransitivity;
          [ apply (IH (pre ++ [t]) fmt vmax (cnt + 1) true rc lrc (c_var_of t) f (nsel + 1) Hv); try assumption; lia
          | rewrite Z.add_0_l; reflexivity ].
Qed.

Lemma gen_vlens_pass2 : forall rest pre fmt vmax cnt lastb rc lf vp fuel nsel,
  0 <= vmax <= 9223372036854775807 ->
  0 <= cnt <= Zlen pre -> Zlen (pre ++ rest) <= 2147483647 ->
  Forall wf_pair rest -> (Datatypes.length rest < fuel)%nat ->
  c_loop fuel (ncmpio_NC_check_vlens_loop2_cdef (c_nc fmt (pre ++ rest)))
              (ncmpio_NC_check_vlens_loop2_cond (c_nc fmt (pre ++ rest)))
              (ncmpio_NC_check_vlens_loop2_body (c_nc fmt (pre ++ rest)))
              (ncmpio_NC_check_vlens_loop2_inc (c_nc fmt (pre ++ rest)))
     {| ncmpio_NC_check_vlens__i := Zlen pre;
        ncmpio_NC_check_vlens__large_fix_vars_count := lf;
        ncmpio_NC_check_vlens__large_rec_vars_count := cnt;
        ncmpio_NC_check_vlens__last := b2z lastb;
        ncmpio_NC_check_vlens__rec_vars_count := rc;
        ncmpio_NC_check_vlens__varp := vp;
        ncmpio_NC_check_vlens__vlen_max := vmax |}
  = match vlens_pass fmt vmax (map triple_of rest) true cnt lastb nsel with
    | None => CRet (-62)
    | Some (cnt', last', _) =>
        CNorm {| ncmpio_NC_check_vlens__i := Zlen (pre ++ rest);
                 ncmpio_NC_check_vlens__large_fix_vars_count := lf;
                 ncmpio_NC_check_vlens__large_rec_vars_count := cnt';
                 ncmpio_NC_check_vlens__last := b2z last';
                 ncmpio_NC_check_vlens__rec_vars_count := rc;
                 ncmpio_NC_check_vlens__varp := last_var vp rest;
                 ncmpio_NC_check_vlens__vlen_max := vmax |}
    end.
Proof.
  induction rest as [|t r IH]; intros pre fmt vmax cnt lastb rc lf vp fuel nsel Hv Hc Hlen Hwf Hf.
  - destruct fuel as [|f]; [cbn in Hf; lia|].
    rewrite c_loop_exit.
    + cbn [map vlens_pass last_var fold_left]. rewrite app_nil_r. reflexivity.
    + reflexivity.
    + unfold ncmpio_NC_check_vlens_loop2_cond. vlens_st. rewrite app_nil_r. lia.
  - destruct fuel as [|f]; [cbn in Hf; lia|].
    inversion Hwf as [|? ? Ht Hr]; subst.
    assert (Hlen' : Zlen (pre ++ t :: r) = Zlen pre + 1 + Zlen r) by (rewrite cs_Zlen_app, cs_Zlen_cons; lia).
    pose proof (cs_Zlen_nonneg _ pre) as Hpre0. pose proof (cs_Zlen_nonneg _ r) as Hr0.
    rewrite c_loop_iter;
      [ | reflexivity | unfold ncmpio_NC_check_vlens_loop2_cond; vlens_st; lia ].
    unfold ncmpio_NC_check_vlens_loop2_body at 1. vlens_st.
    rewrite c_vars_ok, c_vars_get. cbn [c_chk c_bind]. vlens_st.
    rewrite isrec_chk, isrec_val. cbn [c_chk].
    destruct Ht as [Hx [Hls Hnd]].
    assert (Hi : in_i64 (Zlen pre + 1) = true) by (apply in_i64_iff; lia).
    assert (Hpre1 : Zlen pre + 1 = Zlen (pre ++ [t])) by (rewrite cs_Zlen_app, cs_Zlen_cons, cs_Zlen_nil; lia).
    assert (Happ : pre ++ t :: r = (pre ++ [t]) ++ r) by (rewrite <- app_assoc; reflexivity).
    assert (Hlen2 : Zlen ((pre ++ [t]) ++ r) <= 2147483647) by (rewrite <- Happ; exact Hlen).
    assert (Hf' : (Datatypes.length r < f)%nat) by (cbn [Datatypes.length] in Hf; lia).
    cbn [map vlens_pass triple_of fst snd last_var fold_left]. fold (last_var (c_var_of t) r).
    destruct (isrec_shape (snd t)) eqn:Erec; cbn [Bool.eqb negb].
    + (* record variable *)
      cbn [c_bind]. vlens_st.
      unfold c_var_of at 1. rewrite (gen_check_vlen_eq (fst t) (snd t) vmax Hx Hls Hnd Hv).
      cbn [c_call]. rewrite b2z_eq0.
      destruct (check_vlen (fst t) (snd t) vmax) eqn:Ecv; cbn [negb].
      * unfold ncmpio_NC_check_vlens_loop2_inc at 1. vlens_st. rewrite Hi. cbn [c_chk c_bind]. vlens_st.
        rewrite Hpre1, Happ.
        apply (IH (pre ++ [t]) fmt vmax cnt false rc lf (c_var_of t) f (nsel + 1) Hv); try assumption; lia.
      * destruct (fmt >=? 5) eqn:Ef; cbn [c_bind]; [reflexivity|]. vlens_st.
        assert (Hc1 : in_i64 (cnt + 1) = true) by (apply in_i64_iff; lia).
        rewrite Hc1. cbn [c_chk c_bind]. vlens_st.
        unfold ncmpio_NC_check_vlens_loop2_inc at 1. vlens_st. rewrite Hi. cbn [c_chk c_bind]. vlens_st.
        rewrite Hpre1, Happ.
        apply (IH (pre ++ [t]) fmt vmax (cnt + 1) true rc lf (c_var_of t) f (nsel + 1) Hv); try assumption; lia.
    + (* fixed-size variable: skipped *)
      cbn [c_bind]. unfold ncmpio_NC_check_vlens_loop2_inc at 1. vlens_st. rewrite Hi. cbn [c_chk c_bind]. vlens_st.
      rewrite Hpre1, Happ.
      apply (IH (pre ++ [t]) fmt vmax cnt lastb rc lf (c_var_of t) f nsel Hv); try assumption; lia.
Qed.

Lemma vlen_max_of_range' : forall fmt, 0 <= vlen_max_of fmt <= 9223372036854775807.
Proof. intros fmt. pose proof (vlen_max_of_range fmt). lia. Qed.

Lemma loop_fuel_enough : forall A (ps : list A), (Datatypes.length ps < c_fuel_lt 0 (Zlen ps))%nat.
Proof. intros. unfold c_fuel_lt, Zlen. rewrite Z.sub_0_r, Nat2Z.id. lia. Qed.

Lemma gen_vlens_pass1_all : forall fmt ps vmax lrc vp,
  0 <= vmax <= 9223372036854775807 -> Zlen ps <= 2147483647 -> Forall wf_pair ps ->
  let s0 := {| ncmpio_NC_check_vlens__i := 0;
               ncmpio_NC_check_vlens__large_fix_vars_count := 0;
               ncmpio_NC_check_vlens__large_rec_vars_count := lrc;
               ncmpio_NC_check_vlens__last := 0;
               ncmpio_NC_check_vlens__rec_vars_count := 0;
               ncmpio_NC_check_vlens__varp := vp;
               ncmpio_NC_check_vlens__vlen_max := vmax |} in
  c_loop (ncmpio_NC_check_vlens_loop1_fuel (c_nc fmt ps) s0)
         (ncmpio_NC_check_vlens_loop1_cdef (c_nc fmt ps))
         (ncmpio_NC_check_vlens_loop1_cond (c_nc fmt ps))
         (ncmpio_NC_check_vlens_loop1_body (c_nc fmt ps))
         (ncmpio_NC_check_vlens_loop1_inc (c_nc fmt ps)) s0
  = match vlens_pass fmt vmax (map triple_of ps) false 0 false 0 with
    | None => CRet (-62)
    | Some (cnt', last', _) =>
        CNorm {| ncmpio_NC_check_vlens__i := Zlen ps;
                 ncmpio_NC_check_vlens__large_fix_vars_count := cnt';
                 ncmpio_NC_check_vlens__large_rec_vars_count := lrc;
                 ncmpio_NC_check_vlens__last := b2z last';
                 ncmpio_NC_check_vlens__rec_vars_count := nrec_of ps;
                 ncmpio_NC_check_vlens__varp := last_var vp ps;
                 ncmpio_NC_check_vlens__vlen_max := vmax |}
    end.
Proof.
  intros fmt ps vmax lrc vp Hv Hn Hwf s0.
  assert (Hf : (Datatypes.length ps < ncmpio_NC_check_vlens_loop1_fuel (c_nc fmt ps) s0)%nat)
    by (unfold ncmpio_NC_check_vlens_loop1_fuel, s0; vlens_st; apply loop_fuel_enough).
  assert (H00 : 0 <= 0 <= Zlen (@nil (Z * list Z))) by (rewrite cs_Zlen_nil; lia).
  exact (gen_vlens_pass1 ps [] fmt vmax 0 false 0 lrc vp _ 0 Hv H00 H00 Hn Hwf Hf).
Qed.

Lemma gen_vlens_pass2_all : forall fmt ps vmax lf rc vp,
  0 <= vmax <= 9223372036854775807 -> Zlen ps <= 2147483647 -> Forall wf_pair ps ->
  let s0 := {| ncmpio_NC_check_vlens__i := 0;
               ncmpio_NC_check_vlens__large_fix_vars_count := lf;
               ncmpio_NC_check_vlens__large_rec_vars_count := 0;
               ncmpio_NC_check_vlens__last := 0;
               ncmpio_NC_check_vlens__rec_vars_count := rc;
               ncmpio_NC_check_vlens__varp := vp;
               ncmpio_NC_check_vlens__vlen_max := vmax |} in
  c_loop (ncmpio_NC_check_vlens_loop2_fuel (c_nc fmt ps) s0)
         (ncmpio_NC_check_vlens_loop2_cdef (c_nc fmt ps))
         (ncmpio_NC_check_vlens_loop2_cond (c_nc fmt ps))
         (ncmpio_NC_check_vlens_loop2_body (c_nc fmt ps))
         (ncmpio_NC_check_vlens_loop2_inc (c_nc fmt ps)) s0
  = match vlens_pass fmt vmax (map triple_of ps) true 0 false 0 with
    | None => CRet (-62)
    | Some (cnt', last', _) =>
        CNorm {| ncmpio_NC_check_vlens__i := Zlen ps;
                 ncmpio_NC_check_vlens__large_fix_vars_count := lf;
                 ncmpio_NC_check_vlens__large_rec_vars_count := cnt';
                 ncmpio_NC_check_vlens__last := b2z last';
                 ncmpio_NC_check_vlens__rec_vars_count := rc;
                 ncmpio_NC_check_vlens__varp := last_var vp ps;
                 ncmpio_NC_check_vlens__vlen_max := vmax |}
    end.
Proof.
  intros fmt ps vmax lf rc vp Hv Hn Hwf s0.
  assert (Hf : (Datatypes.length ps < ncmpio_NC_check_vlens_loop2_fuel (c_nc fmt ps) s0)%nat)
    by (unfold ncmpio_NC_check_vlens_loop2_fuel, s0; vlens_st; apply loop_fuel_enough).
  assert (H00 : 0 <= 0 <= Zlen (@nil (Z * list Z))) by (rewrite cs_Zlen_nil; lia).
  exact (gen_vlens_pass2 ps [] fmt vmax 0 false rc lf vp _ 0 Hv H00 Hn Hwf Hf).
Qed.

Theorem gen_check_vlens_pairs_eq : forall fmt ps,
  Forall wf_pair ps -> Zlen ps <= 2147483647 ->
  ncmpio_NC_check_vlens_c (c_nc fmt ps) = FVal (check_vlens_body fmt (vlen_max_of fmt) (map triple_of ps)).
Proof.
  intros fmt ps Hwf Hn.
  destruct ps as [|p0 ps0]; [reflexivity|].
  set (ps := p0 :: ps0) in *.
  assert (Hnz : (Zlen ps =? 0) = false)
    by (unfold ps; rewrite cs_Zlen_cons; pose proof (cs_Zlen_nonneg _ ps0); lia).
  pose proof (vlen_max_of_range' fmt) as Hv.
  remember (vlen_max_of fmt) as vmax eqn:Evm.
  unfold ncmpio_NC_check_vlens_c, ncmpio_NC_check_vlens_body, st_ncmpio_NC_check_vlens_init.
  cbn [c_bind]. vlens_st. rewrite Hnz. cbn [c_bind]. vlens_st.
  assert (Hvm : (if fmt >=? 5 then 9223372036854775804 else if fmt =? 2 then 4294967292 else 2147483644) = vmax).
  { subst vmax. unfold vlen_max_of. destruct (fmt >=? 5); [reflexivity|]. destruct (fmt =? 2); reflexivity. }
  destruct (fmt >=? 5) eqn:E5; [| destruct (fmt =? 2) eqn:E2]; cbn [c_bind]; vlens_st; rewrite Hvm.
  all: cbn [c_bind]; vlens_st.
  all: rewrite (gen_vlens_pass1_all fmt ps vmax 0 c_NC_var_default Hv Hn Hwf).
  all: unfold check_vlens_body.
  all: destruct (vlens_pass fmt vmax (map triple_of ps) false 0 false 0) as [[[lf lastf] n1]|] eqn:P1; [|reflexivity].
  all: cbn [c_bind]; vlens_st.
  all: assert (Hinv : 0 <= lf /\ (lastf = true -> 1 <= lf))
         by (apply (vlens_pass_inv _ _ _ _ _ _ _ _ _ _ P1); [lia | discriminate]).
  all: destruct Hinv as [Hlf0 Hlast].
  all: destruct (lf >? 1) eqn:Elf1; cbn [c_bind]; [reflexivity|]; vlens_st.
  all: rewrite b2z_eq0.
  all: destruct ((lf =? 1) && negb lastf) eqn:Elast; cbn [c_bind]; [reflexivity|]; vlens_st.
  all: change (Zlen (filter (fun t : triple => fst (fst t)) (map triple_of ps))) with (nrec_of ps); cbv zeta.
  all: destruct (nrec_of ps =? 0) eqn:Enrec; cbn [c_bind]; [reflexivity|]; vlens_st.
  all: destruct (lf =? 1) eqn:Elf; cbn [c_bind]; [reflexivity|]; vlens_st.
  all: assert (Hlf : lastf = false) by (destruct lastf; [lia | reflexivity]).
  all: subst lastf; cbn [b2z].
  all: rewrite (gen_vlens_pass2_all fmt ps vmax lf (nrec_of ps) (last_var c_NC_var_default ps) Hv Hn Hwf).
  all: destruct (vlens_pass fmt vmax (map triple_of ps) true 0 false 0) as [[[lr lastr] n2]|] eqn:P2; [|reflexivity].
  all: cbn [c_bind]; vlens_st.
  all: destruct (lr >? 1) eqn:Elr1; cbn [c_bind]; [reflexivity|]; vlens_st.
  all: rewrite b2z_eq0.
  all: destruct ((lr =? 1) && negb lastr) eqn:Elastr; reflexivity.
Qed.

(* ---- the header-level statement ---- *)
Definition hdr_pairs (h : hdr) : list (Z * list Z) :=
  map (fun v => (xlen_type (v_type v), var_shape (h_dims h) v)) (h_vars h).
(* the C-side view of a header: what ncmpio_NC_check_vlens reads of NC *ncp *)
Definition c_view (h : hdr) : c_NC := c_nc (h_format h) (hdr_pairs h).
(* what the C code relies on *)
Definition vlens_wf (h : hdr) : Prop :=
  Zlen (h_vars h) <= 2147483647 /\
  Forall (fun v => 1 <= xlen_type (v_type v) /\ legal_shape (var_shape (h_dims h) v) /\
                   Zlen (v_dimids v) <= 2147483647) (h_vars h).

Lemma hdr_triples_pairs : forall h, hdr_triples h = map triple_of (hdr_pairs h).
Proof.
  intros h. unfold hdr_triples, hdr_pairs. rewrite map_map. apply map_ext. intros v.
  unfold var_triple, triple_of, is_recvar, isrec_shape. cbn [fst snd]. reflexivity.
Qed.

Theorem gen_check_vlens_eq : forall h, vlens_wf h ->
  ncmpio_NC_check_vlens_c (c_view h) = FVal (check_vlens h).
Proof.
  intros h [Hn Hwf].
  rewrite check_vlens_unfold, hdr_triples_pairs. unfold c_view.
  apply gen_check_vlens_pairs_eq.
  - unfold hdr_pairs. rewrite Forall_map. eapply Forall_impl; [|exact Hwf].
    intros v [H1 [H2 H3]]. unfold wf_pair. cbn [fst snd]. split; [exact H1|]. split; [exact H2|].
    unfold var_shape. rewrite cs_Zlen_map. exact H3.
  - unfold hdr_pairs. rewrite cs_Zlen_map. exact Hn.
Qed.

(* ------------------------------------------------------------------------- *)
(** * the translator met nothing outside its subset                            *)
(* ------------------------------------------------------------------------- *)
Theorem gen_vlens_subset_complete : tr_cfun_unsupported = [].
Proof. reflexivity. Qed.

(* ------------------------------------------------------------------------- *)
(** * the guards are satisfiable; the generated functions run                  *)
(* ------------------------------------------------------------------------- *)
Example gen_check_vlen_guards_ex :
  (1 <= 4 /\ legal_shape [0; 1024; 1024] /\ Zlen [0; 1024; 1024] <= 2147483647 /\
   0 <= vlen_max_of 1 <= 9223372036854775807) /\
  ncmpio_NC_check_vlen_c (c_var 4 [0; 1024; 1024]) (vlen_max_of 1) = FVal 1 /\
  ncmpio_NC_check_vlen_c (c_var 4 [1024; 1024; 1024]) (vlen_max_of 1) = FVal 0.
Proof.
  split; [|split; reflexivity].
  split; [lia|]. split; [|split; [cbn; lia | vm_compute; split; discriminate]].
  cbn [legal_shape]. split; [lia|]. repeat constructor; lia.
Qed.

Lemma vlens_wf_ex_h : forall h, In h [ex_h1; ex_h2; ex_h3; ex_h4; ex_h5] -> vlens_wf h.
Proof.
  intros h Hin. cbn [In] in Hin.
  assert (Hv : forall ids, In ids [[1; 2]; [1; 2; 3]; [0; 1]; [0; 1; 2; 3]] ->
                           legal_shape (map (dim_size ex_dims) ids) /\ Zlen ids <= 2147483647).
  { intros ids Hi. cbn [In] in Hi.
    destruct Hi as [<-|[<-|[<-|[<-|[]]]]]; (split; [|cbn; lia]); cbn; (split; [lia|]); repeat constructor; lia. }
  destruct Hin as [<-|[<-|[<-|[<-|[<-|[]]]]]]; (split; [cbn; lia|]);
    repeat (constructor; [split; [cbn; lia | apply Hv; cbn [In]; tauto] | ]); constructor.
Qed.

Example gen_check_vlens_guards_ex :
  vlens_wf ex_h1 /\ vlens_wf ex_h3 /\ vlens_wf ex_h4 /\
  ncmpio_NC_check_vlens_c (c_view ex_h1) = FVal NC_NOERR /\
  ncmpio_NC_check_vlens_c (c_view ex_h2) = FVal NC_EVARSIZE /\
  ncmpio_NC_check_vlens_c (c_view ex_h3) = FVal NC_EVARSIZE /\
  ncmpio_NC_check_vlens_c (c_view ex_h4) = FVal NC_NOERR /\
  ncmpio_NC_check_vlens_c (c_view ex_h5) = FVal NC_NOERR.
Proof.
  split; [apply vlens_wf_ex_h; cbn [In]; tauto|].
  split; [apply vlens_wf_ex_h; cbn [In]; tauto|].
  split; [apply vlens_wf_ex_h; cbn [In]; tauto|].
  repeat split.
Qed.

Print Assumptions gen_check_vlen_eq.
Print Assumptions gen_check_vlens_eq.
Print Assumptions gen_vlens_subset_complete.
