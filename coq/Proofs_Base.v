(* Proofs_Base.v — generic lemmas used by Proofs_Header.v:
   Zlen algebra, big-endian codec round trips, padding, zfirstn/zskipn on appends,
   and parser-combinator lemmas (p_bytes / p_padded / p_many / p_list) of HeaderSpec.v.
   No model definition is modified; every statement is fully proved. *)
From Pnc Require Import Base Header HeaderSpec.
Require Import Lia ZArith ZifyBool.
Ltac Zify.zify_post_hook ::= Z.div_mod_to_equations.
Local Open Scope Z_scope.

Local Arguments Z.mul : simpl never.
Local Arguments Z.add : simpl never.
Local Arguments Z.sub : simpl never.
Local Arguments Z.div : simpl never.
Local Arguments Z.modulo : simpl never.
Local Arguments Z.pow : simpl never.
Local Arguments Z.of_nat : simpl never.
Local Arguments Z.to_nat : simpl never.

(* ------------------------------------------------------------------ *)
(** * Zlen *)

Lemma Zlen_nil : forall A, Zlen (@nil A) = 0.
Proof. reflexivity. Qed.

Lemma Zlen_cons : forall A (x : A) l, Zlen (x :: l) = 1 + Zlen l.
Proof. intros A x l. unfold Zlen. cbn [length]. lia. Qed.

Lemma Zlen_app : forall A (l1 l2 : list A), Zlen (l1 ++ l2) = Zlen l1 + Zlen l2.
Proof. intros A l1 l2. unfold Zlen. rewrite app_length. lia. Qed.

Lemma Zlen_nonneg : forall A (l : list A), 0 <= Zlen l.
Proof. intros A l. unfold Zlen. lia. Qed.

Lemma Zlen_map : forall A B (f : A -> B) l, Zlen (map f l) = Zlen l.
Proof. intros A B f l. unfold Zlen. rewrite map_length. reflexivity. Qed.

Lemma Zlen_zero_nil : forall A (l : list A), Zlen l = 0 -> l = [].
Proof. intros A [|x l] H; [reflexivity|]. rewrite Zlen_cons in H. pose proof (Zlen_nonneg _ l). lia. Qed.

Lemma to_nat_Zlen : forall A (l : list A), Z.to_nat (Zlen l) = length l.
Proof. intros A l. unfold Zlen. lia. Qed.

Lemma Zlen_repeat : forall A (x : A) n, Zlen (repeat x n) = Z.of_nat n.
Proof. intros A x n. unfold Zlen. rewrite repeat_length. reflexivity. Qed.

Lemma Zlen_zeros : forall n, 0 <= n -> Zlen (zeros n) = n.
Proof. intros n Hn. unfold zeros. rewrite Zlen_repeat. lia. Qed.

(* ------------------------------------------------------------------ *)
(** * padding *)

Lemma padlen_range : forall n, 0 <= padlen n < 4.
Proof. intros n. unfold padlen. lia. Qed.

Lemma padlen_mod4 : forall n, (n + padlen n) mod 4 = 0.
Proof. intros n. unfold padlen. lia. Qed.

Lemma padlen_0 : padlen 0 = 0.
Proof. reflexivity. Qed.

Lemma Zlen_pad4 : forall n, Zlen (pad4 n) = padlen n.
Proof. intros n. unfold pad4. apply Zlen_zeros. pose proof (padlen_range n). lia. Qed.

(* the library's rounding macro and the grammar's padding agree (for every integer) *)
Lemma rndup4_padlen : forall n, rndup n 4 = n + padlen n.
Proof. intros n. unfold rndup, padlen. cbn [Z.eqb]. lia. Qed.

Lemma rndup4_mod4 : forall n, rndup n 4 mod 4 = 0.
Proof. intros n. rewrite rndup4_padlen. apply padlen_mod4. Qed.

Lemma all_zero_repeat : forall n, all_zero (repeat 0 n) = true.
Proof. induction n as [|n IH]; [reflexivity|]. cbn [repeat all_zero forallb]. exact IH. Qed.

Lemma all_zero_zeros : forall n, all_zero (zeros n) = true.
Proof. intros n. unfold zeros. apply all_zero_repeat. Qed.

Lemma all_zero_pad4 : forall n, all_zero (pad4 n) = true.
Proof. intros n. unfold pad4. apply all_zero_zeros. Qed.

Lemma all_zero_app : forall a b, all_zero (a ++ b) = all_zero a && all_zero b.
Proof. intros a b. unfold all_zero. apply forallb_app. Qed.

(* ------------------------------------------------------------------ *)
(** * big-endian codecs *)

Lemma Zlen_put_u32 : forall x, Zlen (put_u32 x) = 4.
Proof. reflexivity. Qed.

Lemma Zlen_put_u64 : forall x, Zlen (put_u64 x) = 8.
Proof. reflexivity. Qed.

(* what the four emitted bytes denote, for EVERY integer x (two's complement wrap) *)
Lemma be32_value : forall x,
  (x / 16777216) mod 256 * 16777216 + (x / 65536) mod 256 * 65536 +
  (x / 256) mod 256 * 256 + x mod 256 = x mod 4294967296.
Proof. intros x. lia. Qed.

Lemma get_put_u32_mod : forall x r, get_u32 (put_u32 x ++ r) = Some (x mod 4294967296, r).
Proof.
  intros x r. unfold put_u32. cbn [app get_u32]. rewrite be32_value. reflexivity.
Qed.

Lemma get_put_u32 : forall x r, 0 <= x < 4294967296 -> get_u32 (put_u32 x ++ r) = Some (x, r).
Proof. intros x r Hx. rewrite get_put_u32_mod. rewrite Z.mod_small by lia. reflexivity. Qed.

Lemma be64_value : forall x,
  (x / 4294967296) mod 4294967296 * 4294967296 + (x mod 4294967296) mod 4294967296
  = x mod 18446744073709551616.
Proof. intros x. lia. Qed.

Lemma get_put_u64_mod : forall x r,
  get_u64 (put_u64 x ++ r) = Some (x mod 18446744073709551616, r).
Proof.
  intros x r. unfold put_u64, get_u64. rewrite <- app_assoc.
  rewrite get_put_u32_mod. rewrite get_put_u32_mod. rewrite be64_value. reflexivity.
Qed.

Lemma get_put_u64 : forall x r, 0 <= x < 18446744073709551616 ->
  get_u64 (put_u64 x ++ r) = Some (x, r).
Proof. intros x r Hx. rewrite get_put_u64_mod. rewrite Z.mod_small by lia. reflexivity. Qed.

(* every emitted byte is a byte *)
Lemma put_u32_bytes : forall x, Forall (fun b => is_byte b = true) (put_u32 x).
Proof.
  intros x. unfold put_u32, is_byte.
  repeat (apply Forall_cons; [lia|]). apply Forall_nil.
Qed.

Lemma put_u64_bytes : forall x, Forall (fun b => is_byte b = true) (put_u64 x).
Proof. intros x. unfold put_u64. apply Forall_app. split; apply put_u32_bytes. Qed.

Lemma zeros_bytes : forall n, Forall (fun b => is_byte b = true) (zeros n).
Proof.
  intros n. unfold zeros. induction (Z.to_nat n) as [|k IH]; cbn [repeat].
  - apply Forall_nil.
  - apply Forall_cons; [reflexivity|exact IH].
Qed.

(* ------------------------------------------------------------------ *)
(** * zfirstn / zskipn *)

Lemma zfirstn_app_exact : forall A (l r : list A), zfirstn (Zlen l) (l ++ r) = l.
Proof.
  intros A l r. induction l as [|x l IH].
  - cbn [app]. rewrite Zlen_nil. destruct r as [|y r]; reflexivity.
  - cbn [app zfirstn]. rewrite Zlen_cons. pose proof (Zlen_nonneg _ l) as Hl.
    destruct (1 + Zlen l <=? 0) eqn:E; [lia|].
    replace (1 + Zlen l - 1) with (Zlen l) by lia. rewrite IH. reflexivity.
Qed.

Lemma zskipn_app_exact : forall A (l r : list A), zskipn (Zlen l) (l ++ r) = r.
Proof.
  intros A l r. induction l as [|x l IH].
  - cbn [app]. rewrite Zlen_nil. destruct r as [|y r]; reflexivity.
  - cbn [app zskipn]. rewrite Zlen_cons. pose proof (Zlen_nonneg _ l) as Hl.
    destruct (1 + Zlen l <=? 0) eqn:E; [lia|].
    replace (1 + Zlen l - 1) with (Zlen l) by lia. exact IH.
Qed.

Lemma zfirstn_0 : forall A (l : list A), zfirstn 0 l = [].
Proof. intros A [|x l]; reflexivity. Qed.

Lemma zskipn_0 : forall A (l : list A), zskipn 0 l = l.
Proof. intros A [|x l]; reflexivity. Qed.

(* ------------------------------------------------------------------ *)
(** * parser combinators of HeaderSpec.v *)

Lemma p_bytes_app : forall l r, p_bytes (Zlen l) (l ++ r) = Some (l, r).
Proof.
  intros l r. unfold p_bytes. rewrite Zlen_app.
  pose proof (Zlen_nonneg _ l) as Hl. pose proof (Zlen_nonneg _ r) as Hr.
  destruct ((Zlen l <? 0) || (Zlen l + Zlen r <? Zlen l)) eqn:E; [lia|].
  rewrite zfirstn_app_exact, zskipn_app_exact. reflexivity.
Qed.

Lemma p_bytes_app_eq : forall n l r, n = Zlen l -> p_bytes n (l ++ r) = Some (l, r).
Proof. intros n l r ->. apply p_bytes_app. Qed.

(* data followed by the encoder's zero padding *)
Lemma p_padded_app : forall n l r, n = Zlen l ->
  p_padded n (l ++ pad4 n ++ r) = Some ((l, pad4 n), r).
Proof.
  intros n l r Hn. unfold p_padded.
  rewrite (p_bytes_app_eq n l _ Hn).
  rewrite (p_bytes_app_eq (padlen n) (pad4 n) r) by (symmetry; apply Zlen_pad4).
  reflexivity.
Qed.

Lemma p_padded_0 : forall r, p_padded 0 r = Some (([], []), r).
Proof.
  intros r. unfold p_padded, p_bytes. rewrite padlen_0.
  pose proof (Zlen_nonneg _ r) as Hr.
  destruct ((0 <? 0) || (Zlen r <? 0)) eqn:E; [lia|].
  rewrite ?zfirstn_0, ?zskipn_0. rewrite E. rewrite ?zfirstn_0, ?zskipn_0. reflexivity.
Qed.

(* every element encodes to at least one byte => at least as many bytes as elements *)
Lemma Zlen_flat_map_ge : forall A (f : A -> list byte) (P : A -> Prop),
  (forall a, P a -> 1 <= Zlen (f a)) ->
  forall l, Forall P l -> Zlen l <= Zlen (flat_map f l).
Proof.
  intros A f P f_len. induction l as [|a l IH]; intros Hl.
  - cbn [flat_map]. apply Z.le_refl.
  - inversion Hl as [|a' l' Ha Hl' Heq]; subst.
    cbn [flat_map]. rewrite Zlen_cons, Zlen_app.
    pose proof (f_len a Ha). pose proof (IH Hl'). lia.
Qed.

Section Many.
  Context {A B : Type}.
  Variable p : parser B.
  Variable f : A -> list byte.   (* encoder of one element *)
  Variable g : A -> B.           (* what the parser is expected to return *)
  Variable P : A -> Prop.        (* well-formedness of one element *)
  Hypothesis p_f : forall a r, P a -> p (f a ++ r) = Some (g a, r).

  Lemma p_many_flat_map : forall l r, Forall P l ->
    p_many p (length l) (flat_map f l ++ r) = Some (map g l, r).
  Proof.
    induction l as [|a l IH]; intros r Hl.
    - reflexivity.
    - inversion Hl as [|a' l' Ha Hl' Heq]; subst.
      cbn [length flat_map p_many map]. rewrite <- app_assoc.
      rewrite (p_f a _ Ha). rewrite (IH r Hl'). reflexivity.
  Qed.

  Hypothesis f_len : forall a, P a -> 1 <= Zlen (f a).

  (* tagged list.  The second hypothesis says the element count survives the NON_NEG
     field of the format; the decoder's "enough bytes remain" test is discharged by
     [Zlen_flat_map_ge]. *)
  Lemma p_list_put_list : forall fmt tag l r,
    0 < tag < 4294967296 ->
    (forall r', p_nn fmt (put_nn fmt (Zlen l) ++ r') = Some (Zlen l, r')) ->
    Forall P l ->
    p_list fmt tag p (put_list fmt tag f l ++ r) = Some (map g l, r).
  Proof.
    intros fmt tag l r Htag Hnn Hl. unfold p_list, put_list, p_u32.
    destruct l as [|a l].
    - rewrite <- app_assoc. rewrite get_put_u32 by lia.
      change (put_nn fmt 0) with (put_nn fmt (Zlen (@nil A))). rewrite Hnn.
      reflexivity.
    - rewrite <- !app_assoc. rewrite get_put_u32 by lia. rewrite Hnn.
      destruct (tag =? 0) eqn:E0; [lia|].
      destruct (tag =? tag) eqn:E1; [|lia].
      pose proof (Zlen_flat_map_ge A f P f_len (a :: l) Hl) as Hge.
      pose proof (Zlen_nonneg _ r) as Hr.
      rewrite Zlen_app.
      destruct (Zlen (flat_map f (a :: l)) + Zlen r <? Zlen (a :: l)) eqn:E2; [lia|].
      rewrite to_nat_Zlen. apply p_many_flat_map. exact Hl.
  Qed.
End Many.

(* ------------------------------------------------------------------ *)
(** * forallb / map / zsum helpers *)

Lemma forallb_Forall : forall A (p : A -> bool) l,
  forallb p l = true -> Forall (fun x => p x = true) l.
Proof.
  intros A p l H. apply Forall_forall. intros x Hx.
  rewrite forallb_forall in H. exact (H x Hx).
Qed.

Lemma Forall_forallb : forall A (p : A -> bool) l,
  Forall (fun x => p x = true) l -> forallb p l = true.
Proof.
  intros A p l H. apply forallb_forall. intros x Hx.
  rewrite Forall_forall in H. exact (H x Hx).
Qed.

Lemma forallb_map_Forall : forall A B (p : B -> bool) (g : A -> B) l,
  Forall (fun a => p (g a) = true) l -> forallb p (map g l) = true.
Proof.
  intros A B p g l H. induction H as [|a l Ha Hl IH]; [reflexivity|].
  cbn [map forallb]. rewrite Ha, IH. reflexivity.
Qed.

Lemma forallb_map_all : forall A B (p : B -> bool) (g : A -> B) l,
  (forall a, p (g a) = true) -> forallb p (map g l) = true.
Proof.
  intros A B p g l H. apply forallb_map_Forall. apply Forall_forall. intros a _. apply H.
Qed.

Lemma Forall_impl_strong : forall A (P Q : A -> Prop) l,
  (forall a, P a -> Q a) -> Forall P l -> Forall Q l.
Proof. intros A P Q l H HP. exact (Forall_impl Q H HP). Qed.

Lemma Zlen_flat_map_zsum : forall A (f : A -> list byte) (len : A -> Z) (P : A -> Prop) l,
  (forall a, P a -> Zlen (f a) = len a) -> Forall P l ->
  Zlen (flat_map f l) = zsum (map len l).
Proof.
  intros A f len P l Hf Hl. induction Hl as [|a l Ha Hl IH]; [reflexivity|].
  cbn [flat_map map zsum]. rewrite Zlen_app, (Hf a Ha), IH. reflexivity.
Qed.

Lemma zsum_map_const : forall A (c : Z) (l : list A), zsum (map (fun _ => c) l) = c * Zlen l.
Proof.
  intros A c l. induction l as [|a l IH].
  - cbn [map zsum]. rewrite Zlen_nil. lia.
  - cbn [map zsum]. rewrite Zlen_cons, IH. lia.
Qed.

Lemma zsum_mod4 : forall l, Forall (fun x => x mod 4 = 0) l -> zsum l mod 4 = 0.
Proof.
  intros l H. induction H as [|x l Hx Hl IH]; [reflexivity|].
  cbn [zsum]. lia.
Qed.

Lemma zsum_map_mod4 : forall A (len : A -> Z) l,
  (forall a, len a mod 4 = 0) -> zsum (map len l) mod 4 = 0.
Proof.
  intros A len l H. apply zsum_mod4. apply Forall_forall. intros x Hx.
  apply in_map_iff in Hx. destruct Hx as [a [Ha _]]. subst x. apply H.
Qed.

Lemma zprod_nonneg : forall l, Forall (fun x => 0 <= x) l -> 0 <= zprod l.
Proof.
  intros l H. induction H as [|x l Hx Hl IH]; cbn [zprod]; [lia|]. nia.
Qed.

Lemma znth_Forall : forall A (P : A -> Prop) l i d, P d -> Forall P l -> P (znth l i d).
Proof.
  intros A P l i d Hd Hl. revert i. induction Hl as [|x l Hx Hl IH]; intros i; cbn [znth].
  - exact Hd.
  - destruct (i =? 0) eqn:E; [exact Hx|apply IH].
Qed.
