(* Proofs_Modes.v — C14: theorems about the mode state machine of Modes.v, for ARBITRARY call sequences.

   Method: the core of the state (two flag words, old, nrecv, hasrec, or "closed") ranges over a finite set.
   reach_cores (Modes.v) is computed by breadth-first search; it is shown CLOSED under every call with every
   value of the auxiliary view (vm_compute sweep over reach_cores x all_auxv x all_calls, both enumerations
   proved complete), hence by induction every call sequence stays inside it.  Each property is a boolean
   predicate on (core, auxv, call) checked on the whole finite product, then lifted.  The request counters
   (unbounded naturals) only enter through view_aux, which is quantified universally in the sweeps.

   The theorems that depend on a defect switch of Gen_modes.v (FILL_VAR_REC_RETURNS_ERR) are stated for both
   values of the switch and proved for whichever value the current sources have, so the file still compiles
   after the library is repaired. *)
From Pnc Require Import Gen_consts Gen_modes Modes.
Require Import Lia ZArith List Bool.
Import ListNotations.
Local Open Scope Z_scope.

(* ---------- enumerations are complete ---------- *)
Lemma bools_complete (b : bool) : In b bools.
Proof. destruct b; cbn; auto. Qed.

Lemma all_calls_complete (c : call) : In c all_calls.
Proof.
  destruct c as [s|rw rc s| |n| | | | | | | | |f| |r| |k|b| | | |cl bv|cl bv|bv| | |cl al| | | | | | ];
    try destruct s; try destruct rw; try destruct rc; try destruct n; try destruct f; try destruct r;
    try destruct k; try destruct b; try destruct cl; try destruct bv; try destruct al;
    vm_compute; tauto.
Qed.

Lemma all_auxv_complete (v : auxv) : In v all_auxv.
Proof. destruct v as [[] [] [] []]; vm_compute; tauto. Qed.

(* ---------- decidable equality on cores ---------- *)
Lemma ost_eqb_eq a b : ost_eqb a b = true -> a = b.
Proof.
  destruct a as [d1 n1 o1 r1 h1], b as [d2 n2 o2 r2 h2]. unfold ost_eqb. cbn [dflag nflags old nrecv hasrec].
  intro H. repeat (apply andb_prop in H; destruct H as [H ?]).
  apply Z.eqb_eq in H. apply Z.eqb_eq in H3. apply eqb_prop in H2, H1, H0. congruence.
Qed.
Lemma ost_eqb_refl a : ost_eqb a a = true.
Proof. destruct a. unfold ost_eqb. cbn. rewrite !Z.eqb_refl, !eqb_reflx. reflexivity. Qed.
Lemma core_eqb_eq a b : core_eqb a b = true <-> a = b.
Proof.
  split.
  - destruct a, b; cbn; try discriminate; auto. intro H. f_equal. now apply ost_eqb_eq.
  - intros ->. destruct b; cbn; auto using ost_eqb_refl.
Qed.
Lemma core_mem_In x l : core_mem x l = true <-> In x l.
Proof.
  unfold core_mem. rewrite existsb_exists. split.
  - intros [y [Hy E]]. apply core_eqb_eq in E. now subst.
  - intro H. exists x. split; [assumption | now apply core_eqb_eq].
Qed.

Ltac split_andb :=
  repeat match goal with H : _ && _ = true |- _ => apply andb_prop in H; destruct H end.
Ltac bool2prop :=
  repeat match goal with
  | H : (_ =? _) = true |- _ => apply Z.eqb_eq in H
  | H : Bool.eqb _ _ = true |- _ => apply eqb_prop in H
  | H : core_eqb _ _ = true |- _ => apply core_eqb_eq in H
  end.

(* ---------- the reachable set, evaluated once ---------- *)
Definition RC : list core := Eval vm_compute in reach_cores.
Lemma RC_eq : RC = reach_cores.
Proof. vm_compute. reflexivity. Qed.

Definition sweep (P : core -> auxv -> call -> bool) : bool :=
  forallb (fun s => forallb (fun v => forallb (fun c => P s v c) all_calls) all_auxv) RC.
Lemma sweep_sound P : sweep P = true -> forall s v c, In s RC -> P s v c = true.
Proof.
  unfold sweep. intros H s v c Hs.
  rewrite forallb_forall in H. specialize (H s Hs).
  rewrite forallb_forall in H. specialize (H v (all_auxv_complete v)).
  rewrite forallb_forall in H. exact (H c (all_calls_complete c)).
Qed.

(* closure *)
Lemma reach_closed_sweep : sweep (fun s v c => core_mem (fst (cstep s v c)) RC) = true.
Proof. vm_compute. reflexivity. Qed.
Lemma reach_closed s v c : In s RC -> In (fst (cstep s v c)) RC.
Proof.
  intro Hs. apply core_mem_In.
  exact (sweep_sound (fun s v c => core_mem (fst (cstep s v c)) RC) reach_closed_sweep s v c Hs).
Qed.

Lemma closed_in_reach : In CClosed RC.
Proof. apply core_mem_In. vm_compute. reflexivity. Qed.

Lemma co_step st c : co (fst (step st c)) = fst (cstep (co st) (view_aux (ax st)) c).
Proof. unfold step. destruct (cstep (co st) (view_aux (ax st)) c). reflexivity. Qed.
Lemma rc_step st c : snd (step st c) = snd (cstep (co st) (view_aux (ax st)) c).
Proof. unfold step. destruct (cstep (co st) (view_aux (ax st)) c). reflexivity. Qed.

Lemma run_in_reach cs : forall st, In (co st) RC -> In (co (run st cs)) RC.
Proof.
  induction cs as [|c r IH]; intros st H; cbn [run]; [assumption|].
  apply IH. rewrite co_step. now apply reach_closed.
Qed.
Lemma reachable_in_table cs : In (co (run state0 cs)) RC.
Proof. apply run_in_reach. exact closed_in_reach. Qed.

(* the auxiliary view never influences the core transition *)
Lemma core_indep_sweep : sweep (fun s v c => core_eqb (fst (cstep s v c)) (cnext s c)) = true.
Proof. vm_compute. reflexivity. Qed.
Lemma core_indep s v c : In s RC -> fst (cstep s v c) = cnext s c.
Proof.
  intro Hs. apply core_eqb_eq.
  exact (sweep_sound (fun s v c => core_eqb (fst (cstep s v c)) (cnext s c)) core_indep_sweep s v c Hs).
Qed.

(* a closed handle has empty request queues and no attached buffer *)
Lemma closed_aux0 cs : co (run state0 cs) = CClosed -> ax (run state0 cs) = aux0.
Proof.
  assert (G : forall st, (co st = CClosed -> ax st = aux0) -> co (run st cs) = CClosed -> ax (run st cs) = aux0).
  { induction cs as [|c r IH]; intros st H; cbn [run]; [assumption|].
    apply IH. unfold step. destruct (cstep (co st) (view_aux (ax st)) c) as [s' rc] eqn:E. cbn [fst co ax].
    intro Hs. subst s'. reflexivity. }
  apply G. reflexivity.
Qed.

(* ================= T1 mode_unique ================= *)
Definition chk_unique (s : core) (_ : auxv) (_ : call) : bool :=
  match s with CClosed => true | COpen o => exactly_one (in_define o) (in_coll o) (in_indep o) end.
Lemma unique_sweep : sweep chk_unique = true.
Proof. vm_compute. reflexivity. Qed.

Theorem mode_unique :
  forall (cs : list call) (o : ost),
    co (run state0 cs) = COpen o ->
    exactly_one (in_define o) (in_coll o) (in_indep o) = true.
Proof.
  intros cs o H. pose proof (sweep_sound _ unique_sweep (COpen o) (mkV false false false false) Inq) as G.
  cbn [chk_unique] in G. apply G. rewrite <- H. apply reachable_in_table.
Qed.

Example mode_unique_ex :
  exists o, co (run state0 [Create false; DefVar true; Enddef; BeginIndep]) = COpen o /\ in_indep o = true.
Proof. eexists. split; [vm_compute; reflexivity | vm_compute; reflexivity]. Qed.

(* ================= T2 mode_changes_only_by ================= *)
Definition MODE_MASK : Z := Z.lor (Z.lor NC_MODE_RDONLY NC_MODE_DEF) (Z.lor NC_MODE_INDEP NC_MODE_CREATE).
Definition is_setfill (c : call) : bool := match c with SetFill _ => true | _ => false end.
Definition chk_mode_only (s : core) (v : auxv) (c : call) : bool :=
  if is_mode_call c then true else
  match s, fst (cstep s v c) with
  | CClosed, CClosed => true
  | COpen o, COpen o' =>
      (Z.land (dflag o') MODE_MASK =? Z.land (dflag o) MODE_MASK) &&
      (Z.land (nflags o') MODE_MASK =? Z.land (nflags o) MODE_MASK) &&
      Bool.eqb (old o') (old o) &&
      (is_setfill c || ((dflag o' =? dflag o) && (nflags o' =? nflags o))) &&
      (* SetFill touches exactly the FILL bit, in both words alike *)
      (Z.land (dflag o') (Z.lnot NC_MODE_FILL) =? Z.land (dflag o) (Z.lnot NC_MODE_FILL)) &&
      (Z.land (nflags o') (Z.lnot NC_MODE_FILL) =? Z.land (nflags o) (Z.lnot NC_MODE_FILL))
  | _, _ => false
  end.
Lemma mode_only_sweep : sweep chk_mode_only = true.
Proof. vm_compute. reflexivity. Qed.

Theorem mode_changes_only_by :
  forall (cs : list call) (c : call),
    is_mode_call c = false ->
    match co (run state0 cs), co (fst (step (run state0 cs) c)) with
    | CClosed, CClosed => True
    | COpen o, COpen o' =>
        Z.land (dflag o') MODE_MASK = Z.land (dflag o) MODE_MASK /\
        Z.land (nflags o') MODE_MASK = Z.land (nflags o) MODE_MASK /\
        old o' = old o /\
        (is_setfill c = false -> dflag o' = dflag o /\ nflags o' = nflags o) /\
        Z.land (dflag o') (Z.lnot NC_MODE_FILL) = Z.land (dflag o) (Z.lnot NC_MODE_FILL) /\
        Z.land (nflags o') (Z.lnot NC_MODE_FILL) = Z.land (nflags o) (Z.lnot NC_MODE_FILL)
    | _, _ => False
    end.
Proof.
  intros cs c Hc. set (st := run state0 cs).
  pose proof (sweep_sound _ mode_only_sweep (co st) (view_aux (ax st)) c (reachable_in_table cs)) as G.
  unfold chk_mode_only in G. rewrite Hc in G. rewrite co_step.
  destruct (co st) as [|o]; destruct (fst (cstep _ _ c)) as [|o']; try discriminate G; auto.
  split_andb.
  match goal with H : is_setfill c || _ = true |- _ => rename H into HS end.
  bool2prop.
  split; [assumption|]. split; [assumption|]. split; [assumption|]. split; [|split; assumption].
  intro Hs. rewrite Hs in HS. cbn [orb] in HS. apply andb_prop in HS. destruct HS as [A B].
  apply Z.eqb_eq in A, B. split; assumption.
Qed.

Example mode_changes_only_by_ex :
  is_mode_call (Put true false) = false /\
  co (fst (step (run state0 [Create false; Enddef]) (Put true false))) = co (run state0 [Create false; Enddef]).
Proof. split; vm_compute; reflexivity. Qed.

(* ================= T3 rejected_no_effect ================= *)
Definition is_close_abort (c : call) : bool := match c with Close | Abort => true | _ => false end.
Definition chk_rejected (s : core) (v : auxv) (c : call) : bool :=
  if is_close_abort c then true else
  if ok (snd (cstep s v c)) then true else core_eqb (fst (cstep s v c)) s.
Lemma rejected_sweep : sweep chk_rejected = true.
Proof. vm_compute. reflexivity. Qed.

Theorem rejected_no_effect :
  forall (cs : list call) (c : call),
    c <> Close -> c <> Abort ->
    snd (step (run state0 cs) c) <> NC_NOERR ->
    fst (step (run state0 cs) c) = run state0 cs.
Proof.
  intros cs c Hc Ha Hrc. set (st := run state0 cs) in *.
  pose proof (sweep_sound _ rejected_sweep (co st) (view_aux (ax st)) c (reachable_in_table cs)) as G.
  unfold chk_rejected in G.
  assert (Hca : is_close_abort c = false) by (destruct c; cbn; congruence).
  rewrite Hca in G. rewrite rc_step in Hrc.
  assert (Hok : ok (snd (cstep (co st) (view_aux (ax st)) c)) = false).
  { unfold ok. apply Z.eqb_neq. exact Hrc. }
  rewrite Hok in G. apply core_eqb_eq in G.
  unfold step. destruct (cstep (co st) (view_aux (ax st)) c) as [s' rc] eqn:E. cbn [fst snd] in *.
  subst s'. destruct st as [s a] eqn:Est. cbn [co ax] in *. f_equal.
  unfold aux_step. destruct s as [|o].
  - (* closed stays closed: queues already empty *)
    pose proof (closed_aux0 cs) as Z0. fold st in Z0. rewrite Est in Z0. cbn [co ax] in Z0. symmetry. now apply Z0.
  - unfold ok in Hok. unfold ok. rewrite Hok. reflexivity.
Qed.

Example rejected_no_effect_ex :
  snd (step (run state0 [Create false; Enddef]) DefDim) = NC_ENOTINDEFINE /\ NC_ENOTINDEFINE <> NC_NOERR.
Proof. split; [vm_compute; reflexivity | discriminate]. Qed.

(* close and abort always release the handle; close reports pending requests *)
Definition chk_close (s : core) (v : auxv) (_ : call) : bool :=
  match s with
  | CClosed => true
  | COpen _ => core_eqb (fst (cstep s v Close)) CClosed && core_eqb (fst (cstep s v Abort)) CClosed &&
               (snd (cstep s v Close) =? (if v_get v || v_put v then NC_EPENDING else NC_NOERR)) &&
               (snd (cstep s v Abort) =? NC_NOERR)
  end.
Lemma close_sweep : sweep chk_close = true.
Proof. vm_compute. reflexivity. Qed.

Theorem close_pending_cancels_and_reports :
  forall (cs : list call) (o : ost),
    co (run state0 cs) = COpen o ->
    let st := run state0 cs in
    fst (step st Close) = state0 /\
    snd (step st Close) = (if v_get (view_aux (ax st)) || v_put (view_aux (ax st)) then NC_EPENDING else NC_NOERR) /\
    fst (step st Abort) = state0 /\ snd (step st Abort) = NC_NOERR.
Proof.
  intros cs o H st.
  pose proof (sweep_sound _ close_sweep (co st) (view_aux (ax st)) Inq (reachable_in_table cs)) as G.
  unfold chk_close in G. unfold st in G at 1. rewrite H in G. fold st in G.
  split_andb. bool2prop.
  unfold step. destruct (cstep (co st) (view_aux (ax st)) Close) as [s1 r1].
  destruct (cstep (co st) (view_aux (ax st)) Abort) as [s2 r2]. cbn [fst snd] in *. subst s1 s2.
  unfold aux_step, state0. repeat split; assumption.
Qed.

Example close_pending_ex :
  snd (step (run state0 [Create false; DefVar false; Enddef; IPut false]) Close) = NC_EPENDING.
Proof. vm_compute. reflexivity. Qed.

(* ================= T4 layers_agree ================= *)
Definition chk_layers (s : core) (_ : auxv) (_ : call) : bool :=
  match s with
  | CClosed => true
  | COpen o =>
      Bool.eqb (d_def o) (n_def o) &&
      (d_def o || Bool.eqb (d_indep o) (n_indep o)) &&
      Bool.eqb (d_ro o) (n_ro o) &&
      Bool.eqb (d_fill o) (n_fill o) &&
      (negb (old o) || (n_def o && negb (n_new o))) &&
      (negb (n_new o) || n_def o) &&
      (negb (d_ro o) || negb (d_def o)) &&
      (negb (n_def o) || negb (n_indep o))
  end.
Lemma layers_sweep : sweep chk_layers = true.
Proof. vm_compute. reflexivity. Qed.

Theorem layers_agree :
  forall (cs : list call) (o : ost),
    co (run state0 cs) = COpen o ->
    d_def o = n_def o /\
    (d_def o = false -> d_indep o = n_indep o) /\
    d_ro o = n_ro o /\
    d_fill o = n_fill o /\
    (old o = true -> n_def o = true /\ n_new o = false) /\
    (n_new o = true -> n_def o = true) /\
    (d_ro o = true -> d_def o = false) /\
    (n_def o = true -> n_indep o = false).
Proof.
  intros cs o H.
  pose proof (sweep_sound _ layers_sweep (COpen o) (mkV false false false false) Inq) as G.
  cbn [chk_layers] in G. rewrite <- H in G at 1. specialize (G (reachable_in_table cs)).
  split_andb.
  repeat match goal with
  | H : Bool.eqb _ _ = true |- _ => apply eqb_prop in H
  end.
  destruct (d_def o), (n_def o), (d_indep o), (n_indep o), (d_ro o), (n_ro o), (d_fill o), (n_fill o),
           (old o), (n_new o); cbn in *; try discriminate; repeat split; intros; try discriminate; reflexivity.
Qed.

Example layers_agree_ex : exists o, co (run state0 [Open true true false; Redef]) = COpen o /\ old o = true.
Proof. eexists. split; vm_compute; reflexivity. Qed.

(* why the INDEP clause is guarded: ncmpi_redef leaves NC_MODE_INDEP set in pncp->flag while ncmpio_redef
   leaves independent mode in ncp->flags; ncmpi_enddef clears the dispatcher bit later *)
Definition layers_agree_indep_full : Prop :=
  forall (cs : list call) (o : ost), co (run state0 cs) = COpen o -> d_indep o = n_indep o.
Theorem layers_agree_indep_refuted : ~ layers_agree_indep_full.
Proof.
  intro H. specialize (H [Create false; Enddef; BeginIndep; Redef]).
  vm_compute in H. specialize (H _ eq_refl). discriminate H.
Qed.
(* and the dispatcher's NC_MODE_CREATE bit is never cleared (it is never read either) *)
Definition layers_agree_create_full : Prop :=
  forall (cs : list call) (o : ost), co (run state0 cs) = COpen o ->
    fIsSet (dflag o) NC_MODE_CREATE = n_new o.
Theorem layers_agree_create_refuted : ~ layers_agree_create_full.
Proof.
  intro H. specialize (H [Create false; Enddef]).
  vm_compute in H. specialize (H _ eq_refl). discriminate H.
Qed.

(* ================= T5 error_is_first_applicable ================= *)
Definition fvr_ok (s : core) (c : call) : bool :=
  match c, s with
  | FillVarRec, COpen o => d_safe o || FILL_VAR_REC_RETURNS_ERR
  | _, _ => true
  end.
Definition chk_first (s : core) (v : auxv) (c : call) : bool :=
  negb (fvr_ok s c) || (snd (cstep s v c) =? spec_err s v c).
Lemma first_sweep : sweep chk_first = true.
Proof. vm_compute. reflexivity. Qed.

Theorem error_is_first_applicable_partial :
  forall (cs : list call) (c : call),
    fvr_ok (co (run state0 cs)) c = true ->
    snd (step (run state0 cs) c) =
    spec_err (co (run state0 cs)) (view_aux (ax (run state0 cs))) c.
Proof.
  intros cs c Hf. set (st := run state0 cs) in *.
  pose proof (sweep_sound _ first_sweep (co st) (view_aux (ax st)) c (reachable_in_table cs)) as G.
  unfold chk_first in G. rewrite Hf in G. cbn [negb orb] in G. apply Z.eqb_eq in G. now rewrite rc_step.
Qed.

Definition error_is_first_applicable_full : Prop :=
  forall (cs : list call) (c : call),
    snd (step (run state0 cs) c) =
    spec_err (co (run state0 cs)) (view_aux (ax (run state0 cs))) c.

Lemma first_full_when_fixed : FILL_VAR_REC_RETURNS_ERR = true -> error_is_first_applicable_full.
Proof.
  intros E cs c. apply error_is_first_applicable_partial.
  unfold fvr_ok. destruct c; try reflexivity. destruct (co (run state0 cs)); try reflexivity.
  rewrite E. apply orb_true_r.
Qed.
Lemma first_refuted_when_dropped : FILL_VAR_REC_RETURNS_ERR = false -> ~ error_is_first_applicable_full.
Proof.
  intros E H. specialize (H [Create false; DefVar true] FillVarRec).
  first [ discriminate E | vm_compute in H; discriminate H ].
Qed.
(* the verdict for the sources as built *)
Theorem error_is_first_applicable_current :
  if FILL_VAR_REC_RETURNS_ERR then error_is_first_applicable_full else ~ error_is_first_applicable_full.
Proof.
  destruct FILL_VAR_REC_RETURNS_ERR eqn:E.
  - exact (first_full_when_fixed E).
  - exact (first_refuted_when_dropped E).
Qed.

Example error_is_first_applicable_ex :
  snd (step (run state0 [Open false true false; BeginIndep]) (Put true true)) = NC_EPERM /\
  snd (step (run state0 [Open true true false; BeginIndep]) (Put true true)) = NC_EINDEP /\
  snd (step (run state0 [Open true true false]) (Put true true)) = NC_ENOTVAR /\
  snd (step (run state0 [Open true true false]) (PutAtt AttNewBadType)) = NC_EBADTYPE.
Proof. repeat split; vm_compute; reflexivity. Qed.

(* ================= T6 permitted_succeeds ================= *)
Definition chk_permitted (s : core) (v : auxv) (c : call) : bool :=
  negb (permitted s v c) || ok (snd (cstep s v c)).
Lemma permitted_sweep : sweep chk_permitted = true.
Proof. vm_compute. reflexivity. Qed.

Theorem permitted_succeeds :
  forall (cs : list call) (c : call),
    permitted (co (run state0 cs)) (view_aux (ax (run state0 cs))) c = true ->
    snd (step (run state0 cs) c) = NC_NOERR.
Proof.
  intros cs c Hp. set (st := run state0 cs) in *.
  pose proof (sweep_sound _ permitted_sweep (co st) (view_aux (ax st)) c (reachable_in_table cs)) as G.
  unfold chk_permitted in G. rewrite Hp in G. cbn [negb orb] in G. unfold ok in G. apply Z.eqb_eq in G.
  now rewrite rc_step.
Qed.

Example permitted_succeeds_ex :
  permitted (co (run state0 [Create false; DefVar false; Enddef])) (view_aux aux0) (Put true false) = true.
Proof. vm_compute. reflexivity. Qed.

(* ================= the reference automaton of the abstract mode ================= *)
Definition amode_next (m : amode) (c : call) (rc : Z) : amode :=
  if negb (ok rc) then m else
  match c with
  | Enddef | EnddefX _ => MColl
  | Redef => MDefine
  | BeginIndep => MIndep
  | EndIndep => MColl
  | _ => m
  end.
Definition chk_auto (s : core) (v : auxv) (c : call) : bool :=
  match s, fst (cstep s v c) with
  | COpen o, COpen o' =>
      match c with
      | Create _ | Open _ _ _ => true
      | _ => match w_mode (view_of o'), amode_next (w_mode (view_of o)) c (snd (cstep s v c)) with
             | MDefine, MDefine | MColl, MColl | MIndep, MIndep => Bool.eqb (w_ro (view_of o')) (w_ro (view_of o))
             | _, _ => false
             end
      end
  | CClosed, COpen o' =>
      match c with
      | Create _ => match w_mode (view_of o') with MDefine => negb (w_ro (view_of o')) | _ => false end
      | Open rw _ _ => match w_mode (view_of o') with MColl => Bool.eqb (w_ro (view_of o')) (negb rw) | _ => false end
      | _ => false
      end
  | COpen _, CClosed => is_close_abort c
  | CClosed, CClosed => true
  end.
Lemma auto_sweep : sweep chk_auto = true.
Proof. vm_compute. reflexivity. Qed.

Theorem mode_transitions :
  forall (cs : list call) (c : call) (o o' : ost),
    co (run state0 cs) = COpen o ->
    co (fst (step (run state0 cs) c)) = COpen o' ->
    (forall s, c <> Create s) -> (forall a b d, c <> Open a b d) ->
    w_mode (view_of o') = amode_next (w_mode (view_of o)) c (snd (step (run state0 cs) c)) /\
    w_ro (view_of o') = w_ro (view_of o).
Proof.
  intros cs c o o' H H' Hc Ho. set (st := run state0 cs) in *.
  pose proof (sweep_sound _ auto_sweep (co st) (view_aux (ax st)) c (reachable_in_table cs)) as G.
  unfold chk_auto in G. rewrite co_step in H'. rewrite rc_step. rewrite H in G, H' |- *. rewrite H' in G.
  destruct c; try (exfalso; eapply Hc; reflexivity); try (exfalso; eapply Ho; reflexivity);
    (destruct (w_mode (view_of o')); destruct (amode_next _ _ _); try discriminate G;
     apply eqb_prop in G; (split; [reflexivity | exact G])).
Qed.

Theorem start_modes :
  forall (cs : list call) (c : call) (o' : ost),
    co (run state0 cs) = CClosed ->
    co (fst (step (run state0 cs) c)) = COpen o' ->
    match c with
    | Create _ => w_mode (view_of o') = MDefine /\ w_ro (view_of o') = false
    | Open rw _ _ => w_mode (view_of o') = MColl /\ w_ro (view_of o') = negb rw
    | _ => False
    end.
Proof.
  intros cs c o' H H'. set (st := run state0 cs) in *.
  pose proof (sweep_sound _ auto_sweep (co st) (view_aux (ax st)) c (reachable_in_table cs)) as G.
  unfold chk_auto in G. rewrite co_step in H'. rewrite H in G, H'. rewrite H' in G.
  destruct c; try discriminate G.
  - destruct (w_mode (view_of o')); try discriminate G. split; [reflexivity|]. now destruct (w_ro (view_of o')).
  - destruct (w_mode (view_of o')); try discriminate G. split; [reflexivity|]. now apply eqb_prop in G.
Qed.

(* ================= T7 reachable_within_k ================= *)
Fixpoint crun (s : core) (cs : list call) : core :=
  match cs with [] => s | c :: r => crun (cnext s c) r end.
Lemma co_run_crun cs : forall st, In (co st) RC -> co (run st cs) = crun (co st) cs.
Proof.
  induction cs as [|c r IH]; intros st H; cbn [run crun]; [reflexivity|].
  rewrite IH.
  - f_equal. rewrite co_step. now apply core_indep.
  - rewrite co_step. now apply reach_closed.
Qed.

Definition RT : list (core * list call) := Eval vm_compute in reach_table.
Lemma RT_eq : RT = reach_table.
Proof. vm_compute. reflexivity. Qed.
Lemma RC_RT : RC = map fst RT.
Proof. vm_compute. reflexivity. Qed.
Lemma table_paths_ok :
  forallb (fun p : core * list call =>
             (Nat.leb (length (snd p)) REACH_K) && core_eqb (crun CClosed (snd p)) (fst p)) RT = true.
Proof. vm_compute. reflexivity. Qed.

Theorem reachable_within_k :
  forall cs : list call,
    exists cs' : list call,
      (length cs' <= REACH_K)%nat /\ co (run state0 cs') = co (run state0 cs).
Proof.
  intro cs. pose proof (reachable_in_table cs) as H.
  rewrite RC_RT in H. apply in_map_iff in H. destruct H as [[s p] [E Hin]].
  cbn [fst] in E. pose proof table_paths_ok as T. rewrite forallb_forall in T. specialize (T _ Hin).
  cbn [fst snd] in T. apply andb_prop in T. destruct T as [L C]. apply Nat.leb_le in L. apply core_eqb_eq in C.
  exists p. split; [exact L|].
  rewrite (co_run_crun p state0 closed_in_reach). cbn [co state0]. congruence.
Qed.

(* REACH_K is tight: one state needs exactly REACH_K calls *)
Example reachable_within_k_tight :
  exists p, In p reach_table /\ length (snd p) = REACH_K.
Proof.
  rewrite <- RT_eq.
  exists (nth (length RT - 1) RT (CClosed, [])). split.
  - apply nth_In. vm_compute. lia.
  - vm_compute. reflexivity.
Qed.
Lemma reach_count : length reach_cores = 97%nat.
Proof. rewrite <- RC_eq. vm_compute. reflexivity. Qed.

(* ================= tie of the model to the source structure (Gen_modes.v) ================= *)
(* the order in which the C functions test for the error codes the model uses *)
Fixpoint is_subseq (a b : list Z) : bool :=
  match a, b with
  | [], _ => true
  | _ :: _, [] => false
  | x :: a', y :: b' => if x =? y then is_subseq a' b' else is_subseq a b'
  end.
Lemma source_order_matches_model :
  hd 0 order_ncmpi_enddef = NC_ENOTINDEFINE /\
  is_subseq [NC_ENOTINDEFINE; NC_EINVAL] order_ncmpi__enddef = true /\
  order_ncmpi_redef = [NC_EPERM; NC_EINDEFINE] /\
  order_ncmpi_set_fill = [NC_EPERM; NC_ENOTINDEFINE] /\
  hd 0 order_ncmpi_def_dim = NC_ENOTINDEFINE /\
  hd 0 order_ncmpi_def_var = NC_ENOTINDEFINE /\
  hd 0 order_ncmpi_def_var_fill = NC_ENOTINDEFINE /\
  is_subseq [NC_EPERM; NC_EINDEFINE; NC_ENOTRECVAR; NC_EINDEP] order_ncmpi_fill_var_rec = true /\
  hd 0 order_ncmpi_rename_var = NC_EPERM /\ hd 0 order_ncmpi_rename_dim = NC_EPERM /\
  is_subseq [NC_EPERM; NC_ENOTINDEFINE; NC_ENOTVAR] order_ncmpi_del_att = true /\
  is_subseq [NC_EPERM; NC_ENOTVAR] order_sanity_check_put = true /\
  is_subseq [NC_EPERM; NC_EINDEFINE; NC_EINDEP; NC_ENOTINDEP; NC_ENOTVAR] order_sanity_check = true /\
  hd 0 order_ncmpio_begin_indep_data = NC_EINDEFINE /\ hd 0 order_ncmpio_end_indep_data = NC_EINDEFINE /\
  hd 0 order_ncmpio_sync = NC_EINDEFINE /\
  is_subseq [NC_EINDEFINE; NC_EPERM] order_ncmpio_sync_numrecs = true /\
  order_ncmpio_wait = [NC_EINDEFINE; NC_ENOTINDEP; NC_EINDEP] /\
  is_subseq [NC_EPREVATTACHBUF] order_ncmpio_buffer_attach = true /\
  order_ncmpio_buffer_detach = [NC_ENULLABUF; NC_EPENDINGBPUT] /\
  is_subseq [NC_ENOTINDEFINE] order_ncmpio_put_att = true /\
  is_subseq [NC_ENOTATT] order_ncmpio_del_att = true /\
  order_ncmpio_rename_var = [NC_ENOTINDEFINE] /\ order_ncmpio_rename_dim = [NC_ENOTINDEFINE] /\
  COMPLETE_NONBLOCKING_IO = false /\
  macro_NC_readonly_tests = NC_MODE_RDONLY /\ macro_NC_indef_tests = NC_MODE_DEF /\
  macro_NC_indep_tests = NC_MODE_INDEP /\ macro_NC_IsNew_tests = NC_MODE_CREATE /\ macro_NC_dofill_tests = NC_MODE_FILL /\
  create_flag_init = Z.lor NC_MODE_DEF NC_MODE_CREATE /\ open_flag_init = 0.
Proof. vm_compute. repeat split; reflexivity. Qed.
