(* Properties_C03.v — statements only: each property theorem is stated in full and closed by
   `exact <lemma>`; the lemmas live in the Proofs_*.v files.  Assembled by tools/mkprops.py. *)
(* C03 Files written conform to CDF-1/2/5: for EVERY well-formed header (any number of dims, attributes, *)
(* variables; the three formats) and ANY trailing bytes the decoder written from the format grammar *)
(* recovers exactly the content the encoder was given; the encoder output is strictly valid (zero *)
(* padding, vsize rule); the header length function equals the encoded length and is a multiple of 4. *)
From Coq Require Import ZArith List.
From Pnc Require Import Proofs_Header.
From Pnc Require Import Proofs_Layout.
From Pnc Require Import Proofs_Exec2.
Set Printing Width 100.
Set Printing Depth 100000.

Theorem C03_decode_encode_full :
  forall (h : Header.hdr) (rest : list Base.byte),
         wf_hdr h = true -> HeaderSpec.decode (Header.encode_header h ++ rest) = Some (decoded_of h).
Proof. exact @decode_encode_full. Qed.
Print Assumptions C03_decode_encode_full.

Theorem C03_decode_encode :
  forall (h : Header.hdr) (rest : list Base.byte),
         wf_hdr h = true ->
         exists d : HeaderSpec.decoded,
           HeaderSpec.decode (Header.encode_header h ++ rest) = Some d /\
           HeaderSpec.dc_hdr d = hdr_content h /\
           HeaderSpec.dc_len d = Base.Zlen (Header.encode_header h).
Proof. exact @decode_encode. Qed.
Print Assumptions C03_decode_encode.

Theorem C03_encode_strict_valid :
  forall (h : Header.hdr) (rest : list Base.byte) (d : HeaderSpec.decoded),
         wf_hdr h = true ->
         dimids_ok h = true ->
         unlim_ok h = true ->
         vsize_ok h = true ->
         HeaderSpec.decode (Header.encode_header h ++ rest) = Some d ->
         HeaderSpec.strict_valid d = true.
Proof. exact @encode_strict_valid. Qed.
Print Assumptions C03_encode_strict_valid.

Theorem C03_hdr_len_encode :
  forall h : Header.hdr,
         wf_hdr h = true -> Header.hdr_len h = Base.Zlen (Header.encode_header h).
Proof. exact @hdr_len_encode. Qed.
Print Assumptions C03_hdr_len_encode.

Theorem C03_hdr_len_mod4 :
  forall h : Header.hdr, (Header.hdr_len h mod 4)%Z = 0%Z.
Proof. exact @hdr_len_mod4_all. Qed.
Print Assumptions C03_hdr_len_mod4.

Theorem C03_encode_header_bytes :
  forall h : Header.hdr,
         bytes_ok h = true -> Forall (fun b : Z => Base.is_byte b = true) (Header.encode_header h).
Proof. exact @encode_header_bytes. Qed.
Print Assumptions C03_encode_header_bytes.

Theorem C03_resolve_align_ok :
  forall (cfg : Header.aligncfg) (ea : Header.enddef_args) (nfix : Z) 
           (is_new : bool) (ha va ra : Z),
         (0 <= Header.env_h_align cfg)%Z ->
         (0 <= Header.env_v_align cfg)%Z ->
         (0 <= Header.env_r_align cfg)%Z ->
         (0 <= Header.e_v_align ea)%Z ->
         (0 <= Header.e_r_align ea)%Z ->
         Header.resolve_align cfg ea nfix is_new = (ha, va, ra) ->
         ((4 <= ha)%Z /\ (ha mod 4)%Z = 0%Z) /\
         ((4 <= va)%Z /\ (va mod 4)%Z = 0%Z) /\ (4 <= ra)%Z /\ (ra mod 4)%Z = 0%Z.
Proof. exact @resolve_align_ok. Qed.
Print Assumptions C03_resolve_align_ok.

Theorem C03_begins_layout_ok :
  forall (h : Header.hdr) (hm vm ha ra : Z) (lay : Header.layout),
         hdr_wf h ->
         (0 <= hm)%Z ->
         (0 <= vm)%Z ->
         (4 <= ha)%Z ->
         (ha mod 4)%Z = 0%Z ->
         (4 <= ra)%Z ->
         (ra mod 4)%Z = 0%Z ->
         Header.begins h hm vm ha ra None 0 = Some lay ->
         let h' := Header.set_begins h (Header.l_begins lay) in
         let bv1 := bv1_new h hm ha in
         lay_inv (t3of h) lay /\
         HeaderSpec.layout_ok h' (Header.l_xsz lay) = true /\
         Header.l_xsz lay = Header.hdr_len h /\
         Base.Zlen (Header.l_begins lay) = Base.Zlen (Header.h_vars h) /\
         (Header.hdr_len h <= bv1)%Z /\
         (Header.h_vars h <> nil -> (Header.hdr_len h + hm <= bv1)%Z /\ (bv1 mod ha)%Z = 0%Z) /\
         (bv1 <= Header.l_begin_var lay)%Z /\
         match fixed_pairs h' with
         | nil => Header.l_begin_var lay = Header.l_begin_rec lay
         | (b, _) :: _ =>
             Header.l_begin_var lay = b /\ b = bv1 /\ (Header.l_begin_var lay mod ha)%Z = 0%Z
         end /\
         HeaderSpec.begins_increasing bv1 (fixed_pairs h') = true /\
         (last_end bv1 (fixed_pairs h') + vm <= Header.l_begin_rec lay)%Z /\
         Header.l_begin_rec lay =
         Base.rndup (Base.rndup (Z.max 0 (last_end bv1 (fixed_pairs h') + vm)) 4) ra /\
         (Header.l_begin_rec lay mod 4)%Z = 0%Z /\
         (Header.l_begin_rec lay mod ra)%Z = 0%Z /\
         contig (Header.l_begin_rec lay) (rec_pairs h') /\ Header.l_recsize lay = recsize_of h.
Proof. exact @begins_layout_ok. Qed.
Print Assumptions C03_begins_layout_ok.

Theorem C03_begins_layout_ok_redef :
  forall (oh h : Header.hdr) (ol lay : Header.layout) (hm vm ha ra : Z),
         hdr_wf h ->
         (0 <= hm)%Z ->
         (0 <= vm)%Z ->
         (0 < ha)%Z ->
         (4 <= ra)%Z ->
         (ra mod 4)%Z = 0%Z ->
         lay_inv (t3of oh) ol ->
         hdr_extends oh h ->
         Header.begins h hm vm ha ra (redef_old oh ol) (Header.l_begin_rec ol) = Some lay ->
         HeaderSpec.layout_ok (Header.set_begins h (Header.l_begins lay)) (Header.l_xsz lay) = true /\
         Header.l_xsz lay = Header.hdr_len h /\
         Base.Zlen (Header.l_begins lay) = Base.Zlen (Header.h_vars h) /\
         Header.l_recsize lay = recsize_of h.
Proof. exact @begins_layout_ok_redef. Qed.
Print Assumptions C03_begins_layout_ok_redef.

Theorem C03_begins_monotone :
  forall (oh h : Header.hdr) (ol lay : Header.layout) (hm vm ha ra : Z),
         hdr_wf h ->
         (0 <= hm)%Z ->
         (0 <= vm)%Z ->
         (0 < ha)%Z ->
         (4 <= ra)%Z ->
         (ra mod 4)%Z = 0%Z ->
         lay_inv (t3of oh) ol ->
         hdr_extends oh h ->
         Header.begins h hm vm ha ra (redef_old oh ol) (Header.l_begin_rec ol) = Some lay ->
         (forall i : Z,
          (0 <= i < Base.Zlen (Header.h_vars oh))%Z ->
          (Base.znth (Header.l_begins ol) i 0 <= Base.znth (Header.l_begins lay) i 0)%Z) /\
         (Header.l_begin_var ol <= Header.l_begin_var lay)%Z /\
         (Header.l_begin_rec ol <= Header.l_begin_rec lay)%Z /\
         (Header.l_recsize ol <= Header.l_recsize lay)%Z /\ (0 <= Header.l_recsize ol)%Z.
Proof. exact @begins_monotone. Qed.
Print Assumptions C03_begins_monotone.

Theorem C03_reachable_layout_ok :
  forall (h : Header.hdr) (lay : Header.layout),
         hdr_wf h ->
         reachable (t3of h) lay ->
         HeaderSpec.layout_ok (Header.set_begins h (Header.l_begins lay)) (Header.l_xsz lay) = true.
Proof. exact @reachable_layout_ok. Qed.
Print Assumptions C03_reachable_layout_ok.

Theorem C03_layout_of_hdr_agrees :
  forall (h : Header.hdr) (lay : Header.layout),
         hdr_wf h ->
         lay_inv (t3of h) lay ->
         map Header.v_begin (Header.h_vars h) = Header.l_begins lay ->
         Header.h_vars h <> nil ->
         (forall v : Header.var, In v (rec_vars h) -> (0 < Header.var_len (Header.h_dims h) v)%Z) ->
         let br' :=
           match rec_vars h with
           | nil => last_end (Header.l_begin_var lay) (fixed_pairs h)
           | _ :: _ => Header.l_begin_rec lay
           end in
         HeaderSpec.layout_of_hdr h (Header.l_xsz lay) =
         {|
           Header.l_xsz := Header.l_xsz lay;
           Header.l_begin_var := Header.l_begin_var lay;
           Header.l_begin_rec := br';
           Header.l_recsize := Header.l_recsize lay;
           Header.l_begins := Header.l_begins lay
         |} /\ lay_inv (t3of h) (HeaderSpec.layout_of_hdr h (Header.l_xsz lay)).
Proof. exact @layout_of_hdr_agrees. Qed.
Print Assumptions C03_layout_of_hdr_agrees.

Theorem C03_recsize_single :
  forall (h : Header.hdr) (v : Header.var),
         rec_vars h = v :: nil -> recsize_of h = unpadded (Header.h_dims h) v.
Proof. exact @recsize_single. Qed.
Print Assumptions C03_recsize_single.

Theorem C03_begin_var_minfree_refuted_without_variables :
  ~ begin_var_minfree_full.
Proof. exact @begin_var_minfree_refuted. Qed.
Print Assumptions C03_begin_var_minfree_refuted_without_variables.

Theorem C03_exec_enddef_writes_header :
  forall (w : Exec.world) (id : Z) (f : Exec.filest) (ea : Header.enddef_args)
           (w' : Exec.world),
         Exec.f_old f = None ->
         Exec.f_indef f = true ->
         Exec.f_isnew f = true ->
         Header.l_begin_rec (Exec.f_lay f) = 0%Z ->
         hdr_wf (Exec.f_hdr f) ->
         (0 <= Header.env_h_align (Exec.f_align f))%Z ->
         (0 <= Header.env_v_align (Exec.f_align f))%Z ->
         (0 <= Header.env_r_align (Exec.f_align f))%Z ->
         (0 <= Exec.f_slot f < Base.Zlen (Exec.w_disks w))%Z ->
         (0 <= id < Base.Zlen (Exec.w_files w))%Z ->
         (1 <= Exec.w_nprocs w)%Z ->
         Exec.do_enddef w id f ea = Some (w', Gen_consts.NC_NOERR) ->
         exists (ha va ra : Z) (lay : Header.layout),
           Header.resolve_align (Exec.f_align f) ea (Base.Zlen (Header.h_vars (Exec.f_hdr f))) true =
           (ha, va, ra) /\
           Header.begins (Exec.f_hdr f) (Header.e_h_minfree ea) (Header.e_v_minfree ea) ha ra None 0 =
           Some lay /\
           (let h1 := Header.set_numrecs (Header.set_begins (Exec.f_hdr f) (Header.l_begins lay)) 0
              in
            let d := Exec.get_disk w' (Exec.f_slot f) in
            let f'' := enddef_file f lay in
            (Base.znth (Exec.w_files w') id None = Some f'' /\
             Exec.f_hdr f'' = h1 /\
             Exec.f_lay f'' = lay /\
             Exec.f_indef f'' = false /\
             Exec.f_indep f'' = false /\
             Exec.f_old f'' = None /\
             Exec.f_isnew f'' = false /\
             Exec.f_slot f'' = Exec.f_slot f /\ Exec.f_rdonly f'' = Exec.f_rdonly f) /\
            (lay_inv (t3of (Exec.f_hdr f)) lay /\ Header.l_xsz lay = Header.hdr_len h1) /\
            (wf_hdr h1 = true ->
             Disk.dk_read d 0 (Header.hdr_len h1) = Header.encode_header h1 /\
             Disk.dk_exists d = true /\
             (Header.hdr_len h1 <= Disk.dk_size d)%Z /\
             (forall n : Z,
              (Header.hdr_len h1 <= n)%Z ->
              HeaderSpec.decode (Disk.dk_read d 0 n) = Some (decoded_of h1)) /\ 
             hdr_on_disk w' f'')).
Proof. exact @enddef_writes_header. Qed.
Print Assumptions C03_exec_enddef_writes_header.

Theorem C03_exec_close_open_same_header :
  forall (w : Exec.world) (id : Z) (f : Exec.filest) (mode : Z),
         Exec.f_indef f = false ->
         (negb (Exec.f_rdonly f) && Exec.f_indep f)%bool = false ->
         Base.znth (Exec.w_files w) id None = Some f ->
         wf_hdr (Exec.f_hdr f) = true ->
         hdr_on_disk w f ->
         (Header.hdr_len (Exec.f_hdr f) <= 65536)%Z ->
         Header.l_xsz (Exec.f_lay f) = Header.hdr_len (Exec.f_hdr f) ->
         (0 <= Exec.f_slot f < Base.Zlen (Exec.w_disks w))%Z ->
         (0 <= id < Base.Zlen (Exec.w_files w))%Z ->
         let w2 := close_world w id f in
         let id' := Exec.first_free (Exec.w_files w2) 0 in
         let dc := decoded_of (Exec.f_hdr f) in
         let w3 := open_world w2 (Exec.f_slot f) mode dc in
         let f3 := open_file w2 (Exec.f_slot f) mode dc in
         Exec.do_close w id f = Some (w2, close_obs w f) /\
         Exec.do_open w2 (Exec.f_slot f) mode =
         Some (w3, Exec.same_all w2 Gen_consts.NC_NOERR (Exec.TZ id' :: nil)) /\
         (0 <= id' <= id)%Z /\
         Base.znth (Exec.w_files w3) id' None = Some f3 /\
         Exec.f_hdr f3 = hdr_content (Exec.f_hdr f) /\
         Exec.f_lay f3 =
         HeaderSpec.layout_of_hdr (hdr_content (Exec.f_hdr f)) (Header.hdr_len (Exec.f_hdr f)) /\
         Exec.f_lay f3 = HeaderSpec.layout_of_hdr (Exec.f_hdr f) (Header.hdr_len (Exec.f_hdr f)) /\
         Exec.f_indef f3 = false /\
         Exec.f_indep f3 = false /\
         Exec.f_slot f3 = Exec.f_slot f /\
         Exec.f_rdonly f3 = (mode =? 0)%Z /\
         Exec.f_old f3 = None /\
         Exec.f_isnew f3 = false /\
         wf_hdr (Exec.f_hdr f3) = true /\
         Header.l_xsz (Exec.f_lay f3) = Header.hdr_len (Exec.f_hdr f3) /\ hdr_on_disk w3 f3.
Proof. exact @close_open_same_header. Qed.
Print Assumptions C03_exec_close_open_same_header.

Theorem C03_exec_enddef_close_open :
  forall (w : Exec.world) (id : Z) (f : Exec.filest) (ea : Header.enddef_args)
           (w' : Exec.world) (mode : Z),
         Exec.f_old f = None ->
         Exec.f_indef f = true ->
         Exec.f_isnew f = true ->
         Header.l_begin_rec (Exec.f_lay f) = 0%Z ->
         hdr_wf (Exec.f_hdr f) ->
         (0 <= Header.env_h_align (Exec.f_align f))%Z ->
         (0 <= Header.env_v_align (Exec.f_align f))%Z ->
         (0 <= Header.env_r_align (Exec.f_align f))%Z ->
         (0 <= Exec.f_slot f < Base.Zlen (Exec.w_disks w))%Z ->
         (0 <= id < Base.Zlen (Exec.w_files w))%Z ->
         (1 <= Exec.w_nprocs w)%Z ->
         Exec.do_enddef w id f ea = Some (w', Gen_consts.NC_NOERR) ->
         exists lay : Header.layout,
           let h1 := Header.set_numrecs (Header.set_begins (Exec.f_hdr f) (Header.l_begins lay)) 0 in
           let f1 := enddef_file f lay in
           Base.znth (Exec.w_files w') id None = Some f1 /\
           Exec.f_hdr f1 = h1 /\
           Exec.f_lay f1 = lay /\
           lay_inv (t3of h1) lay /\
           map Header.v_begin (Header.h_vars h1) = Header.l_begins lay /\
           (wf_hdr h1 = true ->
            (Header.hdr_len h1 <= 65536)%Z ->
            let w2 := close_world w' id f1 in
            let id' := Exec.first_free (Exec.w_files w2) 0 in
            let w3 := open_world w2 (Exec.f_slot f) mode (decoded_of h1) in
            let f3 := open_file w2 (Exec.f_slot f) mode (decoded_of h1) in
            Exec.do_close w' id f1 = Some (w2, close_obs w' f1) /\
            Exec.do_open w2 (Exec.f_slot f) mode =
            Some (w3, Exec.same_all w2 Gen_consts.NC_NOERR (Exec.TZ id' :: nil)) /\
            (0 <= id' <= id)%Z /\
            Base.znth (Exec.w_files w3) id' None = Some f3 /\
            Exec.f_hdr f3 = hdr_content h1 /\
            Exec.f_lay f3 = HeaderSpec.layout_of_hdr h1 (Header.hdr_len h1) /\
            Exec.f_indef f3 = false /\
            Exec.f_slot f3 = Exec.f_slot f /\
            hdr_on_disk w3 f3 /\
            (Header.h_vars (Exec.f_hdr f) <> nil ->
             (forall v : Header.var,
              In v (rec_vars h1) -> (0 < Header.var_len (Header.h_dims h1) v)%Z) ->
             Exec.f_lay f3 =
             {|
               Header.l_xsz := Header.l_xsz lay;
               Header.l_begin_var := Header.l_begin_var lay;
               Header.l_begin_rec :=
                 match rec_vars h1 with
                 | nil => last_end (Header.l_begin_var lay) (fixed_pairs h1)
                 | _ :: _ => Header.l_begin_rec lay
                 end;
               Header.l_recsize := Header.l_recsize lay;
               Header.l_begins := Header.l_begins lay
             |})).
Proof. exact @enddef_close_open. Qed.
Print Assumptions C03_exec_enddef_close_open.
