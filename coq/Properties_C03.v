(* Properties_C03.v — statements only: each property theorem is stated in full and closed by
   `exact <lemma>`; the lemmas live in the Proofs_*.v files.  Assembled by tools/mkprops.py. *)
(* C03 Files written conform to CDF-1/2/5: for EVERY well-formed header (any number of dims, attributes, *)
(* variables; the three formats) and ANY trailing bytes the decoder written from the format grammar *)
(* recovers exactly the content the encoder was given; the encoder output is strictly valid (zero *)
(* padding, vsize rule); the header length function equals the encoded length and is a multiple of 4. *)
From Coq Require Import ZArith List.
From Pnc Require Import Proofs_Header.
From Pnc Require Import Proofs_Layout.
From Pnc Require Import Proofs_Exec2.
From Pnc Require Import Proofs_Reach3.
From Pnc Require Import Proofs_Reach4.
From Pnc Require Import Proofs_Reach3.
From Pnc Require Import Proofs_Reach2.
From Pnc Require Import Proofs_Reach2.
From Pnc Require Import Proofs_Reach4.
From Pnc Require Import CSub.
From Pnc Require Import Gen_begins.
From Pnc Require Import Proofs_GenBegins.
From Pnc Require Import Proofs_GenBeginsRedef.
From Pnc Require Import Proofs_GenBeginsRedef2.
Set Printing Width 100.
Set Printing Depth 100000.

Theorem C03_decode_encode_full :
  forall (h : Header.hdr) (rest : list Base.byte),
         wf_hdr h = true -> HeaderSpec.decode (Header.encode_header h ++ rest) = Some (decoded_of h).
Proof. exact @decode_encode_full. Qed.
Print Assumptions C03_decode_encode_full.

Theorem C03_decode_encode :
  forall (h : Header.hdr) (rest : list Base.byte),
         wf_hdr h = true ->
         exists d : HeaderSpec.decoded,
           HeaderSpec.decode (Header.encode_header h ++ rest) = Some d /\
           HeaderSpec.dc_hdr d = hdr_content h /\
           HeaderSpec.dc_len d = Base.Zlen (Header.encode_header h).
Proof. exact @decode_encode. Qed.
Print Assumptions C03_decode_encode.

Theorem C03_encode_strict_valid :
  forall (h : Header.hdr) (rest : list Base.byte) (d : HeaderSpec.decoded),
         wf_hdr h = true ->
         dimids_ok h = true ->
         unlim_ok h = true ->
         vsize_ok h = true ->
         HeaderSpec.decode (Header.encode_header h ++ rest) = Some d ->
         HeaderSpec.strict_valid d = true.
Proof. exact @encode_strict_valid. Qed.
Print Assumptions C03_encode_strict_valid.

Theorem C03_hdr_len_encode :
  forall h : Header.hdr,
         wf_hdr h = true -> Header.hdr_len h = Base.Zlen (Header.encode_header h).
Proof. exact @hdr_len_encode. Qed.
Print Assumptions C03_hdr_len_encode.

Theorem C03_hdr_len_mod4 :
  forall h : Header.hdr, (Header.hdr_len h mod 4)%Z = 0%Z.
Proof. exact @hdr_len_mod4_all. Qed.
Print Assumptions C03_hdr_len_mod4.

Theorem C03_encode_header_bytes :
  forall h : Header.hdr,
         bytes_ok h = true -> Forall (fun b : Z => Base.is_byte b = true) (Header.encode_header h).
Proof. exact @encode_header_bytes. Qed.
Print Assumptions C03_encode_header_bytes.

Theorem C03_resolve_align_ok :
  forall (cfg : Header.aligncfg) (ea : Header.enddef_args) (nfix : Z) 
           (is_new : bool) (ha va ra : Z),
         (0 <= Header.env_h_align cfg)%Z ->
         (0 <= Header.env_v_align cfg)%Z ->
         (0 <= Header.env_r_align cfg)%Z ->
         (0 <= Header.e_v_align ea)%Z ->
         (0 <= Header.e_r_align ea)%Z ->
         Header.resolve_align cfg ea nfix is_new = (ha, va, ra) ->
         ((4 <= ha)%Z /\ (ha mod 4)%Z = 0%Z) /\
         ((4 <= va)%Z /\ (va mod 4)%Z = 0%Z) /\ (4 <= ra)%Z /\ (ra mod 4)%Z = 0%Z.
Proof. exact @resolve_align_ok. Qed.
Print Assumptions C03_resolve_align_ok.

Theorem C03_begins_layout_ok :
  forall (h : Header.hdr) (hm vm ha ra : Z) (lay : Header.layout),
         hdr_wf h ->
         (0 <= hm)%Z ->
         (0 <= vm)%Z ->
         (4 <= ha)%Z ->
         (ha mod 4)%Z = 0%Z ->
         (4 <= ra)%Z ->
         (ra mod 4)%Z = 0%Z ->
         Header.begins h hm vm ha ra None 0 = Some lay ->
         let h' := Header.set_begins h (Header.l_begins lay) in
         let bv1 := bv1_new h hm ha in
         lay_inv (t3of h) lay /\
         HeaderSpec.layout_ok h' (Header.l_xsz lay) = true /\
         Header.l_xsz lay = Header.hdr_len h /\
         Base.Zlen (Header.l_begins lay) = Base.Zlen (Header.h_vars h) /\
         (Header.hdr_len h <= bv1)%Z /\
         (Header.h_vars h <> nil -> (Header.hdr_len h + hm <= bv1)%Z /\ (bv1 mod ha)%Z = 0%Z) /\
         (bv1 <= Header.l_begin_var lay)%Z /\
         match fixed_pairs h' with
         | nil => Header.l_begin_var lay = Header.l_begin_rec lay
         | (b, _) :: _ =>
             Header.l_begin_var lay = b /\ b = bv1 /\ (Header.l_begin_var lay mod ha)%Z = 0%Z
         end /\
         HeaderSpec.begins_increasing bv1 (fixed_pairs h') = true /\
         (last_end bv1 (fixed_pairs h') + vm <= Header.l_begin_rec lay)%Z /\
         Header.l_begin_rec lay =
         Base.rndup (Base.rndup (Z.max 0 (last_end bv1 (fixed_pairs h') + vm)) 4) ra /\
         (Header.l_begin_rec lay mod 4)%Z = 0%Z /\
         (Header.l_begin_rec lay mod ra)%Z = 0%Z /\
         contig (Header.l_begin_rec lay) (rec_pairs h') /\ Header.l_recsize lay = recsize_of h.
Proof. exact @begins_layout_ok. Qed.
Print Assumptions C03_begins_layout_ok.

Theorem C03_begins_layout_ok_redef :
  forall (oh h : Header.hdr) (ol lay : Header.layout) (hm vm ha ra : Z),
         hdr_wf h ->
         (0 <= hm)%Z ->
         (0 <= vm)%Z ->
         (0 < ha)%Z ->
         (4 <= ra)%Z ->
         (ra mod 4)%Z = 0%Z ->
         lay_inv (t3of oh) ol ->
         hdr_extends oh h ->
         Header.begins h hm vm ha ra (redef_old oh ol) (Header.l_begin_rec ol) = Some lay ->
         HeaderSpec.layout_ok (Header.set_begins h (Header.l_begins lay)) (Header.l_xsz lay) = true /\
         Header.l_xsz lay = Header.hdr_len h /\
         Base.Zlen (Header.l_begins lay) = Base.Zlen (Header.h_vars h) /\
         Header.l_recsize lay = recsize_of h.
Proof. exact @begins_layout_ok_redef. Qed.
Print Assumptions C03_begins_layout_ok_redef.

Theorem C03_begins_monotone :
  forall (oh h : Header.hdr) (ol lay : Header.layout) (hm vm ha ra : Z),
         hdr_wf h ->
         (0 <= hm)%Z ->
         (0 <= vm)%Z ->
         (0 < ha)%Z ->
         (4 <= ra)%Z ->
         (ra mod 4)%Z = 0%Z ->
         lay_inv (t3of oh) ol ->
         hdr_extends oh h ->
         Header.begins h hm vm ha ra (redef_old oh ol) (Header.l_begin_rec ol) = Some lay ->
         (forall i : Z,
          (0 <= i < Base.Zlen (Header.h_vars oh))%Z ->
          (Base.znth (Header.l_begins ol) i 0 <= Base.znth (Header.l_begins lay) i 0)%Z) /\
         (Header.l_begin_var ol <= Header.l_begin_var lay)%Z /\
         (Header.l_begin_rec ol <= Header.l_begin_rec lay)%Z /\
         (Header.l_recsize ol <= Header.l_recsize lay)%Z /\ (0 <= Header.l_recsize ol)%Z.
Proof. exact @begins_monotone. Qed.
Print Assumptions C03_begins_monotone.

Theorem C03_reachable_layout_ok :
  forall (h : Header.hdr) (lay : Header.layout),
         hdr_wf h ->
         reachable (t3of h) lay ->
         HeaderSpec.layout_ok (Header.set_begins h (Header.l_begins lay)) (Header.l_xsz lay) = true.
Proof. exact @reachable_layout_ok. Qed.
Print Assumptions C03_reachable_layout_ok.

Theorem C03_layout_of_hdr_agrees :
  forall (h : Header.hdr) (lay : Header.layout),
         hdr_wf h ->
         lay_inv (t3of h) lay ->
         map Header.v_begin (Header.h_vars h) = Header.l_begins lay ->
         Header.h_vars h <> nil ->
         (forall v : Header.var, In v (rec_vars h) -> (0 < Header.var_len (Header.h_dims h) v)%Z) ->
         let br' :=
           match rec_vars h with
           | nil => last_end (Header.l_begin_var lay) (fixed_pairs h)
           | _ :: _ => Header.l_begin_rec lay
           end in
         HeaderSpec.layout_of_hdr h (Header.l_xsz lay) =
         {|
           Header.l_xsz := Header.l_xsz lay;
           Header.l_begin_var := Header.l_begin_var lay;
           Header.l_begin_rec := br';
           Header.l_recsize := Header.l_recsize lay;
           Header.l_begins := Header.l_begins lay
         |} /\ lay_inv (t3of h) (HeaderSpec.layout_of_hdr h (Header.l_xsz lay)).
Proof. exact @layout_of_hdr_agrees. Qed.
Print Assumptions C03_layout_of_hdr_agrees.

Theorem C03_recsize_single :
  forall (h : Header.hdr) (v : Header.var),
         rec_vars h = v :: nil -> recsize_of h = unpadded (Header.h_dims h) v.
Proof. exact @recsize_single. Qed.
Print Assumptions C03_recsize_single.

Theorem C03_begin_var_minfree_refuted_without_variables :
  ~ begin_var_minfree_full.
Proof. exact @begin_var_minfree_refuted. Qed.
Print Assumptions C03_begin_var_minfree_refuted_without_variables.

Theorem C03_exec_enddef_writes_header :
  forall (w : Exec.world) (id : Z) (f : Exec.filest) (ea : Header.enddef_args)
           (w' : Exec.world),
         Exec.f_old f = None ->
         Exec.f_indef f = true ->
         Exec.f_isnew f = true ->
         Header.l_begin_rec (Exec.f_lay f) = 0%Z ->
         hdr_wf (Exec.f_hdr f) ->
         (0 <= Header.env_h_align (Exec.f_align f))%Z ->
         (0 <= Header.env_v_align (Exec.f_align f))%Z ->
         (0 <= Header.env_r_align (Exec.f_align f))%Z ->
         (0 <= Exec.f_slot f < Base.Zlen (Exec.w_disks w))%Z ->
         (0 <= id < Base.Zlen (Exec.w_files w))%Z ->
         (1 <= Exec.w_nprocs w)%Z ->
         Exec.do_enddef w id f ea = Some (w', Gen_consts.NC_NOERR) ->
         exists (ha va ra : Z) (lay : Header.layout),
           Header.resolve_align (Exec.f_align f) ea (Base.Zlen (Header.h_vars (Exec.f_hdr f))) true =
           (ha, va, ra) /\
           Header.begins (Exec.f_hdr f) (Header.e_h_minfree ea) (Header.e_v_minfree ea) ha ra None 0 =
           Some lay /\
           (let h1 := Header.set_numrecs (Header.set_begins (Exec.f_hdr f) (Header.l_begins lay)) 0
              in
            let d := Exec.get_disk w' (Exec.f_slot f) in
            let f'' := enddef_file f lay in
            (Base.znth (Exec.w_files w') id None = Some f'' /\
             Exec.f_hdr f'' = h1 /\
             Exec.f_lay f'' = lay /\
             Exec.f_indef f'' = false /\
             Exec.f_indep f'' = false /\
             Exec.f_old f'' = None /\
             Exec.f_isnew f'' = false /\
             Exec.f_slot f'' = Exec.f_slot f /\ Exec.f_rdonly f'' = Exec.f_rdonly f) /\
            (lay_inv (t3of (Exec.f_hdr f)) lay /\ Header.l_xsz lay = Header.hdr_len h1) /\
            (wf_hdr h1 = true ->
             Disk.dk_read d 0 (Header.hdr_len h1) = Header.encode_header h1 /\
             Disk.dk_exists d = true /\
             (Header.hdr_len h1 <= Disk.dk_size d)%Z /\
             (forall n : Z,
              (Header.hdr_len h1 <= n)%Z ->
              HeaderSpec.decode (Disk.dk_read d 0 n) = Some (decoded_of h1)) /\ 
             hdr_on_disk w' f'')).
Proof. exact @enddef_writes_header. Qed.
Print Assumptions C03_exec_enddef_writes_header.

Theorem C03_exec_close_open_same_header :
  forall (w : Exec.world) (id : Z) (f : Exec.filest) (mode : Z),
         Exec.f_indef f = false ->
         (negb (Exec.f_rdonly f) && Exec.f_indep f)%bool = false ->
         Base.znth (Exec.w_files w) id None = Some f ->
         wf_hdr (Exec.f_hdr f) = true ->
         hdr_on_disk w f ->
         (Header.hdr_len (Exec.f_hdr f) <= 65536)%Z ->
         Header.l_xsz (Exec.f_lay f) = Header.hdr_len (Exec.f_hdr f) ->
         (0 <= Exec.f_slot f < Base.Zlen (Exec.w_disks w))%Z ->
         (0 <= id < Base.Zlen (Exec.w_files w))%Z ->
         let w2 := close_world w id f in
         let id' := Exec.first_free (Exec.w_files w2) 0 in
         let dc := decoded_of (Exec.f_hdr f) in
         let w3 := open_world w2 (Exec.f_slot f) mode dc in
         let f3 := open_file w2 (Exec.f_slot f) mode dc in
         Exec.do_close w id f = Some (w2, close_obs w f) /\
         Exec.do_open w2 (Exec.f_slot f) mode =
         Some (w3, Exec.same_all w2 Gen_consts.NC_NOERR (Exec.TZ id' :: nil)) /\
         (0 <= id' <= id)%Z /\
         Base.znth (Exec.w_files w3) id' None = Some f3 /\
         Exec.f_hdr f3 = hdr_content (Exec.f_hdr f) /\
         Exec.f_lay f3 =
         HeaderSpec.layout_of_hdr (hdr_content (Exec.f_hdr f)) (Header.hdr_len (Exec.f_hdr f)) /\
         Exec.f_lay f3 = HeaderSpec.layout_of_hdr (Exec.f_hdr f) (Header.hdr_len (Exec.f_hdr f)) /\
         Exec.f_indef f3 = false /\
         Exec.f_indep f3 = false /\
         Exec.f_slot f3 = Exec.f_slot f /\
         Exec.f_rdonly f3 = (mode =? 0)%Z /\
         Exec.f_old f3 = None /\
         Exec.f_isnew f3 = false /\
         wf_hdr (Exec.f_hdr f3) = true /\
         Header.l_xsz (Exec.f_lay f3) = Header.hdr_len (Exec.f_hdr f3) /\ hdr_on_disk w3 f3.
Proof. exact @close_open_same_header. Qed.
Print Assumptions C03_exec_close_open_same_header.

(* ---- for EVERY reachable state of the API-level model (Proofs_Reach*.v) ---- *)
(* all checks (the invariant itself) ---------------- *)
(* every step of the interpreter (all 50 ops, SAll / SEach / SOne) preserves world_inv, under step_ok *)
Theorem C03_exec_enddef_close_open :
  forall (w : Exec.world) (id : Z) (f : Exec.filest) (ea : Header.enddef_args)
           (w' : Exec.world) (mode : Z),
         Exec.f_old f = None ->
         Exec.f_indef f = true ->
         Exec.f_isnew f = true ->
         Header.l_begin_rec (Exec.f_lay f) = 0%Z ->
         hdr_wf (Exec.f_hdr f) ->
         (0 <= Header.env_h_align (Exec.f_align f))%Z ->
         (0 <= Header.env_v_align (Exec.f_align f))%Z ->
         (0 <= Header.env_r_align (Exec.f_align f))%Z ->
         (0 <= Exec.f_slot f < Base.Zlen (Exec.w_disks w))%Z ->
         (0 <= id < Base.Zlen (Exec.w_files w))%Z ->
         (1 <= Exec.w_nprocs w)%Z ->
         Exec.do_enddef w id f ea = Some (w', Gen_consts.NC_NOERR) ->
         exists lay : Header.layout,
           let h1 := Header.set_numrecs (Header.set_begins (Exec.f_hdr f) (Header.l_begins lay)) 0 in
           let f1 := enddef_file f lay in
           Base.znth (Exec.w_files w') id None = Some f1 /\
           Exec.f_hdr f1 = h1 /\
           Exec.f_lay f1 = lay /\
           lay_inv (t3of h1) lay /\
           map Header.v_begin (Header.h_vars h1) = Header.l_begins lay /\
           (wf_hdr h1 = true ->
            (Header.hdr_len h1 <= 65536)%Z ->
            let w2 := close_world w' id f1 in
            let id' := Exec.first_free (Exec.w_files w2) 0 in
            let w3 := open_world w2 (Exec.f_slot f) mode (decoded_of h1) in
            let f3 := open_file w2 (Exec.f_slot f) mode (decoded_of h1) in
            Exec.do_close w' id f1 = Some (w2, close_obs w' f1) /\
            Exec.do_open w2 (Exec.f_slot f) mode =
            Some (w3, Exec.same_all w2 Gen_consts.NC_NOERR (Exec.TZ id' :: nil)) /\
            (0 <= id' <= id)%Z /\
            Base.znth (Exec.w_files w3) id' None = Some f3 /\
            Exec.f_hdr f3 = hdr_content h1 /\
            Exec.f_lay f3 = HeaderSpec.layout_of_hdr h1 (Header.hdr_len h1) /\
            Exec.f_indef f3 = false /\
            Exec.f_slot f3 = Exec.f_slot f /\
            hdr_on_disk w3 f3 /\
            (Header.h_vars (Exec.f_hdr f) <> nil ->
             (forall v : Header.var,
              In v (rec_vars h1) -> (0 < Header.var_len (Header.h_dims h1) v)%Z) ->
             Exec.f_lay f3 =
             {|
               Header.l_xsz := Header.l_xsz lay;
               Header.l_begin_var := Header.l_begin_var lay;
               Header.l_begin_rec :=
                 match rec_vars h1 with
                 | nil => last_end (Header.l_begin_var lay) (fixed_pairs h1)
                 | _ :: _ => Header.l_begin_rec lay
                 end;
               Header.l_recsize := Header.l_recsize lay;
               Header.l_begins := Header.l_begins lay
             |})).
Proof. exact @enddef_close_open. Qed.
Print Assumptions C03_exec_enddef_close_open.

(* the 46 ops that need no side condition at all (everything but create / open / junk / put) *)
Theorem REACH_exec_step_preserves_inv :
  forall (w : Exec.world) (s : Exec.step),
         Proofs_Reach.world_inv w ->
         Proofs_Reach.step_ok w s = true -> Proofs_Reach.world_inv (fst (Exec.exec_step w s)).
Proof. exact @exec_step_preserves_inv. Qed.
Print Assumptions REACH_exec_step_preserves_inv.

(* world_inv holds after EVERY history of steps and world settings (strict flag, move unit >= 1) *)
Theorem REACH_exec_step_preserves_inv_uncond :
  forall (w : Exec.world) (o : Exec.op),
         Proofs_Reach.world_inv w ->
         op_uncond o = true ->
         Proofs_Reach.world_inv (fst (Exec.exec_step w (Exec.SAll o))) /\
         (forall r : Z, Proofs_Reach.world_inv (fst (Exec.exec_step w (Exec.SOne r o)))).
Proof. exact @exec_step_preserves_inv_uncond. Qed.
Print Assumptions REACH_exec_step_preserves_inv_uncond.

(* the same for the plain fold of exec_step over a list of steps *)
Theorem REACH_reachable_inv :
  forall (n : Z) (cs : list cmd),
         (1 <= n)%Z ->
         run_ok (Exec.world0 n) cs = true -> Proofs_Reach.world_inv (run (Exec.world0 n) cs).
Proof. exact @reachable_inv. Qed.
Print Assumptions REACH_reachable_inv.

(* the unconditional statement is FALSE of the model (create with clobber on the slot of an open file) *)
Theorem REACH_reachable_inv_steps :
  forall (n : Z) (steps : list Exec.step),
         (1 <= n)%Z ->
         run_ok (Exec.world0 n) (map CStep steps) = true ->
         Proofs_Reach.world_inv
           (fst
              (fold_left
                 (fun (acc : Exec.world * list Exec.obs) (s : Exec.step) =>
                  Exec.exec_step (fst acc) s) steps (Exec.world0 n, nil))).
Proof. exact @reachable_inv_steps. Qed.
Print Assumptions REACH_reachable_inv_steps.

(* C03 files written conform (for every history) ---------------- *)
(* any reachable state, any open file in data mode with an encodable header: the file's first hdr_len *)
(* bytes ARE encode_header of the in-memory header, and every longer prefix decodes (grammar decoder) to it *)
Theorem REACH_unconditional_false :
  ~
         (forall (w : Exec.world) (s : Exec.step),
          Proofs_Reach.world_inv w -> Proofs_Reach.world_inv (fst (Exec.exec_step w s))).
Proof. exact @exec_step_preserves_inv_unconditional_false. Qed.
Print Assumptions REACH_unconditional_false.

(* the same for any world satisfying the invariant (also gives Proofs_Exec2.hdr_on_disk) *)
Theorem C03_reachable_header_on_disk :
  forall (n : Z) (cs : list cmd) (id : Z) (f : Exec.filest),
         (1 <= n)%Z ->
         run_ok (Exec.world0 n) cs = true ->
         let w := run (Exec.world0 n) cs in
         Base.znth (Exec.w_files w) id None = Some f ->
         Exec.f_tainted f = false ->
         Exec.f_indef f = false ->
         wf_hdr (Exec.f_hdr f) = true ->
         Disk.dk_read (Exec.disk_of w f) 0 (Header.hdr_len (Exec.f_hdr f)) =
         Header.encode_header (Exec.f_hdr f) /\
         (forall m : Z,
          (Header.hdr_len (Exec.f_hdr f) <= m)%Z ->
          exists dc : HeaderSpec.decoded,
            HeaderSpec.decode (Disk.dk_read (Exec.disk_of w f) 0 m) = Some dc /\
            HeaderSpec.dc_hdr dc = hdr_content (Exec.f_hdr f)).
Proof. exact @reachable_header_on_disk. Qed.
Print Assumptions C03_reachable_header_on_disk.

(* any reachable state: layout_ok of the in-memory header, every variable begins at or after the header, *)
(* the layout invariant lay_inv of the current layout *)
Theorem C03_inv_header_on_disk :
  forall (w : Exec.world) (id : Z) (f : Exec.filest),
         Proofs_Reach.world_inv w ->
         Base.znth (Exec.w_files w) id None = Some f ->
         Exec.f_tainted f = false ->
         Exec.f_indef f = false ->
         wf_hdr (Exec.f_hdr f) = true ->
         hdr_on_disk w f /\
         (forall m : Z,
          (Header.hdr_len (Exec.f_hdr f) <= m)%Z ->
          HeaderSpec.decode (Disk.dk_read (Exec.disk_of w f) 0 m) = Some (decoded_of (Exec.f_hdr f)) /\
          HeaderSpec.dc_hdr (decoded_of (Exec.f_hdr f)) = hdr_content (Exec.f_hdr f)).
Proof. exact @inv_header_on_disk. Qed.
Print Assumptions C03_inv_header_on_disk.

(* close (data mode, no sync pending, header encodable and < 64 KiB) leaves a file that passes the *)
(* validation of open: reopening what the model wrote is always inside the contract *)
Theorem C03_reachable_layout_ok_all :
  forall (n : Z) (cs : list cmd) (id : Z) (f : Exec.filest),
         (1 <= n)%Z ->
         run_ok (Exec.world0 n) cs = true ->
         let w := run (Exec.world0 n) cs in
         Base.znth (Exec.w_files w) id None = Some f ->
         Exec.f_tainted f = false ->
         Exec.f_indef f = false ->
         HeaderSpec.layout_ok (Exec.f_hdr f) (Header.hdr_len (Exec.f_hdr f)) = true /\
         (forall i : Z,
          (0 <= i < Base.Zlen (Header.h_vars (Exec.f_hdr f)))%Z ->
          (Header.hdr_len (Exec.f_hdr f) <=
           Header.v_begin (Base.znth (Header.h_vars (Exec.f_hdr f)) i Proofs_Redef.dv))%Z) /\
         (Header.h_vars (Exec.f_hdr f) <> nil -> lay_inv (t3of (Exec.f_hdr f)) (Exec.f_lay f)).
Proof. exact @reachable_layout_ok_all. Qed.
Print Assumptions C03_reachable_layout_ok_all.

(* enddef (first one and after redef) preserves the invariant; afterwards the file is in data mode *)
Theorem C03_inv_close_open_ok :
  forall (w : Exec.world) (id : Z) (f : Exec.filest) (mode : Z),
         Proofs_Reach.world_inv w ->
         Base.znth (Exec.w_files w) id None = Some f ->
         Exec.f_tainted f = false ->
         Exec.f_indef f = false ->
         (negb (Exec.f_rdonly f) && Exec.f_indep f)%bool = false ->
         wf_hdr (Exec.f_hdr f) = true ->
         (Header.hdr_len (Exec.f_hdr f) <= 65536)%Z ->
         Exec.do_close w id f = Some (close_world w id f, close_obs w f) /\
         Proofs_Reach.world_inv (close_world w id f) /\
         Proofs_Reach.op_ok (close_world w id f) (Exec.OOpen (Exec.f_slot f) mode) = true.
Proof. exact @inv_close_open_ok. Qed.
Print Assumptions C03_inv_close_open_ok.

(* numrecs (C03 / C16 / C19 as fits) ---------------- *)
(* the on-disk header follows the in-memory header through every numrecs agreement *)
Theorem C03_do_enddef_inv :
  forall (w : Exec.world) (id : Z) (f : Exec.filest) (ea : Header.enddef_args)
           (w' : Exec.world) (rc : Z),
         Proofs_Reach.world_inv w ->
         Base.znth (Exec.w_files w) id None = Some f ->
         Exec.f_tainted f = false ->
         Exec.do_enddef w id f ea = Some (w', rc) ->
         Proofs_Reach.world_inv w' /\
         (exists f1 : Exec.filest,
            Base.znth (Exec.w_files w') id None = Some f1 /\
            Exec.f_slot f1 = Exec.f_slot f /\
            Exec.f_tainted f1 = false /\
            (rc = Gen_consts.NC_NOERR ->
             Exec.f_indef f = true ->
             Exec.f_indef f1 = false /\ Exec.f_indep f1 = false /\ Exec.f_rdonly f1 = Exec.f_rdonly f) /\
            (Exec.f_indef f = false -> f1 = f)).
Proof. exact @do_enddef_inv. Qed.
Print Assumptions C03_do_enddef_inv.

Theorem REACH_coll_numrecs_sync_inv :
  forall (w : Exec.world) (id : Z) (f : Exec.filest) (news : list (option Z)),
         Proofs_Reach.world_inv w ->
         Base.znth (Exec.w_files w) id None = Some f ->
         Exec.f_tainted f = false ->
         Exec.f_indef f = false ->
         Exec.f_indep f = false ->
         (0 < Exec.num_rec_vars (Exec.f_hdr f))%Z ->
         Proofs_Reach.world_inv (Exec.coll_numrecs_sync w id f news).
Proof. exact @coll_numrecs_sync_inv. Qed.
Print Assumptions REACH_coll_numrecs_sync_inv.

Theorem REACH_sync_all_inv :
  forall (w : Exec.world) (id : Z) (f : Exec.filest),
         Proofs_Reach.world_inv w ->
         Base.znth (Exec.w_files w) id None = Some f ->
         Exec.f_tainted f = false ->
         Exec.f_indef f = false ->
         Proofs_Reach.world_inv (Exec.sync_numrecs_all w id f) /\
         (exists f1 : Exec.filest,
            Base.znth (Exec.w_files (Exec.sync_numrecs_all w id f)) id None = Some f1 /\
            Exec.f_slot f1 = Exec.f_slot f /\
            Exec.f_tainted f1 = false /\
            Exec.f_indef f1 = false /\
            Exec.f_indep f1 = Exec.f_indep f /\
            Exec.f_rdonly f1 = Exec.f_rdonly f /\
            Forall (fun r : Exec.rankst => Exec.rk_numrecs r = Header.h_numrecs (Exec.f_hdr f1))
              (Exec.f_ranks f1)).
Proof. exact @sync_all_inv. Qed.
Print Assumptions REACH_sync_all_inv.

(* findings (Examples, each proved by vm_compute) ---------------- *)
(* (a) create with clobber on the slot of an open file breaks that file's header-on-disk *)
Theorem REACH_disk_has_hdr_write_numrecs :
  forall (d : Disk.disk) (h : Header.hdr) (n : Z),
         wf_hdr h = true ->
         wf_hdr (Header.set_numrecs h n) = true ->
         Proofs_Reach.disk_has_hdr d h ->
         Proofs_Reach.disk_has_hdr (Exec.write_numrecs_bytes d (Header.h_format h) n)
           (Header.set_numrecs h n).
Proof. exact @disk_has_hdr_write_numrecs. Qed.
Print Assumptions REACH_disk_has_hdr_write_numrecs.

(* (b) put with count shorter than start: start [0;-3] count [1] is accepted and overwrites the header *)
Theorem REACH_cex_alias :
  ~ Proofs_Reach.world_inv (run (Exec.world0 1) cex_alias_cs).
Proof. exact @cex_alias_not_inv. Qed.
Print Assumptions REACH_cex_alias.

(* (c) create accepts format 3: the file written does not decode to the header in memory *)
Theorem REACH_cex_put :
  run_ok (Exec.world0 1) cex_put_cs = true /\
         Proofs_Reach.step_ok (run (Exec.world0 1) cex_put_cs) cex_put_step = false /\
         (let w := run (Exec.world0 1) cex_put_cs in
          let w' := fst (Exec.exec_step w cex_put_step) in
          map (fun o : Exec.obs => snd (fst o)) (snd (Exec.exec_step w cex_put_step)) =
          Gen_consts.NC_NOERR :: nil /\
          (exists f : Exec.filest,
             Base.znth (Exec.w_files w') 0 None = Some f /\
             Exec.f_tainted f = false /\
             wf_hdr (Exec.f_hdr f) = true /\
             Header.hdr_len (Exec.f_hdr f) = 96%Z /\
             Header.l_begins (Exec.f_lay f) = 96%Z :: nil /\
             Base.bytes_eqb (Disk.dk_read (Exec.disk_of w f) 0 96)
               (Header.encode_header (Exec.f_hdr f)) = true /\
             Base.bytes_eqb (Disk.dk_read (Exec.disk_of w' f) 0 96)
               (Header.encode_header (Exec.f_hdr f)) = false)).
Proof. exact @cex_put. Qed.
Print Assumptions REACH_cex_put.

(* (d) CDF-5 dimension 2^64 and CDF-1 numrecs 2^32 are accepted and read back as 0 *)
Theorem REACH_cex_format :
  let cs :=
           CStep (Exec.SAll (Exec.OCreate 0 3 1))
           :: CStep (Exec.SAll (Exec.ODefDim 0 (120%Z :: nil) 4))
              :: CStep (Exec.SAll (Exec.ODefVar 0 (118%Z :: nil) 4 (0%Z :: nil)))
                 :: CStep (Exec.SAll (Exec.OEnddef 0)) :: nil in
         run_ok (Exec.world0 1) cs = true /\
         (let w := run (Exec.world0 1) cs in
          exists f : Exec.filest,
            Base.znth (Exec.w_files w) 0 None = Some f /\
            Exec.f_indef f = false /\
            wf_hdr (Exec.f_hdr f) = false /\
            map Header.v_begin (Header.h_vars (Exec.f_hdr f)) = 512%Z :: nil /\
            option_map
              (fun dc : HeaderSpec.decoded =>
               map Header.v_begin (Header.h_vars (HeaderSpec.dc_hdr dc)))
              (HeaderSpec.decode
                 (Disk.dk_read (Exec.disk_of w f) 0 (Disk.dk_size (Exec.disk_of w f)))) =
            Some (0%Z :: nil)).
Proof. exact @cex_format. Qed.
Print Assumptions REACH_cex_format.

Theorem REACH_cex_dim_size :
  let w :=
           run (Exec.world0 1)
             (CStep (Exec.SAll (Exec.OCreate 0 5 1))
              :: CStep (Exec.SAll (Exec.ODefDim 0 (120%Z :: nil) 18446744073709551616))
                 :: CStep (Exec.SAll (Exec.OEnddef 0)) :: nil) in
         exists f : Exec.filest,
           Base.znth (Exec.w_files w) 0 None = Some f /\
           Exec.f_indef f = false /\
           Exec.f_tainted f = false /\
           wf_hdr (Exec.f_hdr f) = false /\
           map Header.d_size (Header.h_dims (Exec.f_hdr f)) = 18446744073709551616%Z :: nil /\
           option_map
             (fun dc : HeaderSpec.decoded => map Header.d_size (Header.h_dims (HeaderSpec.dc_hdr dc)))
             (HeaderSpec.decode (Disk.dk_read (Exec.disk_of w f) 0 (Disk.dk_size (Exec.disk_of w f)))) =
           Some (0%Z :: nil).
Proof. exact @cex_dim_size. Qed.
Print Assumptions REACH_cex_dim_size.

Theorem REACH_cex_numrecs :
  let w :=
           run (Exec.world0 1)
             (CStep (Exec.SAll (Exec.OCreate 0 1 1))
              :: CStep (Exec.SAll (Exec.ODefDim 0 (116%Z :: nil) 0))
                 :: CStep (Exec.SAll (Exec.ODefVar 0 (118%Z :: nil) 1 (0%Z :: nil)))
                    :: CStep (Exec.SAll (Exec.OEnddef 0))
                       :: CStep
                            (Exec.SAll
                               (Exec.OPut 0 true
                                  {|
                                    Exec.ac_var := 0;
                                    Exec.ac_form := Exec.FVar1 (Some (4294967295%Z :: nil));
                                    Exec.ac_memt := 1;
                                    Exec.ac_flex := false;
                                    Exec.ac_buf := Exec.BTyped;
                                    Exec.ac_seed := 1
                                  |})) :: nil) in
         exists f : Exec.filest,
           Base.znth (Exec.w_files w) 0 None = Some f /\
           Exec.f_indef f = false /\
           Exec.f_tainted f = false /\
           wf_hdr (Exec.f_hdr f) = false /\
           Header.h_numrecs (Exec.f_hdr f) = 4294967296%Z /\
           option_map (fun dc : HeaderSpec.decoded => Header.h_numrecs (HeaderSpec.dc_hdr dc))
             (HeaderSpec.decode (Disk.dk_read (Exec.disk_of w f) 0 200)) = 
           Some 0%Z.
Proof. exact @cex_numrecs. Qed.
Print Assumptions REACH_cex_numrecs.

(* the first loop of NC_begins (offsets of the fixed-size variables), as translated from ncmpio_enddef.c as built on this run (Gen_begins.v, tools/tr_cfun.py), against Header.begins_fixed: same verdict (NC_EVARSIZE for the CDF-1 offset limit), same end offset, same begins; no old layout (ncp->old == NULL) *)
Theorem C03_gen_begins_fixed_eq :
  forall (n0 : c_NC) (xsz : Z) (vars : list c_NC_var) (ev : Z) (lastv : c_ref),
         NC__old n0 = None ->
         NC_vararray__ndefined (NC__vars n0) = Base.Zlen vars ->
         (Base.Zlen vars <= 2147483647)%Z ->
         Forall cv_wf vars ->
         Forall (fun v : c_NC_var => (0 <= NC_var__len v)%Z) vars ->
         (0 <= ev)%Z ->
         (ev + lens4 vars <= MAXOFF)%Z ->
         let s0 := mkS (with_vals n0 vars) ev None 0 0 lastv in
         exists s' : st_NC_begins,
           c_loop (NC_begins_loop1_fuel n0 xsz s0) (NC_begins_loop1_cdef n0 xsz)
             (NC_begins_loop1_cond n0 xsz) (NC_begins_loop1_body n0 xsz) 
             (NC_begins_loop1_inc n0 xsz) s0 =
           match Header.begins_fixed (NC__format n0) (map pair_of vars) nil ev nil with
           | Some _ => CNorm s'
           | None => CRetS Gen_consts.NC_EVARSIZE s'
           end /\
           (forall (ef : Z) (fb : list (option Z)),
            Header.begins_fixed (NC__format n0) (map pair_of vars) nil ev nil = Some (ef, fb) ->
            NC_begins__end_var s' = ef /\
            map fixed_begin (arr_of s') = fb /\ NC_begins__i s' = Base.Zlen vars).
Proof. exact @gen_begins_fixed_eq. Qed.
Print Assumptions C03_gen_begins_fixed_eq.

(* the second loop (record variables) against Header.begins_rec: verdict, end offset, record size, begins, length of the last record variable *)
Theorem C03_gen_begins_rec_eq :
  forall (n0 : c_NC) (xsz : Z) (vars : list c_NC_var) (ev : Z) (fv lastv : c_ref),
         NC__old n0 = None ->
         NC_vararray__ndefined (NC__vars n0) = Base.Zlen vars ->
         (Base.Zlen vars <= 2147483647)%Z ->
         Forall cv_wf vars ->
         Forall (fun v : c_NC_var => (0 <= NC_var__len v)%Z) vars ->
         (0 <= ev)%Z ->
         (ev + lens4 vars <= MAXOFF)%Z ->
         let s0 := mkS (with_vals_rs n0 vars 0) ev fv 0 0 lastv in
         exists s' : st_NC_begins,
           c_loop (NC_begins_loop3_fuel n0 xsz s0) (NC_begins_loop3_cdef n0 xsz)
             (NC_begins_loop3_cond n0 xsz) (NC_begins_loop3_body n0 xsz) 
             (NC_begins_loop3_inc n0 xsz) s0 =
           match Header.begins_rec (NC__format n0) (map pair_of vars) nil ev 0 None nil with
           | Some _ => CNorm s'
           | None => CRetS Gen_consts.NC_EVARSIZE s'
           end /\
           (forall (er rs : Z) (ll : option Z) (rb : list (option Z)),
            Header.begins_rec (NC__format n0) (map pair_of vars) nil ev 0 None nil =
            Some (er, rs, ll, rb) ->
            NC_begins__end_var s' = er /\
            NC__recsize (NC_begins__P_ncp s') = rs /\
            map rec_begin (arr_of s') = rb /\ last_rec_len None (arr_of s') = ll).
Proof. exact @gen_begins_rec_eq. Qed.
Print Assumptions C03_gen_begins_rec_eq.

(* the WHOLE generated NC_begins for a file without a saved old header (ncp->old == NULL): for every header and every h_minfree / v_minfree / h_align / r_align / previous begin_rec satisfying begins_guards (no 63-bit overflow: one potential bound; well-formed sizes) and with the safe-mode consistency test not taken, it returns NC_EVARSIZE exactly when Header.begins gives None, else NC_NOERR with xsz, begin_var, begin_rec, recsize (single-record-variable packing) and every variable's begin as Header.begins says, and numrecs reset for a new file *)
Theorem C03_gen_begins_eq :
  forall (h : Header.hdr) (hm vm ha ra pbr flags sm np : Z),
         (z2b sm && (np >? 1)%Z)%bool = false ->
         begins_guards h hm vm ha ra pbr ->
         exists (rc : Z) (s' : st_NC_begins),
           NC_begins_c (c_view_nc2 h hm vm ha ra pbr flags sm np) (Header.hdr_len h) = FValS rc s' /\
           match Header.begins h hm vm ha ra None pbr with
           | Some lay =>
               rc = Gen_consts.NC_NOERR /\
               layout_of_state s' = lay /\
               NC__numrecs (NC_begins__P_ncp s') =
               (if z2b (Z.land flags 32768) then 0%Z else Header.h_numrecs h)
           | None => rc = Gen_consts.NC_EVARSIZE
           end.
Proof. exact @gen_begins_eq. Qed.
Print Assumptions C03_gen_begins_eq.

Theorem C03_begins_guards_ex :
  begins_guards
           {|
             Header.h_format := 2;
             Header.h_numrecs := 0;
             Header.h_dims := exb_dims;
             Header.h_gatts := nil;
             Header.h_vars :=
               exb_var 97 (1%Z :: 2%Z :: nil) 3
               :: exb_var 98 (0%Z :: 1%Z :: nil) 5
                  :: exb_var 99 (2%Z :: nil) 1 :: exb_var 100 (0%Z :: 2%Z :: nil) 6 :: nil
           |} 0 0 512 4 0.
Proof. exact @begins_guards_ex. Qed.
Print Assumptions C03_begins_guards_ex.

(* the WHOLE generated NC_begins (header extent, alignment round-ups, both loops, single-record-variable packing) computes the layout of Header.begins on concrete headers of every shape class (vm_compute) *)
Theorem C03_gen_begins_runs :
  begins_agree
           {|
             Header.h_format := 2;
             Header.h_numrecs := 0;
             Header.h_dims := exb_dims;
             Header.h_gatts := nil;
             Header.h_vars :=
               exb_var 97 (1%Z :: 2%Z :: nil) 3
               :: exb_var 98 (0%Z :: 1%Z :: nil) 5
                  :: exb_var 99 (2%Z :: nil) 1 :: exb_var 100 (0%Z :: 2%Z :: nil) 6 :: nil
           |} 0 0 512 4 0 = true /\
         begins_agree
           {|
             Header.h_format := 1;
             Header.h_numrecs := 0;
             Header.h_dims := exb_dims;
             Header.h_gatts := nil;
             Header.h_vars :=
               exb_var 97 (1%Z :: 2%Z :: nil) 3 :: exb_var 98 (0%Z :: 2%Z :: nil) 1 :: nil
           |} 10 20 4 512 0 = true /\
         begins_agree
           {|
             Header.h_format := 5;
             Header.h_numrecs := 0;
             Header.h_dims := exb_dims;
             Header.h_gatts := nil;
             Header.h_vars := nil
           |} 0 0 512 4 0 = true /\
         begins_agree
           {|
             Header.h_format := 5;
             Header.h_numrecs := 0;
             Header.h_dims := exb_dims;
             Header.h_gatts := nil;
             Header.h_vars := exb_var 97 nil 6 :: exb_var 98 (0%Z :: nil) 2 :: nil
           |} 3 5 1024 8 4000 = true /\
         begins_agree
           {|
             Header.h_format := 1;
             Header.h_numrecs := 0;
             Header.h_dims := exb_dims;
             Header.h_gatts := nil;
             Header.h_vars :=
               exb_var 97 (3%Z :: nil) 5
               :: exb_var 98 (3%Z :: nil) 5 :: exb_var 99 (1%Z :: nil) 4 :: nil
           |} 0 0 4 4 0 = true /\
         Header.begins
           {|
             Header.h_format := 1;
             Header.h_numrecs := 0;
             Header.h_dims := exb_dims;
             Header.h_gatts := nil;
             Header.h_vars :=
               exb_var 97 (3%Z :: nil) 5
               :: exb_var 98 (3%Z :: nil) 5 :: exb_var 99 (1%Z :: nil) 4 :: nil
           |} 0 0 4 4 None 0 = None.
Proof. exact @gen_begins_runs. Qed.
Print Assumptions C03_gen_begins_runs.

Theorem C03_gen_begins_subset_complete :
  tr_cfun_unsupported = nil.
Proof. exact @gen_begins_subset_complete. Qed.
Print Assumptions C03_gen_begins_subset_complete.

(* the one listed exclusion: the safe-mode cross-process consistency test (reaching it yields CUnsup) *)
Theorem C03_gen_begins_excluded :
  tr_cfun_excluded =
         String.String (Ascii.Ascii false true true true false false true false)
           (String.String (Ascii.Ascii true true false false false false true false)
              (String.String (Ascii.Ascii true true true true true false true false)
                 (String.String (Ascii.Ascii false true false false false true true false)
                    (String.String (Ascii.Ascii true false true false false true true false)
                       (String.String (Ascii.Ascii true true true false false true true false)
                          (String.String (Ascii.Ascii true false false true false true true false)
                             (String.String (Ascii.Ascii false true true true false true true false)
                                (String.String
                                   (Ascii.Ascii true true false false true true true false)
                                   (String.String
                                      (Ascii.Ascii false true false true true true false false)
                                      (String.String
                                         (Ascii.Ascii false false false false false true false false)
                                         (String.String
                                            (Ascii.Ascii true false true false false false true false)
                                            (String.String
                                               (Ascii.Ascii false false false true true false true
                                                  false)
                                               (String.String
                                                  (Ascii.Ascii true true false false false false true
                                                     false)
                                                  (String.String
                                                     (Ascii.Ascii false false true true false false
                                                        true false)
                                                     (String.String
                                                        (Ascii.Ascii true false true false true false
                                                           true false)
                                                        (String.String
                                                           (Ascii.Ascii false false true false false
                                                              false true false)
                                                           (String.String
                                                              (Ascii.Ascii true false true false
                                                                 false false true false)
                                                              (String.String
                                                                 (Ascii.Ascii false false true false
                                                                    false false true false)
                                                                 (String.String
                                                                    (Ascii.Ascii false false false
                                                                       false false true false false)
                                                                    (String.String
                                                                       (Ascii.Ascii false true false
                                                                        false false true true false)
                                                                       (String.String
                                                                        (Ascii.Ascii true false false
                                                                        true true true true false)
                                                                        (String.String
                                                                        (Ascii.Ascii false false
                                                                        false false false true false
                                                                        false)
                                                                        (String.String
                                                                        (Ascii.Ascii false false true
                                                                        false true true true false)
                                                                        (String.String
                                                                        (Ascii.Ascii false false
                                                                        false true false true true
                                                                        false)
                                                                        (String.String
                                                                        (Ascii.Ascii true false true
                                                                        false false true true false)
                                                                        (String.String
                                                                        (Ascii.Ascii false false
                                                                        false false false true false
                                                                        false)
                                                                        (String.String
                                                                        (Ascii.Ascii false false true
                                                                        false true true true false)
                                                                        (String.String
                                                                        (Ascii.Ascii true false false
                                                                        false false true true false)
                                                                        (String.String
                                                                        (Ascii.Ascii false true false
                                                                        false true true true false)
                                                                        (String.String
                                                                        (Ascii.Ascii true true true
                                                                        false false true true false)
                                                                        (String.String
                                                                        (Ascii.Ascii true false true
                                                                        false false true true false)
                                                                        (String.String
                                                                        (Ascii.Ascii false false true
                                                                        false true true true false)
                                                                        (String.String
                                                                        (Ascii.Ascii false false
                                                                        false false false true false
                                                                        false)
                                                                        (String.String
                                                                        (Ascii.Ascii false false true
                                                                        false false true true false)
                                                                        (String.String
                                                                        (Ascii.Ascii true false true
                                                                        false false true true false)
                                                                        (String.String
                                                                        (Ascii.Ascii true true false
                                                                        false true true true false)
                                                                        (String.String
                                                                        (Ascii.Ascii true true false
                                                                        false false true true false)
                                                                        (String.String
                                                                        (Ascii.Ascii false true false
                                                                        false true true true false)
                                                                        (String.String
                                                                        (Ascii.Ascii true false false
                                                                        true false true true false)
                                                                        (String.String
                                                                        (Ascii.Ascii false false
                                                                        false false true true true
                                                                        false)
                                                                        (String.String
                                                                        (Ascii.Ascii false false true
                                                                        false true true true false)
                                                                        (String.String
                                                                        (Ascii.Ascii true false false
                                                                        true false true true false)
                                                                        (String.String
                                                                        (Ascii.Ascii true true true
                                                                        true false true true false)
                                                                        (String.String
                                                                        (Ascii.Ascii false true true
                                                                        true false true true false)
                                                                        (String.String
                                                                        (Ascii.Ascii false true false
                                                                        true true true false false)
                                                                        (String.String
                                                                        (Ascii.Ascii false false
                                                                        false false false true false
                                                                        false)
                                                                        (String.String
                                                                        (Ascii.Ascii false false true
                                                                        false true true true false)
                                                                        (String.String
                                                                        (Ascii.Ascii false false
                                                                        false true false true true
                                                                        false)
                                                                        (String.String
                                                                        (Ascii.Ascii true false true
                                                                        false false true true false)
                                                                        (String.String
                                                                        (Ascii.Ascii false false
                                                                        false false false true false
                                                                        false)
                                                                        (String.String
                                                                        (Ascii.Ascii false true false
                                                                        false false true true false)
                                                                        (String.String
                                                                        (Ascii.Ascii false true false
                                                                        false true true true false)
                                                                        (String.String
                                                                        (Ascii.Ascii true false false
                                                                        false false true true false)
                                                                        (String.String
                                                                        (Ascii.Ascii false true true
                                                                        true false true true false)
                                                                        (String.String
                                                                        (Ascii.Ascii true true false
                                                                        false false true true false)
                                                                        (String.String
                                                                        (Ascii.Ascii false false
                                                                        false true false true true
                                                                        false)
                                                                        (String.String
                                                                        (Ascii.Ascii false false
                                                                        false false false true false
                                                                        false)
                                                                        (String.String
                                                                        (Ascii.Ascii true true true
                                                                        true false true true false)
                                                                        (String.String
                                                                        (Ascii.Ascii false true true
                                                                        false false true true false)
                                                                        (String.String
                                                                        (Ascii.Ascii false false
                                                                        false false false true false
                                                                        false)
                                                                        (String.String
                                                                        (Ascii.Ascii true false false
                                                                        true false true true false)
                                                                        (String.String
                                                                        (Ascii.Ascii false true true
                                                                        false false true true false)
                                                                        (String.String
                                                                        (Ascii.Ascii false false
                                                                        false false false true false
                                                                        false)
                                                                        (String.String
                                                                        (Ascii.Ascii false false
                                                                        false true false true false
                                                                        false)
                                                                        (String.String
                                                                        (Ascii.Ascii false true true
                                                                        true false true true false)
                                                                        (String.String
                                                                        (Ascii.Ascii true true false
                                                                        false false true true false)
                                                                        (String.String
                                                                        (Ascii.Ascii false false
                                                                        false false true true true
                                                                        false)
                                                                        (String.String
                                                                        (Ascii.Ascii true false true
                                                                        true false true false false)
                                                                        (String.String
                                                                        (Ascii.Ascii false true true
                                                                        true true true false false)
                                                                        (String.String
                                                                        (Ascii.Ascii true true false
                                                                        false true true true false)
                                                                        (String.String
                                                                        (Ascii.Ascii true false false
                                                                        false false true true false)
                                                                        (String.String
                                                                        (Ascii.Ascii false true true
                                                                        false false true true false)
                                                                        (String.String
                                                                        (Ascii.Ascii true false true
                                                                        false false true true false)
                                                                        (String.String
                                                                        (Ascii.Ascii true true true
                                                                        true true false true false)
                                                                        (String.String
                                                                        (Ascii.Ascii true false true
                                                                        true false true true false)
                                                                        (String.String
                                                                        (Ascii.Ascii true true true
                                                                        true false true true false)
                                                                        (String.String
                                                                        (Ascii.Ascii false false true
                                                                        false false true true false)
                                                                        (String.String
                                                                        (Ascii.Ascii true false true
                                                                        false false true true false)
                                                                        (String.String
                                                                        (Ascii.Ascii false false
                                                                        false false false true false
                                                                        false)
                                                                        (String.String
                                                                        (Ascii.Ascii false true true
                                                                        false false true false false)
                                                                        (String.String
                                                                        (Ascii.Ascii false true true
                                                                        false false true false false)
                                                                        (String.String
                                                                        (Ascii.Ascii false false
                                                                        false false false true false
                                                                        false)
                                                                        (String.String
                                                                        (Ascii.Ascii false true true
                                                                        true false true true false)
                                                                        (String.String
                                                                        (Ascii.Ascii true true false
                                                                        false false true true false)
                                                                        (String.String
                                                                        (Ascii.Ascii false false
                                                                        false false true true true
                                                                        false)
                                                                        (String.String
                                                                        (Ascii.Ascii true false true
                                                                        true false true false false)
                                                                        (String.String
                                                                        (Ascii.Ascii false true true
                                                                        true true true false false)
                                                                        (String.String
                                                                        (Ascii.Ascii false true true
                                                                        true false true true false)
                                                                        (String.String
                                                                        (Ascii.Ascii false false
                                                                        false false true true true
                                                                        false)
                                                                        (String.String
                                                                        (Ascii.Ascii false true false
                                                                        false true true true false)
                                                                        (String.String
                                                                        (Ascii.Ascii true true true
                                                                        true false true true false)
                                                                        (String.String
                                                                        (Ascii.Ascii true true false
                                                                        false false true true false)
                                                                        (String.String
                                                                        (Ascii.Ascii true true false
                                                                        false true true true false)
                                                                        (String.String
                                                                        (Ascii.Ascii false false
                                                                        false false false true false
                                                                        false)
                                                                        (String.String
                                                                        (Ascii.Ascii false true true
                                                                        true true true false false)
                                                                        (String.String
                                                                        (Ascii.Ascii false false
                                                                        false false false true false
                                                                        false)
                                                                        (String.String
                                                                        (Ascii.Ascii true false false
                                                                        false true true false false)
                                                                        (String.String
                                                                        (Ascii.Ascii true false false
                                                                        true false true false false)
                                                                        String.EmptyString))))))))))))))))))))))))))))))))))))))))))))))))))))))))))))))))))))))))))))))))))))))))))))))))))
         :: nil.
Proof. exact @gen_begins_excluded. Qed.
Print Assumptions C03_gen_begins_excluded.

Theorem C03_gen_begins_redef_fixed_partial :
  forall (n0 : c_NC) (xsz : Z) (ovs : vlist) (obv obr OB : Z) (vars : list c_NC_var) 
           (ev : Z) (lastv : c_ref),
         NC__old n0 = Some (c_old ovs obv obr) ->
         (Base.Zlen ovs <= 2147483647)%Z ->
         NC_vararray__ndefined (NC__vars n0) = Base.Zlen vars ->
         (Base.Zlen vars <= 2147483647)%Z ->
         Forall cv_wf vars ->
         Forall (fun v : c_NC_var => (0 <= NC_var__len v)%Z) vars ->
         (0 <= ev)%Z ->
         (ev + lens4 vars <= MAXOFF)%Z ->
         (OB + lens4 vars <= MAXOFF)%Z ->
         Forall (fun p : bool * Z => (snd p <= OB)%Z) ovs ->
         let s0 := mkS (with_vals n0 vars) ev None 0 0 lastv in
         exists s' : st_NC_begins,
           c_loop (NC_begins_loop1_fuel n0 xsz s0) (NC_begins_loop1_cdef n0 xsz)
             (NC_begins_loop1_cond n0 xsz) (NC_begins_loop1_body n0 xsz) 
             (NC_begins_loop1_inc n0 xsz) s0 =
           match Header.begins_fixed (NC__format n0) (map pair_of vars) (ofix ovs) ev nil with
           | Some _ => CNorm s'
           | None => CRetS Gen_consts.NC_EVARSIZE s'
           end /\
           (forall (ef : Z) (fb : list (option Z)),
            Header.begins_fixed (NC__format n0) (map pair_of vars) (ofix ovs) ev nil = Some (ef, fb) ->
            NC_begins__end_var s' = ef /\ map fixed_begin (arr_of s') = fb).
Proof. exact @gen_begins_redef_fixed_partial. Qed.
Print Assumptions C03_gen_begins_redef_fixed_partial.

Theorem C03_gen_begins_redef_rec_partial :
  forall (n0 : c_NC) (xsz : Z) (ovs : vlist) (obv obr : Z) (vars : list c_NC_var) 
           (ev : Z) (fv lastv : c_ref),
         NC__old n0 = Some (c_old ovs obv obr) ->
         (Base.Zlen ovs <= 2147483647)%Z ->
         NC_vararray__ndefined (NC__vars n0) = Base.Zlen vars ->
         (Base.Zlen vars <= 2147483647)%Z ->
         Forall cv_wf vars ->
         Forall (fun v : c_NC_var => (0 <= NC_var__len v)%Z) vars ->
         (0 <= ev)%Z ->
         (ev + lens4 vars <= MAXOFF)%Z ->
         let s0 := mkS (with_vals_rs n0 vars 0) ev fv 0 0 lastv in
         exists s' : st_NC_begins,
           c_loop (NC_begins_loop3_fuel n0 xsz s0) (NC_begins_loop3_cdef n0 xsz)
             (NC_begins_loop3_cond n0 xsz) (NC_begins_loop3_body n0 xsz) 
             (NC_begins_loop3_inc n0 xsz) s0 =
           match Header.begins_rec (NC__format n0) (map pair_of vars) (orec ovs) ev 0 None nil with
           | Some _ => CNorm s'
           | None => CRetS Gen_consts.NC_EVARSIZE s'
           end /\
           (forall (er rs : Z) (ll : option Z) (rb : list (option Z)),
            Header.begins_rec (NC__format n0) (map pair_of vars) (orec ovs) ev 0 None nil =
            Some (er, rs, ll, rb) ->
            NC_begins__end_var s' = er /\
            NC__recsize (NC_begins__P_ncp s') = rs /\
            map rec_begin (arr_of s') = rb /\ last_rec_len None (arr_of s') = ll).
Proof. exact @gen_begins_redef_rec_partial. Qed.
Print Assumptions C03_gen_begins_redef_rec_partial.

(* enddef after redef: the two loops of the generated NC_begins with the cursor over the old variables against Header.begins_fixed / begins_rec, and the whole function on concrete redefinitions (see C06) *)
Theorem C03_gen_begins_redef_runs :
  begins_agree_redef
           {|
             Header.h_format := 2;
             Header.h_numrecs := 3;
             Header.h_dims := exb_dims;
             Header.h_gatts := nil;
             Header.h_vars :=
               exb_var 97 (1%Z :: 2%Z :: nil) 3
               :: exb_var 98 (0%Z :: 1%Z :: nil) 5
                  :: exb_var 99 (2%Z :: nil) 1 :: exb_var 100 (0%Z :: 2%Z :: nil) 6 :: nil
           |} 0 0 4 4 (Header.l_begin_rec (exr_lay 0 0 512 4)) (exr_lay 0 0 512 4)
           (false :: true :: nil) = true /\
         begins_agree_redef
           {|
             Header.h_format := 2;
             Header.h_numrecs := 3;
             Header.h_dims := exb_dims;
             Header.h_gatts := nil;
             Header.h_vars :=
               exb_var 97 (1%Z :: 2%Z :: nil) 3
               :: exb_var 98 (0%Z :: 1%Z :: nil) 5 :: exb_var 99 (2%Z :: nil) 1 :: nil
           |} 0 0 1024 8 (Header.l_begin_rec (exr_lay 0 0 4 4)) (exr_lay 0 0 4 4)
           (false :: true :: nil) = true /\
         begins_agree_redef
           {|
             Header.h_format := 2;
             Header.h_numrecs := 3;
             Header.h_dims := exb_dims;
             Header.h_gatts := nil;
             Header.h_vars :=
               exb_var 97 (1%Z :: 2%Z :: nil) 3 :: exb_var 98 (0%Z :: 1%Z :: nil) 5 :: nil
           |} 2000 64 4 4 (Header.l_begin_rec (exr_lay 0 0 4 4)) (exr_lay 0 0 4 4)
           (false :: true :: nil) = true /\
         begins_agree_redef
           {|
             Header.h_format := 2;
             Header.h_numrecs := 3;
             Header.h_dims := exb_dims;
             Header.h_gatts := nil;
             Header.h_vars :=
               exb_var 96 (0%Z :: 2%Z :: nil) 4
               :: exb_var 97 (1%Z :: 2%Z :: nil) 3 :: exb_var 98 (0%Z :: 1%Z :: nil) 5 :: nil
           |} 0 0 4 4 (Header.l_begin_rec (exr_lay 0 100 512 4)) (exr_lay 0 100 512 4)
           (false :: true :: nil) = true /\
         begins_agree_redef
           {|
             Header.h_format := 2;
             Header.h_numrecs := 3;
             Header.h_dims := exb_dims;
             Header.h_gatts := nil;
             Header.h_vars :=
               exb_var 97 (1%Z :: 2%Z :: nil) 3 :: exb_var 98 (0%Z :: 1%Z :: nil) 5 :: nil
           |} 0 0 4 4 0 (exr_lay 0 100 512 4) (false :: true :: nil) = true.
Proof. exact @gen_begins_redef_runs. Qed.
Print Assumptions C03_gen_begins_redef_runs.

(* the general theorem for the redefinition case (see C06) *)
Theorem C03_gen_begins_eq_redef :
  forall (h : Header.hdr) (hm vm ha ra pbr flags sm np OB : Z) (ol : Header.layout)
           (recs : list bool),
         Header.h_vars h <> nil ->
         (z2b sm && (np >? 1)%Z)%bool = false ->
         begins_guards_redef h hm vm ha ra pbr OB ol recs ->
         exists (rc : Z) (s' : st_NC_begins),
           NC_begins_c (c_view_nc_redef2 h hm vm ha ra pbr flags sm np ol recs) (Header.hdr_len h) =
           FValS rc s' /\
           match Header.begins h hm vm ha ra (Some (ol, recs)) pbr with
           | Some lay =>
               rc = Gen_consts.NC_NOERR /\
               layout_of_state s' = lay /\
               NC__numrecs (NC_begins__P_ncp s') =
               (if z2b (Z.land flags 32768) then 0%Z else Header.h_numrecs h)
           | None => rc = Gen_consts.NC_EVARSIZE
           end.
Proof. exact @gen_begins_eq_redef. Qed.
Print Assumptions C03_gen_begins_eq_redef.
