(* Properties_C03.v — statements only: each property theorem is stated in full and closed by
   `exact <lemma>`; the lemmas live in the Proofs_*.v files.  Assembled by tools/mkprops.py. *)
(* C03 Files written conform to CDF-1/2/5: for EVERY well-formed header (any number of dims, attributes, *)
(* variables; the three formats) and ANY trailing bytes the decoder written from the format grammar *)
(* recovers exactly the content the encoder was given; the encoder output is strictly valid (zero *)
(* padding, vsize rule); the header length function equals the encoded length and is a multiple of 4. *)
From Coq Require Import ZArith List.
From Pnc Require Import Proofs_Header.
From Pnc Require Import Proofs_Layout.
Set Printing Width 100.
Set Printing Depth 100000.

Theorem C03_decode_encode_full :
  forall (h : Header.hdr) (rest : list Base.byte),
         wf_hdr h = true -> HeaderSpec.decode (Header.encode_header h ++ rest) = Some (decoded_of h).
Proof. exact @decode_encode_full. Qed.
Print Assumptions C03_decode_encode_full.

Theorem C03_decode_encode :
  forall (h : Header.hdr) (rest : list Base.byte),
         wf_hdr h = true ->
         exists d : HeaderSpec.decoded,
           HeaderSpec.decode (Header.encode_header h ++ rest) = Some d /\
           HeaderSpec.dc_hdr d = hdr_content h /\
           HeaderSpec.dc_len d = Base.Zlen (Header.encode_header h).
Proof. exact @decode_encode. Qed.
Print Assumptions C03_decode_encode.

Theorem C03_encode_strict_valid :
  forall (h : Header.hdr) (rest : list Base.byte) (d : HeaderSpec.decoded),
         wf_hdr h = true ->
         dimids_ok h = true ->
         unlim_ok h = true ->
         vsize_ok h = true ->
         HeaderSpec.decode (Header.encode_header h ++ rest) = Some d ->
         HeaderSpec.strict_valid d = true.
Proof. exact @encode_strict_valid. Qed.
Print Assumptions C03_encode_strict_valid.

Theorem C03_hdr_len_encode :
  forall h : Header.hdr,
         wf_hdr h = true -> Header.hdr_len h = Base.Zlen (Header.encode_header h).
Proof. exact @hdr_len_encode. Qed.
Print Assumptions C03_hdr_len_encode.

Theorem C03_hdr_len_mod4 :
  forall h : Header.hdr, (Header.hdr_len h mod 4)%Z = 0%Z.
Proof. exact @hdr_len_mod4_all. Qed.
Print Assumptions C03_hdr_len_mod4.

Theorem C03_encode_header_bytes :
  forall h : Header.hdr,
         bytes_ok h = true -> Forall (fun b : Z => Base.is_byte b = true) (Header.encode_header h).
Proof. exact @encode_header_bytes. Qed.
Print Assumptions C03_encode_header_bytes.

Theorem C03_resolve_align_ok :
  forall (cfg : Header.aligncfg) (ea : Header.enddef_args) (nfix : Z) 
           (is_new : bool) (ha va ra : Z),
         (0 <= Header.env_h_align cfg)%Z ->
         (0 <= Header.env_v_align cfg)%Z ->
         (0 <= Header.env_r_align cfg)%Z ->
         (0 <= Header.e_v_align ea)%Z ->
         (0 <= Header.e_r_align ea)%Z ->
         Header.resolve_align cfg ea nfix is_new = (ha, va, ra) ->
         ((4 <= ha)%Z /\ (ha mod 4)%Z = 0%Z) /\
         ((4 <= va)%Z /\ (va mod 4)%Z = 0%Z) /\ (4 <= ra)%Z /\ (ra mod 4)%Z = 0%Z.
Proof. exact @resolve_align_ok. Qed.
Print Assumptions C03_resolve_align_ok.

Theorem C03_begins_layout_ok :
  forall (h : Header.hdr) (hm vm ha ra : Z) (lay : Header.layout),
         hdr_wf h ->
         (0 <= hm)%Z ->
         (0 <= vm)%Z ->
         (4 <= ha)%Z ->
         (ha mod 4)%Z = 0%Z ->
         (4 <= ra)%Z ->
         (ra mod 4)%Z = 0%Z ->
         Header.begins h hm vm ha ra None 0 = Some lay ->
         let h' := Header.set_begins h (Header.l_begins lay) in
         let bv1 := bv1_new h hm ha in
         lay_inv (t3of h) lay /\
         HeaderSpec.layout_ok h' (Header.l_xsz lay) = true /\
         Header.l_xsz lay = Header.hdr_len h /\
         Base.Zlen (Header.l_begins lay) = Base.Zlen (Header.h_vars h) /\
         (Header.hdr_len h <= bv1)%Z /\
         (Header.h_vars h <> nil -> (Header.hdr_len h + hm <= bv1)%Z /\ (bv1 mod ha)%Z = 0%Z) /\
         (bv1 <= Header.l_begin_var lay)%Z /\
         match fixed_pairs h' with
         | nil => Header.l_begin_var lay = Header.l_begin_rec lay
         | (b, _) :: _ =>
             Header.l_begin_var lay = b /\ b = bv1 /\ (Header.l_begin_var lay mod ha)%Z = 0%Z
         end /\
         HeaderSpec.begins_increasing bv1 (fixed_pairs h') = true /\
         (last_end bv1 (fixed_pairs h') + vm <= Header.l_begin_rec lay)%Z /\
         Header.l_begin_rec lay =
         Base.rndup (Base.rndup (Z.max 0 (last_end bv1 (fixed_pairs h') + vm)) 4) ra /\
         (Header.l_begin_rec lay mod 4)%Z = 0%Z /\
         (Header.l_begin_rec lay mod ra)%Z = 0%Z /\
         contig (Header.l_begin_rec lay) (rec_pairs h') /\ Header.l_recsize lay = recsize_of h.
Proof. exact @begins_layout_ok. Qed.
Print Assumptions C03_begins_layout_ok.

Theorem C03_begins_layout_ok_redef :
  forall (oh h : Header.hdr) (ol lay : Header.layout) (hm vm ha ra : Z),
         hdr_wf h ->
         (0 <= hm)%Z ->
         (0 <= vm)%Z ->
         (0 < ha)%Z ->
         (4 <= ra)%Z ->
         (ra mod 4)%Z = 0%Z ->
         lay_inv (t3of oh) ol ->
         hdr_extends oh h ->
         Header.begins h hm vm ha ra (redef_old oh ol) (Header.l_begin_rec ol) = Some lay ->
         HeaderSpec.layout_ok (Header.set_begins h (Header.l_begins lay)) (Header.l_xsz lay) = true /\
         Header.l_xsz lay = Header.hdr_len h /\
         Base.Zlen (Header.l_begins lay) = Base.Zlen (Header.h_vars h) /\
         Header.l_recsize lay = recsize_of h.
Proof. exact @begins_layout_ok_redef. Qed.
Print Assumptions C03_begins_layout_ok_redef.

Theorem C03_begins_monotone :
  forall (oh h : Header.hdr) (ol lay : Header.layout) (hm vm ha ra : Z),
         hdr_wf h ->
         (0 <= hm)%Z ->
         (0 <= vm)%Z ->
         (0 < ha)%Z ->
         (4 <= ra)%Z ->
         (ra mod 4)%Z = 0%Z ->
         lay_inv (t3of oh) ol ->
         hdr_extends oh h ->
         Header.begins h hm vm ha ra (redef_old oh ol) (Header.l_begin_rec ol) = Some lay ->
         (forall i : Z,
          (0 <= i < Base.Zlen (Header.h_vars oh))%Z ->
          (Base.znth (Header.l_begins ol) i 0 <= Base.znth (Header.l_begins lay) i 0)%Z) /\
         (Header.l_begin_var ol <= Header.l_begin_var lay)%Z /\
         (Header.l_begin_rec ol <= Header.l_begin_rec lay)%Z /\
         (Header.l_recsize ol <= Header.l_recsize lay)%Z /\ (0 <= Header.l_recsize ol)%Z.
Proof. exact @begins_monotone. Qed.
Print Assumptions C03_begins_monotone.

Theorem C03_reachable_layout_ok :
  forall (h : Header.hdr) (lay : Header.layout),
         hdr_wf h ->
         reachable (t3of h) lay ->
         HeaderSpec.layout_ok (Header.set_begins h (Header.l_begins lay)) (Header.l_xsz lay) = true.
Proof. exact @reachable_layout_ok. Qed.
Print Assumptions C03_reachable_layout_ok.

Theorem C03_layout_of_hdr_agrees :
  forall (h : Header.hdr) (lay : Header.layout),
         hdr_wf h ->
         lay_inv (t3of h) lay ->
         map Header.v_begin (Header.h_vars h) = Header.l_begins lay ->
         Header.h_vars h <> nil ->
         (forall v : Header.var, In v (rec_vars h) -> (0 < Header.var_len (Header.h_dims h) v)%Z) ->
         let br' :=
           match rec_vars h with
           | nil => last_end (Header.l_begin_var lay) (fixed_pairs h)
           | _ :: _ => Header.l_begin_rec lay
           end in
         HeaderSpec.layout_of_hdr h (Header.l_xsz lay) =
         {|
           Header.l_xsz := Header.l_xsz lay;
           Header.l_begin_var := Header.l_begin_var lay;
           Header.l_begin_rec := br';
           Header.l_recsize := Header.l_recsize lay;
           Header.l_begins := Header.l_begins lay
         |} /\ lay_inv (t3of h) (HeaderSpec.layout_of_hdr h (Header.l_xsz lay)).
Proof. exact @layout_of_hdr_agrees. Qed.
Print Assumptions C03_layout_of_hdr_agrees.

Theorem C03_recsize_single :
  forall (h : Header.hdr) (v : Header.var),
         rec_vars h = v :: nil -> recsize_of h = unpadded (Header.h_dims h) v.
Proof. exact @recsize_single. Qed.
Print Assumptions C03_recsize_single.

Theorem C03_begin_var_minfree_refuted_without_variables :
  ~ begin_var_minfree_full.
Proof. exact @begin_var_minfree_refuted. Qed.
Print Assumptions C03_begin_var_minfree_refuted_without_variables.
