(* Properties_C03.v — statements only: each property theorem is stated in full and closed by
   `exact <lemma>`; the lemmas live in the Proofs_*.v files.  Assembled by tools/mkprops.py. *)
(* C03 Files written conform to CDF-1/2/5: for EVERY well-formed header (any number of dims, attributes, *)
(* variables; the three formats) and ANY trailing bytes the decoder written from the format grammar *)
(* recovers exactly the content the encoder was given; the encoder output is strictly valid (zero *)
(* padding, vsize rule); the header length function equals the encoded length and is a multiple of 4. *)
From Pnc Require Import Proofs_Header.
Set Printing Width 100.

Theorem C03_decode_encode_full :
  forall (h : Header.hdr) (rest : list Base.byte),
         wf_hdr h = true -> HeaderSpec.decode (Header.encode_header h ++ rest) = Some (decoded_of h).
Proof. exact @decode_encode_full. Qed.
Print Assumptions C03_decode_encode_full.

Theorem C03_decode_encode :
  forall (h : Header.hdr) (rest : list Base.byte),
         wf_hdr h = true ->
         exists d : HeaderSpec.decoded,
           HeaderSpec.decode (Header.encode_header h ++ rest) = Some d /\
           HeaderSpec.dc_hdr d = hdr_content h /\
           HeaderSpec.dc_len d = Base.Zlen (Header.encode_header h).
Proof. exact @decode_encode. Qed.
Print Assumptions C03_decode_encode.

Theorem C03_encode_strict_valid :
  forall (h : Header.hdr) (rest : list Base.byte) (d : HeaderSpec.decoded),
         wf_hdr h = true ->
         dimids_ok h = true ->
         unlim_ok h = true ->
         vsize_ok h = true ->
         HeaderSpec.decode (Header.encode_header h ++ rest) = Some d ->
         HeaderSpec.strict_valid d = true.
Proof. exact @encode_strict_valid. Qed.
Print Assumptions C03_encode_strict_valid.

Theorem C03_hdr_len_encode :
  forall h : Header.hdr,
         wf_hdr h = true -> Header.hdr_len h = Base.Zlen (Header.encode_header h).
Proof. exact @hdr_len_encode. Qed.
Print Assumptions C03_hdr_len_encode.

Theorem C03_hdr_len_mod4 :
  forall h : Header.hdr,
         BinInt.Z.modulo (Header.hdr_len h) (BinNums.Zpos (BinNums.xO (BinNums.xO BinNums.xH))) =
         BinNums.Z0.
Proof. exact @hdr_len_mod4_all. Qed.
Print Assumptions C03_hdr_len_mod4.

Theorem C03_encode_header_bytes :
  forall h : Header.hdr,
         bytes_ok h = true ->
         List.Forall (fun b : BinNums.Z => Base.is_byte b = true) (Header.encode_header h).
Proof. exact @encode_header_bytes. Qed.
Print Assumptions C03_encode_header_bytes.
