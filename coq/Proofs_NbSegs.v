(* Proofs_NbSegs.v — the request aggregation of the nonblocking wait (Nonblocking.v sections 5, 6)
   moves exactly the bytes of the specification (section 8 / NbSpec.v).
   No axioms.  Two geometric facts (proved in Proofs_NbGeom.v) are Section hypotheses of part 8 ff.

   Contents
     1  dk_write_commute                      writes to disjoint ranges commute
     2  disjoint_writes_commute               ... for any permutation of pairwise disjoint tiles
     3  write_pairs_get/_perm/_app, read_pairs_get/_perm/_app
     4  mpi_write_pairs, mpi_read_pairs       one MPI_File_write/read = the byte pairs of the two type maps
     5  coalesce_bytes, coalesce_list_bytes, construct_filetypes_bytes (+ nonneg, zsum)
     6  merge_segs_disjoint (+ positivity, separation)
     7  partition_groups_concat
     8  groups_stream_correct, mgetput_stream_correct (+ _read)
     9  commit_stream_correct   10 commit_stream_correct_read
     11 isort_sorter_ok, merge_requests_view_monotone *)
From Pnc Require Import NbSpec Proofs_Disk Proofs_Lists.
Require Import Lia ZArith List Bool ZifyBool.
Import ListNotations.
Local Open Scope Z_scope.
Local Arguments Z.mul : simpl never.
Local Arguments Z.add : simpl never.
Local Arguments Z.sub : simpl never.
Local Arguments Z.of_nat : simpl never.
Local Arguments Z.to_nat : simpl never.

(* ====================================================================== *)
(* 0. disk_eq, small list facts                                            *)
(* ====================================================================== *)
Lemma disk_eq_refl : forall d, disk_eq d d.
Proof. intros d x. reflexivity. Qed.

Lemma disk_eq_sym : forall a b, disk_eq a b -> disk_eq b a.
Proof. intros a b H x. symmetry. apply H. Qed.

Lemma disk_eq_trans : forall a b c, disk_eq a b -> disk_eq b c -> disk_eq a c.
Proof. intros a b c H1 H2 x. rewrite H1. apply H2. Qed.

Lemma dk_write_cong : forall a b o bs, disk_eq a b -> disk_eq (dk_write a o bs) (dk_write b o bs).
Proof.
  intros a b o bs H x. rewrite !dk_get_write.
  destruct ((o <=? x) && (x <? o + Zlen bs)); [reflexivity | apply H].
Qed.

Lemma dk_get_write1 : forall d o v x, dk_get (dk_write d o [v]) x = if o =? x then v else dk_get d x.
Proof.
  intros d o v x. rewrite dk_get_write. change (Zlen [v]) with 1.
  destruct (Z.eqb_spec o x) as [E|E].
  - subst x. replace ((o <=? o) && (o <? o + 1)) with true by lia.
    replace (o - o) with 0 by lia. reflexivity.
  - replace ((o <=? x) && (x <? o + 1)) with false by lia. reflexivity.
Qed.

Lemma NoDup_app_inv : forall A (a b : list A), NoDup (a ++ b) ->
  NoDup a /\ NoDup b /\ (forall x, In x a -> ~ In x b).
Proof.
  intros A a. induction a as [|x a IH]; intros b H.
  - cbn [app] in H. split; [constructor|]. split; [exact H|]. intros y [].
  - cbn [app] in H. apply NoDup_cons_iff in H. destruct H as [Hx H].
    destruct (IH b H) as (Ha & Hb & Hd).
    split.
    + constructor; [|exact Ha]. intros Hin. apply Hx. apply in_or_app. now left.
    + split; [exact Hb|]. intros y [Hy|Hy] Hyb.
      * subst y. apply Hx. apply in_or_app. now right.
      * exact (Hd y Hy Hyb).
Qed.

Lemma perm_flat_map : forall A B (f : A -> list B) l l',
  Permutation l l' -> Permutation (flat_map f l) (flat_map f l').
Proof.
  intros A B f l l' H.
  induction H as [|a l l' HP IH|a b l|l l' l'' HP1 IH1 HP2 IH2]; cbn [flat_map].
  - apply perm_nil.
  - apply Permutation_app_head. exact IH.
  - rewrite !app_assoc. apply Permutation_app_tail. apply Permutation_app_comm.
  - eapply perm_trans; eassumption.
Qed.

Lemma perm_Forall : forall A (P : A -> Prop) l l', Permutation l l' -> Forall P l -> Forall P l'.
Proof.
  intros A P l l' HP HF. rewrite Forall_forall in *. intros x Hx. apply HF.
  eapply Permutation_in; [apply Permutation_sym; exact HP | exact Hx].
Qed.

Lemma zip_flat_map : forall A B C (f : A -> list B) (g : A -> list C) l,
  (forall a, In a l -> length (f a) = length (g a)) ->
  zip (flat_map f l) (flat_map g l) = flat_map (fun a => zip (f a) (g a)) l.
Proof.
  intros A B C f g l. induction l as [|a l IH]; intros H; cbn [flat_map]; [reflexivity|].
  rewrite zip_app by (apply H; now left). rewrite IH; [reflexivity|].
  intros b Hb. apply H. now right.
Qed.

Lemma length_flat_map_eq : forall A B C (f : A -> list B) (g : A -> list C) l,
  (forall a, In a l -> length (f a) = length (g a)) ->
  length (flat_map f l) = length (flat_map g l).
Proof.
  intros A B C f g l. induction l as [|a l IH]; intros H; cbn [flat_map]; [reflexivity|].
  rewrite !app_length. rewrite (H a) by (now left). rewrite IH; [reflexivity|].
  intros b Hb. apply H. now right.
Qed.

Lemma zfirstn_zskipn : forall A n (l : list A), zfirstn n l ++ zskipn n l = l.
Proof.
  intros A n l. revert n. induction l as [|x l IH]; intros n; cbn [zfirstn zskipn].
  - reflexivity.
  - destruct (n <=? 0); [reflexivity|]. cbn [app]. now rewrite IH.
Qed.

Lemma Zlen_zfirstn_le : forall A n (l : list A), 0 <= n <= Zlen l -> Zlen (zfirstn n l) = n.
Proof.
  intros A n l. revert n. induction l as [|x l IH]; intros n Hn.
  - rewrite Proofs_Disk.Zlen_nil in Hn. cbn [zfirstn]. rewrite Proofs_Disk.Zlen_nil. lia.
  - rewrite Proofs_Disk.Zlen_cons in Hn. cbn [zfirstn].
    destruct (Z.leb_spec n 0) as [E|E].
    + rewrite Proofs_Disk.Zlen_nil. lia.
    + rewrite Proofs_Disk.Zlen_cons, IH by lia. lia.
Qed.

Lemma zrange_Zlen_cons : forall A o (b : A) bs,
  zrange o (Zlen (b :: bs)) = o :: zrange (o + 1) (Zlen bs).
Proof.
  intros A o b bs. unfold zrange, Zlen. cbn [length]. rewrite !Nat2Z.id. reflexivity.
Qed.

(* ====================================================================== *)
(* 1. two writes to disjoint ranges commute                                *)
(* ====================================================================== *)
Theorem dk_write_commute : forall d o1 b1 o2 b2,
  (o1 + Zlen b1 <= o2 \/ o2 + Zlen b2 <= o1) ->
  disk_eq (dk_write (dk_write d o1 b1) o2 b2) (dk_write (dk_write d o2 b2) o1 b1).
Proof.
  intros d o1 b1 o2 b2 H x. rewrite !dk_get_write.
  destruct ((o2 <=? x) && (x <? o2 + Zlen b2)) eqn:E2;
    destruct ((o1 <=? x) && (x <? o1 + Zlen b1)) eqn:E1; try reflexivity.
  exfalso. lia.
Qed.

(* ====================================================================== *)
(* 2. any permutation of pairwise disjoint writes gives the same disk      *)
(* ====================================================================== *)
Definition tiles_disjoint (l : list (Z * list byte)) : Prop :=
  ForallOrdPairs (fun p q => fst p + Zlen (snd p) <= fst q \/ fst q + Zlen (snd q) <= fst p) l.

Lemma covered_dec : forall (l : list (Z * list byte)) x,
  (exists p, In p l /\ covers p x) \/ (forall p, In p l -> ~ covers p x).
Proof.
  intros l x. induction l as [|q l IH].
  - right. intros p [].
  - destruct IH as [[p [Hp Hc]]|Hn].
    + left. exists p. split; [now right | exact Hc].
    + destruct (Z_le_dec (fst q) x) as [H1|H1].
      * destruct (Z_lt_dec x (fst q + Zlen (snd q))) as [H2|H2].
        -- left. exists q. split; [now left | unfold covers; lia].
        -- right. intros p [Hp|Hp]; [subst p; unfold covers; lia | now apply Hn].
      * right. intros p [Hp|Hp]; [subst p; unfold covers; lia | now apply Hn].
Qed.

Theorem disjoint_writes_commute : forall tiles tiles' d,
  Permutation tiles tiles' -> tiles_disjoint tiles ->
  disk_eq (write_tiles tiles d) (write_tiles tiles' d).
Proof.
  intros tiles tiles' d HP HD x.
  destruct (covered_dec tiles x) as [[p [Hp Hc]]|Hn].
  - assert (Huniq : forall q, In q tiles -> covers q x -> q = p).
    { intros q Hq Hcq.
      destruct (@ForallOrdPairs_In _ _ _ HD q p Hq Hp) as [E|[E|E]]; [exact E| |];
        unfold covers in Hc, Hcq; exfalso; lia. }
    rewrite (write_tiles_get_in tiles d x (znth (snd p) (x - fst p) 0)).
    + symmetry. apply write_tiles_get_in.
      * exists p. split; [eapply Permutation_in; eassumption | exact Hc].
      * intros q Hq Hcq. rewrite (Huniq q); [reflexivity | | exact Hcq].
        eapply Permutation_in; [apply Permutation_sym; eassumption | exact Hq].
    + exists p. split; assumption.
    + intros q Hq Hcq. now rewrite (Huniq q Hq Hcq).
  - rewrite !write_tiles_get_out; [reflexivity | | exact Hn].
    intros p Hp. apply Hn. eapply Permutation_in; [apply Permutation_sym; eassumption | exact Hp].
Qed.

Example disjoint_writes_commute_ex :
  let t := [(10, [1; 2; 3]); (0, [4; 5]); (13, [6]); (5, [7; 8; 9])] in
  tiles_disjoint t /\ Permutation t (rev t) /\
  map (dk_get (write_tiles (rev t) empty_disk)) (zrange 0 15) = [4; 5; -1; -1; -1; 7; 8; 9; -1; -1; 1; 2; 3; 6; -1].
Proof.
  cbv zeta. split; [|split].
  - unfold tiles_disjoint.
    repeat (apply FOP_cons;
            [repeat (apply Forall_cons; [cbn [fst snd]; unfold Zlen; cbn [length]; lia|]); apply Forall_nil|]).
    apply FOP_nil.
  - apply Permutation_rev.
  - vm_compute. reflexivity.
Qed.

(* ====================================================================== *)
(* 3. write_pairs / read_pairs: lookup, permutation, append                *)
(* ====================================================================== *)
(* common shape of write_pairs and read_pairs: single-byte writes at key kf p of value vf p *)
Definition upd_pairs (kf : Z * Z -> Z) (vf : Z * Z -> byte) (d : disk) (ps : list (Z * Z)) : disk :=
  fold_left (fun f p => dk_write f (kf p) [vf p]) ps d.

Lemma write_pairs_upd : forall file mem ps,
  write_pairs file mem ps = upd_pairs fst (fun p => dk_get mem (snd p)) file ps.
Proof. reflexivity. Qed.

Lemma read_pairs_upd : forall file mem ps,
  read_pairs file mem ps = upd_pairs snd (fun p => dk_get file (fst p)) mem ps.
Proof. reflexivity. Qed.

Lemma upd_pairs_cons : forall kf vf d p ps,
  upd_pairs kf vf d (p :: ps) = upd_pairs kf vf (dk_write d (kf p) [vf p]) ps.
Proof. reflexivity. Qed.

Lemma upd_pairs_app : forall kf vf d a b,
  upd_pairs kf vf d (a ++ b) = upd_pairs kf vf (upd_pairs kf vf d a) b.
Proof. intros. unfold upd_pairs. apply fold_left_app. Qed.

Lemma upd_pairs_cong : forall kf vf ps d d',
  disk_eq d d' -> disk_eq (upd_pairs kf vf d ps) (upd_pairs kf vf d' ps).
Proof.
  intros kf vf ps. induction ps as [|p ps IH]; intros d d' H.
  - exact H.
  - rewrite !upd_pairs_cons. apply IH. apply dk_write_cong. exact H.
Qed.

Lemma find_key_none : forall (kf : Z * Z -> Z) ps x,
  ~ In x (map kf ps) -> find (fun p => kf p =? x) ps = None.
Proof.
  intros kf ps x. induction ps as [|a ps IH]; cbn [map In find]; intros H; [reflexivity|].
  destruct (Z.eqb_spec (kf a) x) as [E|E]; [exfalso; apply H; now left|].
  apply IH. intros H'. apply H. now right.
Qed.

Lemma upd_pairs_get : forall kf vf ps d x, NoDup (map kf ps) ->
  dk_get (upd_pairs kf vf d ps) x =
  match find (fun p => kf p =? x) ps with Some p => vf p | None => dk_get d x end.
Proof.
  intros kf vf ps. induction ps as [|p ps IH]; intros d x Hnd.
  - reflexivity.
  - cbn [map] in Hnd. apply NoDup_cons_iff in Hnd. destruct Hnd as [Hnotin Hnd].
    rewrite upd_pairs_cons, IH by exact Hnd. cbn [find].
    destruct (Z.eqb_spec (kf p) x) as [E|E].
    + subst x. rewrite find_key_none by exact Hnotin.
      rewrite dk_get_write1, Z.eqb_refl. reflexivity.
    + destruct (find (fun p0 => kf p0 =? x) ps) as [q|]; [reflexivity|].
      rewrite dk_get_write1. destruct (Z.eqb_spec (kf p) x) as [E'|E']; [contradiction | reflexivity].
Qed.

Lemma find_key_perm : forall (kf : Z * Z -> Z) x ps ps',
  Permutation ps ps' -> NoDup (map kf ps) ->
  find (fun p => kf p =? x) ps = find (fun p => kf p =? x) ps'.
Proof.
  intros kf x ps ps' HP.
  induction HP as [|a l l' HP IH|a b l|l l' l'' HP1 IH1 HP2 IH2]; intros Hnd.
  - reflexivity.
  - cbn [find]. destruct (kf a =? x); [reflexivity|]. apply IH.
    cbn [map] in Hnd. apply NoDup_cons_iff in Hnd. apply Hnd.
  - cbn [find].
    destruct (Z.eqb_spec (kf b) x) as [E1|E1]; destruct (Z.eqb_spec (kf a) x) as [E2|E2];
      try reflexivity.
    exfalso. cbn [map] in Hnd. apply NoDup_cons_iff in Hnd. destruct Hnd as [Hn _].
    apply Hn. left. congruence.
  - rewrite IH1 by exact Hnd. apply IH2.
    eapply Permutation_NoDup; [|exact Hnd]. apply Permutation_map. exact HP1.
Qed.

Lemma upd_pairs_perm : forall kf vf ps ps' d,
  Permutation ps ps' -> NoDup (map kf ps) ->
  disk_eq (upd_pairs kf vf d ps) (upd_pairs kf vf d ps').
Proof.
  intros kf vf ps ps' d HP Hnd x.
  assert (Hnd' : NoDup (map kf ps'))
    by (eapply Permutation_NoDup; [apply Permutation_map; exact HP | exact Hnd]).
  rewrite (upd_pairs_get kf vf ps d x Hnd), (upd_pairs_get kf vf ps' d x Hnd').
  rewrite (find_key_perm kf x ps ps' HP Hnd). reflexivity.
Qed.

Theorem write_pairs_get : forall ps file mem x, NoDup (map fst ps) ->
  dk_get (write_pairs file mem ps) x =
  match find (fun p => fst p =? x) ps with Some p => dk_get mem (snd p) | None => dk_get file x end.
Proof.
  intros ps file mem x H.
  exact (upd_pairs_get fst (fun p => dk_get mem (snd p)) ps file x H).
Qed.

Theorem write_pairs_perm : forall ps ps' file mem, Permutation ps ps' -> NoDup (map fst ps) ->
  disk_eq (write_pairs file mem ps) (write_pairs file mem ps').
Proof.
  intros ps ps' file mem HP H.
  exact (upd_pairs_perm fst (fun p => dk_get mem (snd p)) ps ps' file HP H).
Qed.

Theorem write_pairs_app : forall a b file mem,
  write_pairs file mem (a ++ b) = write_pairs (write_pairs file mem a) mem b.
Proof. intros. unfold write_pairs. apply fold_left_app. Qed.

Theorem read_pairs_get : forall ps file mem x, NoDup (map snd ps) ->
  dk_get (read_pairs file mem ps) x =
  match find (fun p => snd p =? x) ps with Some p => dk_get file (fst p) | None => dk_get mem x end.
Proof.
  intros ps file mem x H.
  exact (upd_pairs_get snd (fun p => dk_get file (fst p)) ps mem x H).
Qed.

Theorem read_pairs_perm : forall ps ps' file mem, Permutation ps ps' -> NoDup (map snd ps) ->
  disk_eq (read_pairs file mem ps) (read_pairs file mem ps').
Proof.
  intros ps ps' file mem HP H.
  exact (upd_pairs_perm snd (fun p => dk_get file (fst p)) ps ps' mem HP H).
Qed.

Theorem read_pairs_app : forall a b file mem,
  read_pairs file mem (a ++ b) = read_pairs file (read_pairs file mem a) b.
Proof. intros. unfold read_pairs. apply fold_left_app. Qed.

Lemma write_pairs_cong : forall ps file file' mem,
  disk_eq file file' -> disk_eq (write_pairs file mem ps) (write_pairs file' mem ps).
Proof. intros ps file file' mem H. exact (upd_pairs_cong _ _ ps file file' H). Qed.

(* ====================================================================== *)
(* 4. the MPI-IO call = the byte pairs of the two type maps                *)
(* ====================================================================== *)
(* single-byte writes of the values vs at the positions ks *)
Definition upd2 (d : disk) (ks : list Z) (vs : list byte) : disk := upd_pairs fst snd d (zip ks vs).

Lemma upd2_cong : forall ks vs d d', disk_eq d d' -> disk_eq (upd2 d ks vs) (upd2 d' ks vs).
Proof. intros. unfold upd2. apply upd_pairs_cong. assumption. Qed.

Lemma upd2_app : forall ks1 ks2 (vs1 vs2 : list byte) d, length ks1 = length vs1 ->
  upd2 d (ks1 ++ ks2) (vs1 ++ vs2) = upd2 (upd2 d ks1 vs1) ks2 vs2.
Proof. intros. unfold upd2. rewrite zip_app by assumption. apply upd_pairs_app. Qed.

Lemma upd2_cons : forall d k ks v vs, upd2 d (k :: ks) (v :: vs) = upd2 (dk_write d k [v]) ks vs.
Proof. reflexivity. Qed.

Lemma dk_write_cons : forall d o b bs,
  disk_eq (dk_write d o (b :: bs)) (dk_write (dk_write d o [b]) (o + 1) bs).
Proof.
  intros d o b bs x. rewrite (dk_get_write d), (dk_get_write (dk_write d o [b])), dk_get_write1.
  rewrite Proofs_Disk.Zlen_cons. pose proof (Proofs_Disk.Zlen_nonneg bs) as Hn.
  destruct (Z.eqb_spec o x) as [E3|E3].
  - subst x. replace ((o <=? o) && (o <? o + (Zlen bs + 1))) with true by lia.
    replace ((o + 1 <=? o) && (o <? o + 1 + Zlen bs)) with false by lia.
    replace (o - o) with 0 by lia. reflexivity.
  - destruct ((o + 1 <=? x) && (x <? o + 1 + Zlen bs)) eqn:E2.
    + replace ((o <=? x) && (x <? o + (Zlen bs + 1))) with true by lia.
      cbn [znth]. destruct (Z.eqb_spec (x - o) 0) as [E4|E4]; [lia|]. f_equal. lia.
    + replace ((o <=? x) && (x <? o + (Zlen bs + 1))) with false by lia. reflexivity.
Qed.

(* one block write = its single-byte writes, in order *)
Lemma dk_write_upd2 : forall bs d o, disk_eq (dk_write d o bs) (upd2 d (zrange o (Zlen bs)) bs).
Proof.
  induction bs as [|b bs IH]; intros d o.
  - intros x. reflexivity.
  - rewrite zrange_Zlen_cons, upd2_cons.
    eapply disk_eq_trans; [apply dk_write_cons | apply IH].
Qed.

Lemma blocks_bytes_cons : forall b r, blocks_bytes (b :: r) = zrange (fst b) (snd b) ++ blocks_bytes r.
Proof. reflexivity. Qed.

Lemma blocks_bytes_single : forall b, blocks_bytes [b] = zrange (fst b) (snd b).
Proof. intros b. rewrite blocks_bytes_cons. apply app_nil_r. Qed.

Lemma blocks_bytes_app : forall a b, blocks_bytes (a ++ b) = blocks_bytes a ++ blocks_bytes b.
Proof. intros. unfold blocks_bytes. apply flat_map_app. Qed.

Lemma Zlen_blocks_bytes : forall b, Forall (fun p => 0 <= snd p) b ->
  Zlen (blocks_bytes b) = zsum (map snd b).
Proof.
  induction b as [|p b IH]; intros H.
  - reflexivity.
  - apply Forall_cons_iff in H. destruct H as [Hp Hb].
    rewrite blocks_bytes_cons, Proofs_Disk.Zlen_app, Zlen_zrange, IH by exact Hb.
    cbn [map zsum]. lia.
Qed.

Lemma write_chunks_upd2 : forall fb d stream,
  Forall (fun b => 0 <= snd b) fb -> zsum (map snd fb) <= Zlen stream ->
  disk_eq (write_chunks d fb stream) (upd2 d (blocks_bytes fb) stream).
Proof.
  induction fb as [|[o l] r IH]; intros d stream Hnn Hlen.
  - intros x. reflexivity.
  - apply Forall_cons_iff in Hnn. destruct Hnn as [Hl Hr]. cbn [snd] in Hl.
    cbn [map zsum snd] in Hlen.
    assert (Hr0 : 0 <= zsum (map snd r)).
    { rewrite <- Zlen_blocks_bytes by exact Hr. apply Proofs_Disk.Zlen_nonneg. }
    cbn [write_chunks]. rewrite blocks_bytes_cons. cbn [fst snd].
    pose proof (zfirstn_zskipn _ l stream) as Hsplit.
    assert (Hl1 : Zlen (zfirstn l stream) = l) by (apply Zlen_zfirstn_le; lia).
    remember (zfirstn l stream) as s1 eqn:Es1. remember (zskipn l stream) as s2 eqn:Es2.
    rewrite <- Hsplit.
    assert (Hl2 : Zlen s2 = Zlen stream - l).
    { rewrite <- Hsplit, Proofs_Disk.Zlen_app. lia. }
    rewrite upd2_app by (rewrite zrange_length; unfold Zlen in Hl1; lia).
    eapply disk_eq_trans; [apply IH; [exact Hr | lia]|].
    apply upd2_cong. rewrite <- Hl1. apply dk_write_upd2.
Qed.

Lemma gather_blocks_bytes : forall d b, gather_blocks d b = map (dk_get d) (blocks_bytes b).
Proof.
  intros d b. unfold gather_blocks, blocks_bytes. rewrite map_flat_map_comm. reflexivity.
Qed.

Lemma fold_zip_map : forall (g : Z -> byte) A B d,
  fold_left (fun f p => dk_write f (fst p) [g (snd p)]) (zip A B) d =
  fold_left (fun f (p : Z * byte) => dk_write f (fst p) [snd p]) (zip A (map g B)) d.
Proof.
  intros g A. induction A as [|a A IH]; intros B d; destruct B as [|b B];
    cbn [zip map fold_left fst snd]; try reflexivity. apply IH.
Qed.

Lemma fold_zip_swap : forall (g : Z -> byte) A B d,
  fold_left (fun m p => dk_write m (snd p) [g (fst p)]) (zip A B) d =
  fold_left (fun f (p : Z * byte) => dk_write f (fst p) [snd p]) (zip B (map g A)) d.
Proof.
  intros g A. induction A as [|a A IH]; intros B d; destruct B as [|b B];
    cbn [zip map fold_left fst snd]; try reflexivity. apply IH.
Qed.

Lemma write_pairs_zip : forall A B file mem,
  write_pairs file mem (zip A B) = upd2 file A (map (dk_get mem) B).
Proof. intros A B file mem. exact (fold_zip_map (dk_get mem) A B file). Qed.

Lemma read_pairs_zip : forall A B file mem,
  read_pairs file mem (zip A B) = upd2 mem B (map (dk_get file) A).
Proof. intros A B file mem. exact (fold_zip_swap (dk_get file) A B mem). Qed.

Theorem mpi_write_pairs : forall file mem t,
  Forall (fun b => 0 <= snd b) (io_f t) -> Forall (fun b => 0 <= snd b) (io_b t) ->
  zsum (map snd (io_f t)) = zsum (map snd (io_b t)) ->
  disk_eq (mpi_write file mem t) (write_pairs file mem (io_pairs t)).
Proof.
  intros file mem t Hf Hb Hs. unfold mpi_write, io_pairs.
  rewrite write_pairs_zip, gather_blocks_bytes.
  apply write_chunks_upd2; [exact Hf|].
  rewrite Proofs_Disk.Zlen_map, Zlen_blocks_bytes by exact Hb. lia.
Qed.

Theorem mpi_read_pairs : forall file mem t,
  Forall (fun b => 0 <= snd b) (io_f t) -> Forall (fun b => 0 <= snd b) (io_b t) ->
  zsum (map snd (io_f t)) = zsum (map snd (io_b t)) ->
  disk_eq (mpi_read file mem t) (read_pairs file mem (io_pairs t)).
Proof.
  intros file mem t Hf Hb Hs. unfold mpi_read, io_pairs.
  rewrite read_pairs_zip, gather_blocks_bytes.
  apply write_chunks_upd2; [exact Hb|].
  rewrite Proofs_Disk.Zlen_map, Zlen_blocks_bytes by exact Hf. lia.
Qed.

(* ====================================================================== *)
(* 5. type-map surgery preserves the bytes                                 *)
(* ====================================================================== *)
Definition nonneg_blocks (b : blocks) : Prop := Forall (fun p => 0 <= snd p) b.

Lemma coalesce_facts : forall rest cur, nonneg_blocks (cur :: rest) ->
  blocks_bytes (coalesce cur rest) = blocks_bytes (cur :: rest) /\
  nonneg_blocks (coalesce cur rest) /\
  zsum (map snd (coalesce cur rest)) = zsum (map snd (cur :: rest)).
Proof.
  unfold nonneg_blocks.
  induction rest as [|[o l] r IH]; intros cur H.
  - cbn [coalesce]. split; [reflexivity|]. split; [exact H | reflexivity].
  - apply Forall_cons_iff in H. destruct H as [Hc H].
    apply Forall_cons_iff in H. destruct H as [Hl Hr]. cbn [snd] in Hl.
    cbn [coalesce]. destruct (Z.eqb_spec (fst cur + snd cur) o) as [E|E].
    + destruct (IH (fst cur, snd cur + l)) as (B & N & S).
      { apply Forall_cons; [cbn [snd]; lia | exact Hr]. }
      split; [|split].
      * rewrite B. rewrite !blocks_bytes_cons. cbn [fst snd].
        rewrite zrange_app by assumption. rewrite E, app_assoc. reflexivity.
      * exact N.
      * rewrite S. cbn [map zsum snd]. lia.
    + destruct (IH (o, l)) as (B & N & S).
      { apply Forall_cons; [exact Hl | exact Hr]. }
      split; [|split].
      * rewrite blocks_bytes_cons, B. reflexivity.
      * apply Forall_cons; [exact Hc | exact N].
      * cbn [map zsum]. rewrite S. reflexivity.
Qed.

Theorem coalesce_bytes : forall cur rest, Forall (fun b => 0 <= snd b) (cur :: rest) ->
  blocks_bytes (coalesce cur rest) = blocks_bytes (cur :: rest).
Proof. intros cur rest H. apply (coalesce_facts rest cur H). Qed.

Theorem coalesce_nonneg : forall cur rest, Forall (fun b => 0 <= snd b) (cur :: rest) ->
  Forall (fun b => 0 <= snd b) (coalesce cur rest).
Proof. intros cur rest H. apply (coalesce_facts rest cur H). Qed.

Theorem coalesce_zsum : forall cur rest, Forall (fun b => 0 <= snd b) (cur :: rest) ->
  zsum (map snd (coalesce cur rest)) = zsum (map snd (cur :: rest)).
Proof. intros cur rest H. apply (coalesce_facts rest cur H). Qed.

Theorem coalesce_list_bytes : forall b, Forall (fun p => 0 <= snd p) b ->
  blocks_bytes (coalesce_list b) = blocks_bytes b.
Proof. intros [|x r] H; [reflexivity|]. apply coalesce_bytes. exact H. Qed.

Theorem coalesce_list_nonneg : forall b, Forall (fun p => 0 <= snd p) b ->
  Forall (fun p => 0 <= snd p) (coalesce_list b).
Proof. intros [|x r] H; [constructor|]. apply coalesce_nonneg. exact H. Qed.

Theorem coalesce_list_zsum : forall b, Forall (fun p => 0 <= snd p) b ->
  zsum (map snd (coalesce_list b)) = zsum (map snd b).
Proof. intros [|x r] H; [reflexivity|]. apply coalesce_zsum. exact H. Qed.

(* construct_filetypes *)
Definition opt_block (last : option (Z * Z)) : blocks := match last with Some b => [b] | None => [] end.

Definition cf_spec (fts : list (bool * blocks)) (last : option (Z * Z)) : Prop :=
  blocks_bytes (construct_filetypes fts last) =
    blocks_bytes (opt_block last) ++ flat_map (fun ft => blocks_bytes (snd ft)) fts /\
  nonneg_blocks (construct_filetypes fts last) /\
  zsum (map snd (construct_filetypes fts last)) =
    zsum (map snd (opt_block last)) + zsum (map (fun ft => zsum (map snd (snd ft))) fts).

(* the generic branch of construct_filetypes *)
Lemma cf_generic : forall b bl r last,
  construct_filetypes ((b, bl) :: r) last = opt_block last ++ bl ++ construct_filetypes r None ->
  nonneg_blocks (opt_block last) -> nonneg_blocks bl -> cf_spec r None ->
  cf_spec ((b, bl) :: r) last.
Proof.
  intros b bl r last E Hl Hbl (B & N & S). unfold cf_spec. rewrite E.
  cbn [opt_block app] in B, S. cbn [flat_map snd map].
  split; [|split].
  - rewrite !blocks_bytes_app, B. reflexivity.
  - unfold nonneg_blocks. apply Forall_app. split; [exact Hl|].
    apply Forall_app. split; [exact Hbl | exact N].
  - assert (Hz : forall a c, zsum (a ++ c) = zsum a + zsum c).
    { induction a as [|x a IHa]; intros c; cbn [app zsum]; [lia | rewrite IHa; lia]. }
    rewrite !map_app, !Hz, S. cbn [map zsum]. lia.
Qed.

Lemma construct_filetypes_facts : forall fts last,
  Forall (fun ft => nonneg_blocks (snd ft)) fts -> nonneg_blocks (opt_block last) ->
  cf_spec fts last.
Proof.
  induction fts as [|[b bl] r IH]; intros last Hf Hl.
  - unfold cf_spec. cbn [construct_filetypes flat_map map zsum]. fold (opt_block last).
    rewrite app_nil_r. split; [reflexivity|]. split; [exact Hl | lia].
  - apply Forall_cons_iff in Hf. destruct Hf as [Hbl Hr]. cbn [snd] in Hbl.
    assert (HN : cf_spec r None) by (apply IH; [exact Hr | constructor]).
    destruct b; [destruct bl as [|[o l] [|x tl]]|]; try (apply cf_generic; [reflexivity | assumption ..]).
    (* (true, [(o,l)]) *)
    assert (Hl0 : 0 <= l).
    { unfold nonneg_blocks in Hbl. apply Forall_cons_iff in Hbl. apply Hbl. }
    destruct last as [[lo ll]|].
    + assert (Hll : 0 <= ll).
      { unfold nonneg_blocks in Hl. cbn [opt_block] in Hl. apply Forall_cons_iff in Hl. apply Hl. }
      cbn [construct_filetypes]. destruct (Z.eqb_spec (o - lo) ll) as [E|E].
      * destruct (IH (Some (lo, ll + l)) Hr) as (B & N & S).
        { cbn [opt_block]. apply Forall_cons; [cbn [snd]; lia | constructor]. }
        unfold cf_spec. cbn [construct_filetypes]. rewrite (proj2 (Z.eqb_eq (o - lo) ll) E).
        split; [|split].
        -- rewrite B. cbn [opt_block flat_map snd]. rewrite !blocks_bytes_single. cbn [fst snd].
           rewrite zrange_app by assumption. replace (lo + ll) with o by lia.
           rewrite <- app_assoc. reflexivity.
        -- exact N.
        -- rewrite S. cbn [opt_block map zsum snd]. lia.
      * destruct (IH (Some (o, l)) Hr) as (B & N & S).
        { cbn [opt_block]. apply Forall_cons; [cbn [snd]; lia | constructor]. }
        unfold cf_spec. cbn [construct_filetypes].
        rewrite (proj2 (Z.eqb_neq (o - lo) ll) E).
        split; [|split].
        -- rewrite blocks_bytes_cons, B. cbn [opt_block flat_map snd fst].
           rewrite !blocks_bytes_single. cbn [fst snd]. reflexivity.
        -- apply Forall_cons; [cbn [snd]; lia | exact N].
        -- cbn [map zsum snd]. rewrite S. cbn [opt_block map zsum snd]. lia.
    + destruct (IH (Some (o, l)) Hr) as (B & N & S).
      { cbn [opt_block]. apply Forall_cons; [cbn [snd]; lia | constructor]. }
      unfold cf_spec. cbn [construct_filetypes].
      split; [|split].
      * rewrite B. cbn [opt_block flat_map snd app]. reflexivity.
      * exact N.
      * rewrite S. cbn [opt_block map zsum snd]. lia.
Qed.

Theorem construct_filetypes_bytes : forall fts last,
  Forall (fun ft => Forall (fun b => 0 <= snd b) (snd ft)) fts ->
  Forall (fun b => 0 <= snd b) (match last with Some b => [b] | None => [] end) ->
  blocks_bytes (construct_filetypes fts last) =
  blocks_bytes (match last with Some b => [b] | None => [] end) ++
  flat_map (fun ft => blocks_bytes (snd ft)) fts.
Proof. intros fts last Hf Hl. apply (construct_filetypes_facts fts last Hf Hl). Qed.

Theorem construct_filetypes_nonneg : forall fts last,
  Forall (fun ft => Forall (fun b => 0 <= snd b) (snd ft)) fts ->
  Forall (fun b => 0 <= snd b) (match last with Some b => [b] | None => [] end) ->
  Forall (fun b => 0 <= snd b) (construct_filetypes fts last).
Proof. intros fts last Hf Hl. apply (construct_filetypes_facts fts last Hf Hl). Qed.

Theorem construct_filetypes_zsum : forall fts last,
  Forall (fun ft => Forall (fun b => 0 <= snd b) (snd ft)) fts ->
  Forall (fun b => 0 <= snd b) (match last with Some b => [b] | None => [] end) ->
  zsum (map snd (construct_filetypes fts last)) =
  zsum (map snd (match last with Some b => [b] | None => [] end)) +
  zsum (map (fun ft => zsum (map snd (snd ft))) fts).
Proof. intros fts last Hf Hl. apply (construct_filetypes_facts fts last Hf Hl). Qed.

(* ====================================================================== *)
(* 6. merge_segs on segments that address no file byte twice               *)
(* ====================================================================== *)
Lemma segs_pairs_cons : forall s r, segs_pairs (s :: r) = seg_pairs s ++ segs_pairs r.
Proof. reflexivity. Qed.

Lemma segs_pairs_app : forall a b, segs_pairs (a ++ b) = segs_pairs a ++ segs_pairs b.
Proof. intros. unfold segs_pairs. apply flat_map_app. Qed.

Lemma map_fst_seg_pairs : forall s, map fst (seg_pairs s) = zrange (s_off s) (s_len s).
Proof. intros s. unfold seg_pairs. apply map_fst_zip. rewrite !zrange_length. reflexivity. Qed.

Lemma map_fst_segs_pairs : forall l,
  map fst (segs_pairs l) = flat_map (fun s => zrange (s_off s) (s_len s)) l.
Proof.
  intros l. unfold segs_pairs. rewrite map_flat_map_comm. apply flat_map_ext_In.
  intros a _. apply map_fst_seg_pairs.
Qed.

(* every segment ends before every later one begins *)
Definition segs_sep (l : list seg) : Prop := StronglySorted (fun a b => s_off a + s_len a <= s_off b) l.

Lemma sorted_nodup_sep : forall l,
  StronglySorted (fun a b => s_off a <= s_off b) l -> Forall (fun x => 0 < s_len x) l ->
  NoDup (map fst (segs_pairs l)) -> segs_sep l.
Proof.
  intros l HS HP HN. rewrite map_fst_segs_pairs in HN.
  induction l as [|s r IH]; [constructor|].
  apply StronglySorted_inv in HS. destruct HS as [HSr HSs].
  apply Forall_cons_iff in HP. destruct HP as [Hs Hr].
  cbn [flat_map] in HN. apply NoDup_app_inv in HN. destruct HN as (_ & HNr & HD).
  constructor; [apply IH; assumption|]. clear IH.
  apply Forall_forall. intros b Hb.
  pose proof (proj1 (Forall_forall _ _) HSs b Hb) as Hsb. cbv beta in Hsb.
  pose proof (proj1 (Forall_forall _ _) Hr b Hb) as Hlb. cbv beta in Hlb.
  destruct (Z_le_dec (s_off s + s_len s) (s_off b)) as [L|L]; [exact L|]. exfalso.
  apply (HD (s_off b)).
  - apply zrange_In. lia.
  - apply in_flat_map. exists b. split; [exact Hb|]. apply zrange_In. lia.
Qed.

Lemma seg_pairs_split : forall o l1 l2 a, 0 <= l1 -> 0 <= l2 ->
  seg_pairs (o, l1 + l2, a) = seg_pairs (o, l1, a) ++ seg_pairs (o + l1, l2, a + l1).
Proof.
  intros o l1 l2 a H1 H2. unfold seg_pairs, s_off, s_len, s_addr. cbn [fst snd].
  rewrite !zrange_app by assumption. apply zip_app. rewrite !zrange_length. reflexivity.
Qed.

Lemma merge_segs_sep_facts : forall rest cur,
  segs_sep (cur :: rest) -> Forall (fun x => 0 < s_len x) (cur :: rest) ->
  segs_pairs (merge_segs cur rest) = segs_pairs (cur :: rest) /\
  Forall (fun x => 0 < s_len x) (merge_segs cur rest) /\
  segs_sep (merge_segs cur rest) /\
  Forall (fun x => s_off cur <= s_off x) (merge_segs cur rest).
Proof.
  induction rest as [|j r IH]; intros cur HS HP.
  - cbn [merge_segs]. split; [reflexivity|]. split; [exact HP|]. split; [exact HS|].
    constructor; [lia | constructor].
  - destruct cur as [[oi li] ai]. destruct j as [[oj lj] aj].
    apply StronglySorted_inv in HS. destruct HS as [HSr HSc].
    apply Forall_cons_iff in HSc. destruct HSc as [Hcj Hcr].
    unfold s_off, s_len in Hcj. cbn [fst snd] in Hcj.
    apply Forall_cons_iff in HP. destruct HP as [Hpi HPr].
    pose proof HPr as HPr'. apply Forall_cons_iff in HPr'. destruct HPr' as [Hpj HPr2].
    unfold s_len in Hpi, Hpj. cbn [fst snd] in Hpi, Hpj.
    (* the "keep cur, continue with j" outcome *)
    assert (K : segs_pairs ((oi, li, ai) :: merge_segs (oj, lj, aj) r) =
                segs_pairs ((oi, li, ai) :: (oj, lj, aj) :: r) /\
                Forall (fun x => 0 < s_len x) ((oi, li, ai) :: merge_segs (oj, lj, aj) r) /\
                segs_sep ((oi, li, ai) :: merge_segs (oj, lj, aj) r) /\
                Forall (fun x => s_off (oi, li, ai) <= s_off x) ((oi, li, ai) :: merge_segs (oj, lj, aj) r)).
    { destruct (IH (oj, lj, aj) HSr HPr) as (P & Q & S & F).
      split; [|split; [|split]].
      - rewrite segs_pairs_cons, P. reflexivity.
      - apply Forall_cons; [unfold s_len; cbn [fst snd]; lia | exact Q].
      - constructor; [exact S|]. eapply Forall_impl; [|exact F].
        intros x Hx. unfold s_off, s_len in *. cbn [fst snd] in *. lia.
      - apply Forall_cons; [lia|]. eapply Forall_impl; [|exact F].
        intros x Hx. unfold s_off in *. cbn [fst snd] in *. lia. }
    cbn [merge_segs].
    replace (oi + li >=? oj + lj) with false by lia.
    destruct (oi + li - oj >=? 0) eqn:Eg.
    + assert (Eo : oi + li - oj = 0) by lia. rewrite Eo.
      destruct (Z.eqb_spec (ai + li) (aj + 0)) as [Ea|Ea].
      * apply StronglySorted_inv in HSr. destruct HSr as [HSr2 Hjr].
        destruct (IH (oi, li + (lj - 0), ai)) as (P & Q & S & F).
        { constructor; [exact HSr2|]. eapply Forall_impl; [|exact Hjr].
          intros x Hx. unfold s_off, s_len in *. cbn [fst snd] in *. lia. }
        { apply Forall_cons; [unfold s_len; cbn [fst snd]; lia | exact HPr2]. }
        split; [|split; [|split]].
        -- rewrite P. rewrite !segs_pairs_cons. rewrite app_assoc. f_equal.
           replace (lj - 0) with lj by lia. rewrite seg_pairs_split by lia.
           f_equal. f_equal. f_equal; [f_equal|]; lia.
        -- exact Q.
        -- exact S.
        -- exact F.
      * replace (oj + 0, lj - 0, aj + 0) with (oj, lj, aj) by (f_equal; [f_equal|]; lia).
        exact K.
    + exact K.
Qed.

Theorem merge_segs_disjoint : forall s r,
  StronglySorted (fun a b => s_off a <= s_off b) (s :: r) ->
  Forall (fun x => 0 < s_len x) (s :: r) ->
  NoDup (map fst (segs_pairs (s :: r))) ->
  segs_pairs (merge_segs s r) = segs_pairs (s :: r).
Proof.
  intros s r HS HP HN.
  apply (merge_segs_sep_facts r s (sorted_nodup_sep _ HS HP HN) HP).
Qed.

Theorem merge_segs_pos : forall s r,
  StronglySorted (fun a b => s_off a <= s_off b) (s :: r) ->
  Forall (fun x => 0 < s_len x) (s :: r) ->
  NoDup (map fst (segs_pairs (s :: r))) ->
  Forall (fun x => 0 < s_len x) (merge_segs s r).
Proof.
  intros s r HS HP HN.
  apply (merge_segs_sep_facts r s (sorted_nodup_sep _ HS HP HN) HP).
Qed.

Theorem merge_segs_sep : forall s r,
  StronglySorted (fun a b => s_off a <= s_off b) (s :: r) ->
  Forall (fun x => 0 < s_len x) (s :: r) ->
  NoDup (map fst (segs_pairs (s :: r))) ->
  segs_sep (merge_segs s r).
Proof.
  intros s r HS HP HN.
  apply (merge_segs_sep_facts r s (sorted_nodup_sep _ HS HP HN) HP).
Qed.

(* three segments: the second continues the first in the file AND in the buffer (merged),
   the third is file-contiguous with the second but not buffer-contiguous (kept) *)
Example merge_segs_disjoint_ex :
  let s := (100, 4, 1000) in let r := [(104, 4, 1004); (108, 2, 2000); (120, 3, 1008)] in
  StronglySorted (fun a b => s_off a <= s_off b) (s :: r) /\
  Forall (fun x => 0 < s_len x) (s :: r) /\
  NoDup (map fst (segs_pairs (s :: r))) /\
  merge_segs s r = [(100, 8, 1000); (108, 2, 2000); (120, 3, 1008)].
Proof.
  cbv zeta. split; [|split; [|split]].
  - repeat (apply SSorted_cons;
            [|repeat (apply Forall_cons; [unfold s_off; cbn [fst snd]; lia|]); apply Forall_nil]).
    apply SSorted_nil.
  - repeat (apply Forall_cons; [unfold s_len; cbn [fst snd]; lia|]). apply Forall_nil.
  - rewrite map_fst_segs_pairs. unfold s_off, s_len. cbn [flat_map fst snd app].
    change (NoDup (zrange 100 4 ++ zrange 104 4 ++ zrange 108 2 ++ zrange 120 3 ++ [])).
    rewrite app_nil_r.
    replace (zrange 100 4 ++ zrange 104 4 ++ zrange 108 2 ++ zrange 120 3)
      with (zrange 100 10 ++ zrange 120 3) by reflexivity.
    apply NoDup_app_intro; [apply zrange_NoDup | apply zrange_NoDup |].
    intros x H1 H2. apply zrange_In in H1. apply zrange_In in H2. lia.
  - reflexivity.
Qed.

(* ====================================================================== *)
(* 7. the group cutting is a partition                                     *)
(* ====================================================================== *)
Lemma cut_groups_concat : forall bounds l pos cur, flat_map snd (cut_groups l pos bounds cur) = l.
Proof.
  induction bounds as [|[b t] r IH]; intros l pos cur; cbn [cut_groups flat_map snd].
  - apply app_nil_r.
  - rewrite IH. apply zfirstn_zskipn.
Qed.

Theorem partition_groups_concat : forall l, flat_map snd (partition_groups l) = l.
Proof. intros l. unfold partition_groups, group_bounds. cbv zeta. apply cut_groups_concat. Qed.

(* ====================================================================== *)
(* 8a. facts that do not need the geometry                                 *)
(* ====================================================================== *)
(* a pair of type maps MPI accepts: lengths >= 0, same number of bytes on both sides *)
Definition io_ok (t : iotypes) : Prop :=
  Forall (fun b => 0 <= snd b) (io_f t) /\ Forall (fun b => 0 <= snd b) (io_b t) /\
  length (blocks_bytes (io_f t)) = length (blocks_bytes (io_b t)).

Lemma io_ok_zsum : forall t, io_ok t -> zsum (map snd (io_f t)) = zsum (map snd (io_b t)).
Proof.
  intros t (Hf & Hb & Hl). rewrite <- !Zlen_blocks_bytes by assumption. unfold Zlen. lia.
Qed.

Lemma mpi_write_pairs_ok : forall file mem t, io_ok t ->
  disk_eq (mpi_write file mem t) (write_pairs file mem (io_pairs t)).
Proof.
  intros file mem t H. pose proof (io_ok_zsum t H) as Hz. destruct H as (Hf & Hb & _).
  apply mpi_write_pairs; assumption.
Qed.

Lemma mpi_read_pairs_ok : forall file mem t, io_ok t ->
  disk_eq (mpi_read file mem t) (read_pairs file mem (io_pairs t)).
Proof.
  intros file mem t H. pose proof (io_ok_zsum t H) as Hz. destruct H as (Hf & Hb & _).
  apply mpi_read_pairs; assumption.
Qed.

Lemma blocks_bytes_flat_map : forall A (f : A -> blocks) l,
  blocks_bytes (flat_map f l) = flat_map (fun x => blocks_bytes (f x)) l.
Proof. intros. unfold blocks_bytes. apply flat_map_flat_map. Qed.

(* MPI_Type_create_struct of a list of type-map pairs *)
Lemma io_concat : forall ts, Forall io_ok ts ->
  io_ok (mkio (flat_map io_f ts) (flat_map io_b ts)) /\
  io_pairs (mkio (flat_map io_f ts) (flat_map io_b ts)) = flat_map io_pairs ts.
Proof.
  intros ts H.
  assert (Hlen : forall t, In t ts -> length (blocks_bytes (io_f t)) = length (blocks_bytes (io_b t))).
  { intros t Ht. apply (proj1 (Forall_forall _ _) H t Ht). }
  split; [split; [|split]|]; cbn [io_f io_b].
  - apply Forall_flat_map. eapply Forall_impl; [|exact H]. intros t Ht. apply Ht.
  - apply Forall_flat_map. eapply Forall_impl; [|exact H]. intros t Ht. apply Ht.
  - rewrite !blocks_bytes_flat_map. apply length_flat_map_eq. exact Hlen.
  - unfold io_pairs at 1. cbn [io_f io_b]. rewrite !blocks_bytes_flat_map.
    rewrite zip_flat_map by exact Hlen. reflexivity.
Qed.

Lemma perm_flat_map_pointwise : forall A B (f h : A -> list B) l,
  Forall (fun x => Permutation (f x) (h x)) l -> Permutation (flat_map f l) (flat_map h l).
Proof.
  intros A B f h l H. induction H as [|x l Hx Hl IH]; cbn [flat_map].
  - apply perm_nil.
  - apply Permutation_app; assumption.
Qed.

(* type_create_off_len of a list of segments with positive lengths *)
Lemma segs_views_pairs : forall segs, Forall (fun s => 0 < s_len s) segs ->
  io_ok (mkio (segs_fview segs) (segs_bview segs)) /\
  io_pairs (mkio (segs_fview segs) (segs_bview segs)) = segs_pairs segs.
Proof.
  intros segs Hpos.
  assert (Hf : Forall (fun b : Z * Z => 0 <= snd b) (map (fun s => (s_off s, s_len s)) segs)).
  { apply Forall_map. eapply Forall_impl; [|exact Hpos]. intros s Hs. cbv beta in Hs. cbn [snd]. lia. }
  assert (Hb : Forall (fun b : Z * Z => 0 <= snd b) (map (fun s => (s_addr s, s_len s)) segs)).
  { apply Forall_map. eapply Forall_impl; [|exact Hpos]. intros s Hs. cbv beta in Hs. cbn [snd]. lia. }
  assert (Ef : blocks_bytes (segs_fview segs) = flat_map (fun s => zrange (s_off s) (s_len s)) segs).
  { unfold segs_fview. rewrite coalesce_list_bytes by exact Hf.
    unfold blocks_bytes. rewrite flat_map_map_comm. reflexivity. }
  assert (Eb : blocks_bytes (segs_bview segs) = flat_map (fun s => zrange (s_addr s) (s_len s)) segs).
  { unfold segs_bview. rewrite coalesce_list_bytes by exact Hb.
    unfold blocks_bytes. rewrite flat_map_map_comm. reflexivity. }
  assert (Hlen : forall s, In s segs ->
            length (zrange (s_off s) (s_len s)) = length (zrange (s_addr s) (s_len s))).
  { intros s _. rewrite !zrange_length. reflexivity. }
  split; [split; [|split]|]; cbn [io_f io_b].
  - unfold segs_fview. apply coalesce_list_nonneg. exact Hf.
  - unfold segs_bview. apply coalesce_list_nonneg. exact Hb.
  - rewrite Ef, Eb. apply length_flat_map_eq. exact Hlen.
  - unfold io_pairs. cbn [io_f io_b]. rewrite Ef, Eb.
    rewrite zip_flat_map by exact Hlen. reflexivity.
Qed.

Lemma offs_increasing_sorted : forall l, offs_increasing l = true ->
  StronglySorted (fun a b => s_off a <= s_off b) l.
Proof.
  intros l H. apply Sorted_StronglySorted.
  { intros x y z Hxy Hyz. lia. }
  induction l as [|a l IH]; [constructor|].
  destruct l as [|b r].
  - constructor; constructor.
  - cbn [offs_increasing] in H. apply andb_true_iff in H. destruct H as [H1 H2].
    constructor; [apply IH; exact H2|]. constructor. lia.
Qed.

(* the selectors of an annotated request *)
Lemma annotate_req : forall leads r, a_req (annotate leads r) = r.
Proof. intros. unfold annotate. destruct (access_range _ r). reflexivity. Qed.

Lemma annotate_lead : forall leads r, a_lead (annotate leads r) = znth leads (r_lead_off r) dummy_lead.
Proof. intros. unfold annotate. destruct (access_range _ r). reflexivity. Qed.

(* the number of bytes of the file type of a well-formed request *)
Lemma ones_like_ones : forall l, ones_like l = ones (length l).
Proof. induction l as [|x l IH]; [reflexivity|]. unfold ones_like, ones in *. cbn [map length repeat]. now rewrite IH. Qed.

Lemma length_blocks_const : forall (k : Z) offs,
  length (blocks_bytes (map (fun o => (o, k)) offs)) = (length offs * Z.to_nat k)%nat.
Proof.
  intros k offs. unfold blocks_bytes. rewrite flat_map_map_comm.
  apply flat_map_length_const. intros a _. unfold expand. cbn [fst snd]. apply zrange_length.
Qed.

Lemma model_offsets_length_wf : forall a, areq_wf a ->
  length (model_offsets (l_geom (a_lead a)) (r_start (a_req a)) (r_count (a_req a)) (l_stride (a_lead a)))
  = Z.to_nat (r_nelems (a_req a)).
Proof.
  intros a (Hwf & Hfit & Hreq & Hne & Hpos & Hrec & Hst). rewrite Hne.
  unfold req_stride in Hreq. destruct (l_stride (a_lead a)) as [t|].
  - apply model_offsets_length; assumption.
  - destruct (req_ok_lengths _ _ _ _ Hreq) as (Hls & _ & _).
    rewrite ones_like_ones, Hls in Hreq.
    rewrite model_offsets_eq_spec_none by assumption.
    apply spec_offsets_length_req. exact Hreq.
Qed.

Lemma req_ftype_facts : forall a, areq_wf a ->
  length (blocks_bytes (snd (req_ftype a))) = length (expand (req_bblock a)) /\
  Forall (fun b => 0 <= snd b) (snd (req_ftype a)) /\ 0 <= snd (req_bblock a).
Proof.
  intros a H. pose proof (model_offsets_length_wf a H) as Hm.
  destruct H as (Hwf & Hfit & Hreq & Hne & Hpos & Hrec & Hst).
  destruct Hwf as (Hxsz & _).
  unfold req_ftype, req_bblock, expand. cbn [fst snd].
  destruct (ftype_contig (l_geom (a_lead a)) (r_count (a_req a)) (l_stride (a_lead a))); cbn [snd].
  - split; [|split].
    + rewrite blocks_bytes_single. cbn [fst snd]. rewrite !zrange_length. f_equal. lia.
    + apply Forall_cons; [cbn [snd]; nia | constructor].
    + nia.
  - split; [|split].
    + rewrite length_blocks_const, Hm, zrange_length. rewrite Z2Nat.inj_mul by lia. reflexivity.
    + apply Forall_map. apply Forall_forall. intros o _. cbn [snd]. lia.
    + nia.
Qed.

(* ---------- file-view facts (what MPI-IO requires of a file type map) ---------- *)
(* every block ends before every later one begins *)
Definition blocks_sep (b : blocks) : Prop := StronglySorted (fun p q => fst p + snd p <= fst q) b.

Lemma segs_sep_blocks : forall segs, segs_sep segs ->
  blocks_sep (map (fun s => (s_off s, s_len s)) segs).
Proof.
  intros segs H. induction H as [|s r HS IH HF]; cbn [map]; constructor; [exact IH|].
  apply Forall_map. eapply Forall_impl; [|exact HF]. intros x Hx. cbn [fst snd]. exact Hx.
Qed.

Lemma coalesce_sep_facts : forall rest cur,
  blocks_sep (cur :: rest) -> Forall (fun b => 0 <= snd b) (cur :: rest) ->
  blocks_sep (coalesce cur rest) /\ Forall (fun x => fst cur <= fst x) (coalesce cur rest).
Proof.
  induction rest as [|[o l] r IH]; intros cur HS HN.
  - cbn [coalesce]. split; [exact HS|]. apply Forall_cons; [lia | constructor].
  - apply StronglySorted_inv in HS. destruct HS as [HSr HSc].
    apply Forall_cons_iff in HSc. destruct HSc as [Hco _]. cbn [fst] in Hco.
    apply Forall_cons_iff in HN. destruct HN as [Hc0 HNr].
    pose proof HNr as HNr'. apply Forall_cons_iff in HNr'. destruct HNr' as [Hl0 HNr2]. cbn [snd] in Hl0.
    cbn [coalesce]. destruct (Z.eqb_spec (fst cur + snd cur) o) as [E|E].
    + apply StronglySorted_inv in HSr. destruct HSr as [HSr2 Hjr].
      destruct (IH (fst cur, snd cur + l)) as (S & F).
      { constructor; [exact HSr2|]. eapply Forall_impl; [|exact Hjr].
        intros x Hx. cbn [fst snd] in *. lia. }
      { apply Forall_cons; [cbn [snd]; lia | exact HNr2]. }
      split; [exact S | exact F].
    + destruct (IH (o, l) HSr HNr) as (S & F). split.
      * constructor; [exact S|]. eapply Forall_impl; [|exact F].
        intros x Hx. cbn [fst snd] in *. lia.
      * apply Forall_cons; [lia|]. eapply Forall_impl; [|exact F].
        intros x Hx. cbn [fst snd] in *. lia.
Qed.

Lemma coalesce_list_sep : forall b, blocks_sep b -> Forall (fun p => 0 <= snd p) b ->
  blocks_sep (coalesce_list b).
Proof.
  intros [|x r] HS HN; [constructor|]. apply (coalesce_sep_facts r x HS HN).
Qed.

Lemma io_ok_fst_pairs : forall t, io_ok t -> map fst (io_pairs t) = blocks_bytes (io_f t).
Proof. intros t (_ & _ & Hl). unfold io_pairs. apply map_fst_zip. exact Hl. Qed.

(* the body of `aggregate` for a non-empty request list, on the annotated requests *)
Definition aggregate_types (sort_reqs : list areq -> list areq) (sort_segs : list seg -> list seg)
           (ar : list areq) : iotypes :=
  let decreasing := has_decreasing ar in
  let maybe := decreasing || has_overlap_adjacent ar in
  let ar' := if decreasing then sort_reqs ar else ar in
  let interleaved := if maybe then has_overlap_adjacent ar' else false in
  if negb interleaved then mgetput_types ar'
  else types_of_groups sort_segs (partition_groups ar').

Lemma aggregate_eq : forall sort_reqs sort_segs leads reqs, reqs <> [] ->
  aggregate sort_reqs sort_segs leads reqs = aggregate_types sort_reqs sort_segs (map (annotate leads) reqs).
Proof. intros sr ss leads reqs H. destruct reqs as [|r0 rs]; [contradiction | reflexivity]. Qed.

(* ====================================================================== *)
(* 8. the aggregated type maps address the bytes of the requests           *)
(* ====================================================================== *)
Section WithGeometry.
Hypothesis req_ftype_pairs : forall a, areq_wf a ->
  zip (blocks_bytes (snd (req_ftype a))) (expand (req_bblock a)) = areq_pairs a.
Hypothesis vars_flatten_pairs : forall a, areq_wf a -> segs_pairs (vars_flatten a) = areq_pairs a.
Hypothesis vars_flatten_pos : forall a, areq_wf a -> Forall (fun s => 0 < s_len s) (vars_flatten a).

(* construct_filetypes / construct_buffertypes of a list of requests *)
Lemma plain_types_facts : forall l, Forall areq_wf l ->
  blocks_bytes (construct_filetypes (map req_ftype l) None) =
    flat_map (fun a => blocks_bytes (snd (req_ftype a))) l /\
  Forall (fun b => 0 <= snd b) (construct_filetypes (map req_ftype l) None) /\
  blocks_bytes (map req_bblock l) = flat_map (fun a => expand (req_bblock a)) l /\
  Forall (fun b => 0 <= snd b) (map req_bblock l) /\
  length (flat_map (fun a => blocks_bytes (snd (req_ftype a))) l) =
    length (flat_map (fun a => expand (req_bblock a)) l) /\
  zip (flat_map (fun a => blocks_bytes (snd (req_ftype a))) l)
      (flat_map (fun a => expand (req_bblock a)) l) = flat_map areq_pairs l.
Proof.
  intros l Hwf.
  assert (Hft : Forall (fun ft : bool * blocks => Forall (fun b => 0 <= snd b) (snd ft)) (map req_ftype l)).
  { apply Forall_map. eapply Forall_impl; [|exact Hwf]. intros a Ha. apply (req_ftype_facts a Ha). }
  assert (Hlen : forall a, In a l ->
            length (blocks_bytes (snd (req_ftype a))) = length (expand (req_bblock a))).
  { intros a Ha. apply (req_ftype_facts a). apply (proj1 (Forall_forall _ _) Hwf a Ha). }
  split; [|split; [|split; [|split; [|split]]]].
  - rewrite construct_filetypes_bytes by (try exact Hft; constructor).
    cbn [app]. unfold blocks_bytes at 1. cbn [flat_map app]. apply flat_map_map_comm.
  - apply construct_filetypes_nonneg; [exact Hft | constructor].
  - unfold blocks_bytes. apply flat_map_map_comm.
  - apply Forall_map. eapply Forall_impl; [|exact Hwf]. intros a Ha. apply (req_ftype_facts a Ha).
  - apply length_flat_map_eq. exact Hlen.
  - rewrite zip_flat_map by exact Hlen. apply flat_map_ext_In.
    intros a Ha. apply req_ftype_pairs. apply (proj1 (Forall_forall _ _) Hwf a Ha).
Qed.

Lemma mgetput_pairs : forall l, Forall areq_wf l ->
  io_ok (mgetput_types l) /\ io_pairs (mgetput_types l) = flat_map areq_pairs l.
Proof.
  intros l Hwf. destruct (plain_types_facts l Hwf) as (Ef & Nf & Eb & Nb & Hlen & Hzip).
  unfold mgetput_types. split; [split; [|split]|]; cbn [io_f io_b].
  - exact Nf.
  - apply coalesce_list_nonneg. exact Nb.
  - rewrite coalesce_list_bytes by exact Nb. rewrite Ef, Eb. exact Hlen.
  - unfold io_pairs. cbn [io_f io_b]. rewrite coalesce_list_bytes by exact Nb.
    rewrite Ef, Eb. exact Hzip.
Qed.

Lemma merge_requests_facts : forall sort_segs l, sorter_ok s_off sort_segs ->
  Forall areq_wf l -> NoDup (map fst (flat_map areq_pairs l)) ->
  Forall (fun s => 0 < s_len s) (merge_requests sort_segs l) /\
  segs_sep (merge_requests sort_segs l) /\
  Permutation (segs_pairs (merge_requests sort_segs l)) (flat_map areq_pairs l).
Proof.
  intros sort_segs l Hsort Hwf Hnd. unfold merge_requests.
  set (segs0 := flat_map vars_flatten l).
  assert (Hp0 : segs_pairs segs0 = flat_map areq_pairs l).
  { unfold segs0, segs_pairs. rewrite flat_map_flat_map. apply flat_map_ext_In.
    intros a Ha. apply vars_flatten_pairs. apply (proj1 (Forall_forall _ _) Hwf a Ha). }
  assert (Hpos0 : Forall (fun s => 0 < s_len s) segs0).
  { unfold segs0. apply Forall_flat_map. eapply Forall_impl; [|exact Hwf].
    intros a Ha. apply vars_flatten_pos. exact Ha. }
  set (segs' := if offs_increasing segs0 then segs0 else sort_segs segs0).
  assert (Hperm : Permutation segs' segs0).
  { unfold segs'. destruct (offs_increasing segs0); [apply Permutation_refl | apply Hsort]. }
  assert (Hsorted : StronglySorted (fun a b => s_off a <= s_off b) segs').
  { unfold segs'. destruct (offs_increasing segs0) eqn:E;
      [apply offs_increasing_sorted; exact E | apply Hsort]. }
  assert (Hpos' : Forall (fun s => 0 < s_len s) segs').
  { eapply perm_Forall; [apply Permutation_sym; exact Hperm | exact Hpos0]. }
  assert (Hpp : Permutation (segs_pairs segs') (flat_map areq_pairs l)).
  { rewrite <- Hp0. unfold segs_pairs. apply perm_flat_map. exact Hperm. }
  assert (Hnd' : NoDup (map fst (segs_pairs segs'))).
  { eapply Permutation_NoDup; [|exact Hnd]. apply Permutation_map. apply Permutation_sym. exact Hpp. }
  destruct segs' as [|s r].
  - split; [constructor|]. split; [constructor | exact Hpp].
  - split; [|split].
    + apply merge_segs_pos; assumption.
    + apply merge_segs_sep; assumption.
    + rewrite merge_segs_disjoint by assumption. exact Hpp.
Qed.

Lemma group_types_pairs : forall sort_segs g, sorter_ok s_off sort_segs ->
  Forall areq_wf (snd g) -> NoDup (map fst (flat_map areq_pairs (snd g))) ->
  io_ok (group_types sort_segs g) /\
  Permutation (io_pairs (group_types sort_segs g)) (flat_map areq_pairs (snd g)).
Proof.
  intros sort_segs g Hsort Hwf Hnd. unfold group_types. destruct (fst g).
  - destruct (merge_requests_facts sort_segs (snd g) Hsort Hwf Hnd) as (Hpos & _ & Hperm).
    destruct (segs_views_pairs _ Hpos) as (Hok & Hpairs).
    split; [exact Hok|]. rewrite Hpairs. exact Hperm.
  - destruct (plain_types_facts (snd g) Hwf) as (Ef & Nf & Eb & Nb & Hlen & Hzip).
    split; [split; [|split]|]; cbn [io_f io_b].
    + exact Nf.
    + exact Nb.
    + rewrite Ef, Eb. exact Hlen.
    + unfold io_pairs. cbn [io_f io_b]. rewrite Ef, Eb, Hzip. apply Permutation_refl.
Qed.

Lemma groups_pairs : forall sort_segs gs, sorter_ok s_off sort_segs ->
  Forall areq_wf (flat_map snd gs) ->
  NoDup (map fst (flat_map areq_pairs (flat_map snd gs))) ->
  io_ok (types_of_groups sort_segs gs) /\
  Permutation (io_pairs (types_of_groups sort_segs gs)) (flat_map areq_pairs (flat_map snd gs)).
Proof.
  intros sort_segs gs Hsort Hwf Hnd.
  assert (Hall : Forall (fun g => io_ok (group_types sort_segs g) /\
                   Permutation (io_pairs (group_types sort_segs g)) (flat_map areq_pairs (snd g))) gs).
  { induction gs as [|g gs IH]; [constructor|].
    cbn [flat_map] in Hwf, Hnd. apply Forall_app in Hwf. destruct Hwf as [Hwg Hwr].
    rewrite flat_map_app, map_app in Hnd. apply NoDup_app_inv in Hnd. destruct Hnd as (Hng & Hnr & _).
    constructor; [apply group_types_pairs; assumption | apply IH; assumption]. }
  unfold types_of_groups. cbv zeta.
  destruct (io_concat (map (group_types sort_segs) gs)) as (Hok & Hpairs).
  { apply Forall_map. eapply Forall_impl; [|exact Hall]. intros g Hg. apply Hg. }
  split; [exact Hok|]. rewrite Hpairs. rewrite flat_map_map_comm, flat_map_flat_map.
  apply perm_flat_map_pointwise. eapply Forall_impl; [|exact Hall]. intros g Hg. apply Hg.
Qed.

Theorem groups_stream_correct : forall sort_segs gs file mem, sorter_ok s_off sort_segs ->
  Forall areq_wf (flat_map snd gs) ->
  NoDup (map fst (flat_map areq_pairs (flat_map snd gs))) ->
  disk_eq (mpi_write file mem (types_of_groups sort_segs gs))
          (write_pairs file mem (flat_map areq_pairs (flat_map snd gs))).
Proof.
  intros sort_segs gs file mem Hsort Hwf Hnd.
  destruct (groups_pairs sort_segs gs Hsort Hwf Hnd) as (Hok & Hperm).
  eapply disk_eq_trans; [apply mpi_write_pairs_ok; exact Hok|].
  apply disk_eq_sym. apply write_pairs_perm; [apply Permutation_sym; exact Hperm | exact Hnd].
Qed.

Theorem groups_stream_correct_read : forall sort_segs gs file mem, sorter_ok s_off sort_segs ->
  Forall areq_wf (flat_map snd gs) ->
  NoDup (map fst (flat_map areq_pairs (flat_map snd gs))) ->
  NoDup (map snd (flat_map areq_pairs (flat_map snd gs))) ->
  disk_eq (mpi_read file mem (types_of_groups sort_segs gs))
          (read_pairs file mem (flat_map areq_pairs (flat_map snd gs))).
Proof.
  intros sort_segs gs file mem Hsort Hwf Hnd Hnd2.
  destruct (groups_pairs sort_segs gs Hsort Hwf Hnd) as (Hok & Hperm).
  eapply disk_eq_trans; [apply mpi_read_pairs_ok; exact Hok|].
  apply disk_eq_sym. apply read_pairs_perm; [apply Permutation_sym; exact Hperm | exact Hnd2].
Qed.

Theorem mgetput_stream_correct : forall l file mem, Forall areq_wf l ->
  disk_eq (mpi_write file mem (mgetput_types l)) (write_pairs file mem (flat_map areq_pairs l)).
Proof.
  intros l file mem Hwf. destruct (mgetput_pairs l Hwf) as (Hok & Hpairs).
  rewrite <- Hpairs. apply mpi_write_pairs_ok. exact Hok.
Qed.

Theorem mgetput_stream_correct_read : forall l file mem, Forall areq_wf l ->
  disk_eq (mpi_read file mem (mgetput_types l)) (read_pairs file mem (flat_map areq_pairs l)).
Proof.
  intros l file mem Hwf. destruct (mgetput_pairs l Hwf) as (Hok & Hpairs).
  rewrite <- Hpairs. apply mpi_read_pairs_ok. exact Hok.
Qed.

(* ====================================================================== *)
(* 9./10. wait_getput up to the MPI call                                   *)
(* ====================================================================== *)
Lemma aggregate_types_pairs : forall sort_reqs sort_segs ar,
  sorter_ok a_start sort_reqs -> sorter_ok s_off sort_segs ->
  Forall areq_wf ar -> NoDup (map fst (flat_map areq_pairs ar)) ->
  io_ok (aggregate_types sort_reqs sort_segs ar) /\
  Permutation (io_pairs (aggregate_types sort_reqs sort_segs ar)) (flat_map areq_pairs ar).
Proof.
  intros sort_reqs sort_segs ar Hsr Hss Hwf Hnd. unfold aggregate_types. cbv zeta.
  set (ar' := if has_decreasing ar then sort_reqs ar else ar).
  assert (Hperm : Permutation ar' ar).
  { unfold ar'. destruct (has_decreasing ar); [apply Hsr | apply Permutation_refl]. }
  assert (Hwf' : Forall areq_wf ar').
  { eapply perm_Forall; [apply Permutation_sym; exact Hperm | exact Hwf]. }
  assert (Hpp : Permutation (flat_map areq_pairs ar') (flat_map areq_pairs ar)).
  { apply perm_flat_map. exact Hperm. }
  assert (Hnd' : NoDup (map fst (flat_map areq_pairs ar'))).
  { eapply Permutation_NoDup; [|exact Hnd]. apply Permutation_map. apply Permutation_sym. exact Hpp. }
  destruct (negb (if has_decreasing ar || has_overlap_adjacent ar then has_overlap_adjacent ar' else false)).
  - destruct (mgetput_pairs ar' Hwf') as (Hok & Hpairs).
    split; [exact Hok|]. rewrite Hpairs. exact Hpp.
  - pose proof (partition_groups_concat ar') as Hcat.
    destruct (groups_pairs sort_segs (partition_groups ar') Hss) as (Hok & Hpairs).
    + rewrite Hcat. exact Hwf'.
    + rewrite Hcat. exact Hnd'.
    + split; [exact Hok|]. rewrite Hcat in Hpairs.
      eapply perm_trans; [exact Hpairs | exact Hpp].
Qed.

Lemma aggregate_pairs : forall sort_reqs sort_segs leads reqs,
  sorter_ok a_start sort_reqs -> sorter_ok s_off sort_segs ->
  Forall areq_wf (map (annotate leads) reqs) ->
  NoDup (map fst (flat_map areq_pairs (map (annotate leads) reqs))) ->
  io_ok (aggregate sort_reqs sort_segs leads reqs) /\
  Permutation (io_pairs (aggregate sort_reqs sort_segs leads reqs))
              (flat_map areq_pairs (map (annotate leads) reqs)).
Proof.
  intros sort_reqs sort_segs leads reqs Hsr Hss Hwf Hnd.
  destruct reqs as [|r0 rs].
  - cbn [aggregate map flat_map]. split; [|apply perm_nil].
    split; [constructor|]. split; [constructor | reflexivity].
  - rewrite aggregate_eq by discriminate. apply aggregate_types_pairs; assumption.
Qed.

Theorem commit_stream_correct : forall sort_reqs sort_segs leads reqs file mem,
  sorter_ok a_start sort_reqs -> sorter_ok s_off sort_segs ->
  Forall areq_wf (map (annotate leads) reqs) ->
  NoDup (map fst (flat_map areq_pairs (map (annotate leads) reqs))) ->
  disk_eq (mpi_write file mem (aggregate sort_reqs sort_segs leads reqs))
          (write_pairs file mem (flat_map areq_pairs (map (annotate leads) reqs))).
Proof.
  intros sort_reqs sort_segs leads reqs file mem Hsr Hss Hwf Hnd.
  destruct (aggregate_pairs sort_reqs sort_segs leads reqs Hsr Hss Hwf Hnd) as (Hok & Hperm).
  eapply disk_eq_trans; [apply mpi_write_pairs_ok; exact Hok|].
  apply disk_eq_sym. apply write_pairs_perm; [apply Permutation_sym; exact Hperm | exact Hnd].
Qed.

Theorem commit_stream_correct_read : forall sort_reqs sort_segs leads reqs file mem,
  sorter_ok a_start sort_reqs -> sorter_ok s_off sort_segs ->
  Forall areq_wf (map (annotate leads) reqs) ->
  NoDup (map fst (flat_map areq_pairs (map (annotate leads) reqs))) ->
  NoDup (map snd (flat_map areq_pairs (map (annotate leads) reqs))) ->
  disk_eq (mpi_read file mem (aggregate sort_reqs sort_segs leads reqs))
          (read_pairs file mem (flat_map areq_pairs (map (annotate leads) reqs))).
Proof.
  intros sort_reqs sort_segs leads reqs file mem Hsr Hss Hwf Hnd Hnd2.
  destruct (aggregate_pairs sort_reqs sort_segs leads reqs Hsr Hss Hwf Hnd) as (Hok & Hperm).
  eapply disk_eq_trans; [apply mpi_read_pairs_ok; exact Hok|].
  apply disk_eq_sym. apply read_pairs_perm; [apply Permutation_sym; exact Hperm | exact Hnd2].
Qed.

(* the file view of an interleaved group is monotone: increasing, non-overlapping blocks *)
Theorem merge_requests_view_monotone : forall sort_segs l, sorter_ok s_off sort_segs ->
  Forall areq_wf l -> NoDup (map fst (flat_map areq_pairs l)) ->
  blocks_sep (segs_fview (merge_requests sort_segs l)).
Proof.
  intros sort_segs l Hsort Hwf Hnd.
  destruct (merge_requests_facts sort_segs l Hsort Hwf Hnd) as (Hpos & Hsep & _).
  unfold segs_fview. apply coalesce_list_sep; [apply segs_sep_blocks; exact Hsep|].
  apply Forall_map. eapply Forall_impl; [|exact Hpos]. intros s Hs. cbv beta in Hs. cbn [snd]. lia.
Qed.

(* the file view of the whole wait never addresses a file byte twice *)
Theorem commit_view_no_overlap : forall sort_reqs sort_segs leads reqs,
  sorter_ok a_start sort_reqs -> sorter_ok s_off sort_segs ->
  Forall areq_wf (map (annotate leads) reqs) ->
  NoDup (map fst (flat_map areq_pairs (map (annotate leads) reqs))) ->
  NoDup (blocks_bytes (io_f (aggregate sort_reqs sort_segs leads reqs))) /\
  Forall (fun b => 0 <= snd b) (io_f (aggregate sort_reqs sort_segs leads reqs)) /\
  Permutation (blocks_bytes (io_f (aggregate sort_reqs sort_segs leads reqs)))
              (map fst (flat_map areq_pairs (map (annotate leads) reqs))).
Proof.
  intros sort_reqs sort_segs leads reqs Hsr Hss Hwf Hnd.
  destruct (aggregate_pairs sort_reqs sort_segs leads reqs Hsr Hss Hwf Hnd) as (Hok & Hperm).
  rewrite <- (io_ok_fst_pairs _ Hok).
  assert (HP : Permutation (map fst (io_pairs (aggregate sort_reqs sort_segs leads reqs)))
                           (map fst (flat_map areq_pairs (map (annotate leads) reqs))))
    by (apply Permutation_map; exact Hperm).
  split; [|split].
  - eapply Permutation_NoDup; [apply Permutation_sym; exact HP | exact Hnd].
  - apply Hok.
  - exact HP.
Qed.

End WithGeometry.

(* ====================================================================== *)
(* 11. the concrete insertion sort is a sorter; examples; file-view facts  *)
(* ====================================================================== *)
Lemma insert_by_perm : forall A (key : A -> Z) x l, Permutation (insert_by key x l) (x :: l).
Proof.
  intros A key x l. induction l as [|a l IH]; cbn [insert_by].
  - apply Permutation_refl.
  - destruct (key x <=? key a); [apply Permutation_refl|].
    eapply perm_trans; [apply perm_skip; exact IH | apply perm_swap].
Qed.

Lemma insert_by_sorted : forall A (key : A -> Z) x l,
  StronglySorted (fun a b => key a <= key b) l ->
  StronglySorted (fun a b => key a <= key b) (insert_by key x l).
Proof.
  intros A key x l. induction l as [|a l IH]; intros HS; cbn [insert_by].
  - constructor; constructor.
  - apply StronglySorted_inv in HS. destruct HS as [HS1 HS2].
    destruct (Z.leb_spec (key x) (key a)) as [L|L].
    + constructor; [constructor; assumption|].
      apply Forall_cons; [exact L|]. eapply Forall_impl; [|exact HS2].
      intros b Hb. cbv beta in Hb. lia.
    + constructor; [apply IH; exact HS1|].
      eapply perm_Forall; [apply Permutation_sym; apply insert_by_perm|].
      apply Forall_cons; [lia | exact HS2].
Qed.

Theorem isort_sorter_ok : forall A (key : A -> Z), sorter_ok key (isort key).
Proof.
  intros A key l. unfold isort. induction l as [|x l [IHp IHs]]; cbn [fold_right].
  - split; [apply perm_nil | constructor].
  - split.
    + eapply perm_trans; [apply insert_by_perm | apply perm_skip; exact IHp].
    + apply insert_by_sorted. exact IHs.
Qed.

Lemma areq_wf_annotate : forall leads r,
  areq_wf (mkareq r (znth leads (r_lead_off r) dummy_lead) 0 0) -> areq_wf (annotate leads r).
Proof.
  intros leads r H. unfold areq_wf in *. cbv zeta in *.
  rewrite annotate_req, annotate_lead. cbn [a_req a_lead] in H. exact H.
Qed.

Lemma NoDup_by_nodup : forall l : list Z, nodup Z.eq_dec l = l -> NoDup l.
Proof. intros l H. rewrite <- H. apply NoDup_nodup. Qed.

(* Example for commit_stream_correct / commit_stream_correct_read: a 4x5 fixed-size variable of
   4-byte elements at offset 1024; three pending requests posted out of order (the sort runs), two
   of them interleaved in the file (one interleaved group, where two segments coalesce on the file
   side only, followed by a non-interleaved group). *)
Example commit_stream_correct_ex :
  let g := mkgeom 1024 4 [4; 5] 0 0 in
  let ld := mklead 0 g None 0 3 (-1) false false (-1) 5000 10 None 0 [] in
  let reqs := [mkreq 0 [3; 0] [1; 5] 5 5020; mkreq 0 [0; 1] [2; 2] 4 5000; mkreq 0 [1; 0] [1; 1] 1 5016] in
  sorter_ok a_start isort_reqs /\ sorter_ok s_off isort_segs /\
  Forall areq_wf (map (annotate [ld]) reqs) /\
  NoDup (map fst (flat_map areq_pairs (map (annotate [ld]) reqs))) /\
  NoDup (map snd (flat_map areq_pairs (map (annotate [ld]) reqs))) /\
  aggregate isort_reqs isort_segs [ld] reqs =
    mkio [(1028, 8); (1044, 12); (1084, 20)] [(5000, 8); (5016, 4); (5008, 8); (5020, 20)].
Proof.
  cbv zeta. split; [apply isort_sorter_ok|]. split; [apply isort_sorter_ok|].
  split; [|split; [|split]].
  - cbn [map].
    repeat (apply Forall_cons;
            [apply areq_wf_annotate;
             unfold areq_wf, wf_geom, rec_fits, rec_packed, dims_wf, req_stride, req_ok, dims_ok, g_isrec;
             cbn [a_req a_lead l_geom l_stride r_lead_off r_start r_count r_nelems znth Z.eqb
                  g_xsz g_recsize g_shape g_nrecvars ones_like map hd tl zprod length];
             repeat split; try lia; try discriminate; try (repeat constructor; lia)|]).
    apply Forall_nil.
  - apply NoDup_by_nodup. vm_compute. reflexivity.
  - apply NoDup_by_nodup. vm_compute. reflexivity.
  - vm_compute. reflexivity.
Qed.
