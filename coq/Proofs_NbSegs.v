(* Proofs_NbSegs.v — the request aggregation of the nonblocking wait (Nonblocking.v sections 5, 6)
   moves exactly the bytes of the specification (section 8 / NbSpec.v).
   No axioms.  Two geometric facts (proved in Proofs_NbGeom.v) are Section hypotheses of part 8 ff.

   Contents
     1  dk_write_commute                      writes to disjoint ranges commute
     2  disjoint_writes_commute               ... for any permutation of pairwise disjoint tiles
     3  write_pairs_get/_perm/_app, read_pairs_get/_perm/_app
     4  mpi_write_pairs, mpi_read_pairs       one MPI_File_write/read = the byte pairs of the two type maps
     5  coalesce_bytes, coalesce_list_bytes, construct_filetypes_bytes (+ nonneg, zsum)
     6  merge_segs_disjoint (+ positivity, separation)
     7  partition_groups_concat
     8  groups_stream_correct, mgetput_stream_correct (+ _read)
     9  commit_stream_correct   10 commit_stream_correct_read
     11 isort_sorter_ok, merge_requests_view_monotone *)
From Pnc Require Import NbSpec Proofs_Disk Proofs_Lists.
Require Import Lia ZArith List Bool ZifyBool.
Import ListNotations.
Local Open Scope Z_scope.
Local Arguments Z.mul : simpl never.
Local Arguments Z.add : simpl never.
Local Arguments Z.sub : simpl never.
Local Arguments Z.of_nat : simpl never.
Local Arguments Z.to_nat : simpl never.

(* ====================================================================== *)
(* 0. disk_eq, small list facts                                            *)
(* ====================================================================== *)
Lemma disk_eq_refl : forall d, disk_eq d d.
Proof. intros d x. reflexivity. Qed.

Lemma disk_eq_sym : forall a b, disk_eq a b -> disk_eq b a.
Proof. intros a b H x. symmetry. apply H. Qed.

Lemma disk_eq_trans : forall a b c, disk_eq a b -> disk_eq b c -> disk_eq a c.
Proof. intros a b c H1 H2 x. rewrite H1. apply H2. Qed.

Lemma dk_write_cong : forall a b o bs, disk_eq a b -> disk_eq (dk_write a o bs) (dk_write b o bs).
Proof.
  intros a b o bs H x. rewrite !dk_get_write.
  destruct ((o <=? x) && (x <? o + Zlen bs)); [reflexivity | apply H].
Qed.

Lemma dk_get_write1 : forall d o v x, dk_get (dk_write d o [v]) x = if o =? x then v else dk_get d x.
Proof.
  intros d o v x. rewrite dk_get_write. change (Zlen [v]) with 1.
  destruct (Z.eqb_spec o x) as [E|E].
  - subst x. replace ((o <=? o) && (o <? o + 1)) with true by lia.
    replace (o - o) with 0 by lia. reflexivity.
  - replace ((o <=? x) && (x <? o + 1)) with false by lia. reflexivity.
Qed.

Lemma NoDup_app_inv : forall A (a b : list A), NoDup (a ++ b) ->
  NoDup a /\ NoDup b /\ (forall x, In x a -> ~ In x b).
Proof.
  intros A a. induction a as [|x a IH]; intros b H.
  - cbn [app] in H. split; [constructor|]. split; [exact H|]. intros y [].
  - cbn [app] in H. apply NoDup_cons_iff in H. destruct H as [Hx H].
    destruct (IH b H) as (Ha & Hb & Hd).
    split.
    + constructor; [|exact Ha]. intros Hin. apply Hx. apply in_or_app. now left.
    + split; [exact Hb|]. intros y [Hy|Hy] Hyb.
      * subst y. apply Hx. apply in_or_app. now right.
      * exact (Hd y Hy Hyb).
Qed.

Lemma perm_flat_map : forall A B (f : A -> list B) l l',
  Permutation l l' -> Permutation (flat_map f l) (flat_map f l').
Proof.
  intros A B f l l' H.
  induction H as [|a l l' HP IH|a b l|l l' l'' HP1 IH1 HP2 IH2]; cbn [flat_map].
  - apply perm_nil.
  - apply Permutation_app_head. exact IH.
  - rewrite !app_assoc. apply Permutation_app_tail. apply Permutation_app_comm.
  - eapply perm_trans; eassumption.
Qed.

Lemma perm_Forall : forall A (P : A -> Prop) l l', Permutation l l' -> Forall P l -> Forall P l'.
Proof.
  intros A P l l' HP HF. rewrite Forall_forall in *. intros x Hx. apply HF.
  eapply Permutation_in; [apply Permutation_sym; exact HP | exact Hx].
Qed.

Lemma zip_flat_map : forall A B C (f : A -> list B) (g : A -> list C) l,
  (forall a, In a l -> length (f a) = length (g a)) ->
  zip (flat_map f l) (flat_map g l) = flat_map (fun a => zip (f a) (g a)) l.
Proof.
  intros A B C f g l. induction l as [|a l IH]; intros H; cbn [flat_map]; [reflexivity|].
  rewrite zip_app by (apply H; now left). rewrite IH; [reflexivity|].
  intros b Hb. apply H. now right.
Qed.

Lemma length_flat_map_eq : forall A B C (f : A -> list B) (g : A -> list C) l,
  (forall a, In a l -> length (f a) = length (g a)) ->
  length (flat_map f l) = length (flat_map g l).
Proof.
  intros A B C f g l. induction l as [|a l IH]; intros H; cbn [flat_map]; [reflexivity|].
  rewrite !app_length. rewrite (H a) by (now left). rewrite IH; [reflexivity|].
  intros b Hb. apply H. now right.
Qed.

Lemma zfirstn_zskipn : forall A n (l : list A), zfirstn n l ++ zskipn n l = l.
Proof.
  intros A n l. revert n. induction l as [|x l IH]; intros n; cbn [zfirstn zskipn].
  - reflexivity.
  - destruct (n <=? 0); [reflexivity|]. cbn [app]. now rewrite IH.
Qed.

Lemma Zlen_zfirstn_le : forall A n (l : list A), 0 <= n <= Zlen l -> Zlen (zfirstn n l) = n.
Proof.
  intros A n l. revert n. induction l as [|x l IH]; intros n Hn.
  - rewrite Proofs_Disk.Zlen_nil in Hn. cbn [zfirstn]. rewrite Proofs_Disk.Zlen_nil. lia.
  - rewrite Proofs_Disk.Zlen_cons in Hn. cbn [zfirstn].
    destruct (Z.leb_spec n 0) as [E|E].
    + rewrite Proofs_Disk.Zlen_nil. lia.
    + rewrite Proofs_Disk.Zlen_cons, IH by lia. lia.
Qed.

Lemma zrange_Zlen_cons : forall A o (b : A) bs,
  zrange o (Zlen (b :: bs)) = o :: zrange (o + 1) (Zlen bs).
Proof.
  intros A o b bs. unfold zrange, Zlen. cbn [length]. rewrite !Nat2Z.id. reflexivity.
Qed.

(* ====================================================================== *)
(* 1. two writes to disjoint ranges commute                                *)
(* ====================================================================== *)
Theorem dk_write_commute : forall d o1 b1 o2 b2,
  (o1 + Zlen b1 <= o2 \/ o2 + Zlen b2 <= o1) ->
  disk_eq (dk_write (dk_write d o1 b1) o2 b2) (dk_write (dk_write d o2 b2) o1 b1).
Proof.
  intros d o1 b1 o2 b2 H x. rewrite !dk_get_write.
  destruct ((o2 <=? x) && (x <? o2 + Zlen b2)) eqn:E2;
    destruct ((o1 <=? x) && (x <? o1 + Zlen b1)) eqn:E1; try reflexivity.
  exfalso. lia.
Qed.

(* ====================================================================== *)
(* 2. any permutation of pairwise disjoint writes gives the same disk      *)
(* ====================================================================== *)
Definition tiles_disjoint (l : list (Z * list byte)) : Prop :=
  ForallOrdPairs (fun p q => fst p + Zlen (snd p) <= fst q \/ fst q + Zlen (snd q) <= fst p) l.

Lemma covered_dec : forall (l : list (Z * list byte)) x,
  (exists p, In p l /\ covers p x) \/ (forall p, In p l -> ~ covers p x).
Proof.
  intros l x. induction l as [|q l IH].
  - right. intros p [].
  - destruct IH as [[p [Hp Hc]]|Hn].
    + left. exists p. split; [now right | exact Hc].
    + destruct (Z_le_dec (fst q) x) as [H1|H1].
      * destruct (Z_lt_dec x (fst q + Zlen (snd q))) as [H2|H2].
        -- left. exists q. split; [now left | unfold covers; lia].
        -- right. intros p [Hp|Hp]; [subst p; unfold covers; lia | now apply Hn].
      * right. intros p [Hp|Hp]; [subst p; unfold covers; lia | now apply Hn].
Qed.

Theorem disjoint_writes_commute : forall tiles tiles' d,
  Permutation tiles tiles' -> tiles_disjoint tiles ->
  disk_eq (write_tiles tiles d) (write_tiles tiles' d).
Proof.
  intros tiles tiles' d HP HD x.
  destruct (covered_dec tiles x) as [[p [Hp Hc]]|Hn].
  - assert (Huniq : forall q, In q tiles -> covers q x -> q = p).
    { intros q Hq Hcq.
      destruct (@ForallOrdPairs_In _ _ _ HD q p Hq Hp) as [E|[E|E]]; [exact E| |];
        unfold covers in Hc, Hcq; exfalso; lia. }
    rewrite (write_tiles_get_in tiles d x (znth (snd p) (x - fst p) 0)).
    + symmetry. apply write_tiles_get_in.
      * exists p. split; [eapply Permutation_in; eassumption | exact Hc].
      * intros q Hq Hcq. rewrite (Huniq q); [reflexivity | | exact Hcq].
        eapply Permutation_in; [apply Permutation_sym; eassumption | exact Hq].
    + exists p. split; assumption.
    + intros q Hq Hcq. now rewrite (Huniq q Hq Hcq).
  - rewrite !write_tiles_get_out; [reflexivity | | exact Hn].
    intros p Hp. apply Hn. eapply Permutation_in; [apply Permutation_sym; eassumption | exact Hp].
Qed.

Example disjoint_writes_commute_ex :
  let t := [(10, [1; 2; 3]); (0, [4; 5]); (13, [6]); (5, [7; 8; 9])] in
  tiles_disjoint t /\ Permutation t (rev t) /\
  map (dk_get (write_tiles (rev t) empty_disk)) (zrange 0 15) = [4; 5; -1; -1; -1; 7; 8; 9; -1; -1; 1; 2; 3; 6; -1].
Proof.
  cbv zeta. split; [|split].
  - unfold tiles_disjoint.
    repeat (apply FOP_cons;
            [repeat (apply Forall_cons; [cbn [fst snd]; unfold Zlen; cbn [length]; lia|]); apply Forall_nil|]).
    apply FOP_nil.
  - apply Permutation_rev.
  - vm_compute. reflexivity.
Qed.

(* ====================================================================== *)
(* 3. write_pairs / read_pairs: lookup, permutation, append                *)
(* ====================================================================== *)
(* common shape of write_pairs and read_pairs: single-byte writes at key kf p of value vf p *)
Definition upd_pairs (kf : Z * Z -> Z) (vf : Z * Z -> byte) (d : disk) (ps : list (Z * Z)) : disk :=
  fold_left (fun f p => dk_write f (kf p) [vf p]) ps d.

Lemma write_pairs_upd : forall file mem ps,
  write_pairs file mem ps = upd_pairs fst (fun p => dk_get mem (snd p)) file ps.
Proof. reflexivity. Qed.

Lemma read_pairs_upd : forall file mem ps,
  read_pairs file mem ps = upd_pairs snd (fun p => dk_get file (fst p)) mem ps.
Proof. reflexivity. Qed.

Lemma upd_pairs_cons : forall kf vf d p ps,
  upd_pairs kf vf d (p :: ps) = upd_pairs kf vf (dk_write d (kf p) [vf p]) ps.
Proof. reflexivity. Qed.

Lemma upd_pairs_app : forall kf vf d a b,
  upd_pairs kf vf d (a ++ b) = upd_pairs kf vf (upd_pairs kf vf d a) b.
Proof. intros. unfold upd_pairs. apply fold_left_app. Qed.

Lemma upd_pairs_cong : forall kf vf ps d d',
  disk_eq d d' -> disk_eq (upd_pairs kf vf d ps) (upd_pairs kf vf d' ps).
Proof.
  intros kf vf ps. induction ps as [|p ps IH]; intros d d' H.
  - exact H.
  - rewrite !upd_pairs_cons. apply IH. apply dk_write_cong. exact H.
Qed.

Lemma find_key_none : forall (kf : Z * Z -> Z) ps x,
  ~ In x (map kf ps) -> find (fun p => kf p =? x) ps = None.
Proof.
  intros kf ps x. induction ps as [|a ps IH]; cbn [map In find]; intros H; [reflexivity|].
  destruct (Z.eqb_spec (kf a) x) as [E|E]; [exfalso; apply H; now left|].
  apply IH. intros H'. apply H. now right.
Qed.

Lemma upd_pairs_get : forall kf vf ps d x, NoDup (map kf ps) ->
  dk_get (upd_pairs kf vf d ps) x =
  match find (fun p => kf p =? x) ps with Some p => vf p | None => dk_get d x end.
Proof.
  intros kf vf ps. induction ps as [|p ps IH]; intros d x Hnd.
  - reflexivity.
  - cbn [map] in Hnd. apply NoDup_cons_iff in Hnd. destruct Hnd as [Hnotin Hnd].
    rewrite upd_pairs_cons, IH by exact Hnd. cbn [find].
    destruct (Z.eqb_spec (kf p) x) as [E|E].
    + subst x. rewrite find_key_none by exact Hnotin.
      rewrite dk_get_write1, Z.eqb_refl. reflexivity.
    + destruct (find (fun p0 => kf p0 =? x) ps) as [q|]; [reflexivity|].
      rewrite dk_get_write1. destruct (Z.eqb_spec (kf p) x) as [E'|E']; [contradiction | reflexivity].
Qed.

Lemma find_key_perm : forall (kf : Z * Z -> Z) x ps ps',
  Permutation ps ps' -> NoDup (map kf ps) ->
  find (fun p => kf p =? x) ps = find (fun p => kf p =? x) ps'.
Proof.
  intros kf x ps ps' HP.
  induction HP as [|a l l' HP IH|a b l|l l' l'' HP1 IH1 HP2 IH2]; intros Hnd.
  - reflexivity.
  - cbn [find]. destruct (kf a =? x); [reflexivity|]. apply IH.
    cbn [map] in Hnd. apply NoDup_cons_iff in Hnd. apply Hnd.
  - cbn [find].
    destruct (Z.eqb_spec (kf b) x) as [E1|E1]; destruct (Z.eqb_spec (kf a) x) as [E2|E2];
      try reflexivity.
    exfalso. cbn [map] in Hnd. apply NoDup_cons_iff in Hnd. destruct Hnd as [Hn _].
    apply Hn. left. congruence.
  - rewrite IH1 by exact Hnd. apply IH2.
    eapply Permutation_NoDup; [|exact Hnd]. apply Permutation_map. exact HP1.
Qed.

Lemma upd_pairs_perm : forall kf vf ps ps' d,
  Permutation ps ps' -> NoDup (map kf ps) ->
  disk_eq (upd_pairs kf vf d ps) (upd_pairs kf vf d ps').
Proof.
  intros kf vf ps ps' d HP Hnd x.
  assert (Hnd' : NoDup (map kf ps'))
    by (eapply Permutation_NoDup; [apply Permutation_map; exact HP | exact Hnd]).
  rewrite (upd_pairs_get kf vf ps d x Hnd), (upd_pairs_get kf vf ps' d x Hnd').
  rewrite (find_key_perm kf x ps ps' HP Hnd). reflexivity.
Qed.

Theorem write_pairs_get : forall ps file mem x, NoDup (map fst ps) ->
  dk_get (write_pairs file mem ps) x =
  match find (fun p => fst p =? x) ps with Some p => dk_get mem (snd p) | None => dk_get file x end.
Proof.
  intros ps file mem x H.
  exact (upd_pairs_get fst (fun p => dk_get mem (snd p)) ps file x H).
Qed.

Theorem write_pairs_perm : forall ps ps' file mem, Permutation ps ps' -> NoDup (map fst ps) ->
  disk_eq (write_pairs file mem ps) (write_pairs file mem ps').
Proof.
  intros ps ps' file mem HP H.
  exact (upd_pairs_perm fst (fun p => dk_get mem (snd p)) ps ps' file HP H).
Qed.

Theorem write_pairs_app : forall a b file mem,
  write_pairs file mem (a ++ b) = write_pairs (write_pairs file mem a) mem b.
Proof. intros. unfold write_pairs. apply fold_left_app. Qed.

Theorem read_pairs_get : forall ps file mem x, NoDup (map snd ps) ->
  dk_get (read_pairs file mem ps) x =
  match find (fun p => snd p =? x) ps with Some p => dk_get file (fst p) | None => dk_get mem x end.
Proof.
  intros ps file mem x H.
  exact (upd_pairs_get snd (fun p => dk_get file (fst p)) ps mem x H).
Qed.

Theorem read_pairs_perm : forall ps ps' file mem, Permutation ps ps' -> NoDup (map snd ps) ->
  disk_eq (read_pairs file mem ps) (read_pairs file mem ps').
Proof.
  intros ps ps' file mem HP H.
  exact (upd_pairs_perm snd (fun p => dk_get file (fst p)) ps ps' mem HP H).
Qed.

Theorem read_pairs_app : forall a b file mem,
  read_pairs file mem (a ++ b) = read_pairs file (read_pairs file mem a) b.
Proof. intros. unfold read_pairs. apply fold_left_app. Qed.

Lemma write_pairs_cong : forall ps file file' mem,
  disk_eq file file' -> disk_eq (write_pairs file mem ps) (write_pairs file' mem ps).
Proof. intros ps file file' mem H. exact (upd_pairs_cong _ _ ps file file' H). Qed.

(* ====================================================================== *)
(* 4. the MPI-IO call = the byte pairs of the two type maps                *)
(* ====================================================================== *)
(* single-byte writes of the values vs at the positions ks *)
Definition upd2 (d : disk) (ks : list Z) (vs : list byte) : disk := upd_pairs fst snd d (zip ks vs).

Lemma upd2_cong : forall ks vs d d', disk_eq d d' -> disk_eq (upd2 d ks vs) (upd2 d' ks vs).
Proof. intros. unfold upd2. apply upd_pairs_cong. assumption. Qed.

Lemma upd2_app : forall ks1 ks2 (vs1 vs2 : list byte) d, length ks1 = length vs1 ->
  upd2 d (ks1 ++ ks2) (vs1 ++ vs2) = upd2 (upd2 d ks1 vs1) ks2 vs2.
Proof. intros. unfold upd2. rewrite zip_app by assumption. apply upd_pairs_app. Qed.

Lemma upd2_cons : forall d k ks v vs, upd2 d (k :: ks) (v :: vs) = upd2 (dk_write d k [v]) ks vs.
Proof. reflexivity. Qed.

Lemma dk_write_cons : forall d o b bs,
  disk_eq (dk_write d o (b :: bs)) (dk_write (dk_write d o [b]) (o + 1) bs).
Proof.
  intros d o b bs x. rewrite (dk_get_write d), (dk_get_write (dk_write d o [b])), dk_get_write1.
  rewrite Proofs_Disk.Zlen_cons. pose proof (Proofs_Disk.Zlen_nonneg bs) as Hn.
  destruct (Z.eqb_spec o x) as [E3|E3].
  - subst x. replace ((o <=? o) && (o <? o + (Zlen bs + 1))) with true by lia.
    replace ((o + 1 <=? o) && (o <? o + 1 + Zlen bs)) with false by lia.
    replace (o - o) with 0 by lia. reflexivity.
  - destruct ((o + 1 <=? x) && (x <? o + 1 + Zlen bs)) eqn:E2.
    + replace ((o <=? x) && (x <? o + (Zlen bs + 1))) with true by lia.
      cbn [znth]. destruct (Z.eqb_spec (x - o) 0) as [E4|E4]; [lia|]. f_equal. lia.
    + replace ((o <=? x) && (x <? o + (Zlen bs + 1))) with false by lia. reflexivity.
Qed.

(* one block write = its single-byte writes, in order *)
Lemma dk_write_upd2 : forall bs d o, disk_eq (dk_write d o bs) (upd2 d (zrange o (Zlen bs)) bs).
Proof.
  induction bs as [|b bs IH]; intros d o.
  - intros x. reflexivity.
  - rewrite zrange_Zlen_cons, upd2_cons.
    eapply disk_eq_trans; [apply dk_write_cons | apply IH].
Qed.

Lemma blocks_bytes_cons : forall b r, blocks_bytes (b :: r) = zrange (fst b) (snd b) ++ blocks_bytes r.
Proof. reflexivity. Qed.

Lemma blocks_bytes_single : forall b, blocks_bytes [b] = zrange (fst b) (snd b).
Proof. intros b. rewrite blocks_bytes_cons. apply app_nil_r. Qed.

Lemma blocks_bytes_app : forall a b, blocks_bytes (a ++ b) = blocks_bytes a ++ blocks_bytes b.
Proof. intros. unfold blocks_bytes. apply flat_map_app. Qed.

Lemma Zlen_blocks_bytes : forall b, Forall (fun p => 0 <= snd p) b ->
  Zlen (blocks_bytes b) = zsum (map snd b).
Proof.
  induction b as [|p b IH]; intros H.
  - reflexivity.
  - apply Forall_cons_iff in H. destruct H as [Hp Hb].
    rewrite blocks_bytes_cons, Proofs_Disk.Zlen_app, Zlen_zrange, IH by exact Hb.
    cbn [map zsum]. lia.
Qed.

Lemma write_chunks_upd2 : forall fb d stream,
  Forall (fun b => 0 <= snd b) fb -> zsum (map snd fb) <= Zlen stream ->
  disk_eq (write_chunks d fb stream) (upd2 d (blocks_bytes fb) stream).
Proof.
  induction fb as [|[o l] r IH]; intros d stream Hnn Hlen.
  - intros x. reflexivity.
  - apply Forall_cons_iff in Hnn. destruct Hnn as [Hl Hr]. cbn [snd] in Hl.
    cbn [map zsum snd] in Hlen.
    assert (Hr0 : 0 <= zsum (map snd r)).
    { rewrite <- Zlen_blocks_bytes by exact Hr. apply Proofs_Disk.Zlen_nonneg. }
    cbn [write_chunks]. rewrite blocks_bytes_cons. cbn [fst snd].
    pose proof (zfirstn_zskipn _ l stream) as Hsplit.
    assert (Hl1 : Zlen (zfirstn l stream) = l) by (apply Zlen_zfirstn_le; lia).
    remember (zfirstn l stream) as s1 eqn:Es1. remember (zskipn l stream) as s2 eqn:Es2.
    rewrite <- Hsplit.
    assert (Hl2 : Zlen s2 = Zlen stream - l).
    { rewrite <- Hsplit, Proofs_Disk.Zlen_app. lia. }
    rewrite upd2_app by (rewrite zrange_length; unfold Zlen in Hl1; lia).
    eapply disk_eq_trans; [apply IH; [exact Hr | lia]|].
    apply upd2_cong. rewrite <- Hl1. apply dk_write_upd2.
Qed.

Lemma gather_blocks_bytes : forall d b, gather_blocks d b = map (dk_get d) (blocks_bytes b).
Proof.
  intros d b. unfold gather_blocks, blocks_bytes. rewrite map_flat_map_comm. reflexivity.
Qed.

Lemma fold_zip_map : forall (g : Z -> byte) A B d,
  fold_left (fun f p => dk_write f (fst p) [g (snd p)]) (zip A B) d =
  fold_left (fun f (p : Z * byte) => dk_write f (fst p) [snd p]) (zip A (map g B)) d.
Proof.
  intros g A. induction A as [|a A IH]; intros B d; destruct B as [|b B];
    cbn [zip map fold_left fst snd]; try reflexivity. apply IH.
Qed.

Lemma fold_zip_swap : forall (g : Z -> byte) A B d,
  fold_left (fun m p => dk_write m (snd p) [g (fst p)]) (zip A B) d =
  fold_left (fun f (p : Z * byte) => dk_write f (fst p) [snd p]) (zip B (map g A)) d.
Proof.
  intros g A. induction A as [|a A IH]; intros B d; destruct B as [|b B];
    cbn [zip map fold_left fst snd]; try reflexivity. apply IH.
Qed.

Lemma write_pairs_zip : forall A B file mem,
  write_pairs file mem (zip A B) = upd2 file A (map (dk_get mem) B).
Proof. intros A B file mem. exact (fold_zip_map (dk_get mem) A B file). Qed.

Lemma read_pairs_zip : forall A B file mem,
  read_pairs file mem (zip A B) = upd2 mem B (map (dk_get file) A).
Proof. intros A B file mem. exact (fold_zip_swap (dk_get file) A B mem). Qed.

Theorem mpi_write_pairs : forall file mem t,
  Forall (fun b => 0 <= snd b) (io_f t) -> Forall (fun b => 0 <= snd b) (io_b t) ->
  zsum (map snd (io_f t)) = zsum (map snd (io_b t)) ->
  disk_eq (mpi_write file mem t) (write_pairs file mem (io_pairs t)).
Proof.
  intros file mem t Hf Hb Hs. unfold mpi_write, io_pairs.
  rewrite write_pairs_zip, gather_blocks_bytes.
  apply write_chunks_upd2; [exact Hf|].
  rewrite Proofs_Disk.Zlen_map, Zlen_blocks_bytes by exact Hb. lia.
Qed.

Theorem mpi_read_pairs : forall file mem t,
  Forall (fun b => 0 <= snd b) (io_f t) -> Forall (fun b => 0 <= snd b) (io_b t) ->
  zsum (map snd (io_f t)) = zsum (map snd (io_b t)) ->
  disk_eq (mpi_read file mem t) (read_pairs file mem (io_pairs t)).
Proof.
  intros file mem t Hf Hb Hs. unfold mpi_read, io_pairs.
  rewrite read_pairs_zip, gather_blocks_bytes.
  apply write_chunks_upd2; [exact Hb|].
  rewrite Proofs_Disk.Zlen_map, Zlen_blocks_bytes by exact Hf. lia.
Qed.

(* ====================================================================== *)
(* 5. type-map surgery preserves the bytes                                 *)
(* ====================================================================== *)
Definition nonneg_blocks (b : blocks) : Prop := Forall (fun p => 0 <= snd p) b.

Lemma coalesce_facts : forall rest cur, nonneg_blocks (cur :: rest) ->
  blocks_bytes (coalesce cur rest) = blocks_bytes (cur :: rest) /\
  nonneg_blocks (coalesce cur rest) /\
  zsum (map snd (coalesce cur rest)) = zsum (map snd (cur :: rest)).
Proof.
  unfold nonneg_blocks.
  induction rest as [|[o l] r IH]; intros cur H.
  - cbn [coalesce]. split; [reflexivity|]. split; [exact H | reflexivity].
  - apply Forall_cons_iff in H. destruct H as [Hc H].
    apply Forall_cons_iff in H. destruct H as [Hl Hr]. cbn [snd] in Hl.
    cbn [coalesce]. destruct (Z.eqb_spec (fst cur + snd cur) o) as [E|E].
    + destruct (IH (fst cur, snd cur + l)) as (B & N & S).
      { apply Forall_cons; [cbn [snd]; lia | exact Hr]. }
      split; [|split].
      * rewrite B. rewrite !blocks_bytes_cons. cbn [fst snd].
        rewrite zrange_app by assumption. rewrite E, app_assoc. reflexivity.
      * exact N.
      * rewrite S. cbn [map zsum snd]. lia.
    + destruct (IH (o, l)) as (B & N & S).
      { apply Forall_cons; [exact Hl | exact Hr]. }
      split; [|split].
      * rewrite blocks_bytes_cons, B. reflexivity.
      * apply Forall_cons; [exact Hc | exact N].
      * cbn [map zsum]. rewrite S. reflexivity.
Qed.

Theorem coalesce_bytes : forall cur rest, Forall (fun b => 0 <= snd b) (cur :: rest) ->
  blocks_bytes (coalesce cur rest) = blocks_bytes (cur :: rest).
Proof. intros cur rest H. apply (coalesce_facts rest cur H). Qed.

Theorem coalesce_nonneg : forall cur rest, Forall (fun b => 0 <= snd b) (cur :: rest) ->
  Forall (fun b => 0 <= snd b) (coalesce cur rest).
Proof. intros cur rest H. apply (coalesce_facts rest cur H). Qed.

Theorem coalesce_zsum : forall cur rest, Forall (fun b => 0 <= snd b) (cur :: rest) ->
  zsum (map snd (coalesce cur rest)) = zsum (map snd (cur :: rest)).
Proof. intros cur rest H. apply (coalesce_facts rest cur H). Qed.

Theorem coalesce_list_bytes : forall b, Forall (fun p => 0 <= snd p) b ->
  blocks_bytes (coalesce_list b) = blocks_bytes b.
Proof. intros [|x r] H; [reflexivity|]. apply coalesce_bytes. exact H. Qed.

Theorem coalesce_list_nonneg : forall b, Forall (fun p => 0 <= snd p) b ->
  Forall (fun p => 0 <= snd p) (coalesce_list b).
Proof. intros [|x r] H; [constructor|]. apply coalesce_nonneg. exact H. Qed.

Theorem coalesce_list_zsum : forall b, Forall (fun p => 0 <= snd p) b ->
  zsum (map snd (coalesce_list b)) = zsum (map snd b).
Proof. intros [|x r] H; [reflexivity|]. apply coalesce_zsum. exact H. Qed.

(* construct_filetypes *)
Definition opt_block (last : option (Z * Z)) : blocks := match last with Some b => [b] | None => [] end.

Definition cf_spec (fts : list (bool * blocks)) (last : option (Z * Z)) : Prop :=
  blocks_bytes (construct_filetypes fts last) =
    blocks_bytes (opt_block last) ++ flat_map (fun ft => blocks_bytes (snd ft)) fts /\
  nonneg_blocks (construct_filetypes fts last) /\
  zsum (map snd (construct_filetypes fts last)) =
    zsum (map snd (opt_block last)) + zsum (map (fun ft => zsum (map snd (snd ft))) fts).

(* the generic branch of construct_filetypes *)
Lemma cf_generic : forall b bl r last,
  construct_filetypes ((b, bl) :: r) last = opt_block last ++ bl ++ construct_filetypes r None ->
  nonneg_blocks (opt_block last) -> nonneg_blocks bl -> cf_spec r None ->
  cf_spec ((b, bl) :: r) last.
Proof.
  intros b bl r last E Hl Hbl (B & N & S). unfold cf_spec. rewrite E.
  cbn [opt_block app] in B, S. cbn [flat_map snd map].
  split; [|split].
  - rewrite !blocks_bytes_app, B. reflexivity.
  - unfold nonneg_blocks. apply Forall_app. split; [exact Hl|].
    apply Forall_app. split; [exact Hbl | exact N].
  - assert (Hz : forall a c, zsum (a ++ c) = zsum a + zsum c).
    { induction a as [|x a IHa]; intros c; cbn [app zsum]; [lia | rewrite IHa; lia]. }
    rewrite !map_app, !Hz, S. cbn [map zsum]. lia.
Qed.

Lemma construct_filetypes_facts : forall fts last,
  Forall (fun ft => nonneg_blocks (snd ft)) fts -> nonneg_blocks (opt_block last) ->
  cf_spec fts last.
Proof.
  induction fts as [|[b bl] r IH]; intros last Hf Hl.
  - unfold cf_spec. cbn [construct_filetypes flat_map map zsum]. fold (opt_block last).
    rewrite app_nil_r. split; [reflexivity|]. split; [exact Hl | lia].
  - apply Forall_cons_iff in Hf. destruct Hf as [Hbl Hr]. cbn [snd] in Hbl.
    assert (HN : cf_spec r None) by (apply IH; [exact Hr | constructor]).
    destruct b; [destruct bl as [|[o l] [|x tl]]|]; try (apply cf_generic; [reflexivity | assumption ..]).
    (* (true, [(o,l)]) *)
    assert (Hl0 : 0 <= l).
    { unfold nonneg_blocks in Hbl. apply Forall_cons_iff in Hbl. apply Hbl. }
    destruct last as [[lo ll]|].
    + assert (Hll : 0 <= ll).
      { unfold nonneg_blocks in Hl. cbn [opt_block] in Hl. apply Forall_cons_iff in Hl. apply Hl. }
      cbn [construct_filetypes]. destruct (Z.eqb_spec (o - lo) ll) as [E|E].
      * destruct (IH (Some (lo, ll + l)) Hr) as (B & N & S).
        { cbn [opt_block]. apply Forall_cons; [cbn [snd]; lia | constructor]. }
        unfold cf_spec. cbn [construct_filetypes]. rewrite (proj2 (Z.eqb_eq (o - lo) ll) E).
        split; [|split].
        -- rewrite B. cbn [opt_block flat_map snd]. rewrite !blocks_bytes_single. cbn [fst snd].
           rewrite zrange_app by assumption. replace (lo + ll) with o by lia.
           rewrite <- app_assoc. reflexivity.
        -- exact N.
        -- rewrite S. cbn [opt_block map zsum snd]. lia.
      * destruct (IH (Some (o, l)) Hr) as (B & N & S).
        { cbn [opt_block]. apply Forall_cons; [cbn [snd]; lia | constructor]. }
        unfold cf_spec. cbn [construct_filetypes].
        rewrite (proj2 (Z.eqb_neq (o - lo) ll) E).
        split; [|split].
        -- rewrite blocks_bytes_cons, B. cbn [opt_block flat_map snd fst].
           rewrite !blocks_bytes_single. cbn [fst snd]. reflexivity.
        -- apply Forall_cons; [cbn [snd]; lia | exact N].
        -- cbn [map zsum snd]. rewrite S. cbn [opt_block map zsum snd]. lia.
    + destruct (IH (Some (o, l)) Hr) as (B & N & S).
      { cbn [opt_block]. apply Forall_cons; [cbn [snd]; lia | constructor]. }
      unfold cf_spec. cbn [construct_filetypes].
      split; [|split].
      * rewrite B. cbn [opt_block flat_map snd app]. reflexivity.
      * exact N.
      * rewrite S. cbn [opt_block map zsum snd]. lia.
Qed.

Theorem construct_filetypes_bytes : forall fts last,
  Forall (fun ft => Forall (fun b => 0 <= snd b) (snd ft)) fts ->
  Forall (fun b => 0 <= snd b) (match last with Some b => [b] | None => [] end) ->
  blocks_bytes (construct_filetypes fts last) =
  blocks_bytes (match last with Some b => [b] | None => [] end) ++
  flat_map (fun ft => blocks_bytes (snd ft)) fts.
Proof. intros fts last Hf Hl. apply (construct_filetypes_facts fts last Hf Hl). Qed.

Theorem construct_filetypes_nonneg : forall fts last,
  Forall (fun ft => Forall (fun b => 0 <= snd b) (snd ft)) fts ->
  Forall (fun b => 0 <= snd b) (match last with Some b => [b] | None => [] end) ->
  Forall (fun b => 0 <= snd b) (construct_filetypes fts last).
Proof. intros fts last Hf Hl. apply (construct_filetypes_facts fts last Hf Hl). Qed.

Theorem construct_filetypes_zsum : forall fts last,
  Forall (fun ft => Forall (fun b => 0 <= snd b) (snd ft)) fts ->
  Forall (fun b => 0 <= snd b) (match last with Some b => [b] | None => [] end) ->
  zsum (map snd (construct_filetypes fts last)) =
  zsum (map snd (match last with Some b => [b] | None => [] end)) +
  zsum (map (fun ft => zsum (map snd (snd ft))) fts).
Proof. intros fts last Hf Hl. apply (construct_filetypes_facts fts last Hf Hl). Qed.

(* ====================================================================== *)
(* 6. merge_segs on segments that address no file byte twice               *)
(* ====================================================================== *)
Lemma segs_pairs_cons : forall s r, segs_pairs (s :: r) = seg_pairs s ++ segs_pairs r.
Proof. reflexivity. Qed.

Lemma segs_pairs_app : forall a b, segs_pairs (a ++ b) = segs_pairs a ++ segs_pairs b.
Proof. intros. unfold segs_pairs. apply flat_map_app. Qed.

Lemma map_fst_seg_pairs : forall s, map fst (seg_pairs s) = zrange (s_off s) (s_len s).
Proof. intros s. unfold seg_pairs. apply map_fst_zip. rewrite !zrange_length. reflexivity. Qed.

Lemma map_fst_segs_pairs : forall l,
  map fst (segs_pairs l) = flat_map (fun s => zrange (s_off s) (s_len s)) l.
Proof.
  intros l. unfold segs_pairs. rewrite map_flat_map_comm. apply flat_map_ext_In.
  intros a _. apply map_fst_seg_pairs.
Qed.

(* every segment ends before every later one begins *)
Definition segs_sep (l : list seg) : Prop := StronglySorted (fun a b => s_off a + s_len a <= s_off b) l.

Lemma sorted_nodup_sep : forall l,
  StronglySorted (fun a b => s_off a <= s_off b) l -> Forall (fun x => 0 < s_len x) l ->
  NoDup (map fst (segs_pairs l)) -> segs_sep l.
Proof.
  intros l HS HP HN. rewrite map_fst_segs_pairs in HN.
  induction l as [|s r IH]; [constructor|].
  apply StronglySorted_inv in HS. destruct HS as [HSr HSs].
  apply Forall_cons_iff in HP. destruct HP as [Hs Hr].
  cbn [flat_map] in HN. apply NoDup_app_inv in HN. destruct HN as (_ & HNr & HD).
  constructor; [apply IH; assumption|]. clear IH.
  apply Forall_forall. intros b Hb.
  pose proof (proj1 (Forall_forall _ _) HSs b Hb) as Hsb. cbv beta in Hsb.
  pose proof (proj1 (Forall_forall _ _) Hr b Hb) as Hlb. cbv beta in Hlb.
  destruct (Z_le_dec (s_off s + s_len s) (s_off b)) as [L|L]; [exact L|]. exfalso.
  apply (HD (s_off b)).
  - apply zrange_In. lia.
  - apply in_flat_map. exists b. split; [exact Hb|]. apply zrange_In. lia.
Qed.

Lemma seg_pairs_split : forall o l1 l2 a, 0 <= l1 -> 0 <= l2 ->
  seg_pairs (o, l1 + l2, a) = seg_pairs (o, l1, a) ++ seg_pairs (o + l1, l2, a + l1).
Proof.
  intros o l1 l2 a H1 H2. unfold seg_pairs, s_off, s_len, s_addr. cbn [fst snd].
  rewrite !zrange_app by assumption. apply zip_app. rewrite !zrange_length. reflexivity.
Qed.

Lemma merge_segs_sep_facts : forall rest cur,
  segs_sep (cur :: rest) -> Forall (fun x => 0 < s_len x) (cur :: rest) ->
  segs_pairs (merge_segs cur rest) = segs_pairs (cur :: rest) /\
  Forall (fun x => 0 < s_len x) (merge_segs cur rest) /\
  segs_sep (merge_segs cur rest) /\
  Forall (fun x => s_off cur <= s_off x) (merge_segs cur rest).
Proof.
  induction rest as [|j r IH]; intros cur HS HP.
  - cbn [merge_segs]. split; [reflexivity|]. split; [exact HP|]. split; [exact HS|].
    constructor; [lia | constructor].
  - destruct cur as [[oi li] ai]. destruct j as [[oj lj] aj].
    apply StronglySorted_inv in HS. destruct HS as [HSr HSc].
    apply Forall_cons_iff in HSc. destruct HSc as [Hcj Hcr].
    unfold s_off, s_len in Hcj. cbn [fst snd] in Hcj.
    apply Forall_cons_iff in HP. destruct HP as [Hpi HPr].
    pose proof HPr as HPr'. apply Forall_cons_iff in HPr'. destruct HPr' as [Hpj HPr2].
    unfold s_len in Hpi, Hpj. cbn [fst snd] in Hpi, Hpj.
    (* the "keep cur, continue with j" outcome *)
    assert (K : segs_pairs ((oi, li, ai) :: merge_segs (oj, lj, aj) r) =
                segs_pairs ((oi, li, ai) :: (oj, lj, aj) :: r) /\
                Forall (fun x => 0 < s_len x) ((oi, li, ai) :: merge_segs (oj, lj, aj) r) /\
                segs_sep ((oi, li, ai) :: merge_segs (oj, lj, aj) r) /\
                Forall (fun x => s_off (oi, li, ai) <= s_off x) ((oi, li, ai) :: merge_segs (oj, lj, aj) r)).
    { destruct (IH (oj, lj, aj) HSr HPr) as (P & Q & S & F).
      split; [|split; [|split]].
      - rewrite segs_pairs_cons, P. reflexivity.
      - apply Forall_cons; [unfold s_len; cbn [fst snd]; lia | exact Q].
      - constructor; [exact S|]. eapply Forall_impl; [|exact F].
        intros x Hx. unfold s_off, s_len in *. cbn [fst snd] in *. lia.
      - apply Forall_cons; [lia|]. eapply Forall_impl; [|exact F].
        intros x Hx. unfold s_off in *. cbn [fst snd] in *. lia. }
    cbn [merge_segs].
    replace (oi + li >=? oj + lj) with false by lia.
    destruct (oi + li - oj >=? 0) eqn:Eg.
    + assert (Eo : oi + li - oj = 0) by lia. rewrite Eo.
      destruct (Z.eqb_spec (ai + li) (aj + 0)) as [Ea|Ea].
      * apply StronglySorted_inv in HSr. destruct HSr as [HSr2 Hjr].
        destruct (IH (oi, li + (lj - 0), ai)) as (P & Q & S & F).
        { constructor; [exact HSr2|]. eapply Forall_impl; [|exact Hjr].
          intros x Hx. unfold s_off, s_len in *. cbn [fst snd] in *. lia. }
        { apply Forall_cons; [unfold s_len; cbn [fst snd]; lia | exact HPr2]. }
        split; [|split; [|split]].
        -- rewrite P. rewrite !segs_pairs_cons. rewrite app_assoc. f_equal.
           replace (lj - 0) with lj by lia. rewrite seg_pairs_split by lia.
           f_equal. f_equal. f_equal; [f_equal|]; lia.
        -- exact Q.
        -- exact S.
        -- exact F.
      * replace (oj + 0, lj - 0, aj + 0) with (oj, lj, aj) by (f_equal; [f_equal|]; lia).
        exact K.
    + exact K.
Qed.

Theorem merge_segs_disjoint : forall s r,
  StronglySorted (fun a b => s_off a <= s_off b) (s :: r) ->
  Forall (fun x => 0 < s_len x) (s :: r) ->
  NoDup (map fst (segs_pairs (s :: r))) ->
  segs_pairs (merge_segs s r) = segs_pairs (s :: r).
Proof.
  intros s r HS HP HN.
  apply (merge_segs_sep_facts r s (sorted_nodup_sep _ HS HP HN) HP).
Qed.

Theorem merge_segs_pos : forall s r,
  StronglySorted (fun a b => s_off a <= s_off b) (s :: r) ->
  Forall (fun x => 0 < s_len x) (s :: r) ->
  NoDup (map fst (segs_pairs (s :: r))) ->
  Forall (fun x => 0 < s_len x) (merge_segs s r).
Proof.
  intros s r HS HP HN.
  apply (merge_segs_sep_facts r s (sorted_nodup_sep _ HS HP HN) HP).
Qed.

Theorem merge_segs_sep : forall s r,
  StronglySorted (fun a b => s_off a <= s_off b) (s :: r) ->
  Forall (fun x => 0 < s_len x) (s :: r) ->
  NoDup (map fst (segs_pairs (s :: r))) ->
  segs_sep (merge_segs s r).
Proof.
  intros s r HS HP HN.
  apply (merge_segs_sep_facts r s (sorted_nodup_sep _ HS HP HN) HP).
Qed.

(* three segments: the second continues the first in the file AND in the buffer (merged),
   the third is file-contiguous with the second but not buffer-contiguous (kept) *)
Example merge_segs_disjoint_ex :
  let s := (100, 4, 1000) in let r := [(104, 4, 1004); (108, 2, 2000); (120, 3, 1008)] in
  StronglySorted (fun a b => s_off a <= s_off b) (s :: r) /\
  Forall (fun x => 0 < s_len x) (s :: r) /\
  NoDup (map fst (segs_pairs (s :: r))) /\
  merge_segs s r = [(100, 8, 1000); (108, 2, 2000); (120, 3, 1008)].
Proof.
  cbv zeta. split; [|split; [|split]].
  - repeat (apply SSorted_cons;
            [|repeat (apply Forall_cons; [unfold s_off; cbn [fst snd]; lia|]); apply Forall_nil]).
    apply SSorted_nil.
  - repeat (apply Forall_cons; [unfold s_len; cbn [fst snd]; lia|]). apply Forall_nil.
  - rewrite map_fst_segs_pairs. unfold s_off, s_len. cbn [flat_map fst snd app].
    change (NoDup (zrange 100 4 ++ zrange 104 4 ++ zrange 108 2 ++ zrange 120 3 ++ [])).
    rewrite app_nil_r.
    replace (zrange 100 4 ++ zrange 104 4 ++ zrange 108 2 ++ zrange 120 3)
      with (zrange 100 10 ++ zrange 120 3) by reflexivity.
    apply NoDup_app_intro; [apply zrange_NoDup | apply zrange_NoDup |].
    intros x H1 H2. apply zrange_In in H1. apply zrange_In in H2. lia.
  - reflexivity.
Qed.

(* ====================================================================== *)
(* 7. the group cutting is a partition                                     *)
(* ====================================================================== *)
Lemma cut_groups_concat : forall bounds l pos cur, flat_map snd (cut_groups l pos bounds cur) = l.
Proof.
  induction bounds as [|[b t] r IH]; intros l pos cur; cbn [cut_groups flat_map snd].
  - apply app_nil_r.
  - rewrite IH. apply zfirstn_zskipn.
Qed.

Theorem partition_groups_concat : forall l, flat_map snd (partition_groups l) = l.
Proof. intros l. unfold partition_groups, group_bounds. cbv zeta. apply cut_groups_concat. Qed.
