From Pnc Require Import Base Gen_consts Header CSub Gen_begins Proofs_CSub.
Require Import String.
Require Import Lia ZArith ZifyBool List Bool.
Import ListNotations.
Local Open Scope Z_scope.
Ltac Zify.zify_post_hook ::= Z.div_mod_to_equations.

(* ------------------------------------------------------------------------- *)
(** * Layer 1: the generated NC_begins against a list-level rendering          *)
(* ------------------------------------------------------------------------- *)
Definition MAXOFF : Z := 9223372036854775807.

(* IS_RECVAR on the view of a variable *)
Definition cv_isrec (v : c_NC_var) : bool :=
  z2b (if negb (p_isnull (NC_var__shape v)) then b2z (p_get 0 (NC_var__shape v) 0 =? 0) else 0).
(* a non-NULL shape has an element 0 (ndims > 0) *)
Definition cv_wf (v : c_NC_var) : Prop :=
  (if negb (p_isnull (NC_var__shape v)) then p_ok (NC_var__shape v) 0 else true) = true.

Definition with_vals (n : c_NC) (arr : list c_NC_var) : c_NC :=
  set_NC__vars (set_NC_vararray__value (Some (arr, 0)) (NC__vars n)) n.

Definition mkS (n : c_NC) (ev : Z) (fv : c_ref) (i j : Z) (last : c_ref) : st_NC_begins :=
  {| NC_begins__P_ncp := n; NC_begins__end_var := ev; NC_begins__err := 0; NC_begins__first_var := fv;
     NC_begins__i := i; NC_begins__j := j; NC_begins__last := last; NC_begins__mpireturn := 0;
     NC_begins__root_xsz := 0; NC_begins__status := 0 |}.

Ltac gb_st :=
  unfold set_NC_begins__P_ncp, set_NC_begins__end_var, set_NC_begins__err, set_NC_begins__first_var,
         set_NC_begins__i, set_NC_begins__j, set_NC_begins__last, set_NC_begins__mpireturn,
         set_NC_begins__root_xsz, set_NC_begins__status;
  cbn [NC_begins__P_ncp NC_begins__end_var NC_begins__err NC_begins__first_var NC_begins__i NC_begins__j
       NC_begins__last NC_begins__mpireturn NC_begins__root_xsz NC_begins__status].

Ltac gb_nc :=
  unfold with_vals, set_NC__vars, set_NC__begin_var, set_NC__begin_rec, set_NC__recsize, set_NC__xsz, set_NC__numrecs,
         set_NC_vararray__value;
  cbn [NC__begin_rec NC__begin_var NC__flags NC__format NC__h_align NC__h_minfree NC__nprocs NC__numrecs NC__old
       NC__r_align NC__recsize NC__safe_mode NC__v_minfree NC__vars NC__xsz
       NC_vararray__ndefined NC_vararray__value].

Lemma zupd_app_Zlen : forall A (pre : list A) x r v, zupd (pre ++ x :: r) (Zlen pre) v = pre ++ v :: r.
Proof.
  induction pre as [|a pre IH]; intros x r v; [reflexivity|].
  rewrite cs_Zlen_cons. cbn [app zupd]. pose proof (cs_Zlen_nonneg _ pre).
  destruct (1 + Zlen pre =? 0) eqn:E; [lia|].
  replace (1 + Zlen pre - 1) with (Zlen pre) by lia. rewrite IH. reflexivity.
Qed.

Lemma rnd4_quot : forall x, 0 <= x -> Z.quot (x + 4 - 1) 4 * 4 = rndup x 4.
Proof. intros x H. unfold rndup. cbn [Z.eqb]. rewrite quot_is_div by lia. reflexivity. Qed.

Lemma rndup_bounds : forall x a, 0 <= x -> 1 <= a -> x <= rndup x a <= x + a - 1.
Proof.
  intros x a Hx Ha. unfold rndup. destruct (a =? 0) eqn:E; [lia|].
  pose proof (Z.mul_div_le (x + a - 1) a). pose proof (Z.mul_succ_div_gt (x + a - 1) a). nia.
Qed.

(* the first pass of NC_begins over the variables from index k on:
   (variables with their begin set, end_var, first_var, completed?) *)
Fixpoint fix_pass (fmt : Z) (rest : list c_NC_var) (k ev : Z) (fv : c_ref)
  : list c_NC_var * Z * c_ref * Z * bool :=     (* ..., value of i at the end, completed? *)
  match rest with
  | [] => ([], ev, fv, k, true)
  | v :: r =>
      if cv_isrec v then
        let '(r', ev', fv', i', ok) := fix_pass fmt r (k + 1) ev fv in (v :: r', ev', fv', i', ok)
      else
        let fv1 := if r_isnull fv then Some k else fv in
        if (fmt =? 1) && (ev >? 2147483647) then (v :: r, ev, fv1, k, false)
        else
          let b := rndup ev 4 in
          let '(r', ev', fv', i', ok) := fix_pass fmt r (k + 1) (b + NC_var__len v) fv1 in
          (set_NC_var__begin b v :: r', ev', fv', i', ok)
  end.

Definition lens4 (l : list c_NC_var) : Z := zsum (map (fun v => NC_var__len v + 4) l).

(* the second pass: (variables with begin set, end_var, recsize, last, i at the end, completed?) *)
Fixpoint rec_pass (fmt : Z) (rest : list c_NC_var) (k ev rs : Z) (lastv : c_ref)
  : list c_NC_var * Z * Z * c_ref * Z * bool :=
  match rest with
  | [] => ([], ev, rs, lastv, k, true)
  | v :: r =>
      if negb (cv_isrec v) then
        let '(r', ev', rs', l', i', ok) := rec_pass fmt r (k + 1) ev rs lastv in (v :: r', ev', rs', l', i', ok)
      else
        if (fmt =? 1) && (ev >? 2147483647) then (v :: r, ev, rs, lastv, k, false)
        else
          let '(r', ev', rs', l', i', ok) :=
            rec_pass fmt r (k + 1) (ev + NC_var__len v) (rs + NC_var__len v) (Some k) in
          (set_NC_var__begin ev v :: r', ev', rs', l', i', ok)
  end.

Definition with_vals_rs (n : c_NC) (arr : list c_NC_var) (rs : Z) : c_NC :=
  set_NC__recsize rs (with_vals n arr).

Section NoOld.
Variables (n0 : c_NC) (xsz : Z).
Hypothesis Hold : NC__old n0 = None.
Let fmt := NC__format n0.

Lemma gb_loop1 : forall rest pre ev fv lastv fuel,
  NC_vararray__ndefined (NC__vars n0) = Zlen (pre ++ rest) -> Zlen (pre ++ rest) <= 2147483647 ->
  Forall cv_wf rest -> Forall (fun v => 0 <= NC_var__len v) rest ->
  0 <= ev -> ev + lens4 rest <= MAXOFF ->
  (Datatypes.length rest < fuel)%nat ->
  c_loop fuel (NC_begins_loop1_cdef n0 xsz) (NC_begins_loop1_cond n0 xsz)
              (NC_begins_loop1_body n0 xsz) (NC_begins_loop1_inc n0 xsz)
              (mkS (with_vals n0 (pre ++ rest)) ev fv (Zlen pre) 0 lastv)
  = let '(r', ev', fv', i', ok) := fix_pass fmt rest (Zlen pre) ev fv in
    if ok then CNorm (mkS (with_vals n0 (pre ++ r')) ev' fv' i' 0 lastv)
    else CRetS (-62) (mkS (with_vals n0 (pre ++ r')) ev' fv' i' 0 lastv).
Proof.
  induction rest as [|v r IH]; intros pre ev fv lastv fuel Hnd Hn Hwf Hlen Hev Hb Hf.
  - destruct fuel as [|f]; [cbn in Hf; lia|].
    rewrite app_nil_r in *.
    rewrite c_loop_exit;
      [ | reflexivity | unfold NC_begins_loop1_cond, mkS; gb_st; gb_nc; rewrite Hnd; lia ].
    cbn [fix_pass]. rewrite app_nil_r. reflexivity.
  - destruct fuel as [|f]; [cbn in Hf; lia|].
    inversion Hwf as [|? ? Hv Hwr]; subst. inversion Hlen as [|? ? Hlv Hlr]; subst.
    assert (Hlen' : Zlen (pre ++ v :: r) = Zlen pre + 1 + Zlen r) by (rewrite cs_Zlen_app, cs_Zlen_cons; lia).
    pose proof (cs_Zlen_nonneg _ pre) as Hpre0. pose proof (cs_Zlen_nonneg _ r) as Hr0.
    assert (Hb' : lens4 (v :: r) = NC_var__len v + 4 + lens4 r) by reflexivity.
    assert (Hl4 : 0 <= lens4 r).
    { clear - Hlr. unfold lens4. induction Hlr as [|x l Hx Hl IHl]; cbn [map zsum]; lia. }
    rewrite c_loop_iter;
      [ | reflexivity | unfold NC_begins_loop1_cond, mkS; gb_st; gb_nc; rewrite Hnd; lia ].
    unfold NC_begins_loop1_body at 1. unfold mkS. gb_st. gb_nc.
    assert (Hok : p_ok (Some (pre ++ v :: r, 0)) (Zlen pre) = true) by (apply p_ok_some; lia).
    assert (Hget : p_get c_NC_var_default (Some (pre ++ v :: r, 0)) (Zlen pre) = v)
      by (rewrite p_get_some, Z.add_0_l; apply cs_znth_app_Zlen).
    rewrite !Hok, !Hget. cbn [andb]. rewrite Hv. cbn [c_chk].
    fold (cv_isrec v). cbn [fix_pass].
    assert (Hi : in_i32 (Zlen pre + 1) = true) by (apply in_i32_iff; lia).
    assert (Hpre1 : Zlen pre + 1 = Zlen (pre ++ [v])) by (rewrite cs_Zlen_app, cs_Zlen_cons, cs_Zlen_nil; lia).
    assert (Happ : pre ++ v :: r = (pre ++ [v]) ++ r) by (rewrite <- app_assoc; reflexivity).
    assert (Hf' : (Datatypes.length r < f)%nat) by (cbn [Datatypes.length] in Hf; lia).
    destruct (cv_isrec v) eqn:Erec.
    + (* record variable: skipped in this pass *)
      cbn [c_bind].
      unfold NC_begins_loop1_inc at 1. gb_st. rewrite Hi. cbn [c_chk c_bind]. gb_st.
      rewrite Hpre1, Happ.
      assert (Hnd1 : NC_vararray__ndefined (NC__vars n0) = Zlen ((pre ++ [v]) ++ r)) by (rewrite <- Happ; exact Hnd).
      assert (Hn1 : Zlen ((pre ++ [v]) ++ r) <= 2147483647) by (rewrite <- Happ; exact Hn).
      assert (Hb1 : ev + lens4 r <= MAXOFF) by (unfold MAXOFF in *; lia).
      refine (eq_trans (IH (pre ++ [v]) ev fv lastv f Hnd1 Hn1 Hwr Hlr Hev Hb1 Hf') _).
      rewrite <- Hpre1.
      destruct (fix_pass fmt r (Zlen pre + 1) ev fv) as [[[[r' ev'] fv'] i'] ok].
      rewrite <- !app_assoc. cbn [app]. reflexivity.
    + cbn [c_bind]. gb_st. gb_nc.
      set (fv1 := if r_isnull fv then Some (Zlen pre) else fv).
      (* first_var *)
      match goal with |- context [c_bind (if r_isnull fv then ?A else ?B) ?K] =>
        assert (Hfv : c_bind (if r_isnull fv then A else B) K
                      = K (mkS (with_vals n0 (pre ++ v :: r)) ev fv1 (Zlen pre) 0 lastv)) end.
      { unfold fv1, mkS. gb_nc. destruct (r_isnull fv); [rewrite Hok|]; reflexivity. }
      rewrite Hfv. clear Hfv. unfold mkS. gb_st. gb_nc. fold fmt.
      destruct ((fmt =? 1) && (ev >? 2147483647)) eqn:Efmt.
      * (* CDF-1 offset limit *)
        cbn [c_bind]. reflexivity.
      * cbn [c_bind]. gb_st. gb_nc. rewrite !Hok, !Hget.
        assert (Ho : o_ok (NC__old n0) = false) by (rewrite Hold; reflexivity).
        rewrite ?Ho. cbn [negb andb].
        rewrite rnd4_quot by lia.
        pose proof (rndup_bounds ev 4 Hev ltac:(lia)) as Hrb.
        unfold MAXOFF in Hb.
        assert (H1 : in_i64 (ev + 4) = true) by (apply in_i64_iff; lia).
        assert (H2 : in_i64 (ev + 4 - 1) = true) by (apply in_i64_iff; lia).
        assert (H3 : div_ok i64_min (ev + 4 - 1) 4 = true) by (apply div_ok_pos; lia).
        assert (H4 : in_i64 (rndup ev 4) = true) by (apply in_i64_iff; lia).
        rewrite H1, H2, H3, H4. cbn [andb c_chk c_bind]. gb_st. gb_nc.
        cbn [p_set]. rewrite Z.add_0_l, zupd_app_Zlen.
        set (v' := set_NC_var__begin (rndup ev 4) v).
        assert (Hok' : p_ok (Some (pre ++ v' :: r, 0)) (Zlen pre) = true)
          by (apply p_ok_some; rewrite cs_Zlen_app, cs_Zlen_cons; lia).
        assert (Hget' : p_get c_NC_var_default (Some (pre ++ v' :: r, 0)) (Zlen pre) = v')
          by (rewrite p_get_some, Z.add_0_l; apply cs_znth_app_Zlen).
        rewrite ?Ho. cbn [negb c_bind]. gb_st. gb_nc.
        rewrite !Hok', !Hget'. cbn [andb].
        assert (Hb1 : NC_var__begin v' = rndup ev 4) by reflexivity.
        assert (Hl1 : NC_var__len v' = NC_var__len v) by reflexivity.
        rewrite Hb1, Hl1.
        assert (H5 : in_i64 (rndup ev 4 + NC_var__len v) = true) by (apply in_i64_iff; lia).
        rewrite H5. cbn [c_chk c_bind]. gb_st.
        unfold NC_begins_loop1_inc at 1. gb_st. rewrite Hi. cbn [c_chk c_bind]. gb_st.
        rewrite Hpre1.
        assert (Happ' : pre ++ v' :: r = (pre ++ [v']) ++ r) by (rewrite <- app_assoc; reflexivity).
        assert (HZ' : Zlen (pre ++ [v]) = Zlen (pre ++ [v'])) by (rewrite !cs_Zlen_app, !cs_Zlen_cons; reflexivity).
        assert (HZ2 : Zlen (pre ++ v :: r) = Zlen ((pre ++ [v']) ++ r))
          by (rewrite <- Happ', !cs_Zlen_app, !cs_Zlen_cons; reflexivity).
        rewrite HZ', Happ'.
        assert (Hnd1 : NC_vararray__ndefined (NC__vars n0) = Zlen ((pre ++ [v']) ++ r)) by (rewrite <- HZ2; exact Hnd).
        assert (Hn1 : Zlen ((pre ++ [v']) ++ r) <= 2147483647) by (rewrite <- HZ2; exact Hn).
        assert (Hev1 : 0 <= rndup ev 4 + NC_var__len v) by lia.
        assert (Hbb : rndup ev 4 + NC_var__len v + lens4 r <= MAXOFF) by (unfold MAXOFF; lia).
        refine (eq_trans (IH (pre ++ [v']) (rndup ev 4 + NC_var__len v) fv1 lastv f Hnd1 Hn1 Hwr Hlr Hev1 Hbb Hf') _).
        rewrite <- HZ', <- Hpre1. fold fv1.
        destruct (fix_pass fmt r (Zlen pre + 1) (rndup ev 4 + NC_var__len v) fv1) as [[[[r' ev'] fv'] i'] ok].
        rewrite <- !app_assoc. cbn [app]. reflexivity.
Qed.

Lemma gb_loop3 : forall rest pre ev rs fv lastv fuel,
  NC_vararray__ndefined (NC__vars n0) = Zlen (pre ++ rest) -> Zlen (pre ++ rest) <= 2147483647 ->
  Forall cv_wf rest -> Forall (fun v => 0 <= NC_var__len v) rest ->
  0 <= ev -> ev + lens4 rest <= MAXOFF -> 0 <= rs <= ev ->
  (Datatypes.length rest < fuel)%nat ->
  c_loop fuel (NC_begins_loop3_cdef n0 xsz) (NC_begins_loop3_cond n0 xsz)
              (NC_begins_loop3_body n0 xsz) (NC_begins_loop3_inc n0 xsz)
              (mkS (with_vals_rs n0 (pre ++ rest) rs) ev fv (Zlen pre) 0 lastv)
  = let '(r', ev', rs', l', i', ok) := rec_pass fmt rest (Zlen pre) ev rs lastv in
    if ok then CNorm (mkS (with_vals_rs n0 (pre ++ r') rs') ev' fv i' 0 l')
    else CRetS (-62) (mkS (with_vals_rs n0 (pre ++ r') rs') ev' fv i' 0 l').
Proof.
  induction rest as [|v r IH]; intros pre ev rs fv lastv fuel Hnd Hn Hwf Hlen Hev Hb Hrs Hf.
  - destruct fuel as [|f]; [cbn in Hf; lia|].
    rewrite app_nil_r in *.
    rewrite c_loop_exit;
      [ | reflexivity | unfold NC_begins_loop3_cond, mkS, with_vals_rs; gb_st; gb_nc; rewrite Hnd; lia ].
    cbn [rec_pass]. rewrite app_nil_r. reflexivity.
  - destruct fuel as [|f]; [cbn in Hf; lia|].
    inversion Hwf as [|? ? Hv Hwr]; subst. inversion Hlen as [|? ? Hlv Hlr]; subst.
    assert (Hlen' : Zlen (pre ++ v :: r) = Zlen pre + 1 + Zlen r) by (rewrite cs_Zlen_app, cs_Zlen_cons; lia).
    pose proof (cs_Zlen_nonneg _ pre) as Hpre0. pose proof (cs_Zlen_nonneg _ r) as Hr0.
    assert (Hb' : lens4 (v :: r) = NC_var__len v + 4 + lens4 r) by reflexivity.
    assert (Hl4 : 0 <= lens4 r).
    { clear - Hlr. unfold lens4. induction Hlr as [|x l Hx Hl IHl]; cbn [map zsum]; lia. }
    rewrite c_loop_iter;
      [ | reflexivity | unfold NC_begins_loop3_cond, mkS, with_vals_rs; gb_st; gb_nc; rewrite Hnd; lia ].
    unfold NC_begins_loop3_body at 1. unfold mkS, with_vals_rs. gb_st. gb_nc.
    assert (Hok : p_ok (Some (pre ++ v :: r, 0)) (Zlen pre) = true) by (apply p_ok_some; lia).
    assert (Hget : p_get c_NC_var_default (Some (pre ++ v :: r, 0)) (Zlen pre) = v)
      by (rewrite p_get_some, Z.add_0_l; apply cs_znth_app_Zlen).
    rewrite !Hok, !Hget. cbn [andb]. rewrite Hv. cbn [c_chk].
    fold (cv_isrec v). cbn [rec_pass].
    assert (Hi : in_i32 (Zlen pre + 1) = true) by (apply in_i32_iff; lia).
    assert (Hpre1 : Zlen pre + 1 = Zlen (pre ++ [v])) by (rewrite cs_Zlen_app, cs_Zlen_cons, cs_Zlen_nil; lia).
    assert (Happ : pre ++ v :: r = (pre ++ [v]) ++ r) by (rewrite <- app_assoc; reflexivity).
    assert (Hf' : (Datatypes.length r < f)%nat) by (cbn [Datatypes.length] in Hf; lia).
    destruct (cv_isrec v) eqn:Erec; cbn [negb].
    + (* record variable *)
      cbn [c_bind]. gb_st. gb_nc. fold fmt.
      destruct ((fmt =? 1) && (ev >? 2147483647)) eqn:Efmt.
      * cbn [c_bind]. reflexivity.
      * cbn [c_bind]. gb_st. gb_nc. rewrite !Hok, !Hget. cbn [andb c_chk c_bind]. gb_st. gb_nc.
        assert (Ho : o_ok (NC__old n0) = false) by (rewrite Hold; reflexivity).
        rewrite ?Ho. cbn [negb c_bind]. gb_st. gb_nc.
        cbn [p_set]. rewrite Z.add_0_l, zupd_app_Zlen.
        set (v' := set_NC_var__begin ev v).
        assert (Hok' : p_ok (Some (pre ++ v' :: r, 0)) (Zlen pre) = true)
          by (apply p_ok_some; rewrite cs_Zlen_app, cs_Zlen_cons; lia).
        assert (Hget' : p_get c_NC_var_default (Some (pre ++ v' :: r, 0)) (Zlen pre) = v')
          by (rewrite p_get_some, Z.add_0_l; apply cs_znth_app_Zlen).
        rewrite !Hok', !Hget'. cbn [andb].
        assert (Hl1 : NC_var__len v' = NC_var__len v) by reflexivity.
        rewrite Hl1. unfold MAXOFF in Hb.
        assert (H5 : in_i64 (ev + NC_var__len v) = true) by (apply in_i64_iff; lia).
        rewrite H5. cbn [c_chk c_bind]. gb_st. gb_nc. rewrite !Hok', !Hget', Hl1. cbn [andb].
        assert (H6 : in_i64 (rs + NC_var__len v) = true) by (apply in_i64_iff; lia).
        rewrite H6. cbn [c_chk c_bind]. gb_st. gb_nc. rewrite !Hok'. cbn [c_chk c_bind]. gb_st.
        unfold NC_begins_loop3_inc at 1. gb_st. rewrite Hi. cbn [c_chk c_bind]. gb_st.
        rewrite Hpre1.
        assert (Happ' : pre ++ v' :: r = (pre ++ [v']) ++ r) by (rewrite <- app_assoc; reflexivity).
        assert (HZ' : Zlen (pre ++ [v]) = Zlen (pre ++ [v'])) by (rewrite !cs_Zlen_app, !cs_Zlen_cons; reflexivity).
        assert (HZ2 : Zlen (pre ++ v :: r) = Zlen ((pre ++ [v']) ++ r))
          by (rewrite <- Happ', !cs_Zlen_app, !cs_Zlen_cons; reflexivity).
        rewrite HZ', Happ'.
        assert (Hnd1 : NC_vararray__ndefined (NC__vars n0) = Zlen ((pre ++ [v']) ++ r)) by (rewrite <- HZ2; exact Hnd).
        assert (Hn1 : Zlen ((pre ++ [v']) ++ r) <= 2147483647) by (rewrite <- HZ2; exact Hn).
        assert (Hev1 : 0 <= ev + NC_var__len v) by lia.
        assert (Hbb : ev + NC_var__len v + lens4 r <= MAXOFF) by (unfold MAXOFF; lia).
        assert (Hrs1 : 0 <= rs + NC_var__len v <= ev + NC_var__len v) by lia.
        refine (eq_trans (IH (pre ++ [v']) (ev + NC_var__len v) (rs + NC_var__len v) fv (Some (Zlen pre)) f
                             Hnd1 Hn1 Hwr Hlr Hev1 Hbb Hrs1 Hf') _).
        rewrite <- HZ', <- Hpre1.
        destruct (rec_pass fmt r (Zlen pre + 1) (ev + NC_var__len v) (rs + NC_var__len v) (Some (Zlen pre)))
          as [[[[[r' ev'] rs'] l'] i'] ok].
        rewrite <- !app_assoc. cbn [app]. reflexivity.
    + (* fixed-size variable: skipped *)
      cbn [c_bind].
      unfold NC_begins_loop3_inc at 1. gb_st. rewrite Hi. cbn [c_chk c_bind]. gb_st.
      rewrite Hpre1, Happ.
      assert (Hnd1 : NC_vararray__ndefined (NC__vars n0) = Zlen ((pre ++ [v]) ++ r)) by (rewrite <- Happ; exact Hnd).
      assert (Hn1 : Zlen ((pre ++ [v]) ++ r) <= 2147483647) by (rewrite <- Happ; exact Hn).
      assert (Hb1 : ev + lens4 r <= MAXOFF) by (unfold MAXOFF in *; lia).
      refine (eq_trans (IH (pre ++ [v]) ev rs fv lastv f Hnd1 Hn1 Hwr Hlr Hev Hb1 Hrs Hf') _).
      rewrite <- Hpre1.
      destruct (rec_pass fmt r (Zlen pre + 1) ev rs lastv) as [[[[[r' ev'] rs'] l'] i'] ok].
      rewrite <- !app_assoc. cbn [app]. reflexivity.
Qed.
End NoOld.

(* ------------------------------------------------------------------------- *)
(** * Layer 2 (per pass): the list-level passes against Header.begins_fixed / begins_rec, no old layout *)
(* ------------------------------------------------------------------------- *)
Definition pair_of (v : c_NC_var) : bool * Z := (cv_isrec v, NC_var__len v).
Definition fixed_begin (v : c_NC_var) : option Z := if cv_isrec v then None else Some (NC_var__begin v).
Definition rec_begin (v : c_NC_var) : option Z := if cv_isrec v then Some (NC_var__begin v) else None.

Lemma cv_isrec_set_begin : forall b v, cv_isrec (set_NC_var__begin b v) = cv_isrec v.
Proof. reflexivity. Qed.

Lemma fix_pass_begins_fixed : forall fmt rest k ev fv acc,
  let '(r', ev', _, _, ok) := fix_pass fmt rest k ev fv in
  begins_fixed fmt (map pair_of rest) [] ev acc =
  if ok then Some (ev', rev acc ++ map fixed_begin r') else None.
Proof.
  intros fmt rest. induction rest as [|v r IH]; intros k ev fv acc.
  - cbn. rewrite app_nil_r. reflexivity.
  - cbn [fix_pass map begins_fixed]. unfold pair_of at 1.
    destruct (cv_isrec v) eqn:Erec.
    + specialize (IH (k + 1) ev fv (None :: acc)).
      destruct (fix_pass fmt r (k + 1) ev fv) as [[[[r' ev'] fv'] i'] ok].
      cbv beta iota zeta in IH |- *.
      rewrite IH. destruct ok; [|reflexivity].
      cbn [rev map]. unfold fixed_begin at 2. rewrite Erec. rewrite <- app_assoc. reflexivity.
    + change NC_MAX_INT with 2147483647.
      destruct ((fmt =? 1) && (ev >? 2147483647)); [reflexivity|]. cbv zeta.
      match goal with |- context [fix_pass ?a ?b ?c ?d ?e] =>
        specialize (IH c d e (Some (rndup ev 4) :: acc));
        destruct (fix_pass a b c d e) as [[[[r' ev'] fv'] i'] ok] end.
      cbv beta iota zeta in IH |- *.
      rewrite IH. destruct ok; [|reflexivity].
      cbn [rev map]. unfold fixed_begin at 2. rewrite cv_isrec_set_begin, Erec. rewrite <- app_assoc. reflexivity.
Qed.

Definition last_rec_len (init : option Z) (l : list c_NC_var) : option Z :=
  fold_left (fun a v => if cv_isrec v then Some (NC_var__len v) else a) l init.

Lemma rec_pass_begins_rec : forall fmt rest k ev rs lastv lastlen acc,
  let '(r', ev', rs', _, _, ok) := rec_pass fmt rest k ev rs lastv in
  begins_rec fmt (map pair_of rest) [] ev rs lastlen acc =
  if ok then Some (ev', rs', last_rec_len lastlen r', rev acc ++ map rec_begin r') else None.
Proof.
  intros fmt rest. induction rest as [|v r IH]; intros k ev rs lastv lastlen acc.
  - cbn. rewrite app_nil_r. reflexivity.
  - cbn [rec_pass map begins_rec]. unfold pair_of at 1.
    destruct (cv_isrec v) eqn:Erec; cbn [negb].
    + change NC_MAX_INT with 2147483647.
      destruct ((fmt =? 1) && (ev >? 2147483647)); [reflexivity|]. cbv zeta.
      match goal with |- context [rec_pass ?a ?b ?c ?d ?e ?g] =>
        specialize (IH c d e g (Some (NC_var__len v)) (Some ev :: acc));
        destruct (rec_pass a b c d e g) as [[[[[r' ev'] rs'] l'] i'] ok] end.
      cbv beta iota zeta in IH |- *.
      rewrite IH. destruct ok; [|reflexivity].
      cbn [rev map]. unfold rec_begin at 2. rewrite cv_isrec_set_begin, Erec.
      unfold last_rec_len. cbn [fold_left]. rewrite cv_isrec_set_begin, Erec.
      rewrite <- app_assoc. reflexivity.
    + match goal with |- context [rec_pass ?a ?b ?c ?d ?e ?g] =>
        specialize (IH c d e g lastlen (None :: acc));
        destruct (rec_pass a b c d e g) as [[[[[r' ev'] rs'] l'] i'] ok] end.
      cbv beta iota zeta in IH |- *.
      rewrite IH. destruct ok; [|reflexivity].
      cbn [rev map]. unfold rec_begin at 2. rewrite Erec.
      unfold last_rec_len. cbn [fold_left]. rewrite Erec.
      rewrite <- app_assoc. reflexivity.
Qed.

(* ------------------------------------------------------------------------- *)
(** * The two loops of NC_begins, as generated, against Header.begins_fixed / begins_rec (no old layout) *)
(* ------------------------------------------------------------------------- *)
Definition arr_of (s : st_NC_begins) : list c_NC_var :=
  match NC_vararray__value (NC__vars (NC_begins__P_ncp s)) with Some (a, _) => a | None => [] end.

Lemma lens4_nonneg_fuel : forall (vars : list c_NC_var) n0 xsz s,
  NC_vararray__ndefined (NC__vars n0) = Zlen vars ->
  NC_begins__i s = 0 -> NC_vararray__ndefined (NC__vars (NC_begins__P_ncp s)) = Zlen vars ->
  (Datatypes.length vars < NC_begins_loop1_fuel n0 xsz s)%nat /\
  (Datatypes.length vars < NC_begins_loop3_fuel n0 xsz s)%nat.
Proof.
  intros vars n0 xsz s H0 Hi Hn. unfold NC_begins_loop1_fuel, NC_begins_loop3_fuel, c_fuel_lt.
  rewrite Hi, Hn. unfold Zlen. rewrite Z.sub_0_r, Nat2Z.id. lia.
Qed.

Lemma fix_pass_i : forall fmt rest k ev fv r' ev' fv' i',
  fix_pass fmt rest k ev fv = (r', ev', fv', i', true) -> i' = k + Zlen rest.
Proof.
  intros fmt rest. induction rest as [|v r IH]; intros k ev fv r' ev' fv' i' E.
  - cbn in E. inversion E; subst. rewrite cs_Zlen_nil. lia.
  - cbn [fix_pass] in E. rewrite cs_Zlen_cons.
    destruct (cv_isrec v).
    + match type of E with context [fix_pass ?a ?b ?c ?d ?e] =>
        destruct (fix_pass a b c d e) as [[[[r1 e1] f1] i1] o1] eqn:E1 end.
      inversion E; subst. apply IH in E1. lia.
    + destruct ((fmt =? 1) && (ev >? 2147483647)); [inversion E|]. cbv zeta in E.
      match type of E with context [fix_pass ?a ?b ?c ?d ?e] =>
        destruct (fix_pass a b c d e) as [[[[r1 e1] f1] i1] o1] eqn:E1 end.
      inversion E; subst. apply IH in E1. lia.
Qed.

Theorem gen_begins_fixed_eq : forall n0 xsz vars ev lastv,
  NC__old n0 = None ->
  NC_vararray__ndefined (NC__vars n0) = Zlen vars -> Zlen vars <= 2147483647 ->
  Forall cv_wf vars -> Forall (fun v => 0 <= NC_var__len v) vars ->
  0 <= ev -> ev + lens4 vars <= MAXOFF ->
  let s0 := mkS (with_vals n0 vars) ev None 0 0 lastv in
  exists s',
    c_loop (NC_begins_loop1_fuel n0 xsz s0) (NC_begins_loop1_cdef n0 xsz) (NC_begins_loop1_cond n0 xsz)
           (NC_begins_loop1_body n0 xsz) (NC_begins_loop1_inc n0 xsz) s0
    = match begins_fixed (NC__format n0) (map pair_of vars) [] ev [] with
      | Some _ => CNorm s'
      | None => CRetS NC_EVARSIZE s'
      end /\
    forall ef fb, begins_fixed (NC__format n0) (map pair_of vars) [] ev [] = Some (ef, fb) ->
      NC_begins__end_var s' = ef /\ map fixed_begin (arr_of s') = fb /\ NC_begins__i s' = Zlen vars.
Proof.
  intros n0 xsz vars ev lastv Hold Hnd Hn Hwf Hlen Hev Hb s0.
  assert (Hf : (Datatypes.length vars < NC_begins_loop1_fuel n0 xsz s0)%nat).
  { apply (lens4_nonneg_fuel vars n0 xsz s0 Hnd); [reflexivity | exact Hnd]. }
  pose proof (gb_loop1 n0 xsz Hold vars [] ev None lastv _ Hnd Hn Hwf Hlen Hev Hb Hf) as HL.
  pose proof (fix_pass_begins_fixed (NC__format n0) vars 0 ev None []) as HP.
  change (Zlen (@nil c_NC_var)) with 0 in HL. cbn [app] in HL.
  destruct (fix_pass (NC__format n0) vars 0 ev None) as [[[[r' ev'] fv'] i'] ok] eqn:Efp.
  cbv beta iota zeta in HL, HP. cbn [rev app] in HP.
  destruct ok.
  - exists (mkS (with_vals n0 r') ev' fv' i' 0 lastv). split.
    + rewrite HP. exact HL.
    + intros ef fb E. rewrite HP in E. inversion E; subst. split; [reflexivity|]. split; [reflexivity|].
      cbn [NC_begins__i mkS].
      rewrite (fix_pass_i _ _ _ _ _ _ _ _ _ Efp). lia.
  - exists (mkS (with_vals n0 r') ev' fv' i' 0 lastv). split.
    + rewrite HP. exact HL.
    + intros ef fb E. rewrite HP in E. discriminate.
Qed.

Theorem gen_begins_rec_eq : forall n0 xsz vars ev fv lastv,
  NC__old n0 = None ->
  NC_vararray__ndefined (NC__vars n0) = Zlen vars -> Zlen vars <= 2147483647 ->
  Forall cv_wf vars -> Forall (fun v => 0 <= NC_var__len v) vars ->
  0 <= ev -> ev + lens4 vars <= MAXOFF ->
  let s0 := mkS (with_vals_rs n0 vars 0) ev fv 0 0 lastv in
  exists s',
    c_loop (NC_begins_loop3_fuel n0 xsz s0) (NC_begins_loop3_cdef n0 xsz) (NC_begins_loop3_cond n0 xsz)
           (NC_begins_loop3_body n0 xsz) (NC_begins_loop3_inc n0 xsz) s0
    = match begins_rec (NC__format n0) (map pair_of vars) [] ev 0 None [] with
      | Some _ => CNorm s'
      | None => CRetS NC_EVARSIZE s'
      end /\
    forall er rs ll rb, begins_rec (NC__format n0) (map pair_of vars) [] ev 0 None [] = Some (er, rs, ll, rb) ->
      NC_begins__end_var s' = er /\ NC__recsize (NC_begins__P_ncp s') = rs /\
      map rec_begin (arr_of s') = rb /\ last_rec_len None (arr_of s') = ll.
Proof.
  intros n0 xsz vars ev fv lastv Hold Hnd Hn Hwf Hlen Hev Hb s0.
  assert (Hf : (Datatypes.length vars < NC_begins_loop3_fuel n0 xsz s0)%nat).
  { apply (lens4_nonneg_fuel vars n0 xsz s0 Hnd); [reflexivity | exact Hnd]. }
  assert (Hrs : 0 <= 0 <= ev) by lia.
  pose proof (gb_loop3 n0 xsz Hold vars [] ev 0 fv lastv _ Hnd Hn Hwf Hlen Hev Hb Hrs Hf) as HL.
  pose proof (rec_pass_begins_rec (NC__format n0) vars 0 ev 0 lastv None []) as HP.
  change (Zlen (@nil c_NC_var)) with 0 in HL. cbn [app] in HL.
  destruct (rec_pass (NC__format n0) vars 0 ev 0 lastv) as [[[[[r' ev'] rs'] l'] i'] ok] eqn:Efp.
  cbv beta iota zeta in HL, HP. cbn [rev app] in HP.
  destruct ok.
  - exists (mkS (with_vals_rs n0 r' rs') ev' fv i' 0 l'). split.
    + rewrite HP. exact HL.
    + intros er rs ll rb E. rewrite HP in E. inversion E; subst. repeat split.
  - exists (mkS (with_vals_rs n0 r' rs') ev' fv i' 0 l'). split.
    + rewrite HP. exact HL.
    + intros er rs ll rb E. rewrite HP in E. discriminate.
Qed.

Theorem gen_begins_subset_complete : tr_cfun_unsupported = [].
Proof. reflexivity. Qed.

(* the only branch left out: the redundant safe-mode consistency test *)
Theorem gen_begins_excluded :
  tr_cfun_excluded = ["NC_begins: EXCLUDED by the target description: the branch of if (ncp->safe_mode && ncp->nprocs > 1)"%string].
Proof. reflexivity. Qed.

(* ------------------------------------------------------------------------- *)
(** * The whole generated function runs: concrete headers against Header.begins *)
(* ------------------------------------------------------------------------- *)
Definition c_shape_b (shape : list Z) : c_ptr Z := match shape with [] => None | _ => Some (shape, 0) end.
Definition cv_of (dims : list dim) (v : var) : c_NC_var :=
  {| NC_var__begin := v_begin v;
     NC_var__dsizes := Some ([var_nelems_per_rec (var_shape dims v)], 0);
     NC_var__len := var_len dims v;
     NC_var__shape := c_shape_b (var_shape dims v);
     NC_var__xsz := xlen_type (v_type v) |}.
(* the view of NC *ncp at the entry of NC_begins for a file without a saved old header *)
Definition c_view_nc (h : hdr) (hm vm ha ra pbr flags : Z) : c_NC :=
  {| NC__begin_rec := pbr; NC__begin_var := 0; NC__flags := flags; NC__format := h_format h;
     NC__h_align := ha; NC__h_minfree := hm; NC__nprocs := 1; NC__numrecs := h_numrecs h; NC__old := None;
     NC__r_align := ra; NC__recsize := 0; NC__safe_mode := 0; NC__v_minfree := vm;
     NC__vars := {| NC_vararray__ndefined := Zlen (h_vars h);
                    NC_vararray__value := match h_vars h with [] => None
                                          | _ => Some (map (cv_of (h_dims h)) (h_vars h), 0) end |};
     NC__xsz := 0 |}.

(* what the final state says, in the model's terms *)
Definition layout_of_state (s : st_NC_begins) : layout :=
  let n := NC_begins__P_ncp s in
  mklayout (NC__xsz n) (NC__begin_var n) (NC__begin_rec n) (NC__recsize n) (map NC_var__begin (arr_of s)).

Definition begins_agree (h : hdr) (hm vm ha ra pbr : Z) : bool :=
  match NC_begins_c (c_view_nc h hm vm ha ra pbr 32768) (hdr_len h), begins h hm vm ha ra None pbr with
  | FValS rc s, Some lay =>
      (rc =? NC_NOERR) &&
      let l := layout_of_state s in
      (l_xsz l =? l_xsz lay) && (l_begin_var l =? l_begin_var lay) && (l_begin_rec l =? l_begin_rec lay) &&
      (l_recsize l =? l_recsize lay) && list_eqb Z.eqb (l_begins l) (l_begins lay)
  | FValS rc _, None => rc =? NC_EVARSIZE
  | _, _ => false
  end.

Definition exb_dims : list dim := [mkdim [116] 0; mkdim [120] 10; mkdim [121] 7; mkdim [122] 536870912].
Definition exb_var (nm : Z) (ids : list Z) (t : Z) : var := mkvar [nm] ids [] t 0 false.

Example gen_begins_runs :
  (* fixed, record, fixed, record; one record variable; no variable; scalar; CDF-1 offset overflow *)
  begins_agree (mkhdr 2 0 exb_dims [] [exb_var 97 [1; 2] 3; exb_var 98 [0; 1] 5; exb_var 99 [2] 1; exb_var 100 [0; 2] 6]) 0 0 512 4 0 = true /\
  begins_agree (mkhdr 1 0 exb_dims [] [exb_var 97 [1; 2] 3; exb_var 98 [0; 2] 1]) 10 20 4 512 0 = true /\
  begins_agree (mkhdr 5 0 exb_dims [] []) 0 0 512 4 0 = true /\
  begins_agree (mkhdr 5 0 exb_dims [] [exb_var 97 [] 6; exb_var 98 [0] 2]) 3 5 1024 8 4000 = true /\
  begins_agree (mkhdr 1 0 exb_dims [] [exb_var 97 [3] 5; exb_var 98 [3] 5; exb_var 99 [1] 4]) 0 0 4 4 0 = true /\
  begins (mkhdr 1 0 exb_dims [] [exb_var 97 [3] 5; exb_var 98 [3] 5; exb_var 99 [1] 4]) 0 0 4 4 None 0 = None.
Proof. repeat split; vm_compute; reflexivity. Qed.

Print Assumptions gen_begins_fixed_eq.
Print Assumptions gen_begins_rec_eq.
Print Assumptions gen_begins_runs.
