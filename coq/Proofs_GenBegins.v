From Pnc Require Import Base Gen_consts Header CSub Gen_begins Proofs_CSub.
Require Import String.
Require Import Lia ZArith ZifyBool List Bool.
Import ListNotations.
Local Open Scope Z_scope.
Ltac Zify.zify_post_hook ::= Z.div_mod_to_equations.

(* ------------------------------------------------------------------------- *)
(** * Layer 1: the generated NC_begins against a list-level rendering          *)
(* ------------------------------------------------------------------------- *)
Definition MAXOFF : Z := 9223372036854775807.

(* IS_RECVAR on the view of a variable *)
Definition cv_isrec (v : c_NC_var) : bool :=
  z2b (if negb (p_isnull (NC_var__shape v)) then b2z (p_get 0 (NC_var__shape v) 0 =? 0) else 0).
(* a non-NULL shape has an element 0 (ndims > 0) *)
Definition cv_wf (v : c_NC_var) : Prop :=
  (if negb (p_isnull (NC_var__shape v)) then p_ok (NC_var__shape v) 0 else true) = true.

Definition with_vals (n : c_NC) (arr : list c_NC_var) : c_NC :=
  set_NC__vars (set_NC_vararray__value (Some (arr, 0)) (NC__vars n)) n.

Definition mkS (n : c_NC) (ev : Z) (fv : c_ref) (i j : Z) (last : c_ref) : st_NC_begins :=
  {| NC_begins__P_ncp := n; NC_begins__end_var := ev; NC_begins__err := 0; NC_begins__first_var := fv;
     NC_begins__i := i; NC_begins__j := j; NC_begins__last := last; NC_begins__mpireturn := 0;
     NC_begins__root_xsz := 0; NC_begins__status := 0 |}.

Ltac gb_st :=
  unfold set_NC_begins__P_ncp, set_NC_begins__end_var, set_NC_begins__err, set_NC_begins__first_var,
         set_NC_begins__i, set_NC_begins__j, set_NC_begins__last, set_NC_begins__mpireturn,
         set_NC_begins__root_xsz, set_NC_begins__status;
  cbn [NC_begins__P_ncp NC_begins__end_var NC_begins__err NC_begins__first_var NC_begins__i NC_begins__j
       NC_begins__last NC_begins__mpireturn NC_begins__root_xsz NC_begins__status].

Ltac gb_nc :=
  unfold with_vals, set_NC__vars, set_NC__begin_var, set_NC__begin_rec, set_NC__recsize, set_NC__xsz, set_NC__numrecs,
         set_NC_vararray__value;
  cbn [NC__begin_rec NC__begin_var NC__flags NC__format NC__h_align NC__h_minfree NC__nprocs NC__numrecs NC__old
       NC__r_align NC__recsize NC__safe_mode NC__v_minfree NC__vars NC__xsz
       NC_vararray__ndefined NC_vararray__value].

Lemma zupd_app_Zlen : forall A (pre : list A) x r v, zupd (pre ++ x :: r) (Zlen pre) v = pre ++ v :: r.
Proof.
  induction pre as [|a pre IH]; intros x r v; [reflexivity|].
  rewrite cs_Zlen_cons. cbn [app zupd]. pose proof (cs_Zlen_nonneg _ pre).
  destruct (1 + Zlen pre =? 0) eqn:E; [lia|].
  replace (1 + Zlen pre - 1) with (Zlen pre) by lia. rewrite IH. reflexivity.
Qed.

Lemma rnd4_quot : forall x, 0 <= x -> Z.quot (x + 4 - 1) 4 * 4 = rndup x 4.
Proof. intros x H. unfold rndup. cbn [Z.eqb]. rewrite quot_is_div by lia. reflexivity. Qed.

Lemma rndup_bounds : forall x a, 0 <= x -> 1 <= a -> x <= rndup x a <= x + a - 1.
Proof.
  intros x a Hx Ha. unfold rndup. destruct (a =? 0) eqn:E; [lia|].
  pose proof (Z.mul_div_le (x + a - 1) a). pose proof (Z.mul_succ_div_gt (x + a - 1) a). nia.
Qed.

(* the first pass of NC_begins over the variables from index k on:
   (variables with their begin set, end_var, first_var, completed?) *)
Fixpoint fix_pass (fmt : Z) (rest : list c_NC_var) (k ev : Z) (fv : c_ref)
  : list c_NC_var * Z * c_ref * Z * bool :=     (* ..., value of i at the end, completed? *)
  match rest with
  | [] => ([], ev, fv, k, true)
  | v :: r =>
      if cv_isrec v then
        let '(r', ev', fv', i', ok) := fix_pass fmt r (k + 1) ev fv in (v :: r', ev', fv', i', ok)
      else
        let fv1 := if r_isnull fv then Some k else fv in
        if (fmt =? 1) && (ev >? 2147483647) then (v :: r, ev, fv1, k, false)
        else
          let b := rndup ev 4 in
          let '(r', ev', fv', i', ok) := fix_pass fmt r (k + 1) (b + NC_var__len v) fv1 in
          (set_NC_var__begin b v :: r', ev', fv', i', ok)
  end.

Definition lens4 (l : list c_NC_var) : Z := zsum (map (fun v => NC_var__len v + 4) l).

(* the second pass: (variables with begin set, end_var, recsize, last, i at the end, completed?) *)
Fixpoint rec_pass (fmt : Z) (rest : list c_NC_var) (k ev rs : Z) (lastv : c_ref)
  : list c_NC_var * Z * Z * c_ref * Z * bool :=
  match rest with
  | [] => ([], ev, rs, lastv, k, true)
  | v :: r =>
      if negb (cv_isrec v) then
        let '(r', ev', rs', l', i', ok) := rec_pass fmt r (k + 1) ev rs lastv in (v :: r', ev', rs', l', i', ok)
      else
        if (fmt =? 1) && (ev >? 2147483647) then (v :: r, ev, rs, lastv, k, false)
        else
          let '(r', ev', rs', l', i', ok) :=
            rec_pass fmt r (k + 1) (ev + NC_var__len v) (rs + NC_var__len v) (Some k) in
          (set_NC_var__begin ev v :: r', ev', rs', l', i', ok)
  end.

Definition with_vals_rs (n : c_NC) (arr : list c_NC_var) (rs : Z) : c_NC :=
  set_NC__recsize rs (with_vals n arr).

Section NoOld.
Variables (n0 : c_NC) (xsz : Z).
Hypothesis Hold : NC__old n0 = None.
Let fmt := NC__format n0.

Lemma gb_loop1 : forall rest pre ev fv lastv fuel,
  NC_vararray__ndefined (NC__vars n0) = Zlen (pre ++ rest) -> Zlen (pre ++ rest) <= 2147483647 ->
  Forall cv_wf rest -> Forall (fun v => 0 <= NC_var__len v) rest ->
  0 <= ev -> ev + lens4 rest <= MAXOFF ->
  (Datatypes.length rest < fuel)%nat ->
  c_loop fuel (NC_begins_loop1_cdef n0 xsz) (NC_begins_loop1_cond n0 xsz)
              (NC_begins_loop1_body n0 xsz) (NC_begins_loop1_inc n0 xsz)
              (mkS (with_vals n0 (pre ++ rest)) ev fv (Zlen pre) 0 lastv)
  = let '(r', ev', fv', i', ok) := fix_pass fmt rest (Zlen pre) ev fv in
    if ok then CNorm (mkS (with_vals n0 (pre ++ r')) ev' fv' i' 0 lastv)
    else CRetS (-62) (mkS (with_vals n0 (pre ++ r')) ev' fv' i' 0 lastv).
Proof.
  induction rest as [|v r IH]; intros pre ev fv lastv fuel Hnd Hn Hwf Hlen Hev Hb Hf.
  - destruct fuel as [|f]; [cbn in Hf; lia|].
    rewrite app_nil_r in *.
    rewrite c_loop_exit;
      [ | reflexivity | unfold NC_begins_loop1_cond, mkS; gb_st; gb_nc; rewrite Hnd; lia ].
    cbn [fix_pass]. rewrite app_nil_r. reflexivity.
  - destruct fuel as [|f]; [cbn in Hf; lia|].
    inversion Hwf as [|? ? Hv Hwr]; subst. inversion Hlen as [|? ? Hlv Hlr]; subst.
    assert (Hlen' : Zlen (pre ++ v :: r) = Zlen pre + 1 + Zlen r) by (rewrite cs_Zlen_app, cs_Zlen_cons; lia).
    pose proof (cs_Zlen_nonneg _ pre) as Hpre0. pose proof (cs_Zlen_nonneg _ r) as Hr0.
    assert (Hb' : lens4 (v :: r) = NC_var__len v + 4 + lens4 r) by reflexivity.
    assert (Hl4 : 0 <= lens4 r).
    { clear - Hlr. unfold lens4. induction Hlr as [|x l Hx Hl IHl]; cbn [map zsum]; lia. }
    rewrite c_loop_iter;
      [ | reflexivity | unfold NC_begins_loop1_cond, mkS; gb_st; gb_nc; rewrite Hnd; lia ].
    unfold NC_begins_loop1_body at 1. unfold mkS. gb_st. gb_nc.
    assert (Hok : p_ok (Some (pre ++ v :: r, 0)) (Zlen pre) = true) by (apply p_ok_some; lia).
    assert (Hget : p_get c_NC_var_default (Some (pre ++ v :: r, 0)) (Zlen pre) = v)
      by (rewrite p_get_some, Z.add_0_l; apply cs_znth_app_Zlen).
    rewrite !Hok, !Hget. cbn [andb]. rewrite Hv. cbn [c_chk].
    fold (cv_isrec v). cbn [fix_pass].
    assert (Hi : in_i32 (Zlen pre + 1) = true) by (apply in_i32_iff; lia).
    assert (Hpre1 : Zlen pre + 1 = Zlen (pre ++ [v])) by (rewrite cs_Zlen_app, cs_Zlen_cons, cs_Zlen_nil; lia).
    assert (Happ : pre ++ v :: r = (pre ++ [v]) ++ r) by (rewrite <- app_assoc; reflexivity).
    assert (Hf' : (Datatypes.length r < f)%nat) by (cbn [Datatypes.length] in Hf; lia).
    destruct (cv_isrec v) eqn:Erec.
    + (* record variable: skipped in this pass *)
      cbn [c_bind].
      unfold NC_begins_loop1_inc at 1. gb_st. rewrite Hi. cbn [c_chk c_bind]. gb_st.
      rewrite Hpre1, Happ.
      assert (Hnd1 : NC_vararray__ndefined (NC__vars n0) = Zlen ((pre ++ [v]) ++ r)) by (rewrite <- Happ; exact Hnd).
      assert (Hn1 : Zlen ((pre ++ [v]) ++ r) <= 2147483647) by (rewrite <- Happ; exact Hn).
      assert (Hb1 : ev + lens4 r <= MAXOFF) by (unfold MAXOFF in *; lia).
      refine (eq_trans (IH (pre ++ [v]) ev fv lastv f Hnd1 Hn1 Hwr Hlr Hev Hb1 Hf') _).
      rewrite <- Hpre1.
      destruct (fix_pass fmt r (Zlen pre + 1) ev fv) as [[[[r' ev'] fv'] i'] ok].
      rewrite <- !app_assoc. cbn [app]. reflexivity.
    + cbn [c_bind]. gb_st. gb_nc.
      set (fv1 := if r_isnull fv then Some (Zlen pre) else fv).
      (* first_var *)
      match goal with |- context [c_bind (if r_isnull fv then ?A else ?B) ?K] =>
        assert (Hfv : c_bind (if r_isnull fv then A else B) K
                      = K (mkS (with_vals n0 (pre ++ v :: r)) ev fv1 (Zlen pre) 0 lastv)) end.
      { unfold fv1, mkS. gb_nc. destruct (r_isnull fv); [rewrite Hok|]; reflexivity. }
      rewrite Hfv. clear Hfv. unfold mkS. gb_st. gb_nc. fold fmt.
      destruct ((fmt =? 1) && (ev >? 2147483647)) eqn:Efmt.
      * (* CDF-1 offset limit *)
        cbn [c_bind]. reflexivity.
      * cbn [c_bind]. gb_st. gb_nc. rewrite !Hok, !Hget.
        assert (Ho : o_ok (NC__old n0) = false) by (rewrite Hold; reflexivity).
        rewrite ?Ho. cbn [negb andb].
        rewrite rnd4_quot by lia.
        pose proof (rndup_bounds ev 4 Hev ltac:(lia)) as Hrb.
        unfold MAXOFF in Hb.
        assert (H1 : in_i64 (ev + 4) = true) by (apply in_i64_iff; lia).
        assert (H2 : in_i64 (ev + 4 - 1) = true) by (apply in_i64_iff; lia).
        assert (H3 : div_ok i64_min (ev + 4 - 1) 4 = true) by (apply div_ok_pos; lia).
        assert (H4 : in_i64 (rndup ev 4) = true) by (apply in_i64_iff; lia).
        rewrite H1, H2, H3, H4. cbn [andb c_chk c_bind]. gb_st. gb_nc.
        cbn [p_set]. rewrite Z.add_0_l, zupd_app_Zlen.
        set (v' := set_NC_var__begin (rndup ev 4) v).
        assert (Hok' : p_ok (Some (pre ++ v' :: r, 0)) (Zlen pre) = true)
          by (apply p_ok_some; rewrite cs_Zlen_app, cs_Zlen_cons; lia).
        assert (Hget' : p_get c_NC_var_default (Some (pre ++ v' :: r, 0)) (Zlen pre) = v')
          by (rewrite p_get_some, Z.add_0_l; apply cs_znth_app_Zlen).
        rewrite ?Ho. cbn [negb c_bind]. gb_st. gb_nc.
        rewrite !Hok', !Hget'. cbn [andb].
        assert (Hb1 : NC_var__begin v' = rndup ev 4) by reflexivity.
        assert (Hl1 : NC_var__len v' = NC_var__len v) by reflexivity.
        rewrite Hb1, Hl1.
        assert (H5 : in_i64 (rndup ev 4 + NC_var__len v) = true) by (apply in_i64_iff; lia).
        rewrite H5. cbn [c_chk c_bind]. gb_st.
        unfold NC_begins_loop1_inc at 1. gb_st. rewrite Hi. cbn [c_chk c_bind]. gb_st.
        rewrite Hpre1.
        assert (Happ' : pre ++ v' :: r = (pre ++ [v']) ++ r) by (rewrite <- app_assoc; reflexivity).
        assert (HZ' : Zlen (pre ++ [v]) = Zlen (pre ++ [v'])) by (rewrite !cs_Zlen_app, !cs_Zlen_cons; reflexivity).
        assert (HZ2 : Zlen (pre ++ v :: r) = Zlen ((pre ++ [v']) ++ r))
          by (rewrite <- Happ', !cs_Zlen_app, !cs_Zlen_cons; reflexivity).
        rewrite HZ', Happ'.
        assert (Hnd1 : NC_vararray__ndefined (NC__vars n0) = Zlen ((pre ++ [v']) ++ r)) by (rewrite <- HZ2; exact Hnd).
        assert (Hn1 : Zlen ((pre ++ [v']) ++ r) <= 2147483647) by (rewrite <- HZ2; exact Hn).
        assert (Hev1 : 0 <= rndup ev 4 + NC_var__len v) by lia.
        assert (Hbb : rndup ev 4 + NC_var__len v + lens4 r <= MAXOFF) by (unfold MAXOFF; lia).
        refine (eq_trans (IH (pre ++ [v']) (rndup ev 4 + NC_var__len v) fv1 lastv f Hnd1 Hn1 Hwr Hlr Hev1 Hbb Hf') _).
        rewrite <- HZ', <- Hpre1. fold fv1.
        destruct (fix_pass fmt r (Zlen pre + 1) (rndup ev 4 + NC_var__len v) fv1) as [[[[r' ev'] fv'] i'] ok].
        rewrite <- !app_assoc. cbn [app]. reflexivity.
Qed.

Lemma gb_loop3 : forall rest pre ev rs fv lastv fuel,
  NC_vararray__ndefined (NC__vars n0) = Zlen (pre ++ rest) -> Zlen (pre ++ rest) <= 2147483647 ->
  Forall cv_wf rest -> Forall (fun v => 0 <= NC_var__len v) rest ->
  0 <= ev -> ev + lens4 rest <= MAXOFF -> 0 <= rs <= ev ->
  (Datatypes.length rest < fuel)%nat ->
  c_loop fuel (NC_begins_loop3_cdef n0 xsz) (NC_begins_loop3_cond n0 xsz)
              (NC_begins_loop3_body n0 xsz) (NC_begins_loop3_inc n0 xsz)
              (mkS (with_vals_rs n0 (pre ++ rest) rs) ev fv (Zlen pre) 0 lastv)
  = let '(r', ev', rs', l', i', ok) := rec_pass fmt rest (Zlen pre) ev rs lastv in
    if ok then CNorm (mkS (with_vals_rs n0 (pre ++ r') rs') ev' fv i' 0 l')
    else CRetS (-62) (mkS (with_vals_rs n0 (pre ++ r') rs') ev' fv i' 0 l').
Proof.
  induction rest as [|v r IH]; intros pre ev rs fv lastv fuel Hnd Hn Hwf Hlen Hev Hb Hrs Hf.
  - destruct fuel as [|f]; [cbn in Hf; lia|].
    rewrite app_nil_r in *.
    rewrite c_loop_exit;
      [ | reflexivity | unfold NC_begins_loop3_cond, mkS, with_vals_rs; gb_st; gb_nc; rewrite Hnd; lia ].
    cbn [rec_pass]. rewrite app_nil_r. reflexivity.
  - destruct fuel as [|f]; [cbn in Hf; lia|].
    inversion Hwf as [|? ? Hv Hwr]; subst. inversion Hlen as [|? ? Hlv Hlr]; subst.
    assert (Hlen' : Zlen (pre ++ v :: r) = Zlen pre + 1 + Zlen r) by (rewrite cs_Zlen_app, cs_Zlen_cons; lia).
    pose proof (cs_Zlen_nonneg _ pre) as Hpre0. pose proof (cs_Zlen_nonneg _ r) as Hr0.
    assert (Hb' : lens4 (v :: r) = NC_var__len v + 4 + lens4 r) by reflexivity.
    assert (Hl4 : 0 <= lens4 r).
    { clear - Hlr. unfold lens4. induction Hlr as [|x l Hx Hl IHl]; cbn [map zsum]; lia. }
    rewrite c_loop_iter;
      [ | reflexivity | unfold NC_begins_loop3_cond, mkS, with_vals_rs; gb_st; gb_nc; rewrite Hnd; lia ].
    unfold NC_begins_loop3_body at 1. unfold mkS, with_vals_rs. gb_st. gb_nc.
    assert (Hok : p_ok (Some (pre ++ v :: r, 0)) (Zlen pre) = true) by (apply p_ok_some; lia).
    assert (Hget : p_get c_NC_var_default (Some (pre ++ v :: r, 0)) (Zlen pre) = v)
      by (rewrite p_get_some, Z.add_0_l; apply cs_znth_app_Zlen).
    rewrite !Hok, !Hget. cbn [andb]. rewrite Hv. cbn [c_chk].
    fold (cv_isrec v). cbn [rec_pass].
    assert (Hi : in_i32 (Zlen pre + 1) = true) by (apply in_i32_iff; lia).
    assert (Hpre1 : Zlen pre + 1 = Zlen (pre ++ [v])) by (rewrite cs_Zlen_app, cs_Zlen_cons, cs_Zlen_nil; lia).
    assert (Happ : pre ++ v :: r = (pre ++ [v]) ++ r) by (rewrite <- app_assoc; reflexivity).
    assert (Hf' : (Datatypes.length r < f)%nat) by (cbn [Datatypes.length] in Hf; lia).
    destruct (cv_isrec v) eqn:Erec; cbn [negb].
    + (* record variable *)
      cbn [c_bind]. gb_st. gb_nc. fold fmt.
      destruct ((fmt =? 1) && (ev >? 2147483647)) eqn:Efmt.
      * cbn [c_bind]. reflexivity.
      * cbn [c_bind]. gb_st. gb_nc. rewrite !Hok, !Hget. cbn [andb c_chk c_bind]. gb_st. gb_nc.
        assert (Ho : o_ok (NC__old n0) = false) by (rewrite Hold; reflexivity).
        rewrite ?Ho. cbn [negb c_bind]. gb_st. gb_nc.
        cbn [p_set]. rewrite Z.add_0_l, zupd_app_Zlen.
        set (v' := set_NC_var__begin ev v).
        assert (Hok' : p_ok (Some (pre ++ v' :: r, 0)) (Zlen pre) = true)
          by (apply p_ok_some; rewrite cs_Zlen_app, cs_Zlen_cons; lia).
        assert (Hget' : p_get c_NC_var_default (Some (pre ++ v' :: r, 0)) (Zlen pre) = v')
          by (rewrite p_get_some, Z.add_0_l; apply cs_znth_app_Zlen).
        rewrite !Hok', !Hget'. cbn [andb].
        assert (Hl1 : NC_var__len v' = NC_var__len v) by reflexivity.
        rewrite Hl1. unfold MAXOFF in Hb.
        assert (H5 : in_i64 (ev + NC_var__len v) = true) by (apply in_i64_iff; lia).
        rewrite H5. cbn [c_chk c_bind]. gb_st. gb_nc. rewrite !Hok', !Hget', Hl1. cbn [andb].
        assert (H6 : in_i64 (rs + NC_var__len v) = true) by (apply in_i64_iff; lia).
        rewrite H6. cbn [c_chk c_bind]. gb_st. gb_nc. rewrite !Hok'. cbn [c_chk c_bind]. gb_st.
        unfold NC_begins_loop3_inc at 1. gb_st. rewrite Hi. cbn [c_chk c_bind]. gb_st.
        rewrite Hpre1.
        assert (Happ' : pre ++ v' :: r = (pre ++ [v']) ++ r) by (rewrite <- app_assoc; reflexivity).
        assert (HZ' : Zlen (pre ++ [v]) = Zlen (pre ++ [v'])) by (rewrite !cs_Zlen_app, !cs_Zlen_cons; reflexivity).
        assert (HZ2 : Zlen (pre ++ v :: r) = Zlen ((pre ++ [v']) ++ r))
          by (rewrite <- Happ', !cs_Zlen_app, !cs_Zlen_cons; reflexivity).
        rewrite HZ', Happ'.
        assert (Hnd1 : NC_vararray__ndefined (NC__vars n0) = Zlen ((pre ++ [v']) ++ r)) by (rewrite <- HZ2; exact Hnd).
        assert (Hn1 : Zlen ((pre ++ [v']) ++ r) <= 2147483647) by (rewrite <- HZ2; exact Hn).
        assert (Hev1 : 0 <= ev + NC_var__len v) by lia.
        assert (Hbb : ev + NC_var__len v + lens4 r <= MAXOFF) by (unfold MAXOFF; lia).
        assert (Hrs1 : 0 <= rs + NC_var__len v <= ev + NC_var__len v) by lia.
        refine (eq_trans (IH (pre ++ [v']) (ev + NC_var__len v) (rs + NC_var__len v) fv (Some (Zlen pre)) f
                             Hnd1 Hn1 Hwr Hlr Hev1 Hbb Hrs1 Hf') _).
        rewrite <- HZ', <- Hpre1.
        destruct (rec_pass fmt r (Zlen pre + 1) (ev + NC_var__len v) (rs + NC_var__len v) (Some (Zlen pre)))
          as [[[[[r' ev'] rs'] l'] i'] ok].
        rewrite <- !app_assoc. cbn [app]. reflexivity.
    + (* fixed-size variable: skipped *)
      cbn [c_bind].
      unfold NC_begins_loop3_inc at 1. gb_st. rewrite Hi. cbn [c_chk c_bind]. gb_st.
      rewrite Hpre1, Happ.
      assert (Hnd1 : NC_vararray__ndefined (NC__vars n0) = Zlen ((pre ++ [v]) ++ r)) by (rewrite <- Happ; exact Hnd).
      assert (Hn1 : Zlen ((pre ++ [v]) ++ r) <= 2147483647) by (rewrite <- Happ; exact Hn).
      assert (Hb1 : ev + lens4 r <= MAXOFF) by (unfold MAXOFF in *; lia).
      refine (eq_trans (IH (pre ++ [v]) ev rs fv lastv f Hnd1 Hn1 Hwr Hlr Hev Hb1 Hrs Hf') _).
      rewrite <- Hpre1.
      destruct (rec_pass fmt r (Zlen pre + 1) ev rs lastv) as [[[[[r' ev'] rs'] l'] i'] ok].
      rewrite <- !app_assoc. cbn [app]. reflexivity.
Qed.
End NoOld.

(* ------------------------------------------------------------------------- *)
(** * Layer 2 (per pass): the list-level passes against Header.begins_fixed / begins_rec, no old layout *)
(* ------------------------------------------------------------------------- *)
Definition pair_of (v : c_NC_var) : bool * Z := (cv_isrec v, NC_var__len v).
Definition fixed_begin (v : c_NC_var) : option Z := if cv_isrec v then None else Some (NC_var__begin v).
Definition rec_begin (v : c_NC_var) : option Z := if cv_isrec v then Some (NC_var__begin v) else None.

Lemma cv_isrec_set_begin : forall b v, cv_isrec (set_NC_var__begin b v) = cv_isrec v.
Proof. reflexivity. Qed.

Lemma fix_pass_begins_fixed : forall fmt rest k ev fv acc,
  let '(r', ev', _, _, ok) := fix_pass fmt rest k ev fv in
  begins_fixed fmt (map pair_of rest) [] ev acc =
  if ok then Some (ev', rev acc ++ map fixed_begin r') else None.
Proof.
  intros fmt rest. induction rest as [|v r IH]; intros k ev fv acc.
  - cbn. rewrite app_nil_r. reflexivity.
  - cbn [fix_pass map begins_fixed]. unfold pair_of at 1.
    destruct (cv_isrec v) eqn:Erec.
    + specialize (IH (k + 1) ev fv (None :: acc)).
      destruct (fix_pass fmt r (k + 1) ev fv) as [[[[r' ev'] fv'] i'] ok].
      cbv beta iota zeta in IH |- *.
      rewrite IH. destruct ok; [|reflexivity].
      cbn [rev map]. unfold fixed_begin at 2. rewrite Erec. rewrite <- app_assoc. reflexivity.
    + change NC_MAX_INT with 2147483647.
      destruct ((fmt =? 1) && (ev >? 2147483647)); [reflexivity|]. cbv zeta.
      match goal with |- context [fix_pass ?a ?b ?c ?d ?e] =>
        specialize (IH c d e (Some (rndup ev 4) :: acc));
        destruct (fix_pass a b c d e) as [[[[r' ev'] fv'] i'] ok] end.
      cbv beta iota zeta in IH |- *.
      rewrite IH. destruct ok; [|reflexivity].
      cbn [rev map]. unfold fixed_begin at 2. rewrite cv_isrec_set_begin, Erec. rewrite <- app_assoc. reflexivity.
Qed.

Definition last_rec_len (init : option Z) (l : list c_NC_var) : option Z :=
  fold_left (fun a v => if cv_isrec v then Some (NC_var__len v) else a) l init.

Lemma rec_pass_begins_rec : forall fmt rest k ev rs lastv lastlen acc,
  let '(r', ev', rs', _, _, ok) := rec_pass fmt rest k ev rs lastv in
  begins_rec fmt (map pair_of rest) [] ev rs lastlen acc =
  if ok then Some (ev', rs', last_rec_len lastlen r', rev acc ++ map rec_begin r') else None.
Proof.
  intros fmt rest. induction rest as [|v r IH]; intros k ev rs lastv lastlen acc.
  - cbn. rewrite app_nil_r. reflexivity.
  - cbn [rec_pass map begins_rec]. unfold pair_of at 1.
    destruct (cv_isrec v) eqn:Erec; cbn [negb].
    + change NC_MAX_INT with 2147483647.
      destruct ((fmt =? 1) && (ev >? 2147483647)); [reflexivity|]. cbv zeta.
      match goal with |- context [rec_pass ?a ?b ?c ?d ?e ?g] =>
        specialize (IH c d e g (Some (NC_var__len v)) (Some ev :: acc));
        destruct (rec_pass a b c d e g) as [[[[[r' ev'] rs'] l'] i'] ok] end.
      cbv beta iota zeta in IH |- *.
      rewrite IH. destruct ok; [|reflexivity].
      cbn [rev map]. unfold rec_begin at 2. rewrite cv_isrec_set_begin, Erec.
      unfold last_rec_len. cbn [fold_left]. rewrite cv_isrec_set_begin, Erec.
      rewrite <- app_assoc. reflexivity.
    + match goal with |- context [rec_pass ?a ?b ?c ?d ?e ?g] =>
        specialize (IH c d e g lastlen (None :: acc));
        destruct (rec_pass a b c d e g) as [[[[[r' ev'] rs'] l'] i'] ok] end.
      cbv beta iota zeta in IH |- *.
      rewrite IH. destruct ok; [|reflexivity].
      cbn [rev map]. unfold rec_begin at 2. rewrite Erec.
      unfold last_rec_len. cbn [fold_left]. rewrite Erec.
      rewrite <- app_assoc. reflexivity.
Qed.

(* ------------------------------------------------------------------------- *)
(** * The two loops of NC_begins, as generated, against Header.begins_fixed / begins_rec (no old layout) *)
(* ------------------------------------------------------------------------- *)
Definition arr_of (s : st_NC_begins) : list c_NC_var :=
  match NC_vararray__value (NC__vars (NC_begins__P_ncp s)) with Some (a, _) => a | None => [] end.

Lemma lens4_nonneg_fuel : forall (vars : list c_NC_var) n0 xsz s,
  NC_vararray__ndefined (NC__vars n0) = Zlen vars ->
  NC_begins__i s = 0 -> NC_vararray__ndefined (NC__vars (NC_begins__P_ncp s)) = Zlen vars ->
  (Datatypes.length vars < NC_begins_loop1_fuel n0 xsz s)%nat /\
  (Datatypes.length vars < NC_begins_loop3_fuel n0 xsz s)%nat.
Proof.
  intros vars n0 xsz s H0 Hi Hn. unfold NC_begins_loop1_fuel, NC_begins_loop3_fuel, c_fuel_lt.
  rewrite Hi, Hn. unfold Zlen. rewrite Z.sub_0_r, Nat2Z.id. lia.
Qed.

Lemma fix_pass_i : forall fmt rest k ev fv r' ev' fv' i',
  fix_pass fmt rest k ev fv = (r', ev', fv', i', true) -> i' = k + Zlen rest.
Proof.
  intros fmt rest. induction rest as [|v r IH]; intros k ev fv r' ev' fv' i' E.
  - cbn in E. inversion E; subst. rewrite cs_Zlen_nil. lia.
  - cbn [fix_pass] in E. rewrite cs_Zlen_cons.
    destruct (cv_isrec v).
    + match type of E with context [fix_pass ?a ?b ?c ?d ?e] =>
        destruct (fix_pass a b c d e) as [[[[r1 e1] f1] i1] o1] eqn:E1 end.
      inversion E; subst. apply IH in E1. lia.
    + destruct ((fmt =? 1) && (ev >? 2147483647)); [inversion E|]. cbv zeta in E.
      match type of E with context [fix_pass ?a ?b ?c ?d ?e] =>
        destruct (fix_pass a b c d e) as [[[[r1 e1] f1] i1] o1] eqn:E1 end.
      inversion E; subst. apply IH in E1. lia.
Qed.

Theorem gen_begins_fixed_eq : forall n0 xsz vars ev lastv,
  NC__old n0 = None ->
  NC_vararray__ndefined (NC__vars n0) = Zlen vars -> Zlen vars <= 2147483647 ->
  Forall cv_wf vars -> Forall (fun v => 0 <= NC_var__len v) vars ->
  0 <= ev -> ev + lens4 vars <= MAXOFF ->
  let s0 := mkS (with_vals n0 vars) ev None 0 0 lastv in
  exists s',
    c_loop (NC_begins_loop1_fuel n0 xsz s0) (NC_begins_loop1_cdef n0 xsz) (NC_begins_loop1_cond n0 xsz)
           (NC_begins_loop1_body n0 xsz) (NC_begins_loop1_inc n0 xsz) s0
    = match begins_fixed (NC__format n0) (map pair_of vars) [] ev [] with
      | Some _ => CNorm s'
      | None => CRetS NC_EVARSIZE s'
      end /\
    forall ef fb, begins_fixed (NC__format n0) (map pair_of vars) [] ev [] = Some (ef, fb) ->
      NC_begins__end_var s' = ef /\ map fixed_begin (arr_of s') = fb /\ NC_begins__i s' = Zlen vars.
Proof.
  intros n0 xsz vars ev lastv Hold Hnd Hn Hwf Hlen Hev Hb s0.
  assert (Hf : (Datatypes.length vars < NC_begins_loop1_fuel n0 xsz s0)%nat).
  { apply (lens4_nonneg_fuel vars n0 xsz s0 Hnd); [reflexivity | exact Hnd]. }
  pose proof (gb_loop1 n0 xsz Hold vars [] ev None lastv _ Hnd Hn Hwf Hlen Hev Hb Hf) as HL.
  pose proof (fix_pass_begins_fixed (NC__format n0) vars 0 ev None []) as HP.
  change (Zlen (@nil c_NC_var)) with 0 in HL. cbn [app] in HL.
  destruct (fix_pass (NC__format n0) vars 0 ev None) as [[[[r' ev'] fv'] i'] ok] eqn:Efp.
  cbv beta iota zeta in HL, HP. cbn [rev app] in HP.
  destruct ok.
  - exists (mkS (with_vals n0 r') ev' fv' i' 0 lastv). split.
    + rewrite HP. exact HL.
    + intros ef fb E. rewrite HP in E. inversion E; subst. split; [reflexivity|]. split; [reflexivity|].
      cbn [NC_begins__i mkS].
      rewrite (fix_pass_i _ _ _ _ _ _ _ _ _ Efp). lia.
  - exists (mkS (with_vals n0 r') ev' fv' i' 0 lastv). split.
    + rewrite HP. exact HL.
    + intros ef fb E. rewrite HP in E. discriminate.
Qed.

Theorem gen_begins_rec_eq : forall n0 xsz vars ev fv lastv,
  NC__old n0 = None ->
  NC_vararray__ndefined (NC__vars n0) = Zlen vars -> Zlen vars <= 2147483647 ->
  Forall cv_wf vars -> Forall (fun v => 0 <= NC_var__len v) vars ->
  0 <= ev -> ev + lens4 vars <= MAXOFF ->
  let s0 := mkS (with_vals_rs n0 vars 0) ev fv 0 0 lastv in
  exists s',
    c_loop (NC_begins_loop3_fuel n0 xsz s0) (NC_begins_loop3_cdef n0 xsz) (NC_begins_loop3_cond n0 xsz)
           (NC_begins_loop3_body n0 xsz) (NC_begins_loop3_inc n0 xsz) s0
    = match begins_rec (NC__format n0) (map pair_of vars) [] ev 0 None [] with
      | Some _ => CNorm s'
      | None => CRetS NC_EVARSIZE s'
      end /\
    forall er rs ll rb, begins_rec (NC__format n0) (map pair_of vars) [] ev 0 None [] = Some (er, rs, ll, rb) ->
      NC_begins__end_var s' = er /\ NC__recsize (NC_begins__P_ncp s') = rs /\
      map rec_begin (arr_of s') = rb /\ last_rec_len None (arr_of s') = ll.
Proof.
  intros n0 xsz vars ev fv lastv Hold Hnd Hn Hwf Hlen Hev Hb s0.
  assert (Hf : (Datatypes.length vars < NC_begins_loop3_fuel n0 xsz s0)%nat).
  { apply (lens4_nonneg_fuel vars n0 xsz s0 Hnd); [reflexivity | exact Hnd]. }
  assert (Hrs : 0 <= 0 <= ev) by lia.
  pose proof (gb_loop3 n0 xsz Hold vars [] ev 0 fv lastv _ Hnd Hn Hwf Hlen Hev Hb Hrs Hf) as HL.
  pose proof (rec_pass_begins_rec (NC__format n0) vars 0 ev 0 lastv None []) as HP.
  change (Zlen (@nil c_NC_var)) with 0 in HL. cbn [app] in HL.
  destruct (rec_pass (NC__format n0) vars 0 ev 0 lastv) as [[[[[r' ev'] rs'] l'] i'] ok] eqn:Efp.
  cbv beta iota zeta in HL, HP. cbn [rev app] in HP.
  destruct ok.
  - exists (mkS (with_vals_rs n0 r' rs') ev' fv i' 0 l'). split.
    + rewrite HP. exact HL.
    + intros er rs ll rb E. rewrite HP in E. inversion E; subst. repeat split.
  - exists (mkS (with_vals_rs n0 r' rs') ev' fv i' 0 l'). split.
    + rewrite HP. exact HL.
    + intros er rs ll rb E. rewrite HP in E. discriminate.
Qed.

Theorem gen_begins_subset_complete : tr_cfun_unsupported = [].
Proof. reflexivity. Qed.

(* the only branch left out: the redundant safe-mode consistency test *)
Theorem gen_begins_excluded :
  tr_cfun_excluded = ["NC_begins: EXCLUDED by the target description: the branch of if (ncp->safe_mode && ncp->nprocs > 1)"%string].
Proof. reflexivity. Qed.

(* ------------------------------------------------------------------------- *)
(** * The whole generated function runs: concrete headers against Header.begins *)
(* ------------------------------------------------------------------------- *)
Definition c_shape_b (shape : list Z) : c_ptr Z := match shape with [] => None | _ => Some (shape, 0) end.
Definition cv_of (dims : list dim) (v : var) : c_NC_var :=
  {| NC_var__begin := v_begin v;
     NC_var__dsizes := Some ([var_nelems_per_rec (var_shape dims v)], 0);
     NC_var__len := var_len dims v;
     NC_var__shape := c_shape_b (var_shape dims v);
     NC_var__xsz := xlen_type (v_type v) |}.
(* the view of NC *ncp at the entry of NC_begins for a file without a saved old header *)
Definition c_view_nc (h : hdr) (hm vm ha ra pbr flags : Z) : c_NC :=
  {| NC__begin_rec := pbr; NC__begin_var := 0; NC__flags := flags; NC__format := h_format h;
     NC__h_align := ha; NC__h_minfree := hm; NC__nprocs := 1; NC__numrecs := h_numrecs h; NC__old := None;
     NC__r_align := ra; NC__recsize := 0; NC__safe_mode := 0; NC__v_minfree := vm;
     NC__vars := {| NC_vararray__ndefined := Zlen (h_vars h);
                    NC_vararray__value := match h_vars h with [] => None
                                          | _ => Some (map (cv_of (h_dims h)) (h_vars h), 0) end |};
     NC__xsz := 0 |}.

(* what the final state says, in the model's terms *)
Definition layout_of_state (s : st_NC_begins) : layout :=
  let n := NC_begins__P_ncp s in
  mklayout (NC__xsz n) (NC__begin_var n) (NC__begin_rec n) (NC__recsize n) (map NC_var__begin (arr_of s)).

Definition exb_dims : list dim := [mkdim [116] 0; mkdim [120] 10; mkdim [121] 7; mkdim [122] 536870912].
Definition exb_var (nm : Z) (ids : list Z) (t : Z) : var := mkvar [nm] ids [] t 0 false.


(* ------------------------------------------------------------------------- *)
(** * The whole function, new file (ncp->old == NULL): gen_begins_eq_new          *)
(* ------------------------------------------------------------------------- *)
(* everything of a variable but its begin *)
Definition nb (v : c_NC_var) : c_ptr Z * Z * c_ptr Z * Z :=
  (NC_var__shape v, NC_var__len v, NC_var__dsizes v, NC_var__xsz v).
Definition isrec_nb (t : c_ptr Z * Z * c_ptr Z * Z) : bool :=
  z2b (if negb (p_isnull (fst (fst (fst t)))) then b2z (p_get 0 (fst (fst (fst t))) 0 =? 0) else 0).
Lemma cv_isrec_nb : forall v, cv_isrec v = isrec_nb (nb v).
Proof. reflexivity. Qed.

Lemma fix_pass_nb : forall fmt rest k ev fv r' ev' fv' i' ok,
  fix_pass fmt rest k ev fv = (r', ev', fv', i', ok) -> map nb r' = map nb rest.
Proof.
  intros fmt rest. induction rest as [|v r IH]; intros k ev fv r' ev' fv' i' ok E.
  - cbn in E. inversion E; reflexivity.
  - cbn [fix_pass] in E. destruct (cv_isrec v).
    + match type of E with context [fix_pass ?a ?b ?c ?d ?e] =>
        destruct (fix_pass a b c d e) as [[[[r1 e1] f1] i1] o1] eqn:E1 end.
      inversion E; subst. cbn [map]. f_equal. eapply IH; exact E1.
    + destruct ((fmt =? 1) && (ev >? 2147483647)); [inversion E; reflexivity|]. cbv zeta in E.
      match type of E with context [fix_pass ?a ?b ?c ?d ?e] =>
        destruct (fix_pass a b c d e) as [[[[r1 e1] f1] i1] o1] eqn:E1 end.
      inversion E; subst. cbn [map]. f_equal. eapply IH; exact E1.
Qed.

Lemma rec_pass_nb : forall fmt rest k ev rs lv r' ev' rs' l' i' ok,
  rec_pass fmt rest k ev rs lv = (r', ev', rs', l', i', ok) ->
  map nb r' = map nb rest /\ map fixed_begin r' = map fixed_begin rest.
Proof.
  intros fmt rest. induction rest as [|v r IH]; intros k ev rs lv r' ev' rs' l' i' ok E.
  - cbn in E. inversion E; split; reflexivity.
  - cbn [rec_pass] in E. destruct (cv_isrec v) eqn:Erec; cbn [negb] in E.
    + destruct ((fmt =? 1) && (ev >? 2147483647)); [inversion E; split; reflexivity|].
      match type of E with context [rec_pass ?a ?b ?c ?d ?e ?g] =>
        destruct (rec_pass a b c d e g) as [[[[[r1 e1] s1] l1] i1] o1] eqn:E1 end.
      inversion E; subst. apply IH in E1. destruct E1 as [H1 H2]. cbn [map].
      split; [f_equal; exact H1|]. f_equal; [|exact H2].
      unfold fixed_begin. rewrite cv_isrec_set_begin, Erec. reflexivity.
    + match type of E with context [rec_pass ?a ?b ?c ?d ?e ?g] =>
        destruct (rec_pass a b c d e g) as [[[[[r1 e1] s1] l1] i1] o1] eqn:E1 end.
      inversion E; subst. apply IH in E1. destruct E1 as [H1 H2]. cbn [map].
      split; f_equal; assumption.
Qed.

Lemma map_nb_props : forall l1 l2, map nb l1 = map nb l2 ->
  Zlen l1 = Zlen l2 /\ lens4 l1 = lens4 l2 /\ (Forall cv_wf l2 -> Forall cv_wf l1) /\
  (Forall (fun v => 0 <= NC_var__len v) l2 -> Forall (fun v => 0 <= NC_var__len v) l1) /\
  map cv_isrec l1 = map cv_isrec l2.
Proof.
  induction l1 as [|a l1 IH]; intros [|b l2] H; try discriminate.
  - repeat split; auto.
  - cbn [map] in H. inversion H as [[Hs Hl Hd Hx Hr]]. destruct (IH l2 Hr) as (A & B & C & D & F).
    rewrite !cs_Zlen_cons. unfold lens4 in *. cbn [map zsum]. rewrite Hl.
    split; [lia|]. split; [lia|]. split; [|split].
    + intros Hw. inversion Hw; subst. constructor; [|auto]. unfold cv_wf in *. rewrite Hs. assumption.
    + intros Hw. inversion Hw; subst. constructor; [lia|auto].
    + f_equal; [|exact F]. rewrite !cv_isrec_nb. unfold nb. rewrite Hs, Hl, Hd, Hx. reflexivity.
Qed.

(* end offset of a pass stays below the potential; first_var is the first fixed-size variable *)
Lemma fix_pass_bounds : forall fmt rest k ev fv r' ev' fv' i' ok,
  fix_pass fmt rest k ev fv = (r', ev', fv', i', ok) ->
  0 <= ev -> Forall (fun v => 0 <= NC_var__len v) rest -> ev <= ev' <= ev + lens4 rest.
Proof.
  intros fmt rest. induction rest as [|v r IH]; intros k ev fv r' ev' fv' i' ok E Hev Hl.
  - cbn in E. inversion E; subst. unfold lens4. cbn. lia.
  - inversion Hl as [|? ? Hv Hr]; subst.
    assert (Hl4 : 0 <= lens4 r).
    { clear - Hr. unfold lens4. induction Hr as [|x l Hx Hl IHl]; cbn [map zsum]; lia. }
    assert (Hb' : lens4 (v :: r) = NC_var__len v + 4 + lens4 r) by reflexivity.
    cbn [fix_pass] in E. destruct (cv_isrec v).
    + match type of E with context [fix_pass ?a ?b ?c ?d ?e] =>
        destruct (fix_pass a b c d e) as [[[[r1 e1] f1] i1] o1] eqn:E1 end.
      inversion E; subst. apply IH in E1; [lia | lia | exact Hr].
    + destruct ((fmt =? 1) && (ev >? 2147483647)); [inversion E; subst; lia|]. cbv zeta in E.
      match type of E with context [fix_pass ?a ?b ?c ?d ?e] =>
        destruct (fix_pass a b c d e) as [[[[r1 e1] f1] i1] o1] eqn:E1 end.
      inversion E; subst. pose proof (rndup_bounds ev 4 Hev ltac:(lia)).
      apply IH in E1; [lia | lia | exact Hr].
Qed.

Lemma fix_pass_fv_some : forall fmt rest k ev j r' ev' fv' i' ok,
  fix_pass fmt rest k ev (Some j) = (r', ev', fv', i', ok) -> fv' = Some j.
Proof.
  intros fmt rest. induction rest as [|v r IH]; intros k ev j r' ev' fv' i' ok E.
  - cbn in E. inversion E; reflexivity.
  - cbn [fix_pass] in E. destruct (cv_isrec v).
    + match type of E with context [fix_pass ?a ?b ?c ?d ?e] =>
        destruct (fix_pass a b c d e) as [[[[r1 e1] f1] i1] o1] eqn:E1 end.
      inversion E; subst. eapply IH; exact E1.
    + cbn [r_isnull] in E.
      destruct ((fmt =? 1) && (ev >? 2147483647)); [inversion E; reflexivity|]. cbv zeta in E.
      match type of E with context [fix_pass ?a ?b ?c ?d ?e] =>
        destruct (fix_pass a b c d e) as [[[[r1 e1] f1] i1] o1] eqn:E1 end.
      inversion E; subst. eapply IH; exact E1.
Qed.

Lemma fix_pass_fv : forall fmt rest k ev r' ev' fv' i',
  fix_pass fmt rest k ev None = (r', ev', fv', i', true) ->
  fv' = find_index (fun v => negb (cv_isrec v)) rest k.
Proof.
  intros fmt rest. induction rest as [|v r IH]; intros k ev r' ev' fv' i' E.
  - cbn in E. inversion E; reflexivity.
  - cbn [fix_pass find_index] in E |- *. destruct (cv_isrec v); cbn [negb].
    + match type of E with context [fix_pass ?a ?b ?c ?d ?e] =>
        destruct (fix_pass a b c d e) as [[[[r1 e1] f1] i1] o1] eqn:E1 end.
      inversion E; subst. eapply IH; exact E1.
    + destruct ((fmt =? 1) && (ev >? 2147483647)); [inversion E|]. cbv zeta in E. cbn [r_isnull] in E.
      match type of E with context [fix_pass ?a ?b ?c ?d ?e] =>
        destruct (fix_pass a b c d e) as [[[[r1 e1] f1] i1] o1] eqn:E1 end.
      inversion E; subst. eapply fix_pass_fv_some; exact E1.
Qed.

Lemma rec_pass_bounds : forall fmt rest k ev rs lv r' ev' rs' l' i' ok,
  rec_pass fmt rest k ev rs lv = (r', ev', rs', l', i', ok) ->
  0 <= rs <= ev -> Forall (fun v => 0 <= NC_var__len v) rest -> 0 <= rs' <= ev'.
Proof.
  intros fmt rest. induction rest as [|v r IH]; intros k ev rs lv r' ev' rs' l' i' ok E Hrs Hl.
  - cbn in E. inversion E; subst. lia.
  - inversion Hl as [|? ? Hv Hr]; subst. cbn [rec_pass] in E. destruct (cv_isrec v); cbn [negb] in E.
    + destruct ((fmt =? 1) && (ev >? 2147483647)); [inversion E; subst; lia|].
      match type of E with context [rec_pass ?a ?b ?c ?d ?e ?g] =>
        destruct (rec_pass a b c d e g) as [[[[[r1 e1] s1] l1] i1] o1] eqn:E1 end.
      inversion E; subst. apply IH in E1; [lia | lia | exact Hr].
    + match type of E with context [rec_pass ?a ?b ?c ?d ?e ?g] =>
        destruct (rec_pass a b c d e g) as [[[[[r1 e1] s1] l1] i1] o1] eqn:E1 end.
      inversion E; subst. apply IH in E1; [lia | lia | exact Hr].
Qed.

(* the last record variable *)
Lemma last_opt_cons : forall A (a : A) l,
  last_opt (a :: l) = match last_opt l with Some x => Some x | None => Some a end.
Proof.
  intros A a l. unfold last_opt. cbn [rev]. destruct (rev l) as [|x t]; reflexivity.
Qed.

Lemma fold_last_gen : forall A (p : A -> bool) l init,
  fold_left (fun a x => if p x then Some x else a) l init =
  match last_opt (filter p l) with Some x => Some x | None => init end.
Proof.
  intros A p l. induction l as [|a l IH]; intros init; [reflexivity|].
  cbn [fold_left filter]. rewrite IH. destruct (p a).
  - rewrite last_opt_cons. destruct (last_opt (filter p l)); reflexivity.
  - reflexivity.
Qed.

Definition lastg (a : option c_NC_var) (x : c_NC_var) : option c_NC_var := if cv_isrec x then Some x else a.

Definition linv (pre : list c_NC_var) (lv : c_ref) (A : option c_NC_var) : Prop :=
  match lv with
  | None => A = None
  | Some j => 0 <= j < Zlen pre /\ A = Some (znth pre j c_NC_var_default)
  end.

Lemma znth_app_lt : forall A (l r : list A) j d, 0 <= j < Zlen l -> znth (l ++ r) j d = znth l j d.
Proof.
  induction l as [|a l IH]; intros r j d H; [rewrite cs_Zlen_nil in H; lia|].
  rewrite cs_Zlen_cons in H. cbn [app znth]. destruct (j =? 0) eqn:E; [reflexivity|]. apply IH. lia.
Qed.

Lemma linv_app : forall pre x lv A, linv pre lv A -> linv (pre ++ [x]) lv A.
Proof.
  intros pre x [j|] A H; cbn [linv] in *; [|exact H]. destruct H as [Hj HA].
  rewrite cs_Zlen_app, cs_Zlen_cons, cs_Zlen_nil. split; [lia|]. rewrite znth_app_lt by lia. exact HA.
Qed.

Lemma rec_pass_last : forall fmt rest pre ev rs lv A0 r' ev' rs' l' i',
  rec_pass fmt rest (Zlen pre) ev rs lv = (r', ev', rs', l', i', true) ->
  linv pre lv A0 -> linv (pre ++ r') l' (fold_left lastg r' A0).
Proof.
  intros fmt rest. induction rest as [|v r IH]; intros pre ev rs lv A0 r' ev' rs' l' i' E H.
  - cbn in E. inversion E; subst. rewrite app_nil_r. exact H.
  - cbn [rec_pass] in E. destruct (cv_isrec v) eqn:Erec; cbn [negb] in E.
    + destruct ((fmt =? 1) && (ev >? 2147483647)); [inversion E|].
      set (v' := set_NC_var__begin ev v) in *.
      assert (Hk : Zlen pre + 1 = Zlen (pre ++ [v'])) by (rewrite cs_Zlen_app, cs_Zlen_cons, cs_Zlen_nil; lia).
      rewrite Hk in E.
      match type of E with context [rec_pass ?a ?b ?c ?d ?e ?g] =>
        destruct (rec_pass a b c d e g) as [[[[[r1 e1] s1] l1] i1] o1] eqn:E1 end.
      inversion E; subst.
      assert (H1 : linv (pre ++ [v']) (Some (Zlen pre)) (Some v')).
      { cbn [linv]. rewrite <- Hk. pose proof (cs_Zlen_nonneg _ pre). split; [lia|].
        rewrite cs_znth_app_Zlen. reflexivity. }
      pose proof (IH (pre ++ [v']) _ _ _ (Some v') _ _ _ _ _ E1 H1) as H2.
      rewrite <- app_assoc in H2. cbn [app] in H2. cbn [fold_left].
      replace (lastg A0 v') with (Some v')
        by (unfold lastg, v'; rewrite cv_isrec_set_begin, Erec; reflexivity).
      exact H2.
    + assert (Hk : Zlen pre + 1 = Zlen (pre ++ [v])) by (rewrite cs_Zlen_app, cs_Zlen_cons, cs_Zlen_nil; lia).
      rewrite Hk in E.
      match type of E with context [rec_pass ?a ?b ?c ?d ?e ?g] =>
        destruct (rec_pass a b c d e g) as [[[[[r1 e1] s1] l1] i1] o1] eqn:E1 end.
      inversion E; subst.
      pose proof (IH (pre ++ [v]) _ _ _ A0 _ _ _ _ _ E1 (linv_app pre v lv A0 H)) as H2.
      rewrite <- app_assoc in H2. cbn [app] in H2. cbn [fold_left].
      replace (lastg A0 v) with A0 by (unfold lastg; rewrite Erec; reflexivity).
      exact H2.
Qed.

Lemma fold_last_nb : forall l1 l2 A1 A2, map nb l1 = map nb l2 -> option_map nb A1 = option_map nb A2 ->
  option_map nb (fold_left lastg l1 A1) = option_map nb (fold_left lastg l2 A2).
Proof.
  induction l1 as [|a l1 IH]; intros [|b l2] A1 A2 H HA; try discriminate; [exact HA|].
  cbn [map] in H. injection H as H1 H2 H3 H4 Hr.
  assert (Hab : nb a = nb b) by (unfold nb; rewrite H1, H2, H3, H4; reflexivity).
  cbn [fold_left]. apply IH; [exact Hr|].
  unfold lastg. rewrite !cv_isrec_nb, Hab. destruct (isrec_nb (nb b)); [cbn [option_map]; rewrite Hab; reflexivity | exact HA].
Qed.

Lemma last_rec_len_fold : forall l A,
  last_rec_len (option_map NC_var__len A) l = option_map NC_var__len (fold_left lastg l A).
Proof.
  induction l as [|a l IH]; intros A; [reflexivity|].
  unfold last_rec_len in *. cbn [fold_left]. unfold lastg at 2.
  destruct (cv_isrec a); [apply (IH (Some a)) | apply IH].
Qed.

Lemma cv_isrec_cv_of : forall dims v, cv_isrec (cv_of dims v) = is_recvar dims v.
Proof.
  intros dims v. unfold cv_isrec, cv_of, is_recvar. cbn [NC_var__shape].
  destruct (var_shape dims v) as [|s0 r]; [reflexivity|].
  cbn [c_shape_b p_isnull negb]. rewrite p_get_some. cbn [Z.add znth Z.eqb]. apply z2b_b2z.
Qed.

Lemma fold_last_cv_of : forall dims vars A,
  fold_left lastg (map (cv_of dims) vars) (option_map (cv_of dims) A) =
  option_map (cv_of dims) (fold_left (fun a x => if is_recvar dims x then Some x else a) vars A).
Proof.
  intros dims vars. induction vars as [|v r IH]; intros A; [reflexivity|].
  cbn [map fold_left]. unfold lastg at 2. rewrite cv_isrec_cv_of.
  destruct (is_recvar dims v); [apply (IH (Some v)) | apply IH].
Qed.

Lemma merge_fixed_rec : forall l, merge_opts (map fixed_begin l) (map rec_begin l) = map NC_var__begin l.
Proof.
  induction l as [|v l IH]; [reflexivity|]. cbn [map]. unfold fixed_begin at 1, rec_begin at 1.
  destruct (cv_isrec v); cbn [merge_opts]; rewrite IH; reflexivity.
Qed.

Lemma find_index_range : forall A (p : A -> bool) l k j d,
  find_index p l k = Some j -> k <= j < k + Zlen l /\ p (znth l (j - k) d) = true.
Proof.
  intros A p l. induction l as [|a l IH]; intros k j d H; [discriminate|].
  cbn [find_index] in H. rewrite cs_Zlen_cons. pose proof (cs_Zlen_nonneg _ l).
  destruct (p a) eqn:E.
  - inversion H; subst. replace (j - j) with 0 by lia. cbn [znth Z.eqb]. split; [lia | exact E].
  - apply (IH (k + 1) j d) in H. destruct H as [H1 H2]. split; [lia|].
    cbn [znth]. destruct (j - k =? 0) eqn:E0; [lia|]. replace (j - k - 1) with (j - (k + 1)) by lia. exact H2.
Qed.

Lemma find_index_map : forall A B (f : A -> B) (p : B -> bool) l k,
  find_index p (map f l) k = find_index (fun x => p (f x)) l k.
Proof.
  intros A B f p l. induction l as [|a l IH]; intros k; [reflexivity|].
  cbn [map find_index]. destruct (p (f a)); [reflexivity | apply IH].
Qed.

Lemma znth_map_d : forall A B (f : A -> B) l j d d', 0 <= j < Zlen l -> znth (map f l) j d' = f (znth l j d).
Proof.
  intros A B f l. induction l as [|a l IH]; intros j d d' H; [rewrite cs_Zlen_nil in H; lia|].
  rewrite cs_Zlen_cons in H. cbn [map znth]. destruct (j =? 0) eqn:E; [reflexivity|]. apply IH. lia.
Qed.

Lemma map_nb_pair_of : forall l1 l2, map nb l1 = map nb l2 -> map pair_of l1 = map pair_of l2.
Proof.
  intros l1 l2 H.
  assert (E : forall l, map pair_of l = map (fun t => (isrec_nb t, snd (fst (fst t)))) (map nb l)).
  { intros l. rewrite map_map. apply map_ext. intros v. reflexivity. }
  rewrite !E, H. reflexivity.
Qed.

Lemma znth_In : forall A (l : list A) j d, 0 <= j < Zlen l -> In (znth l j d) l.
Proof.
  induction l as [|a l IH]; intros j d H; [rewrite cs_Zlen_nil in H; lia|].
  rewrite cs_Zlen_cons in H. cbn [znth]. destruct (j =? 0) eqn:E; [left; reflexivity|]. right. apply IH. lia.
Qed.

Definition c_view_nc2 (h : hdr) (hm vm ha ra pbr flags sm np : Z) : c_NC :=
  {| NC__begin_rec := pbr; NC__begin_var := 0; NC__flags := flags; NC__format := h_format h;
     NC__h_align := ha; NC__h_minfree := hm; NC__nprocs := np; NC__numrecs := h_numrecs h; NC__old := None;
     NC__r_align := ra; NC__recsize := 0; NC__safe_mode := sm; NC__v_minfree := vm;
     NC__vars := {| NC_vararray__ndefined := Zlen (h_vars h);
                    NC_vararray__value := match h_vars h with [] => None
                                          | _ => Some (map (cv_of (h_dims h)) (h_vars h), 0) end |};
     NC__xsz := 0 |}.

Definition begins_guards (h : hdr) (hm vm ha ra pbr : Z) : Prop :=
  0 <= hdr_len h /\ 0 <= hm /\ 1 <= ha /\ 0 <= vm /\ 0 <= ra /\ 0 <= pbr /\
  Zlen (h_vars h) <= 2147483647 /\
  Forall (fun v => 0 <= var_len (h_dims h) v /\
                   in_i64 (var_nelems_per_rec (var_shape (h_dims h) v) * xlen_type (v_type v)) = true) (h_vars h) /\
  hdr_len h + hm + ha + pbr + vm + 4 + ra +
    2 * zsum (map (fun v => var_len (h_dims h) v + 4) (h_vars h)) <= MAXOFF.

Lemma rndq : forall x a, 0 <= x -> 1 <= a -> Z.quot (x + a - 1) a * a = rndup x a.
Proof.
  intros x a Hx Ha. unfold rndup. destruct (a =? 0) eqn:E; [lia|]. rewrite quot_is_div by lia. reflexivity.
Qed.

Theorem gen_begins_eq_new : forall h hm vm ha ra pbr flags sm np,
  h_vars h <> [] ->
  (z2b sm && (np >? 1)) = false -> begins_guards h hm vm ha ra pbr ->
  exists rc s', NC_begins_c (c_view_nc2 h hm vm ha ra pbr flags sm np) (hdr_len h) = FValS rc s' /\
    match begins h hm vm ha ra None pbr with
    | None => rc = NC_EVARSIZE
    | Some lay => rc = NC_NOERR /\ layout_of_state s' = lay /\
                  NC__numrecs (NC_begins__P_ncp s') = (if z2b (Z.land flags 32768) then 0 else h_numrecs h)
    end.
Proof.
  intros h hm vm ha ra pbr flags sm np Hne Hsm (Hx & Hhm & Hha & Hvm & Hra & Hpbr & Hn & Hvars & Hbound).
  destruct (h_vars h) as [|v0 vr] eqn:Ev; [exfalso; apply Hne; reflexivity|]. clear Hne.
  set (dims := h_dims h) in *. set (vars := v0 :: vr) in *. set (arr := map (cv_of dims) vars).
  set (xsz := hdr_len h) in *.
  assert (Hlens : lens4 arr = zsum (map (fun v => var_len dims v + 4) vars)).
  { unfold lens4, arr. rewrite map_map. reflexivity. }
  assert (HZarr : Zlen arr = Zlen vars) by (unfold arr; apply cs_Zlen_map).
  assert (Hwf : Forall cv_wf arr).
  { unfold arr. rewrite Forall_map. apply Forall_forall. intros v _. unfold cv_wf, cv_of. cbn [NC_var__shape].
    destruct (var_shape dims v) as [|s0 r]; [reflexivity|]. cbn [c_shape_b p_isnull negb]. apply p_ok_cons0. }
  assert (Hlen : Forall (fun v => 0 <= NC_var__len v) arr).
  { unfold arr. rewrite Forall_map. eapply Forall_impl; [|exact Hvars]. intros v [H1 _]. exact H1. }
  assert (Hl4 : 0 <= lens4 arr).
  { clear - Hlen. unfold lens4. induction Hlen as [|x l Hx Hl IHl]; cbn [map zsum]; lia. }
  assert (Hnpos : 0 < Zlen vars).
  { unfold vars. rewrite cs_Zlen_cons. pose proof (cs_Zlen_nonneg _ vr). lia. }
  unfold MAXOFF in Hbound. rewrite <- Hlens in Hbound.
  unfold NC_begins_c, NC_begins_body, st_NC_begins_init, c_view_nc2.
  rewrite !Ev. cbn [c_bind]. gb_st. gb_nc. fold dims vars arr. rewrite Hsm. cbn [c_bind]. gb_st. gb_nc.
  replace (Zlen vars >? 0) with true by lia.
  set (bv0 := rndup (xsz + hm) ha).
  pose proof (rndup_bounds (xsz + hm) ha ltac:(lia) Hha) as Hbv0. fold bv0 in Hbv0.
  rewrite rndq by lia. fold bv0.
  assert (C1 : in_i64 (xsz + hm) && in_i64 (xsz + hm + ha) && in_i64 (xsz + hm + ha - 1) &&
               div_ok i64_min (xsz + hm + ha - 1) ha && in_i64 bv0 = true).
  { rewrite div_ok_pos by lia. unfold in_i64. lia. }
  rewrite C1. cbn [c_chk c_bind]. gb_st. gb_nc. cbn [o_ok negb c_bind]. gb_st. gb_nc.
  change (match vars with [] => None | _ :: _ => Some (arr, 0) end) with (Some (arr, 0)).
  (* loop 1 *)
  set (n1 := {| NC__begin_rec := pbr; NC__begin_var := bv0; NC__flags := flags; NC__format := h_format h;
                NC__h_align := ha; NC__h_minfree := hm; NC__nprocs := np; NC__numrecs := h_numrecs h;
                NC__old := None; NC__r_align := ra; NC__recsize := 0; NC__safe_mode := sm; NC__v_minfree := vm;
                NC__vars := {| NC_vararray__ndefined := Zlen vars; NC_vararray__value := Some (arr, 0) |};
                NC__xsz := xsz |}).
  assert (Hnd1 : NC_vararray__ndefined (NC__vars n1) = Zlen ([] ++ arr)) by (cbn [app]; rewrite HZarr; reflexivity).
  assert (Hn1 : Zlen ([] ++ arr) <= 2147483647) by (cbn [app]; lia).
  assert (Hev1 : 0 <= bv0) by lia.
  assert (Hb1 : bv0 + lens4 arr <= MAXOFF) by (unfold MAXOFF; lia).
  match goal with |- context [c_loop ?fu ?a ?b ?c ?d ?st] =>
    replace (c_loop fu a b c d st)
      with (c_loop (NC_begins_loop1_fuel n1 xsz (mkS (with_vals n1 ([] ++ arr)) bv0 None (Zlen (@nil c_NC_var)) 0 None))
                   (NC_begins_loop1_cdef n1 xsz) (NC_begins_loop1_cond n1 xsz)
                   (NC_begins_loop1_body n1 xsz) (NC_begins_loop1_inc n1 xsz)
                   (mkS (with_vals n1 ([] ++ arr)) bv0 None (Zlen (@nil c_NC_var)) 0 None)) by reflexivity end.
  assert (Hnd1' : NC_vararray__ndefined (NC__vars n1) = Zlen arr) by (rewrite HZarr; reflexivity).
  assert (Hf1 : (Datatypes.length arr <
                 NC_begins_loop1_fuel n1 xsz (mkS (with_vals n1 ([] ++ arr)) bv0 None (Zlen (@nil c_NC_var)) 0 None))%nat).
  { apply (lens4_nonneg_fuel arr n1 xsz _ Hnd1'); [reflexivity | exact Hnd1']. }
  rewrite (gb_loop1 n1 xsz eq_refl arr [] bv0 None None _ Hnd1 Hn1 Hwf Hlen Hev1 Hb1 Hf1).
  pose proof (fix_pass_begins_fixed (h_format h) arr 0 bv0 None []) as HP1.
  change (NC__format n1) with (h_format h). change (Zlen (@nil c_NC_var)) with 0.
  destruct (fix_pass (h_format h) arr 0 bv0 None) as [[[[a1 ef] fv1] i1] ok1] eqn:Efp.
  cbv beta iota zeta in HP1. cbn [rev app] in HP1. cbn [app].
  (* the model side, first part *)
  assert (Hvs : map (fun v => (is_recvar dims v, var_len dims v)) vars = map pair_of arr).
  { unfold arr. rewrite map_map. apply map_ext. intros v. unfold pair_of. rewrite cv_isrec_cv_of. reflexivity. }
  unfold begins. rewrite Ev. fold dims xsz. cbv zeta. fold vars. rewrite Hvs.
  change (match vars with [] => xsz | _ :: _ => rndup (xsz + hm) ha end) with bv0.
  cbn [map filter]. rewrite HP1.
  destruct ok1.
  2:{ exists (-62), (mkS (with_vals n1 a1) ef fv1 i1 0 None). split; reflexivity. }
  cbn [c_bind]. unfold mkS, with_vals. subst n1. gb_st. gb_nc.
  (* facts about the first pass *)
  pose proof (fix_pass_bounds _ _ _ _ _ _ _ _ _ _ Efp Hev1 Hlen) as Hef.
  destruct (map_nb_props a1 arr (fix_pass_nb _ _ _ _ _ _ _ _ _ _ Efp)) as (HZ1 & HL1 & Hwf1 & Hlen1 & Hrec1).
  specialize (Hwf1 Hwf). specialize (Hlen1 Hlen).
  pose proof (fix_pass_fv _ _ _ _ _ _ _ _ Efp) as Hfv.
  (* begin_rec *)
  set (br0 := if pbr <? ef + vm then ef + vm else pbr).
  set (br1 := rndup br0 4).
  set (br2 := if ra >? 1 then rndup br1 ra else br1).
  assert (Hbr0 : 0 <= br0 <= pbr + ef + vm) by (unfold br0; destruct (pbr <? ef + vm); lia).
  pose proof (rndup_bounds br0 4 ltac:(lia) ltac:(lia)) as Hbr1. fold br1 in Hbr1.
  assert (Hbr2 : br1 <= br2 <= br1 + ra).
  { unfold br2. destruct (ra >? 1) eqn:Era; [|lia]. pose proof (rndup_bounds br1 ra ltac:(lia) ltac:(lia)). lia. }
  assert (C2 : in_i64 (ef + vm) = true) by (apply in_i64_iff; lia).
  rewrite !C2. cbn [c_chk].
  match goal with |- context [c_bind (if pbr <? ef + vm then ?A else ?B) ?K] =>
    assert (Hs1 : c_bind (if pbr <? ef + vm then A else B) K =
                  K (mkS {| NC__begin_rec := br0; NC__begin_var := bv0; NC__flags := flags; NC__format := h_format h;
                            NC__h_align := ha; NC__h_minfree := hm; NC__nprocs := np; NC__numrecs := h_numrecs h;
                            NC__old := None; NC__r_align := ra; NC__recsize := 0; NC__safe_mode := sm; NC__v_minfree := vm;
                            NC__vars := {| NC_vararray__ndefined := Zlen vars; NC_vararray__value := Some (a1, 0) |};
                            NC__xsz := xsz |} ef fv1 i1 0 None)) end.
  { unfold br0, mkS. destruct (pbr <? ef + vm); reflexivity. }
  rewrite Hs1; clear Hs1. unfold mkS. gb_st. gb_nc.
  rewrite rnd4_quot by lia. fold br1.
  assert (C3 : in_i64 (br0 + 4) && in_i64 (br0 + 4 - 1) && div_ok i64_min (br0 + 4 - 1) 4 && in_i64 br1 = true).
  { rewrite div_ok_pos by lia. unfold in_i64. lia. }
  rewrite C3. cbn [c_chk c_bind]. gb_st. gb_nc.
  match goal with |- context [c_bind (if ra >? 1 then ?A else ?B) ?K] =>
    assert (Hs2 : c_bind (if ra >? 1 then A else B) K =
                  K (mkS {| NC__begin_rec := br2; NC__begin_var := bv0; NC__flags := flags; NC__format := h_format h;
                            NC__h_align := ha; NC__h_minfree := hm; NC__nprocs := np; NC__numrecs := h_numrecs h;
                            NC__old := None; NC__r_align := ra; NC__recsize := 0; NC__safe_mode := sm; NC__v_minfree := vm;
                            NC__vars := {| NC_vararray__ndefined := Zlen vars; NC_vararray__value := Some (a1, 0) |};
                            NC__xsz := xsz |} ef fv1 i1 0 None)) end.
  { unfold br2, mkS. destruct (ra >? 1) eqn:Era; [|reflexivity].
    rewrite rndq by lia.
    pose proof (rndup_bounds br1 ra ltac:(lia) ltac:(lia)) as Hr.
    assert (C4 : in_i64 (br1 + ra) && in_i64 (br1 + ra - 1) && div_ok i64_min (br1 + ra - 1) ra &&
                 in_i64 (rndup br1 ra) = true).
    { rewrite div_ok_pos by lia. unfold in_i64. lia. }
    rewrite C4. reflexivity. }
  rewrite Hs2; clear Hs2. unfold mkS. gb_st. gb_nc. cbn [o_ok negb c_bind]. gb_st. gb_nc.
  set (bvar := match fv1 with Some j => NC_var__begin (znth a1 j c_NC_var_default) | None => br2 end).
  set (n2 := {| NC__begin_rec := br2; NC__begin_var := bvar; NC__flags := flags; NC__format := h_format h;
                NC__h_align := ha; NC__h_minfree := hm; NC__nprocs := np; NC__numrecs := h_numrecs h;
                NC__old := None; NC__r_align := ra; NC__recsize := 0; NC__safe_mode := sm; NC__v_minfree := vm;
                NC__vars := {| NC_vararray__ndefined := Zlen vars; NC_vararray__value := Some (a1, 0) |};
                NC__xsz := xsz |}).
  assert (Hfvr : forall j, fv1 = Some j -> 0 <= j < Zlen a1 /\ cv_isrec (znth arr j c_NC_var_default) = false).
  { intros j Hj. rewrite Hj in Hfv. symmetry in Hfv.
    apply (find_index_range _ _ _ _ _ c_NC_var_default) in Hfv. destruct Hfv as [H1 H2].
    rewrite Z.sub_0_r in H2. split; [lia|]. destruct (cv_isrec (znth arr j c_NC_var_default)); [discriminate | reflexivity]. }
  match goal with |- context [c_bind (if negb (r_isnull fv1) then ?A else ?B) ?K] =>
    assert (Hs3 : c_bind (if negb (r_isnull fv1) then A else B) K = K (mkS n2 ef fv1 i1 0 None)) end.
  { unfold bvar, n2, mkS. destruct fv1 as [j|]; cbn [r_isnull negb r_ok r_get]; [|reflexivity].
    destruct (Hfvr j eq_refl) as [Hj _].
    rewrite p_ok_some by lia. rewrite p_get_some, Z.add_0_l. reflexivity. }
  rewrite Hs3; clear Hs3. unfold mkS. gb_st. subst n2. gb_nc.
  (* loop 3 *)
  set (n2 := {| NC__begin_rec := br2; NC__begin_var := bvar; NC__flags := flags; NC__format := h_format h;
                NC__h_align := ha; NC__h_minfree := hm; NC__nprocs := np; NC__numrecs := h_numrecs h;
                NC__old := None; NC__r_align := ra; NC__recsize := 0; NC__safe_mode := sm; NC__v_minfree := vm;
                NC__vars := {| NC_vararray__ndefined := Zlen vars; NC_vararray__value := Some (a1, 0) |};
                NC__xsz := xsz |}).
  assert (Hnd2 : NC_vararray__ndefined (NC__vars n2) = Zlen ([] ++ a1)) by (cbn [app]; rewrite HZ1, HZarr; reflexivity).
  assert (Hn2 : Zlen ([] ++ a1) <= 2147483647) by (cbn [app]; lia).
  assert (Hev2 : 0 <= br2) by lia.
  assert (Hb2 : br2 + lens4 a1 <= MAXOFF) by (unfold MAXOFF; lia).
  assert (Hrs2 : 0 <= 0 <= br2) by lia.
  assert (Hnd2' : NC_vararray__ndefined (NC__vars n2) = Zlen a1) by (rewrite HZ1, HZarr; reflexivity).
  assert (Hf2 : (Datatypes.length a1 <
                 NC_begins_loop3_fuel n2 xsz (mkS (with_vals_rs n2 ([] ++ a1) 0) br2 fv1 (Zlen (@nil c_NC_var)) 0 None))%nat).
  { apply (lens4_nonneg_fuel a1 n2 xsz _ Hnd2'); [reflexivity | exact Hnd2']. }
  match goal with |- context [c_loop ?fu ?a ?b ?c ?d ?st] =>
    replace (c_loop fu a b c d st)
      with (c_loop (NC_begins_loop3_fuel n2 xsz (mkS (with_vals_rs n2 ([] ++ a1) 0) br2 fv1 (Zlen (@nil c_NC_var)) 0 None))
                   (NC_begins_loop3_cdef n2 xsz) (NC_begins_loop3_cond n2 xsz)
                   (NC_begins_loop3_body n2 xsz) (NC_begins_loop3_inc n2 xsz)
                   (mkS (with_vals_rs n2 ([] ++ a1) 0) br2 fv1 (Zlen (@nil c_NC_var)) 0 None)) by reflexivity end.
  rewrite (gb_loop3 n2 xsz eq_refl a1 [] br2 0 fv1 None _ Hnd2 Hn2 Hwf1 Hlen1 Hev2 Hb2 Hrs2 Hf2).
  pose proof (rec_pass_begins_rec (h_format h) a1 0 br2 0 None None []) as HP2.
  change (NC__format n2) with (h_format h). change (Zlen (@nil c_NC_var)) with 0.
  destruct (rec_pass (h_format h) a1 0 br2 0 None) as [[[[[a2 er] rs] l2] i3] ok2] eqn:Erp.
  cbv beta iota zeta in HP2. cbn [rev app] in HP2. cbn [app].
  destruct (rec_pass_nb _ _ _ _ _ _ _ _ _ _ _ _ Erp) as [Hnb2 Hfb2].
  assert (Hnb1 : map nb a1 = map nb arr) by (exact (fix_pass_nb _ _ _ _ _ _ _ _ _ _ Efp)).
  rewrite <- (map_nb_pair_of a1 arr Hnb1). rewrite HP2.
  destruct ok2.
  2:{ exists (-62), (mkS (with_vals_rs n2 a2 rs) er fv1 i3 0 l2). split; reflexivity. }
  cbn [c_bind]. unfold mkS, with_vals_rs, with_vals. subst n2. gb_st. gb_nc. unfold set_NC__recsize. gb_nc.
  destruct (map_nb_props a2 a1 Hnb2) as (HZ2 & _ & _ & _ & Hrec2).
  pose proof (rec_pass_last (h_format h) a1 [] br2 0 None None a2 er rs l2 i3 Erp eq_refl) as Hlast.
  cbn [app] in Hlast. set (F2 := fold_left lastg a2 None) in *.
  (* the model's view of the last record variable *)
  assert (HF : option_map nb F2 =
               option_map nb (option_map (cv_of dims) (last_opt (filter (fun v => is_recvar dims v) vars)))).
  { unfold F2. rewrite (fold_last_nb a2 arr None None); [|rewrite Hnb2; exact Hnb1 | reflexivity].
    unfold arr. pose proof (fold_last_cv_of dims vars None) as Hc. cbn [option_map] in Hc. rewrite Hc.
    rewrite fold_last_gen.
    destruct (last_opt (filter (fun v => is_recvar dims v) vars)); reflexivity. }
  pose proof (last_rec_len_fold a2 None) as Hll. cbn [option_map] in Hll. fold F2 in Hll. rewrite Hll. clear Hll.
  assert (Hall : Forall (fun t : c_ptr Z * Z * c_ptr Z * Z =>
                           p_ok (snd (fst t)) 0 = true /\ in_i64 (p_get 0 (snd (fst t)) 0 * snd t) = true) (map nb a2)).
  { rewrite Hnb2, Hnb1. unfold arr. rewrite map_map, Forall_map. eapply Forall_impl; [|exact Hvars].
    intros v [_ Hv]. unfold nb, cv_of. cbn [fst snd NC_var__dsizes NC_var__xsz]. split; [apply p_ok_cons0 | exact Hv]. }
  set (rsf := match F2 with
              | Some lv2 => if rs =? NC_var__len lv2 then p_get 0 (NC_var__dsizes lv2) 0 * NC_var__xsz lv2 else rs
              | None => rs end).
  set (nf := fun nr : Z =>
               {| NC__begin_rec := br2; NC__begin_var := bvar; NC__flags := flags; NC__format := h_format h;
                  NC__h_align := ha; NC__h_minfree := hm; NC__nprocs := np; NC__numrecs := nr;
                  NC__old := None; NC__r_align := ra; NC__recsize := rsf; NC__safe_mode := sm; NC__v_minfree := vm;
                  NC__vars := {| NC_vararray__ndefined := Zlen vars; NC_vararray__value := Some (a2, 0) |};
                  NC__xsz := xsz |}).
  match goal with |- context [c_bind (if negb (r_isnull l2) then ?A else ?B) ?K] =>
    assert (Hs4 : c_bind (if negb (r_isnull l2) then A else B) K = K (mkS (nf (h_numrecs h)) er fv1 i3 0 l2)) end.
  { unfold nf, rsf, mkS. destruct l2 as [j|]; cbn [linv] in Hlast.
    - destruct Hlast as [Hj HF2]. rewrite HF2. cbn [r_isnull negb r_ok r_get].
      rewrite p_ok_some by lia. rewrite p_get_some, Z.add_0_l. cbn [c_chk andb].
      set (lv2 := znth a2 j c_NC_var_default).
      assert (Hin : In (nb lv2) (map nb a2)) by (apply in_map; apply znth_In; lia).
      rewrite Forall_forall in Hall. destruct (Hall _ Hin) as [Hd1 Hd2]. cbn [nb fst snd] in Hd1, Hd2.
      destruct (rs =? NC_var__len lv2); [|reflexivity].
      rewrite Hd1, Hd2. reflexivity.
    - rewrite Hlast. reflexivity. }
  rewrite Hs4; clear Hs4.
  exists 0, (mkS (nf (if z2b (Z.land flags 32768) then 0 else h_numrecs h)) er fv1 i3 0 l2).
  split.
  { unfold mkS, nf. gb_st. gb_nc. destruct (z2b (Z.land flags 32768)); reflexivity. }
  split; [reflexivity|]. split; [|reflexivity].
  (* the layout *)
  unfold layout_of_state, arr_of, mkS, nf. gb_st. gb_nc.
  assert (Hbl : merge_opts (map fixed_begin a1) (map rec_begin a2) = map NC_var__begin a2)
    by (rewrite <- Hfb2; apply merge_fixed_rec).
  rewrite Hbl.
  assert (Hfi : find_index (fun p2 : bool * Z => negb (fst p2)) (map pair_of a1) 0 = fv1).
  { rewrite (map_nb_pair_of a1 arr Hnb1), find_index_map. symmetry. exact Hfv. }
  rewrite Hfi.
  f_equal.
  - (* begin_var *)
    unfold bvar. destruct fv1 as [j|]; [|reflexivity].
    destruct (Hfvr j eq_refl) as [Hj Hfx].
    rewrite (znth_map_d _ _ NC_var__begin a2 j c_NC_var_default 0) by lia.
    assert (Hi1 : cv_isrec (znth a1 j c_NC_var_default) = false).
    { pose proof (f_equal (fun l => znth l j false) Hrec1) as E. cbv beta in E.
      rewrite (znth_map_d _ _ cv_isrec a1 j c_NC_var_default false) in E by lia.
      rewrite (znth_map_d _ _ cv_isrec arr j c_NC_var_default false) in E by lia. rewrite E. exact Hfx. }
    assert (Hi2 : cv_isrec (znth a2 j c_NC_var_default) = false).
    { pose proof (f_equal (fun l => znth l j false) Hrec2) as E. cbv beta in E.
      rewrite (znth_map_d _ _ cv_isrec a2 j c_NC_var_default false) in E by lia.
      rewrite (znth_map_d _ _ cv_isrec a1 j c_NC_var_default false) in E by lia. rewrite E. exact Hi1. }
    pose proof (f_equal (fun l => znth l j None) Hfb2) as E. cbv beta in E.
    rewrite (znth_map_d _ _ fixed_begin a2 j c_NC_var_default None) in E by lia.
    rewrite (znth_map_d _ _ fixed_begin a1 j c_NC_var_default None) in E by lia.
    unfold fixed_begin in E. rewrite Hi1, Hi2 in E. inversion E. reflexivity.
  - (* recsize *)
    unfold rsf.
    destruct F2 as [lv2|]; destruct (last_opt (filter (fun v => is_recvar dims v) vars)) as [lv|];
      cbn [option_map] in HF |- *; try discriminate; try reflexivity.
    injection HF as H1 H2 H3 H4.
    destruct (rs =? NC_var__len lv2); [|reflexivity].
    rewrite H3, H4. unfold cv_of. cbn [NC_var__dsizes NC_var__xsz]. rewrite p_get_some. reflexivity.
Qed.

(* no variable at all: both loops are empty, vars.value is NULL and never read *)
Theorem gen_begins_eq_new_novars : forall h hm vm ha ra pbr flags sm np,
  h_vars h = [] ->
  (z2b sm && (np >? 1)) = false -> begins_guards h hm vm ha ra pbr ->
  exists rc s', NC_begins_c (c_view_nc2 h hm vm ha ra pbr flags sm np) (hdr_len h) = FValS rc s' /\
    match begins h hm vm ha ra None pbr with
    | None => rc = NC_EVARSIZE
    | Some lay => rc = NC_NOERR /\ layout_of_state s' = lay /\
                  NC__numrecs (NC_begins__P_ncp s') = (if z2b (Z.land flags 32768) then 0 else h_numrecs h)
    end.
Proof.
  intros h hm vm ha ra pbr flags sm np Ev Hsm (Hx & Hhm & Hha & Hvm & Hra & Hpbr & Hn & Hvars & Hbound).
  set (xsz := hdr_len h) in *. rewrite Ev in Hbound. cbn [map zsum] in Hbound. unfold MAXOFF in Hbound.
  set (br0 := if pbr <? xsz + vm then xsz + vm else pbr).
  set (br1 := rndup br0 4).
  set (br2 := if ra >? 1 then rndup br1 ra else br1).
  assert (Hbr0 : 0 <= br0 <= pbr + xsz + vm) by (unfold br0; destruct (pbr <? xsz + vm); lia).
  pose proof (rndup_bounds br0 4 ltac:(lia) ltac:(lia)) as Hbr1. fold br1 in Hbr1.
  set (nf := fun nr : Z =>
               {| NC__begin_rec := br2; NC__begin_var := br2; NC__flags := flags; NC__format := h_format h;
                  NC__h_align := ha; NC__h_minfree := hm; NC__nprocs := np; NC__numrecs := nr;
                  NC__old := None; NC__r_align := ra; NC__recsize := 0; NC__safe_mode := sm; NC__v_minfree := vm;
                  NC__vars := {| NC_vararray__ndefined := 0; NC_vararray__value := None |};
                  NC__xsz := xsz |}).
  exists 0, (mkS (nf (if z2b (Z.land flags 32768) then 0 else h_numrecs h)) br2 None 0 0 None).
  split.
  - unfold NC_begins_c, NC_begins_body, st_NC_begins_init, c_view_nc2, NC_begins_loop1_fuel, NC_begins_loop3_fuel, c_fuel_lt.
    rewrite !Ev. change (Zlen (@nil var)) with 0.
    cbn [c_bind]. gb_st. gb_nc. rewrite Hsm. cbn [c_bind]. gb_st. gb_nc.
    change (0 >? 0) with false. cbn [c_bind]. gb_st. gb_nc. cbn [o_ok negb c_bind]. gb_st. gb_nc.
    rewrite c_loop_exit; [ | reflexivity | reflexivity ].
    cbn [c_bind]. gb_st. gb_nc.
    assert (C2 : in_i64 (xsz + vm) = true) by (apply in_i64_iff; lia).
    rewrite !C2. cbn [c_chk].
    match goal with |- context [c_bind (if pbr <? xsz + vm then ?A else ?B) ?K] =>
      assert (Hs1 : c_bind (if pbr <? xsz + vm then A else B) K =
                    K (mkS {| NC__begin_rec := br0; NC__begin_var := xsz; NC__flags := flags; NC__format := h_format h;
                              NC__h_align := ha; NC__h_minfree := hm; NC__nprocs := np; NC__numrecs := h_numrecs h;
                              NC__old := None; NC__r_align := ra; NC__recsize := 0; NC__safe_mode := sm; NC__v_minfree := vm;
                              NC__vars := {| NC_vararray__ndefined := 0; NC_vararray__value := None |};
                              NC__xsz := xsz |} xsz None 0 0 None)) end.
    { unfold br0, mkS. destruct (pbr <? xsz + vm); reflexivity. }
    rewrite Hs1; clear Hs1. unfold mkS. gb_st. gb_nc.
    rewrite rnd4_quot by lia. fold br1.
    assert (C3 : in_i64 (br0 + 4) && in_i64 (br0 + 4 - 1) && div_ok i64_min (br0 + 4 - 1) 4 && in_i64 br1 = true).
    { rewrite div_ok_pos by lia. unfold in_i64. lia. }
    rewrite C3. cbn [c_chk c_bind]. gb_st. gb_nc.
    match goal with |- context [c_bind (if ra >? 1 then ?A else ?B) ?K] =>
      assert (Hs2 : c_bind (if ra >? 1 then A else B) K =
                    K (mkS {| NC__begin_rec := br2; NC__begin_var := xsz; NC__flags := flags; NC__format := h_format h;
                              NC__h_align := ha; NC__h_minfree := hm; NC__nprocs := np; NC__numrecs := h_numrecs h;
                              NC__old := None; NC__r_align := ra; NC__recsize := 0; NC__safe_mode := sm; NC__v_minfree := vm;
                              NC__vars := {| NC_vararray__ndefined := 0; NC_vararray__value := None |};
                              NC__xsz := xsz |} xsz None 0 0 None)) end.
    { unfold br2, mkS. destruct (ra >? 1) eqn:Era; [|reflexivity].
      rewrite rndq by lia.
      pose proof (rndup_bounds br1 ra ltac:(lia) ltac:(lia)) as Hr.
      assert (C4 : in_i64 (br1 + ra) && in_i64 (br1 + ra - 1) && div_ok i64_min (br1 + ra - 1) ra &&
                   in_i64 (rndup br1 ra) = true).
      { rewrite div_ok_pos by lia. unfold in_i64. lia. }
      rewrite C4. reflexivity. }
    rewrite Hs2; clear Hs2. unfold mkS. gb_st. gb_nc. cbn [o_ok negb r_isnull c_bind]. gb_st. gb_nc.
    cbn [o_ok negb r_isnull c_bind]. gb_st. gb_nc. cbn [o_ok negb r_isnull c_bind]. gb_st. gb_nc.
    rewrite c_loop_exit; [ | reflexivity | reflexivity ].
    cbn [c_bind r_isnull negb]. gb_st. gb_nc. cbn [c_bind r_isnull negb]. gb_st. gb_nc.
    unfold nf, mkS. destruct (z2b (Z.land flags 32768)); reflexivity.
  - unfold begins. rewrite Ev. cbn [map filter begins_fixed begins_rec rev merge_opts find_index last_opt].
    fold xsz. fold br0. fold br1. fold br2.
    split; [reflexivity|]. split; reflexivity.
Qed.

(* the two cases together *)
Theorem gen_begins_eq : forall h hm vm ha ra pbr flags sm np,
  (z2b sm && (np >? 1)) = false -> begins_guards h hm vm ha ra pbr ->
  exists rc s', NC_begins_c (c_view_nc2 h hm vm ha ra pbr flags sm np) (hdr_len h) = FValS rc s' /\
    match begins h hm vm ha ra None pbr with
    | None => rc = NC_EVARSIZE
    | Some lay => rc = NC_NOERR /\ layout_of_state s' = lay /\
                  NC__numrecs (NC_begins__P_ncp s') = (if z2b (Z.land flags 32768) then 0 else h_numrecs h)
    end.
Proof.
  intros h hm vm ha ra pbr flags sm np Hsm Hg.
  destruct (h_vars h) as [|v0 vr] eqn:Ev.
  - apply gen_begins_eq_new_novars; assumption.
  - apply gen_begins_eq_new; [rewrite Ev; discriminate | assumption | assumption].
Qed.

(* the guards are satisfiable *)
Example begins_guards_ex :
  begins_guards (mkhdr 2 0 exb_dims [] [exb_var 97 [1; 2] 3; exb_var 98 [0; 1] 5; exb_var 99 [2] 1; exb_var 100 [0; 2] 6])
                0 0 512 4 0.
Proof.
  unfold begins_guards.
  split; [vm_compute; discriminate|]. split; [vm_compute; discriminate|]. split; [vm_compute; discriminate|].
  split; [vm_compute; discriminate|]. split; [vm_compute; discriminate|]. split; [vm_compute; discriminate|].
  split; [vm_compute; discriminate|].
  split; [|vm_compute; discriminate].
  constructor; [split; [vm_compute; discriminate | vm_compute; reflexivity]|].
  constructor; [split; [vm_compute; discriminate | vm_compute; reflexivity]|].
  constructor; [split; [vm_compute; discriminate | vm_compute; reflexivity]|].
  constructor; [split; [vm_compute; discriminate | vm_compute; reflexivity]|].
  constructor.
Qed.

(* the whole generated function also RUNS: concrete headers of every shape class (vm_compute) *)
Definition begins_agree (h : hdr) (hm vm ha ra pbr : Z) : bool :=
  match NC_begins_c (c_view_nc h hm vm ha ra pbr 32768) (hdr_len h), begins h hm vm ha ra None pbr with
  | FValS rc s, Some lay =>
      (rc =? NC_NOERR) &&
      let l := layout_of_state s in
      (l_xsz l =? l_xsz lay) && (l_begin_var l =? l_begin_var lay) && (l_begin_rec l =? l_begin_rec lay) &&
      (l_recsize l =? l_recsize lay) && list_eqb Z.eqb (l_begins l) (l_begins lay)
  | FValS rc _, None => rc =? NC_EVARSIZE
  | _, _ => false
  end.

Example gen_begins_runs :
  (* fixed, record, fixed, record; one record variable; no variable; scalar; CDF-1 offset overflow *)
  begins_agree (mkhdr 2 0 exb_dims [] [exb_var 97 [1; 2] 3; exb_var 98 [0; 1] 5; exb_var 99 [2] 1; exb_var 100 [0; 2] 6]) 0 0 512 4 0 = true /\
  begins_agree (mkhdr 1 0 exb_dims [] [exb_var 97 [1; 2] 3; exb_var 98 [0; 2] 1]) 10 20 4 512 0 = true /\
  begins_agree (mkhdr 5 0 exb_dims [] []) 0 0 512 4 0 = true /\
  begins_agree (mkhdr 5 0 exb_dims [] [exb_var 97 [] 6; exb_var 98 [0] 2]) 3 5 1024 8 4000 = true /\
  begins_agree (mkhdr 1 0 exb_dims [] [exb_var 97 [3] 5; exb_var 98 [3] 5; exb_var 99 [1] 4]) 0 0 4 4 0 = true /\
  begins (mkhdr 1 0 exb_dims [] [exb_var 97 [3] 5; exb_var 98 [3] 5; exb_var 99 [1] 4]) 0 0 4 4 None 0 = None.
Proof. repeat split; vm_compute; reflexivity. Qed.

Print Assumptions gen_begins_eq.
Print Assumptions gen_begins_fixed_eq.
Print Assumptions gen_begins_rec_eq.
Print Assumptions gen_begins_runs.
