(* Extract_C07.v — extraction of the metadata model (Meta.v) to OCaml.  ExtrOcamlBasic only:
   bool/option/unit/prod/list map to OCaml's; Z, positive, nat stay Coq datatypes; no
   Extract Constant. *)
Require Extraction.
Require ExtrOcamlBasic.
From Pnc Require Import Meta.
Extraction Language OCaml.
Extraction "c07_model.ml" m_run.
