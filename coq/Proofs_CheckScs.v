(* Proofs_CheckScs.v — the dispatcher's argument check (Access.check_scs, model of
   check_start_count_stride): exact characterisation of acceptance, the set of error codes,
   and which error is reported first (property C15).  No axioms.
   Main results
     check_scs_decomp          check_scs = start phase ; count/edge phase ; stride phase
     check_scs_iff_fits        check_scs = NC_NOERR <-> fits_b = true   (soundness + completeness)
     fits_b_spec / check_scs_complete
                               fits_b read dimension by dimension (the "request fits" predicate)
     check_scs_codes           the result is one of five codes
     check_scs_null_start, check_scs_bad_start, check_scs_neg_start, check_scs_start_too_large,
     check_scs_null_count, check_scs_first_bad_dim, check_scs_neg_count,
     check_scs_count_too_large, check_scs_stride_reach, check_scs_bad_stride
                               precedence of the errors
     perturb_*                 one perturbation of an accepted request at a time *)
From Pnc Require Import Base Header Access Proofs_Lists Proofs_Access.
Require Import Lia ZArith List Bool ZifyBool.
Import ListNotations.
Local Open Scope Z_scope.
Local Arguments Z.mul : simpl never.
Local Arguments Z.add : simpl never.
Local Arguments Z.sub : simpl never.

(* ================================================================== *)
(* 1. The five codes                                                   *)
(* ================================================================== *)
Lemma codes_distinct :
  NC_NOERR <> NC_EINVALCOORDS /\ NC_NOERR <> NC_EEDGE /\ NC_NOERR <> NC_ESTRIDE /\
  NC_NOERR <> NC_ENEGATIVECNT /\ NC_EINVALCOORDS <> NC_EEDGE /\ NC_EINVALCOORDS <> NC_ESTRIDE /\
  NC_EINVALCOORDS <> NC_ENEGATIVECNT /\ NC_EEDGE <> NC_ESTRIDE /\ NC_EEDGE <> NC_ENEGATIVECNT /\
  NC_ESTRIDE <> NC_ENEGATIVECNT.
Proof. vm_compute. repeat split; discriminate. Qed.

Lemma eqb_EINVALCOORDS : (NC_EINVALCOORDS =? NC_NOERR) = false. Proof. reflexivity. Qed.
Lemma eqb_EEDGE : (NC_EEDGE =? NC_NOERR) = false. Proof. reflexivity. Qed.
Lemma eqb_ESTRIDE : (NC_ESTRIDE =? NC_NOERR) = false. Proof. reflexivity. Qed.
Lemma eqb_ENEGATIVECNT : (NC_ENEGATIVECNT =? NC_NOERR) = false. Proof. reflexivity. Qed.
Lemma eqb_NOERR : (NC_NOERR =? NC_NOERR) = true. Proof. reflexivity. Qed.

Ltac codes :=
  rewrite ?eqb_EINVALCOORDS, ?eqb_EEDGE, ?eqb_ESTRIDE, ?eqb_ENEGATIVECNT, ?eqb_NOERR;
  cbn [negb andb orb].

(* ================================================================== *)
(* 2. One dimension                                                    *)
(* ================================================================== *)
(* the start index is acceptable in a dimension of (current) length sh *)
Definition start_fits (strict : bool) (s c sh : Z) : bool :=
  (0 <=? s) &&
  (if strict then s <? sh else (s <=? sh) && negb ((s =? sh) && (0 <? c))).

(* count (and stride, when given) stay inside the dimension *)
Definition edge_fits (s c : Z) (t : option Z) (sh : Z) : bool :=
  (0 <=? c) && (s + c <=? sh) &&
  match t with
  | None => true
  | Some t => negb ((0 <? c) && (sh <=? s + (c - 1) * t))
  end.

(* the code the count/edge phase reports for one bounded dimension *)
Definition dim_code (s c : Z) (t : option Z) (sh : Z) : Z :=
  if c <? 0 then NC_ENEGATIVECNT else check_EEDGE s c t sh.

Lemma check_EINVALCOORDS_code strict s c sh :
  check_EINVALCOORDS strict s c sh =
  if start_fits strict s c sh then NC_NOERR else NC_EINVALCOORDS.
Proof.
  unfold check_EINVALCOORDS, start_fits. destruct strict.
  - destruct ((s <? 0) || (s >=? sh)) eqn:E.
    + replace ((0 <=? s) && (s <? sh)) with false by lia. reflexivity.
    + replace ((0 <=? s) && (s <? sh)) with true by lia. reflexivity.
  - destruct ((s <? 0) || (s >? sh)) eqn:E.
    + replace ((0 <=? s) && ((s <=? sh) && negb ((s =? sh) && (0 <? c)))) with false by lia.
      reflexivity.
    + destruct ((s =? sh) && (c >? 0)) eqn:E2.
      * replace ((0 <=? s) && ((s <=? sh) && negb ((s =? sh) && (0 <? c)))) with false by lia.
        reflexivity.
      * replace ((0 <=? s) && ((s <=? sh) && negb ((s =? sh) && (0 <? c)))) with true by lia.
        reflexivity.
Qed.

Lemma check_EEDGE_cases s c t sh :
  check_EEDGE s c t sh = NC_NOERR \/ check_EEDGE s c t sh = NC_EEDGE.
Proof.
  unfold check_EEDGE. destruct ((c >? sh) || (s + c >? sh)); [now right|].
  destruct t as [t|]; [|now left].
  destruct ((c >? 0) && (s + (c - 1) * t >=? sh)); [now right | now left].
Qed.

Lemma dim_code_cases s c t sh :
  dim_code s c t sh = NC_NOERR \/ dim_code s c t sh = NC_EEDGE \/
  dim_code s c t sh = NC_ENEGATIVECNT.
Proof.
  unfold dim_code. destruct (c <? 0); [now right; right|].
  destruct (check_EEDGE_cases s c t sh) as [H|H]; rewrite H; auto.
Qed.

(* given an acceptable start, the edge check passes exactly when count/stride fit *)
Lemma dim_code_fits s c t sh : 0 <= s ->
  (dim_code s c t sh = NC_NOERR <-> edge_fits s c t sh = true).
Proof.
  intros Hs. unfold dim_code, edge_fits, check_EEDGE.
  destruct (c <? 0) eqn:Ec.
  - split; [vm_compute; discriminate | lia].
  - destruct ((c >? sh) || (s + c >? sh)) eqn:E.
    + split; [vm_compute; discriminate | lia].
    + destruct t as [t|].
      * destruct ((c >? 0) && (s + (c - 1) * t >=? sh)) eqn:E2.
        -- split; [vm_compute; discriminate | lia].
        -- split; [lia | reflexivity].
      * split; [lia | reflexivity].
Qed.

Lemma start_fits_nonneg strict s c sh : start_fits strict s c sh = true -> 0 <= s <= sh.
Proof. unfold start_fits. destruct strict; lia. Qed.

(* ================================================================== *)
(* 3. Lists of dimensions (truncating like zip)                        *)
(* ================================================================== *)
Fixpoint starts_fit_b (strict : bool) (st cn shp : list Z) : bool :=
  match st, cn, shp with
  | s :: st', c :: cn', sh :: shp' => start_fits strict s c sh && starts_fit_b strict st' cn' shp'
  | _, _, _ => true
  end.

Fixpoint dims_code (st cn : list Z) (ts : list (option Z)) (shp : list Z) : Z :=
  match st, cn, ts, shp with
  | s :: st', c :: cn', t :: ts', sh :: shp' =>
      let e := dim_code s c t sh in
      if e =? NC_NOERR then dims_code st' cn' ts' shp' else e
  | _, _, _, _ => NC_NOERR
  end.

(* the two folds of check_scs, named *)
Definition coords_err (strict : bool) (st cn shp : list Z) : Z :=
  first_err (map (fun p => check_EINVALCOORDS strict (fst (fst p)) (snd (fst p)) (snd p))
                 (zip (zip st cn) shp)).

Definition edge_err (st cn : list Z) (ts : list (option Z)) (shp : list Z) : Z :=
  first_err
    (map (fun q => let '(s, c, t, sh) := q in
                   if sh <? 0 then NC_EEDGE
                   else if c <? 0 then NC_ENEGATIVECNT
                   else check_EEDGE s c t sh)
         (map (fun p => (fst (fst (fst p)), snd (fst (fst p)), snd (fst p), snd p))
              (zip (zip (zip st cn) ts) shp))).

Lemma coords_err_code strict : forall st cn shp,
  coords_err strict st cn shp =
  if starts_fit_b strict st cn shp then NC_NOERR else NC_EINVALCOORDS.
Proof.
  unfold coords_err.
  induction st as [|s st IH]; intros cn shp; [reflexivity|].
  destruct cn as [|c cn]; [reflexivity|]. destruct shp as [|sh shp]; [reflexivity|].
  cbn [zip map first_err fst snd starts_fit_b].
  rewrite check_EINVALCOORDS_code. destruct (start_fits strict s c sh); codes.
  - apply IH.
  - reflexivity.
Qed.

Lemma edge_err_code strict : forall st cn ts shp,
  starts_fit_b strict st cn shp = true ->
  edge_err st cn ts shp = dims_code st cn ts shp.
Proof.
  unfold edge_err.
  induction st as [|s st IH]; intros cn ts shp H; [reflexivity|].
  destruct cn as [|c cn]; [reflexivity|]. destruct ts as [|t ts]; [reflexivity|].
  destruct shp as [|sh shp]; [reflexivity|].
  cbn [starts_fit_b] in H. apply andb_true_iff in H. destruct H as [H1 H2].
  apply start_fits_nonneg in H1.
  cbn [zip map first_err fst snd dims_code]. unfold dim_code.
  replace (sh <? 0) with false by lia.
  rewrite IH by assumption. reflexivity.
Qed.

(* ================================================================== *)
(* 4. check_scs in three phases                                        *)
(* ================================================================== *)
(* the dimension lengths the request is checked against *)
Definition shp_of (isrec : bool) (shape : list Z) (numrecs : Z) : list Z :=
  if isrec then numrecs :: tl shape else shape.

(* a NULL count stands for all ones *)
Definition cnt_or1 (count : option (list Z)) (shp : list Z) : list Z :=
  match count with Some c => c | None => map (fun _ => 1) shp end.

Definition strides_of (cn : list Z) (stride : option (list Z)) : list (option Z) :=
  match stride with Some t => map Some t | None => map (fun _ => None) cn end.

(* dimension 0 of a record variable is not bounded for a write *)
Definition free0 (isrec isread : bool) : bool := isrec && negb isread.

(* phase 1: the start indices (the only phase that reports NC_EINVALCOORDS) *)
Definition starts_ok_b (fmt : Z) (strict isrec isread : bool) (shape : list Z) (numrecs : Z)
           (st : list Z) (count : option (list Z)) : bool :=
  let shp := shp_of isrec shape numrecs in
  let cn := cnt_or1 count shp in
  negb (hd 0 st <? 0) &&
  negb (isrec && ((fmt <? 5) && (hd 0 st >? NC_MAX_UINT))) &&
  (if free0 isrec isread then starts_fit_b strict (tl st) (tl cn) (tl shp)
   else starts_fit_b strict st cn shp).

(* phase 2: counts and edges, dimension by dimension (NC_ENEGATIVECNT / NC_EEDGE) *)
Definition edge_code (isrec isread : bool) (st cn : list Z) (ts : list (option Z))
           (shp : list Z) : Z :=
  if free0 isrec isread then
    if hd 0 cn <? 0 then NC_ENEGATIVECNT else dims_code (tl st) (tl cn) (tl ts) (tl shp)
  else dims_code st cn ts shp.

(* phase 3: the strides *)
Definition stride_code (stride : option (list Z)) : Z :=
  match stride with
  | Some t => if existsb (fun x => x <=? 0) t then NC_ESTRIDE else NC_NOERR
  | None => NC_NOERR
  end.

Definition phases (fmt : Z) (strict isrec isread : bool) (kind : apikind) (shape : list Z)
           (numrecs : Z) (st : list Z) (count stride : option (list Z)) : Z :=
  if starts_ok_b fmt strict isrec isread shape numrecs st count then
    match count with
    | None => match kind with API_VAR1 => NC_NOERR | _ => NC_EEDGE end
    | Some cn =>
        let e := edge_code isrec isread st cn (strides_of cn stride)
                           (shp_of isrec shape numrecs) in
        if e =? NC_NOERR then stride_code stride else e
    end
  else NC_EINVALCOORDS.

(* the C arrays have ndims entries by contract *)
Definition lengths_ok (isrec : bool) (shape st : list Z) (count stride : option (list Z)) : Prop :=
  (isrec = true -> shape <> []) /\
  length st = length shape /\
  match count with Some cn => length cn = length shape | None => True end /\
  match stride with Some t => length t = length shape | None => True end.

(* check_scs with its two folds named (definitional) *)
Lemma check_scs_eq fmt strict isrec isread kind shape numrecs st count stride :
  check_scs fmt strict isrec isread kind shape numrecs (Some st) count stride =
  if hd 0 st <? 0 then NC_EINVALCOORDS
  else
    let shp := shp_of isrec shape numrecs in
    let cn1 := cnt_or1 count shp in
    let e_rec :=
      if isrec then
        if (fmt <? 5) && (hd 0 st >? NC_MAX_UINT) then NC_EINVALCOORDS
        else if isread then
          let len := hd 1 cn1 in
          if (numrecs =? 0) && (len >? 0) then NC_EINVALCOORDS
          else check_EINVALCOORDS strict (hd 0 st) len numrecs
        else NC_NOERR
      else NC_NOERR in
    if negb (e_rec =? NC_NOERR) then e_rec
    else
      let skip := if isrec then 1%nat else 0%nat in
      let e_coords := coords_err strict (skipn skip st) (skipn skip cn1) (skipn skip shp) in
      if negb (e_coords =? NC_NOERR) then e_coords
      else
        match count with
        | None => match kind with API_VAR1 => NC_NOERR | _ => NC_EEDGE end
        | Some cn =>
            let strides := strides_of cn stride in
            let e0 :=
              if isrec then
                if hd 0 cn <? 0 then NC_ENEGATIVECNT
                else if isread then check_EEDGE (hd 0 st) (hd 0 cn) (hd None strides) numrecs
                else NC_NOERR
              else NC_NOERR in
            if negb (e0 =? NC_NOERR) then e0
            else
              let e_edge := edge_err (skipn skip st) (skipn skip cn) (skipn skip strides)
                                     (skipn skip shp) in
              if negb (e_edge =? NC_NOERR) then e_edge else stride_code stride
        end.
Proof. reflexivity. Qed.

Lemma length_tl_S {A} (l : list A) n : length l = S n -> length (tl l) = n.
Proof. destruct l; cbn [length tl]; [discriminate | lia]. Qed.

(* MASTER THEOREM: the check is the three phases in sequence *)
Theorem check_scs_decomp : forall fmt strict isrec isread kind shape numrecs st count stride,
  lengths_ok isrec shape st count stride ->
  check_scs fmt strict isrec isread kind shape numrecs (Some st) count stride =
  phases fmt strict isrec isread kind shape numrecs st count stride.
Proof.
  intros fmt strict isrec isread kind shape numrecs st count stride (Hne & Hls & Hlc & Hlt).
  rewrite check_scs_eq. unfold phases, starts_ok_b, edge_code, free0. cbv zeta.
  destruct isrec.
  - (* record variable *)
    destruct shape as [|sh0 ss]; [exfalso; now apply Hne|]. clear Hne.
    destruct st as [|s0 st']; [discriminate|]. cbn [length] in Hls.
    unfold shp_of. cbn [tl hd skipn andb].
    destruct (s0 <? 0) eqn:Es0; cbn [negb andb]; [reflexivity|].
    destruct ((fmt <? 5) && (s0 >? NC_MAX_UINT)) eqn:Emax; codes; [reflexivity|].
    destruct count as [cn|]; cbn [cnt_or1].
    + destruct cn as [|c0 cn']; [discriminate|]. cbn [length] in Hlc. cbn [hd tl].
      assert (Hts : exists t0 ts', strides_of (c0 :: cn') stride = t0 :: ts' /\
                                   length ts' = length ss).
      { unfold strides_of. destruct stride as [t|].
        - destruct t as [|t0 t']; [discriminate|]. cbn [length] in Hlt. cbn [map].
          eexists _, _. split; [reflexivity|]. rewrite map_length. lia.
        - cbn [map]. eexists _, _. split; [reflexivity|]. rewrite map_length. lia. }
      destruct Hts as (t0 & ts' & Ets & Hlts). rewrite Ets. cbn [hd tl].
      destruct isread; cbn [negb].
      * (* read: dimension 0 is bounded by numrecs *)
        cbn [starts_fit_b dims_code].
        rewrite check_EINVALCOORDS_code.
        destruct ((numrecs =? 0) && (c0 >? 0)) eqn:Enr.
        { replace (start_fits strict s0 c0 numrecs) with false
            by (unfold start_fits; destruct strict; lia). codes. reflexivity. }
        destruct (start_fits strict s0 c0 numrecs) eqn:Esf; codes; [|reflexivity].
        rewrite coords_err_code.
        destruct (starts_fit_b strict st' cn' ss) eqn:Est; codes; [|reflexivity].
        unfold dim_code. destruct (c0 <? 0) eqn:Ec0; codes; [reflexivity|].
        destruct (check_EEDGE_cases s0 c0 t0 numrecs) as [Ee|Ee]; rewrite Ee; codes;
          [|reflexivity].
        rewrite (edge_err_code strict) by assumption.
        destruct (dims_code st' cn' ts' ss =? NC_NOERR); reflexivity.
      * (* write: dimension 0 is free *)
        codes. rewrite coords_err_code.
        destruct (starts_fit_b strict st' cn' ss) eqn:Est; codes; [|reflexivity].
        destruct (c0 <? 0) eqn:Ec0; codes; [reflexivity|].
        rewrite (edge_err_code strict) by assumption.
        destruct (dims_code st' cn' ts' ss =? NC_NOERR); reflexivity.
    + (* NULL count *)
      cbn [map hd tl]. destruct isread; cbn [negb].
      * cbn [starts_fit_b]. rewrite check_EINVALCOORDS_code.
        destruct ((numrecs =? 0) && (1 >? 0)) eqn:Enr.
        { replace (start_fits strict s0 1 numrecs) with false
            by (unfold start_fits; destruct strict; lia). codes. reflexivity. }
        destruct (start_fits strict s0 1 numrecs) eqn:Esf; codes; [|reflexivity].
        rewrite coords_err_code.
        destruct (starts_fit_b strict st' (map (fun _ => 1) ss) ss); codes; reflexivity.
      * codes. rewrite coords_err_code.
        destruct (starts_fit_b strict st' (map (fun _ => 1) ss) ss); codes; reflexivity.
  - (* fixed-size variable *)
    unfold shp_of. cbn [andb negb skipn]. codes.
    destruct (hd 0 st <? 0) eqn:Es0; cbn [negb andb]; [reflexivity|].
    rewrite coords_err_code.
    destruct (starts_fit_b strict st (cnt_or1 count shape) shape) eqn:Est; codes; [|reflexivity].
    destruct count as [cn|]; [|reflexivity]. cbn [cnt_or1] in Est.
    rewrite (edge_err_code strict) by assumption.
    destruct (dims_code st cn (strides_of cn stride) shape =? NC_NOERR); reflexivity.
Qed.

(* ================================================================== *)
(* 5. The set of codes                                                 *)
(* ================================================================== *)
Definition is_code (e : Z) : Prop :=
  e = NC_NOERR \/ e = NC_EINVALCOORDS \/ e = NC_EEDGE \/ e = NC_ESTRIDE \/ e = NC_ENEGATIVECNT.

Lemma first_err_code : forall l, Forall is_code l -> is_code (first_err l).
Proof.
  induction l as [|e r IH]; intros H; [left; reflexivity|].
  inversion H as [|? ? He Hr]; subst. cbn [first_err].
  destruct (e =? NC_NOERR); [apply IH; assumption | assumption].
Qed.

Lemma is_code_seq e r : is_code e -> is_code r -> is_code (if negb (e =? NC_NOERR) then e else r).
Proof. intros He Hr. destruct (negb (e =? NC_NOERR)); assumption. Qed.

Lemma is_code_EINVALCOORDS strict s c sh : is_code (check_EINVALCOORDS strict s c sh).
Proof.
  rewrite check_EINVALCOORDS_code. destruct (start_fits strict s c sh);
    [left; reflexivity | right; left; reflexivity].
Qed.

Lemma is_code_EEDGE s c t sh : is_code (check_EEDGE s c t sh).
Proof.
  destruct (check_EEDGE_cases s c t sh) as [H|H]; rewrite H;
    [left; reflexivity | right; right; left; reflexivity].
Qed.

(* every result of the check is one of five codes (no hypothesis on the list lengths) *)
Theorem check_scs_codes : forall fmt strict isrec isread kind shape numrecs start count stride,
  is_code (check_scs fmt strict isrec isread kind shape numrecs start count stride).
Proof.
  intros fmt strict isrec isread kind shape numrecs start count stride.
  destruct start as [st|]; [|right; left; reflexivity].
  rewrite check_scs_eq. cbv zeta.
  assert (Hinv : is_code NC_EINVALCOORDS) by (right; left; reflexivity).
  assert (Hok : is_code NC_NOERR) by (left; reflexivity).
  assert (Hedge : is_code NC_EEDGE) by (right; right; left; reflexivity).
  assert (Hneg : is_code NC_ENEGATIVECNT) by (right; right; right; right; reflexivity).
  destruct (hd 0 st <? 0); [assumption|].
  apply is_code_seq.
  { destruct isrec; [|assumption].
    destruct ((fmt <? 5) && (hd 0 st >? NC_MAX_UINT)); [assumption|].
    destruct isread; [|assumption].
    destruct ((numrecs =? 0) && (hd 1 (cnt_or1 count (shp_of true shape numrecs)) >? 0));
      [assumption | apply is_code_EINVALCOORDS]. }
  apply is_code_seq.
  { rewrite coords_err_code. destruct (starts_fit_b _ _ _ _); assumption. }
  destruct count as [cn|]; [|destruct kind; assumption].
  apply is_code_seq.
  { destruct isrec; [|assumption]. destruct (hd 0 cn <? 0); [assumption|].
    destruct isread; [apply is_code_EEDGE | assumption]. }
  apply is_code_seq.
  { unfold edge_err. apply first_err_code. apply Forall_forall. intros e He.
    apply in_map_iff in He. destruct He as [[[[s c] t] sh] [<- _]].
    destruct (sh <? 0); [assumption|]. destruct (c <? 0); [assumption|]. apply is_code_EEDGE. }
  unfold stride_code. destruct stride as [t|]; [|assumption].
  destruct (existsb (fun x => x <=? 0) t); [right; right; right; left; reflexivity | assumption].
Qed.

Lemma dims_code_cases : forall st cn ts shp,
  dims_code st cn ts shp = NC_NOERR \/ dims_code st cn ts shp = NC_EEDGE \/
  dims_code st cn ts shp = NC_ENEGATIVECNT.
Proof.
  induction st as [|s st IH]; intros cn ts shp; [now left|].
  destruct cn as [|c cn]; [now left|]. destruct ts as [|t ts]; [now left|].
  destruct shp as [|sh shp]; [now left|]. cbn [dims_code].
  destruct (dim_code s c t sh =? NC_NOERR); [apply IH | apply dim_code_cases].
Qed.

(* ================================================================== *)
(* 6. Acceptance = the request fits                                    *)
(* ================================================================== *)
Fixpoint dims_fit_b (strict : bool) (st cn : list Z) (ts : list (option Z)) (shp : list Z) : bool :=
  match st, cn, ts, shp with
  | s :: st', c :: cn', t :: ts', sh :: shp' =>
      start_fits strict s c sh && edge_fits s c t sh && dims_fit_b strict st' cn' ts' shp'
  | _, _, _, _ => true
  end.

(* 0 <= s < sh in every dimension *)
Fixpoint inside_b (st shp : list Z) : bool :=
  match st, shp with
  | s :: st', sh :: shp' => (0 <=? s) && (s <? sh) && inside_b st' shp'
  | _, _ => true
  end.

Definition is_var1 (k : apikind) : bool := match k with API_VAR1 => true | _ => false end.

(* THE FITTING PREDICATE.  start = None (NULL) never fits.  With count = None (NULL, the var1
   form) every bounded start must be strictly inside and the strides are not looked at.
   Otherwise: start_0 >= 0; start_0 <= NC_MAX_UINT for a record variable in CDF-1/2; every
   bounded dimension (all of them, except dimension 0 of a record variable in a write) passes
   start_fits and edge_fits against its length (numrecs for the record dimension); the record
   count of a write is >= 0; every stride given is >= 1. *)
Definition fits_b (fmt : Z) (strict isrec isread : bool) (kind : apikind) (shape : list Z)
           (numrecs : Z) (start count stride : option (list Z)) : bool :=
  match start with
  | None => false
  | Some st =>
      let shp := shp_of isrec shape numrecs in
      (0 <=? hd 0 st) && negb (isrec && (fmt <? 5) && (NC_MAX_UINT <? hd 0 st)) &&
      match count with
      | None =>
          is_var1 kind &&
          (if free0 isrec isread then inside_b (tl st) (tl shp) else inside_b st shp)
      | Some cn =>
          let ts := strides_of cn stride in
          (if free0 isrec isread
           then (0 <=? hd 0 cn) && dims_fit_b strict (tl st) (tl cn) (tl ts) (tl shp)
           else dims_fit_b strict st cn ts shp) &&
          match stride with Some t => forallb (fun x => 1 <=? x) t | None => true end
      end
  end.

Lemma dim_code_fits_b s c t sh : 0 <= s ->
  (dim_code s c t sh =? NC_NOERR) = edge_fits s c t sh.
Proof.
  intros Hs. pose proof (dim_code_fits s c t sh Hs) as H.
  destruct (edge_fits s c t sh).
  - apply Z.eqb_eq. now apply H.
  - apply Z.eqb_neq. intros E. apply H in E. discriminate.
Qed.

Lemma dims_fit_b_split strict : forall st cn ts shp,
  length cn = length st -> length ts = length st -> length shp = length st ->
  dims_fit_b strict st cn ts shp =
  starts_fit_b strict st cn shp && (dims_code st cn ts shp =? NC_NOERR).
Proof.
  induction st as [|s st IH]; intros cn ts shp H1 H2 H3.
  - reflexivity.
  - destruct cn as [|c cn]; [discriminate|]. destruct ts as [|t ts]; [discriminate|].
    destruct shp as [|sh shp]; [discriminate|]. cbn [length] in H1, H2, H3.
    cbn [dims_fit_b starts_fit_b dims_code]. rewrite IH by lia.
    destruct (start_fits strict s c sh) eqn:Esf; [|reflexivity].
    apply start_fits_nonneg in Esf.
    rewrite <- (dim_code_fits_b s c t sh) by lia.
    destruct (dim_code s c t sh =? NC_NOERR) eqn:E; cbn [andb].
    + reflexivity.
    + rewrite E. now rewrite andb_false_r.
Qed.

Lemma starts_fit_ones strict : forall st shp,
  starts_fit_b strict st (map (fun _ => 1) shp) shp = inside_b st shp.
Proof.
  induction st as [|s st IH]; intros shp; [reflexivity|].
  destruct shp as [|sh shp]; [reflexivity|]. cbn [map starts_fit_b inside_b]. rewrite IH.
  f_equal. unfold start_fits. destruct strict; lia.
Qed.

Lemma stride_code_noerr stride :
  stride_code stride = NC_NOERR <->
  match stride with Some t => forallb (fun x => 1 <=? x) t | None => true end = true.
Proof.
  unfold stride_code. destruct stride as [t|]; [|tauto].
  assert (E : existsb (fun x => x <=? 0) t = negb (forallb (fun x => 1 <=? x) t)).
  { induction t as [|x t IH]; [reflexivity|]. cbn [existsb forallb]. rewrite IH.
    rewrite negb_andb. f_equal. lia. }
  rewrite E. destruct (forallb (fun x => 1 <=? x) t); cbn [negb].
  - tauto.
  - split; [vm_compute; discriminate | discriminate].
Qed.

Lemma phases_noerr fmt strict isrec isread kind shape numrecs st count stride :
  phases fmt strict isrec isread kind shape numrecs st count stride = NC_NOERR <->
  starts_ok_b fmt strict isrec isread shape numrecs st count = true /\
  match count with
  | None => kind = API_VAR1
  | Some cn => edge_code isrec isread st cn (strides_of cn stride) (shp_of isrec shape numrecs)
               = NC_NOERR /\ stride_code stride = NC_NOERR
  end.
Proof.
  unfold phases. destruct (starts_ok_b fmt strict isrec isread shape numrecs st count).
  - destruct count as [cn|].
    + cbv zeta.
      destruct (edge_code isrec isread st cn (strides_of cn stride) (shp_of isrec shape numrecs)
                =? NC_NOERR) eqn:E.
      * apply Z.eqb_eq in E. rewrite E. tauto.
      * apply Z.eqb_neq in E. tauto.
    + destruct kind; split; try tauto; try (vm_compute; discriminate);
        intros [_ H]; discriminate.
  - split; [vm_compute; discriminate | intros [H _]; discriminate].
Qed.

Lemma tl_map {A B} (f : A -> B) l : tl (map f l) = map f (tl l).
Proof. destruct l; reflexivity. Qed.

Lemma strides_of_length cn stride n :
  length cn = n -> match stride with Some t => length t = n | None => True end ->
  length (strides_of cn stride) = n.
Proof. intros H1 H2. unfold strides_of. destruct stride; rewrite map_length; assumption. Qed.

Lemma shp_of_length isrec shape numrecs :
  (isrec = true -> shape <> []) -> length (shp_of isrec shape numrecs) = length shape.
Proof.
  intros H. unfold shp_of. destruct isrec; [|reflexivity].
  destruct shape; [exfalso; now apply H | reflexivity].
Qed.

Lemma length_tl' {A} (l : list A) : length (tl l) = Nat.pred (length l).
Proof. destruct l; reflexivity. Qed.

Lemma fits_b_phases fmt strict isrec isread kind shape numrecs st count stride :
  lengths_ok isrec shape st count stride ->
  (fits_b fmt strict isrec isread kind shape numrecs (Some st) count stride = true <->
   starts_ok_b fmt strict isrec isread shape numrecs st count = true /\
   match count with
   | None => kind = API_VAR1
   | Some cn => edge_code isrec isread st cn (strides_of cn stride) (shp_of isrec shape numrecs)
                = NC_NOERR /\ stride_code stride = NC_NOERR
   end).
Proof.
  intros (Hne & Hls & Hlc & Hlt).
  pose proof (shp_of_length isrec shape numrecs Hne) as Hlshp.
  unfold fits_b, starts_ok_b, edge_code. cbv zeta.
  set (shp := shp_of isrec shape numrecs) in *.
  destruct count as [cn|]; cbn [cnt_or1].
  - rewrite stride_code_noerr.
    pose proof (strides_of_length cn stride (length shape) Hlc Hlt) as Hlts.
    set (ts := strides_of cn stride) in *.
    destruct (free0 isrec isread).
    + rewrite dims_fit_b_split by (rewrite !length_tl'; lia).
      destruct (hd 0 cn <? 0) eqn:Ec0.
      * replace (0 <=? hd 0 cn) with false by lia. rewrite andb_false_r. cbn [andb].
        split; [discriminate | intros [_ [H _]]; vm_compute in H; discriminate].
      * replace (0 <=? hd 0 cn) with true by lia. cbn [andb].
        rewrite !andb_true_iff, !negb_true_iff, Z.eqb_eq.
        assert ((0 <=? hd 0 st) = true <-> (hd 0 st <? 0) = false) by lia.
        assert (isrec && (fmt <? 5) && (NC_MAX_UINT <? hd 0 st) = false <->
                isrec && ((fmt <? 5) && (hd 0 st >? NC_MAX_UINT)) = false)
          by (destruct isrec; lia).
        tauto.
    + rewrite dims_fit_b_split by lia.
      rewrite !andb_true_iff, !negb_true_iff, Z.eqb_eq.
      assert ((0 <=? hd 0 st) = true <-> (hd 0 st <? 0) = false) by lia.
      assert (isrec && (fmt <? 5) && (NC_MAX_UINT <? hd 0 st) = false <->
              isrec && ((fmt <? 5) && (hd 0 st >? NC_MAX_UINT)) = false)
        by (destruct isrec; lia).
      tauto.
  - rewrite tl_map, !starts_fit_ones.
    rewrite !andb_true_iff, !negb_true_iff.
    assert ((0 <=? hd 0 st) = true <-> (hd 0 st <? 0) = false) by lia.
    assert (isrec && (fmt <? 5) && (NC_MAX_UINT <? hd 0 st) = false <->
            isrec && ((fmt <? 5) && (hd 0 st >? NC_MAX_UINT)) = false)
      by (destruct isrec; lia).
    assert (is_var1 kind = true <-> kind = API_VAR1)
      by (destruct kind; cbn [is_var1]; split; congruence).
    tauto.
Qed.

(* SOUNDNESS AND COMPLETENESS of the argument check *)
Theorem check_scs_iff_fits : forall fmt strict isrec isread kind shape numrecs start count stride,
  match start with
  | Some st => lengths_ok isrec shape st count stride
  | None => True
  end ->
  (check_scs fmt strict isrec isread kind shape numrecs start count stride = NC_NOERR <->
   fits_b fmt strict isrec isread kind shape numrecs start count stride = true).
Proof.
  intros fmt strict isrec isread kind shape numrecs start count stride Hl.
  destruct start as [st|].
  - rewrite check_scs_decomp by assumption. rewrite phases_noerr, fits_b_phases by assumption.
    reflexivity.
  - cbn [check_scs fits_b]. split; [vm_compute; discriminate | discriminate].
Qed.

(* ================================================================== *)
(* 7. Dimension-by-dimension reading (nth)                             *)
(* ================================================================== *)
Lemma hd_nth0 {A} (l : list A) d : hd d l = nth 0 l d.
Proof. destruct l; reflexivity. Qed.

Lemma nth_tl {A} (l : list A) i d : nth i (tl l) d = nth (S i) l d.
Proof. destruct l; [destruct i; reflexivity | reflexivity]. Qed.

Lemma starts_fit_b_nth strict : forall n st cn shp,
  length st = n -> length cn = n -> length shp = n ->
  (starts_fit_b strict st cn shp = true <->
   forall i, (i < n)%nat -> start_fits strict (nth i st 0) (nth i cn 0) (nth i shp 0) = true).
Proof.
  induction n as [|n IH]; intros st cn shp H1 H2 H3.
  - destruct st; [|discriminate]. split; [intros _ i Hi; lia | reflexivity].
  - destruct st as [|s st]; [discriminate|]. destruct cn as [|c cn]; [discriminate|].
    destruct shp as [|sh shp]; [discriminate|]. cbn [length] in H1, H2, H3.
    cbn [starts_fit_b]. rewrite andb_true_iff, (IH st cn shp) by lia. split.
    + intros [H0 H] i Hi. destruct i as [|i]; cbn [nth]; [exact H0 | apply H; lia].
    + intros H. split; [apply (H 0%nat); lia | intros i Hi; apply (H (S i)); lia].
Qed.

Lemma dims_code_seq : forall n st cn ts shp,
  length st = n -> length cn = n -> length ts = n -> length shp = n ->
  dims_code st cn ts shp =
  first_err (map (fun i => dim_code (nth i st 0) (nth i cn 0) (nth i ts None) (nth i shp 0))
                 (seq 0 n)).
Proof.
  induction n as [|n IH]; intros st cn ts shp H1 H2 H3 H4.
  - destruct st; [reflexivity | discriminate].
  - destruct st as [|s st]; [discriminate|]. destruct cn as [|c cn]; [discriminate|].
    destruct ts as [|t ts]; [discriminate|]. destruct shp as [|sh shp]; [discriminate|].
    cbn [length] in H1, H2, H3, H4.
    cbn [seq map first_err dims_code nth]. rewrite <- seq_shift, map_map. cbn [nth].
    rewrite <- IH by lia. reflexivity.
Qed.

Lemma first_err_first_bad (f : nat -> Z) : forall n a i,
  (a <= i < a + n)%nat -> (forall j, (a <= j < i)%nat -> f j = NC_NOERR) -> f i <> NC_NOERR ->
  first_err (map f (seq a n)) = f i.
Proof.
  induction n as [|n IH]; intros a i Hi Hpre Hbad; [lia|].
  cbn [seq map first_err]. destruct (Nat.eq_dec a i) as [->|Hne].
  - apply Z.eqb_neq in Hbad. now rewrite Hbad.
  - rewrite (Hpre a) by lia. codes. apply IH; [lia | intros j Hj; apply Hpre; lia | assumption].
Qed.

Lemma first_err_all_noerr (f : nat -> Z) : forall n a,
  first_err (map f (seq a n)) = NC_NOERR <-> forall j, (a <= j < a + n)%nat -> f j = NC_NOERR.
Proof.
  induction n as [|n IH]; intros a.
  - cbn [seq map first_err]. split; [intros _ j Hj; lia | reflexivity].
  - cbn [seq map first_err]. destruct (f a =? NC_NOERR) eqn:E.
    + apply Z.eqb_eq in E. rewrite IH. split.
      * intros H j Hj. destruct (Nat.eq_dec j a) as [->|Hne]; [exact E | apply H; lia].
      * intros H j Hj. apply H. lia.
    + apply Z.eqb_neq in E. split; [intros H; contradiction | intros H; apply H; lia].
Qed.

(* dimension i is checked against its length *)
Definition bounded_dim (isrec isread : bool) (i : nat) : bool :=
  negb (free0 isrec isread && (i =? 0)%nat).

(* the code the count/edge phase computes for dimension i *)
Definition code_at (isrec isread : bool) (st cn : list Z) (ts : list (option Z)) (shp : list Z)
           (i : nat) : Z :=
  if nth i cn 0 <? 0 then NC_ENEGATIVECNT
  else if bounded_dim isrec isread i
       then check_EEDGE (nth i st 0) (nth i cn 0) (nth i ts None) (nth i shp 0)
       else NC_NOERR.

(* phase 2 reports the code of the first dimension (in increasing order) that has one *)
Lemma edge_code_seq isrec isread : forall n st cn ts shp,
  length st = n -> length cn = n -> length ts = n -> length shp = n ->
  (free0 isrec isread = true -> (0 < n)%nat) ->
  edge_code isrec isread st cn ts shp =
  first_err (map (code_at isrec isread st cn ts shp) (seq 0 n)).
Proof.
  intros n st cn ts shp H1 H2 H3 H4 Hn. unfold edge_code, code_at, bounded_dim.
  destruct (free0 isrec isread) eqn:Ef.
  - destruct n as [|n]; [specialize (Hn eq_refl); lia|].
    destruct st as [|s st]; [discriminate|]. destruct cn as [|c cn]; [discriminate|].
    destruct ts as [|t ts]; [discriminate|]. destruct shp as [|sh shp]; [discriminate|].
    cbn [length] in H1, H2, H3, H4. cbn [hd tl seq map first_err nth Nat.eqb andb negb].
    destruct (c <? 0); codes; [reflexivity|].
    rewrite <- seq_shift, map_map. cbn [nth Nat.eqb andb negb].
    rewrite (dims_code_seq n) by lia. reflexivity.
  - cbn [andb negb]. rewrite (dims_code_seq n) by assumption. reflexivity.
Qed.

Lemma nth_strides_of cn stride n i :
  length cn = n -> match stride with Some t => length t = n | None => True end -> (i < n)%nat ->
  nth i (strides_of cn stride) None = option_map (fun t => nth i t 0) stride.
Proof.
  intros H1 H2 Hi. unfold strides_of. destruct stride as [t|]; cbn [option_map].
  - rewrite (nth_indep _ None (Some 0)) by (rewrite map_length; lia).
    apply (map_nth Some t 0 i).
  - clear. revert i. induction cn as [|c cn IH]; intros i; destruct i; cbn [map nth]; auto.
Qed.

Lemma starts_ok_b_nth fmt strict isrec isread shape numrecs st count stride :
  lengths_ok isrec shape st count stride ->
  let shp := shp_of isrec shape numrecs in
  let cn := cnt_or1 count shp in
  (starts_ok_b fmt strict isrec isread shape numrecs st count = true <->
   0 <= nth 0 st 0 /\
   (isrec = true -> fmt < 5 -> nth 0 st 0 <= NC_MAX_UINT) /\
   forall i, (i < length shape)%nat -> bounded_dim isrec isread i = true ->
     start_fits strict (nth i st 0) (nth i cn 0) (nth i shp 0) = true).
Proof.
  intros (Hne & Hls & Hlc & Hlt) shp cn.
  pose proof (shp_of_length isrec shape numrecs Hne) as Hlshp. fold shp in Hlshp.
  assert (Hlcn : length cn = length shape).
  { unfold cn, cnt_or1. destruct count; [assumption | rewrite map_length; assumption]. }
  unfold starts_ok_b. cbv zeta. fold shp. fold cn. rewrite hd_nth0.
  rewrite !andb_true_iff, !negb_true_iff. unfold bounded_dim.
  destruct (free0 isrec isread) eqn:Ef.
  - assert (Hpos : (0 < length shape)%nat).
    { unfold free0 in Ef. destruct isrec; [|discriminate].
      destruct shape; [exfalso; now apply Hne | cbn [length]; lia]. }
    rewrite (starts_fit_b_nth strict (Nat.pred (length shape))) by (rewrite length_tl'; lia).
    split.
    + intros [[Ha Hb] Hc]. split; [lia|]. split; [intros -> ?; lia|].
      intros i Hi Hbd. destruct i as [|i]; [discriminate|].
      specialize (Hc i ltac:(lia)). rewrite !nth_tl in Hc. exact Hc.
    + intros (Ha & Hb & Hc). split; [split; [lia | destruct isrec; [|reflexivity]]|].
      * destruct (fmt <? 5) eqn:E5; [|reflexivity]. specialize (Hb eq_refl ltac:(lia)). lia.
      * intros i Hi. rewrite !nth_tl. apply Hc; [lia | reflexivity].
  - rewrite (starts_fit_b_nth strict (length shape)) by assumption. cbn [andb negb]. split.
    + intros [[Ha Hb] Hc]. split; [lia|]. split; [intros -> ?; lia|].
      intros i Hi _. apply Hc. exact Hi.
    + intros (Ha & Hb & Hc). split; [split; [lia | destruct isrec; [|reflexivity]]|].
      * destruct (fmt <? 5) eqn:E5; [|reflexivity]. specialize (Hb eq_refl ltac:(lia)). lia.
      * intros i Hi. apply Hc; [exact Hi | reflexivity].
Qed.

(* "the request fits", dimension by dimension *)
Definition dim_fits (strict : bool) (s c : Z) (t : option Z) (sh : Z) : Prop :=
  (if strict then s < sh else s <= sh /\ (s = sh -> c = 0)) /\
  s + c <= sh /\
  match t with Some t => 0 < c -> s + (c - 1) * t < sh | None => True end.

Definition fits (fmt : Z) (strict isrec isread : bool) (shape : list Z) (numrecs : Z)
           (st cn : list Z) (stride : option (list Z)) : Prop :=
  let shp := shp_of isrec shape numrecs in
  (isrec = true -> fmt < 5 -> nth 0 st 0 <= NC_MAX_UINT) /\
  forall i, (i < length shape)%nat ->
    0 <= nth i st 0 /\ 0 <= nth i cn 0 /\
    match stride with Some t => 1 <= nth i t 0 | None => True end /\
    (bounded_dim isrec isread i = true ->
     dim_fits strict (nth i st 0) (nth i cn 0) (option_map (fun t => nth i t 0) stride)
              (nth i shp 0)).

Lemma forallb_nth_pos t n : length t = n ->
  (forallb (fun x => 1 <=? x) t = true <-> forall i, (i < n)%nat -> 1 <= nth i t 0).
Proof.
  intros Hl. rewrite forallb_forall. split.
  - intros H i Hi. specialize (H (nth i t 0) ltac:(apply nth_In; lia)). lia.
  - intros H x Hx. destruct (In_nth _ _ 0 Hx) as [i [Hi <-]]. specialize (H i ltac:(lia)). lia.
Qed.

Lemma start_edge_dim_fits strict s c t sh : 0 <= c ->
  (start_fits strict s c sh = true /\ check_EEDGE s c t sh = NC_NOERR <->
   0 <= s /\ dim_fits strict s c t sh).
Proof.
  intros Hc. unfold dim_fits. split.
  - intros [Hs He]. pose proof (start_fits_nonneg _ _ _ _ Hs) as Hs0.
    assert (Hd : dim_code s c t sh = NC_NOERR)
      by (unfold dim_code; replace (c <? 0) with false by lia; exact He).
    apply dim_code_fits in Hd; [|lia]. unfold start_fits in Hs. unfold edge_fits in Hd.
    split; [lia|]. split; [destruct strict; lia|]. split; [lia|].
    destruct t as [t|]; [lia | exact I].
  - intros (Hs0 & Hst & Hed & Ht).
    assert (Hd : dim_code s c t sh = NC_NOERR).
    { apply dim_code_fits; [lia|]. unfold edge_fits. destruct t as [t|]; lia. }
    unfold dim_code in Hd. replace (c <? 0) with false in Hd by lia.
    split; [|exact Hd]. unfold start_fits. destruct strict; lia.
Qed.

(* acceptance in dimension-by-dimension form (start and count given; stride optional) *)
Theorem check_scs_iff_fits_prop : forall fmt strict isrec isread kind shape numrecs st cn stride,
  lengths_ok isrec shape st (Some cn) stride ->
  (check_scs fmt strict isrec isread kind shape numrecs (Some st) (Some cn) stride = NC_NOERR <->
   fits fmt strict isrec isread shape numrecs st cn stride).
Proof.
  intros fmt strict isrec isread kind shape numrecs st cn stride Hl.
  pose proof Hl as (Hne & Hls & Hlc & Hlt).
  pose proof (shp_of_length isrec shape numrecs Hne) as Hlshp.
  pose proof (strides_of_length cn stride (length shape) Hlc Hlt) as Hlts.
  rewrite check_scs_decomp, phases_noerr by assumption.
  rewrite (starts_ok_b_nth fmt strict isrec isread shape numrecs st (Some cn) stride Hl).
  cbn [cnt_or1].
  rewrite (edge_code_seq isrec isread (length shape)); try assumption.
  2:{ intros Hf. unfold free0 in Hf. destruct isrec; [|discriminate].
      destruct shape; [exfalso; now apply Hne | cbn [length]; lia]. }
  rewrite first_err_all_noerr, stride_code_noerr. unfold fits. cbv zeta.
  set (shp := shp_of isrec shape numrecs) in *.
  assert (Hstr : match stride with Some t => forallb (fun x => 1 <=? x) t | None => true end = true
                 <-> forall i, (i < length shape)%nat ->
                       match stride with Some t => 1 <= nth i t 0 | None => True end).
  { destruct stride as [t|]; [apply forallb_nth_pos; assumption | split; auto]. }
  rewrite Hstr. clear Hstr.
  split.
  - intros [(H0 & Hmax & Hst) [Hcode Hstr]]. split; [exact Hmax|]. intros i Hi.
    specialize (Hcode i ltac:(lia)). unfold code_at in Hcode.
    destruct (nth i cn 0 <? 0) eqn:Ec; [vm_compute in Hcode; discriminate|].
    rewrite (nth_strides_of cn stride (length shape)) in Hcode by assumption.
    destruct (bounded_dim isrec isread i) eqn:Eb.
    + specialize (Hst i Hi Eb). assert (Hc0 : 0 <= nth i cn 0) by lia.
      destruct (proj1 (start_edge_dim_fits strict _ _ _ _ Hc0) (conj Hst Hcode))
        as [Hs Hd].
      split; [exact Hs|]. split; [lia|]. split; [apply Hstr; exact Hi|]. intros _. exact Hd.
    + assert (i = 0%nat).
      { unfold bounded_dim in Eb. destruct (free0 isrec isread); [|discriminate].
        destruct i; [reflexivity | discriminate]. }
      subst i. split; [exact H0|]. split; [lia|]. split; [apply Hstr; exact Hi|]. discriminate.
  - intros [Hmax Hall]. split; [split; [|split; [exact Hmax|]]|split].
    + destruct shape as [|sh0 ss].
      * destruct st; [cbn [nth]; lia | discriminate].
      * destruct (Hall 0%nat ltac:(cbn [length]; lia)) as (H & _). exact H.
    + intros i Hi Hb. destruct (Hall i Hi) as (Hs & Hc & _ & Hd). specialize (Hd Hb).
      exact (proj1 (proj2 (start_edge_dim_fits strict _ _ _ _ Hc) (conj Hs Hd))).
    + intros i Hi. destruct (Hall i ltac:(lia)) as (Hs & Hc & _ & Hd). unfold code_at.
      replace (nth i cn 0 <? 0) with false by lia.
      destruct (bounded_dim isrec isread i); [|reflexivity]. specialize (Hd eq_refl).
      rewrite (nth_strides_of cn stride (length shape)) by (try assumption; lia).
      exact (proj2 (proj2 (start_edge_dim_fits strict _ _ _ _ Hc) (conj Hs Hd))).
    + intros i Hi. destruct (Hall i Hi) as (_ & _ & H & _). exact H.
Qed.

(* COMPLETENESS, as a one-way statement: a request that fits is accepted *)
Corollary check_scs_complete : forall fmt strict isrec isread kind shape numrecs st cn stride,
  lengths_ok isrec shape st (Some cn) stride ->
  fits fmt strict isrec isread shape numrecs st cn stride ->
  check_scs fmt strict isrec isread kind shape numrecs (Some st) (Some cn) stride = NC_NOERR.
Proof. intros. now apply check_scs_iff_fits_prop. Qed.

(* ================================================================== *)
(* 8. Which error is reported                                          *)
(* ================================================================== *)
Theorem check_scs_null_start : forall fmt strict isrec isread kind shape numrecs count stride,
  check_scs fmt strict isrec isread kind shape numrecs None count stride = NC_EINVALCOORDS.
Proof. reflexivity. Qed.

Lemma edge_code_cases isrec isread st cn ts shp :
  edge_code isrec isread st cn ts shp = NC_NOERR \/
  edge_code isrec isread st cn ts shp = NC_EEDGE \/
  edge_code isrec isread st cn ts shp = NC_ENEGATIVECNT.
Proof.
  unfold edge_code. destruct (free0 isrec isread); [|apply dims_code_cases].
  destruct (hd 0 cn <? 0); [now right; right | apply dims_code_cases].
Qed.

(* NC_EINVALCOORDS is reported exactly when the start phase fails; nothing that is wrong with
   count or stride can mask it *)
Theorem check_scs_einvalcoords_iff : forall fmt strict isrec isread kind shape numrecs st count stride,
  lengths_ok isrec shape st count stride ->
  (check_scs fmt strict isrec isread kind shape numrecs (Some st) count stride = NC_EINVALCOORDS
   <-> starts_ok_b fmt strict isrec isread shape numrecs st count = false).
Proof.
  intros fmt strict isrec isread kind shape numrecs st count stride Hl.
  rewrite check_scs_decomp by assumption. unfold phases.
  destruct (starts_ok_b fmt strict isrec isread shape numrecs st count); [|tauto].
  split; [|discriminate]. intros H. exfalso.
  destruct count as [cn|].
  - cbv zeta in H.
    destruct (edge_code_cases isrec isread st cn (strides_of cn stride)
                (shp_of isrec shape numrecs)) as [E|[E|E]]; rewrite E in H; revert H; codes.
    + unfold stride_code. destruct stride as [t|]; [|vm_compute; discriminate].
      destruct (existsb (fun x => x <=? 0) t); vm_compute; discriminate.
    + vm_compute; discriminate.
    + vm_compute; discriminate.
  - destruct kind; vm_compute in H; discriminate.
Qed.

Corollary check_scs_bad_start : forall fmt strict isrec isread kind shape numrecs st count stride,
  lengths_ok isrec shape st count stride ->
  starts_ok_b fmt strict isrec isread shape numrecs st count = false ->
  check_scs fmt strict isrec isread kind shape numrecs (Some st) count stride = NC_EINVALCOORDS.
Proof. intros. now apply check_scs_einvalcoords_iff. Qed.

(* a negative start in ANY dimension: NC_EINVALCOORDS, whatever else is wrong *)
Theorem check_scs_neg_start : forall fmt strict isrec isread kind shape numrecs st count stride i,
  lengths_ok isrec shape st count stride ->
  (i < length shape)%nat -> nth i st 0 < 0 ->
  check_scs fmt strict isrec isread kind shape numrecs (Some st) count stride = NC_EINVALCOORDS.
Proof.
  intros fmt strict isrec isread kind shape numrecs st count stride i Hl Hi Hneg.
  apply check_scs_bad_start; [assumption|].
  destruct (starts_ok_b fmt strict isrec isread shape numrecs st count) eqn:E; [|reflexivity].
  exfalso.
  destruct (proj1 (starts_ok_b_nth fmt strict isrec isread shape numrecs st count stride Hl) E)
    as (H0 & _ & Hst).
  destruct (bounded_dim isrec isread i) eqn:Eb.
  - specialize (Hst i Hi Eb). apply start_fits_nonneg in Hst. lia.
  - unfold bounded_dim in Eb. destruct (free0 isrec isread); [|discriminate].
    destruct i; [lia | discriminate].
Qed.

(* a start beyond the end of a bounded dimension: NC_EINVALCOORDS, whatever else is wrong.
   (Relaxed mode tolerates start = length, but only together with count <= 0.) *)
Theorem check_scs_start_too_large :
  forall fmt (strict : bool) isrec isread kind shape numrecs st count stride i,
  lengths_ok isrec shape st count stride ->
  (i < length shape)%nat -> bounded_dim isrec isread i = true ->
  let shp := shp_of isrec shape numrecs in
  let s := nth i st 0 in let c := nth i (cnt_or1 count shp) 0 in let sh := nth i shp 0 in
  (if strict then sh <= s else sh < s \/ (s = sh /\ 0 < c)) ->
  check_scs fmt strict isrec isread kind shape numrecs (Some st) count stride = NC_EINVALCOORDS.
Proof.
  intros fmt strict isrec isread kind shape numrecs st count stride i Hl Hi Hb shp s c sh Hbig.
  apply check_scs_bad_start; [assumption|].
  destruct (starts_ok_b fmt strict isrec isread shape numrecs st count) eqn:E; [|reflexivity].
  exfalso.
  destruct (proj1 (starts_ok_b_nth fmt strict isrec isread shape numrecs st count stride Hl) E)
    as (_ & _ & Hst).
  specialize (Hst i Hi Hb). fold shp in Hst. fold s c sh in Hst.
  unfold start_fits in Hst. destruct strict; lia.
Qed.

(* NULL count with valid starts: accepted for the var1 form only *)
Theorem check_scs_null_count : forall fmt strict isrec isread kind shape numrecs st stride,
  lengths_ok isrec shape st None stride ->
  starts_ok_b fmt strict isrec isread shape numrecs st None = true ->
  check_scs fmt strict isrec isread kind shape numrecs (Some st) None stride =
  match kind with API_VAR1 => NC_NOERR | _ => NC_EEDGE end.
Proof.
  intros fmt strict isrec isread kind shape numrecs st stride Hl Hs.
  rewrite check_scs_decomp by assumption. unfold phases. rewrite Hs. reflexivity.
Qed.

(* the code of dimension i in the count/edge phase, with the stride read from the request *)
Definition code_at_s (isrec isread : bool) (st cn : list Z) (stride : option (list Z))
           (shp : list Z) (i : nat) : Z :=
  if nth i cn 0 <? 0 then NC_ENEGATIVECNT
  else if bounded_dim isrec isread i
       then check_EEDGE (nth i st 0) (nth i cn 0) (option_map (fun t => nth i t 0) stride)
                        (nth i shp 0)
       else NC_NOERR.

Lemma free0_pos isrec isread (shape : list Z) :
  (isrec = true -> shape <> []) -> free0 isrec isread = true -> (0 < length shape)%nat.
Proof.
  intros Hne Hf. unfold free0 in Hf. destruct isrec; [|discriminate].
  destruct shape; [exfalso; now apply Hne | cbn [length]; lia].
Qed.

Lemma edge_code_seq_s isrec isread shape numrecs st cn stride :
  lengths_ok isrec shape st (Some cn) stride ->
  let shp := shp_of isrec shape numrecs in
  edge_code isrec isread st cn (strides_of cn stride) shp =
  first_err (map (code_at_s isrec isread st cn stride shp) (seq 0 (length shape))).
Proof.
  intros (Hne & Hls & Hlc & Hlt) shp.
  pose proof (shp_of_length isrec shape numrecs Hne) as Hlshp.
  pose proof (strides_of_length cn stride (length shape) Hlc Hlt) as Hlts.
  rewrite (edge_code_seq isrec isread (length shape)); try assumption;
    [|apply free0_pos; assumption].
  f_equal. apply map_ext_in. intros i Hi. apply in_seq in Hi.
  unfold code_at, code_at_s. rewrite (nth_strides_of cn stride (length shape)) by (try assumption; lia).
  reflexivity.
Qed.

(* FIRST ERROR of the count/edge phase: with valid starts, the code of the first dimension that
   has one is the result *)
Theorem check_scs_first_bad_dim :
  forall fmt strict isrec isread kind shape numrecs st cn stride i,
  lengths_ok isrec shape st (Some cn) stride ->
  starts_ok_b fmt strict isrec isread shape numrecs st (Some cn) = true ->
  let shp := shp_of isrec shape numrecs in
  (i < length shape)%nat ->
  (forall j, (j < i)%nat -> code_at_s isrec isread st cn stride shp j = NC_NOERR) ->
  code_at_s isrec isread st cn stride shp i <> NC_NOERR ->
  check_scs fmt strict isrec isread kind shape numrecs (Some st) (Some cn) stride =
  code_at_s isrec isread st cn stride shp i.
Proof.
  intros fmt strict isrec isread kind shape numrecs st cn stride i Hl Hs shp Hi Hpre Hbad.
  rewrite check_scs_decomp by assumption. unfold phases. rewrite Hs. cbv zeta.
  rewrite (edge_code_seq_s isrec isread shape numrecs st cn stride Hl). fold shp.
  rewrite (first_err_first_bad _ (length shape) 0 i); try assumption; try lia.
  - apply Z.eqb_neq in Hbad. now rewrite Hbad.
  - intros j Hj. apply Hpre. lia.
Qed.

(* how to discharge the "earlier dimensions are fine" hypothesis *)
Lemma code_at_s_fits isrec isread st cn stride shp j :
  0 <= nth j st 0 -> 0 <= nth j cn 0 ->
  (bounded_dim isrec isread j = true ->
   edge_fits (nth j st 0) (nth j cn 0) (option_map (fun t => nth j t 0) stride) (nth j shp 0)
   = true) ->
  code_at_s isrec isread st cn stride shp j = NC_NOERR.
Proof.
  intros Hs Hc Hb. unfold code_at_s. replace (nth j cn 0 <? 0) with false by lia.
  destruct (bounded_dim isrec isread j); [|reflexivity]. specialize (Hb eq_refl).
  apply (dim_code_fits _ _ _ _ Hs) in Hb. unfold dim_code in Hb.
  replace (nth j cn 0 <? 0) with false in Hb by lia. exact Hb.
Qed.

(* a negative count, with valid starts and nothing wrong in an earlier dimension *)
Theorem check_scs_neg_count :
  forall fmt strict isrec isread kind shape numrecs st cn stride i,
  lengths_ok isrec shape st (Some cn) stride ->
  starts_ok_b fmt strict isrec isread shape numrecs st (Some cn) = true ->
  (i < length shape)%nat ->
  (forall j, (j < i)%nat ->
     code_at_s isrec isread st cn stride (shp_of isrec shape numrecs) j = NC_NOERR) ->
  nth i cn 0 < 0 ->
  check_scs fmt strict isrec isread kind shape numrecs (Some st) (Some cn) stride =
  NC_ENEGATIVECNT.
Proof.
  intros fmt strict isrec isread kind shape numrecs st cn stride i Hl Hs Hi Hpre Hneg.
  assert (E : code_at_s isrec isread st cn stride (shp_of isrec shape numrecs) i = NC_ENEGATIVECNT)
    by (unfold code_at_s; replace (nth i cn 0 <? 0) with true by lia; reflexivity).
  rewrite <- E. apply check_scs_first_bad_dim; try assumption.
  rewrite E. vm_compute. discriminate.
Qed.

(* a count that runs over the end of a bounded dimension *)
Theorem check_scs_count_too_large :
  forall fmt strict isrec isread kind shape numrecs st cn stride i,
  lengths_ok isrec shape st (Some cn) stride ->
  starts_ok_b fmt strict isrec isread shape numrecs st (Some cn) = true ->
  (i < length shape)%nat -> bounded_dim isrec isread i = true ->
  (forall j, (j < i)%nat ->
     code_at_s isrec isread st cn stride (shp_of isrec shape numrecs) j = NC_NOERR) ->
  0 <= nth i cn 0 ->
  nth i (shp_of isrec shape numrecs) 0 < nth i st 0 + nth i cn 0 ->
  check_scs fmt strict isrec isread kind shape numrecs (Some st) (Some cn) stride = NC_EEDGE.
Proof.
  intros fmt strict isrec isread kind shape numrecs st cn stride i Hl Hs Hi Hb Hpre Hc Hbig.
  assert (E : code_at_s isrec isread st cn stride (shp_of isrec shape numrecs) i = NC_EEDGE).
  { unfold code_at_s. replace (nth i cn 0 <? 0) with false by lia. rewrite Hb.
    unfold check_EEDGE.
    replace ((nth i cn 0 >? nth i (shp_of isrec shape numrecs) 0)
             || (nth i st 0 + nth i cn 0 >? nth i (shp_of isrec shape numrecs) 0))
      with true by lia. reflexivity. }
  rewrite <- E. apply check_scs_first_bad_dim; try assumption.
  rewrite E. vm_compute. discriminate.
Qed.

(* start + count fits but the last strided index does not *)
Theorem check_scs_stride_reach :
  forall fmt strict isrec isread kind shape numrecs st cn t i,
  lengths_ok isrec shape st (Some cn) (Some t) ->
  starts_ok_b fmt strict isrec isread shape numrecs st (Some cn) = true ->
  (i < length shape)%nat -> bounded_dim isrec isread i = true ->
  (forall j, (j < i)%nat ->
     code_at_s isrec isread st cn (Some t) (shp_of isrec shape numrecs) j = NC_NOERR) ->
  0 < nth i cn 0 ->
  nth i (shp_of isrec shape numrecs) 0 <= nth i st 0 + (nth i cn 0 - 1) * nth i t 0 ->
  check_scs fmt strict isrec isread kind shape numrecs (Some st) (Some cn) (Some t) = NC_EEDGE.
Proof.
  intros fmt strict isrec isread kind shape numrecs st cn t i Hl Hs Hi Hb Hpre Hc Hbig.
  assert (E : code_at_s isrec isread st cn (Some t) (shp_of isrec shape numrecs) i = NC_EEDGE).
  { unfold code_at_s. replace (nth i cn 0 <? 0) with false by lia. rewrite Hb.
    cbn [option_map]. unfold check_EEDGE.
    destruct ((nth i cn 0 >? nth i (shp_of isrec shape numrecs) 0)
              || (nth i st 0 + nth i cn 0 >? nth i (shp_of isrec shape numrecs) 0));
      [reflexivity|].
    replace ((nth i cn 0 >? 0)
             && (nth i st 0 + (nth i cn 0 - 1) * nth i t 0 >=?
                 nth i (shp_of isrec shape numrecs) 0)) with true by lia.
    reflexivity. }
  rewrite <- E. apply check_scs_first_bad_dim; try assumption.
  rewrite E. vm_compute. discriminate.
Qed.

(* a stride <= 0 is reported last: only when starts, counts and edges are all fine *)
Theorem check_scs_bad_stride :
  forall fmt strict isrec isread kind shape numrecs st cn t i,
  lengths_ok isrec shape st (Some cn) (Some t) ->
  starts_ok_b fmt strict isrec isread shape numrecs st (Some cn) = true ->
  (forall j, (j < length shape)%nat ->
     code_at_s isrec isread st cn (Some t) (shp_of isrec shape numrecs) j = NC_NOERR) ->
  (i < length shape)%nat -> nth i t 0 <= 0 ->
  check_scs fmt strict isrec isread kind shape numrecs (Some st) (Some cn) (Some t) = NC_ESTRIDE.
Proof.
  intros fmt strict isrec isread kind shape numrecs st cn t i Hl Hs Hall Hi Hbad.
  pose proof Hl as (Hne & Hls & Hlc & Hlt).
  rewrite check_scs_decomp by assumption. unfold phases. rewrite Hs. cbv zeta.
  rewrite (edge_code_seq_s isrec isread shape numrecs st cn (Some t) Hl).
  rewrite (proj2 (first_err_all_noerr _ (length shape) 0)) by (intros j Hj; apply Hall; lia).
  codes. unfold stride_code.
  replace (existsb (fun x => x <=? 0) t) with true; [reflexivity|].
  symmetry. apply existsb_exists. exists (nth i t 0). split; [apply nth_In; lia | lia].
Qed.

(* ================================================================== *)
(* 9. One perturbation of an accepted request at a time                *)
(* ================================================================== *)
Fixpoint set_nth {A} (i : nat) (v : A) (l : list A) {struct l} : list A :=
  match l with
  | [] => []
  | x :: r => match i with O => v :: r | S k => x :: set_nth k v r end
  end.

Lemma length_set_nth {A} (v : A) : forall l i, length (set_nth i v l) = length l.
Proof. induction l as [|x r IH]; intros i; [reflexivity|]. destruct i; cbn [set_nth length]; auto. Qed.

Lemma nth_set_nth_eq {A} (v d : A) : forall l i, (i < length l)%nat -> nth i (set_nth i v l) d = v.
Proof.
  induction l as [|x r IH]; intros i Hi; [cbn [length] in Hi; lia|].
  destruct i; cbn [set_nth nth]; [reflexivity|]. apply IH. cbn [length] in Hi. lia.
Qed.

Lemma nth_set_nth_neq {A} (v d : A) : forall l i j, i <> j -> nth j (set_nth i v l) d = nth j l d.
Proof.
  induction l as [|x r IH]; intros i j Hne; [reflexivity|].
  destruct i; destruct j; cbn [set_nth nth]; try reflexivity; [lia|]. apply IH. lia.
Qed.

Lemma accepted_phases fmt strict isrec isread kind shape numrecs st cn stride :
  lengths_ok isrec shape st (Some cn) stride ->
  check_scs fmt strict isrec isread kind shape numrecs (Some st) (Some cn) stride = NC_NOERR ->
  starts_ok_b fmt strict isrec isread shape numrecs st (Some cn) = true /\
  (forall j, (j < length shape)%nat ->
     code_at_s isrec isread st cn stride (shp_of isrec shape numrecs) j = NC_NOERR) /\
  stride_code stride = NC_NOERR.
Proof.
  intros Hl H. rewrite check_scs_decomp in H by assumption. apply phases_noerr in H.
  destruct H as [Hs [He Hst]]. split; [exact Hs|]. split; [|exact Hst].
  rewrite (edge_code_seq_s isrec isread shape numrecs st cn stride Hl) in He.
  intros j Hj. apply (proj1 (first_err_all_noerr _ _ _) He). lia.
Qed.

(* the start phase looks at a count only to see whether it is positive where start = length *)
Lemma starts_ok_b_count_change fmt strict isrec isread shape numrecs st cn cn' stride :
  lengths_ok isrec shape st (Some cn) stride -> length cn' = length shape ->
  starts_ok_b fmt strict isrec isread shape numrecs st (Some cn) = true ->
  (forall j, (j < length shape)%nat -> bounded_dim isrec isread j = true -> 0 < nth j cn' 0 ->
     0 < nth j cn 0 \/ nth j st 0 < nth j (shp_of isrec shape numrecs) 0) ->
  starts_ok_b fmt strict isrec isread shape numrecs st (Some cn') = true.
Proof.
  intros Hl Hl' Hs Hch.
  assert (Hl2 : lengths_ok isrec shape st (Some cn') stride).
  { destruct Hl as (H1 & H2 & H3 & H4). repeat split; assumption. }
  destruct (proj1 (starts_ok_b_nth fmt strict isrec isread shape numrecs st (Some cn) stride Hl) Hs)
    as (H0 & Hmax & Hst).
  apply (starts_ok_b_nth fmt strict isrec isread shape numrecs st (Some cn') stride Hl2).
  split; [exact H0|]. split; [exact Hmax|]. intros j Hj Hb.
  specialize (Hst j Hj Hb). specialize (Hch j Hj Hb). cbn [cnt_or1] in *.
  unfold start_fits in *. destruct strict; lia.
Qed.

Theorem perturb_neg_start : forall fmt strict isrec isread kind shape numrecs st count stride i v,
  lengths_ok isrec shape st count stride -> (i < length shape)%nat -> v < 0 ->
  check_scs fmt strict isrec isread kind shape numrecs (Some (set_nth i v st)) count stride =
  NC_EINVALCOORDS.
Proof.
  intros fmt strict isrec isread kind shape numrecs st count stride i v (H1 & H2 & H3 & H4) Hi Hv.
  apply (check_scs_neg_start _ _ _ _ _ _ _ _ _ _ i).
  - repeat split; try assumption. now rewrite length_set_nth.
  - exact Hi.
  - rewrite nth_set_nth_eq by lia. exact Hv.
Qed.

Theorem perturb_start_too_large :
  forall fmt (strict : bool) isrec isread kind shape numrecs st count stride i v,
  lengths_ok isrec shape st count stride -> (i < length shape)%nat ->
  bounded_dim isrec isread i = true ->
  (if strict then nth i (shp_of isrec shape numrecs) 0 <= v
   else nth i (shp_of isrec shape numrecs) 0 < v) ->
  check_scs fmt strict isrec isread kind shape numrecs (Some (set_nth i v st)) count stride =
  NC_EINVALCOORDS.
Proof.
  intros fmt strict isrec isread kind shape numrecs st count stride i v (H1 & H2 & H3 & H4) Hi Hb Hv.
  apply (check_scs_start_too_large _ _ _ _ _ _ _ _ _ _ i).
  - repeat split; try assumption. now rewrite length_set_nth.
  - exact Hi.
  - exact Hb.
  - rewrite nth_set_nth_eq by lia. destruct strict; [exact Hv | left; exact Hv].
Qed.

Lemma code_at_s_set_count isrec isread st cn stride shp i v j : i <> j ->
  code_at_s isrec isread st (set_nth i v cn) stride shp j = code_at_s isrec isread st cn stride shp j.
Proof. intros Hne. unfold code_at_s. rewrite nth_set_nth_neq by assumption. reflexivity. Qed.

Theorem perturb_neg_count : forall fmt strict isrec isread kind shape numrecs st cn stride i v,
  lengths_ok isrec shape st (Some cn) stride ->
  check_scs fmt strict isrec isread kind shape numrecs (Some st) (Some cn) stride = NC_NOERR ->
  (i < length shape)%nat -> v < 0 ->
  check_scs fmt strict isrec isread kind shape numrecs (Some st) (Some (set_nth i v cn)) stride =
  NC_ENEGATIVECNT.
Proof.
  intros fmt strict isrec isread kind shape numrecs st cn stride i v Hl Hacc Hi Hv.
  destruct (accepted_phases _ _ _ _ _ _ _ _ _ _ Hl Hacc) as (Hs & Hcodes & _).
  pose proof Hl as (H1 & H2 & H3 & H4).
  apply (check_scs_neg_count _ _ _ _ _ _ _ _ _ _ i).
  - repeat split; try assumption. now rewrite length_set_nth.
  - apply (starts_ok_b_count_change _ _ _ _ _ _ _ cn _ stride); try assumption.
    + now rewrite length_set_nth.
    + intros j Hj Hb Hpos. destruct (Nat.eq_dec i j) as [<-|Hne].
      * rewrite nth_set_nth_eq in Hpos by lia. lia.
      * rewrite nth_set_nth_neq in Hpos by assumption. left. exact Hpos.
  - exact Hi.
  - intros j Hj. rewrite code_at_s_set_count by lia. apply Hcodes. lia.
  - rewrite nth_set_nth_eq by lia. exact Hv.
Qed.

(* start strictly inside, count enlarged beyond the end.  (With start = length, which relaxed
   mode accepts for count = 0, a positive count gives NC_EINVALCOORDS instead:
   perturb_count_at_end.) *)
Theorem perturb_count_too_large :
  forall fmt strict isrec isread kind shape numrecs st cn stride i v,
  lengths_ok isrec shape st (Some cn) stride ->
  check_scs fmt strict isrec isread kind shape numrecs (Some st) (Some cn) stride = NC_NOERR ->
  (i < length shape)%nat -> bounded_dim isrec isread i = true ->
  nth i st 0 < nth i (shp_of isrec shape numrecs) 0 ->
  nth i (shp_of isrec shape numrecs) 0 < nth i st 0 + v ->
  check_scs fmt strict isrec isread kind shape numrecs (Some st) (Some (set_nth i v cn)) stride =
  NC_EEDGE.
Proof.
  intros fmt strict isrec isread kind shape numrecs st cn stride i v Hl Hacc Hi Hb Hin Hv.
  destruct (accepted_phases _ _ _ _ _ _ _ _ _ _ Hl Hacc) as (Hs & Hcodes & _).
  pose proof Hl as (H1 & H2 & H3 & H4).
  apply (check_scs_count_too_large _ _ _ _ _ _ _ _ _ _ i).
  - repeat split; try assumption. now rewrite length_set_nth.
  - apply (starts_ok_b_count_change _ _ _ _ _ _ _ cn _ stride); try assumption.
    + now rewrite length_set_nth.
    + intros j Hj Hbj Hpos. destruct (Nat.eq_dec i j) as [<-|Hne].
      * right. exact Hin.
      * rewrite nth_set_nth_neq in Hpos by assumption. left. exact Hpos.
  - exact Hi.
  - exact Hb.
  - intros j Hj. rewrite code_at_s_set_count by lia. apply Hcodes. lia.
  - rewrite nth_set_nth_eq by lia. lia.
  - rewrite nth_set_nth_eq by lia. exact Hv.
Qed.

Theorem perturb_count_at_end :
  forall fmt isrec isread kind shape numrecs st cn stride i v,
  lengths_ok isrec shape st (Some cn) stride ->
  (i < length shape)%nat -> bounded_dim isrec isread i = true ->
  nth i st 0 = nth i (shp_of isrec shape numrecs) 0 -> 0 < v ->
  check_scs fmt false isrec isread kind shape numrecs (Some st) (Some (set_nth i v cn)) stride =
  NC_EINVALCOORDS.
Proof.
  intros fmt isrec isread kind shape numrecs st cn stride i v (H1 & H2 & H3 & H4) Hi Hb He Hv.
  apply (check_scs_start_too_large _ false _ _ _ _ _ _ _ _ i).
  - repeat split; try assumption. now rewrite length_set_nth.
  - exact Hi.
  - exact Hb.
  - cbn [cnt_or1]. rewrite nth_set_nth_eq by lia. right. split; [exact He | exact Hv].
Qed.

(* a stride <= 0 in an otherwise accepted request never trips the edge check first *)
Theorem perturb_bad_stride : forall fmt strict isrec isread kind shape numrecs st cn t i v,
  lengths_ok isrec shape st (Some cn) (Some t) ->
  check_scs fmt strict isrec isread kind shape numrecs (Some st) (Some cn) (Some t) = NC_NOERR ->
  (i < length shape)%nat -> v <= 0 ->
  check_scs fmt strict isrec isread kind shape numrecs (Some st) (Some cn)
            (Some (set_nth i v t)) = NC_ESTRIDE.
Proof.
  intros fmt strict isrec isread kind shape numrecs st cn t i v Hl Hacc Hi Hv.
  destruct (accepted_phases _ _ _ _ _ _ _ _ _ _ Hl Hacc) as (Hs & Hcodes & _).
  pose proof Hl as (H1 & H2 & H3 & H4).
  destruct (proj1 (starts_ok_b_nth fmt strict isrec isread shape numrecs st (Some cn) (Some t) Hl) Hs)
    as (_ & _ & Hst).
  assert (Hl' : lengths_ok isrec shape st (Some cn) (Some (set_nth i v t))).
  { repeat split; try assumption. now rewrite length_set_nth. }
  apply (check_scs_bad_stride _ _ _ _ _ _ _ _ _ _ i); try assumption.
  - intros j Hj. specialize (Hcodes j Hj). unfold code_at_s in *. cbn [option_map] in *.
    destruct (nth j cn 0 <? 0) eqn:Ec; [exact Hcodes|].
    destruct (bounded_dim isrec isread j) eqn:Eb; [|reflexivity].
    destruct (Nat.eq_dec i j) as [<-|Hne]; [|rewrite nth_set_nth_neq by assumption; exact Hcodes].
    rewrite nth_set_nth_eq by lia.
    specialize (Hst i Hi Eb). cbn [cnt_or1] in Hst.
    pose proof (start_fits_nonneg _ _ _ _ Hst) as Hs0.
    apply check_EEDGE_ok in Hcodes. destruct Hcodes as [He _].
    unfold check_EEDGE.
    replace ((nth i cn 0 >? nth i (shp_of isrec shape numrecs) 0)
             || (nth i st 0 + nth i cn 0 >? nth i (shp_of isrec shape numrecs) 0))
      with false by lia.
    destruct (nth i cn 0 >? 0) eqn:Ep; [|reflexivity].
    assert (Hlt : nth i st 0 < nth i (shp_of isrec shape numrecs) 0)
      by (unfold start_fits in Hst; destruct strict; lia).
    assert (Hm : (nth i cn 0 - 1) * v <= 0) by nia.
    replace (nth i st 0 + (nth i cn 0 - 1) * v >=? nth i (shp_of isrec shape numrecs) 0)
      with false by lia.
    reflexivity.
  - rewrite nth_set_nth_eq by lia. exact Hv.
Qed.

(* ================================================================== *)
(* 10. Examples                                                        *)
(* ================================================================== *)
(* a 3-D record variable (unlimited x 3 x 4) with 5 records, CDF-2, relaxed mode, strided read *)
Definition ex_shape : list Z := [0; 3; 4].
Definition ex_st : list Z := [1; 0; 1].
Definition ex_cn : list Z := [2; 3; 2].
Definition ex_sd : list Z := [2; 1; 2].

Example ex_lengths : lengths_ok true ex_shape ex_st (Some ex_cn) (Some ex_sd).
Proof. repeat split; try reflexivity. intros _. discriminate. Qed.

Example ex_accept :
  check_scs 2 false true true API_VARS ex_shape 5 (Some ex_st) (Some ex_cn) (Some ex_sd) = NC_NOERR
  /\ fits_b 2 false true true API_VARS ex_shape 5 (Some ex_st) (Some ex_cn) (Some ex_sd) = true.
Proof. vm_compute. split; reflexivity. Qed.

(* the same by the completeness theorem, from the dimension-by-dimension predicate *)
Example ex_accept_by_theorem :
  check_scs 2 false true true API_VARS ex_shape 5 (Some ex_st) (Some ex_cn) (Some ex_sd) = NC_NOERR.
Proof.
  apply check_scs_complete; [exact ex_lengths|].
  split; [intros _ _; vm_compute; discriminate|].
  intros i Hi. unfold ex_shape in Hi. cbn [length] in Hi.
  destruct i as [|[|[|i]]]; [| | |lia];
    (cbn [nth ex_st ex_cn ex_sd ex_shape shp_of tl option_map]; unfold dim_fits;
     repeat split; try lia; intros _; repeat split; try lia).
Qed.

(* a write may start beyond the current number of records; a read may not *)
Example ex_write_beyond :
  check_scs 2 false true false API_VARA ex_shape 5 (Some [7; 0; 0]) (Some [3; 3; 4]) None = NC_NOERR /\
  check_scs 2 false true true API_VARA ex_shape 5 (Some [7; 0; 0]) (Some [3; 3; 4]) None
  = NC_EINVALCOORDS /\
  check_scs 2 false true true API_VARA ex_shape 5 (Some [4; 0; 0]) (Some [3; 3; 4]) None = NC_EEDGE.
Proof. vm_compute. repeat split; reflexivity. Qed.

(* the perturbation theorems applied to the accepted request ... *)
Example ex_perturb :
  check_scs 2 false true true API_VARS ex_shape 5 (Some (set_nth 2 (-1) ex_st)) (Some ex_cn)
            (Some ex_sd) = NC_EINVALCOORDS /\
  check_scs 2 false true true API_VARS ex_shape 5 (Some (set_nth 1 4 ex_st)) (Some ex_cn)
            (Some ex_sd) = NC_EINVALCOORDS /\
  check_scs 2 false true true API_VARS ex_shape 5 (Some ex_st) (Some (set_nth 1 (-3) ex_cn))
            (Some ex_sd) = NC_ENEGATIVECNT /\
  check_scs 2 false true true API_VARS ex_shape 5 (Some ex_st) (Some (set_nth 2 4 ex_cn))
            (Some ex_sd) = NC_EEDGE /\
  check_scs 2 false true true API_VARS ex_shape 5 (Some ex_st) (Some ex_cn)
            (Some (set_nth 0 0 ex_sd)) = NC_ESTRIDE.
Proof.
  pose proof ex_lengths as Hl. destruct ex_accept as [Hacc _].
  split; [|split; [|split; [|split]]].
  - apply perturb_neg_start; [exact Hl | cbn; lia | lia].
  - apply perturb_start_too_large; [exact Hl | cbn; lia | reflexivity | vm_compute; reflexivity].
  - apply perturb_neg_count; [exact Hl | exact Hacc | cbn; lia | lia].
  - apply perturb_count_too_large;
      [exact Hl | exact Hacc | cbn; lia | reflexivity | vm_compute; reflexivity
       | vm_compute; reflexivity].
  - apply perturb_bad_stride; [exact Hl | exact Hacc | cbn; lia | lia].
Qed.

(* ... and cross-checked by evaluation *)
Example ex_perturb_compute :
  map (fun r => check_scs 2 false true true API_VARS ex_shape 5 (Some (fst (fst r)))
                          (Some (snd (fst r))) (Some (snd r)))
      [ ([1; 0; -1], ex_cn, ex_sd); ([1; 4; 1], ex_cn, ex_sd); (ex_st, [2; -3; 2], ex_sd);
        (ex_st, [2; 3; 4], ex_sd); (ex_st, ex_cn, [0; 1; 2]); (ex_st, [2; 3; 2], [4; 1; 2]) ]
  = [NC_EINVALCOORDS; NC_EINVALCOORDS; NC_ENEGATIVECNT; NC_EEDGE; NC_ESTRIDE; NC_EEDGE].
Proof. vm_compute. reflexivity. Qed.

(* precedence: a bad start masks everything; the first bad dimension decides between
   NC_ENEGATIVECNT and NC_EEDGE; a bad stride shows only when all the rest is fine *)
Example ex_precedence :
  check_scs 2 false true true API_VARS ex_shape 5 (Some [1; 0; -1]) (Some [-2; 9; 2])
            (Some [0; 1; 2]) = NC_EINVALCOORDS /\
  check_scs 2 false true true API_VARS ex_shape 5 (Some ex_st) (Some [2; 9; -2])
            (Some [0; 1; 2]) = NC_EEDGE /\
  check_scs 2 false true true API_VARS ex_shape 5 (Some ex_st) (Some [2; -9; 9])
            (Some [0; 1; 2]) = NC_ENEGATIVECNT.
Proof. vm_compute. repeat split; reflexivity. Qed.

(* corners of the model:
   - relaxed mode accepts start = length only with count = 0; strict mode never;
   - reading a record variable that has no records: the special case (numrecs = 0, count > 0)
     only turns the code into NC_EINVALCOORDS, acceptance is unchanged; a zero-length read at
     record 0 is accepted in relaxed mode and rejected in strict mode;
   - a negative count at start = length passes the start phase: NC_ENEGATIVECNT;
   - the CDF-1/2 limit on the record index does not apply to CDF-5;
   - NULL count: var1 only, and the stride is not looked at *)
Example ex_corners :
  check_scs 5 false false true API_VARA [4; 5] 0 (Some [4; 0]) (Some [0; 5]) None = NC_NOERR /\
  check_scs 5 true false true API_VARA [4; 5] 0 (Some [4; 0]) (Some [0; 5]) None = NC_EINVALCOORDS /\
  check_scs 5 false false true API_VARA [4; 5] 0 (Some [4; 0]) (Some [1; 5]) None = NC_EINVALCOORDS /\
  check_scs 5 false true true API_VARA [0; 5] 0 (Some [0; 0]) (Some [1; 5]) None = NC_EINVALCOORDS /\
  check_scs 5 false true true API_VARA [0; 5] 0 (Some [0; 0]) (Some [0; 5]) None = NC_NOERR /\
  check_scs 5 true true true API_VARA [0; 5] 0 (Some [0; 0]) (Some [0; 5]) None = NC_EINVALCOORDS /\
  check_scs 5 false false true API_VARA [4; 5] 0 (Some [4; 0]) (Some [-1; 5]) None = NC_ENEGATIVECNT /\
  check_scs 2 false true false API_VARA [0; 5] 0 (Some [4294967296; 0]) (Some [1; 5]) None
  = NC_EINVALCOORDS /\
  check_scs 5 false true false API_VARA [0; 5] 0 (Some [4294967296; 0]) (Some [1; 5]) None = NC_NOERR /\
  check_scs 5 false false true API_VAR1 [4; 5] 0 (Some [3; 4]) None (Some [0; -1]) = NC_NOERR /\
  check_scs 5 false false true API_VARA [4; 5] 0 (Some [3; 4]) None None = NC_EEDGE.
Proof. vm_compute. repeat split; reflexivity. Qed.

(* soundness (Proofs_Access.check_scs_req_ok) and completeness meet: for a request with start,
   count and stride given, acceptance implies req_ok *)
Example ex_sound_and_complete :
  fits 2 false true true ex_shape 5 ex_st ex_cn (Some ex_sd) /\
  req_ok ex_shape ex_st ex_cn ex_sd.
Proof.
  destruct ex_accept as [Hacc _]. split.
  - apply (check_scs_iff_fits_prop 2 false true true API_VARS); [exact ex_lengths | exact Hacc].
  - apply (check_scs_req_ok 2 false true API_VARS ex_shape 5 ex_st ex_cn (Some ex_sd));
      try reflexivity.
Qed.

Print Assumptions check_scs_decomp.
Print Assumptions check_scs_iff_fits.
Print Assumptions check_scs_iff_fits_prop.
Print Assumptions check_scs_complete.
Print Assumptions check_scs_codes.
Print Assumptions check_scs_einvalcoords_iff.
Print Assumptions check_scs_neg_start.
Print Assumptions check_scs_start_too_large.
Print Assumptions check_scs_first_bad_dim.
Print Assumptions check_scs_neg_count.
Print Assumptions check_scs_count_too_large.
Print Assumptions check_scs_stride_reach.
Print Assumptions check_scs_bad_stride.
Print Assumptions perturb_neg_start.
Print Assumptions perturb_start_too_large.
Print Assumptions perturb_neg_count.
Print Assumptions perturb_count_too_large.
Print Assumptions perturb_count_at_end.
Print Assumptions perturb_bad_stride.
