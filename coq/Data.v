(* Data.v — element values: external (big-endian) and memory (little-endian x86-64)
   representations of the 11 numeric/char types, ideal conversion with range check
   (the detailed, table-driven model of ncx.m4 is Convert.v / property C09), default fill
   values, and the value pattern used by the correspondence scripts.  Executable. *)
From Pnc Require Export Header.
Local Open Scope Z_scope.

(* type kinds by nc_type number *)
Definition is_float_type (t : Z) : bool := (t =? 5) || (t =? 6).
Definition is_signed_int (t : Z) : bool := (t =? 1) || (t =? 3) || (t =? 4) || (t =? 10).
Definition is_unsigned_int (t : Z) : bool := (t =? 7) || (t =? 8) || (t =? 9) || (t =? 11) || (t =? 2).

Definition type_min (t : Z) : Z :=
  if t =? 1 then -128 else if t =? 3 then -32768 else if t =? 4 then -2147483648
  else if t =? 10 then -9223372036854775808 else 0.
Definition type_max (t : Z) : Z :=
  if t =? 1 then 127 else if t =? 2 then 255 else if t =? 3 then 32767 else if t =? 4 then 2147483647
  else if t =? 7 then 255 else if t =? 8 then 65535 else if t =? 9 then 4294967295
  else if t =? 10 then 9223372036854775807 else if t =? 11 then 18446744073709551615 else 0.

(* ---------- IEEE-754 binary32/binary64 on bit patterns, pure Z ---------- *)
(* mant = number of explicit mantissa bits (23 / 52), ebits = exponent bits (8 / 11) *)
Definition fbias (ebits : Z) : Z := 2 ^ (ebits - 1) - 1.

(* round-to-nearest-even of a non-negative integer v to a float; returns bits (no sign) *)
Definition pos_to_float_bits (mant ebits v : Z) : Z :=
  if v =? 0 then 0
  else
    let p := Z.log2 v in                       (* v in [2^p, 2^(p+1)) *)
    if p <=? mant then
      (p + fbias ebits) * 2 ^ mant + (v - 2 ^ p) * 2 ^ (mant - p)
    else
      let sh := p - mant in
      let q := v / 2 ^ sh in                   (* mant+1 significant bits *)
      let r := v mod 2 ^ sh in
      let half := 2 ^ (sh - 1) in
      let q' := if (r >? half) || ((r =? half) && Z.odd q) then q + 1 else q in
      (* q' may reach 2^(mant+1): the formula below carries into the exponent correctly *)
      (p + fbias ebits) * 2 ^ mant + (q' - 2 ^ mant).

Definition z_to_float_bits (mant ebits v : Z) : Z :=
  if v <? 0 then 2 ^ (mant + ebits) + pos_to_float_bits mant ebits (- v)
  else pos_to_float_bits mant ebits v.

(* decoded float: (sign, m, e) meaning (-1)^sign * m * 2^e ; None for NaN / Inf *)
Definition float_decode (mant ebits bits : Z) : option (bool * Z * Z) :=
  let sign := bits / 2 ^ (mant + ebits) =? 1 in
  let ex := (bits / 2 ^ mant) mod 2 ^ ebits in
  let fr := bits mod 2 ^ mant in
  if ex =? 2 ^ ebits - 1 then None
  else if ex =? 0 then Some (sign, fr, 1 - fbias ebits - mant)
  else Some (sign, fr + 2 ^ mant, ex - fbias ebits - mant).

(* compare m*2^e (m>=0) with a non-negative integer bound: Lt / Eq / Gt *)
Definition cmp_scaled (m e b : Z) : comparison :=
  if e >=? 0 then Z.compare (m * 2 ^ e) b else Z.compare m (b * 2 ^ (- e)).

(* truncation toward zero of m*2^e, m >= 0 *)
Definition trunc_scaled (m e : Z) : Z := if e >=? 0 then m * 2 ^ e else m / 2 ^ (- e).

Inductive cval := CInt (v : Z) | CFloat (sign : bool) (m e : Z) | CNaN | CInf (sign : bool).

Definition fmant (t : Z) : Z := if t =? 5 then 23 else 52.
Definition febits (t : Z) : Z := if t =? 5 then 8 else 11.

(* decode an external (big-endian) element *)
Definition decode_ext (t : Z) (bs : list byte) : cval :=
  let u := be_value bs 0 in
  if is_float_type t then
    match float_decode (fmant t) (febits t) u with
    | Some (s, m, e) => CFloat s m e
    | None => if u mod 2 ^ (fmant t) =? 0 then CInf (u / 2 ^ (fmant t + febits t) =? 1) else CNaN
    end
  else if is_signed_int t then
    let n := 8 * xlen_type t in
    CInt (if u >=? 2 ^ (n - 1) then u - 2 ^ n else u)
  else CInt u.

(* bits of a value of float type t given as cval, rounding as C does (RNE) for ints and for
   double->float; None when we do not model it (double->float of non-integers) *)
Definition float_bits_of (t : Z) (v : cval) : option Z :=
  let mant := fmant t in let eb := febits t in
  match v with
  | CInt z => Some (z_to_float_bits mant eb z)
  | CFloat s m e =>
      (* exact when the value is an integer (e >= 0) or fits by construction *)
      if m =? 0 then Some (if s then 2 ^ (mant + eb) else 0)
      else if e >=? 0 then Some (z_to_float_bits mant eb ((if s then -1 else 1) * m * 2 ^ e))
      else if m mod 2 ^ (- e) =? 0 then Some (z_to_float_bits mant eb ((if s then -1 else 1) * (m / 2 ^ (- e))))
      else None
  | _ => None
  end.

Definition NC_FILL (t : Z) : Z (* as the integer or the bit pattern for floats *) :=
  if t =? 1 then -127 else if t =? 2 then 0 else if t =? 3 then -32767
  else if t =? 4 then -2147483647 else if t =? 5 then 2096103424 (* 0x7cf00000 *)
  else if t =? 6 then 5160562223013167104 (* 0x479e000000000000 *)
  else if t =? 7 then 255 else if t =? 8 then 65535 else if t =? 9 then 4294967295
  else if t =? 10 then -9223372036854775806 else if t =? 11 then 18446744073709551614 else 0.

(* big-endian bytes of the default fill value of type t *)
Definition fill_bytes (t : Z) : list byte :=
  let n := xlen_type t in be_bytes (Z.to_nat n) (NC_FILL t mod 2 ^ (8 * n)).

(* Conversion result: Some (bytes big-endian of destination type, erange?) ; None = unmodelled *)
Definition convert (src dst : Z) (bs : list byte) : option (list byte * bool) :=
  let n := xlen_type dst in
  let enc z := be_bytes (Z.to_nat n) (z mod 2 ^ (8 * n)) in
  if src =? dst then Some (bs, false)
  else
  let v := decode_ext src bs in
  if is_float_type dst then
    match v with
    | CInt _ => match float_bits_of dst v with Some b => Some (enc b, false) | None => None end
    | CFloat s m e =>
        if (src =? 5) && (dst =? 6) then
          (* float -> double is exact: re-encode m*2^e *)
          if m =? 0 then Some (enc (if s then 2 ^ 63 else 0), false)
          else
            let p := Z.log2 m in
            (* value = m * 2^e, normalised exponent p+e ; always normal in binary64 *)
            let bits := (p + e + 1023) * 2 ^ 52 + (m - 2 ^ p) * 2 ^ (52 - p) in
            Some (enc ((if s then 2 ^ 63 else 0) + bits), false)
        else
          (* double -> float: range test against FLT_MAX then rounding; only integers modelled *)
          if m =? 0 then Some (enc (if s then 2 ^ 31 else 0), false)
          else match cmp_scaled m e (2 ^ 128 - 2 ^ 104) with
               | Gt => Some (fill_bytes dst, true)
               | _ => match float_bits_of dst v with Some b => Some (enc b, false) | None => None end
               end
    | CNaN => None
    | CInf _ => if (src =? 5) && (dst =? 6) then None else Some (fill_bytes dst, true)
    end
  else
    match v with
    | CInt z => if (type_min dst <=? z) && (z <=? type_max dst) then Some (enc z, false)
                else Some (fill_bytes dst, true)
    | CFloat s m e =>
        if s then
          (* negative: in range iff m*2^e <= -min *)
          match cmp_scaled m e (- type_min dst) with
          | Gt => if (m =? 0) then Some (enc 0, false) else Some (fill_bytes dst, true)
          | _ => Some (enc (- trunc_scaled m e), false)
          end
        else
          match cmp_scaled m e (type_max dst) with
          | Gt => Some (fill_bytes dst, true)
          | _ => Some (enc (trunc_scaled m e), false)
          end
    | CNaN => None
    | CInf _ => Some (fill_bytes dst, true)
    end.

(* ---------- the script value pattern ---------- *)
Definition is8 (t : Z) : bool := (t =? 1) || (t =? 2) || (t =? 7).
Definition is16 (t : Z) : bool := (t =? 3) || (t =? 8).
Definition pat_lim (memt xt : Z) : Z :=
  if is8 memt || is8 xt then 100 else if is16 memt || is16 xt then 30000 else 16000000.
Definition pat_value (seed k lim : Z) : Z := 1 + ((seed * 7919 + k * 104729) mod lim).

(* big-endian bytes of integer value v in type t (float types: IEEE encoding) *)
Definition enc_value (t v : Z) : list byte :=
  let n := xlen_type t in
  if is_float_type t then be_bytes (Z.to_nat n) (z_to_float_bits (fmant t) (febits t) v)
  else be_bytes (Z.to_nat n) (v mod 2 ^ (8 * n)).

(* memory image (little endian) of an element given its big-endian bytes *)
Definition mem_of_be (bs : list byte) : list byte := rev bs.

Fixpoint chunks {A} (n : nat) (fuel : nat) (l : list A) : list (list A) :=
  match fuel with
  | O => []
  | S f => match l with
           | [] => []
           | _ => firstn n l :: chunks n f (skipn n l)
           end
  end.
Definition chunk_list {A} (n : Z) (l : list A) : list (list A) :=
  chunks (Z.to_nat n) (length l) l.
