(* Proofs_Redef.v — C06 "redefinition preserves existing data":
   the offset assignment at enddef after a redef (Proofs_Layout.v) composed with the data
   mover (Proofs_Move.v), exactly as ncmpio__enddef / Exec.do_enddef compose them:

       if   new begin_var > old begin_var            move_record_vars; move_fixed_vars
       elif new begin_rec > old begin_rec
            or new recsize > old recsize             move_record_vars
       else                                          nothing
       then write the new header at offset 0.

   Main results, for EVERY old header/layout satisfying the layout invariant, every extending
   new header, all alignment requests, nprocs >= 1, move unit >= 1, numrecs >= 0 and every file
   content:
     moved_disk_blocks        fixed variables and whole records arrive intact
     moved_disk_preserves     every byte of every old variable is found at its new place
     redef_preserves_data     the same after the header has been written over the old one
     triggers_complete        the three-way trigger misses no case: whenever any old variable
                              or record moves, the mover runs (no finding)
   No model definition is modified. *)
From Pnc Require Import Base Gen_consts Header HeaderSpec Disk Move.
From Pnc Require Import Proofs_Disk Proofs_Move Proofs_Layout.
From Pnc Require Proofs_Header.
Require Import Lia ZArith List Bool ZifyBool.
Import ListNotations.
Local Open Scope Z_scope.

Local Arguments Z.mul : simpl never.
Local Arguments Z.add : simpl never.
Local Arguments Z.sub : simpl never.
Local Arguments Z.div : simpl never.
Local Arguments Z.modulo : simpl never.

(* ====================================================================== *)
(** * 1. What enddef does to the file after a redefinition                 *)
(* ====================================================================== *)

(** the data movement of Exec.do_enddef (d1 there), verbatim *)
Definition moved_disk (d0 : disk) (np unit_ numrecs : Z) (oh h : hdr) (ol lay : layout) : disk :=
  match h_vars h with
  | [] => d0
  | _ =>
    let lens := map (var_len (h_dims h)) (h_vars h) in
    if l_begin_var lay >? l_begin_var ol then
      move_fixed_vars (move_record_vars d0 np unit_ numrecs lay ol) np unit_ oh lay ol lens
    else if (l_begin_rec lay >? l_begin_rec ol) || (l_recsize lay >? l_recsize ol) then
      move_record_vars d0 np unit_ numrecs lay ol
    else d0
  end.

(** ... followed by the header write (d2 of Exec.do_enddef; Exec.write_header is
    [dk_write d 0 (encode_header h)]) *)
Definition new_header (h : hdr) (lay : layout) (numrecs : Z) : hdr :=
  set_numrecs (set_begins h (l_begins lay)) numrecs.

Definition enddef_disk (d0 : disk) (np unit_ numrecs : Z) (oh h : hdr) (ol lay : layout) : disk :=
  dk_write (moved_disk d0 np unit_ numrecs oh h ol lay) 0
           (encode_header (new_header h lay numrecs)).

Lemma moved_disk_nil : forall d0 np unit_ numrecs oh h ol lay, h_vars h = [] ->
  moved_disk d0 np unit_ numrecs oh h ol lay = d0.
Proof. intros. unfold moved_disk. rewrite H. reflexivity. Qed.

Lemma moved_disk_nonnil : forall d0 np unit_ numrecs oh h ol lay, h_vars h <> [] ->
  moved_disk d0 np unit_ numrecs oh h ol lay =
  if l_begin_var lay >? l_begin_var ol then
    move_fixed_vars (move_record_vars d0 np unit_ numrecs lay ol) np unit_ oh lay ol
                    (map (var_len (h_dims h)) (h_vars h))
  else if (l_begin_rec lay >? l_begin_rec ol) || (l_recsize lay >? l_recsize ol) then
    move_record_vars d0 np unit_ numrecs lay ol
  else d0.
Proof.
  intros d0 np unit_ numrecs oh h ol lay H. unfold moved_disk.
  destruct (h_vars h) as [|v vars]; [contradiction|reflexivity].
Qed.

Definition dv : var := mkvar [] [] [] 0 0 true.     (* the default of Move.move_fixed_vars *)

(* ---------- the fv_ views of Proofs_Move against those of Proofs_Layout ---------- *)
Lemma znth_vsof : forall h i, 0 <= i < Zlen (h_vars h) ->
  znth (vsof h) i dvs =
  (is_recvar (h_dims h) (znth (h_vars h) i dv), var_len (h_dims h) (znth (h_vars h) i dv)).
Proof.
  intros h i Hi. unfold vsof.
  exact (znth_map_in var (bool * Z) (fun v => (is_recvar (h_dims h) v, var_len (h_dims h) v))
           (h_vars h) i dv dvs Hi).
Qed.

Lemma fv_isfix_kind : forall oh i, 0 <= i < Zlen (h_vars oh) ->
  fv_isfix oh i = negb (fst (znth (vsof oh) i dvs)).
Proof. intros oh i Hi. rewrite (znth_vsof oh i Hi). reflexivity. Qed.

Lemma fv_len_new : forall h i, 0 <= i < Zlen (h_vars h) ->
  fv_len (map (var_len (h_dims h)) (h_vars h)) i = snd (znth (vsof h) i dvs).
Proof.
  intros h i Hi. unfold fv_len. rewrite (znth_vsof h i Hi). cbn [snd].
  exact (znth_map_in var Z (var_len (h_dims h)) (h_vars h) i dv 0 Hi).
Qed.

(* ====================================================================== *)
(** * 2. The main section                                                  *)
(* ====================================================================== *)

Section RedefData.
  Variables (oh h : hdr) (ol lay : layout) (hm vm ha ra : Z).
  Variables (d0 : disk) (np unit_ numrecs : Z).
  Hypothesis Hwf : hdr_wf h.
  Hypothesis Hhm : 0 <= hm.
  Hypothesis Hvm : 0 <= vm.
  Hypothesis Hha : 0 < ha.
  Hypothesis Hra : 4 <= ra.
  Hypothesis Hra4 : ra mod 4 = 0.
  Hypothesis Hinv : lay_inv (t3of oh) ol.
  Hypothesis Hext : hdr_extends oh h.
  Hypothesis Hbeg : begins h hm vm ha ra (redef_old oh ol) (l_begin_rec ol) = Some lay.
  Hypothesis Hnp : np >= 1.
  Hypothesis Hu : unit_ >= 1.
  Hypothesis Hnr : 0 <= numrecs.

  Let vo := vsof oh.
  Let ob := fun i => znth (l_begins ol) i 0.
  Let nb := fun i => znth (l_begins lay) i 0.
  Let kind := fun i => fst (znth vo i dvs).
  Let len := fun i => snd (znth vo i dvs).
  Let nold := Zlen (h_vars oh).
  Let lens := map (var_len (h_dims h)) (h_vars h).
  Let d1 := moved_disk d0 np unit_ numrecs oh h ol lay.

  Let Facts := begins_redef_facts oh h ol lay hm vm ha ra Hwf Hhm Hvm Hha Hra Hra4 Hinv Hext Hbeg.

  Lemma rd_fv_len : forall i, 0 <= i < nold -> fv_len lens i = len i.
  Proof.
    intros i Hi. destruct Facts as (Fz & Fn & _). unfold lens, len, vo.
    rewrite fv_len_new by (fold nold in Fn; unfold nold in Hi; lia).
    rewrite (Fz i Hi). reflexivity.
  Qed.

  Lemma rd_fv_isfix : forall i, 0 <= i < nold -> (fv_isfix oh i = true <-> kind i = false).
  Proof.
    intros i Hi. rewrite (fv_isfix_kind oh i Hi). unfold kind, vo.
    destruct (fst (znth (vsof oh) i dvs)); cbn [negb]; split; congruence.
  Qed.

  (** the new layout satisfies the hypothesis of move_fixed_vars_correct *)
  Lemma rd_fixed_move_ok : fixed_move_ok oh lay ol lens.
  Proof.
    destruct Facts as (Fz & Fn & Ff & Fo & _). split.
    - intros i Hi Hfix. fold nold in Hi. rewrite (rd_fv_len i Hi).
      apply (rd_fv_isfix i Hi) in Hfix. destruct (Ff i Hi Hfix) as (A & B & _).
      unfold fv_from, fv_to. split; assumption.
    - intros i j Hi Hij Hj Hfi Hfj. fold nold in Hj.
      rewrite (rd_fv_len i ltac:(lia)).
      apply (rd_fv_isfix i ltac:(lia)) in Hfi. apply (rd_fv_isfix j ltac:(lia)) in Hfj.
      unfold fv_from, fv_to. exact (Fo i j Hi Hij Hj Hfi Hfj).
  Qed.

  (** Block level: after the data movement
      - every old fixed variable is found at its new begin,
      - every old record r (all l_recsize ol bytes of it) is found at the new record slot r. *)
  Theorem moved_disk_blocks :
    (forall i o, 0 <= i < nold -> kind i = false -> 0 <= o < len i ->
       dk_get d1 (nb i + o) = dk_get d0 (ob i + o)) /\
    (forall r x, 0 <= r < numrecs -> 0 <= x < l_recsize ol ->
       dk_get d1 (l_begin_rec lay + r * l_recsize lay + x)
       = dk_get d0 (l_begin_rec ol + r * l_recsize ol + x)).
  Proof.
    pose proof rd_fv_len as Hfl. pose proof rd_fv_isfix as Hfi.
    pose proof rd_fixed_move_ok as Hfmo.
    destruct Facts as (Fz & Fn & Ff & Fo & Fr & Fx & Fvr & Fbv & Fbr & Frs0 & Frs & Frsum & Fsame).
    unfold ob, nb, kind, len, vo in *.
    fold nold in Fn, Ff, Fo, Fr, Fsame.
    destruct (move_record_vars_correct d0 np unit_ numrecs lay ol Hnp Hu Hnr
                ltac:(lia) ltac:(lia) ltac:(lia)) as (R1 & R2 & R3).
    unfold d1.
    destruct (Z.eq_dec (Zlen (h_vars h)) 0) as [Ez|Ez].
    { (* no variable in the new header: there is no old variable either *)
      pose proof (Zlen_nonneg (h_vars oh)) as Hn0. fold nold in Hn0.
      split; [intros i o Hi; lia|].
      (* records: the old header has no variable: recsize 0 *)
      intros r x Hr Hx. exfalso.
      assert (Evo : vsof oh = []).
      { unfold vsof. assert (E : h_vars oh = []) by (apply Zlen_zero_nil; unfold nold in *; lia).
        rewrite E. reflexivity. }
      rewrite Evo in Frsum. cbn [rsum] in Frsum. lia. }
    rewrite moved_disk_nonnil by (intros C; rewrite C in Ez; apply Ez; reflexivity).
    fold lens.
    destruct (Z.gtb_spec (l_begin_var lay) (l_begin_var ol)) as [Hgv|Hgv].
    - (* header extent grew: records, then fixed variables *)
      set (dr := move_record_vars d0 np unit_ numrecs lay ol) in *.
      destruct (move_fixed_vars_correct dr np unit_ oh lay ol lens Hnp Hu Hfmo) as (M1 & M2).
      split.
      + intros i o Hi Hk Ho. destruct (Ff i Hi Hk) as (A & B & C & D & E & F).
        pose proof (proj2 (Hfi i Hi) Hk) as Hfix.
        specialize (M1 i o Hi Hfix). rewrite (Hfl i Hi) in M1. specialize (M1 Ho).
        unfold fv_to, fv_from in M1. rewrite M1.
        apply R3. lia.
      + intros r x Hr Hx. rewrite M2; [apply R1; assumption|].
        intros [j [Hj [Hfj [Hmv Hin]]]]. fold nold in Hj.
        apply (Hfi j Hj) in Hfj. destruct (Ff j Hj Hfj) as (A & B & C & D & E & F).
        rewrite (Hfl j Hj) in Hin. unfold fv_to in Hin.
        assert (0 <= r * l_recsize lay) by nia. lia.
    - destruct ((l_begin_rec lay >? l_begin_rec ol) || (l_recsize lay >? l_recsize ol)) eqn:Et.
      + (* only the record section moves *)
        split.
        * intros i o Hi Hk Ho. destruct (Ff i Hi Hk) as (A & B & C & D & E & F).
          rewrite (Fsame ltac:(lia) i Hi Hk).
          apply R3. lia.
        * intros r x Hr Hx. apply R1; assumption.
      + (* nothing moves *)
        apply orb_false_iff in Et. destruct Et as [Et1 Et2].
        assert (Ebr : l_begin_rec lay = l_begin_rec ol) by lia.
        assert (Ers : l_recsize lay = l_recsize ol) by lia.
        split.
        * intros i o Hi Hk Ho. rewrite (Fsame ltac:(lia) i Hi Hk). reflexivity.
        * intros r x Hr Hx. rewrite Ebr, Ers. reflexivity.
  Qed.

  (** Deliverable 3, variable level.  For every old variable i and every byte of its data:
      - fixed: offset o < len;
      - record: record r < numrecs, offset o < len inside the variable's slot of record r
        (the slot of variable i starts roff bytes into the record, the same before and after;
        the side condition keeps o inside the record: it only matters when the record size is
        the unpadded size of a single record variable, see [rec_slot_inside]);
      the byte at the NEW location in the moved disk is the byte at the OLD location in the
      original disk. *)
  Theorem moved_disk_preserves :
    forall i, 0 <= i < nold ->
      (kind i = false ->
         forall o, 0 <= o < len i -> dk_get d1 (nb i + o) = dk_get d0 (ob i + o)) /\
      (kind i = true ->
         nb i - l_begin_rec lay = ob i - l_begin_rec ol /\
         forall r o, 0 <= r < numrecs -> 0 <= o < len i ->
           (ob i - l_begin_rec ol) + o < l_recsize ol ->
           dk_get d1 (nb i + r * l_recsize lay + o) = dk_get d0 (ob i + r * l_recsize ol + o)).
  Proof.
    intros i Hi. destruct moved_disk_blocks as [B1 B2].
    destruct Facts as (_ & _ & _ & _ & Fr & _).
    unfold ob, nb, kind, len, vo in *. fold nold in Fr.
    split.
    - intros Hk o Ho. apply B1; assumption.
    - intros Hk. destruct (Fr i Hi Hk) as (E1 & E2 & E3 & E4).
      split; [lia|].
      intros r o Hr Ho Hin.
      replace (znth (l_begins lay) i 0 + r * l_recsize lay + o)
        with (l_begin_rec lay + r * l_recsize lay + (roff (vsof oh) i + o)) by lia.
      replace (znth (l_begins ol) i 0 + r * l_recsize ol + o)
        with (l_begin_rec ol + r * l_recsize ol + (roff (vsof oh) i + o)) by lia.
      apply B2; [exact Hr|]. lia.
  Qed.

  (** when the old record size is the sum of the record variables' lens (always, except for
      the single-record-variable packing) every byte of every record variable is inside the
      record, so the side condition of [moved_disk_preserves] holds for all o < len *)
  Lemma rec_slot_inside : l_recsize ol = rsum vo ->
    forall i o, 0 <= i < nold -> kind i = true -> 0 <= o < len i ->
      (ob i - l_begin_rec ol) + o < l_recsize ol.
  Proof.
    intros Hrs i o Hi Hk Ho. destruct Facts as (_ & _ & _ & _ & Fr & _).
    unfold ob, nb, kind, len, vo in *. fold nold in Fr.
    destruct (Fr i Hi Hk) as (E1 & E2 & E3 & E4). lia.
  Qed.

  (** the three-way trigger of ncmpio__enddef misses no case: when the fixed-variable mover is
      skipped no old fixed variable has moved, and when the mover is skipped altogether no old
      variable and no record has moved *)
  Theorem triggers_complete :
    (l_begin_var lay <= l_begin_var ol ->
       forall i, 0 <= i < nold -> kind i = false -> nb i = ob i) /\
    (l_begin_var lay <= l_begin_var ol -> l_begin_rec lay <= l_begin_rec ol ->
     l_recsize lay <= l_recsize ol ->
       (forall i, 0 <= i < nold -> nb i = ob i) /\
       l_begin_rec lay = l_begin_rec ol /\ l_recsize lay = l_recsize ol).
  Proof.
    destruct Facts as (Fz & Fn & Ff & Fo & Fr & Fx & Fvr & Fbv & Fbr & Frs0 & Frs & Frsum & Fsame).
    unfold ob, nb, kind, len, vo in *. fold nold in Fr, Fsame.
    split; [exact Fsame|].
    intros H1 H2 H3. split; [|split; lia].
    intros i Hi. destruct (fst (znth (vsof oh) i dvs)) eqn:Hk.
    - destruct (Fr i Hi Hk) as (E1 & E2 & _). lia.
    - exact (Fsame H1 i Hi Hk).
  Qed.

  (** the header write touches no variable data: the encoded header ends at or before
      begin_var (discharged from wf_hdr in [new_header_fits] below) *)
  Hypothesis Hhlen : Zlen (encode_header (new_header h lay numrecs)) <= l_begin_var lay.

  Let d2 := enddef_disk d0 np unit_ numrecs oh h ol lay.

  Lemma rd_header_frame : forall x, l_begin_var lay <= x -> dk_get d2 x = dk_get d1 x.
  Proof.
    intros x Hx. unfold d2, enddef_disk. fold d1. rewrite dk_get_write.
    replace ((0 <=? x) && (x <? 0 + Zlen (encode_header (new_header h lay numrecs))))
      with false by lia.
    reflexivity.
  Qed.

  (** Deliverable 3: the file as enddef leaves it (data moved, new header written) *)
  Theorem redef_preserves_data_sec :
    forall i, 0 <= i < nold ->
      (kind i = false ->
         forall o, 0 <= o < len i -> dk_get d2 (nb i + o) = dk_get d0 (ob i + o)) /\
      (kind i = true ->
         nb i - l_begin_rec lay = ob i - l_begin_rec ol /\
         forall r o, 0 <= r < numrecs -> 0 <= o < len i ->
           (ob i - l_begin_rec ol) + o < l_recsize ol ->
           dk_get d2 (nb i + r * l_recsize lay + o) = dk_get d0 (ob i + r * l_recsize ol + o)).
  Proof.
    intros i Hi. destruct (moved_disk_preserves i Hi) as [P1 P2].
    pose proof rd_header_frame as Hframe.
    destruct Facts as (Fz & Fn & Ff & Fo & Fr & Fx & Fvr & Fbv & Fbr & Frs0 & Frs & Frsum & Fsame).
    unfold ob, nb, kind, len, vo in *. fold nold in Ff, Fr.
    split.
    - intros Hk o Ho. destruct (Ff i Hi Hk) as (A & B & C & D & E & F).
      rewrite Hframe by lia. apply P1; assumption.
    - intros Hk. destruct (P2 Hk) as [Q1 Q2]. split; [exact Q1|].
      intros r o Hr Ho Hin. destruct (Fr i Hi Hk) as (E1 & E2 & E3 & E4).
      assert (0 <= r * l_recsize lay) by nia.
      rewrite Hframe by lia. apply Q2; assumption.
  Qed.
End RedefData.

(* ====================================================================== *)
(** * 3. The statements without section abbreviations                      *)
(* ====================================================================== *)

(** the new header, as written, fits below begin_var *)
Lemma new_header_fits : forall oh h ol lay hm vm ha ra numrecs,
  hdr_wf h -> 0 <= hm -> 0 <= vm -> 0 < ha -> 4 <= ra -> ra mod 4 = 0 ->
  lay_inv (t3of oh) ol -> hdr_extends oh h ->
  begins h hm vm ha ra (redef_old oh ol) (l_begin_rec ol) = Some lay ->
  Proofs_Header.wf_hdr (new_header h lay numrecs) = true ->
  Zlen (encode_header (new_header h lay numrecs)) = hdr_len h /\
  hdr_len h <= l_begin_var lay.
Proof.
  intros oh h ol lay hm vm ha ra numrecs Hwf Hhm Hvm Hha Hra Hra4 Hinv Hext Hbeg Hwfh.
  pose proof (begins_redef_facts oh h ol lay hm vm ha ra Hwf Hhm Hvm Hha Hra Hra4 Hinv Hext Hbeg)
    as (_ & _ & _ & _ & _ & Fx & _).
  destruct (begins_layout_ok_redef oh h ol lay hm vm ha ra Hwf Hhm Hvm Hha Hra Hra4 Hinv Hext Hbeg)
    as (_ & _ & Hlen & _).
  split; [|exact Fx].
  rewrite <- (Proofs_Header.hdr_len_encode _ Hwfh). unfold new_header.
  rewrite hdr_len_set_numrecs. apply hdr_len_set_begins.
  apply length_eq_Zlen. exact Hlen.
Qed.

(** Deliverable 3 (C06).  After ncmpi_redef + any extension of the header + ncmpi_enddef, for
    every old variable and every byte of its data the byte at the NEW location in the file
    enddef leaves behind (data moved, new header written) equals the byte at the OLD location
    in the file as it was, for all nprocs >= 1, move unit >= 1, numrecs >= 0. *)
Theorem redef_preserves_data : forall oh h ol lay hm vm ha ra d0 np unit_ numrecs,
  hdr_wf h -> 0 <= hm -> 0 <= vm -> 0 < ha -> 4 <= ra -> ra mod 4 = 0 ->
  lay_inv (t3of oh) ol -> hdr_extends oh h ->
  begins h hm vm ha ra (redef_old oh ol) (l_begin_rec ol) = Some lay ->
  np >= 1 -> unit_ >= 1 -> 0 <= numrecs ->
  Proofs_Header.wf_hdr (new_header h lay numrecs) = true ->
  let d2 := enddef_disk d0 np unit_ numrecs oh h ol lay in
  forall i, 0 <= i < Zlen (h_vars oh) ->
    let ov := znth (h_vars oh) i dv in
    let len := var_len (h_dims oh) ov in
    let ob := znth (l_begins ol) i 0 in
    let nb := znth (l_begins lay) i 0 in
    (is_recvar (h_dims oh) ov = false ->
       forall o, 0 <= o < len -> dk_get d2 (nb + o) = dk_get d0 (ob + o)) /\
    (is_recvar (h_dims oh) ov = true ->
       nb - l_begin_rec lay = ob - l_begin_rec ol /\
       forall r o, 0 <= r < numrecs -> 0 <= o < len ->
         (ob - l_begin_rec ol) + o < l_recsize ol ->
         dk_get d2 (nb + r * l_recsize lay + o) = dk_get d0 (ob + r * l_recsize ol + o)).
Proof.
  intros oh h ol lay hm vm ha ra d0 np unit_ numrecs Hwf Hhm Hvm Hha Hra Hra4 Hinv Hext Hbeg
         Hnp Hu Hnr Hwfh d2 i Hi ov len ob nb.
  destruct (new_header_fits oh h ol lay hm vm ha ra numrecs Hwf Hhm Hvm Hha Hra Hra4 Hinv Hext
              Hbeg Hwfh) as [E1 E2].
  pose proof (redef_preserves_data_sec oh h ol lay hm vm ha ra d0 np unit_ numrecs
                Hwf Hhm Hvm Hha Hra Hra4 Hinv Hext Hbeg Hnp Hu Hnr ltac:(lia) i Hi) as H.
  cbv beta zeta in H. rewrite (znth_vsof oh i Hi) in H. cbn [fst snd] in H. exact H.
Qed.

(** the same for the data movement alone (before the header write) *)
Theorem moved_disk_preserves_data : forall oh h ol lay hm vm ha ra d0 np unit_ numrecs,
  hdr_wf h -> 0 <= hm -> 0 <= vm -> 0 < ha -> 4 <= ra -> ra mod 4 = 0 ->
  lay_inv (t3of oh) ol -> hdr_extends oh h ->
  begins h hm vm ha ra (redef_old oh ol) (l_begin_rec ol) = Some lay ->
  np >= 1 -> unit_ >= 1 -> 0 <= numrecs ->
  let d1 := moved_disk d0 np unit_ numrecs oh h ol lay in
  forall i, 0 <= i < Zlen (h_vars oh) ->
    let ov := znth (h_vars oh) i dv in
    let len := var_len (h_dims oh) ov in
    let ob := znth (l_begins ol) i 0 in
    let nb := znth (l_begins lay) i 0 in
    (is_recvar (h_dims oh) ov = false ->
       forall o, 0 <= o < len -> dk_get d1 (nb + o) = dk_get d0 (ob + o)) /\
    (is_recvar (h_dims oh) ov = true ->
       nb - l_begin_rec lay = ob - l_begin_rec ol /\
       forall r o, 0 <= r < numrecs -> 0 <= o < len ->
         (ob - l_begin_rec ol) + o < l_recsize ol ->
         dk_get d1 (nb + r * l_recsize lay + o) = dk_get d0 (ob + r * l_recsize ol + o)).
Proof.
  intros oh h ol lay hm vm ha ra d0 np unit_ numrecs Hwf Hhm Hvm Hha Hra Hra4 Hinv Hext Hbeg
         Hnp Hu Hnr d1 i Hi ov len ob nb.
  pose proof (moved_disk_preserves oh h ol lay hm vm ha ra d0 np unit_ numrecs
                Hwf Hhm Hvm Hha Hra Hra4 Hinv Hext Hbeg Hnp Hu Hnr i Hi) as H.
  cbv beta zeta in H. rewrite (znth_vsof oh i Hi) in H. cbn [fst snd] in H. exact H.
Qed.

(** whole records: the old record r (all l_recsize ol bytes) is found in the new slot r *)
Theorem redef_preserves_records : forall oh h ol lay hm vm ha ra d0 np unit_ numrecs,
  hdr_wf h -> 0 <= hm -> 0 <= vm -> 0 < ha -> 4 <= ra -> ra mod 4 = 0 ->
  lay_inv (t3of oh) ol -> hdr_extends oh h ->
  begins h hm vm ha ra (redef_old oh ol) (l_begin_rec ol) = Some lay ->
  np >= 1 -> unit_ >= 1 -> 0 <= numrecs ->
  forall r x, 0 <= r < numrecs -> 0 <= x < l_recsize ol ->
    dk_get (moved_disk d0 np unit_ numrecs oh h ol lay) (l_begin_rec lay + r * l_recsize lay + x)
    = dk_get d0 (l_begin_rec ol + r * l_recsize ol + x).
Proof.
  intros oh h ol lay hm vm ha ra d0 np unit_ numrecs Hwf Hhm Hvm Hha Hra Hra4 Hinv Hext Hbeg
         Hnp Hu Hnr.
  exact (proj2 (moved_disk_blocks oh h ol lay hm vm ha ra d0 np unit_ numrecs
                  Hwf Hhm Hvm Hha Hra Hra4 Hinv Hext Hbeg Hnp Hu Hnr)).
Qed.

(* ====================================================================== *)
(** * 4. Example: the redefinition of Proofs_Layout on a small disk        *)
(* ====================================================================== *)

(* the file after the first enddef and some writes: byte x holds (x * 7 + 3) mod 251 in the
   data area [512, 576 + 3*24), UNDEF elsewhere *)
Definition ex_d0 : disk :=
  mkdisk true 648 (fun x => if (512 <=? x) && (x <? 648) then (x * 7 + 3) mod 251 else UNDEF).

Example ex_wf_new_header : Proofs_Header.wf_hdr (new_header ex_h1 ex_l1 3) = true.
Proof. vm_compute. reflexivity. Qed.

(* all hypotheses of redef_preserves_data hold on the instance (3 processes, move unit 5) *)
Example ex_redef_preserves :=
  redef_preserves_data ex_oh ex_h1 ex_l0 ex_l1 0 0 512 64 ex_d0 3 5 3
    ex_hdr_wf1 ltac:(lia) ltac:(lia) ltac:(lia) ltac:(lia) eq_refl ex_lay_inv0 ex_extends1
    ex_begins1 ltac:(lia) ltac:(lia) ltac:(lia) ex_wf_new_header.

(* ... and, computed: fixed variables a (12 bytes at 512 -> 1024) and b (16 bytes at
   524 -> 1036); record variables r1 (12 bytes at 576 + 24 r -> 1088 + 28 r) and r2 (12 bytes
   at 588 + 24 r -> 1100 + 28 r), r = 0, 1, 2 *)
Example ex_redef_bytes :
  let d2 := enddef_disk ex_d0 3 5 3 ex_oh ex_h1 ex_l0 ex_l1 in
  dk_read d2 1024 12 = dk_read ex_d0 512 12 /\
  dk_read d2 1036 16 = dk_read ex_d0 524 16 /\
  forallb (fun r => list_eqb Z.eqb (dk_read d2 (1088 + 28 * r) 12) (dk_read ex_d0 (576 + 24 * r) 12)
                 && list_eqb Z.eqb (dk_read d2 (1100 + 28 * r) 12) (dk_read ex_d0 (588 + 24 * r) 12))
          [0; 1; 2] = true /\
  (* the header is the new one *)
  dk_read d2 0 924 = encode_header (new_header ex_h1 ex_l1 3).
Proof. vm_compute. repeat split; reflexivity. Qed.

(* second shape: header does not grow, only the record section moves (576 -> 640) *)
Example ex_redef_bytes2 :
  let d1 := moved_disk ex_d0 2 7 3 ex_oh ex_h2 ex_l0 ex_l2 in
  dk_read d1 512 28 = dk_read ex_d0 512 28 /\
  dk_read d1 640 72 = dk_read ex_d0 576 72.
Proof. vm_compute. split; reflexivity. Qed.

Print Assumptions moved_disk_blocks.
Print Assumptions moved_disk_preserves_data.
Print Assumptions redef_preserves_data.
Print Assumptions redef_preserves_records.
Print Assumptions triggers_complete.
Print Assumptions rec_slot_inside.
Print Assumptions new_header_fits.
