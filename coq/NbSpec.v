(* NbSpec.v — DEFINITIONS (no proofs) used to state the C02 theorems about Nonblocking.v:
   byte-pair semantics of segments / MPI type maps, well-formed requests, the queue invariant,
   sorter hypotheses, histories of operations.  Shared by Proofs_NbSegs.v, Proofs_NbQueue.v,
   Proofs_Nonblocking.v. *)
From Pnc Require Export Nonblocking Proofs_Access.
Require Export Coq.Sorting.Permutation Coq.Sorting.Sorted.
Local Open Scope Z_scope.

(* ---------- byte pairs (file position, memory address) ---------- *)
Definition seg_pairs (s : seg) : list (Z * Z) := zip (zrange (s_off s) (s_len s)) (zrange (s_addr s) (s_len s)).
Definition segs_pairs (l : list seg) : list (Z * Z) := flat_map seg_pairs l.
Definition blocks_bytes (b : blocks) : list Z := flat_map expand b.
(* what one MPI_File_write / read with these two type maps moves *)
Definition io_pairs (t : iotypes) : list (Z * Z) := zip (blocks_bytes (io_f t)) (blocks_bytes (io_b t)).

(* the request of a non-lead entry per SPEC: element k of the row-major enumeration of
   (start,count,stride) <-> buffer bytes [xaddr + k*xsz, +xsz) *)
Definition areq_pairs (a : areq) : list (Z * Z) :=
  part_pairs (l_geom (a_lead a)) (r_start (a_req a), r_count (a_req a), req_stride (a_lead a) (a_req a))
             (r_xaddr (a_req a)).

(* a non-lead request as the posting code produces it from an accepted request *)
Definition areq_wf (a : areq) : Prop :=
  let l := a_lead a in let r := a_req a in let g := l_geom l in
  wf_geom g /\ rec_fits g /\
  req_ok (g_shape g) (r_start r) (r_count r) (req_stride l r) /\
  r_nelems r = zprod (r_count r) /\ 0 < r_nelems r /\
  (g_isrec g = true -> hd 0 (r_count r) = 1) /\
  (match l_stride l with Some t => length t = length (g_shape g) | None => True end).

(* qsort: any function returning a sorted permutation *)
Definition sorter_ok {A} (key : A -> Z) (f : list A -> list A) : Prop :=
  forall l, Permutation (f l) l /\ StronglySorted (fun a b => key a <= key b) (f l).

(* the aggregation for an ARBITRARY partition into typed groups *)
Definition types_of_groups (sort_segs : list seg -> list seg) (gs : list (bool * list areq)) : iotypes :=
  let ts := map (group_types sort_segs) gs in mkio (flat_map io_f ts) (flat_map io_b ts).

(* ---------- the queue invariant ---------- *)
Definition lead_reqs (reqs : list req) (l : lead) : list req := slice reqs (l_nonlead_off l) (l_nonlead_num l).

(* nonlead_off / nonlead_num partition the non-lead queue in lead order, and every non-lead entry
   points back to its lead (i = index of the lead) *)
Fixpoint slices_ok (leads : list lead) (reqs : list req) (k i : Z) : Prop :=
  match leads with
  | [] => k = Zlen reqs
  | l :: r => l_nonlead_off l = k /\ 0 < l_nonlead_num l /\ k + l_nonlead_num l <= Zlen reqs /\
              Forall (fun q => r_lead_off q = i) (slice reqs k (l_nonlead_num l)) /\
              slices_ok r reqs (k + l_nonlead_num l) (i + 1)
  end.

Definition lead_wf (isput : bool) (reqs : list req) (l : lead) : Prop :=
  Z.even (l_id l) = isput /\ 0 <= l_id l /\
  Forall (fun q => areq_wf (mkareq q l 0 0)) (lead_reqs reqs l) /\
  (* the non-lead entries of a lead address exactly what the caller posted (record splitting,
     varn splitting, dropped empty parts) *)
  flat_map (fun q => areq_pairs (mkareq q l 0 0)) (lead_reqs reqs l) = lead_pairs l.

Definition queue_inv (isput : bool) (maxid : Z) (leads : list lead) (reqs : list req) : Prop :=
  NoDup (map l_id leads) /\ Forall (fun l => l_id l <= maxid) leads /\
  slices_ok leads reqs 0 0 /\ Forall (lead_wf isput reqs) leads /\
  Forall (fun l => l_to_free l = false) leads.

Definition nb_inv (st : nbstate) : Prop :=
  queue_inv true (maxPutID st) (put_lead st) (put_reqs st) /\
  queue_inv false (maxGetID st) (get_lead st) (get_reqs st).

(* an accepted (start,count,stride) request on a well-formed variable *)
Definition post_ok (g : geom) (start count : list Z) (stride : option (list Z)) : Prop :=
  wf_geom g /\ rec_fits g /\
  req_ok (g_shape g) start count (match stride with Some t => t | None => ones_like count end).
Definition postn_ok (g : geom) (parts : list (list Z * option (list Z))) : Prop :=
  wf_geom g /\ rec_fits g /\ g_shape g <> [] /\
  Forall (fun p => req_ok (g_shape g) (fst p) (part_count (fst p) (snd p)) (ones_like (fst p))) parts.

(* histories of one process (the file is threaded through); fx = variant of extract_reqs, see Nonblocking.v *)
Inductive nbop :=
| NPostM (k : nkind) (g : geom) (start count : list Z) (stride : option (list Z)) (xaddr : Z) (data : list byte) (sw : bool) (tag : Z)
| NPostN (k : nkind) (g : geom) (parts : list (list Z * option (list Z))) (xaddr : Z) (data : list byte) (sw : bool) (tag : Z)
| NWait (a : waitargs)
| NCancel (n : Z) (ids : list Z) (stat0 : list Z).

Definition nbop_ok (o : nbop) : Prop :=
  match o with
  | NPostM _ g s c t _ _ _ _ => post_ok g s c t
  | NPostN _ g parts _ _ _ _ => postn_ok g parts
  | _ => True
  end.

Definition nb_step (sr : list areq -> list areq) (ss : list seg -> list seg) (fx : bool) (sf : nbstate * disk) (o : nbop) : nbstate * disk :=
  let '(st, f) := sf in
  match o with
  | NPostM k g s c t xa d sw tag => (fst (fst (post_varm st k g s c t xa d sw tag)), f)
  | NPostN k g ps xa d sw tag => (fst (fst (post_varn st k g ps xa d sw tag)), f)
  | NWait a => let '(r, f') := wait_one sr ss fx st a f in (wr_st r, f')
  | NCancel n ids s0 => (wr_st (cancel st n ids s0), f)
  end.
Definition nb_run (sr : list areq -> list areq) (ss : list seg -> list seg) (fx : bool) (sf : nbstate * disk) (ops : list nbop) : nbstate * disk :=
  fold_left (nb_step sr ss fx) ops sf.

(* the leads a wait flags (= completes) *)
Definition flagged (leads : list lead) : list lead := filter l_to_free leads.
