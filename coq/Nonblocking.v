(* Nonblocking.v — MODEL (executable, no proofs) of the nonblocking request machinery, property C02.
   Mirrors
     src/drivers/ncmpio/ncmpio_i_getput.m4  ncmpio_igetput_varm, ncmpio_add_record_requests
     src/drivers/ncmpio/ncmpio_i_varn.m4    igetput_varn
     src/drivers/ncmpio/ncmpio_wait.c       extract_reqs, req_commit, wait_getput, calculate_access_range,
                                            req_aggregation, construct_filetypes, construct_buffertypes,
                                            mgetput, vars_flatten, merge_requests, type_create_off_len,
                                            ncmpio_cancel, ncmpio_wait
     src/drivers/ncmpio/ncmpio_close.c      cancellation of pending requests at close
     src/drivers/ncmpio/ncmpio_file_misc.c  inq_nreqs
   The attached buffer pool is Abuf.v.

   State of one process: the two-level queues {put_lead, get_lead : list lead; put_reqs, get_reqs :
   list req}, maxPutID / maxGetID, the pool, numrecs, and a byte-addressed memory holding the I/O
   buffers (xbuf) of the pending requests.  The file is a Disk.disk shared by the processes.

   Honest list of simplifications
   * numLeadPutReqs/numPutReqs/... are the list lengths.  (After a wait that FAILED with
     NC_EINVAL_REQUEST the C counters and array contents can disagree - see FINDINGS in the report;
     the model follows the array contents and is not continued past such a state except by cancel.)
   * request geometry: lead_req->varp is the Access.geom of the variable; start/count arrays are
     lists; `lead_req->start` ownership / NCI_Free are not modelled.
   * calculate_access_range is written with Access.elem_off (offset of the first and of the last
     addressed element + xsz): the same arithmetic, dsizes[i+1] being the product of the trailing shape.
   * the per-request file type (ncmpio_filetype_create_vars) is Access.model_offsets (proved equal to
     the row-major spec in Proofs_Access); vars_flatten (the second, independent flattening code used
     for interleaved groups) is modelled by the same recursion (Access.stride_flatten) applied to the
     record-stripped geometry, exactly as the C loop nest computes it.
   * MPI derived datatypes are their type maps: a file type is a list of (offset,len) blocks, a buffer
     type a list of (address,len) blocks; MPI_File_write/read moves the k-th byte of the buffer type
     map to/from the k-th byte of the file type map (ONE write/read per wait and kind).  File views of
     different processes are applied one process after the other (collective buffering not modelled;
     concurrent overlapping writes of different processes are outside the property).
   * error paths that need an MPI failure, NC_EINTOVERFLOW (sizes > 2^31) or a filetype construction
     error (flag NC_REQ_SKIP) are not modelled; intra-node aggregation and the burst buffer driver are off
     (as built).  So the only request-level errors are NC_EINVAL_REQUEST and what unpack reports (a
     parameter of the interpreter).
   * qsort is a PARAMETER (Section variables sort_reqs / sort_segs); the theorems hold for every
     function returning a sorted permutation, the interpreter uses a stable insertion sort.
   * buffer addresses: the caller gives the address of each xbuf (any non-overlapping assignment);
     slices of the attached pool live at ABUF_BASE + offset, so consecutive bputs are contiguous in
     memory exactly as in the library. *)
From Pnc Require Export Access Disk Abuf.
Local Open Scope Z_scope.

(* ====================================================================== *)
(* 1. State                                                                *)
(* ====================================================================== *)
Record lead := mklead {
  l_id : Z;
  l_geom : geom;                       (* varp *)
  l_stride : option (list Z);          (* None <-> NC_REQ_STRIDE_NULL *)
  l_nonlead_off : Z;
  l_nonlead_num : Z;
  l_max_rec : Z;
  l_to_free : bool;                    (* NC_REQ_TO_FREE *)
  l_swapbuf : bool;                    (* put: NC_REQ_BUF_BYTE_SWAP = caller's buffer is swapped in place *)
  l_abuf_index : Z;                    (* -1 unless posted by bput *)
  l_xaddr : Z;                         (* xbuf *)
  l_nelems : Z;
  l_status : option Z;                 (* Some i <-> status pointer = statuses + i of the wait that flagged it *)
  l_tag : Z;                           (* model only: the caller's name (slot) of the request *)
  l_orig : list (list Z * list Z * list Z)  (* model only (ghost): the request as posted, (start,count,stride) parts *)
}.
Record req := mkreq { r_lead_off : Z; r_start : list Z; r_count : list Z; r_nelems : Z; r_xaddr : Z }.

Record nbstate := mkst {
  put_lead : list lead; get_lead : list lead;
  put_reqs : list req;  get_reqs : list req;
  maxPutID : Z; maxGetID : Z;
  st_abuf : option abuf;
  st_numrecs : Z;
  st_mem : disk
}.
Definition init_state : nbstate := mkst [] [] [] [] 0 0 None 0 empty_disk.

Definition dummy_geom : geom := mkgeom 0 1 [] 0 0.
Definition dummy_lead : lead := mklead NC_REQ_NULL dummy_geom None 0 0 (-1) false false (-1) 0 0 None (-1) [].
Definition dummy_req : req := mkreq 0 [] [] 0 0.

Definition ABUF_BASE : Z := 1099511627776.   (* 2^40: address of the attached pool *)

(* setters *)
Definition set_put (st : nbstate) (pl : list lead) (pr : list req) : nbstate :=
  mkst pl (get_lead st) pr (get_reqs st) (maxPutID st) (maxGetID st) (st_abuf st) (st_numrecs st) (st_mem st).
Definition set_get (st : nbstate) (gl : list lead) (gr : list req) : nbstate :=
  mkst (put_lead st) gl (put_reqs st) gr (maxPutID st) (maxGetID st) (st_abuf st) (st_numrecs st) (st_mem st).
Definition set_abuf (st : nbstate) (a : option abuf) : nbstate :=
  mkst (put_lead st) (get_lead st) (put_reqs st) (get_reqs st) (maxPutID st) (maxGetID st) a (st_numrecs st) (st_mem st).
Definition set_numrecs (st : nbstate) (n : Z) : nbstate :=
  mkst (put_lead st) (get_lead st) (put_reqs st) (get_reqs st) (maxPutID st) (maxGetID st) (st_abuf st) n (st_mem st).
Definition set_mem (st : nbstate) (m : disk) : nbstate :=
  mkst (put_lead st) (get_lead st) (put_reqs st) (get_reqs st) (maxPutID st) (maxGetID st) (st_abuf st) (st_numrecs st) m.
Definition set_maxids (st : nbstate) (p g : Z) : nbstate :=
  mkst (put_lead st) (get_lead st) (put_reqs st) (get_reqs st) p g (st_abuf st) (st_numrecs st) (st_mem st).

Definition l_set_flag (l : lead) (tf : bool) (stt : option Z) : lead :=
  mklead (l_id l) (l_geom l) (l_stride l) (l_nonlead_off l) (l_nonlead_num l) (l_max_rec l) tf (l_swapbuf l)
         (l_abuf_index l) (l_xaddr l) (l_nelems l) stt (l_tag l) (l_orig l).
Definition l_set_off (l : lead) (off : Z) : lead :=
  mklead (l_id l) (l_geom l) (l_stride l) off (l_nonlead_num l) (l_max_rec l) (l_to_free l) (l_swapbuf l)
         (l_abuf_index l) (l_xaddr l) (l_nelems l) (l_status l) (l_tag l) (l_orig l).
Definition r_set_lead (r : req) (j : Z) : req := mkreq j (r_start r) (r_count r) (r_nelems r) (r_xaddr r).

Definition nreqs (st : nbstate) : Z := Zlen (put_lead st) + Zlen (get_lead st).   (* inq_nreqs *)

(* the slice of the non-lead queue that belongs to a lead request *)
Definition slice {A} (l : list A) (off num : Z) : list A := zfirstn num (zskipn off l).

(* ====================================================================== *)
(* 2. Posting                                                              *)
(* ====================================================================== *)
(* the backward scan `for (i=n-1; i>=0; i--) { if (lead[i].varp->begin <= key) break; shift }`
   on the reversed queue; returns (kept, shifted), both in queue order *)
Fixpoint split_last_le (rl : list lead) (key : Z) (shifted : list lead) : list lead * list lead :=
  match rl with
  | [] => ([], shifted)
  | l :: r => if g_begin (l_geom l) <=? key then (rev rl, shifted)
              else split_last_le r key (l :: shifted)
  end.

(* insert a new lead (with its non-lead requests, built for the lead index they will get)
   sorted = true: keep the queue ordered by variable begin (put side; varn on the get side)
   returns (leads, reqs) *)
Definition enqueue (sorted : bool) (key : Z) (leads : list lead) (reqs : list req)
           (mk_lead : Z (*nonlead_off*) -> lead) (mk_reqs : Z (*lead_off*) -> list req) (new_nreqs : Z)
  : list lead * list req :=
  let '(kept, shifted) := if sorted then split_last_le (rev leads) key [] else (leads, []) in
  let lead_off := Zlen kept in
  match shifted with
  | [] => (kept ++ [mk_lead (Zlen reqs)], reqs ++ mk_reqs lead_off)
  | s0 :: _ =>
      let off := l_nonlead_off s0 in
      (kept ++ [mk_lead off] ++ map (fun l => l_set_off l (l_nonlead_off l + new_nreqs)) shifted,
       zfirstn off reqs ++ mk_reqs lead_off ++ map (fun r => r_set_lead r (r_lead_off r + 1)) (zskipn off reqs))
  end.

(* id assignment: even for put, odd for get; restarts when the queue is empty *)
Definition next_id (nlead maxid first : Z) : Z := if nlead =? 0 then first else maxid + 2.

(* ncmpio_add_record_requests: one non-lead request per record *)
Definition rec_split (lead_off : Z) (start count : list Z) (stride0 nrec nel_per xaddr xsz : Z) : list req :=
  map (fun i => mkreq lead_off ((hd 0 start + i * stride0) :: tl start) (1 :: tl count) nel_per
                      (xaddr + i * (nel_per * xsz)))
      (zrange 0 nrec).

Inductive nkind := KIput | KIget | KBput.
Definition k_isput (k : nkind) : bool := match k with KIget => false | _ => true end.

(* bput: the pool test and allocation shared by igetput_varm and igetput_varn.
   returns (rc, pool, abuf_index, xbuf address) *)
Definition bput_alloc (st : nbstate) (k : nkind) (nbytes xaddr : Z) : Z * option abuf * Z * Z :=
  match k with
  | KBput =>
      match st_abuf st with
      | None => (NC_ENULLABUF, None, -1, xaddr)
      | Some a => if abuf_insufficient a nbytes then (NC_EINSUFFBUF, Some a, -1, xaddr)
                  else let '(a', idx, off) := abuf_malloc a nbytes in (NC_NOERR, Some a', idx, ABUF_BASE + off)
      end
  | _ => (NC_NOERR, st_abuf st, -1, xaddr)
  end.

Definition stride_eff (stride : option (list Z)) : option (list Z) :=
  match stride with
  | None => None
  | Some t => if forallb (fun x => x <=? 1) t then None else Some t
  end.

Definition ones_like (l : list Z) : list Z := map (fun _ => 1) l.
(* the I/O buffer of a read request holds nothing defined when the request is posted *)
Definition undef_bytes (n : Z) : list byte := map (fun _ => UNDEF) (zrange 0 n).

(* ncmpio_igetput_varm.  data = content of xbuf (puts); swapbuf = need_swap_back_buf (Abuf.put_swaps_user_buf)
   returns (state, request id, rc) *)
Definition post_varm (st : nbstate) (k : nkind) (g : geom) (start count : list Z) (stride : option (list Z))
           (xaddr0 : Z) (data : list byte) (swapbuf : bool) (tag : Z) : nbstate * Z * Z :=
  match (match k with KBput => match st_abuf st with None => true | _ => false end | _ => false end) with
  | true => (st, NC_REQ_NULL, NC_ENULLABUF)          (* ncmpio_bput_var / dispatcher *)
  | false =>
  let xsz := g_xsz g in
  let nelems := zprod count in
  let nbytes := nelems * xsz in
  if nbytes =? 0 then (st, NC_REQ_NULL, NC_NOERR)
  else
    let '(rc, ab, aidx, xaddr) := bput_alloc st k nbytes xaddr0 in
    if negb (rc =? NC_NOERR) then (st, NC_REQ_NULL, rc)
    else
      let isput := k_isput k in
      let isrec := g_isrec g in
      let se := stride_eff stride in
      let count0 := hd 1 count in
      let new_nreqs := if isrec then count0 else 1 in
      let stride0 := match se with Some t => hd 1 t | None => 1 end in
      let max_rec := if isrec then
                       match se with
                       | None => hd 0 start + count0
                       | Some _ => hd 0 start + stride0 * (count0 - 1) + 1
                       end
                     else -1 in
      let mk_reqs := fun lead_off =>
                       if isrec then rec_split lead_off start count stride0 count0 (nelems / count0) xaddr xsz
                       else [mkreq lead_off start count nelems xaddr] in
      let orig := [(start, count, match stride with Some t => t | None => ones_like count end)] in
      if isput then
        let id := next_id (Zlen (put_lead st)) (maxPutID st) 0 in
        let key := g_begin g + (if isrec then g_recsize g * hd 0 start else 0) in
        let mk_lead := fun off => mklead id g se off new_nreqs max_rec false swapbuf aidx xaddr nelems None tag orig in
        let '(pl, pr) := enqueue true key (put_lead st) (put_reqs st) mk_lead mk_reqs new_nreqs in
        (mkst pl (get_lead st) pr (get_reqs st) id (maxGetID st) ab (st_numrecs st)
              (dk_write (st_mem st) xaddr data), id, NC_NOERR)
      else
        let id := next_id (Zlen (get_lead st)) (maxGetID st) 1 in
        let mk_lead := fun off => mklead id g se off new_nreqs max_rec false false (-1) xaddr nelems None tag orig in
        let '(gl, gr) := enqueue false 0 (get_lead st) (get_reqs st) mk_lead mk_reqs new_nreqs in
        (mkst (put_lead st) gl (put_reqs st) gr (maxPutID st) id ab (st_numrecs st)
              (dk_write (st_mem st) xaddr (undef_bytes nbytes)), id, NC_NOERR)
  end.

(* igetput_varn.  parts = (starts[i], counts[i]) ; counts[i] = None <-> NULL (all ones) *)
Definition part_count (start : list Z) (c : option (list Z)) : list Z :=
  match c with Some c' => c' | None => ones_like start end.

Fixpoint varn_reqs (isrec : bool) (lead_off xsz : Z) (parts : list (list Z * option (list Z))) (xaddr : Z) : list req :=
  match parts with
  | [] => []
  | (s, c) :: r =>
      let cnt := part_count s c in
      let ne := zprod cnt in
      if ne =? 0 then varn_reqs isrec lead_off xsz r xaddr
      else
        (if isrec then rec_split lead_off s cnt 1 (hd 1 cnt) (ne / hd 1 cnt) xaddr xsz
         else [mkreq lead_off s cnt ne xaddr])
        ++ varn_reqs isrec lead_off xsz r (xaddr + ne * xsz)
  end.

Definition post_varn (st : nbstate) (k : nkind) (g : geom) (parts : list (list Z * option (list Z)))
           (xaddr0 : Z) (data : list byte) (swapbuf : bool) (tag : Z) : nbstate * Z * Z :=
  match (match k with KBput => match st_abuf st with None => true | _ => false end | _ => false end) with
  | true => (st, NC_REQ_NULL, NC_ENULLABUF)
  | false =>
  let xsz := g_xsz g in
  let isrec := g_isrec g in
  let nz := filter (fun p => negb (zprod (part_count (fst p) (snd p)) =? 0)) parts in
  let nelems := zsum (map (fun p => zprod (part_count (fst p) (snd p))) nz) in
  let new_nreqs := zsum (map (fun p => if isrec then hd 1 (part_count (fst p) (snd p)) else 1) nz) in
  let nbytes := nelems * xsz in
  if nbytes =? 0 then (st, NC_REQ_NULL, NC_NOERR)
  else
    let '(rc, ab, aidx, xaddr) := bput_alloc st k nbytes xaddr0 in
    if negb (rc =? NC_NOERR) then (st, NC_REQ_NULL, rc)
    else
      let isput := k_isput k in
      let max_rec := if isrec then
                       fold_left (fun m p => Z.max m (hd 0 (fst p) + hd 1 (part_count (fst p) (snd p)))) nz (-1)
                     else -1 in
      let mk_reqs := fun lead_off => varn_reqs isrec lead_off xsz parts xaddr in
      let orig := map (fun p => (fst p, part_count (fst p) (snd p), ones_like (fst p))) nz in
      let start00 := match parts with (s, _) :: _ => hd 0 s | [] => 0 end in
      if isput then
        let id := next_id (Zlen (put_lead st)) (maxPutID st) 0 in
        let key := g_begin g + (if isrec then g_recsize g * start00 else 0) in
        let mk_lead := fun off => mklead id g None off new_nreqs max_rec false swapbuf aidx xaddr nelems None tag orig in
        let '(pl, pr) := enqueue true key (put_lead st) (put_reqs st) mk_lead mk_reqs new_nreqs in
        (mkst pl (get_lead st) pr (get_reqs st) id (maxGetID st) ab (st_numrecs st)
              (dk_write (st_mem st) xaddr data), id, NC_NOERR)
      else
        let id := next_id (Zlen (get_lead st)) (maxGetID st) 1 in
        let mk_lead := fun off => mklead id g None off new_nreqs max_rec false false (-1) xaddr nelems None tag orig in
        let '(gl, gr) := enqueue true (g_begin g) (get_lead st) (get_reqs st) mk_lead mk_reqs new_nreqs in
        (mkst (put_lead st) gl (put_reqs st) gr (maxPutID st) id ab (st_numrecs st)
              (dk_write (st_mem st) xaddr (undef_bytes nbytes)), id, NC_NOERR)
  end.

(* ====================================================================== *)
(* 3. extract_reqs                                                          *)
(* ====================================================================== *)
Record extracted := mkex {
  ex_st : nbstate;              (* flags / status pointers set, non-lead queues coalesced *)
  ex_ids : list Z;              (* req_ids[] after the call *)
  ex_stat : list Z;             (* statuses[] after the call *)
  ex_put : list req; ex_get : list req;
  ex_nwl : Z; ex_nrl : Z;       (* num_w_lead_reqs, num_r_lead_reqs *)
  ex_err : Z
}.

Definition flag_all (leads : list lead) : list lead := map (fun l => l_set_flag l true (l_status l)) leads.
(* the "same as ALL" shortcuts bind status pointers in QUEUE order: lead i <- statuses + i *)
Fixpoint flag_all_status (leads : list lead) (i : Z) : list lead :=
  match leads with
  | [] => []
  | l :: r => l_set_flag l true (Some i) :: flag_all_status r (i + 1)
  end.

(* first j with  not TO_FREE  and  id = x  : flag it, bind its status *)
Fixpoint flag_first (leads : list lead) (x : Z) (stt : option Z) : option (list lead * Z (*nonlead_num*)) :=
  match leads with
  | [] => None
  | l :: r =>
      if negb (l_to_free l) && (l_id l =? x) then Some (l_set_flag l true stt :: r, l_nonlead_num l)
      else match flag_first r x stt with
           | Some (r', n) => Some (l :: r', n)
           | None => None
           end
  end.

(* first j with TO_FREE and id = x : its slice of the non-lead queue *)
Fixpoint find_flagged (leads : list lead) (x : Z) : option lead :=
  match leads with
  | [] => None
  | l :: r => if l_to_free l && (l_id l =? x) then Some l else find_flagged r x
  end.

(* first loop of the subset path *)
Fixpoint ex_mark (ids : list Z) (i : Z) (has_stat : bool) (pl gl : list lead) (stat : list Z)
         (nwl nwr nrl nrr : Z) (err : Z)
  : list lead * list lead * list Z * Z * Z * Z * Z * Z :=
  match ids with
  | [] => (pl, gl, stat, nwl, nwr, nrl, nrr, err)
  | x :: r =>
      if x =? NC_REQ_NULL then
        ex_mark r (i + 1) has_stat pl gl (if has_stat then zupd stat i NC_NOERR else stat) nwl nwr nrl nrr err
      else
        let stt := if has_stat then Some i else None in
        if Z.rem x 2 =? 0 then
          match flag_first pl x stt with
          | Some (pl', n) =>
              ex_mark r (i + 1) has_stat pl' gl (if has_stat then zupd stat i NC_NOERR else stat)
                      (nwl + 1) (nwr + n) nrl nrr err
          | None =>
              ex_mark r (i + 1) has_stat pl gl (if has_stat then zupd stat i NC_EINVAL_REQUEST else stat)
                      nwl nwr nrl nrr (if err =? NC_NOERR then NC_EINVAL_REQUEST else err)
          end
        else
          match flag_first gl x stt with
          | Some (gl', n) =>
              ex_mark r (i + 1) has_stat pl gl' (if has_stat then zupd stat i NC_NOERR else stat)
                      nwl nwr (nrl + 1) (nrr + n) err
          | None =>
              ex_mark r (i + 1) has_stat pl gl (if has_stat then zupd stat i NC_EINVAL_REQUEST else stat)
                      nwl nwr nrl nrr (if err =? NC_NOERR then NC_EINVAL_REQUEST else err)
          end
  end.

(* second loop: copy the slices in req_ids order, reset the ids *)
Fixpoint ex_copy (ids : list Z) (pl gl : list lead) (pr gr : list req) : list Z * list req * list req :=
  match ids with
  | [] => ([], [], [])
  | x :: r =>
      let '(ids', pe, ge) := ex_copy r pl gl pr gr in
      if x =? NC_REQ_NULL then (x :: ids', pe, ge)
      else if Z.rem x 2 =? 0 then
        match find_flagged pl x with
        | Some l => (NC_REQ_NULL :: ids', slice pr (l_nonlead_off l) (l_nonlead_num l) ++ pe, ge)
        | None => (x :: ids', pe, ge)
        end
      else
        match find_flagged gl x with
        | Some l => (NC_REQ_NULL :: ids', pe, slice gr (l_nonlead_off l) (l_nonlead_num l) ++ ge)
        | None => (x :: ids', pe, ge)
        end
  end.

(* coalesce the non-lead queue: keep the slices of the leads that are not flagged, in queue order,
   and give each kept lead its new nonlead_off (k) *)
Fixpoint coalesce_nonlead (leads : list lead) (reqs : list req) (k : Z) : list lead * list req :=
  match leads with
  | [] => ([], [])
  | l :: r =>
      if l_to_free l then
        let '(ls, rs) := coalesce_nonlead r reqs k in (l :: ls, rs)
      else
        let '(ls, rs) := coalesce_nonlead r reqs (k + l_nonlead_num l) in
        (l_set_off l k :: ls, slice reqs (l_nonlead_off l) (l_nonlead_num l) ++ rs)
  end.

Definition all_null (ids : list Z) : list Z := map (fun _ => NC_REQ_NULL) ids.
Fixpoint noerr_prefix (stat : list Z) (n : Z) : list Z :=
  match stat with
  | [] => []
  | s :: r => if n >? 0 then NC_NOERR :: noerr_prefix r (n - 1) else stat
  end.

(* req_ids[0..num_reqs) names the pending requests of the queue exactly in queue order (the loop
   `for (i=0; i<num_reqs && i<numLead; i++) if (req_ids[i] != lead[i].id) break;` ends with i == num_reqs;
   it is evaluated where num_reqs == numLead) *)
Definition ids_in_order (leads : list lead) (ids : list Z) (num_reqs : Z) : bool :=
  list_eqb Z.eqb (zfirstn num_reqs ids) (map l_id leads).
Definition unflag (l : lead) : lead := l_set_flag l false None.

(* TWO VARIANTS of extract_reqs, selected by fx (the check reads the variant from the sources as built):
   fx = false : ncmpio_wait.c as in the snapshot: the "same as ALL" shortcuts are taken whenever the NUMBER of
                ids fits (req_ids is not read), and the NC_EINVAL_REQUEST return leaves the marks set;
   fx = true  : with patches/F3_poison.diff: shortcuts 1 and 2 only when req_ids names the queue in order,
                shortcut 3 removed, the error return clears NC_REQ_TO_FREE and the status pointer of every lead *)
Definition extract_reqs (fx : bool) (st : nbstate) (num_reqs : Z) (ids : list Z) (has_stat : bool) (stat0 : list Z) : extracted :=
  let pl := put_lead st in let gl := get_lead st in
  let pr := put_reqs st in let gr := get_reqs st in
  if num_reqs <? 0 then
    (* NC_REQ_ALL / NC_PUT_REQ_ALL / NC_GET_REQ_ALL : req_ids and statuses are ignored *)
    let wp := (num_reqs =? NC_PUT_REQ_ALL) || (num_reqs =? NC_REQ_ALL) in
    let wg := (num_reqs =? NC_GET_REQ_ALL) || (num_reqs =? NC_REQ_ALL) in
    let st1 := if wp then set_put st (flag_all pl) [] else st in
    let st2 := if wg then set_get st1 (flag_all gl) [] else st1 in
    mkex st2 ids stat0 (if wp then pr else []) (if wg then gr else [])
         (if wp then Zlen pl else 0) (if wg then Zlen gl else 0) NC_NOERR
  else if (Zlen gr =? 0) && (num_reqs =? Zlen pl) && (negb fx || ids_in_order pl ids num_reqs) then
    (* "this is the same as NC_PUT_REQ_ALL" *)
    mkex (set_put st (if has_stat then flag_all_status pl 0 else flag_all pl) [])
         (all_null ids) (if has_stat then noerr_prefix stat0 (Zlen pl) else stat0)
         pr [] (Zlen pl) 0 NC_NOERR
  else if (Zlen pr =? 0) && (num_reqs =? Zlen gl) && (negb fx || ids_in_order gl ids num_reqs) then
    (* "this is the same as NC_GET_REQ_ALL" *)
    mkex (set_get st (if has_stat then flag_all_status gl 0 else flag_all gl) [])
         (all_null ids) (if has_stat then noerr_prefix stat0 (Zlen gl) else stat0)
         [] gr 0 (Zlen gl) NC_NOERR
  else if (num_reqs =? Zlen pl + Zlen gl) && negb has_stat && negb fx then
    (* "this is the same as NC_REQ_ALL" (only when statuses == NULL; removed by the patch) *)
    mkex (set_get (set_put st (flag_all pl) []) (flag_all gl) [])
         (all_null ids) stat0 pr gr (Zlen pl) (Zlen gl) NC_NOERR
  else
    (* the requests are a subset of the pending requests *)
    let '(pl1, gl1, stat1, nwl, nwr, nrl, nrr, err) := ex_mark ids 0 has_stat pl gl stat0 0 0 0 0 NC_NOERR in
    if negb (err =? NC_NOERR) then
      if fx then
        (* patched: nothing is completed by a failed call, the marks are removed *)
        mkex (set_get (set_put st (map unflag pl1) pr) (map unflag gl1) gr) ids stat1 [] [] 0 0 err
      else
        (* early return: the flags and status pointers set so far STAY *)
        mkex (set_get (set_put st pl1 pr) gl1 gr) ids stat1 [] [] nwl nrl err
    else
      let '(ids', pe, ge) := ex_copy ids pl1 gl1 pr gr in
      let '(pl2, pr2) := if nwr =? 0 then (pl1, pr) else coalesce_nonlead pl1 pr 0 in
      let '(gl2, gr2) := if nrr =? 0 then (gl1, gr) else coalesce_nonlead gl1 gr 0 in
      mkex (set_get (set_put st pl2 pr2) gl2 gr2) ids' stat1 pe ge nwl nrl NC_NOERR.

(* ====================================================================== *)
(* 4. wait_getput: access ranges, sorting, interleave detection            *)
(* ====================================================================== *)
(* a non-lead request annotated with its lead and its [offset_start, offset_end) *)
Record areq := mkareq { a_req : req; a_lead : lead; a_start : Z; a_end : Z }.

Definition req_stride (l : lead) (r : req) : list Z :=
  match l_stride l with Some t => t | None => ones_like (r_start r) end.

(* calculate_access_range *)
Definition access_range (l : lead) (r : req) : Z * Z :=
  let g := l_geom l in
  match g_shape g with
  | [] => (g_begin g, g_begin g + g_xsz g)
  | _ =>
    let t := req_stride l r in
    let last_idx := map (fun p => fst (fst p) + (snd (fst p) - 1) * snd p) (zip (zip (r_start r) (r_count r)) t) in
    (elem_off g (r_start r), elem_off g last_idx + g_xsz g)
  end.

Definition annotate (leads : list lead) (r : req) : areq :=
  let l := znth leads (r_lead_off r) dummy_lead in
  let '(s, e) := access_range l r in mkareq r l s e.

Fixpoint has_decreasing (l : list areq) : bool :=
  match l with
  | a :: ((b :: _) as r) => (a_start b <? a_start a) || has_decreasing r
  | _ => false
  end.
Fixpoint has_overlap_adjacent (l : list areq) : bool :=        (* start[i] < end[i-1] for some i *)
  match l with
  | a :: ((b :: _) as r) => (a_start b <? a_end a) || has_overlap_adjacent r
  | _ => false
  end.

(* ====================================================================== *)
(* 5. file types, buffer types, segments                                   *)
(* ====================================================================== *)
Definition seg := (Z * Z * Z)%type.            (* (file offset, length, buffer address) *)
Definition s_off (s : seg) : Z := fst (fst s).
Definition s_len (s : seg) : Z := snd (fst s).
Definition s_addr (s : seg) : Z := snd s.
Definition blocks := list (Z * Z).             (* a type map: (displacement, length) in bytes *)

(* merge block j into the previous one when it starts where the previous ends *)
Fixpoint coalesce (cur : Z * Z) (rest : blocks) : blocks :=
  match rest with
  | [] => [cur]
  | (o, l) :: r => if fst cur + snd cur =? o then coalesce (fst cur, snd cur + l) r
                   else cur :: coalesce (o, l) r
  end.
Definition coalesce_list (b : blocks) : blocks := match b with [] => [] | x :: r => coalesce x r end.

(* is_filetype_contig of ncmpio_filetype_create_vars *)
Definition ftype_contig (g : geom) (count : list Z) (stride : option (list Z)) : bool :=
  match g_shape g with
  | [] => true
  | _ =>
    (match stride with None => true | Some t => negb (is_true_vars count t) end)
    && is_contig (g_isrec g) (g_nrecvars g) (g_shape g) count
  end.

(* the file type of one non-lead request: (is contiguous, blocks) *)
Definition req_ftype (a : areq) : bool * blocks :=
  let l := a_lead a in let r := a_req a in let g := l_geom l in
  if ftype_contig g (r_count r) (l_stride l)
  then (true, [(first_offset g (r_start r), g_xsz g * r_nelems r)])
  else (false, map (fun o => (o, g_xsz g)) (model_offsets g (r_start r) (r_count r) (l_stride l))).

(* construct_filetypes: concatenate; consecutive CONTIGUOUS requests are coalesced when
   disps[j] - disps[last_contig] == blocklens[last_contig] *)
Fixpoint construct_filetypes (fts : list (bool * blocks)) (last : option (Z * Z)) : blocks :=
  match fts with
  | [] => match last with Some b => [b] | None => [] end
  | (true, [(o, l)]) :: r =>
      match last with
      | Some (lo, ll) => if o - lo =? ll then construct_filetypes r (Some (lo, ll + l))
                         else (lo, ll) :: construct_filetypes r (Some (o, l))
      | None => construct_filetypes r (Some (o, l))
      end
  | (_, bl) :: r =>
      (match last with Some b => [b] | None => [] end) ++ bl ++ construct_filetypes r None
  end.

Definition req_bblock (a : areq) : Z * Z := (r_xaddr (a_req a), r_nelems (a_req a) * g_xsz (l_geom (a_lead a))).

(* vars_flatten on the record-stripped request: segments of seg_len bytes in row-major order,
   buffer addresses consecutive *)
Definition vars_flatten (a : areq) : list seg :=
  let l := a_lead a in let r := a_req a in let g := l_geom l in
  let isrec := g_isrec g in
  let shape' := if isrec then tl (g_shape g) else g_shape g in
  let start' := if isrec then tl (r_start r) else r_start r in
  let count' := if isrec then tl (r_count r) else r_count r in
  let var_begin := g_begin g + (if isrec then hd 0 (r_start r) * g_recsize g else 0) in
  match shape' with
  | [] => [(var_begin, g_xsz g, r_xaddr r)]
  | _ =>
    let stride' := match l_stride l with
                   | Some t => if isrec then tl t else t
                   | None => ones_like start' end in
    let g' := mkgeom var_begin (g_xsz g) shape' 0 0 in
    let '(disps, seg_elems) := stride_flatten g' start' count' stride' in
    let seg_len := seg_elems * g_xsz g in
    map (fun p => (var_begin + snd p, seg_len, r_xaddr r + fst p * seg_len)) (zip (zrange 0 (Zlen disps)) disps)
  end.

Fixpoint offs_increasing (l : list seg) : bool :=
  match l with
  | a :: ((b :: _) as r) => negb (s_off a >? s_off b) && offs_increasing r
  | _ => true
  end.

(* the overlap resolution loop of merge_requests: requests with lower index win *)
Fixpoint merge_segs (cur : seg) (rest : list seg) : list seg :=
  match rest with
  | [] => [cur]
  | j :: r =>
      let '(oi, li, ai) := cur in let '(oj, lj, aj) := j in
      if oi + li >=? oj + lj then merge_segs cur r                       (* i covers j: skip j *)
      else
        let gap := oi + li - oj in
        if gap >=? 0 then
          if ai + li =? aj + gap then merge_segs (oi, li + (lj - gap), ai) r   (* buffers contiguous: extend i *)
          else cur :: merge_segs (oj + gap, lj - gap, aj + gap) r              (* trim the front of j *)
        else cur :: merge_segs j r
  end.

Section Sorting.
Variable sort_reqs : list areq -> list areq.     (* qsort(reqs, req_compare)  : by offset_start *)
Variable sort_segs : list seg -> list seg.       (* qsort(segs, off_compare)  : by off *)

Definition merge_requests (grp : list areq) : list seg :=
  let segs := flat_map vars_flatten grp in
  let segs' := if offs_increasing segs then segs else sort_segs segs in
  match segs' with [] => [] | s :: r => merge_segs s r end.

(* type_create_off_len: file side and buffer side are coalesced independently *)
Definition segs_fview (segs : list seg) : blocks := coalesce_list (map (fun s => (s_off s, s_len s)) segs).
Definition segs_bview (segs : list seg) : blocks := coalesce_list (map (fun s => (s_addr s, s_len s)) segs).

(* group partition of req_aggregation (second loop: group_index / group_type).
   state while scanning i = 1 .. n-2 : (gtype, max_end, boundaries so far (reversed, with types)) *)
Definition a_end_at (l : list areq) (i : Z) : Z := a_end (znth l i (mkareq dummy_req dummy_lead 0 0)).
Definition a_start_at (l : list areq) (i : Z) : Z := a_start (znth l i (mkareq dummy_req dummy_lead 0 0)).

Fixpoint group_scan (l : list areq) (n : Z) (is : list Z) (gtype : bool) (max_end : Z)
         (acc : list (Z * bool)) : list (Z * bool) :=
  match is with
  | [] => rev acc
  | i :: r =>
      if negb gtype && (a_end_at l i >? a_start_at l (i + 1)) then
        group_scan l n r true (Z.max (a_end_at l i) (a_end_at l (i + 1))) ((i, true) :: acc)
      else if gtype then
        if max_end <=? a_start_at l (i + 1) then
          let gt := (i + 2 <? n) && (a_end_at l (i + 1) >? a_start_at l (i + 2)) in
          group_scan l n r gt (a_end_at l (i + 1)) ((i + 1, gt) :: acc)
        else group_scan l n r gtype (Z.max max_end (a_end_at l (i + 1))) acc
      else group_scan l n r gtype max_end acc
  end.

(* (start index, type) of every group; the first group starts at 0 *)
Definition group_bounds (l : list areq) : list (Z * bool) :=
  let n := Zlen l in
  let g0 := a_end_at l 0 >? a_start_at l 1 in
  (0, g0) :: group_scan l n (zrange 1 (n - 2)) g0 (Z.max (a_end_at l 0) (a_end_at l 1)) [].

(* cut the list at the boundaries (robust: the pieces always concatenate to the list) *)
Fixpoint cut_groups (l : list areq) (pos : Z) (bounds : list (Z * bool)) (cur : bool) : list (bool * list areq) :=
  match bounds with
  | [] => [(cur, l)]
  | (b, t) :: r => (cur, zfirstn (b - pos) l) :: cut_groups (zskipn (b - pos) l) (Z.max pos b) r t
  end.
Definition partition_groups (l : list areq) : list (bool * list areq) :=
  match group_bounds l with
  | [] => [(false, l)]
  | (_, t0) :: r => cut_groups l 0 r t0
  end.

(* the result of the aggregation of one kind (put or get): ONE file type and ONE buffer type *)
Record iotypes := mkio { io_f : blocks; io_b : blocks }.

Definition group_types (g : bool * list areq) : iotypes :=
  if fst g then
    let segs := merge_requests (snd g) in mkio (segs_fview segs) (segs_bview segs)
  else
    (* construct_filetypes + construct_buffertypes (no coalescing of buffers here) *)
    mkio (construct_filetypes (map req_ftype (snd g)) None) (map req_bblock (snd g)).

(* mgetput: all requests sorted and not interleaved *)
Definition mgetput_types (l : list areq) : iotypes :=
  mkio (construct_filetypes (map req_ftype l) None) (coalesce_list (map req_bblock l)).

(* wait_getput up to the MPI call *)
Definition aggregate (leads : list lead) (reqs : list req) : iotypes :=
  match reqs with
  | [] => mkio [] []                                 (* ncmpio_getput_zero_req *)
  | _ =>
    let ar := map (annotate leads) reqs in
    let decreasing := has_decreasing ar in
    let maybe := decreasing || has_overlap_adjacent ar in
    let ar' := if decreasing then sort_reqs ar else ar in
    let interleaved := if maybe then has_overlap_adjacent ar' else false in
    if negb interleaved then mgetput_types ar'
    else
      let gs := map group_types (partition_groups ar') in
      mkio (flat_map io_f gs) (flat_map io_b gs)      (* MPI_Type_create_struct of the groups *)
  end.

(* ---------- the MPI-IO call ---------- *)
Fixpoint write_chunks (d : disk) (b : blocks) (stream : list byte) : disk :=
  match b with
  | [] => d
  | (o, l) :: r => write_chunks (dk_write d o (zfirstn l stream)) r (zskipn l stream)
  end.
Definition gather_blocks (d : disk) (b : blocks) : list byte := flat_map (fun p => dk_read d (fst p) (snd p)) b.
(* MPI_File_write: buffer type map -> file type map ; MPI_File_read: the other way *)
Definition mpi_write (file mem : disk) (t : iotypes) : disk := write_chunks file (io_f t) (gather_blocks mem (io_b t)).
Definition mpi_read (file mem : disk) (t : iotypes) : disk := write_chunks mem (io_b t) (gather_blocks file (io_f t)).

(* ====================================================================== *)
(* 6. req_commit                                                            *)
(* ====================================================================== *)
(* the newnumrecs loop of req_commit: every entry of the lead put queue that is flagged NC_REQ_TO_FREE and
   belongs to a record variable contributes its max_rec
   (`for (i=0; i<ncp->numLeadPutReqs; i++)` since fix 186ba92c; the earlier bound num_w_lead_reqs - the NUMBER
   of requests being completed - is kept as newnumrecs_loop_old in Proofs_Nonblocking.v, where it is refuted) *)
Definition newnumrecs_loop (st : nbstate) : Z :=
  fold_left (fun m l => if g_isrec (l_geom l) && l_to_free l then Z.max m (l_max_rec l) else m)
            (put_lead st) (st_numrecs st).

(* I/O phase of one process *)
Definition commit_io (st : nbstate) (pe ge : list req) (do_write do_read : bool) (newnumrecs : Z) (file : disk)
  : nbstate * disk :=
  let file1 := if do_write then mpi_write file (st_mem st) (aggregate (put_lead st) pe) else file in
  let st1 := if do_write && (st_numrecs st <? newnumrecs) then set_numrecs st newnumrecs else st in
  let st2 := if do_read then set_mem st1 (mpi_read file1 (st_mem st1) (aggregate (get_lead st1) ge)) else st1 in
  (st2, file1).

(* post-processing events *)
Inductive event :=
| EvSwapBack (tag : Z)             (* ncmpii_in_swapn on the caller's put buffer *)
| EvPutDone (tag : Z)              (* a put lead request left the queue *)
| EvGetDone (tag : Z) (xaddr nbytes : Z) (status_slot : option Z)   (* unpack xbuf -> caller's buffer *)
| EvGetCancelled (tag : Z).

(* compaction of a lead queue: drop the flagged leads, renumber lead_off of the kept slices *)
Definition set_lead_range (reqs : list req) (off num j : Z) : list req :=
  zfirstn off reqs ++ map (fun r => r_set_lead r j) (slice reqs off num) ++ zskipn (off + num) reqs.

Fixpoint compact_leads (leads : list lead) (reqs : list req) (i j : Z) : list lead * list req :=
  match leads with
  | [] => ([], reqs)
  | l :: r =>
      if l_to_free l then compact_leads r reqs (i + 1) j
      else
        let reqs' := if j <? i then set_lead_range reqs (l_nonlead_off l) (l_nonlead_num l) j else reqs in
        let '(ls, rs) := compact_leads r reqs' (i + 1) (j + 1) in (l :: ls, rs)
  end.

Definition release_flagged (ab : option abuf) (leads : list lead) : option abuf :=
  match ab with
  | None => None
  | Some a => Some (fold_left (fun a l => if l_to_free l && (0 <=? l_abuf_index l) then abuf_release a (l_abuf_index l) else a)
                              leads a)
  end.

Definition commit_post (st : nbstate) (nwl nrl : Z) : nbstate * list event :=
  let '(st1, ev1) :=
    if nwl >? 0 then
      let fl := filter l_to_free (put_lead st) in
      let ev := flat_map (fun l => (if l_swapbuf l then [EvSwapBack (l_tag l)] else []) ++ [EvPutDone (l_tag l)]) fl in
      let ab := release_flagged (st_abuf st) (put_lead st) in
      let '(pl, pr) := compact_leads (put_lead st) (put_reqs st) 0 0 in
      let pr' := match pl with [] => [] | _ => pr end in
      (set_abuf (set_put st pl pr') (match ab with Some a => Some (abuf_coalesce a) | None => None end), ev)
    else (st, []) in
  if nrl >? 0 then
    let fl := filter l_to_free (get_lead st1) in
    let ev := map (fun l => EvGetDone (l_tag l) (l_xaddr l) (l_nelems l * g_xsz (l_geom l)) (l_status l)) fl in
    let '(gl, gr) := compact_leads (get_lead st1) (get_reqs st1) 0 0 in
    let gr' := match gl with [] => [] | _ => gr end in
    (set_get st1 gl gr', ev1 ++ ev)
  else (st1, ev1).

(* the arguments of one process to ncmpi_wait / ncmpi_wait_all *)
Record waitargs := mkwa { wa_n : Z; wa_ids : list Z; wa_has_stat : bool; wa_stat0 : list Z }.
Record waitres := mkwr { wr_st : nbstate; wr_rc : Z; wr_ids : list Z; wr_stat : list Z; wr_ev : list event }.

(* independent wait (ncmpi_wait), also wait_all on one process *)
Definition wait_one (fx : bool) (st : nbstate) (a : waitargs) (file : disk) : waitres * disk :=
  let ex := extract_reqs fx st (wa_n a) (wa_ids a) (wa_has_stat a) (wa_stat0 a) in
  let st1 := ex_st ex in
  if negb (ex_err ex =? NC_NOERR) then (mkwr st1 (ex_err ex) (ex_ids ex) (ex_stat ex) [], file)
  else
    let nn := newnumrecs_loop st1 in
    let '(st2, file') := commit_io st1 (ex_put ex) (ex_get ex)
                                   (0 <? Zlen (ex_put ex)) (0 <? Zlen (ex_get ex)) nn file in
    let '(st3, ev) := commit_post st2 (ex_nwl ex) (ex_nrl ex) in
    (mkwr st3 NC_NOERR (ex_ids ex) (ex_stat ex) ev, file').

(* collective wait (ncmpi_wait_all) of all processes: extraction, MPI_Allreduce(MAX) of
   {#get, #put, -err, newnumrecs}, then I/O process after process, then post-processing *)
Definition wait_coll (fx : bool) (sts : list nbstate) (args : list waitargs) (file : disk) : list waitres * disk :=
  let exs := map (fun p => extract_reqs fx (fst p) (wa_n (snd p)) (wa_ids (snd p)) (wa_has_stat (snd p)) (wa_stat0 (snd p)))
                 (zip sts args) in
  let anyerr := existsb (fun ex => negb (ex_err ex =? NC_NOERR)) exs in
  if anyerr then
    (* every process returns its own err; nothing else happens *)
    (map (fun ex => mkwr (ex_st ex) (ex_err ex) (ex_ids ex) (ex_stat ex) []) exs, file)
  else
    let nn := fold_left Z.max (map (fun ex => newnumrecs_loop (ex_st ex)) exs) 0 in
    let do_write := existsb (fun ex => 0 <? Zlen (ex_put ex)) exs in
    let do_read := existsb (fun ex => 0 <? Zlen (ex_get ex)) exs in
    (* writes of all processes first, then reads (each process: write then read; the reads of a
       process see the writes of all: the collective write completes before the collective read) *)
    let file1 := fold_left (fun f ex => if do_write then mpi_write f (st_mem (ex_st ex)) (aggregate (put_lead (ex_st ex)) (ex_put ex)) else f)
                           exs file in
    let res := map (fun ex =>
                 let st1 := ex_st ex in
                 let st2 := if do_write && (st_numrecs st1 <? nn) then set_numrecs st1 nn else st1 in
                 let st3 := if do_read then set_mem st2 (mpi_read file1 (st_mem st2) (aggregate (get_lead st2) (ex_get ex))) else st2 in
                 let '(st4, ev) := commit_post st3 (ex_nwl ex) (ex_nrl ex) in
                 mkwr st4 NC_NOERR (ex_ids ex) (ex_stat ex) ev) exs in
    (res, file1).

End Sorting.

(* ====================================================================== *)
(* 7. ncmpio_cancel                                                         *)
(* ====================================================================== *)
Fixpoint remove_lead (leads : list lead) (x : Z) : option (list lead * lead) :=
  (* first lead with id = x (ids of freed entries are NC_REQ_NULL and never match a valid x);
     the leads after it get nonlead_off -= nonlead_num *)
  match leads with
  | [] => None
  | l :: r =>
      if negb (l_id l =? NC_REQ_NULL) && (l_id l =? x)
      then Some (map (fun l' => l_set_off l' (l_nonlead_off l' - l_nonlead_num l)) r, l)
      else match remove_lead r x with
           | Some (r', f) => Some (l :: r', f)
           | None => None
           end
  end.
Definition remove_slice (reqs : list req) (off num : Z) : list req :=
  zfirstn off reqs ++ map (fun r => r_set_lead r (r_lead_off r - 1)) (zskipn (off + num) reqs).

Fixpoint cancel_ids (st : nbstate) (ids : list Z) (i : Z) (stat : list Z) (rc : Z) (ev : list event)
  : nbstate * list Z * list Z * Z * list event :=
  match ids with
  | [] => (st, [], stat, rc, ev)
  | x :: r =>
      let stat1 := zupd stat i NC_NOERR in
      if x =? NC_REQ_NULL then
        let '(st', ids', stat', rc', ev') := cancel_ids st r (i + 1) stat1 rc ev in (st', x :: ids', stat', rc', ev')
      else if Z.land x 1 =? 1 then
        match remove_lead (get_lead st) x with
        | Some (gl, l) =>
            let st1 := set_get st gl (remove_slice (get_reqs st) (l_nonlead_off l) (l_nonlead_num l)) in
            let '(st', ids', stat', rc', ev') := cancel_ids st1 r (i + 1) stat1 rc (ev ++ [EvGetCancelled (l_tag l)]) in
            (st', NC_REQ_NULL :: ids', stat', rc', ev')
        | None =>
            let '(st', ids', stat', rc', ev') :=
              cancel_ids st r (i + 1) (zupd stat1 i NC_EINVAL_REQUEST) (if rc =? NC_NOERR then NC_EINVAL_REQUEST else rc) ev in
            (st', x :: ids', stat', rc', ev')
        end
      else
        match remove_lead (put_lead st) x with
        | Some (pl, l) =>
            let ab := match st_abuf st with
                      | Some a => if 0 <=? l_abuf_index l then Some (abuf_release a (l_abuf_index l)) else Some a
                      | None => None end in
            let st1 := set_abuf (set_put st pl (remove_slice (put_reqs st) (l_nonlead_off l) (l_nonlead_num l))) ab in
            let '(st', ids', stat', rc', ev') :=
              cancel_ids st1 r (i + 1) stat1 rc
                         (ev ++ (if l_swapbuf l then [EvSwapBack (l_tag l)] else []) ++ [EvPutDone (l_tag l)]) in
            (st', NC_REQ_NULL :: ids', stat', rc', ev')
        | None =>
            let '(st', ids', stat', rc', ev') :=
              cancel_ids st r (i + 1) (zupd stat1 i NC_EINVAL_REQUEST) (if rc =? NC_NOERR then NC_EINVAL_REQUEST else rc) ev in
            (st', x :: ids', stat', rc', ev')
        end
  end.

Definition cancel (st : nbstate) (num_req : Z) (ids : list Z) (stat0 : list Z) : waitres :=
  if num_req =? 0 then mkwr st NC_NOERR ids stat0 []
  else if num_req <? NC_PUT_REQ_ALL then mkwr st NC_EINVAL ids stat0 []
  else if num_req <? 0 then
    let cg := (num_req =? NC_GET_REQ_ALL) || (num_req =? NC_REQ_ALL) in
    let cp := (num_req =? NC_PUT_REQ_ALL) || (num_req =? NC_REQ_ALL) in
    let ev1 := if cg then map (fun l => EvGetCancelled (l_tag l)) (get_lead st) else [] in
    let st1 := if cg then set_get st [] [] else st in
    let ev2 := if cp then flat_map (fun l => (if l_swapbuf l then [EvSwapBack (l_tag l)] else []) ++ [EvPutDone (l_tag l)])
                                   (put_lead st) else [] in
    let st2 := if cp then set_abuf (set_put st1 [] [])
                                   (match st_abuf st1 with Some a => Some (abuf_reset a) | None => None end)
               else st1 in
    mkwr st2 NC_NOERR ids stat0 (ev1 ++ ev2)
  else
    let '(st1, ids', stat', rc, ev) := cancel_ids st ids 0 stat0 NC_NOERR [] in
    let st2 := set_abuf st1 (match st_abuf st1 with Some a => Some (abuf_coalesce a) | None => None end) in
    mkwr st2 rc ids' stat' ev.

(* ncmpio_buffer_detach *)
Definition detach (st : nbstate) : nbstate * Z :=
  match st_abuf st with
  | None => (st, NC_ENULLABUF)
  | Some _ => if existsb (fun l => 0 <=? l_abuf_index l) (put_lead st) then (st, NC_EPENDINGBPUT)
              else (set_abuf st None, NC_NOERR)
  end.
Definition attach (st : nbstate) (n : Z) : nbstate * Z :=
  let '(ab, rc) := abuf_attach (st_abuf st) n in (set_abuf st ab, rc).

(* pending requests at ncmpi_close: cancelled, the call reports NC_EPENDING *)
Definition close_pending (st : nbstate) : waitres :=
  let r1 := if 0 <? Zlen (get_lead st) then cancel st NC_GET_REQ_ALL [] [] else mkwr st NC_NOERR [] [] [] in
  let r2 := if 0 <? Zlen (put_lead (wr_st r1)) then cancel (wr_st r1) NC_PUT_REQ_ALL [] [] else mkwr (wr_st r1) NC_NOERR [] [] [] in
  mkwr (wr_st r2) (if (0 <? Zlen (get_lead st)) || (0 <? Zlen (put_lead st)) then NC_EPENDING else NC_NOERR)
       [] [] (wr_ev r1 ++ wr_ev r2).

(* ====================================================================== *)
(* 8. SPEC: blocking execution                                             *)
(* ====================================================================== *)
(* byte pairs (file position, buffer address) of one (start,count,stride) part whose canonical
   element stream starts at address a: element k of the row-major enumeration <-> a + k*xsz *)
Definition expand (b : Z * Z) : list Z := zrange (fst b) (snd b).
Definition part_pairs (g : geom) (p : list Z * list Z * list Z) (a : Z) : list (Z * Z) :=
  let '(start, count, stride) := p in
  flat_map (fun q => zip (zrange (snd q) (g_xsz g)) (zrange (a + fst q * g_xsz g) (g_xsz g)))
           (zip (zrange 0 (zprod count)) (spec_offsets g start count stride)).
Fixpoint parts_pairs (g : geom) (ps : list (list Z * list Z * list Z)) (a : Z) : list (Z * Z) :=
  match ps with
  | [] => []
  | p :: r => part_pairs g p a ++ parts_pairs g r (a + zprod (snd (fst p)) * g_xsz g)
  end.
(* the request behind a lead, as the caller posted it *)
Definition lead_pairs (l : lead) : list (Z * Z) := parts_pairs (l_geom l) (l_orig l) (l_xaddr l).

(* blocking put of the request: every addressed file byte receives the buffer byte *)
Definition write_pairs (file mem : disk) (ps : list (Z * Z)) : disk :=
  fold_left (fun f p => dk_write f (fst p) [dk_get mem (snd p)]) ps file.
Definition read_pairs (file mem : disk) (ps : list (Z * Z)) : disk :=
  fold_left (fun m p => dk_write m (snd p) [dk_get file (fst p)]) ps mem.
Definition blocking_put (file mem : disk) (l : lead) : disk := write_pairs file mem (lead_pairs l).
Definition blocking_get (file mem : disk) (l : lead) : disk := read_pairs file mem (lead_pairs l).

(* two disks agree on every byte *)
Definition disk_eq (a b : disk) : Prop := forall x, dk_get a x = dk_get b x.

(* ====================================================================== *)
(* 9. Concrete sorting (stable insertion sort) for running the model        *)
(* ====================================================================== *)
Fixpoint insert_by {A} (key : A -> Z) (x : A) (l : list A) : list A :=
  match l with
  | [] => [x]
  | y :: r => if key x <=? key y then x :: l else y :: insert_by key x r
  end.
Definition isort {A} (key : A -> Z) (l : list A) : list A := fold_right (insert_by key) [] l.
Definition isort_reqs := isort a_start.
Definition isort_segs := isort s_off.

Definition wait_one_x (fx : bool) := wait_one isort_reqs isort_segs fx.
Definition wait_coll_x (fx : bool) := wait_coll isort_reqs isort_segs fx.
