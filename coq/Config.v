(* Config.v — the run-time configuration of a PnetCDF file and the places where it acts.
   Model of:
     - combine_env_hints              (src/dispatchers/file.c, the non-strtok_r branch that is compiled)
     - ncmpio_set_pnetcdf_hints       (src/drivers/ncmpio/ncmpio_util.c)
     - PNETCDF_SAFE_MODE              (ncmpio_create.c / ncmpio_open.c / dispatchers/file.c)
     - alignment resolution + hints written back to the info object at ncmpio__enddef
       (Header.resolve_align / Header.begins are imported, not restated)
     - ncmpio_inq_misc (info part)    (src/drivers/ncmpio/ncmpio_file_misc.c)
     - the in-place byte-swap decision of put_varm (ncmpio_getput.m4) and the byte handling
       of both of its branches
     - the packing-buffer (nc_ibuf_size) branch of ncmpio_read_write (ncmpio_file_io.c)
   and the byte-level vocabulary shared with Aggregate.v (slices, buffer type maps, file views
   as sequences of byte positions).
   Executable definitions only; proofs are in Proofs_Config.v. *)
From Coq Require Import String Ascii.
From Pnc Require Export Access Disk.
Local Open Scope Z_scope.

(* ================================================================== *)
(* 1. C strings as byte lists                                          *)
(* ================================================================== *)
Fixpoint B (s : string) : list byte :=
  match s with
  | EmptyString => []
  | String c r => Z.of_nat (nat_of_ascii c) :: B r
  end.

Definition is_digit (b : byte) : bool := (48 <=? b) && (b <=? 57).
(* isspace in the C locale: space \t \n \v \f \r *)
Definition is_space (b : byte) : bool := (b =? 32) || ((9 <=? b) && (b <=? 13)).
Definition lower (b : byte) : byte := if (65 <=? b) && (b <=? 90) then b + 32 else b.
(* strcasecmp(a, b) == 0 *)
Definition caseeq (a b : list byte) : bool := bytes_eqb (map lower a) (map lower b).

Fixpoint skip_spaces (l : list byte) : list byte :=
  match l with
  | b :: r => if is_space b then skip_spaces r else l
  | [] => []
  end.

Fixpoint digits_val (l : list byte) (acc : Z) : Z :=
  match l with
  | b :: r => if is_digit b then digits_val r (acc * 10 + (b - 48)) else acc
  | [] => acc
  end.

(* strtoll(s, NULL, 10): Some v, or None when the value is out of range (errno = ERANGE).
   No digits: 0 with errno untouched. *)
Definition strtoll (s : list byte) : option Z :=
  let s1 := skip_spaces s in
  let '(neg, s2) := match s1 with
                    | 45 :: r => (true, r)
                    | 43 :: r => (false, r)
                    | _ => (false, s1)
                    end in
  let m := digits_val s2 0 in
  let v := if neg then - m else m in
  if (v <? - 9223372036854775808) || (v >? 9223372036854775807) then None else Some v.

(* atoi(s): (int)strtol(s, NULL, 10); values outside int are not produced by the generators
   (out of range is undefined behaviour in C); modelled as the truncation glibc performs *)
Definition atoi (s : list byte) : Z :=
  match strtoll s with
  | Some v => let w := v mod 4294967296 in if w >=? 2147483648 then w - 4294967296 else w
  | None => -1
  end.

(* sprintf("%lld") / ("%d") *)
Fixpoint dec_pos (fuel : nat) (n : Z) (acc : list byte) : list byte :=
  match fuel with
  | O => acc
  | S k => if n <? 10 then (48 + n) :: acc else dec_pos k (n / 10) ((48 + n mod 10) :: acc)
  end.
Definition dec (n : Z) : list byte :=
  if n <? 0 then 45 :: dec_pos 40 (- n) [] else dec_pos 40 n [].

(* ================================================================== *)
(* 2. MPI_Info objects                                                 *)
(* ================================================================== *)
Definition info := list (list byte * list byte).

Fixpoint info_get (k : list byte) (i : info) : option (list byte) :=
  match i with
  | [] => None
  | (k', v) :: r => if bytes_eqb k k' then Some v else info_get k r
  end.

Fixpoint info_del (k : list byte) (i : info) : info :=
  match i with
  | [] => []
  | (k', v) :: r => if bytes_eqb k k' then info_del k r else (k', v) :: info_del k r
  end.

(* MPI_Info_set: override or add *)
Definition info_set (k v : list byte) (i : info) : info := (k, v) :: info_del k i.

(* lookup in a possibly-NULL info object: MPI_Info_get(..., &flag) *)
Definition uget (ui : option info) (k : list byte) : option (list byte) :=
  match ui with None => None | Some i => info_get k i end.

(* ================================================================== *)
(* 3. combine_env_hints (PNETCDF_HINTS)                                *)
(* ================================================================== *)
(* split at every byte satisfying p, keeping empty pieces (strchr/terminate loop on ';') *)
Fixpoint split_at (p : byte -> bool) (l : list byte) (cur : list byte) : list (list byte) :=
  match l with
  | [] => [rev cur]
  | b :: r => if p b then rev cur :: split_at p r [] else split_at p r (b :: cur)
  end.

(* strtok tokens: maximal runs of non-delimiter bytes *)
Definition tokens (p : byte -> bool) (l : list byte) : list (list byte) :=
  filter (fun t => negb (match t with [] => true | _ => false end)) (split_at p l []).

Definition is_blank (b : byte) : bool := (b =? 32) || (b =? 9).
Definition is_eq_blank (b : byte) : bool := (b =? 61) || is_blank b.

(* split a token at its first '=' : None when it has none *)
Fixpoint cut_eq (l : list byte) (acc : list byte) : option (list byte * list byte) :=
  match l with
  | [] => None
  | b :: r => if b =? 61 then Some (rev acc, r) else cut_eq r (b :: acc)
  end.

Inductive env_item :=
| EnvSet (k v : list byte)       (* MPI_Info_set(new_info, key, val) *)
| EnvSkip.                       (* blank or ill-formed piece: skipped (with a warning) *)

(* one ';'-separated piece.  The first strtok(hint, " \t") terminates the piece after its first
   blank-delimited token, so everything after the first blank that follows the first token is
   invisible to the rest of the loop body ("a = b" is seen as "a" and reported ill-formed). *)
Definition env_piece (piece : list byte) : env_item :=
  match tokens is_blank piece with
  | [] => EnvSkip
  | t1 :: _ =>
      match cut_eq t1 [] with
      | None => EnvSkip
      | Some (lhs, rhs) =>
          match tokens is_eq_blank lhs with
          | [key] =>
              match tokens is_eq_blank rhs with
              | [val] => EnvSet key val
              | _ => EnvSkip        (* no value ("key=", "key= v") or more than one token *)
              end
          | _ => EnvSkip
          end
      end
  end.

(* the do-while loop ends when next_hint points at the terminating NUL: a trailing ';' does not
   start another round *)
Definition env_pieces (s : list byte) : list (list byte) :=
  let ps := split_at (fun b => b =? 59) s [] in
  match rev ps with
  | [] :: (_ :: _) as r => rev r        (* string ends with ';' (and is not just one piece) *)
  | _ => ps
  end.

Definition env_items (s : list byte) : list env_item := map env_piece (env_pieces s).

(* user_info: None = MPI_INFO_NULL.  env: None = PNETCDF_HINTS unset. *)
Definition combine_env_hints (user : option info) (env : option (list byte)) : option info :=
  match env with
  | None => user
  | Some s =>
      fold_left (fun acc it =>
                   match it with
                   | EnvSet k v => Some (info_set k v (match acc with Some i => i | None => [] end))
                   | EnvSkip => acc
                   end) (env_items s) user
  end.

(* ================================================================== *)
(* 4. The configuration record and ncmpio_set_pnetcdf_hints            *)
(* ================================================================== *)
Inductive swapmode := SwapAuto | SwapOn | SwapOff.

Record config := mkcfg {
  c_align : aligncfg;          (* ncp->env_h_align, env_v_align, env_r_align *)
  c_chunk : Z;                 (* ncp->chunk *)
  c_swap : swapmode;           (* NC_MODE_SWAP_ON / NC_MODE_SWAP_OFF in ncp->flags *)
  c_ibuf : Z;                  (* ncp->ibuf_size *)
  c_hcoll : bool;              (* NC_HCOLL *)
  c_hash_dim : Z; c_hash_var : Z; c_hash_gattr : Z; c_hash_vattr : Z;
  c_num_aggrs : Z;             (* ncp->num_aggrs_per_node *)
  c_safe : bool;               (* ncp->safe_mode *)
  c_nprocs : Z }.

Definition k_h_align := B "nc_header_align_size".
Definition k_v_align := B "nc_var_align_size".
Definition k_r_align := B "nc_record_align_size".
Definition k_chunk := B "nc_header_read_chunk_size".
Definition k_swap := B "nc_in_place_swap".
Definition k_ibuf := B "nc_ibuf_size".
Definition k_no_indep_rw := B "romio_no_indep_rw".
Definition k_hash_dim := B "nc_hash_size_dim".
Definition k_hash_var := B "nc_hash_size_var".
Definition k_hash_gattr := B "nc_hash_size_gattr".
Definition k_hash_vattr := B "nc_hash_size_vattr".
Definition k_num_aggrs := B "nc_num_aggrs_per_node".
Definition k_subfiling := B "pnetcdf_subfiling".
Definition k_num_subfiles := B "nc_num_subfiles".

(* the three alignment hints: strtoll; errno != 0 -> 0; negative -> 0; absent -> 0 *)
Definition align_hint (ui : option info) (k : list byte) : Z :=
  match uget ui k with
  | None => 0
  | Some v => match strtoll v with
              | None => 0
              | Some x => if x <? 0 then 0 else x
              end
  end.

(* hash sizes: atoi; zero (also: a non-numeric string) and negative values -> default.
   (Before the fix of F9 the test was `< 0` and 0 became the table size; that version is kept
   as hash_hint_old in Proofs_Config.v together with its refutation.) *)
Definition hash_hint (ui : option info) (k : list byte) (dflt : Z) : Z :=
  match uget ui k with
  | None => dflt
  | Some v => let x := atoi v in if x <=? 0 then dflt else x
  end.

Definition swap_hint (ui : option info) : swapmode * list byte :=
  (* returns the mode and the string that is written back to info_used: the user's own
     string when the key is present (whatever it is), "auto" otherwise *)
  match uget ui k_swap with
  | None => (SwapAuto, B "auto")
  | Some v =>
      ((if caseeq v (B "enable") then SwapOn
        else if caseeq v (B "disable") then SwapOff
        else SwapAuto), v)
  end.

Definition safe_mode_of_env (e : option (list byte)) : bool :=
  match e with
  | None => false                         (* not a PNETCDF_DEBUG build *)
  | Some (48 :: _) => false               (* first character '0' *)
  | Some _ => true                        (* anything else, including the empty string *)
  end.

(* ui = the combined info (after combine_env_hints); hook = PNETCDF_VERIF_HDR_CHUNK.
   Returns the configuration and the pnetcdf entries written into info_used. *)
Definition set_pnetcdf_hints (ui : option info) (hook_chunk : option (list byte))
           (safe_env : option (list byte)) (nprocs : Z) : config * info :=
  let ha := align_hint ui k_h_align in
  let va := align_hint ui k_v_align in
  let ra := align_hint ui k_r_align in
  let shown x := if x =? 0 then dec FILE_ALIGNMENT_DEFAULT else dec x in
  (* nc_header_read_chunk_size: the parsed value lands in a local variable and is never
     stored (known); only the hook changes ncp->chunk *)
  let chunk := match hook_chunk with Some s => atoi s | None => PNC_DEFAULT_CHUNKSIZE end in
  let '(sw, swstr) := swap_hint ui in
  let ibuf := match uget ui k_ibuf with
              | None => PNC_DEFAULT_IBUF_SIZE
              | Some v => match strtoll v with
                          | Some x => if x >? 0 then x else PNC_DEFAULT_IBUF_SIZE
                          | None => PNC_DEFAULT_IBUF_SIZE
                          end
              end in
  let hcoll := match uget ui k_no_indep_rw with
               | Some v => caseeq v (B "true")
               | None => false
               end in
  let hd := hash_hint ui k_hash_dim PNC_HSIZE_DIM in
  let hv := hash_hint ui k_hash_var PNC_HSIZE_VAR in
  let hg := hash_hint ui k_hash_gattr PNC_HSIZE_GATTR in
  let hva := hash_hint ui k_hash_vattr PNC_HSIZE_VATTR in
  let na := match uget ui k_num_aggrs with
            | None => 0
            | Some v => let x := atoi v in if x <? 0 then 0 else x
            end in
  (mkcfg (mkalign ha va ra) chunk sw ibuf hcoll hd hv hg hva na (safe_mode_of_env safe_env) nprocs,
   [ (k_h_align, shown ha); (k_v_align, shown va); (k_r_align, shown ra);
     (k_chunk, dec chunk); (k_swap, swstr); (k_ibuf, dec ibuf);
     (k_subfiling, B "disable"); (k_num_subfiles, B "0");
     (k_hash_dim, dec hd); (k_hash_var, dec hv); (k_hash_gattr, dec hg); (k_hash_vattr, dec hva);
     (k_num_aggrs, dec na) ]).

(* create/open: PNETCDF_HINTS over the MPI_Info argument, then the driver's parsing *)
Definition open_config (user : option info) (env_hints hook_chunk safe_env : option (list byte))
           (nprocs : Z) : config * info :=
  set_pnetcdf_hints (combine_env_hints user env_hints) hook_chunk safe_env nprocs.

(* every name table has at least one bucket (the bucket index is hash & (size - 1)) *)
Definition hash_sizes_ok (c : config) : bool :=
  (0 <? c_hash_dim c) && (0 <? c_hash_var c) && (0 <? c_hash_gattr c) && (0 <? c_hash_vattr c).

(* ================================================================== *)
(* 5. enddef: layout from the configuration, hints written back        *)
(* ================================================================== *)
Definition num_rec_vars_of (h : hdr) : Z :=
  Zlen (filter (fun v => is_recvar (h_dims h) v) (h_vars h)).

(* state of the alignment fields ncp->h_align, v_align, r_align: zero until the first enddef *)
Definition align_fields0 : Z * Z * Z := (0, 0, 0).

(* ncmpio__enddef up to NC_begins.  stale_nrec = ncp->vars.num_rec_vars as left by the previous
   enddef (0 on a new file); old = the header saved by redef; prev_begin_rec = ncp->begin_rec.
   Returns (resolved (h,v,r) = new alignment fields, layout). *)
Definition cfg_enddef (c : config) (h : hdr) (ea : enddef_args) (stale_nrec : Z)
           (old : option (layout * list bool)) (prev_begin_rec : Z)
  : (Z * Z * Z) * option layout :=
  let nfix := Zlen (h_vars h) - stale_nrec in
  let is_new := match old with None => true | Some _ => false end in
  let '(ha, va, ra) := resolve_align (c_align c) ea nfix is_new in
  ((ha, va, ra), begins h (e_h_minfree ea) (e_v_minfree ea) ha ra old prev_begin_rec).

(* ncmpio_inq_misc(info_used): the info object kept in ncp->mpiinfo with the six entries that
   are rewritten from the NC fields at inquiry time *)
Definition inq_info (c : config) (fields : Z * Z * Z) (kept : info) : info :=
  let '(ha, va, ra) := fields in
  info_set k_subfiling (B "disable")
 (info_set k_ibuf (dec (c_ibuf c))
 (info_set k_swap (match c_swap c with SwapOn => B "enable" | SwapOff => B "disable" | SwapAuto => B "auto" end)
 (info_set k_chunk (dec (c_chunk c))
 (info_set k_r_align (dec ra)
 (info_set k_v_align (dec va)
 (info_set k_h_align (dec ha) kept)))))).

(* what a program sees: create/open with (user, env), optional enddef, then inq_file_info *)
Definition reported_after_open (user : option info) (env_hints hook_chunk safe_env : option (list byte))
           (nprocs : Z) : info :=
  let '(c, kept) := open_config user env_hints hook_chunk safe_env nprocs in
  inq_info c align_fields0 kept.

Definition reported_after_enddef (user : option info) (env_hints hook_chunk safe_env : option (list byte))
           (nprocs : Z) (h : hdr) (ea : enddef_args) : info * option layout :=
  let '(c, kept) := open_config user env_hints hook_chunk safe_env nprocs in
  let '(fields, lay) := cfg_enddef c h ea 0 None 0 in
  (inq_info c fields kept, lay).

Definition info_num (i : info) (k : list byte) : Z :=
  match info_get k i with Some v => (match strtoll v with Some x => x | None => -1 end) | None => -1 end.

(* ================================================================== *)
(* 6. Bytes, buffer type maps, file views                              *)
(* ================================================================== *)
Definition slice (buf : list byte) (off len : Z) : list byte := zfirstn len (zskipn off buf).

(* a buffer datatype as its type map in bytes: (displacement, length) blocks in type-map order *)
Definition typemap := list (Z * Z).
Definition tm_size (tm : typemap) : Z := zsum (map snd tm).
(* MPI_Pack *)
Definition pack (mem : list byte) (tm : typemap) : list byte :=
  flat_map (fun b => slice mem (fst b) (snd b)) tm.

(* overwrite mem[off .. off+|bs|) *)
Definition mem_write (mem : list byte) (off : Z) (bs : list byte) : list byte :=
  zfirstn off mem ++ bs ++ zskipn (off + Zlen bs) mem.
(* MPI_Unpack *)
Fixpoint unpack (mem : list byte) (tm : typemap) (stream : list byte) : list byte :=
  match tm with
  | [] => mem
  | (d, l) :: r => unpack (mem_write mem d (zfirstn l stream)) r (zskipn l stream)
  end.

(* a file view is the sequence of byte positions it exposes, in order; an (offset,length)
   pair list (hindexed of MPI_BYTE) denotes the concatenation of its ranges *)
Definition vbytes (pairs : list (Z * Z)) : list Z := flat_map (fun p => zrange (fst p) (snd p)) pairs.

(* MPI_File_write through a view: stream byte k lands at position k of the view *)
Definition scatter (d : disk) (pos : list Z) (bs : list byte) : disk :=
  fold_left (fun acc pb => dk_write acc (fst pb) [snd pb]) (zip pos bs) d.
Definition view_write (d : disk) (pairs : list (Z * Z)) (bs : list byte) : disk :=
  scatter d (vbytes pairs) bs.

(* the same write performed through a bounded intermediate buffer: the stream is cut into
   pieces, each written at the position where the previous one stopped *)
Fixpoint scatter_pieces (d : disk) (pos : list Z) (pieces : list (list byte)) : disk :=
  match pieces with
  | [] => d
  | p :: r => scatter_pieces (scatter d (zfirstn (Zlen p) pos) p) (zskipn (Zlen p) pos) r
  end.

Fixpoint chunks (fuel : nat) (n : Z) (l : list byte) : list (list byte) :=
  match fuel with
  | O => [l]
  | S k => match l with
           | [] => []
           | _ => if n <=? 0 then [l] else zfirstn n l :: chunks k n (zskipn n l)
           end
  end.
Definition chunked (n : Z) (l : list byte) : list (list byte) := chunks (length l) n l.

(* ================================================================== *)
(* 7. ncmpio_read_write: the packing-buffer branch                     *)
(* ================================================================== *)
(* WRITE.  mem/tm/count describe (buf, buf_type, buf_count) with the type map of the whole
   request; contig = buftype_is_contig; view = positions of the file view from `offset` on;
   cb = the size of the pieces in which the MPI library streams a non-contiguous buffer
   (unknown to PnetCDF; any positive value). *)
Definition rw_write (ibuf_size : Z) (cb : Z) (contig : bool) (mem : list byte) (tm : typemap)
           (d : disk) (pos : list Z) : disk :=
  let req_size := tm_size tm in
  if (0 <? req_size) && negb contig && (req_size <=? ibuf_size) then
    (* xbuf = malloc(req_size); MPI_Pack(buf -> xbuf); write xbuf as req_size MPI_BYTEs *)
    scatter d pos (pack mem tm)
  else
    (* the user buffer and its datatype go to MPI_File_write_at(_all) as they are *)
    scatter_pieces d pos (chunked cb (pack mem tm)).

(* READ: bytes obtained from the view, then delivered into the user buffer *)
Definition gather_view (d : disk) (pos : list Z) : list byte := map (dk_get d) pos.
Definition rw_read (ibuf_size : Z) (contig : bool) (mem : list byte) (tm : typemap)
           (d : disk) (pos : list Z) : list byte :=
  let req_size := tm_size tm in
  if (0 <? req_size) && negb contig && (req_size <=? ibuf_size) then
    (* read into a contiguous xbuf, then MPI_Unpack(xbuf -> buf) *)
    unpack mem tm (gather_view d (zfirstn req_size pos))
  else
    (* MPI reads into the typed buffer block by block *)
    fst (fold_left (fun st b => let '(m, p) := st in
                                (mem_write m (fst b) (gather_view d (zfirstn (snd b) p)), zskipn (snd b) p))
                   tm (mem, pos)).

(* ================================================================== *)
(* 8. put_varm: in-place byte swap or swap in a copy                   *)
(* ================================================================== *)
(* ncmpii_in_swapn(buf, nelems, esz): reverse each of the first nelems groups of esz bytes *)
Fixpoint swapn (esz : Z) (nelems : nat) (l : list byte) : list byte :=
  match nelems with
  | O => l
  | S k => rev (zfirstn esz l) ++ swapn esz k (zskipn esz l)
  end.

Definition can_swap_in_place (m : swapmode) (need_swap : bool) (nbytes : Z) : bool :=
  if need_swap then
    match m with
    | SwapOff => false
    | SwapOn => true
    | SwapAuto => negb (nbytes <=? NC_BYTE_SWAP_BUFFER_SIZE)
    end
  else true.

Record put_result := mkput {
  p_stream : list byte;       (* bytes handed to the file write, in file-view order *)
  p_buf_during : list byte;   (* user buffer while the write is in progress *)
  p_buf_after : list byte;    (* user buffer when the call returns *)
  p_inplace : bool }.

(* the byte handling of put_varm for a request that needs no type conversion and no imap
   (need_convert = 0, imaptype = MPI_DATATYPE_NULL); esz = varp->xsz, nelems = bnelems,
   tm = type map of (buf, bufcount, buftype), contig = buftype_is_contig *)
Definition put_bytes (m : swapmode) (need_swap contig : bool) (esz : Z) (nelems : nat)
           (buf : list byte) (tm : typemap) : put_result :=
  let nbytes := Z.of_nat nelems * esz in
  if negb need_swap || (can_swap_in_place m need_swap nbytes && contig) then
    (* xbuf = buf *)
    if need_swap then
      let swapped := swapn esz nelems buf in
      mkput (pack swapped tm) swapped (swapn esz nelems swapped) true
    else mkput (pack buf tm) buf buf true
  else
    (* xbuf = malloc(nbytes); ncmpio_pack_xbuf: pack, then swap inside xbuf *)
    mkput (swapn esz nelems (pack buf tm)) buf buf false.
