(* Proofs_Nonblocking.v — C02: assembly of the results about Nonblocking.v.
   Part 1 (this part): the statements that are FALSE of the faithful model, each kept visible as
   `Definition X_full : Prop`, refuted by a concrete history (the witness, replayed on the real
   library by checks/C02.py, is a finding: F1, F2, F3), and the numrecs lemma that does hold.
   Part 2: closing the geometric hypotheses of Proofs_NbSegs and the refinement theorem. *)
From Pnc Require Import NbSpec Proofs_Disk Proofs_Lists.
Require Import Lia ZArith List Bool.
Import ListNotations.
Local Open Scope Z_scope.

(* the states reachable from the initial state by accepted posts, waits and cancels, with the concrete
   (stable insertion) sort *)
Definition reach (fx : bool) (ops : list nbop) : nbstate * disk :=
  nb_run isort_reqs isort_segs fx (init_state, empty_disk) ops.

(* two variables of a CDF file: a fixed int a[4] at 512, a record variable int b[t][4] at 528, recsize 16 *)
Definition gA : geom := mkgeom 512 4 [4] 16 1.
Definition gB : geom := mkgeom 528 4 [0; 4] 16 1.

Lemma post_ok_gA : forall s c, 0 <= s -> 0 <= c -> (c = 0 \/ s + (c - 1) * 1 < 4) -> post_ok gA [s] [c] None.
Proof.
  intros s c Hs Hc Hb. unfold post_ok, wf_geom, rec_fits, rec_packed, dims_wf, gA. cbn.
  repeat split; try lia; try discriminate; auto.
Qed.
Lemma post_ok_gB : forall r, 0 <= r -> post_ok gB [r; 0] [1; 4] None.
Proof.
  intros r Hr. unfold post_ok, wf_geom, rec_fits, rec_packed, dims_wf, gB. cbn.
  repeat split; try lia; auto.
  repeat constructor; lia.
Qed.

(* ---------------------------------------------------------------- F3: statuses *)
(* full statement: the status pointer of every completed request is the slot of a position that names it *)
Definition status_own_full (fx : bool) : Prop :=
  forall ops ids stat0, Forall nbop_ok ops -> Zlen stat0 = Zlen ids ->
    let st := fst (reach fx ops) in
    let ex := extract_reqs fx st (Zlen ids) ids true stat0 in
    ex_err ex = NC_NOERR ->
    forall l i, In l (put_lead (ex_st ex) ++ get_lead (ex_st ex)) -> l_to_free l = true ->
                l_status l = Some i -> znth ids i NC_REQ_NULL = l_id l.

Definition two_puts : list nbop :=
  [NPostM KIput gA [0] [2] None 1000 [1;1;1;1;2;2;2;2] false 0;
   NPostM KIput gA [2] [2] None 2000 [3;3;3;3;4;4;4;4] false 1].
Lemma two_puts_ok : Forall nbop_ok two_puts.
Proof. apply Forall_cons; [|apply Forall_cons; [|apply Forall_nil]]; cbn [nbop_ok]; apply post_ok_gA; lia. Qed.

(* witness: two pending puts (ids 0 and 2) named in the order [2; 0]: the number of ids equals the number
   of pending puts and no get is pending, so extract_reqs takes the "same as NC_PUT_REQ_ALL" shortcut
   and binds statuses[0] to the request with id 0 although req_ids[0] = 2 *)
Theorem status_own_old_refuted : ~ status_own_full false.
Proof.
  intro H.
  specialize (H two_puts [2; 0] [-99; -99] two_puts_ok eq_refl).
  cbv zeta in H.
  assert (E : ex_err (extract_reqs false (fst (reach false two_puts)) (Zlen [2; 0]) [2; 0] true [-99; -99]) = NC_NOERR)
    by (vm_compute; reflexivity).
  specialize (H E (hd dummy_lead (put_lead (ex_st (extract_reqs false (fst (reach false two_puts)) (Zlen [2; 0]) [2; 0] true [-99; -99])))) 0).
  assert (C : znth [2; 0] 0 NC_REQ_NULL = 0).
  { apply H; vm_compute; [left; reflexivity | reflexivity | reflexivity]. }
  vm_compute in C. discriminate C.
Qed.

(* ---------------------------------------------------------------- F3: frame *)
(* full statement: a request whose id is not passed to the wait stays pending *)
Definition wait_subset_frame_full (fx : bool) : Prop :=
  forall ops a file, Forall nbop_ok ops -> wa_n a = Zlen (wa_ids a) ->
    let st := fst (reach fx ops) in
    let r := fst (wait_one isort_reqs isort_segs fx st a file) in
    wr_rc r = NC_NOERR ->
    forall l, In l (put_lead st ++ get_lead st) -> ~ In (l_id l) (wa_ids a) ->
              In (l_id l) (map l_id (put_lead (wr_st r) ++ get_lead (wr_st r))).

(* witness: two pending puts, wait(2, [NC_REQ_NULL; 0]): the request with id 2 is completed too *)
Theorem wait_subset_frame_old_refuted : ~ wait_subset_frame_full false.
Proof.
  intro H.
  pose (a := mkwa 2 [NC_REQ_NULL; 0] true [-99; -99]).
  specialize (H two_puts a empty_disk two_puts_ok eq_refl).
  cbv zeta in H.
  assert (E : wr_rc (fst (wait_one isort_reqs isort_segs false (fst (reach false two_puts)) a empty_disk)) = NC_NOERR)
    by (vm_compute; reflexivity).
  specialize (H E (znth (put_lead (fst (reach false two_puts))) 1 dummy_lead)).
  assert (C : In (l_id (znth (put_lead (fst (reach false two_puts))) 1 dummy_lead))
                 (map l_id (put_lead (wr_st (fst (wait_one isort_reqs isort_segs false (fst (reach false two_puts)) a empty_disk)))
                            ++ get_lead (wr_st (fst (wait_one isort_reqs isort_segs false (fst (reach false two_puts)) a empty_disk)))))).
  { apply H.
    - vm_compute. right. left. reflexivity.
    - vm_compute. intros [X | [X | X]]; [discriminate X | discriminate X | exact X]. }
  vm_compute in C. exact C.
Qed.

(* ---------------------------------------------------------------- F1: number of records *)
Definition fixed_then_record : list nbop :=
  [NPostM KIput gA [0] [4] None 1000 [0;0;0;1;0;0;0;2;0;0;0;3;0;0;0;4] false 0;
   NPostM KIput gB [5; 0] [1; 4] None 2000 [0;0;0;5;0;0;0;6;0;0;0;7;0;0;0;8] false 1].
Lemma fixed_then_record_ok : Forall nbop_ok fixed_then_record.
Proof.
  apply Forall_cons; [|apply Forall_cons; [|apply Forall_nil]]; cbn [nbop_ok]; [apply post_ok_gA; lia | apply post_ok_gB; lia].
Qed.

Lemma fold_max_ge_init : forall (l : list lead) (f : lead -> bool) m,
  m <= fold_left (fun m x => if f x then Z.max m (l_max_rec x) else m) l m.
Proof.
  induction l as [|x l IH]; intros f m; cbn [fold_left]; [lia|].
  destruct (f x); [specialize (IH f (Z.max m (l_max_rec x))); lia | apply IH].
Qed.
Lemma fold_max_ge_elem : forall (l : list lead) (f : lead -> bool) m x,
  In x l -> f x = true -> l_max_rec x <= fold_left (fun m x => if f x then Z.max m (l_max_rec x) else m) l m.
Proof.
  induction l as [|y l IH]; intros f m x Hin Hf; [destruct Hin|].
  cbn [fold_left]. destruct Hin as [E | Hin].
  - subst y. rewrite Hf. pose proof (fold_max_ge_init l f (Z.max m (l_max_rec x))). lia.
  - apply IH; assumption.
Qed.

(* the loop of req_commit covers every flagged request on a record variable and never lowers numrecs *)
Theorem newnumrecs_covers_flagged : forall st l,
  In l (put_lead st) -> l_to_free l = true -> g_isrec (l_geom l) = true ->
  l_max_rec l <= newnumrecs_loop st /\ st_numrecs st <= newnumrecs_loop st.
Proof.
  intros st l Hin Hf Hr. unfold newnumrecs_loop. split.
  - apply (fold_max_ge_elem (put_lead st) (fun l => g_isrec (l_geom l) && l_to_free l)); [exact Hin|].
    rewrite Hr, Hf. reflexivity.
  - apply (fold_max_ge_init (put_lead st) (fun l => g_isrec (l_geom l) && l_to_free l)).
Qed.

(* the loop as it was before fix 186ba92c in /repo: it inspected the first num_w_lead_reqs (= the NUMBER of
   requests being completed) entries of the queue.  Kept to show what the present statement excludes. *)
Definition newnumrecs_loop_old (st : nbstate) (nwl : Z) : Z :=
  fold_left (fun m l => if g_isrec (l_geom l) && l_to_free l then Z.max m (l_max_rec l) else m)
            (zfirstn nwl (put_lead st)) (st_numrecs st).
Definition newnumrecs_old_covers_flagged_full (fx : bool) : Prop :=
  forall ops a, Forall nbop_ok ops ->
    let ex := extract_reqs fx (fst (reach fx ops)) (wa_n a) (wa_ids a) (wa_has_stat a) (wa_stat0 a) in
    ex_err ex = NC_NOERR ->
    forall l, In l (put_lead (ex_st ex)) -> l_to_free l = true -> g_isrec (l_geom l) = true ->
              l_max_rec l <= newnumrecs_loop_old (ex_st ex) (ex_nwl ex).
(* witness (finding F1, fixed): iput on the fixed variable (id 0), iput on record 5 of the record variable (id 2),
   wait naming only id 2: the old loop inspects lead 0 (not flagged) and stops *)
Theorem newnumrecs_old_refuted : ~ newnumrecs_old_covers_flagged_full false.
Proof.
  intro H.
  pose (a := mkwa 1 [2] true [-99]).
  specialize (H fixed_then_record a fixed_then_record_ok). cbv zeta in H.
  assert (E : ex_err (extract_reqs false (fst (reach false fixed_then_record)) (wa_n a) (wa_ids a) (wa_has_stat a) (wa_stat0 a)) = NC_NOERR)
    by (vm_compute; reflexivity).
  specialize (H E (znth (put_lead (ex_st (extract_reqs false (fst (reach false fixed_then_record)) (wa_n a) (wa_ids a) (wa_has_stat a) (wa_stat0 a)))) 1 dummy_lead)).
  assert (C : l_max_rec (znth (put_lead (ex_st (extract_reqs false (fst (reach false fixed_then_record)) (wa_n a) (wa_ids a) (wa_has_stat a) (wa_stat0 a)))) 1 dummy_lead)
              <= newnumrecs_loop_old (ex_st (extract_reqs false (fst (reach false fixed_then_record)) (wa_n a) (wa_ids a) (wa_has_stat a) (wa_stat0 a)))
                                     (ex_nwl (extract_reqs false (fst (reach false fixed_then_record)) (wa_n a) (wa_ids a) (wa_has_stat a) (wa_stat0 a)))).
  { apply H; vm_compute; [right; left; reflexivity | reflexivity | reflexivity]. }
  vm_compute in C. apply C. reflexivity.
Qed.

(* ---------------------------------------------------------------- F2: reads *)
(* full statement: the buffers of the completed gets hold what the blocking reads deliver, whatever the
   requests address (reads may overlap freely) *)
Definition wait_refines_blocking_get_full (fx : bool) : Prop :=
  forall ops a file, Forall nbop_ok ops ->
    let st := fst (reach fx ops) in
    let ex := extract_reqs fx st (wa_n a) (wa_ids a) (wa_has_stat a) (wa_stat0 a) in
    let r := fst (wait_one isort_reqs isort_segs fx st a file) in
    wr_rc r = NC_NOERR ->
    disk_eq (st_mem (wr_st r))
            (fold_left (fun m l => blocking_get file m l) (flagged (get_lead (ex_st ex))) (st_mem st)).

Definition two_gets : list nbop :=
  [NPostM KIget gA [0] [2] None 1000 [] false 0;
   NPostM KIget gA [0] [2] None 2000 [] false 1].
Lemma two_gets_ok : Forall nbop_ok two_gets.
Proof. apply Forall_cons; [|apply Forall_cons; [|apply Forall_nil]]; cbn [nbop_ok]; apply post_ok_gA; lia. Qed.

(* witness: two gets of the same two elements completed by one wait: merge_requests drops the covered
   segment of the second request, its buffer (address 2000) is never filled *)
Theorem wait_refines_blocking_get_refuted : forall fx, ~ wait_refines_blocking_get_full fx.
Proof.
  intros fx H.
  pose (a := mkwa NC_REQ_ALL [] false []).
  pose (file := dk_write empty_disk 512 [11; 12; 13; 14; 15; 16; 17; 18]).
  specialize (H two_gets a file two_gets_ok).
  cbv zeta in H.
  assert (E : wr_rc (fst (wait_one isort_reqs isort_segs fx (fst (reach fx two_gets)) a file)) = NC_NOERR)
    by (destruct fx; vm_compute; reflexivity).
  specialize (H E 2000).
  destruct fx; vm_compute in H; discriminate H.
Qed.

(* ====================================================================== *)
(* Part 2a. The aggregation moves exactly the bytes of the blocking calls   *)
(* ====================================================================== *)
From Pnc Require Import Proofs_NbGeom Proofs_NbSegs.

(* writes to pairwise disjoint byte ranges commute (general, over Disk.dk_write) *)
Definition writes_commute := disjoint_writes_commute.

(* for ANY functions qsort may be (sorted permutations), record / varn splitting, sorted or unsorted queues,
   interleaved or not: when no file byte is addressed twice the single MPI_File_write of a wait writes what
   the blocking writes of the extracted requests write *)
Theorem commit_stream_correct_write :
  forall sort_reqs sort_segs leads reqs file mem,
    sorter_ok a_start sort_reqs -> sorter_ok s_off sort_segs ->
    Forall areq_wf (map (annotate leads) reqs) ->
    NoDup (map fst (flat_map areq_pairs (map (annotate leads) reqs))) ->
    disk_eq (mpi_write file mem (aggregate sort_reqs sort_segs leads reqs))
            (write_pairs file mem (flat_map areq_pairs (map (annotate leads) reqs))).
Proof. exact (commit_stream_correct req_ftype_pairs vars_flatten_pairs vars_flatten_pos). Qed.

(* the same for ANY partition of the request list into typed groups (not only the one req_aggregation computes) *)
Theorem groups_stream_correct_write :
  forall sort_segs gs file mem,
    sorter_ok s_off sort_segs -> Forall areq_wf (flat_map snd gs) ->
    NoDup (map fst (flat_map areq_pairs (flat_map snd gs))) ->
    disk_eq (mpi_write file mem (types_of_groups sort_segs gs))
            (write_pairs file mem (flat_map areq_pairs (flat_map snd gs))).
Proof. exact (groups_stream_correct req_ftype_pairs vars_flatten_pairs vars_flatten_pos). Qed.

(* reads: PARTIAL - needs "no file byte read twice by the requests completed together" (F2) *)
Theorem commit_stream_correct_read_partial :
  forall sort_reqs sort_segs leads reqs file mem,
    sorter_ok a_start sort_reqs -> sorter_ok s_off sort_segs ->
    Forall areq_wf (map (annotate leads) reqs) ->
    NoDup (map fst (flat_map areq_pairs (map (annotate leads) reqs))) ->
    NoDup (map snd (flat_map areq_pairs (map (annotate leads) reqs))) ->
    disk_eq (mpi_read file mem (aggregate sort_reqs sort_segs leads reqs))
            (read_pairs file mem (flat_map areq_pairs (map (annotate leads) reqs))).
Proof. exact (commit_stream_correct_read req_ftype_pairs vars_flatten_pairs vars_flatten_pos). Qed.

(* the sort used when the model is run is such a function *)
Lemma isort_reqs_ok : sorter_ok a_start isort_reqs.
Proof. exact (isort_sorter_ok areq a_start). Qed.
Lemma isort_segs_ok : sorter_ok s_off isort_segs.
Proof. exact (isort_sorter_ok seg s_off). Qed.

(* ====================================================================== *)
(* Part 2b. wait refines blocking execution                                 *)
(* ====================================================================== *)
From Pnc Require Import Proofs_NbWait.

(* extraction touches only the four queues *)
Lemma extract_fields : forall fx st n ids hs stat0,
  st_mem (ex_st (extract_reqs fx st n ids hs stat0)) = st_mem st /\
  maxPutID (ex_st (extract_reqs fx st n ids hs stat0)) = maxPutID st /\
  maxGetID (ex_st (extract_reqs fx st n ids hs stat0)) = maxGetID st /\
  st_numrecs (ex_st (extract_reqs fx st n ids hs stat0)) = st_numrecs st.
Proof.
  intros fx st n ids hs stat0. unfold extract_reqs. cbv zeta.
  destruct (ex_mark ids 0 hs (put_lead st) (get_lead st) stat0 0 0 0 0 NC_NOERR)
    as [[[[[[[pl1 gl1] stat1] nwl] nwr] nrl] nrr] err].
  destruct (ex_copy ids pl1 gl1 (put_reqs st) (get_reqs st)) as [[ids' pe] ge].
  destruct (if nwr =? 0 then (pl1, put_reqs st) else coalesce_nonlead pl1 (put_reqs st) 0) as [pl2 pr2].
  destruct (if nrr =? 0 then (gl1, get_reqs st) else coalesce_nonlead gl1 (get_reqs st) 0) as [gl2 gr2].
  repeat match goal with |- context [if ?c then _ else _] => destruct c end; repeat split; reflexivity.
Qed.
Lemma extract_mem : forall fx st n ids hs stat0, st_mem (ex_st (extract_reqs fx st n ids hs stat0)) = st_mem st.
Proof. intros. apply extract_fields. Qed.

(* the file after an independent wait: ONE write built from the extracted put requests *)
Lemma wait_one_file : forall sr ss fx st a file,
  ex_err (extract_reqs fx st (wa_n a) (wa_ids a) (wa_has_stat a) (wa_stat0 a)) = NC_NOERR ->
  snd (wait_one sr ss fx st a file) =
  (if 0 <? Zlen (ex_put (extract_reqs fx st (wa_n a) (wa_ids a) (wa_has_stat a) (wa_stat0 a)))
   then mpi_write file (st_mem st)
          (aggregate sr ss (put_lead (ex_st (extract_reqs fx st (wa_n a) (wa_ids a) (wa_has_stat a) (wa_stat0 a))))
                     (ex_put (extract_reqs fx st (wa_n a) (wa_ids a) (wa_has_stat a) (wa_stat0 a))))
   else file).
Proof.
  intros sr ss fx st a file Herr. unfold wait_one. rewrite Herr.
  replace (negb (NC_NOERR =? NC_NOERR)) with false by reflexivity.
  unfold commit_io. rewrite extract_mem.
  destruct (commit_post _ _ _) as [st3 ev]. reflexivity.
Qed.

Lemma fold_blocking_put : forall leads file mem,
  fold_left (fun f l => blocking_put f mem l) leads file = write_pairs file mem (flat_map lead_pairs leads).
Proof.
  induction leads as [|l leads IH]; intros file mem; [reflexivity|].
  cbn [fold_left flat_map]. rewrite write_pairs_app. rewrite IH. reflexivity.
Qed.
Lemma fold_blocking_get : forall leads file mem,
  fold_left (fun m l => blocking_get file m l) leads mem = read_pairs file mem (flat_map lead_pairs leads).
Proof.
  induction leads as [|l leads IH]; intros file mem; [reflexivity|].
  cbn [fold_left flat_map]. rewrite read_pairs_app. rewrite IH. reflexivity.
Qed.

Lemma disk_eq_trans : forall a b c, disk_eq a b -> disk_eq b c -> disk_eq a c.
Proof. intros a b c H1 H2 x. rewrite H1. apply H2. Qed.
Lemma disk_eq_refl : forall a, disk_eq a a.
Proof. intros a x. reflexivity. Qed.

Lemma Permutation_nil_pairs : forall (l : list (Z * Z)), Permutation [] l -> l = [].
Proof. intros l H. apply Permutation_nil. exact H. Qed.

(* MAIN (puts): for every state satisfying the queue invariant, every argument list (ALL forms, the
   shortcuts, any subset in any order), every qsort: if no file byte is written twice by the requests the
   wait completes, the file afterwards is the file after the corresponding blocking puts, issued in queue order *)
Theorem wait_refines_blocking_put : forall sr ss fx st a file,
  sorter_ok a_start sr -> sorter_ok s_off ss -> nb_inv st ->
  ex_err (extract_reqs fx st (wa_n a) (wa_ids a) (wa_has_stat a) (wa_stat0 a)) = NC_NOERR ->
  NoDup (map fst (flat_map lead_pairs
          (flagged (put_lead (ex_st (extract_reqs fx st (wa_n a) (wa_ids a) (wa_has_stat a) (wa_stat0 a))))))) ->
  disk_eq (snd (wait_one sr ss fx st a file))
          (fold_left (fun f l => blocking_put f (st_mem st) l)
                     (flagged (put_lead (ex_st (extract_reqs fx st (wa_n a) (wa_ids a) (wa_has_stat a) (wa_stat0 a)))))
                     file).
Proof.
  intros sr ss fx st a file Hsr Hss Hinv Herr Hnd.
  rewrite wait_one_file by exact Herr. rewrite fold_blocking_put.
  destruct (wait_put_pairs fx st (wa_n a) (wa_ids a) (wa_has_stat a) (wa_stat0 a) Hinv Herr) as [Hwf Hperm].
  set (ex := extract_reqs fx st (wa_n a) (wa_ids a) (wa_has_stat a) (wa_stat0 a)) in *.
  assert (Hnd' : NoDup (map fst (flat_map areq_pairs (map (annotate (put_lead (ex_st ex))) (ex_put ex))))).
  { eapply Permutation_NoDup; [|exact Hnd]. apply Permutation_map. apply Permutation_sym. exact Hperm. }
  destruct (0 <? Zlen (ex_put ex)) eqn:Ez.
  - eapply disk_eq_trans.
    + apply commit_stream_correct_write; assumption.
    + apply write_pairs_perm; assumption.
  - assert (Hnil : ex_put ex = []).
    { apply Proofs_Disk.Zlen_zero_nil. pose proof (Proofs_Disk.Zlen_nonneg (ex_put ex)). lia. }
    rewrite Hnil in Hperm. cbn [map flat_map] in Hperm.
    apply Permutation_nil_pairs in Hperm. rewrite Hperm. apply disk_eq_refl.
Qed.

(* ... and the order in which the blocking puts are issued does not matter *)
Corollary wait_refines_blocking_put_any_order : forall sr ss fx st a file leads',
  sorter_ok a_start sr -> sorter_ok s_off ss -> nb_inv st ->
  ex_err (extract_reqs fx st (wa_n a) (wa_ids a) (wa_has_stat a) (wa_stat0 a)) = NC_NOERR ->
  NoDup (map fst (flat_map lead_pairs
          (flagged (put_lead (ex_st (extract_reqs fx st (wa_n a) (wa_ids a) (wa_has_stat a) (wa_stat0 a))))))) ->
  Permutation leads' (flagged (put_lead (ex_st (extract_reqs fx st (wa_n a) (wa_ids a) (wa_has_stat a) (wa_stat0 a))))) ->
  disk_eq (snd (wait_one sr ss fx st a file))
          (fold_left (fun f l => blocking_put f (st_mem st) l) leads' file).
Proof.
  intros sr ss fx st a file leads' Hsr Hss Hinv Herr Hnd Hp.
  eapply disk_eq_trans; [apply wait_refines_blocking_put; assumption|].
  rewrite !fold_blocking_put. apply write_pairs_perm; [|exact Hnd].
  apply Permutation_flat_map. apply Permutation_sym. exact Hp.
Qed.

(* the memory after an independent wait *)
Lemma commit_post_mem : forall st nwl nrl, st_mem (fst (commit_post st nwl nrl)) = st_mem st.
Proof.
  intros st nwl nrl. unfold commit_post.
  destruct (nwl >? 0).
  - destruct (compact_leads (put_lead st) (put_reqs st) 0 0) as [pl pr].
    destruct (nrl >? 0).
    + destruct (compact_leads _ _ 0 0) as [gl gr]. reflexivity.
    + reflexivity.
  - destruct (nrl >? 0).
    + destruct (compact_leads (get_lead st) (get_reqs st) 0 0) as [gl gr]. reflexivity.
    + reflexivity.
Qed.

Lemma wait_one_unfold : forall sr ss fx st a file,
  ex_err (extract_reqs fx st (wa_n a) (wa_ids a) (wa_has_stat a) (wa_stat0 a)) = NC_NOERR ->
  wait_one sr ss fx st a file =
  (let ex := extract_reqs fx st (wa_n a) (wa_ids a) (wa_has_stat a) (wa_stat0 a) in
   let ci := commit_io sr ss (ex_st ex) (ex_put ex) (ex_get ex) (0 <? Zlen (ex_put ex)) (0 <? Zlen (ex_get ex))
                       (newnumrecs_loop (ex_st ex)) file in
   let cp := commit_post (fst ci) (ex_nwl ex) (ex_nrl ex) in
   (mkwr (fst cp) NC_NOERR (ex_ids ex) (ex_stat ex) (snd cp), snd ci)).
Proof.
  intros sr ss fx st a file Herr. unfold wait_one. rewrite Herr.
  replace (negb (NC_NOERR =? NC_NOERR)) with false by reflexivity.
  cbv zeta.
  destruct (commit_io sr ss _ _ _ _ _ _ file) as [st2 f'].
  cbn [fst snd]. destruct (commit_post st2 _ _) as [st3 ev]. reflexivity.
Qed.

Lemma commit_io_file : forall sr ss st pe ge dw dr nn file,
  snd (commit_io sr ss st pe ge dw dr nn file) =
  if dw then mpi_write file (st_mem st) (aggregate sr ss (put_lead st) pe) else file.
Proof. intros. unfold commit_io. reflexivity. Qed.

Lemma commit_io_mem : forall sr ss st pe ge dw dr nn file,
  st_mem (fst (commit_io sr ss st pe ge dw dr nn file)) =
  if dr then mpi_read (snd (commit_io sr ss st pe ge dw dr nn file)) (st_mem st) (aggregate sr ss (get_lead st) ge)
  else st_mem st.
Proof.
  intros. unfold commit_io. cbn [fst snd].
  destruct dw, dr; cbn [andb]; try destruct (st_numrecs st <? nn); reflexivity.
Qed.

Lemma wait_one_mem : forall sr ss fx st a file,
  ex_err (extract_reqs fx st (wa_n a) (wa_ids a) (wa_has_stat a) (wa_stat0 a)) = NC_NOERR ->
  st_mem (wr_st (fst (wait_one sr ss fx st a file))) =
  (if 0 <? Zlen (ex_get (extract_reqs fx st (wa_n a) (wa_ids a) (wa_has_stat a) (wa_stat0 a)))
   then mpi_read (snd (wait_one sr ss fx st a file)) (st_mem st)
          (aggregate sr ss (get_lead (ex_st (extract_reqs fx st (wa_n a) (wa_ids a) (wa_has_stat a) (wa_stat0 a))))
                     (ex_get (extract_reqs fx st (wa_n a) (wa_ids a) (wa_has_stat a) (wa_stat0 a))))
   else st_mem st).
Proof.
  intros sr ss fx st a file Herr. rewrite (wait_one_unfold sr ss fx st a file Herr). cbv zeta. cbn [fst snd wr_st].
  rewrite commit_post_mem, commit_io_mem, extract_mem. reflexivity.
Qed.

(* PARTIAL (gets): when the requests completed together read no file byte twice (and their buffers are
   distinct), every read buffer holds what the blocking reads deliver - reading the file AFTER the writes of
   the same wait.  Without the first hypothesis the statement is false: wait_refines_blocking_get_refuted (F2). *)
Theorem wait_refines_blocking_get_partial : forall sr ss fx st a file,
  sorter_ok a_start sr -> sorter_ok s_off ss -> nb_inv st ->
  ex_err (extract_reqs fx st (wa_n a) (wa_ids a) (wa_has_stat a) (wa_stat0 a)) = NC_NOERR ->
  NoDup (map fst (flat_map lead_pairs
          (flagged (get_lead (ex_st (extract_reqs fx st (wa_n a) (wa_ids a) (wa_has_stat a) (wa_stat0 a))))))) ->
  NoDup (map snd (flat_map lead_pairs
          (flagged (get_lead (ex_st (extract_reqs fx st (wa_n a) (wa_ids a) (wa_has_stat a) (wa_stat0 a))))))) ->
  disk_eq (st_mem (wr_st (fst (wait_one sr ss fx st a file))))
          (fold_left (fun m l => blocking_get (snd (wait_one sr ss fx st a file)) m l)
                     (flagged (get_lead (ex_st (extract_reqs fx st (wa_n a) (wa_ids a) (wa_has_stat a) (wa_stat0 a)))))
                     (st_mem st)).
Proof.
  intros sr ss fx st a file Hsr Hss Hinv Herr Hnd1 Hnd2.
  rewrite wait_one_mem by exact Herr. rewrite fold_blocking_get.
  destruct (wait_get_pairs fx st (wa_n a) (wa_ids a) (wa_has_stat a) (wa_stat0 a) Hinv Herr) as [Hwf Hperm].
  set (ex := extract_reqs fx st (wa_n a) (wa_ids a) (wa_has_stat a) (wa_stat0 a)) in *.
  set (file1 := snd (wait_one sr ss fx st a file)).
  assert (Hf : NoDup (map fst (flat_map areq_pairs (map (annotate (get_lead (ex_st ex))) (ex_get ex))))).
  { eapply Permutation_NoDup; [|exact Hnd1]. apply Permutation_map. apply Permutation_sym. exact Hperm. }
  assert (Hs : NoDup (map snd (flat_map areq_pairs (map (annotate (get_lead (ex_st ex))) (ex_get ex))))).
  { eapply Permutation_NoDup; [|exact Hnd2]. apply Permutation_map. apply Permutation_sym. exact Hperm. }
  destruct (0 <? Zlen (ex_get ex)) eqn:Ez.
  - eapply disk_eq_trans.
    + apply commit_stream_correct_read_partial; assumption.
    + apply read_pairs_perm; assumption.
  - assert (Hnil : ex_get ex = []).
    { apply Proofs_Disk.Zlen_zero_nil. pose proof (Proofs_Disk.Zlen_nonneg (ex_get ex)). lia. }
    rewrite Hnil in Hperm. cbn [map flat_map] in Hperm.
    apply Permutation_nil_pairs in Hperm. rewrite Hperm. apply disk_eq_refl.
Qed.

(* ====================================================================== *)
(* Part 2c. The queue invariant over whole histories                        *)
(* ====================================================================== *)
From Pnc Require Import Proofs_NbQueue.

(* the invariant (NbSpec.nb_inv + parity of the id counters) holds initially and is preserved by every
   accepted post, every cancel, and every wait that returns NC_NOERR *)
Theorem post_varm_preserves_inv : forall st k g start count stride xaddr data sw tag,
  nb_inv_full st -> post_ok g start count stride ->
  nb_inv_full (fst (fst (post_varm st k g start count stride xaddr data sw tag))).
Proof. exact (post_varm_inv post_varm_reqs_ok). Qed.

Theorem post_varn_preserves_inv : forall st k g parts xaddr data sw tag,
  nb_inv_full st -> postn_ok g parts ->
  nb_inv_full (fst (fst (post_varn st k g parts xaddr data sw tag))).
Proof. exact (post_varn_inv post_varn_reqs_ok). Qed.

Lemma extract_maxids : forall fx st n ids hs stat0,
  maxPutID (ex_st (extract_reqs fx st n ids hs stat0)) = maxPutID st /\
  maxGetID (ex_st (extract_reqs fx st n ids hs stat0)) = maxGetID st.
Proof. intros fx st n ids hs stat0. destruct (extract_fields fx st n ids hs stat0) as (_ & H1 & H2 & _). split; assumption. Qed.

Lemma commit_post_maxids : forall st nwl nrl,
  maxPutID (fst (commit_post st nwl nrl)) = maxPutID st /\ maxGetID (fst (commit_post st nwl nrl)) = maxGetID st.
Proof.
  intros st nwl nrl. unfold commit_post.
  destruct (nwl >? 0).
  - destruct (compact_leads (put_lead st) (put_reqs st) 0 0) as [pl pr].
    destruct (nrl >? 0).
    + destruct (compact_leads _ _ 0 0) as [gl gr]. split; reflexivity.
    + split; reflexivity.
  - destruct (nrl >? 0).
    + destruct (compact_leads (get_lead st) (get_reqs st) 0 0) as [gl gr]. split; reflexivity.
    + split; reflexivity.
Qed.

Lemma commit_io_maxids : forall sr ss st pe ge dw dr nn file,
  maxPutID (fst (commit_io sr ss st pe ge dw dr nn file)) = maxPutID st /\
  maxGetID (fst (commit_io sr ss st pe ge dw dr nn file)) = maxGetID st.
Proof.
  intros. unfold commit_io. cbn [fst].
  destruct dw, dr; cbn [andb]; try destruct (st_numrecs st <? nn); split; reflexivity.
Qed.

Lemma Forall2_nil_l : forall A B (R : A -> B -> Prop) l, Forall2 R [] l -> l = [].
Proof. intros A B R l H. inversion H. reflexivity. Qed.

Theorem wait_one_preserves_inv : forall sr ss fx st a file,
  nb_inv_full st -> wr_rc (fst (wait_one sr ss fx st a file)) = NC_NOERR ->
  nb_inv_full (wr_st (fst (wait_one sr ss fx st a file))).
Proof.
  intros sr ss fx st a file [Hinv Hmax] Hrc. split.
  - apply wait_one_inv; assumption.
  - assert (Herr : ex_err (extract_reqs fx st (wa_n a) (wa_ids a) (wa_has_stat a) (wa_stat0 a)) = NC_NOERR).
    { unfold wait_one in Hrc.
      destruct (negb (ex_err (extract_reqs fx st (wa_n a) (wa_ids a) (wa_has_stat a) (wa_stat0 a)) =? NC_NOERR)) eqn:E.
      - cbn [fst wr_rc] in Hrc. rewrite Hrc in E. discriminate E.
      - apply negb_false_iff in E. apply Z.eqb_eq in E. exact E. }
    destruct (wait_one_leads sr ss fx st a file Hinv Hrc) as [Hpl Hgl].
    destruct (extract_leads_same fx st (wa_n a) (wa_ids a) (wa_has_stat a) (wa_stat0 a)) as [Hsp Hsg].
    apply (maxid_ok_shrink st); [exact Hmax | | | | ].
    + rewrite (wait_one_unfold sr ss fx st a file Herr). cbv zeta. cbn [fst wr_st].
      rewrite (proj1 (commit_post_maxids _ _ _)), (proj1 (commit_io_maxids _ _ _ _ _ _ _ _ _)).
      apply extract_maxids.
    + rewrite (wait_one_unfold sr ss fx st a file Herr). cbv zeta. cbn [fst wr_st].
      rewrite (proj2 (commit_post_maxids _ _ _)), (proj2 (commit_io_maxids _ _ _ _ _ _ _ _ _)).
      apply extract_maxids.
    + destruct (put_lead st) as [|l0 r0] eqn:Ep; [left | right; discriminate].
      rewrite Hpl. apply Forall2_nil_l in Hsp. rewrite Hsp. reflexivity.
    + destruct (get_lead st) as [|l0 r0] eqn:Eg; [left | right; discriminate].
      rewrite Hgl. apply Forall2_nil_l in Hsg. rewrite Hsg. reflexivity.
Qed.

(* a history in which every posted request is an accepted one and every wait returns NC_NOERR *)
Fixpoint run_ok (sr : list areq -> list areq) (ss : list seg -> list seg) (fx : bool) (sf : nbstate * disk) (ops : list nbop) : Prop :=
  match ops with
  | [] => True
  | o :: r => nbop_ok o /\
              (match o with
               | NWait a => wr_rc (fst (wait_one sr ss fx (fst sf) a (snd sf))) = NC_NOERR
               | _ => True
               end) /\
              run_ok sr ss fx (nb_step sr ss fx sf o) r
  end.

(* queue_inv over ALL histories whose waits succeed (induction over the operation list), both variants *)
Theorem nb_run_inv : forall sr ss fx ops sf,
  nb_inv_full (fst sf) -> run_ok sr ss fx sf ops -> nb_inv_full (fst (nb_run sr ss fx sf ops)).
Proof.
  intros sr ss fx ops. induction ops as [|o ops IH]; intros sf Hinv Hok; [exact Hinv|].
  destruct Hok as (Hop & Hw & Hrest).
  unfold nb_run. cbn [fold_left]. apply IH; [|exact Hrest].
  destruct sf as [st f]. cbn [fst snd] in *. unfold nb_step.
  destruct o as [k g s c t xa d sw tag | k g ps xa d sw tag | a | n ids s0]; cbn [nbop_ok] in Hop.
  - cbn [fst]. apply post_varm_preserves_inv; assumption.
  - cbn [fst]. apply post_varn_preserves_inv; assumption.
  - pose proof (wait_one_preserves_inv sr ss fx st a f Hinv Hw) as Hp.
    destruct (wait_one sr ss fx st a f) as [r f'] eqn:Ew. cbn [fst] in *. exact Hp.
  - cbn [fst]. apply cancel_inv. exact Hinv.
Qed.

Corollary reachable_inv : forall fx ops, run_ok isort_reqs isort_segs fx (init_state, empty_disk) ops ->
  nb_inv_full (fst (reach fx ops)).
Proof. intros fx ops H. apply nb_run_inv; [exact nb_inv_full_init | exact H]. Qed.

(* ---------- the repaired variant (fx = true): a wait that FAILS also preserves the invariant, so it holds
   over ALL histories of accepted posts, whatever the waits return *)
Lemma map_unflag_nil : forall l, map unflag l = [] -> l = [].
Proof. intros [|x l] H; [reflexivity | discriminate H]. Qed.

Theorem wait_one_preserves_inv_fixed : forall sr ss st a file,
  nb_inv_full st -> nb_inv_full (wr_st (fst (wait_one sr ss true st a file))).
Proof.
  intros sr ss st a file Hfull.
  destruct (Z.eq_dec (wr_rc (fst (wait_one sr ss true st a file))) NC_NOERR) as [Hrc | Hrc].
  - apply wait_one_preserves_inv; assumption.
  - destruct Hfull as [Hinv Hmax]. split; [apply wait_one_inv_fixed; exact Hinv|].
    destruct (wait_one_failed_fixed sr ss st a file Hinv Hrc) as (_ & _ & Hpl & Hgl & _ & _).
    assert (Herr : ex_err (extract_reqs true st (wa_n a) (wa_ids a) (wa_has_stat a) (wa_stat0 a)) <> NC_NOERR).
    { intro E. apply Hrc. rewrite (wait_one_unfold sr ss true st a file E). reflexivity. }
    assert (Hst : wr_st (fst (wait_one sr ss true st a file)) = ex_st (extract_reqs true st (wa_n a) (wa_ids a) (wa_has_stat a) (wa_stat0 a))).
    { unfold wait_one.
      destruct (negb (ex_err (extract_reqs true st (wa_n a) (wa_ids a) (wa_has_stat a) (wa_stat0 a)) =? NC_NOERR)) eqn:E; [reflexivity|].
      apply negb_false_iff in E. apply Z.eqb_eq in E. contradiction. }
    apply (maxid_ok_shrink st); [exact Hmax | | | | ].
    + rewrite Hst. apply extract_maxids.
    + rewrite Hst. apply extract_maxids.
    + destruct (put_lead st) as [|l0 r0] eqn:Ep; [left | right; discriminate]. rewrite Hpl. reflexivity.
    + destruct (get_lead st) as [|l0 r0] eqn:Eg; [left | right; discriminate]. rewrite Hgl. reflexivity.
Qed.

Theorem nb_run_inv_fixed : forall sr ss ops sf,
  nb_inv_full (fst sf) -> Forall nbop_ok ops -> nb_inv_full (fst (nb_run sr ss true sf ops)).
Proof.
  intros sr ss ops. induction ops as [|o ops IH]; intros sf Hinv Hok; [exact Hinv|].
  inversion Hok as [|? ? Hop Hrest]; subst.
  unfold nb_run. cbn [fold_left]. apply IH; [|exact Hrest].
  destruct sf as [st f]. cbn [fst snd] in *. unfold nb_step.
  destruct o as [k g s c t xa d sw tag | k g ps xa d sw tag | a | n ids s0]; cbn [nbop_ok] in Hop.
  - cbn [fst]. apply post_varm_preserves_inv; assumption.
  - cbn [fst]. apply post_varn_preserves_inv; assumption.
  - pose proof (wait_one_preserves_inv_fixed sr ss st a f Hinv) as Hp.
    destruct (wait_one sr ss true st a f) as [r f'] eqn:Ew. cbn [fst] in *. exact Hp.
  - cbn [fst]. apply cancel_inv. exact Hinv.
Qed.

Corollary reachable_inv_fixed : forall ops, Forall nbop_ok ops -> nb_inv_full (fst (reach true ops)).
Proof. intros ops H. apply nb_run_inv_fixed; [exact nb_inv_full_init | exact H]. Qed.

(* ---------- the statements that were refuted for the snapshot hold IN FULL for the repaired variant *)
Theorem status_own : status_own_full true.
Proof.
  intros ops ids stat0 Hok Hlen. cbv zeta. intros Herr l i Hin Hf Hs.
  destruct (reachable_inv_fixed ops Hok) as [Hinv _].
  eapply (status_own_fixed (fst (reach true ops)) (Zlen ids) ids stat0); try eassumption; try reflexivity.
  apply Proofs_Disk.Zlen_nonneg.
Qed.

Theorem wait_subset_frame : wait_subset_frame_full true.
Proof.
  intros ops a file Hok Hn. cbv zeta. intros Hrc l Hin Hnot.
  destruct (reachable_inv_fixed ops Hok) as [Hinv _].
  assert (H0 : 0 <= wa_n a) by (rewrite Hn; apply Proofs_Disk.Zlen_nonneg).
  destruct (wait_subset_frame_fixed isort_reqs isort_segs (fst (reach true ops)) a file Hinv H0 Hn Hrc l Hin Hnot)
    as (l' & Hin' & Hsame & _).
  apply in_map_iff. exists l'. split; [|exact Hin'].
  symmetry. apply Hsame.
Qed.

(* ---------------------------------------------------------------- a failed wait is NOT without effect *)
(* full statement: a wait that returns an error leaves the queues as they were *)
Definition failed_wait_no_effect_full (fx : bool) : Prop :=
  forall ops a file, Forall nbop_ok ops ->
    let st := fst (reach fx ops) in
    let r := fst (wait_one isort_reqs isort_segs fx st a file) in
    wr_rc r <> NC_NOERR ->
    (* nothing is written, delivered or marked; only the (dangling) status pointers are reset *)
    snd (wait_one isort_reqs isort_segs fx st a file) = file /\ wr_ev r = [] /\
    put_lead (wr_st r) = map unflag (put_lead st) /\ get_lead (wr_st r) = map unflag (get_lead st) /\
    put_reqs (wr_st r) = put_reqs st /\ get_reqs (wr_st r) = get_reqs st.

Definition two_puts_one_get : list nbop :=
  two_puts ++ [NPostM KIget gA [3] [1] None 3000 [] false 2].
Lemma two_puts_one_get_ok : Forall nbop_ok two_puts_one_get.
Proof.
  unfold two_puts_one_get. apply Forall_app. split; [exact two_puts_ok|].
  apply Forall_cons; [|apply Forall_nil]. cbn [nbop_ok]. apply post_ok_gA; lia.
Qed.

(* witness: two puts and one get pending, wait(2, [0; 0]) (a duplicated id, no shortcut): NC_EINVAL_REQUEST,
   but the request with id 0 keeps its NC_REQ_TO_FREE flag; naming it again can never succeed *)
Theorem failed_wait_no_effect_old_refuted : ~ failed_wait_no_effect_full false.
Proof.
  intro H.
  pose (a := mkwa 2 [0; 0] true [-99; -99]).
  specialize (H two_puts_one_get a empty_disk two_puts_one_get_ok).
  cbv zeta in H.
  assert (E : wr_rc (fst (wait_one isort_reqs isort_segs false (fst (reach false two_puts_one_get)) a empty_disk)) <> NC_NOERR)
    by (vm_compute; discriminate).
  destruct (H E) as (_ & _ & Hp & _).
  assert (C : l_to_free (hd dummy_lead (put_lead (wr_st (fst (wait_one isort_reqs isort_segs false (fst (reach false two_puts_one_get)) a empty_disk)))))
              = l_to_free (hd dummy_lead (map unflag (put_lead (fst (reach false two_puts_one_get)))))) by (rewrite Hp; reflexivity).
  vm_compute in C. discriminate C.
Qed.

Example poisoned_request_cannot_be_completed :
  let a := mkwa 2 [0; 0] true [-99; -99] in
  let st1 := wr_st (fst (wait_one isort_reqs isort_segs false (fst (reach false two_puts_one_get)) a empty_disk)) in
  wr_rc (fst (wait_one isort_reqs isort_segs false st1 (mkwa 1 [0] true [-99]) empty_disk)) = NC_EINVAL_REQUEST
  /\ nreqs st1 = 3.
Proof. vm_compute. split; reflexivity. Qed.

(* ... and with the repair a failed wait has no effect *)
Theorem failed_wait_no_effect : failed_wait_no_effect_full true.
Proof.
  intros ops a file Hok. cbv zeta. intros Hrc.
  destruct (reachable_inv_fixed ops Hok) as [Hinv _].
  exact (wait_one_failed_fixed isort_reqs isort_segs (fst (reach true ops)) a file Hinv Hrc).
Qed.

Example repaired_request_can_be_completed :
  let a := mkwa 2 [0; 0] true [-99; -99] in
  let st1 := wr_st (fst (wait_one isort_reqs isort_segs true (fst (reach true two_puts_one_get)) a empty_disk)) in
  wr_rc (fst (wait_one isort_reqs isort_segs true (fst (reach true two_puts_one_get)) a empty_disk)) = NC_EINVAL_REQUEST /\
  wr_rc (fst (wait_one isort_reqs isort_segs true st1 (mkwa 1 [0] true [-99]) empty_disk)) = NC_NOERR /\
  nreqs (wr_st (fst (wait_one isort_reqs isort_segs true st1 (mkwa 1 [0] true [-99]) empty_disk))) = 2.
Proof. vm_compute. repeat split; reflexivity. Qed.

(* ---------------------------------------------------------------- numrecs after a wait (F1 fixed in /repo) *)
Lemma commit_post_numrecs : forall st nwl nrl, st_numrecs (fst (commit_post st nwl nrl)) = st_numrecs st.
Proof.
  intros st nwl nrl. unfold commit_post.
  destruct (nwl >? 0).
  - destruct (compact_leads (put_lead st) (put_reqs st) 0 0) as [pl pr].
    destruct (nrl >? 0).
    + destruct (compact_leads _ _ 0 0) as [gl gr]. reflexivity.
    + reflexivity.
  - destruct (nrl >? 0).
    + destruct (compact_leads (get_lead st) (get_reqs st) 0 0) as [gl gr]. reflexivity.
    + reflexivity.
Qed.

Lemma slices_ok_lead_reqs_pos : forall leads reqs k i, 0 <= k -> slices_ok leads reqs k i ->
  forall l, In l leads -> 0 < Zlen (lead_reqs reqs l).
Proof.
  induction leads as [|l0 leads IH]; intros reqs k i Hk Hs l Hin; [destruct Hin|].
  cbn [slices_ok] in Hs. destruct Hs as (Hoff & Hnum & Hle & _ & Hrest).
  destruct Hin as [E | Hin].
  - subst l0. unfold lead_reqs, slice. rewrite Hoff.
    rewrite Zlen_zfirstn; [lia|]. rewrite Zlen_zskipn by (pose proof (Proofs_Disk.Zlen_nonneg reqs); lia). lia.
  - apply (IH reqs (k + l_nonlead_num l0) (i + 1)); [lia | exact Hrest | exact Hin].
Qed.

Lemma Forall2_In_zip_r : forall A B (R : A -> B -> Prop) (a : list A) (b : list B) y,
  Forall2 R a b -> In y b -> exists x, In (x, y) (zip a b) /\ In x a.
Proof.
  intros A B R a b y H. induction H as [|x0 y0 a b Hr H IH]; intros Hin; [destruct Hin|].
  cbn [zip]. destruct Hin as [E | Hin].
  - subst y0. exists x0. split; left; reflexivity.
  - destruct (IH Hin) as [x [H1 H2]]. exists x. split; right; assumption.
Qed.

Lemma flagged_put_extracted : forall fx st n ids hs stat0 l,
  nb_inv st -> ex_err (extract_reqs fx st n ids hs stat0) = NC_NOERR ->
  In l (flagged (put_lead (ex_st (extract_reqs fx st n ids hs stat0)))) ->
  0 < Zlen (ex_put (extract_reqs fx st n ids hs stat0)).
Proof.
  intros fx st n ids hs stat0 l Hinv Herr Hl.
  destruct (extract_put_slices fx st n ids hs stat0 Hinv Herr) as [Hperm _].
  destruct (extract_leads_same fx st n ids hs stat0) as [Hsame _].
  unfold flagged in Hl. apply filter_In in Hl. destruct Hl as [Hin Hf].
  destruct (Forall2_In_zip_r _ _ _ _ _ l Hsame Hin) as [l0 [Hz Hl0]].
  destruct Hinv as [[_ [_ [Hs _]]] _].
  pose proof (slices_ok_lead_reqs_pos _ _ 0 0 ltac:(lia) Hs l0 Hl0) as Hpos.
  apply Permutation_length in Hperm.
  assert (Hge : (length (lead_reqs (put_reqs st) l0) <= length (ex_put (extract_reqs fx st n ids hs stat0)))%nat).
  { rewrite Hperm.
    set (F := fun p : lead * lead => if l_to_free (snd p) then lead_reqs (put_reqs st) (fst p) else []).
    clear Hperm Hsame.
    induction (zip (put_lead st) (put_lead (ex_st (extract_reqs fx st n ids hs stat0)))) as [|p z IHz]; [destruct Hz|].
    cbn [flat_map]. rewrite app_length. destruct Hz as [E | Hz].
    - subst p. unfold F at 1. cbn [fst snd]. rewrite Hf. lia.
    - specialize (IHz Hz). lia. }
  unfold Zlen in *. lia.
Qed.

(* FULL statement, proved (the library was repaired): after a successful wait the number of records covers
   every completed put to a record variable *)
Theorem numrecs_after_wait : forall sr ss fx st a file,
  nb_inv st -> wr_rc (fst (wait_one sr ss fx st a file)) = NC_NOERR ->
  forall l, In l (flagged (put_lead (ex_st (extract_reqs fx st (wa_n a) (wa_ids a) (wa_has_stat a) (wa_stat0 a))))) ->
            g_isrec (l_geom l) = true ->
            l_max_rec l <= st_numrecs (wr_st (fst (wait_one sr ss fx st a file))) /\
            st_numrecs st <= st_numrecs (wr_st (fst (wait_one sr ss fx st a file))).
Proof.
  intros sr ss fx st a file Hinv Hrc l Hl Hrec.
  assert (Herr : ex_err (extract_reqs fx st (wa_n a) (wa_ids a) (wa_has_stat a) (wa_stat0 a)) = NC_NOERR).
  { unfold wait_one in Hrc.
    destruct (negb (ex_err (extract_reqs fx st (wa_n a) (wa_ids a) (wa_has_stat a) (wa_stat0 a)) =? NC_NOERR)) eqn:E.
    - cbn [fst wr_rc] in Hrc. rewrite Hrc in E. discriminate E.
    - apply negb_false_iff in E. apply Z.eqb_eq in E. exact E. }
  pose proof (flagged_put_extracted fx st _ _ _ _ l Hinv Herr Hl) as Hput.
  rewrite (wait_one_unfold sr ss fx st a file Herr). cbv zeta. cbn [fst wr_st].
  rewrite commit_post_numrecs.
  set (ex := extract_reqs fx st (wa_n a) (wa_ids a) (wa_has_stat a) (wa_stat0 a)) in *.
  assert (Hn0 : st_numrecs (ex_st ex) = st_numrecs st) by apply extract_fields.
  unfold flagged in Hl. apply filter_In in Hl. destruct Hl as [Hin Hf].
  destruct (newnumrecs_covers_flagged (ex_st ex) l Hin Hf Hrec) as [H1 H2].
  unfold commit_io. cbn [fst].
  replace (0 <? Zlen (ex_put ex)) with true by (symmetry; apply Z.ltb_lt; exact Hput).
  cbn [andb].
  destruct (st_numrecs (ex_st ex) <? newnumrecs_loop (ex_st ex)) eqn:Elt;
    destruct (0 <? Zlen (ex_get ex)); cbn [set_mem set_numrecs st_numrecs]; lia.
Qed.

(* ====================================================================== *)
(* Part 2d. collective wait of several processes                            *)
(* ====================================================================== *)
Lemma dk_write_cong : forall d d' o bs, disk_eq d d' -> disk_eq (dk_write d o bs) (dk_write d' o bs).
Proof. intros d d' o bs H x. rewrite !dk_get_write. destruct ((o <=? x) && (x <? o + Zlen bs)); [reflexivity | apply H]. Qed.
Lemma write_chunks_cong : forall b stream d d', disk_eq d d' -> disk_eq (write_chunks d b stream) (write_chunks d' b stream).
Proof.
  induction b as [|[o l] b IH]; intros stream d d' H; [exact H|].
  cbn [write_chunks]. apply IH. apply dk_write_cong. exact H.
Qed.
Lemma mpi_write_cong : forall f f' mem t, disk_eq f f' -> disk_eq (mpi_write f mem t) (mpi_write f' mem t).
Proof. intros f f' mem t H. unfold mpi_write. apply write_chunks_cong. exact H. Qed.
Lemma write_pairs_cong : forall ps f f' mem, disk_eq f f' -> disk_eq (write_pairs f mem ps) (write_pairs f' mem ps).
Proof.
  induction ps as [|p ps IH]; intros f f' mem H; [exact H|].
  unfold write_pairs in *. cbn [fold_left]. apply IH. apply dk_write_cong. exact H.
Qed.

(* the write of ONE process inside a wait, on any file *)
Lemma rank_put_correct : forall sr ss fx st n ids hs stat0 f,
  sorter_ok a_start sr -> sorter_ok s_off ss -> nb_inv st ->
  ex_err (extract_reqs fx st n ids hs stat0) = NC_NOERR ->
  NoDup (map fst (flat_map lead_pairs (flagged (put_lead (ex_st (extract_reqs fx st n ids hs stat0)))))) ->
  disk_eq (mpi_write f (st_mem st) (aggregate sr ss (put_lead (ex_st (extract_reqs fx st n ids hs stat0)))
                                              (ex_put (extract_reqs fx st n ids hs stat0))))
          (fold_left (fun f l => blocking_put f (st_mem st) l)
                     (flagged (put_lead (ex_st (extract_reqs fx st n ids hs stat0)))) f).
Proof.
  intros sr ss fx st n ids hs stat0 f Hsr Hss Hinv Herr Hnd.
  rewrite fold_blocking_put.
  destruct (wait_put_pairs fx st n ids hs stat0 Hinv Herr) as [Hwf Hperm].
  set (ex := extract_reqs fx st n ids hs stat0) in *.
  assert (Hnd' : NoDup (map fst (flat_map areq_pairs (map (annotate (put_lead (ex_st ex))) (ex_put ex))))).
  { eapply Permutation_NoDup; [|exact Hnd]. apply Permutation_map. apply Permutation_sym. exact Hperm. }
  eapply disk_eq_trans.
  - apply commit_stream_correct_write; assumption.
  - apply write_pairs_perm; assumption.
Qed.

Lemma existsb_false_Forall : forall A (p : A -> bool) l, Forall (fun x => p x = false) l -> existsb p l = false.
Proof. intros A p l H. induction H as [|x l Hx H IH]; [reflexivity|]. cbn [existsb]. rewrite Hx, IH. reflexivity. Qed.

(* collective wait (ncmpi_wait_all) of any number of processes with any arguments per process: when every
   process's extraction succeeds and no process writes a file byte twice, the file is what the blocking puts
   give, process after process (the MPI-IO model of this development applies the file views in rank order) *)
Theorem wait_coll_refines_blocking_put : forall sr ss fx (sa : list (nbstate * waitargs)) file,
  sorter_ok a_start sr -> sorter_ok s_off ss ->
  Forall (fun p => nb_inv (fst p)) sa ->
  Forall (fun p => ex_err (extract_reqs fx (fst p) (wa_n (snd p)) (wa_ids (snd p)) (wa_has_stat (snd p)) (wa_stat0 (snd p))) = NC_NOERR) sa ->
  Forall (fun p => NoDup (map fst (flat_map lead_pairs (flagged (put_lead (ex_st
            (extract_reqs fx (fst p) (wa_n (snd p)) (wa_ids (snd p)) (wa_has_stat (snd p)) (wa_stat0 (snd p))))))))) sa ->
  disk_eq (snd (wait_coll sr ss fx (map fst sa) (map snd sa) file))
          (fold_left (fun f p =>
              fold_left (fun f l => blocking_put f (st_mem (fst p)) l)
                        (flagged (put_lead (ex_st (extract_reqs fx (fst p) (wa_n (snd p)) (wa_ids (snd p)) (wa_has_stat (snd p)) (wa_stat0 (snd p))))))
                        f)
            sa file).
Proof.
  intros sr ss fx sa file Hsr Hss Hinv Herr Hnd.
  unfold wait_coll.
  assert (Hzip : zip (map fst sa) (map snd sa) = sa).
  { clear. induction sa as [|[s a] sa IH]; [reflexivity|]. cbn [map zip fst snd]. rewrite IH. reflexivity. }
  rewrite Hzip.
  set (EX := fun p : nbstate * waitargs => extract_reqs fx (fst p) (wa_n (snd p)) (wa_ids (snd p)) (wa_has_stat (snd p)) (wa_stat0 (snd p))).
  assert (Hany : existsb (fun ex => negb (ex_err ex =? NC_NOERR)) (map EX sa) = false).
  { apply existsb_false_Forall. apply Forall_map. eapply Forall_impl; [|exact Herr].
    intros p Hp. cbv beta. unfold EX. rewrite Hp. reflexivity. }
  change (map (fun p : nbstate * waitargs => extract_reqs fx (fst p) (wa_n (snd p)) (wa_ids (snd p)) (wa_has_stat (snd p)) (wa_stat0 (snd p))) sa)
    with (map EX sa).
  rewrite Hany. cbn [snd].
  set (dw := existsb (fun ex => 0 <? Zlen (ex_put ex)) (map EX sa)).
  (* general statement over the list of processes and any starting file *)
  assert (G : forall (l : list (nbstate * waitargs)) f f',
             Forall (fun p => nb_inv (fst p)) l -> Forall (fun p => ex_err (EX p) = NC_NOERR) l ->
             Forall (fun p => NoDup (map fst (flat_map lead_pairs (flagged (put_lead (ex_st (EX p))))))) l ->
             (dw = false -> Forall (fun p => ex_put (EX p) = []) l) ->
             disk_eq f f' ->
             disk_eq (fold_left (fun f ex => if dw then mpi_write f (st_mem (ex_st ex)) (aggregate sr ss (put_lead (ex_st ex)) (ex_put ex)) else f)
                                (map EX l) f)
                     (fold_left (fun f p => fold_left (fun f l => blocking_put f (st_mem (fst p)) l) (flagged (put_lead (ex_st (EX p)))) f) l f')).
  { induction l as [|p l IH]; intros f f' Hi He Hn Hd Hff; [exact Hff|].
    cbn [map fold_left]. inversion Hi as [|? ? Hi1 Hi2]; subst. inversion He as [|? ? He1 He2]; subst.
    inversion Hn as [|? ? Hn1 Hn2]; subst.
    apply IH; try assumption.
    - intros Hdw. specialize (Hd Hdw). inversion Hd; assumption.
    - destruct dw eqn:Edw.
      + unfold EX at 1 2 3. rewrite extract_mem.
        eapply disk_eq_trans; [apply mpi_write_cong; exact Hff|].
        apply rank_put_correct; assumption.
      + specialize (Hd eq_refl). inversion Hd as [|? ? Hd1 Hd2]; subst.
        destruct (wait_put_pairs fx (fst p) (wa_n (snd p)) (wa_ids (snd p)) (wa_has_stat (snd p)) (wa_stat0 (snd p)) Hi1 He1) as [_ Hperm].
        fold (EX p) in Hperm. rewrite Hd1 in Hperm. cbn [map flat_map] in Hperm.
        apply Permutation_nil_pairs in Hperm.
        rewrite fold_blocking_put. rewrite Hperm. exact Hff. }
  apply G; try assumption.
  - intros Hdw. unfold dw in Hdw.
    clear -Hdw. induction sa as [|p sa IH]; [constructor|].
    cbn [map existsb] in Hdw. apply orb_false_iff in Hdw. destruct Hdw as [H1 H2].
    constructor; [|apply IH; exact H2].
    apply Proofs_Disk.Zlen_zero_nil. pose proof (Proofs_Disk.Zlen_nonneg (ex_put (EX p))). apply Z.ltb_ge in H1. lia.
  - apply disk_eq_refl.
Qed.

(* ---------------------------------------------------------------- offsets of any magnitude *)
(* The theorems above quantify over Z: commit_stream_correct_write / wait_refines_blocking_put hold for file offsets
   of any size (row pitches of several GiB included), PROVIDED qsort's comparator orders the offsets (sorter_ok).
   A comparator returning the difference truncated to a 32-bit int - `return (int)(a->off - b->off);` - does not:   *)
Definition cmp_trunc32 (a b : Z) : Z :=
  let d := (a - b) mod 4294967296 in if d <? 2147483648 then d else d - 4294967296.
Definition cmp_trunc32_orders_full : Prop :=
  forall a b, 0 <= a -> 0 <= b -> (0 < cmp_trunc32 a b <-> b < a) /\ (cmp_trunc32 a b = 0 <-> a = b).
Theorem cmp_trunc32_orders_refuted : ~ cmp_trunc32_orders_full.
Proof.
  intro H. destruct (H 2147483648 0 ltac:(lia) ltac:(lia)) as [[_ H1] _].
  assert (C : 0 < cmp_trunc32 2147483648 0) by (apply H1; lia).
  vm_compute in C. discriminate C.
Qed.
Example cmp_trunc32_equal_at_4GiB : cmp_trunc32 4294967296 0 = 0 /\ cmp_trunc32 (3 * 1073741824) 0 < 0.
Proof. vm_compute. split; reflexivity. Qed.
(* within 2^31 it is an order: the defect needs segments of one interleaved group >= 2 GiB apart *)
Lemma cmp_trunc32_small : forall a b, - 2147483648 <= a - b < 2147483648 -> cmp_trunc32 a b = a - b.
Proof.
  intros a b H. unfold cmp_trunc32. cbv zeta.
  pose proof (Z.mod_pos_bound (a - b) 4294967296 ltac:(lia)) as Hb.
  pose proof (Z.div_mod (a - b) 4294967296 ltac:(lia)) as Hd.
  destruct ((a - b) mod 4294967296 <? 2147483648) eqn:E.
  - apply Z.ltb_lt in E. assert ((a - b) / 4294967296 = 0) by nia. nia.
  - apply Z.ltb_ge in E. assert ((a - b) / 4294967296 = -1) by nia. nia.
Qed.
