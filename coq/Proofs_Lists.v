(* Proofs_Lists.v — generic lemmas about zseq/zrange/zprod, flat_map, removelast, zip.
   Used by Proofs_Access.v.  No axioms. *)
From Pnc Require Import Base.
Require Import Lia ZArith List.
Import ListNotations.
Local Open Scope Z_scope.
Local Arguments Z.mul : simpl never.
Local Arguments Z.add : simpl never.
Local Arguments Z.of_nat : simpl never.
Local Arguments Z.to_nat : simpl never.

(* ------------------------------------------------------------------ *)
(* zseq / zrange                                                       *)
(* ------------------------------------------------------------------ *)
Lemma zseq_length : forall n lo, length (zseq lo n) = n.
Proof. induction n as [|n IH]; intros lo; cbn [zseq length]; [reflexivity | now rewrite IH]. Qed.

Lemma zseq_In : forall n lo x, In x (zseq lo n) <-> lo <= x < lo + Z.of_nat n.
Proof.
  induction n as [|n IH]; intros lo x; cbn [zseq In].
  - split; [tauto | lia].
  - rewrite IH. lia.
Qed.

Lemma zseq_app : forall m n lo, zseq lo (m + n) = zseq lo m ++ zseq (lo + Z.of_nat m) n.
Proof.
  induction m as [|m IH]; intros n lo.
  - cbn [zseq app Nat.add]. f_equal. lia.
  - cbn [zseq app Nat.add]. rewrite IH.
    replace (lo + Z.of_nat (S m)) with (lo + 1 + Z.of_nat m) by lia. reflexivity.
Qed.

Lemma zseq_map_add : forall n k lo, map (Z.add k) (zseq lo n) = zseq (k + lo) n.
Proof.
  induction n as [|n IH]; intros k lo; cbn [zseq map]; [reflexivity|].
  rewrite IH. do 2 f_equal. lia.
Qed.

Lemma zseq_NoDup : forall n lo, NoDup (zseq lo n).
Proof.
  induction n as [|n IH]; intros lo; cbn [zseq]; constructor.
  - rewrite zseq_In. lia.
  - apply IH.
Qed.

Lemma zrange_nonpos : forall lo len, len <= 0 -> zrange lo len = [].
Proof.
  intros lo len H. unfold zrange.
  replace (Z.to_nat len) with 0%nat by lia. reflexivity.
Qed.

Lemma zrange_length : forall lo len, length (zrange lo len) = Z.to_nat len.
Proof. intros. unfold zrange. apply zseq_length. Qed.

Lemma zrange_In : forall lo len x, In x (zrange lo len) <-> lo <= x < lo + len.
Proof. intros lo len x. unfold zrange. rewrite zseq_In. lia. Qed.

Lemma zrange_NoDup : forall lo len, NoDup (zrange lo len).
Proof. intros. apply zseq_NoDup. Qed.

Lemma zrange_app : forall lo m n, 0 <= m -> 0 <= n ->
  zrange lo (m + n) = zrange lo m ++ zrange (lo + m) n.
Proof.
  intros lo m n Hm Hn. unfold zrange.
  rewrite Z2Nat.inj_add by assumption. rewrite zseq_app.
  do 2 f_equal. lia.
Qed.

Lemma zrange_1 : forall lo, zrange lo 1 = [lo].
Proof. intros. reflexivity. Qed.

Lemma zrange_0 : forall lo, zrange lo 0 = [].
Proof. intros. reflexivity. Qed.

Lemma zrange_map_add : forall k lo n, map (Z.add k) (zrange lo n) = zrange (k + lo) n.
Proof. intros. unfold zrange. apply zseq_map_add. Qed.

Lemma zrange_shift : forall lo n, zrange lo n = map (Z.add lo) (zrange 0 n).
Proof. intros. rewrite zrange_map_add. f_equal. lia. Qed.

Lemma flat_map_zseq_blocks : forall n lo a m, 0 <= m ->
  flat_map (fun i => zrange (a + i * m) m) (zseq lo n) = zrange (a + lo * m) (Z.of_nat n * m).
Proof.
  induction n as [|n IH]; intros lo a m Hm.
  - cbn [zseq flat_map]. rewrite zrange_nonpos; [reflexivity | lia].
  - cbn [zseq flat_map]. rewrite IH by assumption.
    replace (Z.of_nat (S n) * m) with (m + Z.of_nat n * m) by lia.
    rewrite zrange_app by nia.
    do 2 f_equal. lia.
Qed.

(* consecutive blocks of length m glue to one run *)
Lemma flat_map_zrange_blocks : forall c a m, 0 <= m ->
  flat_map (fun i => zrange (a + i * m) m) (zrange 0 c) = zrange a (c * m).
Proof.
  intros c a m Hm.
  destruct (Z.le_gt_cases c 0) as [Hc|Hc].
  - rewrite (zrange_nonpos 0 c) by assumption. cbn [flat_map].
    rewrite zrange_nonpos; [reflexivity | nia].
  - unfold zrange at 2. rewrite flat_map_zseq_blocks by assumption.
    rewrite Z2Nat.id by lia. f_equal. lia.
Qed.

(* ------------------------------------------------------------------ *)
(* zprod                                                               *)
(* ------------------------------------------------------------------ *)
Lemma zprod_nonneg : forall l, Forall (fun x => 0 <= x) l -> 0 <= zprod l.
Proof.
  induction l as [|x l IH]; intros H; cbn [zprod]; [lia|].
  inversion H as [|? ? Hx Hl]; subst. specialize (IH Hl). nia.
Qed.

Lemma zprod_pos : forall l, Forall (fun x => 1 <= x) l -> 1 <= zprod l.
Proof.
  induction l as [|x l IH]; intros H; cbn [zprod]; [lia|].
  inversion H as [|? ? Hx Hl]; subst. specialize (IH Hl). nia.
Qed.

Lemma zprod_app : forall a b, zprod (a ++ b) = zprod a * zprod b.
Proof.
  induction a as [|x a IH]; intros b; cbn [zprod app]; [lia|].
  rewrite IH. lia.
Qed.

Lemma zprod_zero_iff : forall l, zprod l = 0 <-> In 0 l.
Proof.
  induction l as [|x l IH]; cbn [zprod In].
  - split; [lia | tauto].
  - rewrite <- IH. split.
    + intros H. apply Z.eq_mul_0 in H. destruct H; [left; lia | right; assumption].
    + intros [H|H]; [subst; lia | rewrite H; lia].
Qed.

Lemma zprod_nonzero_pos : forall l, Forall (fun x => 0 <= x) l -> zprod l <> 0 ->
  Forall (fun x => 1 <= x) l.
Proof.
  induction l as [|x l IH]; intros H Hz; [constructor|].
  inversion H as [|? ? Hx Hl]; subst. cbn [zprod] in Hz.
  constructor.
  - assert (x <> 0) by (intros ->; apply Hz; lia). lia.
  - apply IH; [assumption|]. intros E. apply Hz. rewrite E. lia.
Qed.

(* ------------------------------------------------------------------ *)
(* flat_map / map                                                      *)
(* ------------------------------------------------------------------ *)
Lemma flat_map_ext_In : forall A B (f g : A -> list B) l,
  (forall a, In a l -> f a = g a) -> flat_map f l = flat_map g l.
Proof.
  intros A B f g l. induction l as [|a l IH]; intros H; cbn [flat_map]; [reflexivity|].
  rewrite H by (left; reflexivity). rewrite IH; [reflexivity|].
  intros b Hb. apply H. right; assumption.
Qed.

Lemma map_flat_map_comm : forall A B C (f : B -> C) (g : A -> list B) l,
  map f (flat_map g l) = flat_map (fun x => map f (g x)) l.
Proof.
  intros A B C f g l. induction l as [|a l IH]; cbn [flat_map map]; [reflexivity|].
  rewrite map_app, IH. reflexivity.
Qed.

Lemma flat_map_map_comm : forall A B C (f : B -> list C) (g : A -> B) l,
  flat_map f (map g l) = flat_map (fun x => f (g x)) l.
Proof.
  intros A B C f g l. induction l as [|a l IH]; cbn [flat_map map]; [reflexivity|].
  rewrite IH. reflexivity.
Qed.

Lemma flat_map_flat_map : forall A B C (f : B -> list C) (g : A -> list B) l,
  flat_map f (flat_map g l) = flat_map (fun x => flat_map f (g x)) l.
Proof.
  intros A B C f g l. induction l as [|a l IH]; cbn [flat_map]; [reflexivity|].
  rewrite flat_map_app, IH. reflexivity.
Qed.

Lemma flat_map_singleton : forall A B (f : A -> B) l,
  flat_map (fun x => [f x]) l = map f l.
Proof.
  intros A B f l. induction l as [|a l IH]; cbn [flat_map map app]; [reflexivity|].
  rewrite IH. reflexivity.
Qed.

Lemma flat_map_nil_all : forall A B (l : list A), flat_map (fun _ => @nil B) l = [].
Proof. intros A B l. induction l as [|a l IH]; cbn [flat_map app]; auto. Qed.

Lemma flat_map_length_const : forall A B (f : A -> list B) l k,
  (forall a, In a l -> length (f a) = k) -> length (flat_map f l) = (length l * k)%nat.
Proof.
  intros A B f l k. induction l as [|a l IH]; intros H; cbn [flat_map length]; [reflexivity|].
  rewrite app_length, H by (left; reflexivity).
  rewrite IH; [lia|]. intros b Hb. apply H. right; assumption.
Qed.

Lemma map_ext_In : forall A B (f g : A -> B) l,
  (forall a, In a l -> f a = g a) -> map f l = map g l.
Proof. intros. apply map_ext_in. assumption. Qed.

Lemma NoDup_map_inj_In : forall A B (f : A -> B) l,
  (forall x y, In x l -> In y l -> f x = f y -> x = y) -> NoDup l -> NoDup (map f l).
Proof.
  intros A B f l. induction l as [|a l IH]; intros Hinj Hnd; cbn [map]; [constructor|].
  inversion Hnd as [|? ? Hnotin Hnd']; subst. constructor.
  - intros Hin. apply in_map_iff in Hin. destruct Hin as [y [Hy Hin]].
    assert (y = a) by (apply Hinj; [right; assumption | left; reflexivity | assumption]).
    subst. contradiction.
  - apply IH; [|assumption]. intros x y Hx Hy. apply Hinj; right; assumption.
Qed.

Lemma NoDup_app_intro : forall A (a b : list A),
  NoDup a -> NoDup b -> (forall x, In x a -> ~ In x b) -> NoDup (a ++ b).
Proof.
  intros A a. induction a as [|x a IH]; intros b Ha Hb Hdis; cbn [app]; [assumption|].
  inversion Ha as [|? ? Hx Ha']; subst. constructor.
  - rewrite in_app_iff. intros [H|H]; [contradiction|].
    apply (Hdis x); [left; reflexivity | assumption].
  - apply IH; [assumption | assumption |]. intros y Hy. apply Hdis. right; assumption.
Qed.

Lemma NoDup_flat_map_disjoint : forall A B (f : A -> list B) l,
  NoDup l ->
  (forall a, In a l -> NoDup (f a)) ->
  (forall a b x, In a l -> In b l -> In x (f a) -> In x (f b) -> a = b) ->
  NoDup (flat_map f l).
Proof.
  intros A B f l. induction l as [|a l IH]; intros Hnd Hf Hdis; cbn [flat_map]; [constructor|].
  inversion Hnd as [|? ? Hnotin Hnd']; subst.
  apply NoDup_app_intro.
  - apply Hf. left; reflexivity.
  - apply IH; [assumption | |].
    + intros b Hb. apply Hf. right; assumption.
    + intros b c x Hb Hc. apply Hdis; right; assumption.
  - intros x Hxa Hin. apply in_flat_map in Hin. destruct Hin as [b [Hb Hxb]].
    assert (E : a = b).
    { apply (Hdis a b x); [left; reflexivity | right; assumption | assumption | assumption]. }
    subst. contradiction.
Qed.

(* ------------------------------------------------------------------ *)
(* removelast / last / zip / rev                                       *)
(* ------------------------------------------------------------------ *)
Lemma removelast_snoc : forall A (l : list A) x, removelast (l ++ [x]) = l.
Proof. intros. apply removelast_last. Qed.

Lemma removelast_cons_snoc : forall A (a : A) l x, removelast (a :: l ++ [x]) = a :: l.
Proof. intros A a l x. change (a :: l ++ [x]) with ((a :: l) ++ [x]). apply removelast_last. Qed.

Lemma last_snoc : forall A (l : list A) x d, last (l ++ [x]) d = x.
Proof. intros. apply last_last. Qed.

Lemma snoc_decompose : forall A (l : list A) d, l <> [] -> l = removelast l ++ [last l d].
Proof. intros. apply app_removelast_last. assumption. Qed.

Lemma length_removelast : forall A (l : list A), length (removelast l) = (length l - 1)%nat.
Proof.
  intros A l. destruct l as [|a l]; [reflexivity|].
  destruct (@exists_last _ (a :: l)) as [l' [x E]]; [discriminate|].
  rewrite E, removelast_last, app_length. cbn [length]. lia.
Qed.

Lemma zip_app : forall A B (a1 a2 : list A) (b1 b2 : list B),
  length a1 = length b1 -> zip (a1 ++ a2) (b1 ++ b2) = zip a1 b1 ++ zip a2 b2.
Proof.
  intros A B a1. induction a1 as [|x a1 IH]; intros a2 b1 b2 H; destruct b1 as [|y b1];
    try discriminate; cbn [zip app]; [reflexivity|].
  rewrite IH; [reflexivity|]. cbn [length] in H. lia.
Qed.

Lemma zip_length : forall A B (a : list A) (b : list B),
  length a = length b -> length (zip a b) = length a.
Proof.
  intros A B a. induction a as [|x a IH]; intros b H; destruct b as [|y b];
    try discriminate; cbn [zip length]; [reflexivity|].
  rewrite IH; [reflexivity|]. cbn [length] in H. lia.
Qed.

Lemma map_fst_zip : forall A B (a : list A) (b : list B),
  length a = length b -> map fst (zip a b) = a.
Proof.
  intros A B a. induction a as [|x a IH]; intros b H; destruct b as [|y b];
    try discriminate; cbn [zip map fst]; [reflexivity|].
  rewrite IH; [reflexivity|]. cbn [length] in H. lia.
Qed.

(* two lists of equal positive length split at their last elements *)
Lemma snoc_cases : forall A (l : list A), l = [] \/ exists l' x, l = l' ++ [x].
Proof.
  intros A l. destruct l as [|a l]; [left; reflexivity|right].
  destruct (@exists_last _ (a :: l)) as [l' [x E]]; [discriminate|]. eauto.
Qed.
