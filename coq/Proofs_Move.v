(* Proofs_Move.v — correctness of the enddef data mover (Move.v):
   move_round / move_rounds / move_file_block, move_record_vars, move_fixed_vars.
   All statements are about the model functions of Move.v, for all nprocs >= 1, unit >= 1,
   nbytes >= 0, to >= from and all file contents. *)
From Pnc Require Import Disk Move Proofs_Disk.
Require Import Lia ZArith List Bool ZifyBool.
Import ListNotations.
Local Open Scope Z_scope.

Local Arguments Z.mul : simpl never.
Local Arguments Z.add : simpl never.
Local Arguments Z.div : simpl never.
Local Arguments Z.modulo : simpl never.

Ltac dm_nia := Z.div_mod_to_equations; nia.

(* split the characteristic test  (a <=? b) && (c <? d)  of an interval *)
Ltac brk :=
  match goal with
  | |- context [if (?a <=? ?b) && (?c <? ?d) then _ else _] =>
      destruct (Z.leb_spec a b); destruct (Z.ltb_spec c d); cbn [andb]
  end.

(* ====================================================================== *)
(** * 1. One round: the per-rank tiles partition the tail of the block     *)
(* ====================================================================== *)

(* closed forms of the two results of move_round *)
Definition rnb (np chunk left : Z) : Z :=
  if left <? np * chunk then 0 else left - chunk * np.

Definition rcnt (np chunk left r : Z) : Z :=
  if left <? np * chunk then
    (if r >? left / chunk then 0 else if r =? left / chunk then left mod chunk else chunk)
  else chunk.

Lemma move_round_eq np chunk from to left :
  move_round np chunk from to left =
  (rnb np chunk left,
   map (fun r => (from + rnb np chunk left + r * chunk,
                  to + rnb np chunk left + r * chunk,
                  rcnt np chunk left r)) (zrange 0 np)).
Proof.
  unfold move_round, rnb, rcnt. destruct (left <? np * chunk); reflexivity.
Qed.

Lemma rnb_range np chunk left :
  np >= 1 -> chunk >= 1 -> left > 0 ->
  0 <= rnb np chunk left < left /\
  (rnb np chunk left = 0 \/ rnb np chunk left = left - chunk * np).
Proof.
  intros Hnp Hc Hl. unfold rnb. destruct (Z.ltb_spec left (np * chunk)); nia.
Qed.

Lemma rcnt_bounds np chunk left r :
  np >= 1 -> chunk >= 1 -> left > 0 -> 0 <= r < np ->
  0 <= rcnt np chunk left r <= chunk /\
  (rcnt np chunk left r > 0 -> r * chunk + rcnt np chunk left r <= left - rnb np chunk left).
Proof.
  intros Hnp Hc Hl Hr. unfold rcnt, rnb.
  destruct (Z.ltb_spec left (np * chunk)) as [Hp|Hp].
  - pose proof (Z.div_mod left chunk ltac:(lia)) as Hdm.
    pose proof (Z.mod_pos_bound left chunk ltac:(lia)) as Hm.
    set (q := left / chunk) in *. set (m := left mod chunk) in *. clearbody q m.
    destruct (Z.gtb_spec r q) as [H1|H1]; [lia|].
    destruct (Z.eqb_spec r q) as [H2|H2]; [subst r; nia|].
    split; [lia|]. intros _. assert (r + 1 <= q) by lia. nia.
  - split; [lia|]. intros _. nia.
Qed.

(* the rank whose tile holds relative position y is y / chunk, and only that one *)
Lemma rcnt_cover np chunk left y r :
  np >= 1 -> chunk >= 1 -> left > 0 ->
  0 <= y < left - rnb np chunk left -> 0 <= r < np ->
  (r * chunk <= y < r * chunk + rcnt np chunk left r <-> r = y / chunk).
Proof.
  intros Hnp Hc Hl Hy Hr. unfold rcnt, rnb in *.
  pose proof (Z.div_mod y chunk ltac:(lia)) as Hdy.
  pose proof (Z.mod_pos_bound y chunk ltac:(lia)) as Hmy.
  set (qy := y / chunk) in *. set (my := y mod chunk) in *. clearbody qy my.
  destruct (Z.ltb_spec left (np * chunk)) as [Hp|Hp].
  - pose proof (Z.div_mod left chunk ltac:(lia)) as Hdm.
    pose proof (Z.mod_pos_bound left chunk ltac:(lia)) as Hm.
    set (q := left / chunk) in *. set (m := left mod chunk) in *. clearbody q m.
    assert (Hqy : qy <= q) by nia.
    destruct (Z.gtb_spec r q) as [H1|H1].
    + split; [lia|]. intros ->. lia.
    + destruct (Z.eqb_spec r q) as [H2|H2].
      * subst r. split.
        -- intros H. nia.
        -- intros ->. nia.
      * split.
        -- intros H. nia.
        -- intros ->. nia.
  - split.
    + intros H. nia.
    + intros ->. nia.
Qed.

Lemma cover_rank_range np chunk left y :
  np >= 1 -> chunk >= 1 -> left > 0 ->
  0 <= y < left - rnb np chunk left -> 0 <= y / chunk < np.
Proof.
  intros Hnp Hc Hl Hy. unfold rnb in Hy.
  pose proof (Z.div_mod y chunk ltac:(lia)) as Hdy.
  pose proof (Z.mod_pos_bound y chunk ltac:(lia)) as Hmy.
  set (qy := y / chunk) in *. set (my := y mod chunk) in *. clearbody qy my.
  destruct (Z.ltb_spec left (np * chunk)) as [Hp|Hp]; nia.
Qed.

(* a transfer (from_off, to_off, count) holds source position x *)
Definition tile_covers (t : Z * Z * Z) (x : Z) : Prop :=
  let '(fo, _, c) := t in fo <= x < fo + c.

Lemma znth_round_xs np chunk from to left i :
  0 <= i < np ->
  znth (map (fun r => (from + rnb np chunk left + r * chunk,
                       to + rnb np chunk left + r * chunk,
                       rcnt np chunk left r)) (zrange 0 np)) i (0, 0, 0)
  = (from + rnb np chunk left + i * chunk, to + rnb np chunk left + i * chunk, rcnt np chunk left i).
Proof.
  intros Hi.
  rewrite (znth_map _ (zrange 0 np) i 0 (0, 0, 0)) by (rewrite Zlen_zrange; lia).
  rewrite znth_zrange by lia. replace (0 + i) with i by lia. reflexivity.
Qed.

(** Deliverable 1 *)
Theorem round_partition :
  forall np chunk from to left nb xs,
    np >= 1 -> chunk >= 1 -> left > 0 ->
    move_round np chunk from to left = (nb, xs) ->
    (* progress *)
    0 <= nb < left /\ (nb = 0 \/ nb = left - chunk * np) /\
    (* one transfer per rank *)
    Zlen xs = np /\
    (* every tile: non-negative count, same shift, inside [from+nb, from+left) *)
    (forall i, 0 <= i < np ->
       let '(fo, to_, c) := znth xs i (0, 0, 0) in
       0 <= c <= chunk /\ to_ - fo = to - from /\
       (c > 0 -> from + nb <= fo /\ fo + c <= from + left)) /\
    (* every byte of [from+nb, from+left) lies in the tile of exactly one rank *)
    (forall x, from + nb <= x < from + left ->
       exists i, 0 <= i < np /\ tile_covers (znth xs i (0, 0, 0)) x /\
                 forall j, 0 <= j < np -> tile_covers (znth xs j (0, 0, 0)) x -> j = i) /\
    (* the tiles are pairwise disjoint *)
    (forall i j x, 0 <= i < np -> 0 <= j < np ->
       tile_covers (znth xs i (0, 0, 0)) x -> tile_covers (znth xs j (0, 0, 0)) x -> i = j).
Proof.
  intros np chunk from to left nb xs Hnp Hc Hl Hmr.
  rewrite move_round_eq in Hmr. injection Hmr as Hnb Hxs. subst nb xs.
  pose proof (rnb_range np chunk left Hnp Hc Hl) as [Hr1 Hr2].
  assert (Huniq : forall i x, 0 <= i < np ->
            tile_covers (znth (map (fun r => (from + rnb np chunk left + r * chunk,
                       to + rnb np chunk left + r * chunk,
                       rcnt np chunk left r)) (zrange 0 np)) i (0, 0, 0)) x ->
            from + rnb np chunk left <= x < from + left /\
            i = (x - from - rnb np chunk left) / chunk).
  { intros i x Hi Hcov. rewrite znth_round_xs in Hcov by exact Hi. cbn [tile_covers] in Hcov.
    pose proof (rcnt_bounds np chunk left i Hnp Hc Hl Hi) as [Hb1 Hb2].
    assert (Hin : from + rnb np chunk left <= x < from + left) by nia.
    split; [exact Hin|].
    apply (rcnt_cover np chunk left (x - from - rnb np chunk left) i); lia. }
  split; [exact Hr1|]. split; [exact Hr2|].
  split; [rewrite Zlen_map, Zlen_zrange; lia|].
  split; [|split].
  - intros i Hi. rewrite znth_round_xs by exact Hi.
    pose proof (rcnt_bounds np chunk left i Hnp Hc Hl Hi) as [Hb1 Hb2].
    split; [exact Hb1|]. split; [lia|]. intros Hpos. specialize (Hb2 Hpos). nia.
  - intros x Hx.
    set (y := x - from - rnb np chunk left).
    assert (Hy : 0 <= y < left - rnb np chunk left) by (unfold y; lia).
    pose proof (cover_rank_range np chunk left y Hnp Hc Hl Hy) as Hq.
    exists (y / chunk). split; [exact Hq|]. split.
    + rewrite znth_round_xs by exact Hq. cbn [tile_covers].
      pose proof (proj2 (rcnt_cover np chunk left y (y / chunk) Hnp Hc Hl Hy Hq) eq_refl) as H.
      unfold y in *. lia.
    + intros j Hj Hcov. destruct (Huniq j x Hj Hcov) as [_ E]. exact E.
  - intros i j x Hi Hj Hci Hcj.
    destruct (Huniq i x Hi Hci) as [_ Ei]. destruct (Huniq j x Hj Hcj) as [_ Ej]. lia.
Qed.

(* ====================================================================== *)
(** * 2. The rounds: move_rounds / move_file_block                         *)
(* ====================================================================== *)

Lemma move_rounds_S k d np chunk from to left :
  move_rounds (S k) d np chunk from to left =
  if left <=? 0 then d
  else let '(nb, xs) := move_round np chunk from to left in
       move_rounds k
         (fold_left (fun acc p => dk_write acc (fst p) (snd p))
            (map (fun x => let '(fo, to_, c) := x in (to_, dk_read d fo c)) xs) d)
         np chunk from to nb.
Proof. reflexivity. Qed.

(* the (destination offset, bytes) tile of rank r in the round that has [left] bytes to go *)
Definition rtile (d : disk) (np chunk from to left r : Z) : Z * list byte :=
  (to + rnb np chunk left + r * chunk,
   dk_read d (from + rnb np chunk left + r * chunk) (rcnt np chunk left r)).

(* the disk after one round *)
Definition round_disk (d : disk) (np chunk from to left : Z) : disk :=
  write_tiles (map (rtile d np chunk from to left) (zrange 0 np)) d.

Lemma move_rounds_step k d np chunk from to left :
  0 < left ->
  move_rounds (S k) d np chunk from to left =
  move_rounds k (round_disk d np chunk from to left) np chunk from to (rnb np chunk left).
Proof.
  intros Hl. rewrite move_rounds_S, move_round_eq.
  replace (left <=? 0) with false by lia.
  cbv beta iota. rewrite map_map. reflexivity.
Qed.

Lemma In_round_data d np chunk from to left q :
  In q (map (rtile d np chunk from to left) (zrange 0 np)) <->
  exists r, 0 <= r < np /\ q = rtile d np chunk from to left r.
Proof.
  rewrite in_map_iff. split.
  - intros [r [E Hr]]. exists r. rewrite In_zrange in Hr. split; [lia|now symmetry].
  - intros [r [Hr E]]. exists r. rewrite In_zrange. split; [now symmetry|lia].
Qed.

Lemma rtile_covers d np chunk from to left r x :
  np >= 1 -> chunk >= 1 -> left > 0 -> 0 <= r < np ->
  covers (rtile d np chunk from to left r) x ->
  to + rnb np chunk left <= x < to + left /\
  0 <= x - (to + rnb np chunk left + r * chunk) < rcnt np chunk left r.
Proof.
  intros Hnp Hc Hl Hr Hcov. unfold covers, rtile in Hcov. cbn [fst snd] in Hcov.
  rewrite Zlen_dk_read in Hcov.
  pose proof (rcnt_bounds np chunk left r Hnp Hc Hl Hr) as [Hb1 Hb2]. nia.
Qed.

(* effect of one round on the contents *)
Lemma round_disk_get d np chunk from to left x :
  np >= 1 -> chunk >= 1 -> left > 0 ->
  dk_get (round_disk d np chunk from to left) x =
  if (to + rnb np chunk left <=? x) && (x <? to + left)
  then dk_get d (x - (to - from)) else dk_get d x.
Proof.
  intros Hnp Hc Hl. unfold round_disk.
  pose proof (rnb_range np chunk left Hnp Hc Hl) as [Hr1 _].
  brk.
  - (* x inside the destination of this round *)
    apply write_tiles_get_in.
    + set (y := x - to - rnb np chunk left).
      assert (Hy : 0 <= y < left - rnb np chunk left) by (unfold y; lia).
      pose proof (cover_rank_range np chunk left y Hnp Hc Hl Hy) as Hq.
      exists (rtile d np chunk from to left (y / chunk)). split.
      * apply In_round_data. exists (y / chunk). split; [exact Hq|reflexivity].
      * unfold covers, rtile. cbn [fst snd]. rewrite Zlen_dk_read.
        pose proof (proj2 (rcnt_cover np chunk left y (y / chunk) Hnp Hc Hl Hy Hq) eq_refl) as Hcv.
        unfold y in *. lia.
    + intros q Hq Hcov. apply In_round_data in Hq. destruct Hq as [r [Hr ->]].
      destruct (rtile_covers d np chunk from to left r x Hnp Hc Hl Hr Hcov) as [_ Hi].
      unfold rtile. cbn [fst snd]. rewrite znth_dk_read by exact Hi. f_equal. lia.
  - apply write_tiles_get_out. intros q Hq Hcov.
    apply In_round_data in Hq. destruct Hq as [r [Hr ->]].
    destruct (rtile_covers d np chunk from to left r x Hnp Hc Hl Hr Hcov) as [Hx _]. lia.
  - apply write_tiles_get_out. intros q Hq Hcov.
    apply In_round_data in Hq. destruct Hq as [r [Hr ->]].
    destruct (rtile_covers d np chunk from to left r x Hnp Hc Hl Hr Hcov) as [Hx _]. lia.
  - apply write_tiles_get_out. intros q Hq Hcov.
    apply In_round_data in Hq. destruct Hq as [r [Hr ->]].
    destruct (rtile_covers d np chunk from to left r x Hnp Hc Hl Hr Hcov) as [Hx _]. lia.
Qed.

(* effect of one round on the extent: the tile holding the last byte ends at to+left *)
Lemma round_disk_size d np chunk from to left :
  np >= 1 -> chunk >= 1 -> left > 0 ->
  dk_size (round_disk d np chunk from to left) = Z.max (dk_size d) (to + left).
Proof.
  intros Hnp Hc Hl. unfold round_disk.
  pose proof (rnb_range np chunk left Hnp Hc Hl) as [Hr1 _].
  apply write_tiles_size.
  - intros q Hq Hpos. apply In_round_data in Hq. destruct Hq as [r [Hr ->]].
    unfold rtile in *. cbn [fst snd] in *. rewrite Zlen_dk_read in *.
    pose proof (rcnt_bounds np chunk left r Hnp Hc Hl Hr) as [Hb1 Hb2]. nia.
  - set (y := left - rnb np chunk left - 1).
    assert (Hy : 0 <= y < left - rnb np chunk left) by (unfold y; lia).
    pose proof (cover_rank_range np chunk left y Hnp Hc Hl Hy) as Hq.
    pose proof (proj2 (rcnt_cover np chunk left y (y / chunk) Hnp Hc Hl Hy Hq) eq_refl) as Hcv.
    pose proof (rcnt_bounds np chunk left (y / chunk) Hnp Hc Hl Hq) as [Hb1 Hb2].
    exists (rtile d np chunk from to left (y / chunk)). split; [|split].
    + apply In_round_data. exists (y / chunk). split; [exact Hq|reflexivity].
    + unfold rtile. cbn [snd]. rewrite Zlen_dk_read. lia.
    + unfold rtile. cbn [fst snd]. rewrite Zlen_dk_read. unfold y in *. lia.
Qed.

Lemma round_disk_exists d np chunk from to left :
  np >= 1 -> chunk >= 1 -> left > 0 ->
  dk_exists (round_disk d np chunk from to left) = true.
Proof.
  intros Hnp Hc Hl. unfold round_disk. rewrite write_tiles_exists.
  apply orb_true_iff. left. apply existsb_exists.
  pose proof (rnb_range np chunk left Hnp Hc Hl) as [Hr1 _].
  set (y := left - rnb np chunk left - 1).
  assert (Hy : 0 <= y < left - rnb np chunk left) by (unfold y; lia).
  pose proof (cover_rank_range np chunk left y Hnp Hc Hl Hy) as Hq.
  pose proof (proj2 (rcnt_cover np chunk left y (y / chunk) Hnp Hc Hl Hy Hq) eq_refl) as Hcv.
  exists (rtile d np chunk from to left (y / chunk)). split.
  - apply In_round_data. exists (y / chunk). split; [exact Hq|reflexivity].
  - unfold rtile. cbn [snd]. rewrite Zlen_dk_read. lia.
Qed.

(** Main invariant.  [left] bytes are still to be moved (the tail [from+left, from+n) has been
    processed).  A round writes only [to+nb, to+left); the bytes later rounds still have to read
    are [from, from+nb), which lie strictly below to+nb because from <= to.  Hence the rest of the
    work sees the original source bytes.  The fuel hypothesis says: enough rounds remain. *)
Lemma move_rounds_get :
  forall fuel d np chunk from to left x,
    np >= 1 -> chunk >= 1 -> from <= to -> 0 <= left ->
    left <= Z.of_nat fuel * (chunk * np) ->
    dk_get (move_rounds fuel d np chunk from to left) x =
    if (to <=? x) && (x <? to + left) then dk_get d (x - (to - from)) else dk_get d x.
Proof.
  induction fuel as [|k IH]; intros d np chunk from to left x Hnp Hc Hft Hl Hfuel.
  - assert (left = 0) by lia. subst left. cbn [move_rounds].
    replace ((to <=? x) && (x <? to + 0)) with false by lia. reflexivity.
  - destruct (Z.eq_dec left 0) as [E|E].
    + subst left. rewrite move_rounds_S. replace (0 <=? 0) with true by lia.
      replace ((to <=? x) && (x <? to + 0)) with false by lia. reflexivity.
    + assert (Hl' : left > 0) by lia.
      pose proof (rnb_range np chunk left Hnp Hc Hl') as [Hr1 Hr2].
      rewrite move_rounds_step by lia.
      rewrite IH; [|lia|lia|lia|lia|nia].
      rewrite !round_disk_get by lia.
      destruct (Z.leb_spec to x); destruct (Z.ltb_spec x (to + rnb np chunk left));
        destruct (Z.ltb_spec x (to + left));
        destruct (Z.leb_spec (to + rnb np chunk left) (x - (to - from)));
        destruct (Z.leb_spec (to + rnb np chunk left) x);
        destruct (Z.ltb_spec (x - (to - from)) (to + left));
        cbn [andb]; try reflexivity; try lia.
Qed.

Lemma move_rounds_size :
  forall fuel d np chunk from to left,
    np >= 1 -> chunk >= 1 -> 0 <= left ->
    left <= Z.of_nat fuel * (chunk * np) ->
    dk_size (move_rounds fuel d np chunk from to left) =
    if 0 <? left then Z.max (dk_size d) (to + left) else dk_size d.
Proof.
  induction fuel as [|k IH]; intros d np chunk from to left Hnp Hc Hl Hfuel.
  - assert (left = 0) by lia. subst left. reflexivity.
  - destruct (Z.eq_dec left 0) as [E|E].
    + subst left. reflexivity.
    + assert (Hl' : left > 0) by lia.
      pose proof (rnb_range np chunk left Hnp Hc Hl') as [Hr1 Hr2].
      rewrite move_rounds_step by lia.
      rewrite IH; [|lia|lia|lia|nia].
      rewrite round_disk_size by lia.
      destruct (Z.ltb_spec 0 (rnb np chunk left)); destruct (Z.ltb_spec 0 left); lia.
Qed.

Lemma move_rounds_exists :
  forall fuel d np chunk from to left,
    np >= 1 -> chunk >= 1 -> 0 <= left ->
    left <= Z.of_nat fuel * (chunk * np) ->
    dk_exists (move_rounds fuel d np chunk from to left) = (0 <? left) || dk_exists d.
Proof.
  induction fuel as [|k IH]; intros d np chunk from to left Hnp Hc Hl Hfuel.
  - assert (left = 0) by lia. subst left. reflexivity.
  - destruct (Z.eq_dec left 0) as [E|E].
    + subst left. reflexivity.
    + assert (Hl' : left > 0) by lia.
      pose proof (rnb_range np chunk left Hnp Hc Hl') as [Hr1 Hr2].
      rewrite move_rounds_step by lia.
      rewrite IH; [|lia|lia|lia|nia].
      rewrite round_disk_exists by lia.
      replace (0 <? left) with true by lia. apply orb_true_r.
Qed.

(* the chunk size chosen by move_file_block *)
Definition mfb_chunk (np unit_ n : Z) : Z :=
  let c0 := n / np + (if n mod np =? 0 then 0 else 1) in
  if c0 >? unit_ then unit_ else c0.

Lemma move_file_block_unfold d np unit_ to from n :
  move_file_block d np unit_ to from n =
  if n <=? 0 then d
  else move_rounds (Z.to_nat (n / (mfb_chunk np unit_ n * np) + 2)) d np
                   (mfb_chunk np unit_ n) from to n.
Proof. reflexivity. Qed.

Lemma mfb_chunk_pos np unit_ n : np >= 1 -> unit_ >= 1 -> n > 0 -> mfb_chunk np unit_ n >= 1.
Proof.
  intros Hnp Hu Hn. unfold mfb_chunk.
  pose proof (Z.div_mod n np ltac:(lia)) as Hdm.
  pose proof (Z.mod_pos_bound n np ltac:(lia)) as Hm.
  set (q := n / np) in *. set (m := n mod np) in *. clearbody q m.
  assert (0 <= q) by nia.
  destruct (Z.eqb_spec m 0) as [E|E].
  - assert (q >= 1) by nia. destruct (Z.gtb_spec (q + 0) unit_); lia.
  - destruct (Z.gtb_spec (q + 1) unit_); lia.
Qed.

(* the fuel given by move_file_block is enough: the out-of-fuel branch is never reached with
   work left *)
Lemma mfb_fuel_enough np c n :
  np >= 1 -> c >= 1 -> n > 0 ->
  n <= Z.of_nat (Z.to_nat (n / (c * np) + 2)) * (c * np).
Proof.
  intros Hnp Hc Hn.
  assert (Hcn : 0 < c * np) by nia.
  pose proof (Z.div_mod n (c * np) ltac:(lia)) as Hdm.
  pose proof (Z.mod_pos_bound n (c * np) Hcn) as Hm.
  set (cn := c * np) in *. set (q := n / cn) in *. set (m := n mod cn) in *. clearbody cn q m.
  assert (0 <= q) by nia.
  rewrite Z2Nat.id by lia. nia.
Qed.

(** Deliverable 2 *)
Theorem move_file_block_correct :
  forall d np unit_ to from n x,
    np >= 1 -> unit_ >= 1 -> from <= to -> 0 <= n ->
    dk_get (move_file_block d np unit_ to from n) x =
    if (to <=? x) && (x <? to + n) then dk_get d (x - (to - from)) else dk_get d x.
Proof.
  intros d np unit_ to from n x Hnp Hu Hft Hn.
  rewrite move_file_block_unfold.
  destruct (Z.leb_spec n 0) as [H0|H0].
  - replace ((to <=? x) && (x <? to + n)) with false by lia. reflexivity.
  - pose proof (mfb_chunk_pos np unit_ n Hnp Hu ltac:(lia)) as Hc.
    apply move_rounds_get; try lia. apply mfb_fuel_enough; lia.
Qed.

(* the statement exactly as requested (with the superfluous 0 <= from) *)
Corollary move_file_block_correct' :
  forall d np unit_ to from n x,
    np >= 1 -> unit_ >= 1 -> 0 <= from <= to -> 0 <= n ->
    dk_get (move_file_block d np unit_ to from n) x =
    if (to <=? x) && (x <? to + n) then dk_get d (x - (to - from)) else dk_get d x.
Proof. intros. apply move_file_block_correct; lia. Qed.

Theorem move_file_block_size :
  forall d np unit_ to from n,
    np >= 1 -> unit_ >= 1 ->
    dk_size (move_file_block d np unit_ to from n) =
    if 0 <? n then Z.max (dk_size d) (to + n) else dk_size d.
Proof.
  intros d np unit_ to from n Hnp Hu.
  rewrite move_file_block_unfold.
  destruct (Z.leb_spec n 0) as [H0|H0].
  - replace (0 <? n) with false by lia. reflexivity.
  - pose proof (mfb_chunk_pos np unit_ n Hnp Hu ltac:(lia)) as Hc.
    apply move_rounds_size; try lia. apply mfb_fuel_enough; lia.
Qed.

Theorem move_file_block_exists :
  forall d np unit_ to from n,
    np >= 1 -> unit_ >= 1 ->
    dk_exists (move_file_block d np unit_ to from n) = (0 <? n) || dk_exists d.
Proof.
  intros d np unit_ to from n Hnp Hu.
  rewrite move_file_block_unfold.
  destruct (Z.leb_spec n 0) as [H0|H0].
  - replace (0 <? n) with false by lia. reflexivity.
  - pose proof (mfb_chunk_pos np unit_ n Hnp Hu ltac:(lia)) as Hc.
    apply move_rounds_exists; try lia. apply mfb_fuel_enough; lia.
Qed.

(* handy corollaries *)
Corollary move_file_block_moved d np unit_ to from n o :
  np >= 1 -> unit_ >= 1 -> from <= to -> 0 <= o < n ->
  dk_get (move_file_block d np unit_ to from n) (to + o) = dk_get d (from + o).
Proof.
  intros Hnp Hu Hft Ho. rewrite move_file_block_correct by lia.
  replace ((to <=? to + o) && (to + o <? to + n)) with true by lia. f_equal. lia.
Qed.

Corollary move_file_block_frame d np unit_ to from n x :
  np >= 1 -> unit_ >= 1 -> from <= to -> 0 <= n -> (x < to \/ to + n <= x) ->
  dk_get (move_file_block d np unit_ to from n) x = dk_get d x.
Proof.
  intros Hnp Hu Hft Hn Hx. rewrite move_file_block_correct by lia.
  replace ((to <=? x) && (x <? to + n)) with false by lia. reflexivity.
Qed.

(* ====================================================================== *)
(** * 3. move_record_vars                                                  *)
(* ====================================================================== *)

Definition rec_step (np unit_ : Z) (nl ol : layout) (acc : disk) (recno : Z) : disk :=
  move_file_block acc np unit_
    (l_begin_rec nl + recno * l_recsize nl)
    (l_begin_rec ol + recno * l_recsize ol) (l_recsize ol).

Lemma move_record_vars_unfold d np unit_ numrecs nl ol :
  move_record_vars d np unit_ numrecs nl ol =
  if l_recsize nl =? l_recsize ol then
    if l_recsize nl =? 0 then d
    else move_file_block d np unit_ (l_begin_rec nl) (l_begin_rec ol) (l_recsize nl * numrecs)
  else fold_left (rec_step np unit_ nl ol) (rev (zrange 0 numrecs)) d.
Proof. reflexivity. Qed.

(* x lies in the new place of one of the (old-sized) records r < m *)
Definition in_new_record (nl ol : layout) (m x : Z) : Prop :=
  exists r, 0 <= r < m /\
    l_begin_rec nl + r * l_recsize nl <= x < l_begin_rec nl + r * l_recsize nl + l_recsize ol.

(* the per-record loop, records m-1 down to 0, started from an arbitrary disk:
   record r is moved after all records > r; its source [ob + r*ors, ob + (r+1)*ors) lies below
   every destination written so far (>= nb + (r+1)*nrs), and its destination ends at or below
   nb + (r+1)*nrs, the lowest byte of an already moved record. *)
Lemma rec_loop np unit_ nl ol :
  np >= 1 -> unit_ >= 1 ->
  l_begin_rec nl >= l_begin_rec ol -> l_recsize nl >= l_recsize ol -> l_recsize ol >= 0 ->
  forall m d,
    (forall r o, 0 <= r < Z.of_nat m -> 0 <= o < l_recsize ol ->
       dk_get (fold_left (rec_step np unit_ nl ol) (rev (zseq 0 m)) d)
              (l_begin_rec nl + r * l_recsize nl + o)
       = dk_get d (l_begin_rec ol + r * l_recsize ol + o)) /\
    (forall x, ~ in_new_record nl ol (Z.of_nat m) x ->
       dk_get (fold_left (rec_step np unit_ nl ol) (rev (zseq 0 m)) d) x = dk_get d x).
Proof.
  intros Hnp Hu Hb Hrs Hors.
  set (nb := l_begin_rec nl) in *. set (ob := l_begin_rec ol) in *.
  set (nrs := l_recsize nl) in *. set (ors := l_recsize ol) in *.
  induction m as [|m IH]; intros d.
  - split.
    + intros r o Hr. lia.
    + intros x _. reflexivity.
  - rewrite rev_zseq_S. cbn [fold_left]. replace (0 + Z.of_nat m) with (Z.of_nat m) by lia.
    set (M := Z.of_nat m) in *.
    assert (HM : 0 <= M) by (unfold M; lia).
    assert (HSM : Z.of_nat (S m) = M + 1) by (unfold M; lia).
    set (d1 := rec_step np unit_ nl ol d M).
    destruct (IH d1) as [IH1 IH2].
    assert (Hget1 : forall x, dk_get d1 x =
              if (nb + M * nrs <=? x) && (x <? nb + M * nrs + ors)
              then dk_get d (x - (nb + M * nrs - (ob + M * ors))) else dk_get d x).
    { intros x. unfold d1, rec_step. fold nb ob nrs ors.
      apply move_file_block_correct; try lia. nia. }
    split.
    + intros r o Hr Ho. destruct (Z.eq_dec r M) as [E|E].
      * subst r. rewrite IH2.
        -- rewrite Hget1.
           replace ((nb + M * nrs <=? nb + M * nrs + o) && (nb + M * nrs + o <? nb + M * nrs + ors))
             with true by lia.
           f_equal. lia.
        -- intros [r [Hr' Hx]]. fold nb nrs ors in Hx. nia.
      * rewrite IH1 by lia. rewrite Hget1.
        replace ((nb + M * nrs <=? ob + r * ors + o) && (ob + r * ors + o <? nb + M * nrs + ors))
          with false; [reflexivity|].
        assert (r + 1 <= M) by lia.
        assert (ob + r * ors + o < nb + M * nrs) by nia. lia.
    + intros x Hx. rewrite IH2.
      * rewrite Hget1.
        replace ((nb + M * nrs <=? x) && (x <? nb + M * nrs + ors)) with false; [reflexivity|].
        destruct (Z.leb_spec (nb + M * nrs) x); destruct (Z.ltb_spec x (nb + M * nrs + ors));
          cbn [andb]; try reflexivity.
        exfalso. apply Hx. exists M. fold nb nrs ors. lia.
      * intros [r [Hr' Hx']]. apply Hx. exists r. split; [lia|exact Hx'].
Qed.

(** Deliverable 3 *)
Theorem move_record_vars_correct :
  forall d np unit_ numrecs nl ol,
    np >= 1 -> unit_ >= 1 -> 0 <= numrecs ->
    l_begin_rec nl >= l_begin_rec ol ->
    l_recsize nl >= l_recsize ol -> l_recsize ol >= 0 ->
    (* every byte of every old record arrives at its new place *)
    (forall r o, 0 <= r < numrecs -> 0 <= o < l_recsize ol ->
       dk_get (move_record_vars d np unit_ numrecs nl ol)
              (l_begin_rec nl + r * l_recsize nl + o)
       = dk_get d (l_begin_rec ol + r * l_recsize ol + o)) /\
    (* nothing outside the new places of the records changes *)
    (forall x, ~ in_new_record nl ol numrecs x ->
       dk_get (move_record_vars d np unit_ numrecs nl ol) x = dk_get d x) /\
    (* in particular everything below the new (hence below the old) record section *)
    (forall x, x < l_begin_rec nl ->
       dk_get (move_record_vars d np unit_ numrecs nl ol) x = dk_get d x).
Proof.
  intros d np unit_ numrecs nl ol Hnp Hu Hnr Hb Hrs Hors.
  assert (Hmain :
    (forall r o, 0 <= r < numrecs -> 0 <= o < l_recsize ol ->
       dk_get (move_record_vars d np unit_ numrecs nl ol)
              (l_begin_rec nl + r * l_recsize nl + o)
       = dk_get d (l_begin_rec ol + r * l_recsize ol + o)) /\
    (forall x, ~ in_new_record nl ol numrecs x ->
       dk_get (move_record_vars d np unit_ numrecs nl ol) x = dk_get d x)).
  { rewrite move_record_vars_unfold.
    destruct (Z.eqb_spec (l_recsize nl) (l_recsize ol)) as [E|E]; [unfold in_new_record|].
    - destruct (Z.eqb_spec (l_recsize nl) 0) as [E0|E0].
      + split; [intros r o Hr Ho; lia | reflexivity].
      + set (nb := l_begin_rec nl) in *. set (ob := l_begin_rec ol) in *.
        set (rs := l_recsize nl) in *. set (ors := l_recsize ol) in *.
        clearbody nb ob rs ors. subst ors.
        split.
        * intros r o Hr Ho. rewrite move_file_block_correct by nia.
          replace ((nb <=? nb + r * rs + o) && (nb + r * rs + o <? nb + rs * numrecs)) with true.
          -- f_equal. lia.
          -- assert (r + 1 <= numrecs) by lia. assert (r * rs + o < rs * numrecs) by nia.
             assert (0 <= r * rs) by nia. lia.
        * intros x Hx. rewrite move_file_block_correct by nia.
          replace ((nb <=? x) && (x <? nb + rs * numrecs)) with false; [reflexivity|].
          destruct (Z.leb_spec nb x); destruct (Z.ltb_spec x (nb + rs * numrecs));
            cbn [andb]; try reflexivity.
          exfalso. apply Hx.
          assert (Hrs0 : 0 < rs) by lia.
          pose proof (Z.div_mod (x - nb) rs ltac:(lia)) as Hdm.
          pose proof (Z.mod_pos_bound (x - nb) rs Hrs0) as Hm.
          exists ((x - nb) / rs).
          set (q := (x - nb) / rs) in *. set (t := (x - nb) mod rs) in *. clearbody q t.
          split; nia.
    - unfold zrange.
      pose proof (rec_loop np unit_ nl ol Hnp Hu Hb Hrs Hors (Z.to_nat numrecs) d) as H.
      rewrite Z2Nat.id in H by lia. exact H. }
  destruct Hmain as [H1 H2]. split; [exact H1|]. split; [exact H2|].
  intros x Hx. apply H2. intros [r [Hr Hin]].
  assert (0 <= r * l_recsize nl) by nia. lia.
Qed.

(* ====================================================================== *)
(** * 4. move_fixed_vars                                                   *)
(* ====================================================================== *)

Definition fv_isfix (oh : hdr) (i : Z) : bool :=
  negb (is_recvar (h_dims oh) (znth (h_vars oh) i (mkvar [] [] [] 0 0 true))).
Definition fv_from (ol : layout) (i : Z) : Z := znth (l_begins ol) i 0.
Definition fv_to (nl : layout) (i : Z) : Z := znth (l_begins nl) i 0.
Definition fv_len (newlens : list Z) (i : Z) : Z := znth newlens i 0.

(* Hypotheses on the begins / lens lists, over the fixed-size variables of the OLD header, in
   definition order: lengths non-negative, no variable moves down, old extents increasing and
   non-overlapping, new extents increasing and non-overlapping. *)
Definition fixed_move_ok (oh : hdr) (nl ol : layout) (newlens : list Z) : Prop :=
  (forall i, 0 <= i < Zlen (h_vars oh) -> fv_isfix oh i = true ->
     0 <= fv_len newlens i /\ fv_from ol i <= fv_to nl i) /\
  (forall i j, 0 <= i -> i < j -> j < Zlen (h_vars oh) ->
     fv_isfix oh i = true -> fv_isfix oh j = true ->
     fv_from ol i + fv_len newlens i <= fv_from ol j /\
     fv_to nl i + fv_len newlens i <= fv_to nl j).

Definition fix_step (np unit_ : Z) (oh : hdr) (nl ol : layout) (newlens : list Z)
           (acc : disk) (i : Z) : disk :=
  let ov := znth (h_vars oh) i (mkvar [] [] [] 0 0 true) in
  if is_recvar (h_dims oh) ov then acc
  else
    let from := znth (l_begins ol) i 0 in
    let to := znth (l_begins nl) i 0 in
    if to >? from then move_file_block acc np unit_ to from (znth newlens i 0) else acc.

Lemma move_fixed_vars_unfold d np unit_ oh nl ol newlens :
  move_fixed_vars d np unit_ oh nl ol newlens =
  fold_left (fix_step np unit_ oh nl ol newlens) (rev (zrange 0 (Zlen (h_vars oh)))) d.
Proof. reflexivity. Qed.

(* x lies in the new place of a fixed variable i < m that really moves *)
Definition in_moved_fixed (oh : hdr) (nl ol : layout) (newlens : list Z) (m x : Z) : Prop :=
  exists i, 0 <= i < m /\ fv_isfix oh i = true /\ fv_from ol i < fv_to nl i /\
            fv_to nl i <= x < fv_to nl i + fv_len newlens i.

Section FixedVars.
  Variables (np unit_ : Z) (oh : hdr) (nl ol : layout) (newlens : list Z).
  Hypothesis Hnp : np >= 1.
  Hypothesis Hu : unit_ >= 1.
  Hypothesis Hok : fixed_move_ok oh nl ol newlens.

  Let step := fix_step np unit_ oh nl ol newlens.
  Let nv := Zlen (h_vars oh).

  (* effect of processing variable i alone *)
  Lemma fix_step_get acc i x :
    0 <= i < nv ->
    dk_get (step acc i) x =
    if fv_isfix oh i && (fv_from ol i <? fv_to nl i) &&
       ((fv_to nl i <=? x) && (x <? fv_to nl i + fv_len newlens i))
    then dk_get acc (x - (fv_to nl i - fv_from ol i)) else dk_get acc x.
  Proof.
    intros Hi. unfold step, fix_step, fv_isfix, fv_from, fv_to, fv_len in *.
    destruct Hok as [Hok1 _]. specialize (Hok1 i Hi).
    unfold fv_isfix, fv_from, fv_to, fv_len in Hok1.
    destruct (is_recvar (h_dims oh) (znth (h_vars oh) i (mkvar [] [] [] 0 0 true))).
    - reflexivity.
    - cbn [negb andb]. specialize (Hok1 eq_refl).
      set (F := znth (l_begins ol) i 0) in *. set (T := znth (l_begins nl) i 0) in *.
      set (L := znth newlens i 0) in *.
      destruct (Z.gtb_spec T F) as [H|H].
      + replace (F <? T) with true by lia. cbn [andb].
        apply move_file_block_correct; lia.
      + replace (F <? T) with false by lia. reflexivity.
  Qed.

  (* moving variable i disturbs neither the not-yet-moved variables j < i (old places) nor the
     already moved variables j > i (new places) *)
  Lemma fix_step_no_clobber acc i j o :
    0 <= i < nv -> 0 <= j < nv -> fv_isfix oh j = true -> 0 <= o < fv_len newlens j ->
    (j < i -> dk_get (step acc i) (fv_from ol j + o) = dk_get acc (fv_from ol j + o)) /\
    (i < j -> dk_get (step acc i) (fv_to nl j + o) = dk_get acc (fv_to nl j + o)).
  Proof.
    intros Hi Hj Hfj Ho. destruct Hok as [Hok1 Hok2].
    split; intros Hlt; rewrite fix_step_get by exact Hi.
    - destruct (fv_isfix oh i) eqn:Hfi; [|reflexivity].
      pose proof (Hok1 i Hi Hfi) as [? ?].
      pose proof (Hok2 j i ltac:(lia) Hlt ltac:(lia) Hfj Hfi) as [? ?].
      replace ((fv_to nl i <=? fv_from ol j + o) &&
               (fv_from ol j + o <? fv_to nl i + fv_len newlens i)) with false by lia.
      rewrite andb_false_r. reflexivity.
    - destruct (fv_isfix oh i) eqn:Hfi; [|reflexivity].
      pose proof (Hok1 i Hi Hfi) as [? ?].
      pose proof (Hok2 i j ltac:(lia) Hlt ltac:(lia) Hfi Hfj) as [? ?].
      replace ((fv_to nl i <=? fv_to nl j + o) &&
               (fv_to nl j + o <? fv_to nl i + fv_len newlens i)) with false by lia.
      rewrite andb_false_r. reflexivity.
  Qed.

  (* the loop over variables m-1 down to 0, started from an arbitrary disk *)
  Lemma fix_loop :
    forall m d, Z.of_nat m <= nv ->
      (forall i o, 0 <= i < Z.of_nat m -> fv_isfix oh i = true -> 0 <= o < fv_len newlens i ->
         dk_get (fold_left step (rev (zseq 0 m)) d) (fv_to nl i + o) = dk_get d (fv_from ol i + o)) /\
      (forall x, ~ in_moved_fixed oh nl ol newlens (Z.of_nat m) x ->
         dk_get (fold_left step (rev (zseq 0 m)) d) x = dk_get d x).
  Proof.
    destruct Hok as [Hok1 Hok2].
    induction m as [|m IH]; intros d Hm.
    - split.
      + intros i o Hi. lia.
      + intros x _. reflexivity.
    - rewrite rev_zseq_S. cbn [fold_left]. replace (0 + Z.of_nat m) with (Z.of_nat m) by lia.
      set (M := Z.of_nat m) in *.
      assert (HM : 0 <= M < nv) by (unfold M; lia).
      set (d1 := step d M).
      destruct (IH d1 ltac:(lia)) as [IH1 IH2].
      split.
      + intros i o Hi Hfi Ho. destruct (Z.eq_dec i M) as [E|E].
        * subst i. pose proof (Hok1 M HM Hfi) as [HL HFT].
          rewrite IH2.
          -- unfold d1. rewrite fix_step_get by exact HM. rewrite Hfi. cbn [andb].
             replace ((fv_to nl M <=? fv_to nl M + o) &&
                      (fv_to nl M + o <? fv_to nl M + fv_len newlens M)) with true by lia.
             rewrite andb_true_r.
             destruct (Z.ltb_spec (fv_from ol M) (fv_to nl M)); f_equal; lia.
          -- intros [i [Hi' [Hfi' [Hmv Hx]]]].
             pose proof (Hok2 i M ltac:(lia) ltac:(lia) ltac:(lia) Hfi' Hfi) as [? ?]. lia.
        * rewrite IH1 by (try assumption; lia).
          assert (HiM : i < M) by lia.
          destruct (fix_step_no_clobber d M i o HM ltac:(lia) Hfi Ho) as [Hnc _].
          exact (Hnc HiM).
      + intros x Hx. rewrite IH2.
        * unfold d1. rewrite fix_step_get by exact HM.
          destruct (fv_isfix oh M && (fv_from ol M <? fv_to nl M) &&
                    ((fv_to nl M <=? x) && (x <? fv_to nl M + fv_len newlens M))) eqn:Ec;
            [|reflexivity].
          exfalso. apply Hx. exists M. lia.
        * intros [i [Hi' Hrest]]. apply Hx. exists i. split; [lia|exact Hrest].
  Qed.

  (** Deliverable 4 *)
  Theorem move_fixed_vars_correct_sec :
    forall d,
      (* each fixed variable's bytes are found at its new begin (which equals the old begin
         when the variable does not move) *)
      (forall i o, 0 <= i < nv -> fv_isfix oh i = true -> 0 <= o < fv_len newlens i ->
         dk_get (move_fixed_vars d np unit_ oh nl ol newlens) (fv_to nl i + o)
         = dk_get d (fv_from ol i + o)) /\
      (* nothing outside the new places of the moved variables changes *)
      (forall x, ~ in_moved_fixed oh nl ol newlens nv x ->
         dk_get (move_fixed_vars d np unit_ oh nl ol newlens) x = dk_get d x).
  Proof.
    intros d. rewrite move_fixed_vars_unfold. unfold zrange. fold nv. fold step.
    pose proof (Zlen_nonneg (h_vars oh)) as Hnv. fold nv in Hnv.
    pose proof (fix_loop (Z.to_nat nv) d ltac:(lia)) as H.
    rewrite Z2Nat.id in H by lia. exact H.
  Qed.
End FixedVars.

Theorem move_fixed_vars_correct :
  forall d np unit_ oh nl ol newlens,
    np >= 1 -> unit_ >= 1 -> fixed_move_ok oh nl ol newlens ->
    (forall i o, 0 <= i < Zlen (h_vars oh) -> fv_isfix oh i = true -> 0 <= o < fv_len newlens i ->
       dk_get (move_fixed_vars d np unit_ oh nl ol newlens) (fv_to nl i + o)
       = dk_get d (fv_from ol i + o)) /\
    (forall x, ~ in_moved_fixed oh nl ol newlens (Zlen (h_vars oh)) x ->
       dk_get (move_fixed_vars d np unit_ oh nl ol newlens) x = dk_get d x).
Proof.
  intros d np unit_ oh nl ol newlens Hnp Hu Hok.
  exact (move_fixed_vars_correct_sec np unit_ oh nl ol newlens Hnp Hu Hok d).
Qed.

(* one step never clobbers another variable, stated outside the section *)
Theorem move_fixed_step_no_clobber :
  forall np unit_ oh nl ol newlens acc i j o,
    np >= 1 -> unit_ >= 1 -> fixed_move_ok oh nl ol newlens ->
    0 <= i < Zlen (h_vars oh) -> 0 <= j < Zlen (h_vars oh) ->
    fv_isfix oh j = true -> 0 <= o < fv_len newlens j ->
    (j < i -> dk_get (fix_step np unit_ oh nl ol newlens acc i) (fv_from ol j + o)
              = dk_get acc (fv_from ol j + o)) /\
    (i < j -> dk_get (fix_step np unit_ oh nl ol newlens acc i) (fv_to nl j + o)
              = dk_get acc (fv_to nl j + o)).
Proof.
  intros np unit_ oh nl ol newlens acc i j o Hnp Hu Hok.
  exact (fix_step_no_clobber np unit_ oh nl ol newlens Hnp Hu Hok acc i j o).
Qed.

(* the name used in the task statement *)
Definition move_rounds_correct := move_rounds_get.

(* ====================================================================== *)
(** * 5. Concrete instances (hypotheses are satisfiable; vm_compute sweeps) *)
(* ====================================================================== *)

(* a 40-byte file holding 100+x at position x *)
Definition ex_disk : disk :=
  mkdisk true 40 (fun x => if (0 <=? x) && (x <? 40) then 100 + x else 0).

(* round 1 of moving 26 bytes from 10 to 15 with 3 ranks, unit 4 (chunk 4): full round *)
Example ex_round_full :
  move_round 3 4 10 15 26 = (14, [(24, 29, 4); (28, 33, 4); (32, 37, 4)]).
Proof. vm_compute. reflexivity. Qed.

(* the last, partial round (2 bytes left): rank 0 moves 2 bytes, ranks 1,2 nothing *)
Example ex_round_partial :
  move_round 3 4 10 15 2 = (0, [(10, 15, 2); (14, 19, 0); (18, 23, 0)]).
Proof. vm_compute. reflexivity. Qed.

(* a partial round in which rank rem gets the remainder: 7 bytes left *)
Example ex_round_partial2 :
  move_round 3 4 10 15 7 = (0, [(10, 15, 4); (14, 19, 3); (18, 23, 0)]).
Proof. vm_compute. reflexivity. Qed.

Example ex_round_partition_hyps :
  3 >= 1 /\ 4 >= 1 /\ 26 > 0 /\
  move_round 3 4 10 15 26 = (14, [(24, 29, 4); (28, 33, 4); (32, 37, 4)]).
Proof. repeat split; try lia. Qed.

(* overlapping move: nprocs 3, unit 4, n = 26, to - from = 5: three rounds (12, 12, 2 bytes) *)
Example ex_move_file_block :
  map (dk_get (move_file_block ex_disk 3 4 15 10 26)) (zrange 0 61) =
  map (fun x => if (15 <=? x) && (x <? 15 + 26) then dk_get ex_disk (x - (15 - 10))
                else dk_get ex_disk x) (zrange 0 61)
  /\ dk_size (move_file_block ex_disk 3 4 15 10 26) = 41
  /\ dk_exists (move_file_block ex_disk 3 4 15 10 26) = true.
Proof. vm_compute. repeat split; reflexivity. Qed.

(* the same through the theorem (hypotheses satisfiable) *)
Example ex_move_file_block_thm x :
  dk_get (move_file_block ex_disk 3 4 15 10 26) x =
  if (15 <=? x) && (x <? 15 + 26) then dk_get ex_disk (x - (15 - 10)) else dk_get ex_disk x.
Proof. apply move_file_block_correct; lia. Qed.

(* other shapes: 1 rank; unit larger than the share; nbytes a multiple of chunk*nprocs;
   shift larger than the block (no overlap); shift 0 *)
Example ex_move_file_block_more :
  forallb (fun p : Z * Z * Z * Z * Z =>
     let '(np, u, to, from, n) := p in
     list_eqb Z.eqb
       (map (dk_get (move_file_block ex_disk np u to from n)) (zrange 0 81))
       (map (fun x => if (to <=? x) && (x <? to + n) then dk_get ex_disk (x - (to - from))
                      else dk_get ex_disk x) (zrange 0 81)))
    [(1, 4, 15, 10, 26); (3, 100, 15, 10, 26); (3, 4, 11, 10, 24); (2, 3, 50, 5, 30);
     (4, 1, 7, 7, 13); (5, 2, 3, 2, 1); (7, 3, 12, 0, 40); (2, 5, 9, 4, 0)] = true.
Proof. vm_compute. reflexivity. Qed.

(* record section: old begin 20, recsize 6; new begin 24, recsize 10; 3 records
   (per-record branch) *)
Definition ex_ol : layout := mklayout 0 0 20 6 [].
Definition ex_nl : layout := mklayout 0 0 24 10 [].

Example ex_move_record_vars :
  map (dk_get (move_record_vars ex_disk 3 4 3 ex_nl ex_ol)) (zrange 0 61) =
  map (fun x =>
         if (24 <=? x) && (x <? 30) then dk_get ex_disk (20 + (x - 24))
         else if (34 <=? x) && (x <? 40) then dk_get ex_disk (26 + (x - 34))
         else if (44 <=? x) && (x <? 50) then dk_get ex_disk (32 + (x - 44))
         else dk_get ex_disk x) (zrange 0 61).
Proof. vm_compute. reflexivity. Qed.

Example ex_move_record_vars_hyps :
  3 >= 1 /\ 4 >= 1 /\ 0 <= 3 /\ l_begin_rec ex_nl >= l_begin_rec ex_ol /\
  l_recsize ex_nl >= l_recsize ex_ol /\ l_recsize ex_ol >= 0.
Proof. cbn. lia. Qed.

(* equal record size: one block move of 3*6 bytes from 20 to 24 *)
Definition ex_nl_same : layout := mklayout 0 0 24 6 [].
Example ex_move_record_vars_same :
  map (dk_get (move_record_vars ex_disk 3 4 3 ex_nl_same ex_ol)) (zrange 0 61) =
  map (fun x => if (24 <=? x) && (x <? 42) then dk_get ex_disk (x - 4) else dk_get ex_disk x)
      (zrange 0 61).
Proof. vm_compute. reflexivity. Qed.

(* fixed variables: dims [unlimited; 4]; v0 fixed, v1 record, v2 fixed.
   old begins 8, (100), 16; new begins 12, (100), 24; lengths 8, -, 6 *)
Definition ex_oh : hdr :=
  mkhdr 1 0 [mkdim [] 0; mkdim [] 4] []
        [mkvar [97] [1] [] 5 8 false; mkvar [98] [0] [] 5 100 false; mkvar [99] [1] [] 5 16 false].
Definition ex_fol : layout := mklayout 0 8 100 4 [8; 100; 16].
Definition ex_fnl : layout := mklayout 0 12 100 4 [12; 100; 24].
Definition ex_lens : list Z := [8; 4; 6].

Example ex_fixed_move_ok : fixed_move_ok ex_oh ex_fnl ex_fol ex_lens.
Proof.
  split.
  - intros i Hi Hf. change (Zlen (h_vars ex_oh)) with 3 in Hi.
    assert (Hc : i = 0 \/ i = 1 \/ i = 2) by lia.
    destruct Hc as [ -> | [ -> | -> ] ]; vm_compute in Hf |- *; try discriminate Hf; split; congruence.
  - intros i j Hi Hij Hj Hfi Hfj. change (Zlen (h_vars ex_oh)) with 3 in Hj.
    assert (Hc : (i = 0 /\ j = 1) \/ (i = 0 /\ j = 2) \/ (i = 1 /\ j = 2)) by lia.
    destruct Hc as [ [ -> -> ] | [ [ -> -> ] | [ -> -> ] ] ];
      vm_compute in Hfi, Hfj |- *; try discriminate Hfi; try discriminate Hfj; split; congruence.
Qed.

Example ex_move_fixed_vars :
  map (dk_get (move_fixed_vars ex_disk 3 4 ex_oh ex_fnl ex_fol ex_lens)) (zrange 0 61) =
  map (fun x =>
         if (12 <=? x) && (x <? 20) then dk_get ex_disk (8 + (x - 12))
         else if (24 <=? x) && (x <? 30) then dk_get ex_disk (16 + (x - 24))
         else dk_get ex_disk x) (zrange 0 61).
Proof. vm_compute. reflexivity. Qed.

(* the theorems instantiated on the examples: every hypothesis is discharged *)
Example ex_round_partition_thm :=
  round_partition 3 4 10 15 26 14 [(24, 29, 4); (28, 33, 4); (32, 37, 4)]
    ltac:(lia) ltac:(lia) ltac:(lia) ex_round_full.

Example ex_move_record_vars_thm :=
  move_record_vars_correct ex_disk 3 4 3 ex_nl ex_ol
    ltac:(lia) ltac:(lia) ltac:(lia) ltac:(cbn; lia) ltac:(cbn; lia) ltac:(cbn; lia).

Example ex_move_fixed_vars_thm :=
  move_fixed_vars_correct ex_disk 3 4 ex_oh ex_fnl ex_fol ex_lens
    ltac:(lia) ltac:(lia) ex_fixed_move_ok.

Print Assumptions round_partition.
Print Assumptions move_rounds_correct.
Print Assumptions move_file_block_correct.
Print Assumptions move_file_block_size.
Print Assumptions move_file_block_exists.
Print Assumptions move_record_vars_correct.
Print Assumptions move_fixed_vars_correct.
Print Assumptions move_fixed_step_no_clobber.
