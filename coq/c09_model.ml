
(** val negb : bool -> bool **)

let negb = function
| true -> false
| false -> true

type nat =
| O
| S of nat

(** val option_map : ('a1 -> 'a2) -> 'a1 option -> 'a2 option **)

let option_map f = function
| Some a -> Some (f a)
| None -> None

type comparison =
| Eq
| Lt
| Gt

(** val compOpp : comparison -> comparison **)

let compOpp = function
| Eq -> Eq
| Lt -> Gt
| Gt -> Lt

module Coq__1 = struct
 (** val add : nat -> nat -> nat **)
 let rec add n m =
   match n with
   | O -> m
   | S p -> S (add p m)
end
include Coq__1

type positive =
| XI of positive
| XO of positive
| XH

type z =
| Z0
| Zpos of positive
| Zneg of positive

(** val eqb : bool -> bool -> bool **)

let eqb b1 b2 =
  if b1 then b2 else if b2 then false else true

module Pos =
 struct
  (** val succ : positive -> positive **)

  let rec succ = function
  | XI p -> XO (succ p)
  | XO p -> XI p
  | XH -> XO XH

  (** val add : positive -> positive -> positive **)

  let rec add x y =
    match x with
    | XI p ->
      (match y with
       | XI q -> XO (add_carry p q)
       | XO q -> XI (add p q)
       | XH -> XO (succ p))
    | XO p ->
      (match y with
       | XI q -> XI (add p q)
       | XO q -> XO (add p q)
       | XH -> XI p)
    | XH -> (match y with
             | XI q -> XO (succ q)
             | XO q -> XI q
             | XH -> XO XH)

  (** val add_carry : positive -> positive -> positive **)

  and add_carry x y =
    match x with
    | XI p ->
      (match y with
       | XI q -> XI (add_carry p q)
       | XO q -> XO (add_carry p q)
       | XH -> XI (succ p))
    | XO p ->
      (match y with
       | XI q -> XO (add_carry p q)
       | XO q -> XI (add p q)
       | XH -> XO (succ p))
    | XH ->
      (match y with
       | XI q -> XI (succ q)
       | XO q -> XO (succ q)
       | XH -> XI XH)

  (** val pred_double : positive -> positive **)

  let rec pred_double = function
  | XI p -> XI (XO p)
  | XO p -> XI (pred_double p)
  | XH -> XH

  (** val mul : positive -> positive -> positive **)

  let rec mul x y =
    match x with
    | XI p -> add y (XO (mul p y))
    | XO p -> XO (mul p y)
    | XH -> y

  (** val iter : ('a1 -> 'a1) -> 'a1 -> positive -> 'a1 **)

  let rec iter f x = function
  | XI n' -> f (iter f (iter f x n') n')
  | XO n' -> iter f (iter f x n') n'
  | XH -> f x

  (** val size : positive -> positive **)

  let rec size = function
  | XI p0 -> succ (size p0)
  | XO p0 -> succ (size p0)
  | XH -> XH

  (** val compare_cont : comparison -> positive -> positive -> comparison **)

  let rec compare_cont r x y =
    match x with
    | XI p ->
      (match y with
       | XI q -> compare_cont r p q
       | XO q -> compare_cont Gt p q
       | XH -> Gt)
    | XO p ->
      (match y with
       | XI q -> compare_cont Lt p q
       | XO q -> compare_cont r p q
       | XH -> Gt)
    | XH -> (match y with
             | XH -> r
             | _ -> Lt)

  (** val compare : positive -> positive -> comparison **)

  let compare =
    compare_cont Eq

  (** val eqb : positive -> positive -> bool **)

  let rec eqb p q =
    match p with
    | XI p0 -> (match q with
                | XI q0 -> eqb p0 q0
                | _ -> false)
    | XO p0 -> (match q with
                | XO q0 -> eqb p0 q0
                | _ -> false)
    | XH -> (match q with
             | XH -> true
             | _ -> false)

  (** val iter_op : ('a1 -> 'a1 -> 'a1) -> positive -> 'a1 -> 'a1 **)

  let rec iter_op op p a =
    match p with
    | XI p0 -> op a (iter_op op p0 (op a a))
    | XO p0 -> iter_op op p0 (op a a)
    | XH -> a

  (** val to_nat : positive -> nat **)

  let to_nat x =
    iter_op Coq__1.add x (S O)
 end

module Z =
 struct
  (** val double : z -> z **)

  let double = function
  | Z0 -> Z0
  | Zpos p -> Zpos (XO p)
  | Zneg p -> Zneg (XO p)

  (** val succ_double : z -> z **)

  let succ_double = function
  | Z0 -> Zpos XH
  | Zpos p -> Zpos (XI p)
  | Zneg p -> Zneg (Pos.pred_double p)

  (** val pred_double : z -> z **)

  let pred_double = function
  | Z0 -> Zneg XH
  | Zpos p -> Zpos (Pos.pred_double p)
  | Zneg p -> Zneg (XI p)

  (** val pos_sub : positive -> positive -> z **)

  let rec pos_sub x y =
    match x with
    | XI p ->
      (match y with
       | XI q -> double (pos_sub p q)
       | XO q -> succ_double (pos_sub p q)
       | XH -> Zpos (XO p))
    | XO p ->
      (match y with
       | XI q -> pred_double (pos_sub p q)
       | XO q -> double (pos_sub p q)
       | XH -> Zpos (Pos.pred_double p))
    | XH ->
      (match y with
       | XI q -> Zneg (XO q)
       | XO q -> Zneg (Pos.pred_double q)
       | XH -> Z0)

  (** val add : z -> z -> z **)

  let add x y =
    match x with
    | Z0 -> y
    | Zpos x' ->
      (match y with
       | Z0 -> x
       | Zpos y' -> Zpos (Pos.add x' y')
       | Zneg y' -> pos_sub x' y')
    | Zneg x' ->
      (match y with
       | Z0 -> x
       | Zpos y' -> pos_sub y' x'
       | Zneg y' -> Zneg (Pos.add x' y'))

  (** val opp : z -> z **)

  let opp = function
  | Z0 -> Z0
  | Zpos x0 -> Zneg x0
  | Zneg x0 -> Zpos x0

  (** val sub : z -> z -> z **)

  let sub m n =
    add m (opp n)

  (** val mul : z -> z -> z **)

  let mul x y =
    match x with
    | Z0 -> Z0
    | Zpos x' ->
      (match y with
       | Z0 -> Z0
       | Zpos y' -> Zpos (Pos.mul x' y')
       | Zneg y' -> Zneg (Pos.mul x' y'))
    | Zneg x' ->
      (match y with
       | Z0 -> Z0
       | Zpos y' -> Zneg (Pos.mul x' y')
       | Zneg y' -> Zpos (Pos.mul x' y'))

  (** val pow_pos : z -> positive -> z **)

  let pow_pos z0 =
    Pos.iter (mul z0) (Zpos XH)

  (** val pow : z -> z -> z **)

  let pow x = function
  | Z0 -> Zpos XH
  | Zpos p -> pow_pos x p
  | Zneg _ -> Z0

  (** val compare : z -> z -> comparison **)

  let compare x y =
    match x with
    | Z0 -> (match y with
             | Z0 -> Eq
             | Zpos _ -> Lt
             | Zneg _ -> Gt)
    | Zpos x' -> (match y with
                  | Zpos y' -> Pos.compare x' y'
                  | _ -> Gt)
    | Zneg x' ->
      (match y with
       | Zneg y' -> compOpp (Pos.compare x' y')
       | _ -> Lt)

  (** val leb : z -> z -> bool **)

  let leb x y =
    match compare x y with
    | Gt -> false
    | _ -> true

  (** val ltb : z -> z -> bool **)

  let ltb x y =
    match compare x y with
    | Lt -> true
    | _ -> false

  (** val eqb : z -> z -> bool **)

  let eqb x y =
    match x with
    | Z0 -> (match y with
             | Z0 -> true
             | _ -> false)
    | Zpos p -> (match y with
                 | Zpos q -> Pos.eqb p q
                 | _ -> false)
    | Zneg p -> (match y with
                 | Zneg q -> Pos.eqb p q
                 | _ -> false)

  (** val max : z -> z -> z **)

  let max n m =
    match compare n m with
    | Lt -> m
    | _ -> n

  (** val min : z -> z -> z **)

  let min n m =
    match compare n m with
    | Gt -> m
    | _ -> n

  (** val abs : z -> z **)

  let abs = function
  | Zneg p -> Zpos p
  | x -> x

  (** val to_nat : z -> nat **)

  let to_nat = function
  | Zpos p -> Pos.to_nat p
  | _ -> O

  (** val pos_div_eucl : positive -> z -> z * z **)

  let rec pos_div_eucl a b =
    match a with
    | XI a' ->
      let (q, r) = pos_div_eucl a' b in
      let r' = add (mul (Zpos (XO XH)) r) (Zpos XH) in
      if ltb r' b
      then ((mul (Zpos (XO XH)) q), r')
      else ((add (mul (Zpos (XO XH)) q) (Zpos XH)), (sub r' b))
    | XO a' ->
      let (q, r) = pos_div_eucl a' b in
      let r' = mul (Zpos (XO XH)) r in
      if ltb r' b
      then ((mul (Zpos (XO XH)) q), r')
      else ((add (mul (Zpos (XO XH)) q) (Zpos XH)), (sub r' b))
    | XH -> if leb (Zpos (XO XH)) b then (Z0, (Zpos XH)) else ((Zpos XH), Z0)

  (** val div_eucl : z -> z -> z * z **)

  let div_eucl a b =
    match a with
    | Z0 -> (Z0, Z0)
    | Zpos a' ->
      (match b with
       | Z0 -> (Z0, a)
       | Zpos _ -> pos_div_eucl a' b
       | Zneg b' ->
         let (q, r) = pos_div_eucl a' (Zpos b') in
         (match r with
          | Z0 -> ((opp q), Z0)
          | _ -> ((opp (add q (Zpos XH))), (add b r))))
    | Zneg a' ->
      (match b with
       | Z0 -> (Z0, a)
       | Zpos _ ->
         let (q, r) = pos_div_eucl a' b in
         (match r with
          | Z0 -> ((opp q), Z0)
          | _ -> ((opp (add q (Zpos XH))), (sub b r)))
       | Zneg b' -> let (q, r) = pos_div_eucl a' (Zpos b') in (q, (opp r)))

  (** val div : z -> z -> z **)

  let div a b =
    let (q, _) = div_eucl a b in q

  (** val modulo : z -> z -> z **)

  let modulo a b =
    let (_, r) = div_eucl a b in r

  (** val odd : z -> bool **)

  let odd = function
  | Z0 -> false
  | Zpos p -> (match p with
               | XO _ -> false
               | _ -> true)
  | Zneg p -> (match p with
               | XO _ -> false
               | _ -> true)

  (** val log2 : z -> z **)

  let log2 = function
  | Zpos p0 ->
    (match p0 with
     | XI p -> Zpos (Pos.size p)
     | XO p -> Zpos (Pos.size p)
     | XH -> Z0)
  | _ -> Z0
 end

(** val nth_error : 'a1 list -> nat -> 'a1 option **)

let rec nth_error l = function
| O -> (match l with
        | [] -> None
        | x :: _ -> Some x)
| S n0 -> (match l with
           | [] -> None
           | _ :: l0 -> nth_error l0 n0)

(** val last : 'a1 list -> 'a1 -> 'a1 **)

let rec last l d =
  match l with
  | [] -> d
  | a :: l0 -> (match l0 with
                | [] -> a
                | _ :: _ -> last l0 d)

(** val map : ('a1 -> 'a2) -> 'a1 list -> 'a2 list **)

let rec map f = function
| [] -> []
| a :: t -> (f a) :: (map f t)

(** val fold_left : ('a1 -> 'a2 -> 'a1) -> 'a2 list -> 'a1 -> 'a1 **)

let rec fold_left f l a0 =
  match l with
  | [] -> a0
  | b :: t -> fold_left f t (f a0 b)

(** val existsb : ('a1 -> bool) -> 'a1 list -> bool **)

let rec existsb f = function
| [] -> false
| a :: l0 -> (||) (f a) (existsb f l0)

(** val find : ('a1 -> bool) -> 'a1 list -> 'a1 option **)

let rec find f = function
| [] -> None
| x :: tl -> if f x then Some x else find f tl

type cty =
| Schar
| Uchar
| Short
| Ushort
| Int
| Uint
| Long
| Ulong
| Longlong
| Ulonglong
| Float
| Double

type xty =
| XBYTE
| XUBYTE
| XSHORT
| XUSHORT
| XINT
| XUINT
| XFLOAT
| XDOUBLE
| XINT64
| XUINT64

type cop =
| OGt
| OLt
| OGe
| OLe
| OEq
| ONe

type kconst =
| KI of z
| KF of bool * z * z

type cact =
| AFill of bool * kconst option
| AStore of kconst

type ctest = { t_op : cop; t_cmp : cty; t_chain : cty list; t_k : kconst;
               t_act : cact }

type cbody =
| BIdent
| BTests of ctest list * cty list
| BSext of ctest list
| BZext of ctest list
| BUnrec

type cloop =
| LMemcpy
| LSwap
| LCall
| LInline
| LUnrec

type cdir =
| Put
| Get

type cfun = { f_dir : cdir; f_pad : bool; f_x : xty; f_i : cty;
              f_loop : cloop; f_body : cbody }

(** val ncx_table : cfun list **)

let ncx_table =
  { f_dir = Put; f_pad = false; f_x = XBYTE; f_i = Schar; f_loop = LMemcpy;
    f_body = BIdent } :: ({ f_dir = Put; f_pad = false; f_x = XBYTE; f_i =
    Uchar; f_loop = LInline; f_body = (BTests (({ t_op = OGt; t_cmp = Int;
    t_chain = (Int :: []); t_k = (KI (Zpos (XI (XI (XI (XI (XI (XI
    XH)))))))); t_act = (AFill (true, None)) } :: []),
    (Schar :: []))) } :: ({ f_dir = Put; f_pad = false; f_x = XBYTE; f_i =
    Short; f_loop = LInline; f_body = (BTests (({ t_op = OGt; t_cmp = Int;
    t_chain = (Int :: []); t_k = (KI (Zpos (XI (XI (XI (XI (XI (XI
    XH)))))))); t_act = (AFill (true, None)) } :: ({ t_op = OLt; t_cmp = Int;
    t_chain = (Int :: []); t_k = (KI (Zneg (XO (XO (XO (XO (XO (XO (XO
    XH))))))))); t_act = (AFill (true, None)) } :: [])),
    (Schar :: []))) } :: ({ f_dir = Put; f_pad = false; f_x = XBYTE; f_i =
    Ushort; f_loop = LInline; f_body = (BTests (({ t_op = OGt; t_cmp = Int;
    t_chain = (Int :: []); t_k = (KI (Zpos (XI (XI (XI (XI (XI (XI
    XH)))))))); t_act = (AFill (true, None)) } :: []),
    (Schar :: []))) } :: ({ f_dir = Put; f_pad = false; f_x = XBYTE; f_i =
    Int; f_loop = LInline; f_body = (BTests (({ t_op = OGt; t_cmp = Int;
    t_chain = []; t_k = (KI (Zpos (XI (XI (XI (XI (XI (XI XH)))))))); t_act =
    (AFill (true, None)) } :: ({ t_op = OLt; t_cmp = Int; t_chain = []; t_k =
    (KI (Zneg (XO (XO (XO (XO (XO (XO (XO XH))))))))); t_act = (AFill (true,
    None)) } :: [])), (Schar :: []))) } :: ({ f_dir = Put; f_pad = false;
    f_x = XBYTE; f_i = Uint; f_loop = LInline; f_body = (BTests (({ t_op =
    OGt; t_cmp = Uint; t_chain = []; t_k = (KI (Zpos (XI (XI (XI (XI (XI (XI
    XH)))))))); t_act = (AFill (true, None)) } :: []),
    (Schar :: []))) } :: ({ f_dir = Put; f_pad = false; f_x = XBYTE; f_i =
    Long; f_loop = LInline; f_body = (BTests (({ t_op = OGt; t_cmp = Long;
    t_chain = []; t_k = (KI (Zpos (XI (XI (XI (XI (XI (XI XH)))))))); t_act =
    (AFill (true, None)) } :: ({ t_op = OLt; t_cmp = Long; t_chain = [];
    t_k = (KI (Zneg (XO (XO (XO (XO (XO (XO (XO XH))))))))); t_act = (AFill
    (true, None)) } :: [])), (Schar :: []))) } :: ({ f_dir = Put; f_pad =
    false; f_x = XBYTE; f_i = Float; f_loop = LInline; f_body = (BTests
    (({ t_op = OGt; t_cmp = Float; t_chain = []; t_k = (KF (false, (Zpos (XO
    (XO (XO (XO (XO (XO (XO (XO (XO (XO (XO (XO (XO (XO (XO (XO (XO (XI (XI
    (XI (XI (XI (XI XH)))))))))))))))))))))))), (Zneg (XI (XO (XO (XO
    XH))))))); t_act = (AFill (true, None)) } :: ({ t_op = OLt; t_cmp =
    Float; t_chain = []; t_k = (KF (true, (Zpos (XO (XO (XO (XO (XO (XO (XO
    (XO (XO (XO (XO (XO (XO (XO (XO (XO (XO (XO (XO (XO (XO (XO (XO
    XH)))))))))))))))))))))))), (Zneg (XO (XO (XO (XO XH))))))); t_act =
    (AFill (true, None)) } :: [])), (Schar :: []))) } :: ({ f_dir = Put;
    f_pad = false; f_x = XBYTE; f_i = Double; f_loop = LInline; f_body =
    (BTests (({ t_op = OGt; t_cmp = Double; t_chain = []; t_k = (KF (false,
    (Zpos (XO (XO (XO (XO (XO (XO (XO (XO (XO (XO (XO (XO (XO (XO (XO (XO (XO
    (XO (XO (XO (XO (XO (XO (XO (XO (XO (XO (XO (XO (XO (XO (XO (XO (XO (XO
    (XO (XO (XO (XO (XO (XO (XO (XO (XO (XO (XO (XI (XI (XI (XI (XI (XI
    XH))))))))))))))))))))))))))))))))))))))))))))))))))))), (Zneg (XO (XI
    (XI (XI (XO XH)))))))); t_act = (AFill (true, None)) } :: ({ t_op = OLt;
    t_cmp = Double; t_chain = []; t_k = (KF (true, (Zpos (XO (XO (XO (XO (XO
    (XO (XO (XO (XO (XO (XO (XO (XO (XO (XO (XO (XO (XO (XO (XO (XO (XO (XO
    (XO (XO (XO (XO (XO (XO (XO (XO (XO (XO (XO (XO (XO (XO (XO (XO (XO (XO
    (XO (XO (XO (XO (XO (XO (XO (XO (XO (XO (XO
    XH))))))))))))))))))))))))))))))))))))))))))))))))))))), (Zneg (XI (XO
    (XI (XI (XO XH)))))))); t_act = (AFill (true, None)) } :: [])),
    (Schar :: []))) } :: ({ f_dir = Put; f_pad = false; f_x = XBYTE; f_i =
    Longlong; f_loop = LInline; f_body = (BTests (({ t_op = OGt; t_cmp =
    Longlong; t_chain = []; t_k = (KI (Zpos (XI (XI (XI (XI (XI (XI
    XH)))))))); t_act = (AFill (true, None)) } :: ({ t_op = OLt; t_cmp =
    Longlong; t_chain = []; t_k = (KI (Zneg (XO (XO (XO (XO (XO (XO (XO
    XH))))))))); t_act = (AFill (true, None)) } :: [])),
    (Schar :: []))) } :: ({ f_dir = Put; f_pad = false; f_x = XBYTE; f_i =
    Ulonglong; f_loop = LInline; f_body = (BTests (({ t_op = OGt; t_cmp =
    Ulonglong; t_chain = []; t_k = (KI (Zpos (XI (XI (XI (XI (XI (XI
    XH)))))))); t_act = (AFill (true, None)) } :: []),
    (Schar :: []))) } :: ({ f_dir = Put; f_pad = false; f_x = XUBYTE; f_i =
    Schar; f_loop = LInline; f_body = (BTests (({ t_op = OLt; t_cmp = Int;
    t_chain = (Int :: []); t_k = (KI Z0); t_act = (AFill (true,
    None)) } :: []), (Int :: (Uchar :: [])))) } :: ({ f_dir = Put; f_pad =
    false; f_x = XUBYTE; f_i = Uchar; f_loop = LMemcpy; f_body =
    BIdent } :: ({ f_dir = Put; f_pad = false; f_x = XUBYTE; f_i = Short;
    f_loop = LInline; f_body = (BTests (({ t_op = OGt; t_cmp = Int; t_chain =
    (Int :: []); t_k = (KI (Zpos (XI (XI (XI (XI (XI (XI (XI XH)))))))));
    t_act = (AFill (true, None)) } :: ({ t_op = OLt; t_cmp = Int; t_chain =
    (Int :: []); t_k = (KI Z0); t_act = (AFill (true, None)) } :: [])),
    (Int :: (Uchar :: [])))) } :: ({ f_dir = Put; f_pad = false; f_x =
    XUBYTE; f_i = Ushort; f_loop = LInline; f_body = (BTests (({ t_op = OGt;
    t_cmp = Int; t_chain = (Int :: []); t_k = (KI (Zpos (XI (XI (XI (XI (XI
    (XI (XI XH))))))))); t_act = (AFill (true, None)) } :: []),
    (Uchar :: []))) } :: ({ f_dir = Put; f_pad = false; f_x = XUBYTE; f_i =
    Int; f_loop = LInline; f_body = (BTests (({ t_op = OGt; t_cmp = Int;
    t_chain = []; t_k = (KI (Zpos (XI (XI (XI (XI (XI (XI (XI XH)))))))));
    t_act = (AFill (true, None)) } :: ({ t_op = OLt; t_cmp = Int; t_chain =
    []; t_k = (KI Z0); t_act = (AFill (true, None)) } :: [])),
    (Uchar :: []))) } :: ({ f_dir = Put; f_pad = false; f_x = XUBYTE; f_i =
    Uint; f_loop = LInline; f_body = (BTests (({ t_op = OGt; t_cmp = Uint;
    t_chain = []; t_k = (KI (Zpos (XI (XI (XI (XI (XI (XI (XI XH)))))))));
    t_act = (AFill (true, None)) } :: []), (Uchar :: []))) } :: ({ f_dir =
    Put; f_pad = false; f_x = XUBYTE; f_i = Long; f_loop = LInline; f_body =
    (BTests (({ t_op = OGt; t_cmp = Long; t_chain = []; t_k = (KI (Zpos (XI
    (XI (XI (XI (XI (XI (XI XH))))))))); t_act = (AFill (true,
    None)) } :: ({ t_op = OLt; t_cmp = Long; t_chain = []; t_k = (KI Z0);
    t_act = (AFill (true, None)) } :: [])),
    (Int :: (Uchar :: [])))) } :: ({ f_dir = Put; f_pad = false; f_x =
    XUBYTE; f_i = Float; f_loop = LInline; f_body = (BTests (({ t_op = OGt;
    t_cmp = Float; t_chain = []; t_k = (KF (false, (Zpos (XO (XO (XO (XO (XO
    (XO (XO (XO (XO (XO (XO (XO (XO (XO (XO (XO (XI (XI (XI (XI (XI (XI (XI
    XH)))))))))))))))))))))))), (Zneg (XO (XO (XO (XO XH))))))); t_act =
    (AFill (true, None)) } :: ({ t_op = OLt; t_cmp = Float; t_chain = [];
    t_k = (KF (false, Z0, (Zneg (XI (XO (XI (XO (XI (XO (XO XH))))))))));
    t_act = (AFill (true, None)) } :: [])),
    (Int :: (Uchar :: [])))) } :: ({ f_dir = Put; f_pad = false; f_x =
    XUBYTE; f_i = Double; f_loop = LInline; f_body = (BTests (({ t_op = OGt;
    t_cmp = Double; t_chain = []; t_k = (KF (false, (Zpos (XO (XO (XO (XO (XO
    (XO (XO (XO (XO (XO (XO (XO (XO (XO (XO (XO (XO (XO (XO (XO (XO (XO (XO
    (XO (XO (XO (XO (XO (XO (XO (XO (XO (XO (XO (XO (XO (XO (XO (XO (XO (XO
    (XO (XO (XO (XO (XI (XI (XI (XI (XI (XI (XI
    XH))))))))))))))))))))))))))))))))))))))))))))))))))))), (Zneg (XI (XO
    (XI (XI (XO XH)))))))); t_act = (AFill (true, None)) } :: ({ t_op = OLt;
    t_cmp = Double; t_chain = []; t_k = (KF (false, Z0, (Zneg (XO (XI (XO (XO
    (XI (XI (XO (XO (XO (XO XH))))))))))))); t_act = (AFill (true,
    None)) } :: [])), (Int :: (Uchar :: [])))) } :: ({ f_dir = Put; f_pad =
    false; f_x = XUBYTE; f_i = Longlong; f_loop = LInline; f_body = (BTests
    (({ t_op = OGt; t_cmp = Longlong; t_chain = []; t_k = (KI (Zpos (XI (XI
    (XI (XI (XI (XI (XI XH))))))))); t_act = (AFill (true,
    None)) } :: ({ t_op = OLt; t_cmp = Longlong; t_chain = []; t_k = (KI Z0);
    t_act = (AFill (true, None)) } :: [])),
    (Int :: (Uchar :: [])))) } :: ({ f_dir = Put; f_pad = false; f_x =
    XUBYTE; f_i = Ulonglong; f_loop = LInline; f_body = (BTests (({ t_op =
    OGt; t_cmp = Ulonglong; t_chain = []; t_k = (KI (Zpos (XI (XI (XI (XI (XI
    (XI (XI XH))))))))); t_act = (AFill (true, None)) } :: []),
    (Uchar :: []))) } :: ({ f_dir = Put; f_pad = false; f_x = XSHORT; f_i =
    Schar; f_loop = LCall; f_body = (BSext []) } :: ({ f_dir = Put; f_pad =
    false; f_x = XSHORT; f_i = Uchar; f_loop = LCall; f_body = (BZext
    []) } :: ({ f_dir = Put; f_pad = false; f_x = XSHORT; f_i = Short;
    f_loop = LSwap; f_body = BIdent } :: ({ f_dir = Put; f_pad = false; f_x =
    XSHORT; f_i = Ushort; f_loop = LCall; f_body = (BTests (({ t_op = OGt;
    t_cmp = Int; t_chain = (Int :: []); t_k = (KI (Zpos (XI (XI (XI (XI (XI
    (XI (XI (XI (XI (XI (XI (XI (XI (XI XH)))))))))))))))); t_act = (AFill
    (true, (Some (KI (Zneg (XI (XI (XI (XI (XI (XI (XI (XI (XI (XI (XI (XI
    (XI (XI XH))))))))))))))))))) } :: []), (Short :: []))) } :: ({ f_dir =
    Put; f_pad = false; f_x = XSHORT; f_i = Int; f_loop = LCall; f_body =
    (BTests (({ t_op = OGt; t_cmp = Int; t_chain = []; t_k = (KI (Zpos (XI
    (XI (XI (XI (XI (XI (XI (XI (XI (XI (XI (XI (XI (XI XH))))))))))))))));
    t_act = (AFill (true, (Some (KI (Zneg (XI (XI (XI (XI (XI (XI (XI (XI (XI
    (XI (XI (XI (XI (XI XH))))))))))))))))))) } :: ({ t_op = OLt; t_cmp =
    Int; t_chain = []; t_k = (KI (Zneg (XO (XO (XO (XO (XO (XO (XO (XO (XO
    (XO (XO (XO (XO (XO (XO XH))))))))))))))))); t_act = (AFill (true, (Some
    (KI (Zneg (XI (XI (XI (XI (XI (XI (XI (XI (XI (XI (XI (XI (XI (XI
    XH))))))))))))))))))) } :: [])), (Short :: []))) } :: ({ f_dir = Put;
    f_pad = false; f_x = XSHORT; f_i = Uint; f_loop = LCall; f_body = (BTests
    (({ t_op = OGt; t_cmp = Uint; t_chain = []; t_k = (KI (Zpos (XI (XI (XI
    (XI (XI (XI (XI (XI (XI (XI (XI (XI (XI (XI XH)))))))))))))))); t_act =
    (AFill (true, (Some (KI (Zneg (XI (XI (XI (XI (XI (XI (XI (XI (XI (XI (XI
    (XI (XI (XI XH))))))))))))))))))) } :: []),
    (Short :: []))) } :: ({ f_dir = Put; f_pad = false; f_x = XSHORT; f_i =
    Long; f_loop = LCall; f_body = (BTests (({ t_op = OGt; t_cmp = Long;
    t_chain = []; t_k = (KI (Zpos (XI (XI (XI (XI (XI (XI (XI (XI (XI (XI (XI
    (XI (XI (XI XH)))))))))))))))); t_act = (AFill (true, (Some (KI (Zneg (XI
    (XI (XI (XI (XI (XI (XI (XI (XI (XI (XI (XI (XI (XI
    XH))))))))))))))))))) } :: ({ t_op = OLt; t_cmp = Long; t_chain = [];
    t_k = (KI (Zneg (XO (XO (XO (XO (XO (XO (XO (XO (XO (XO (XO (XO (XO (XO
    (XO XH))))))))))))))))); t_act = (AFill (true, (Some (KI (Zneg (XI (XI
    (XI (XI (XI (XI (XI (XI (XI (XI (XI (XI (XI (XI
    XH))))))))))))))))))) } :: [])), (Short :: []))) } :: ({ f_dir = Put;
    f_pad = false; f_x = XSHORT; f_i = Float; f_loop = LCall; f_body =
    (BTests (({ t_op = OGt; t_cmp = Double; t_chain = (Double :: []); t_k =
    (KF (false, (Zpos (XO (XO (XO (XO (XO (XO (XO (XO (XO (XO (XO (XO (XO (XO
    (XO (XO (XO (XO (XO (XO (XO (XO (XO (XO (XO (XO (XO (XO (XO (XO (XO (XO
    (XO (XO (XO (XO (XO (XO (XI (XI (XI (XI (XI (XI (XI (XI (XI (XI (XI (XI
    (XI (XI XH))))))))))))))))))))))))))))))))))))))))))))))))))))), (Zneg
    (XO (XI (XI (XO (XO XH)))))))); t_act = (AFill (true, (Some (KI (Zneg (XI
    (XI (XI (XI (XI (XI (XI (XI (XI (XI (XI (XI (XI (XI
    XH))))))))))))))))))) } :: ({ t_op = OLt; t_cmp = Double; t_chain =
    (Double :: []); t_k = (KF (true, (Zpos (XO (XO (XO (XO (XO (XO (XO (XO
    (XO (XO (XO (XO (XO (XO (XO (XO (XO (XO (XO (XO (XO (XO (XO (XO (XO (XO
    (XO (XO (XO (XO (XO (XO (XO (XO (XO (XO (XO (XO (XO (XO (XO (XO (XO (XO
    (XO (XO (XO (XO (XO (XO (XO (XO
    XH))))))))))))))))))))))))))))))))))))))))))))))))))))), (Zneg (XI (XO
    (XI (XO (XO XH)))))))); t_act = (AFill (true, (Some (KI (Zneg (XI (XI (XI
    (XI (XI (XI (XI (XI (XI (XI (XI (XI (XI (XI
    XH))))))))))))))))))) } :: [])), (Short :: []))) } :: ({ f_dir = Put;
    f_pad = false; f_x = XSHORT; f_i = Double; f_loop = LCall; f_body =
    (BTests (({ t_op = OGt; t_cmp = Double; t_chain = []; t_k = (KF (false,
    (Zpos (XO (XO (XO (XO (XO (XO (XO (XO (XO (XO (XO (XO (XO (XO (XO (XO (XO
    (XO (XO (XO (XO (XO (XO (XO (XO (XO (XO (XO (XO (XO (XO (XO (XO (XO (XO
    (XO (XO (XO (XI (XI (XI (XI (XI (XI (XI (XI (XI (XI (XI (XI (XI (XI
    XH))))))))))))))))))))))))))))))))))))))))))))))))))))), (Zneg (XO (XI
    (XI (XO (XO XH)))))))); t_act = (AFill (true, (Some (KI (Zneg (XI (XI (XI
    (XI (XI (XI (XI (XI (XI (XI (XI (XI (XI (XI
    XH))))))))))))))))))) } :: ({ t_op = OLt; t_cmp = Double; t_chain = [];
    t_k = (KF (true, (Zpos (XO (XO (XO (XO (XO (XO (XO (XO (XO (XO (XO (XO
    (XO (XO (XO (XO (XO (XO (XO (XO (XO (XO (XO (XO (XO (XO (XO (XO (XO (XO
    (XO (XO (XO (XO (XO (XO (XO (XO (XO (XO (XO (XO (XO (XO (XO (XO (XO (XO
    (XO (XO (XO (XO XH))))))))))))))))))))))))))))))))))))))))))))))))))))),
    (Zneg (XI (XO (XI (XO (XO XH)))))))); t_act = (AFill (true, (Some (KI
    (Zneg (XI (XI (XI (XI (XI (XI (XI (XI (XI (XI (XI (XI (XI (XI
    XH))))))))))))))))))) } :: [])), (Short :: []))) } :: ({ f_dir = Put;
    f_pad = false; f_x = XSHORT; f_i = Longlong; f_loop = LCall; f_body =
    (BTests (({ t_op = OGt; t_cmp = Longlong; t_chain = []; t_k = (KI (Zpos
    (XI (XI (XI (XI (XI (XI (XI (XI (XI (XI (XI (XI (XI (XI
    XH)))))))))))))))); t_act = (AFill (true, (Some (KI (Zneg (XI (XI (XI (XI
    (XI (XI (XI (XI (XI (XI (XI (XI (XI (XI
    XH))))))))))))))))))) } :: ({ t_op = OLt; t_cmp = Longlong; t_chain = [];
    t_k = (KI (Zneg (XO (XO (XO (XO (XO (XO (XO (XO (XO (XO (XO (XO (XO (XO
    (XO XH))))))))))))))))); t_act = (AFill (true, (Some (KI (Zneg (XI (XI
    (XI (XI (XI (XI (XI (XI (XI (XI (XI (XI (XI (XI
    XH))))))))))))))))))) } :: [])), (Short :: []))) } :: ({ f_dir = Put;
    f_pad = false; f_x = XSHORT; f_i = Ulonglong; f_loop = LCall; f_body =
    (BTests (({ t_op = OGt; t_cmp = Ulonglong; t_chain = []; t_k = (KI (Zpos
    (XI (XI (XI (XI (XI (XI (XI (XI (XI (XI (XI (XI (XI (XI
    XH)))))))))))))))); t_act = (AFill (true, (Some (KI (Zneg (XI (XI (XI (XI
    (XI (XI (XI (XI (XI (XI (XI (XI (XI (XI XH))))))))))))))))))) } :: []),
    (Short :: []))) } :: ({ f_dir = Put; f_pad = false; f_x = XUSHORT; f_i =
    Schar; f_loop = LCall; f_body = (BSext ({ t_op = OLt; t_cmp = Int;
    t_chain = (Int :: []); t_k = (KI Z0); t_act = (AFill (true,
    None)) } :: [])) } :: ({ f_dir = Put; f_pad = false; f_x = XUSHORT; f_i =
    Uchar; f_loop = LCall; f_body = (BZext []) } :: ({ f_dir = Put; f_pad =
    false; f_x = XUSHORT; f_i = Short; f_loop = LCall; f_body = (BTests
    (({ t_op = OLt; t_cmp = Int; t_chain = (Int :: []); t_k = (KI Z0);
    t_act = (AFill (true, (Some (KI (Zpos (XI (XI (XI (XI (XI (XI (XI (XI (XI
    (XI (XI (XI (XI (XI (XI XH)))))))))))))))))))) } :: []),
    (Ushort :: []))) } :: ({ f_dir = Put; f_pad = false; f_x = XUSHORT; f_i =
    Ushort; f_loop = LSwap; f_body = BIdent } :: ({ f_dir = Put; f_pad =
    false; f_x = XUSHORT; f_i = Int; f_loop = LCall; f_body = (BTests
    (({ t_op = OGt; t_cmp = Int; t_chain = []; t_k = (KI (Zpos (XI (XI (XI
    (XI (XI (XI (XI (XI (XI (XI (XI (XI (XI (XI (XI XH)))))))))))))))));
    t_act = (AFill (true, (Some (KI (Zpos (XI (XI (XI (XI (XI (XI (XI (XI (XI
    (XI (XI (XI (XI (XI (XI XH)))))))))))))))))))) } :: ({ t_op = OLt;
    t_cmp = Int; t_chain = []; t_k = (KI Z0); t_act = (AFill (true, (Some (KI
    (Zpos (XI (XI (XI (XI (XI (XI (XI (XI (XI (XI (XI (XI (XI (XI (XI
    XH)))))))))))))))))))) } :: [])), (Ushort :: []))) } :: ({ f_dir = Put;
    f_pad = false; f_x = XUSHORT; f_i = Uint; f_loop = LCall; f_body =
    (BTests (({ t_op = OGt; t_cmp = Uint; t_chain = []; t_k = (KI (Zpos (XI
    (XI (XI (XI (XI (XI (XI (XI (XI (XI (XI (XI (XI (XI (XI
    XH))))))))))))))))); t_act = (AFill (true, (Some (KI (Zpos (XI (XI (XI
    (XI (XI (XI (XI (XI (XI (XI (XI (XI (XI (XI (XI
    XH)))))))))))))))))))) } :: []), (Ushort :: []))) } :: ({ f_dir = Put;
    f_pad = false; f_x = XUSHORT; f_i = Long; f_loop = LCall; f_body =
    (BTests (({ t_op = OGt; t_cmp = Long; t_chain = []; t_k = (KI (Zpos (XI
    (XI (XI (XI (XI (XI (XI (XI (XI (XI (XI (XI (XI (XI (XI
    XH))))))))))))))))); t_act = (AFill (true, (Some (KI (Zpos (XI (XI (XI
    (XI (XI (XI (XI (XI (XI (XI (XI (XI (XI (XI (XI
    XH)))))))))))))))))))) } :: ({ t_op = OLt; t_cmp = Long; t_chain = [];
    t_k = (KI Z0); t_act = (AFill (true, (Some (KI (Zpos (XI (XI (XI (XI (XI
    (XI (XI (XI (XI (XI (XI (XI (XI (XI (XI XH)))))))))))))))))))) } :: [])),
    (Ushort :: []))) } :: ({ f_dir = Put; f_pad = false; f_x = XUSHORT; f_i =
    Float; f_loop = LCall; f_body = (BTests (({ t_op = OGt; t_cmp = Double;
    t_chain = (Double :: []); t_k = (KF (false, (Zpos (XO (XO (XO (XO (XO (XO
    (XO (XO (XO (XO (XO (XO (XO (XO (XO (XO (XO (XO (XO (XO (XO (XO (XO (XO
    (XO (XO (XO (XO (XO (XO (XO (XO (XO (XO (XO (XO (XO (XI (XI (XI (XI (XI
    (XI (XI (XI (XI (XI (XI (XI (XI (XI (XI
    XH))))))))))))))))))))))))))))))))))))))))))))))))))))), (Zneg (XI (XO
    (XI (XO (XO XH)))))))); t_act = (AFill (true, (Some (KI (Zpos (XI (XI (XI
    (XI (XI (XI (XI (XI (XI (XI (XI (XI (XI (XI (XI
    XH)))))))))))))))))))) } :: ({ t_op = OLt; t_cmp = Float; t_chain = [];
    t_k = (KF (false, Z0, (Zneg (XI (XO (XI (XO (XI (XO (XO XH))))))))));
    t_act = (AFill (true, (Some (KI (Zpos (XI (XI (XI (XI (XI (XI (XI (XI (XI
    (XI (XI (XI (XI (XI (XI XH)))))))))))))))))))) } :: [])),
    (Ushort :: []))) } :: ({ f_dir = Put; f_pad = false; f_x = XUSHORT; f_i =
    Double; f_loop = LCall; f_body = (BTests (({ t_op = OGt; t_cmp = Double;
    t_chain = []; t_k = (KF (false, (Zpos (XO (XO (XO (XO (XO (XO (XO (XO (XO
    (XO (XO (XO (XO (XO (XO (XO (XO (XO (XO (XO (XO (XO (XO (XO (XO (XO (XO
    (XO (XO (XO (XO (XO (XO (XO (XO (XO (XO (XI (XI (XI (XI (XI (XI (XI (XI
    (XI (XI (XI (XI (XI (XI (XI
    XH))))))))))))))))))))))))))))))))))))))))))))))))))))), (Zneg (XI (XO
    (XI (XO (XO XH)))))))); t_act = (AFill (true, (Some (KI (Zpos (XI (XI (XI
    (XI (XI (XI (XI (XI (XI (XI (XI (XI (XI (XI (XI
    XH)))))))))))))))))))) } :: ({ t_op = OLt; t_cmp = Double; t_chain = [];
    t_k = (KF (false, Z0, (Zneg (XO (XI (XO (XO (XI (XI (XO (XO (XO (XO
    XH))))))))))))); t_act = (AFill (true, (Some (KI (Zpos (XI (XI (XI (XI
    (XI (XI (XI (XI (XI (XI (XI (XI (XI (XI (XI
    XH)))))))))))))))))))) } :: [])), (Ushort :: []))) } :: ({ f_dir = Put;
    f_pad = false; f_x = XUSHORT; f_i = Longlong; f_loop = LCall; f_body =
    (BTests (({ t_op = OGt; t_cmp = Longlong; t_chain = []; t_k = (KI (Zpos
    (XI (XI (XI (XI (XI (XI (XI (XI (XI (XI (XI (XI (XI (XI (XI
    XH))))))))))))))))); t_act = (AFill (true, (Some (KI (Zpos (XI (XI (XI
    (XI (XI (XI (XI (XI (XI (XI (XI (XI (XI (XI (XI
    XH)))))))))))))))))))) } :: ({ t_op = OLt; t_cmp = Longlong; t_chain =
    []; t_k = (KI Z0); t_act = (AFill (true, (Some (KI (Zpos (XI (XI (XI (XI
    (XI (XI (XI (XI (XI (XI (XI (XI (XI (XI (XI
    XH)))))))))))))))))))) } :: [])), (Ushort :: []))) } :: ({ f_dir = Put;
    f_pad = false; f_x = XUSHORT; f_i = Ulonglong; f_loop = LCall; f_body =
    (BTests (({ t_op = OGt; t_cmp = Ulonglong; t_chain = []; t_k = (KI (Zpos
    (XI (XI (XI (XI (XI (XI (XI (XI (XI (XI (XI (XI (XI (XI (XI
    XH))))))))))))))))); t_act = (AFill (true, (Some (KI (Zpos (XI (XI (XI
    (XI (XI (XI (XI (XI (XI (XI (XI (XI (XI (XI (XI
    XH)))))))))))))))))))) } :: []), (Ushort :: []))) } :: ({ f_dir = Put;
    f_pad = false; f_x = XINT; f_i = Schar; f_loop = LCall; f_body = (BSext
    []) } :: ({ f_dir = Put; f_pad = false; f_x = XINT; f_i = Uchar; f_loop =
    LCall; f_body = (BZext []) } :: ({ f_dir = Put; f_pad = false; f_x =
    XINT; f_i = Short; f_loop = LCall; f_body = (BTests ([],
    (Int :: []))) } :: ({ f_dir = Put; f_pad = false; f_x = XINT; f_i =
    Ushort; f_loop = LCall; f_body = (BTests ([],
    (Int :: []))) } :: ({ f_dir = Put; f_pad = false; f_x = XINT; f_i = Int;
    f_loop = LSwap; f_body = BIdent } :: ({ f_dir = Put; f_pad = false; f_x =
    XINT; f_i = Uint; f_loop = LCall; f_body = (BTests (({ t_op = OGt;
    t_cmp = Uint; t_chain = []; t_k = (KI (Zpos (XI (XI (XI (XI (XI (XI (XI
    (XI (XI (XI (XI (XI (XI (XI (XI (XI (XI (XI (XI (XI (XI (XI (XI (XI (XI
    (XI (XI (XI (XI (XI XH)))))))))))))))))))))))))))))))); t_act = (AFill
    (true, (Some (KI (Zneg (XI (XI (XI (XI (XI (XI (XI (XI (XI (XI (XI (XI
    (XI (XI (XI (XI (XI (XI (XI (XI (XI (XI (XI (XI (XI (XI (XI (XI (XI (XI
    XH))))))))))))))))))))))))))))))))))) } :: []),
    (Int :: []))) } :: ({ f_dir = Put; f_pad = false; f_x = XINT; f_i = Long;
    f_loop = LCall; f_body = (BTests (({ t_op = OGt; t_cmp = Long; t_chain =
    []; t_k = (KI (Zpos (XI (XI (XI (XI (XI (XI (XI (XI (XI (XI (XI (XI (XI
    (XI (XI (XI (XI (XI (XI (XI (XI (XI (XI (XI (XI (XI (XI (XI (XI (XI
    XH)))))))))))))))))))))))))))))))); t_act = (AFill (true, (Some (KI (Zneg
    (XI (XI (XI (XI (XI (XI (XI (XI (XI (XI (XI (XI (XI (XI (XI (XI (XI (XI
    (XI (XI (XI (XI (XI (XI (XI (XI (XI (XI (XI (XI
    XH))))))))))))))))))))))))))))))))))) } :: ({ t_op = OLt; t_cmp = Long;
    t_chain = []; t_k = (KI (Zneg (XO (XO (XO (XO (XO (XO (XO (XO (XO (XO (XO
    (XO (XO (XO (XO (XO (XO (XO (XO (XO (XO (XO (XO (XO (XO (XO (XO (XO (XO
    (XO (XO XH))))))))))))))))))))))))))))))))); t_act = (AFill (true, (Some
    (KI (Zneg (XI (XI (XI (XI (XI (XI (XI (XI (XI (XI (XI (XI (XI (XI (XI (XI
    (XI (XI (XI (XI (XI (XI (XI (XI (XI (XI (XI (XI (XI (XI
    XH))))))))))))))))))))))))))))))))))) } :: [])),
    (Int :: []))) } :: ({ f_dir = Put; f_pad = false; f_x = XINT; f_i =
    Float; f_loop = LCall; f_body = (BTests (({ t_op = OGt; t_cmp = Double;
    t_chain = (Double :: []); t_k = (KF (false, (Zpos (XO (XO (XO (XO (XO (XO
    (XO (XO (XO (XO (XO (XO (XO (XO (XO (XO (XO (XO (XO (XO (XO (XO (XI (XI
    (XI (XI (XI (XI (XI (XI (XI (XI (XI (XI (XI (XI (XI (XI (XI (XI (XI (XI
    (XI (XI (XI (XI (XI (XI (XI (XI (XI (XI
    XH))))))))))))))))))))))))))))))))))))))))))))))))))))), (Zneg (XO (XI
    (XI (XO XH))))))); t_act = (AFill (true, (Some (KI (Zneg (XI (XI (XI (XI
    (XI (XI (XI (XI (XI (XI (XI (XI (XI (XI (XI (XI (XI (XI (XI (XI (XI (XI
    (XI (XI (XI (XI (XI (XI (XI (XI
    XH))))))))))))))))))))))))))))))))))) } :: ({ t_op = OLt; t_cmp = Double;
    t_chain = (Double :: []); t_k = (KF (true, (Zpos (XO (XO (XO (XO (XO (XO
    (XO (XO (XO (XO (XO (XO (XO (XO (XO (XO (XO (XO (XO (XO (XO (XO (XO (XO
    (XO (XO (XO (XO (XO (XO (XO (XO (XO (XO (XO (XO (XO (XO (XO (XO (XO (XO
    (XO (XO (XO (XO (XO (XO (XO (XO (XO (XO
    XH))))))))))))))))))))))))))))))))))))))))))))))))))))), (Zneg (XI (XO
    (XI (XO XH))))))); t_act = (AFill (true, (Some (KI (Zneg (XI (XI (XI (XI
    (XI (XI (XI (XI (XI (XI (XI (XI (XI (XI (XI (XI (XI (XI (XI (XI (XI (XI
    (XI (XI (XI (XI (XI (XI (XI (XI
    XH))))))))))))))))))))))))))))))))))) } :: [])),
    (Int :: []))) } :: ({ f_dir = Put; f_pad = false; f_x = XINT; f_i =
    Double; f_loop = LCall; f_body = (BTests (({ t_op = OGt; t_cmp = Double;
    t_chain = []; t_k = (KF (false, (Zpos (XO (XO (XO (XO (XO (XO (XO (XO (XO
    (XO (XO (XO (XO (XO (XO (XO (XO (XO (XO (XO (XO (XO (XI (XI (XI (XI (XI
    (XI (XI (XI (XI (XI (XI (XI (XI (XI (XI (XI (XI (XI (XI (XI (XI (XI (XI
    (XI (XI (XI (XI (XI (XI (XI
    XH))))))))))))))))))))))))))))))))))))))))))))))))))))), (Zneg (XO (XI
    (XI (XO XH))))))); t_act = (AFill (true, (Some (KI (Zneg (XI (XI (XI (XI
    (XI (XI (XI (XI (XI (XI (XI (XI (XI (XI (XI (XI (XI (XI (XI (XI (XI (XI
    (XI (XI (XI (XI (XI (XI (XI (XI
    XH))))))))))))))))))))))))))))))))))) } :: ({ t_op = OLt; t_cmp = Double;
    t_chain = []; t_k = (KF (true, (Zpos (XO (XO (XO (XO (XO (XO (XO (XO (XO
    (XO (XO (XO (XO (XO (XO (XO (XO (XO (XO (XO (XO (XO (XO (XO (XO (XO (XO
    (XO (XO (XO (XO (XO (XO (XO (XO (XO (XO (XO (XO (XO (XO (XO (XO (XO (XO
    (XO (XO (XO (XO (XO (XO (XO
    XH))))))))))))))))))))))))))))))))))))))))))))))))))))), (Zneg (XI (XO
    (XI (XO XH))))))); t_act = (AFill (true, (Some (KI (Zneg (XI (XI (XI (XI
    (XI (XI (XI (XI (XI (XI (XI (XI (XI (XI (XI (XI (XI (XI (XI (XI (XI (XI
    (XI (XI (XI (XI (XI (XI (XI (XI
    XH))))))))))))))))))))))))))))))))))) } :: [])),
    (Int :: []))) } :: ({ f_dir = Put; f_pad = false; f_x = XINT; f_i =
    Longlong; f_loop = LCall; f_body = (BTests (({ t_op = OGt; t_cmp =
    Longlong; t_chain = []; t_k = (KI (Zpos (XI (XI (XI (XI (XI (XI (XI (XI
    (XI (XI (XI (XI (XI (XI (XI (XI (XI (XI (XI (XI (XI (XI (XI (XI (XI (XI
    (XI (XI (XI (XI XH)))))))))))))))))))))))))))))))); t_act = (AFill (true,
    (Some (KI (Zneg (XI (XI (XI (XI (XI (XI (XI (XI (XI (XI (XI (XI (XI (XI
    (XI (XI (XI (XI (XI (XI (XI (XI (XI (XI (XI (XI (XI (XI (XI (XI
    XH))))))))))))))))))))))))))))))))))) } :: ({ t_op = OLt; t_cmp =
    Longlong; t_chain = []; t_k = (KI (Zneg (XO (XO (XO (XO (XO (XO (XO (XO
    (XO (XO (XO (XO (XO (XO (XO (XO (XO (XO (XO (XO (XO (XO (XO (XO (XO (XO
    (XO (XO (XO (XO (XO XH))))))))))))))))))))))))))))))))); t_act = (AFill
    (true, (Some (KI (Zneg (XI (XI (XI (XI (XI (XI (XI (XI (XI (XI (XI (XI
    (XI (XI (XI (XI (XI (XI (XI (XI (XI (XI (XI (XI (XI (XI (XI (XI (XI (XI
    XH))))))))))))))))))))))))))))))))))) } :: [])),
    (Int :: []))) } :: ({ f_dir = Put; f_pad = false; f_x = XINT; f_i =
    Ulonglong; f_loop = LCall; f_body = (BTests (({ t_op = OGt; t_cmp =
    Ulonglong; t_chain = []; t_k = (KI (Zpos (XI (XI (XI (XI (XI (XI (XI (XI
    (XI (XI (XI (XI (XI (XI (XI (XI (XI (XI (XI (XI (XI (XI (XI (XI (XI (XI
    (XI (XI (XI (XI XH)))))))))))))))))))))))))))))))); t_act = (AFill (true,
    (Some (KI (Zneg (XI (XI (XI (XI (XI (XI (XI (XI (XI (XI (XI (XI (XI (XI
    (XI (XI (XI (XI (XI (XI (XI (XI (XI (XI (XI (XI (XI (XI (XI (XI
    XH))))))))))))))))))))))))))))))))))) } :: []),
    (Int :: []))) } :: ({ f_dir = Put; f_pad = false; f_x = XUINT; f_i =
    Schar; f_loop = LCall; f_body = (BZext ({ t_op = OLt; t_cmp = Int;
    t_chain = (Int :: []); t_k = (KI Z0); t_act = (AFill (true,
    None)) } :: [])) } :: ({ f_dir = Put; f_pad = false; f_x = XUINT; f_i =
    Uchar; f_loop = LCall; f_body = (BZext []) } :: ({ f_dir = Put; f_pad =
    false; f_x = XUINT; f_i = Short; f_loop = LCall; f_body = (BTests
    (({ t_op = OLt; t_cmp = Int; t_chain = (Int :: []); t_k = (KI Z0);
    t_act = (AFill (true, (Some (KI (Zpos (XI (XI (XI (XI (XI (XI (XI (XI (XI
    (XI (XI (XI (XI (XI (XI (XI (XI (XI (XI (XI (XI (XI (XI (XI (XI (XI (XI
    (XI (XI (XI (XI XH)))))))))))))))))))))))))))))))))))) } :: []),
    (Uint :: []))) } :: ({ f_dir = Put; f_pad = false; f_x = XUINT; f_i =
    Ushort; f_loop = LCall; f_body = (BTests ([],
    (Uint :: []))) } :: ({ f_dir = Put; f_pad = false; f_x = XUINT; f_i =
    Int; f_loop = LCall; f_body = (BTests (({ t_op = OLt; t_cmp = Int;
    t_chain = []; t_k = (KI Z0); t_act = (AFill (true, (Some (KI (Zpos (XI
    (XI (XI (XI (XI (XI (XI (XI (XI (XI (XI (XI (XI (XI (XI (XI (XI (XI (XI
    (XI (XI (XI (XI (XI (XI (XI (XI (XI (XI (XI (XI
    XH)))))))))))))))))))))))))))))))))))) } :: []),
    (Uint :: []))) } :: ({ f_dir = Put; f_pad = false; f_x = XUINT; f_i =
    Uint; f_loop = LSwap; f_body = BIdent } :: ({ f_dir = Put; f_pad = false;
    f_x = XUINT; f_i = Long; f_loop = LCall; f_body = (BTests (({ t_op = OGt;
    t_cmp = Long; t_chain = []; t_k = (KI (Zpos (XI (XI (XI (XI (XI (XI (XI
    (XI (XI (XI (XI (XI (XI (XI (XI (XI (XI (XI (XI (XI (XI (XI (XI (XI (XI
    (XI (XI (XI (XI (XI (XI XH))))))))))))))))))))))))))))))))); t_act =
    (AFill (true, (Some (KI (Zpos (XI (XI (XI (XI (XI (XI (XI (XI (XI (XI (XI
    (XI (XI (XI (XI (XI (XI (XI (XI (XI (XI (XI (XI (XI (XI (XI (XI (XI (XI
    (XI (XI XH)))))))))))))))))))))))))))))))))))) } :: ({ t_op = OLt;
    t_cmp = Long; t_chain = []; t_k = (KI Z0); t_act = (AFill (true, (Some
    (KI (Zpos (XI (XI (XI (XI (XI (XI (XI (XI (XI (XI (XI (XI (XI (XI (XI (XI
    (XI (XI (XI (XI (XI (XI (XI (XI (XI (XI (XI (XI (XI (XI (XI
    XH)))))))))))))))))))))))))))))))))))) } :: [])),
    (Uint :: []))) } :: ({ f_dir = Put; f_pad = false; f_x = XUINT; f_i =
    Float; f_loop = LCall; f_body = (BTests (({ t_op = OGt; t_cmp = Double;
    t_chain = (Double :: []); t_k = (KF (false, (Zpos (XO (XO (XO (XO (XO (XO
    (XO (XO (XO (XO (XO (XO (XO (XO (XO (XO (XO (XO (XO (XO (XO (XI (XI (XI
    (XI (XI (XI (XI (XI (XI (XI (XI (XI (XI (XI (XI (XI (XI (XI (XI (XI (XI
    (XI (XI (XI (XI (XI (XI (XI (XI (XI (XI
    XH))))))))))))))))))))))))))))))))))))))))))))))))))))), (Zneg (XI (XO
    (XI (XO XH))))))); t_act = (AFill (true, (Some (KI (Zpos (XI (XI (XI (XI
    (XI (XI (XI (XI (XI (XI (XI (XI (XI (XI (XI (XI (XI (XI (XI (XI (XI (XI
    (XI (XI (XI (XI (XI (XI (XI (XI (XI
    XH)))))))))))))))))))))))))))))))))))) } :: ({ t_op = OLt; t_cmp = Float;
    t_chain = []; t_k = (KF (false, Z0, (Zneg (XI (XO (XI (XO (XI (XO (XO
    XH)))))))))); t_act = (AFill (true, (Some (KI (Zpos (XI (XI (XI (XI (XI
    (XI (XI (XI (XI (XI (XI (XI (XI (XI (XI (XI (XI (XI (XI (XI (XI (XI (XI
    (XI (XI (XI (XI (XI (XI (XI (XI
    XH)))))))))))))))))))))))))))))))))))) } :: [])),
    (Uint :: []))) } :: ({ f_dir = Put; f_pad = false; f_x = XUINT; f_i =
    Double; f_loop = LCall; f_body = (BTests (({ t_op = OGt; t_cmp = Double;
    t_chain = []; t_k = (KF (false, (Zpos (XO (XO (XO (XO (XO (XO (XO (XO (XO
    (XO (XO (XO (XO (XO (XO (XO (XO (XO (XO (XO (XO (XI (XI (XI (XI (XI (XI
    (XI (XI (XI (XI (XI (XI (XI (XI (XI (XI (XI (XI (XI (XI (XI (XI (XI (XI
    (XI (XI (XI (XI (XI (XI (XI
    XH))))))))))))))))))))))))))))))))))))))))))))))))))))), (Zneg (XI (XO
    (XI (XO XH))))))); t_act = (AFill (true, (Some (KI (Zpos (XI (XI (XI (XI
    (XI (XI (XI (XI (XI (XI (XI (XI (XI (XI (XI (XI (XI (XI (XI (XI (XI (XI
    (XI (XI (XI (XI (XI (XI (XI (XI (XI
    XH)))))))))))))))))))))))))))))))))))) } :: ({ t_op = OLt; t_cmp =
    Double; t_chain = []; t_k = (KF (false, Z0, (Zneg (XO (XI (XO (XO (XI (XI
    (XO (XO (XO (XO XH))))))))))))); t_act = (AFill (true, (Some (KI (Zpos
    (XI (XI (XI (XI (XI (XI (XI (XI (XI (XI (XI (XI (XI (XI (XI (XI (XI (XI
    (XI (XI (XI (XI (XI (XI (XI (XI (XI (XI (XI (XI (XI
    XH)))))))))))))))))))))))))))))))))))) } :: [])),
    (Uint :: []))) } :: ({ f_dir = Put; f_pad = false; f_x = XUINT; f_i =
    Longlong; f_loop = LCall; f_body = (BTests (({ t_op = OGt; t_cmp =
    Longlong; t_chain = []; t_k = (KI (Zpos (XI (XI (XI (XI (XI (XI (XI (XI
    (XI (XI (XI (XI (XI (XI (XI (XI (XI (XI (XI (XI (XI (XI (XI (XI (XI (XI
    (XI (XI (XI (XI (XI XH))))))))))))))))))))))))))))))))); t_act = (AFill
    (true, (Some (KI (Zpos (XI (XI (XI (XI (XI (XI (XI (XI (XI (XI (XI (XI
    (XI (XI (XI (XI (XI (XI (XI (XI (XI (XI (XI (XI (XI (XI (XI (XI (XI (XI
    (XI XH)))))))))))))))))))))))))))))))))))) } :: ({ t_op = OLt; t_cmp =
    Longlong; t_chain = []; t_k = (KI Z0); t_act = (AFill (true, (Some (KI
    (Zpos (XI (XI (XI (XI (XI (XI (XI (XI (XI (XI (XI (XI (XI (XI (XI (XI (XI
    (XI (XI (XI (XI (XI (XI (XI (XI (XI (XI (XI (XI (XI (XI
    XH)))))))))))))))))))))))))))))))))))) } :: [])),
    (Uint :: []))) } :: ({ f_dir = Put; f_pad = false; f_x = XUINT; f_i =
    Ulonglong; f_loop = LCall; f_body = (BTests (({ t_op = OGt; t_cmp =
    Ulonglong; t_chain = []; t_k = (KI (Zpos (XI (XI (XI (XI (XI (XI (XI (XI
    (XI (XI (XI (XI (XI (XI (XI (XI (XI (XI (XI (XI (XI (XI (XI (XI (XI (XI
    (XI (XI (XI (XI (XI XH))))))))))))))))))))))))))))))))); t_act = (AFill
    (true, (Some (KI (Zpos (XI (XI (XI (XI (XI (XI (XI (XI (XI (XI (XI (XI
    (XI (XI (XI (XI (XI (XI (XI (XI (XI (XI (XI (XI (XI (XI (XI (XI (XI (XI
    (XI XH)))))))))))))))))))))))))))))))))))) } :: []),
    (Uint :: []))) } :: ({ f_dir = Put; f_pad = false; f_x = XFLOAT; f_i =
    Schar; f_loop = LCall; f_body = (BTests ([],
    (Float :: []))) } :: ({ f_dir = Put; f_pad = false; f_x = XFLOAT; f_i =
    Uchar; f_loop = LCall; f_body = (BTests ([],
    (Float :: []))) } :: ({ f_dir = Put; f_pad = false; f_x = XFLOAT; f_i =
    Short; f_loop = LCall; f_body = (BTests ([],
    (Float :: []))) } :: ({ f_dir = Put; f_pad = false; f_x = XFLOAT; f_i =
    Ushort; f_loop = LCall; f_body = (BTests ([],
    (Float :: []))) } :: ({ f_dir = Put; f_pad = false; f_x = XFLOAT; f_i =
    Int; f_loop = LCall; f_body = (BTests ([],
    (Float :: []))) } :: ({ f_dir = Put; f_pad = false; f_x = XFLOAT; f_i =
    Uint; f_loop = LCall; f_body = (BTests ([],
    (Float :: []))) } :: ({ f_dir = Put; f_pad = false; f_x = XFLOAT; f_i =
    Long; f_loop = LCall; f_body = (BTests ([],
    (Float :: []))) } :: ({ f_dir = Put; f_pad = false; f_x = XFLOAT; f_i =
    Float; f_loop = LSwap; f_body = BIdent } :: ({ f_dir = Put; f_pad =
    false; f_x = XFLOAT; f_i = Double; f_loop = LCall; f_body = (BTests
    (({ t_op = OGt; t_cmp = Double; t_chain = []; t_k = (KF (false, (Zpos (XO
    (XO (XO (XO (XO (XO (XO (XO (XO (XO (XO (XO (XO (XO (XO (XO (XO (XO (XO
    (XO (XO (XO (XO (XO (XO (XO (XO (XO (XO (XI (XI (XI (XI (XI (XI (XI (XI
    (XI (XI (XI (XI (XI (XI (XI (XI (XI (XI (XI (XI (XI (XI (XI
    XH))))))))))))))))))))))))))))))))))))))))))))))))))))), (Zpos (XI (XI
    (XO (XI (XO (XO XH))))))))); t_act = (AFill (true, (Some (KF (false,
    (Zpos (XO (XO (XO (XO (XO (XO (XO (XO (XO (XO (XO (XO (XO (XO (XO (XO (XO
    (XO (XO (XO (XI (XI (XI XH)))))))))))))))))))))))), (Zpos (XI (XI (XO (XO
    (XO (XI XH)))))))))))) } :: ({ t_op = OLt; t_cmp = Double; t_chain = [];
    t_k = (KF (true, (Zpos (XO (XO (XO (XO (XO (XO (XO (XO (XO (XO (XO (XO
    (XO (XO (XO (XO (XO (XO (XO (XO (XO (XO (XO (XO (XO (XO (XO (XO (XO (XI
    (XI (XI (XI (XI (XI (XI (XI (XI (XI (XI (XI (XI (XI (XI (XI (XI (XI (XI
    (XI (XI (XI (XI XH))))))))))))))))))))))))))))))))))))))))))))))))))))),
    (Zpos (XI (XI (XO (XI (XO (XO XH))))))))); t_act = (AFill (true, (Some
    (KF (false, (Zpos (XO (XO (XO (XO (XO (XO (XO (XO (XO (XO (XO (XO (XO (XO
    (XO (XO (XO (XO (XO (XO (XI (XI (XI XH)))))))))))))))))))))))), (Zpos (XI
    (XI (XO (XO (XO (XI XH)))))))))))) } :: [])),
    (Float :: []))) } :: ({ f_dir = Put; f_pad = false; f_x = XFLOAT; f_i =
    Longlong; f_loop = LCall; f_body = (BTests ([],
    (Float :: []))) } :: ({ f_dir = Put; f_pad = false; f_x = XFLOAT; f_i =
    Ulonglong; f_loop = LCall; f_body = (BTests ([],
    (Float :: []))) } :: ({ f_dir = Put; f_pad = false; f_x = XDOUBLE; f_i =
    Schar; f_loop = LCall; f_body = (BTests ([],
    (Double :: []))) } :: ({ f_dir = Put; f_pad = false; f_x = XDOUBLE; f_i =
    Uchar; f_loop = LCall; f_body = (BTests ([],
    (Double :: []))) } :: ({ f_dir = Put; f_pad = false; f_x = XDOUBLE; f_i =
    Short; f_loop = LCall; f_body = (BTests ([],
    (Double :: []))) } :: ({ f_dir = Put; f_pad = false; f_x = XDOUBLE; f_i =
    Ushort; f_loop = LCall; f_body = (BTests ([],
    (Double :: []))) } :: ({ f_dir = Put; f_pad = false; f_x = XDOUBLE; f_i =
    Int; f_loop = LCall; f_body = (BTests ([],
    (Double :: []))) } :: ({ f_dir = Put; f_pad = false; f_x = XDOUBLE; f_i =
    Uint; f_loop = LCall; f_body = (BTests ([],
    (Double :: []))) } :: ({ f_dir = Put; f_pad = false; f_x = XDOUBLE; f_i =
    Long; f_loop = LCall; f_body = (BTests ([],
    (Double :: []))) } :: ({ f_dir = Put; f_pad = false; f_x = XDOUBLE; f_i =
    Float; f_loop = LCall; f_body = (BTests (({ t_op = OGt; t_cmp = Double;
    t_chain = (Double :: []); t_k = (KF (false, (Zpos (XI (XI (XI (XI (XI (XI
    (XI (XI (XI (XI (XI (XI (XI (XI (XI (XI (XI (XI (XI (XI (XI (XI (XI (XI
    (XI (XI (XI (XI (XI (XI (XI (XI (XI (XI (XI (XI (XI (XI (XI (XI (XI (XI
    (XI (XI (XI (XI (XI (XI (XI (XI (XI (XI
    XH))))))))))))))))))))))))))))))))))))))))))))))))))))), (Zpos (XI (XI
    (XO (XI (XO (XO (XI (XI (XI XH)))))))))))); t_act = (AFill (true, (Some
    (KF (false, (Zpos (XO (XO (XO (XO (XO (XO (XO (XO (XO (XO (XO (XO (XO (XO
    (XO (XO (XO (XO (XO (XO (XO (XO (XO (XO (XO (XO (XO (XO (XO (XO (XO (XO
    (XO (XO (XO (XO (XO (XO (XO (XO (XO (XO (XO (XO (XO (XO (XO (XO (XO (XI
    (XI (XI XH))))))))))))))))))))))))))))))))))))))))))))))))))))), (Zpos
    (XO (XI (XI (XO (XO (XO XH)))))))))))) } :: ({ t_op = OLt; t_cmp =
    Double; t_chain = (Double :: []); t_k = (KF (true, (Zpos (XI (XI (XI (XI
    (XI (XI (XI (XI (XI (XI (XI (XI (XI (XI (XI (XI (XI (XI (XI (XI (XI (XI
    (XI (XI (XI (XI (XI (XI (XI (XI (XI (XI (XI (XI (XI (XI (XI (XI (XI (XI
    (XI (XI (XI (XI (XI (XI (XI (XI (XI (XI (XI (XI
    XH))))))))))))))))))))))))))))))))))))))))))))))))))))), (Zpos (XI (XI
    (XO (XI (XO (XO (XI (XI (XI XH)))))))))))); t_act = (AFill (true, (Some
    (KF (false, (Zpos (XO (XO (XO (XO (XO (XO (XO (XO (XO (XO (XO (XO (XO (XO
    (XO (XO (XO (XO (XO (XO (XO (XO (XO (XO (XO (XO (XO (XO (XO (XO (XO (XO
    (XO (XO (XO (XO (XO (XO (XO (XO (XO (XO (XO (XO (XO (XO (XO (XO (XO (XI
    (XI (XI XH))))))))))))))))))))))))))))))))))))))))))))))))))))), (Zpos
    (XO (XI (XI (XO (XO (XO XH)))))))))))) } :: [])),
    (Double :: []))) } :: ({ f_dir = Put; f_pad = false; f_x = XDOUBLE; f_i =
    Double; f_loop = LSwap; f_body = BIdent } :: ({ f_dir = Put; f_pad =
    false; f_x = XDOUBLE; f_i = Longlong; f_loop = LCall; f_body = (BTests
    ([], (Double :: []))) } :: ({ f_dir = Put; f_pad = false; f_x = XDOUBLE;
    f_i = Ulonglong; f_loop = LCall; f_body = (BTests ([],
    (Double :: []))) } :: ({ f_dir = Put; f_pad = false; f_x = XINT64; f_i =
    Schar; f_loop = LCall; f_body = (BTests ([],
    (Longlong :: []))) } :: ({ f_dir = Put; f_pad = false; f_x = XINT64;
    f_i = Uchar; f_loop = LCall; f_body = (BTests ([],
    (Longlong :: []))) } :: ({ f_dir = Put; f_pad = false; f_x = XINT64;
    f_i = Short; f_loop = LCall; f_body = (BTests ([],
    (Longlong :: []))) } :: ({ f_dir = Put; f_pad = false; f_x = XINT64;
    f_i = Ushort; f_loop = LCall; f_body = (BTests ([],
    (Longlong :: []))) } :: ({ f_dir = Put; f_pad = false; f_x = XINT64;
    f_i = Int; f_loop = LCall; f_body = (BTests ([],
    (Longlong :: []))) } :: ({ f_dir = Put; f_pad = false; f_x = XINT64;
    f_i = Uint; f_loop = LCall; f_body = (BTests ([],
    (Longlong :: []))) } :: ({ f_dir = Put; f_pad = false; f_x = XINT64;
    f_i = Long; f_loop = LCall; f_body = BIdent } :: ({ f_dir = Put; f_pad =
    false; f_x = XINT64; f_i = Float; f_loop = LCall; f_body = (BTests
    (({ t_op = OGt; t_cmp = Double; t_chain = (Double :: []); t_k = (KF
    (false, (Zpos (XO (XO (XO (XO (XO (XO (XO (XO (XO (XO (XO (XO (XO (XO (XO
    (XO (XO (XO (XO (XO (XO (XO (XO (XO (XO (XO (XO (XO (XO (XO (XO (XO (XO
    (XO (XO (XO (XO (XO (XO (XO (XO (XO (XO (XO (XO (XO (XO (XO (XO (XO (XO
    (XO XH))))))))))))))))))))))))))))))))))))))))))))))))))))), (Zpos (XI
    (XI (XO XH)))))); t_act = (AFill (true, (Some (KI (Zneg (XO (XI (XI (XI
    (XI (XI (XI (XI (XI (XI (XI (XI (XI (XI (XI (XI (XI (XI (XI (XI (XI (XI
    (XI (XI (XI (XI (XI (XI (XI (XI (XI (XI (XI (XI (XI (XI (XI (XI (XI (XI
    (XI (XI (XI (XI (XI (XI (XI (XI (XI (XI (XI (XI (XI (XI (XI (XI (XI (XI
    (XI (XI (XI (XI
    XH))))))))))))))))))))))))))))))))))))))))))))))))))))))))))))))))))) } :: ({ t_op =
    OLt; t_cmp = Double; t_chain = (Double :: []); t_k = (KF (true, (Zpos (XO
    (XO (XO (XO (XO (XO (XO (XO (XO (XO (XO (XO (XO (XO (XO (XO (XO (XO (XO
    (XO (XO (XO (XO (XO (XO (XO (XO (XO (XO (XO (XO (XO (XO (XO (XO (XO (XO
    (XO (XO (XO (XO (XO (XO (XO (XO (XO (XO (XO (XO (XO (XO (XO
    XH))))))))))))))))))))))))))))))))))))))))))))))))))))), (Zpos (XI (XI
    (XO XH)))))); t_act = (AFill (true, (Some (KI (Zneg (XO (XI (XI (XI (XI
    (XI (XI (XI (XI (XI (XI (XI (XI (XI (XI (XI (XI (XI (XI (XI (XI (XI (XI
    (XI (XI (XI (XI (XI (XI (XI (XI (XI (XI (XI (XI (XI (XI (XI (XI (XI (XI
    (XI (XI (XI (XI (XI (XI (XI (XI (XI (XI (XI (XI (XI (XI (XI (XI (XI (XI
    (XI (XI (XI
    XH))))))))))))))))))))))))))))))))))))))))))))))))))))))))))))))))))) } :: [])),
    (Longlong :: []))) } :: ({ f_dir = Put; f_pad = false; f_x = XINT64;
    f_i = Double; f_loop = LCall; f_body = (BTests (({ t_op = OGt; t_cmp =
    Double; t_chain = []; t_k = (KF (false, (Zpos (XO (XO (XO (XO (XO (XO (XO
    (XO (XO (XO (XO (XO (XO (XO (XO (XO (XO (XO (XO (XO (XO (XO (XO (XO (XO
    (XO (XO (XO (XO (XO (XO (XO (XO (XO (XO (XO (XO (XO (XO (XO (XO (XO (XO
    (XO (XO (XO (XO (XO (XO (XO (XO (XO
    XH))))))))))))))))))))))))))))))))))))))))))))))))))))), (Zpos (XI (XI
    (XO XH)))))); t_act = (AFill (true, (Some (KI (Zneg (XO (XI (XI (XI (XI
    (XI (XI (XI (XI (XI (XI (XI (XI (XI (XI (XI (XI (XI (XI (XI (XI (XI (XI
    (XI (XI (XI (XI (XI (XI (XI (XI (XI (XI (XI (XI (XI (XI (XI (XI (XI (XI
    (XI (XI (XI (XI (XI (XI (XI (XI (XI (XI (XI (XI (XI (XI (XI (XI (XI (XI
    (XI (XI (XI
    XH))))))))))))))))))))))))))))))))))))))))))))))))))))))))))))))))))) } :: ({ t_op =
    OLt; t_cmp = Double; t_chain = []; t_k = (KF (true, (Zpos (XO (XO (XO (XO
    (XO (XO (XO (XO (XO (XO (XO (XO (XO (XO (XO (XO (XO (XO (XO (XO (XO (XO
    (XO (XO (XO (XO (XO (XO (XO (XO (XO (XO (XO (XO (XO (XO (XO (XO (XO (XO
    (XO (XO (XO (XO (XO (XO (XO (XO (XO (XO (XO (XO
    XH))))))))))))))))))))))))))))))))))))))))))))))))))))), (Zpos (XI (XI
    (XO XH)))))); t_act = (AFill (true, (Some (KI (Zneg (XO (XI (XI (XI (XI
    (XI (XI (XI (XI (XI (XI (XI (XI (XI (XI (XI (XI (XI (XI (XI (XI (XI (XI
    (XI (XI (XI (XI (XI (XI (XI (XI (XI (XI (XI (XI (XI (XI (XI (XI (XI (XI
    (XI (XI (XI (XI (XI (XI (XI (XI (XI (XI (XI (XI (XI (XI (XI (XI (XI (XI
    (XI (XI (XI
    XH))))))))))))))))))))))))))))))))))))))))))))))))))))))))))))))))))) } :: [])),
    (Longlong :: []))) } :: ({ f_dir = Put; f_pad = false; f_x = XINT64;
    f_i = Longlong; f_loop = LSwap; f_body = BIdent } :: ({ f_dir = Put;
    f_pad = false; f_x = XINT64; f_i = Ulonglong; f_loop = LCall; f_body =
    (BTests (({ t_op = OGt; t_cmp = Ulonglong; t_chain = []; t_k = (KI (Zpos
    (XI (XI (XI (XI (XI (XI (XI (XI (XI (XI (XI (XI (XI (XI (XI (XI (XI (XI
    (XI (XI (XI (XI (XI (XI (XI (XI (XI (XI (XI (XI (XI (XI (XI (XI (XI (XI
    (XI (XI (XI (XI (XI (XI (XI (XI (XI (XI (XI (XI (XI (XI (XI (XI (XI (XI
    (XI (XI (XI (XI (XI (XI (XI (XI
    XH))))))))))))))))))))))))))))))))))))))))))))))))))))))))))))))));
    t_act = (AFill (true, (Some (KI (Zneg (XO (XI (XI (XI (XI (XI (XI (XI (XI
    (XI (XI (XI (XI (XI (XI (XI (XI (XI (XI (XI (XI (XI (XI (XI (XI (XI (XI
    (XI (XI (XI (XI (XI (XI (XI (XI (XI (XI (XI (XI (XI (XI (XI (XI (XI (XI
    (XI (XI (XI (XI (XI (XI (XI (XI (XI (XI (XI (XI (XI (XI (XI (XI (XI
    XH))))))))))))))))))))))))))))))))))))))))))))))))))))))))))))))))))) } :: []),
    (Longlong :: []))) } :: ({ f_dir = Put; f_pad = false; f_x = XUINT64;
    f_i = Schar; f_loop = LCall; f_body = (BTests (({ t_op = OLt; t_cmp =
    Int; t_chain = (Int :: []); t_k = (KI Z0); t_act = (AFill (true, (Some
    (KI (Zpos (XO (XI (XI (XI (XI (XI (XI (XI (XI (XI (XI (XI (XI (XI (XI (XI
    (XI (XI (XI (XI (XI (XI (XI (XI (XI (XI (XI (XI (XI (XI (XI (XI (XI (XI
    (XI (XI (XI (XI (XI (XI (XI (XI (XI (XI (XI (XI (XI (XI (XI (XI (XI (XI
    (XI (XI (XI (XI (XI (XI (XI (XI (XI (XI (XI
    XH)))))))))))))))))))))))))))))))))))))))))))))))))))))))))))))))))))) } :: []),
    (Ulonglong :: []))) } :: ({ f_dir = Put; f_pad = false; f_x = XUINT64;
    f_i = Uchar; f_loop = LCall; f_body = (BTests ([],
    (Ulonglong :: []))) } :: ({ f_dir = Put; f_pad = false; f_x = XUINT64;
    f_i = Short; f_loop = LCall; f_body = (BTests (({ t_op = OLt; t_cmp =
    Int; t_chain = (Int :: []); t_k = (KI Z0); t_act = (AFill (true, (Some
    (KI (Zpos (XO (XI (XI (XI (XI (XI (XI (XI (XI (XI (XI (XI (XI (XI (XI (XI
    (XI (XI (XI (XI (XI (XI (XI (XI (XI (XI (XI (XI (XI (XI (XI (XI (XI (XI
    (XI (XI (XI (XI (XI (XI (XI (XI (XI (XI (XI (XI (XI (XI (XI (XI (XI (XI
    (XI (XI (XI (XI (XI (XI (XI (XI (XI (XI (XI
    XH)))))))))))))))))))))))))))))))))))))))))))))))))))))))))))))))))))) } :: []),
    (Ulonglong :: []))) } :: ({ f_dir = Put; f_pad = false; f_x = XUINT64;
    f_i = Ushort; f_loop = LCall; f_body = (BTests ([],
    (Ulonglong :: []))) } :: ({ f_dir = Put; f_pad = false; f_x = XUINT64;
    f_i = Int; f_loop = LCall; f_body = (BTests (({ t_op = OLt; t_cmp = Int;
    t_chain = []; t_k = (KI Z0); t_act = (AFill (true, (Some (KI (Zpos (XO
    (XI (XI (XI (XI (XI (XI (XI (XI (XI (XI (XI (XI (XI (XI (XI (XI (XI (XI
    (XI (XI (XI (XI (XI (XI (XI (XI (XI (XI (XI (XI (XI (XI (XI (XI (XI (XI
    (XI (XI (XI (XI (XI (XI (XI (XI (XI (XI (XI (XI (XI (XI (XI (XI (XI (XI
    (XI (XI (XI (XI (XI (XI (XI (XI
    XH)))))))))))))))))))))))))))))))))))))))))))))))))))))))))))))))))))) } :: []),
    (Ulonglong :: []))) } :: ({ f_dir = Put; f_pad = false; f_x = XUINT64;
    f_i = Uint; f_loop = LCall; f_body = (BTests ([],
    (Ulonglong :: []))) } :: ({ f_dir = Put; f_pad = false; f_x = XUINT64;
    f_i = Long; f_loop = LCall; f_body = (BTests (({ t_op = OLt; t_cmp =
    Long; t_chain = []; t_k = (KI Z0); t_act = (AFill (true, (Some (KI (Zpos
    (XO (XI (XI (XI (XI (XI (XI (XI (XI (XI (XI (XI (XI (XI (XI (XI (XI (XI
    (XI (XI (XI (XI (XI (XI (XI (XI (XI (XI (XI (XI (XI (XI (XI (XI (XI (XI
    (XI (XI (XI (XI (XI (XI (XI (XI (XI (XI (XI (XI (XI (XI (XI (XI (XI (XI
    (XI (XI (XI (XI (XI (XI (XI (XI (XI
    XH)))))))))))))))))))))))))))))))))))))))))))))))))))))))))))))))))))) } :: []),
    (Ulonglong :: []))) } :: ({ f_dir = Put; f_pad = false; f_x = XUINT64;
    f_i = Float; f_loop = LCall; f_body = (BTests (({ t_op = OGt; t_cmp =
    Double; t_chain = (Double :: []); t_k = (KF (false, (Zpos (XO (XO (XO (XO
    (XO (XO (XO (XO (XO (XO (XO (XO (XO (XO (XO (XO (XO (XO (XO (XO (XO (XO
    (XO (XO (XO (XO (XO (XO (XO (XO (XO (XO (XO (XO (XO (XO (XO (XO (XO (XO
    (XO (XO (XO (XO (XO (XO (XO (XO (XO (XO (XO (XO
    XH))))))))))))))))))))))))))))))))))))))))))))))))))))), (Zpos (XO (XO
    (XI XH)))))); t_act = (AFill (true, (Some (KI (Zpos (XO (XI (XI (XI (XI
    (XI (XI (XI (XI (XI (XI (XI (XI (XI (XI (XI (XI (XI (XI (XI (XI (XI (XI
    (XI (XI (XI (XI (XI (XI (XI (XI (XI (XI (XI (XI (XI (XI (XI (XI (XI (XI
    (XI (XI (XI (XI (XI (XI (XI (XI (XI (XI (XI (XI (XI (XI (XI (XI (XI (XI
    (XI (XI (XI (XI
    XH)))))))))))))))))))))))))))))))))))))))))))))))))))))))))))))))))))) } :: ({ t_op =
    OLt; t_cmp = Float; t_chain = []; t_k = (KF (false, Z0, (Zneg (XI (XO (XI
    (XO (XI (XO (XO XH)))))))))); t_act = (AFill (true, (Some (KI (Zpos (XO
    (XI (XI (XI (XI (XI (XI (XI (XI (XI (XI (XI (XI (XI (XI (XI (XI (XI (XI
    (XI (XI (XI (XI (XI (XI (XI (XI (XI (XI (XI (XI (XI (XI (XI (XI (XI (XI
    (XI (XI (XI (XI (XI (XI (XI (XI (XI (XI (XI (XI (XI (XI (XI (XI (XI (XI
    (XI (XI (XI (XI (XI (XI (XI (XI
    XH)))))))))))))))))))))))))))))))))))))))))))))))))))))))))))))))))))) } :: [])),
    (Ulonglong :: []))) } :: ({ f_dir = Put; f_pad = false; f_x = XUINT64;
    f_i = Double; f_loop = LCall; f_body = (BTests (({ t_op = OGt; t_cmp =
    Double; t_chain = []; t_k = (KF (false, (Zpos (XO (XO (XO (XO (XO (XO (XO
    (XO (XO (XO (XO (XO (XO (XO (XO (XO (XO (XO (XO (XO (XO (XO (XO (XO (XO
    (XO (XO (XO (XO (XO (XO (XO (XO (XO (XO (XO (XO (XO (XO (XO (XO (XO (XO
    (XO (XO (XO (XO (XO (XO (XO (XO (XO
    XH))))))))))))))))))))))))))))))))))))))))))))))))))))), (Zpos (XO (XO
    (XI XH)))))); t_act = (AFill (true, (Some (KI (Zpos (XO (XI (XI (XI (XI
    (XI (XI (XI (XI (XI (XI (XI (XI (XI (XI (XI (XI (XI (XI (XI (XI (XI (XI
    (XI (XI (XI (XI (XI (XI (XI (XI (XI (XI (XI (XI (XI (XI (XI (XI (XI (XI
    (XI (XI (XI (XI (XI (XI (XI (XI (XI (XI (XI (XI (XI (XI (XI (XI (XI (XI
    (XI (XI (XI (XI
    XH)))))))))))))))))))))))))))))))))))))))))))))))))))))))))))))))))))) } :: ({ t_op =
    OLt; t_cmp = Double; t_chain = []; t_k = (KF (false, Z0, (Zneg (XO (XI
    (XO (XO (XI (XI (XO (XO (XO (XO XH))))))))))))); t_act = (AFill (true,
    (Some (KI (Zpos (XO (XI (XI (XI (XI (XI (XI (XI (XI (XI (XI (XI (XI (XI
    (XI (XI (XI (XI (XI (XI (XI (XI (XI (XI (XI (XI (XI (XI (XI (XI (XI (XI
    (XI (XI (XI (XI (XI (XI (XI (XI (XI (XI (XI (XI (XI (XI (XI (XI (XI (XI
    (XI (XI (XI (XI (XI (XI (XI (XI (XI (XI (XI (XI (XI
    XH)))))))))))))))))))))))))))))))))))))))))))))))))))))))))))))))))))) } :: [])),
    (Ulonglong :: []))) } :: ({ f_dir = Put; f_pad = false; f_x = XUINT64;
    f_i = Longlong; f_loop = LCall; f_body = (BTests (({ t_op = OLt; t_cmp =
    Longlong; t_chain = []; t_k = (KI Z0); t_act = (AFill (true, (Some (KI
    (Zpos (XO (XI (XI (XI (XI (XI (XI (XI (XI (XI (XI (XI (XI (XI (XI (XI (XI
    (XI (XI (XI (XI (XI (XI (XI (XI (XI (XI (XI (XI (XI (XI (XI (XI (XI (XI
    (XI (XI (XI (XI (XI (XI (XI (XI (XI (XI (XI (XI (XI (XI (XI (XI (XI (XI
    (XI (XI (XI (XI (XI (XI (XI (XI (XI (XI
    XH)))))))))))))))))))))))))))))))))))))))))))))))))))))))))))))))))))) } :: []),
    (Ulonglong :: []))) } :: ({ f_dir = Put; f_pad = false; f_x = XUINT64;
    f_i = Ulonglong; f_loop = LSwap; f_body = BIdent } :: ({ f_dir = Get;
    f_pad = false; f_x = XBYTE; f_i = Schar; f_loop = LMemcpy; f_body =
    BIdent } :: ({ f_dir = Get; f_pad = false; f_x = XBYTE; f_i = Uchar;
    f_loop = LInline; f_body = (BTests (({ t_op = OLt; t_cmp = Int; t_chain =
    (Int :: []); t_k = (KI Z0); t_act = (AFill (false, (Some (KI (Zpos (XI
    (XI (XI (XI (XI (XI (XI XH)))))))))))) } :: []),
    (Int :: (Uchar :: [])))) } :: ({ f_dir = Get; f_pad = false; f_x = XBYTE;
    f_i = Short; f_loop = LInline; f_body = (BTests ([],
    (Short :: []))) } :: ({ f_dir = Get; f_pad = false; f_x = XBYTE; f_i =
    Ushort; f_loop = LInline; f_body = (BTests (({ t_op = OLt; t_cmp = Int;
    t_chain = (Int :: []); t_k = (KI Z0); t_act = (AFill (false, (Some (KI
    (Zpos (XI (XI (XI (XI (XI (XI (XI (XI (XI (XI (XI (XI (XI (XI (XI
    XH)))))))))))))))))))) } :: []),
    (Int :: (Ushort :: [])))) } :: ({ f_dir = Get; f_pad = false; f_x =
    XBYTE; f_i = Int; f_loop = LInline; f_body = (BTests ([],
    (Int :: []))) } :: ({ f_dir = Get; f_pad = false; f_x = XBYTE; f_i =
    Uint; f_loop = LInline; f_body = (BTests (({ t_op = OLt; t_cmp = Int;
    t_chain = (Int :: []); t_k = (KI Z0); t_act = (AFill (false, (Some (KI
    (Zpos (XI (XI (XI (XI (XI (XI (XI (XI (XI (XI (XI (XI (XI (XI (XI (XI (XI
    (XI (XI (XI (XI (XI (XI (XI (XI (XI (XI (XI (XI (XI (XI
    XH)))))))))))))))))))))))))))))))))))) } :: []),
    (Int :: (Uint :: [])))) } :: ({ f_dir = Get; f_pad = false; f_x = XBYTE;
    f_i = Long; f_loop = LInline; f_body = (BTests ([],
    (Long :: []))) } :: ({ f_dir = Get; f_pad = false; f_x = XBYTE; f_i =
    Float; f_loop = LInline; f_body = (BTests ([],
    (Float :: []))) } :: ({ f_dir = Get; f_pad = false; f_x = XBYTE; f_i =
    Double; f_loop = LInline; f_body = (BTests ([],
    (Double :: []))) } :: ({ f_dir = Get; f_pad = false; f_x = XBYTE; f_i =
    Longlong; f_loop = LInline; f_body = (BTests ([],
    (Longlong :: []))) } :: ({ f_dir = Get; f_pad = false; f_x = XBYTE; f_i =
    Ulonglong; f_loop = LInline; f_body = (BTests (({ t_op = OLt; t_cmp =
    Int; t_chain = (Int :: []); t_k = (KI Z0); t_act = (AFill (false, (Some
    (KI (Zpos (XO (XI (XI (XI (XI (XI (XI (XI (XI (XI (XI (XI (XI (XI (XI (XI
    (XI (XI (XI (XI (XI (XI (XI (XI (XI (XI (XI (XI (XI (XI (XI (XI (XI (XI
    (XI (XI (XI (XI (XI (XI (XI (XI (XI (XI (XI (XI (XI (XI (XI (XI (XI (XI
    (XI (XI (XI (XI (XI (XI (XI (XI (XI (XI (XI
    XH)))))))))))))))))))))))))))))))))))))))))))))))))))))))))))))))))))) } :: []),
    (Int :: (Ulonglong :: [])))) } :: ({ f_dir = Get; f_pad = false; f_x =
    XUBYTE; f_i = Schar; f_loop = LInline; f_body = (BTests (({ t_op = OGt;
    t_cmp = Int; t_chain = (Int :: []); t_k = (KI (Zpos (XI (XI (XI (XI (XI
    (XI XH)))))))); t_act = (AFill (false, (Some (KI (Zneg (XI (XI (XI (XI
    (XI (XI XH))))))))))) } :: []), (Schar :: []))) } :: ({ f_dir = Get;
    f_pad = false; f_x = XUBYTE; f_i = Uchar; f_loop = LMemcpy; f_body =
    BIdent } :: ({ f_dir = Get; f_pad = false; f_x = XUBYTE; f_i = Short;
    f_loop = LInline; f_body = (BTests ([], (Short :: []))) } :: ({ f_dir =
    Get; f_pad = false; f_x = XUBYTE; f_i = Ushort; f_loop = LInline;
    f_body = (BTests ([], (Ushort :: []))) } :: ({ f_dir = Get; f_pad =
    false; f_x = XUBYTE; f_i = Int; f_loop = LInline; f_body = (BTests ([],
    (Int :: []))) } :: ({ f_dir = Get; f_pad = false; f_x = XUBYTE; f_i =
    Uint; f_loop = LInline; f_body = (BTests ([],
    (Uint :: []))) } :: ({ f_dir = Get; f_pad = false; f_x = XUBYTE; f_i =
    Long; f_loop = LInline; f_body = (BTests ([],
    (Long :: []))) } :: ({ f_dir = Get; f_pad = false; f_x = XUBYTE; f_i =
    Float; f_loop = LInline; f_body = (BTests ([],
    (Float :: []))) } :: ({ f_dir = Get; f_pad = false; f_x = XUBYTE; f_i =
    Double; f_loop = LInline; f_body = (BTests ([],
    (Double :: []))) } :: ({ f_dir = Get; f_pad = false; f_x = XUBYTE; f_i =
    Longlong; f_loop = LInline; f_body = (BTests ([],
    (Longlong :: []))) } :: ({ f_dir = Get; f_pad = false; f_x = XUBYTE;
    f_i = Ulonglong; f_loop = LInline; f_body = (BTests ([],
    (Ulonglong :: []))) } :: ({ f_dir = Get; f_pad = false; f_x = XSHORT;
    f_i = Schar; f_loop = LCall; f_body = (BTests (({ t_op = OGt; t_cmp =
    Int; t_chain = (Int :: []); t_k = (KI (Zpos (XI (XI (XI (XI (XI (XI
    XH)))))))); t_act = (AFill (false, (Some (KI (Zneg (XI (XI (XI (XI (XI
    (XI XH))))))))))) } :: ({ t_op = OLt; t_cmp = Int; t_chain = (Int :: []);
    t_k = (KI (Zneg (XO (XO (XO (XO (XO (XO (XO XH))))))))); t_act = (AFill
    (false, (Some (KI (Zneg (XI (XI (XI (XI (XI (XI XH))))))))))) } :: [])),
    (Schar :: []))) } :: ({ f_dir = Get; f_pad = false; f_x = XSHORT; f_i =
    Uchar; f_loop = LCall; f_body = (BTests (({ t_op = OGt; t_cmp = Int;
    t_chain = (Int :: []); t_k = (KI (Zpos (XI (XI (XI (XI (XI (XI (XI
    XH))))))))); t_act = (AFill (false, (Some (KI (Zpos (XI (XI (XI (XI (XI
    (XI (XI XH)))))))))))) } :: ({ t_op = OLt; t_cmp = Int; t_chain =
    (Int :: []); t_k = (KI Z0); t_act = (AFill (false, (Some (KI (Zpos (XI
    (XI (XI (XI (XI (XI (XI XH)))))))))))) } :: [])),
    (Uchar :: []))) } :: ({ f_dir = Get; f_pad = false; f_x = XSHORT; f_i =
    Short; f_loop = LSwap; f_body = BIdent } :: ({ f_dir = Get; f_pad =
    false; f_x = XSHORT; f_i = Ushort; f_loop = LCall; f_body = (BTests
    (({ t_op = OLt; t_cmp = Int; t_chain = (Int :: []); t_k = (KI Z0);
    t_act = (AFill (false, (Some (KI (Zpos (XI (XI (XI (XI (XI (XI (XI (XI
    (XI (XI (XI (XI (XI (XI (XI XH)))))))))))))))))))) } :: []),
    (Ushort :: []))) } :: ({ f_dir = Get; f_pad = false; f_x = XSHORT; f_i =
    Int; f_loop = LCall; f_body = (BTests ([], (Int :: []))) } :: ({ f_dir =
    Get; f_pad = false; f_x = XSHORT; f_i = Uint; f_loop = LCall; f_body =
    (BTests (({ t_op = OLt; t_cmp = Int; t_chain = (Int :: []); t_k = (KI
    Z0); t_act = (AFill (false, (Some (KI (Zpos (XI (XI (XI (XI (XI (XI (XI
    (XI (XI (XI (XI (XI (XI (XI (XI (XI (XI (XI (XI (XI (XI (XI (XI (XI (XI
    (XI (XI (XI (XI (XI (XI XH)))))))))))))))))))))))))))))))))))) } :: []),
    (Uint :: []))) } :: ({ f_dir = Get; f_pad = false; f_x = XSHORT; f_i =
    Long; f_loop = LCall; f_body = (BTests ([],
    (Long :: []))) } :: ({ f_dir = Get; f_pad = false; f_x = XSHORT; f_i =
    Float; f_loop = LCall; f_body = (BTests ([],
    (Float :: []))) } :: ({ f_dir = Get; f_pad = false; f_x = XSHORT; f_i =
    Double; f_loop = LCall; f_body = (BTests ([],
    (Double :: []))) } :: ({ f_dir = Get; f_pad = false; f_x = XSHORT; f_i =
    Longlong; f_loop = LCall; f_body = (BTests ([],
    (Longlong :: []))) } :: ({ f_dir = Get; f_pad = false; f_x = XSHORT;
    f_i = Ulonglong; f_loop = LCall; f_body = (BTests (({ t_op = OLt; t_cmp =
    Int; t_chain = (Int :: []); t_k = (KI Z0); t_act = (AFill (false, (Some
    (KI (Zpos (XO (XI (XI (XI (XI (XI (XI (XI (XI (XI (XI (XI (XI (XI (XI (XI
    (XI (XI (XI (XI (XI (XI (XI (XI (XI (XI (XI (XI (XI (XI (XI (XI (XI (XI
    (XI (XI (XI (XI (XI (XI (XI (XI (XI (XI (XI (XI (XI (XI (XI (XI (XI (XI
    (XI (XI (XI (XI (XI (XI (XI (XI (XI (XI (XI
    XH)))))))))))))))))))))))))))))))))))))))))))))))))))))))))))))))))))) } :: []),
    (Ulonglong :: []))) } :: ({ f_dir = Get; f_pad = false; f_x = XUSHORT;
    f_i = Schar; f_loop = LCall; f_body = (BTests (({ t_op = OGt; t_cmp =
    Int; t_chain = (Int :: []); t_k = (KI (Zpos (XI (XI (XI (XI (XI (XI
    XH)))))))); t_act = (AFill (false, (Some (KI (Zneg (XI (XI (XI (XI (XI
    (XI XH))))))))))) } :: []), (Schar :: []))) } :: ({ f_dir = Get; f_pad =
    false; f_x = XUSHORT; f_i = Uchar; f_loop = LCall; f_body = (BTests
    (({ t_op = OGt; t_cmp = Int; t_chain = (Int :: []); t_k = (KI (Zpos (XI
    (XI (XI (XI (XI (XI (XI XH))))))))); t_act = (AFill (false, (Some (KI
    (Zpos (XI (XI (XI (XI (XI (XI (XI XH)))))))))))) } :: []),
    (Uchar :: []))) } :: ({ f_dir = Get; f_pad = false; f_x = XUSHORT; f_i =
    Short; f_loop = LCall; f_body = (BTests (({ t_op = OGt; t_cmp = Int;
    t_chain = (Int :: []); t_k = (KI (Zpos (XI (XI (XI (XI (XI (XI (XI (XI
    (XI (XI (XI (XI (XI (XI XH)))))))))))))))); t_act = (AFill (false, (Some
    (KI (Zneg (XI (XI (XI (XI (XI (XI (XI (XI (XI (XI (XI (XI (XI (XI
    XH))))))))))))))))))) } :: []), (Short :: []))) } :: ({ f_dir = Get;
    f_pad = false; f_x = XUSHORT; f_i = Ushort; f_loop = LSwap; f_body =
    BIdent } :: ({ f_dir = Get; f_pad = false; f_x = XUSHORT; f_i = Int;
    f_loop = LCall; f_body = (BTests ([], (Int :: []))) } :: ({ f_dir = Get;
    f_pad = false; f_x = XUSHORT; f_i = Uint; f_loop = LCall; f_body =
    (BTests ([], (Uint :: []))) } :: ({ f_dir = Get; f_pad = false; f_x =
    XUSHORT; f_i = Long; f_loop = LCall; f_body = (BTests ([],
    (Long :: []))) } :: ({ f_dir = Get; f_pad = false; f_x = XUSHORT; f_i =
    Float; f_loop = LCall; f_body = (BTests ([],
    (Float :: []))) } :: ({ f_dir = Get; f_pad = false; f_x = XUSHORT; f_i =
    Double; f_loop = LCall; f_body = (BTests ([],
    (Double :: []))) } :: ({ f_dir = Get; f_pad = false; f_x = XUSHORT; f_i =
    Longlong; f_loop = LCall; f_body = (BTests ([],
    (Longlong :: []))) } :: ({ f_dir = Get; f_pad = false; f_x = XUSHORT;
    f_i = Ulonglong; f_loop = LCall; f_body = (BTests ([],
    (Ulonglong :: []))) } :: ({ f_dir = Get; f_pad = false; f_x = XINT; f_i =
    Schar; f_loop = LCall; f_body = (BTests (({ t_op = OGt; t_cmp = Int;
    t_chain = []; t_k = (KI (Zpos (XI (XI (XI (XI (XI (XI XH)))))))); t_act =
    (AFill (false, (Some (KI (Zneg (XI (XI (XI (XI (XI (XI
    XH))))))))))) } :: ({ t_op = OLt; t_cmp = Int; t_chain = []; t_k = (KI
    (Zneg (XO (XO (XO (XO (XO (XO (XO XH))))))))); t_act = (AFill (false,
    (Some (KI (Zneg (XI (XI (XI (XI (XI (XI XH))))))))))) } :: [])),
    (Schar :: []))) } :: ({ f_dir = Get; f_pad = false; f_x = XINT; f_i =
    Uchar; f_loop = LCall; f_body = (BTests (({ t_op = OGt; t_cmp = Int;
    t_chain = []; t_k = (KI (Zpos (XI (XI (XI (XI (XI (XI (XI XH)))))))));
    t_act = (AFill (false, (Some (KI (Zpos (XI (XI (XI (XI (XI (XI (XI
    XH)))))))))))) } :: ({ t_op = OLt; t_cmp = Int; t_chain = []; t_k = (KI
    Z0); t_act = (AFill (false, (Some (KI (Zpos (XI (XI (XI (XI (XI (XI (XI
    XH)))))))))))) } :: [])), (Uchar :: []))) } :: ({ f_dir = Get; f_pad =
    false; f_x = XINT; f_i = Short; f_loop = LCall; f_body = (BTests
    (({ t_op = OGt; t_cmp = Int; t_chain = []; t_k = (KI (Zpos (XI (XI (XI
    (XI (XI (XI (XI (XI (XI (XI (XI (XI (XI (XI XH)))))))))))))))); t_act =
    (AFill (false, (Some (KI (Zneg (XI (XI (XI (XI (XI (XI (XI (XI (XI (XI
    (XI (XI (XI (XI XH))))))))))))))))))) } :: ({ t_op = OLt; t_cmp = Int;
    t_chain = []; t_k = (KI (Zneg (XO (XO (XO (XO (XO (XO (XO (XO (XO (XO (XO
    (XO (XO (XO (XO XH))))))))))))))))); t_act = (AFill (false, (Some (KI
    (Zneg (XI (XI (XI (XI (XI (XI (XI (XI (XI (XI (XI (XI (XI (XI
    XH))))))))))))))))))) } :: [])), (Short :: []))) } :: ({ f_dir = Get;
    f_pad = false; f_x = XINT; f_i = Ushort; f_loop = LCall; f_body = (BTests
    (({ t_op = OGt; t_cmp = Int; t_chain = []; t_k = (KI (Zpos (XI (XI (XI
    (XI (XI (XI (XI (XI (XI (XI (XI (XI (XI (XI (XI XH)))))))))))))))));
    t_act = (AFill (false, (Some (KI (Zpos (XI (XI (XI (XI (XI (XI (XI (XI
    (XI (XI (XI (XI (XI (XI (XI XH)))))))))))))))))))) } :: ({ t_op = OLt;
    t_cmp = Int; t_chain = []; t_k = (KI Z0); t_act = (AFill (false, (Some
    (KI (Zpos (XI (XI (XI (XI (XI (XI (XI (XI (XI (XI (XI (XI (XI (XI (XI
    XH)))))))))))))))))))) } :: [])), (Ushort :: []))) } :: ({ f_dir = Get;
    f_pad = false; f_x = XINT; f_i = Int; f_loop = LSwap; f_body =
    BIdent } :: ({ f_dir = Get; f_pad = false; f_x = XINT; f_i = Uint;
    f_loop = LCall; f_body = (BTests (({ t_op = OLt; t_cmp = Int; t_chain =
    []; t_k = (KI Z0); t_act = (AFill (false, (Some (KI (Zpos (XI (XI (XI (XI
    (XI (XI (XI (XI (XI (XI (XI (XI (XI (XI (XI (XI (XI (XI (XI (XI (XI (XI
    (XI (XI (XI (XI (XI (XI (XI (XI (XI
    XH)))))))))))))))))))))))))))))))))))) } :: []),
    (Uint :: []))) } :: ({ f_dir = Get; f_pad = false; f_x = XINT; f_i =
    Long; f_loop = LCall; f_body = (BTests ([],
    (Long :: []))) } :: ({ f_dir = Get; f_pad = false; f_x = XINT; f_i =
    Float; f_loop = LCall; f_body = (BTests ([],
    (Float :: []))) } :: ({ f_dir = Get; f_pad = false; f_x = XINT; f_i =
    Double; f_loop = LCall; f_body = (BTests ([],
    (Double :: []))) } :: ({ f_dir = Get; f_pad = false; f_x = XINT; f_i =
    Longlong; f_loop = LCall; f_body = (BTests ([],
    (Longlong :: []))) } :: ({ f_dir = Get; f_pad = false; f_x = XINT; f_i =
    Ulonglong; f_loop = LCall; f_body = (BTests (({ t_op = OLt; t_cmp = Int;
    t_chain = []; t_k = (KI Z0); t_act = (AFill (false, (Some (KI (Zpos (XO
    (XI (XI (XI (XI (XI (XI (XI (XI (XI (XI (XI (XI (XI (XI (XI (XI (XI (XI
    (XI (XI (XI (XI (XI (XI (XI (XI (XI (XI (XI (XI (XI (XI (XI (XI (XI (XI
    (XI (XI (XI (XI (XI (XI (XI (XI (XI (XI (XI (XI (XI (XI (XI (XI (XI (XI
    (XI (XI (XI (XI (XI (XI (XI (XI
    XH)))))))))))))))))))))))))))))))))))))))))))))))))))))))))))))))))))) } :: []),
    (Ulonglong :: []))) } :: ({ f_dir = Get; f_pad = false; f_x = XUINT;
    f_i = Schar; f_loop = LCall; f_body = (BTests (({ t_op = OGt; t_cmp =
    Uint; t_chain = []; t_k = (KI (Zpos (XI (XI (XI (XI (XI (XI XH))))))));
    t_act = (AFill (false, (Some (KI (Zneg (XI (XI (XI (XI (XI (XI
    XH))))))))))) } :: []), (Schar :: []))) } :: ({ f_dir = Get; f_pad =
    false; f_x = XUINT; f_i = Uchar; f_loop = LCall; f_body = (BTests
    (({ t_op = OGt; t_cmp = Uint; t_chain = []; t_k = (KI (Zpos (XI (XI (XI
    (XI (XI (XI (XI XH))))))))); t_act = (AFill (false, (Some (KI (Zpos (XI
    (XI (XI (XI (XI (XI (XI XH)))))))))))) } :: []),
    (Uchar :: []))) } :: ({ f_dir = Get; f_pad = false; f_x = XUINT; f_i =
    Short; f_loop = LCall; f_body = (BTests (({ t_op = OGt; t_cmp = Uint;
    t_chain = []; t_k = (KI (Zpos (XI (XI (XI (XI (XI (XI (XI (XI (XI (XI (XI
    (XI (XI (XI XH)))))))))))))))); t_act = (AFill (false, (Some (KI (Zneg
    (XI (XI (XI (XI (XI (XI (XI (XI (XI (XI (XI (XI (XI (XI
    XH))))))))))))))))))) } :: []), (Short :: []))) } :: ({ f_dir = Get;
    f_pad = false; f_x = XUINT; f_i = Ushort; f_loop = LCall; f_body =
    (BTests (({ t_op = OGt; t_cmp = Uint; t_chain = []; t_k = (KI (Zpos (XI
    (XI (XI (XI (XI (XI (XI (XI (XI (XI (XI (XI (XI (XI (XI
    XH))))))))))))))))); t_act = (AFill (false, (Some (KI (Zpos (XI (XI (XI
    (XI (XI (XI (XI (XI (XI (XI (XI (XI (XI (XI (XI
    XH)))))))))))))))))))) } :: []), (Ushort :: []))) } :: ({ f_dir = Get;
    f_pad = false; f_x = XUINT; f_i = Int; f_loop = LCall; f_body = (BTests
    (({ t_op = OGt; t_cmp = Uint; t_chain = []; t_k = (KI (Zpos (XI (XI (XI
    (XI (XI (XI (XI (XI (XI (XI (XI (XI (XI (XI (XI (XI (XI (XI (XI (XI (XI
    (XI (XI (XI (XI (XI (XI (XI (XI (XI XH))))))))))))))))))))))))))))))));
    t_act = (AFill (false, (Some (KI (Zneg (XI (XI (XI (XI (XI (XI (XI (XI
    (XI (XI (XI (XI (XI (XI (XI (XI (XI (XI (XI (XI (XI (XI (XI (XI (XI (XI
    (XI (XI (XI (XI XH))))))))))))))))))))))))))))))))))) } :: []),
    (Int :: []))) } :: ({ f_dir = Get; f_pad = false; f_x = XUINT; f_i =
    Uint; f_loop = LSwap; f_body = BIdent } :: ({ f_dir = Get; f_pad = false;
    f_x = XUINT; f_i = Long; f_loop = LCall; f_body = (BTests ([],
    (Long :: []))) } :: ({ f_dir = Get; f_pad = false; f_x = XUINT; f_i =
    Float; f_loop = LCall; f_body = (BTests ([],
    (Float :: []))) } :: ({ f_dir = Get; f_pad = false; f_x = XUINT; f_i =
    Double; f_loop = LCall; f_body = (BTests ([],
    (Double :: []))) } :: ({ f_dir = Get; f_pad = false; f_x = XUINT; f_i =
    Longlong; f_loop = LCall; f_body = (BTests ([],
    (Longlong :: []))) } :: ({ f_dir = Get; f_pad = false; f_x = XUINT; f_i =
    Ulonglong; f_loop = LCall; f_body = (BTests ([],
    (Ulonglong :: []))) } :: ({ f_dir = Get; f_pad = false; f_x = XFLOAT;
    f_i = Schar; f_loop = LCall; f_body = (BTests (({ t_op = OGt; t_cmp =
    Double; t_chain = (Double :: []); t_k = (KF (false, (Zpos (XO (XO (XO (XO
    (XO (XO (XO (XO (XO (XO (XO (XO (XO (XO (XO (XO (XO (XO (XO (XO (XO (XO
    (XO (XO (XO (XO (XO (XO (XO (XO (XO (XO (XO (XO (XO (XO (XO (XO (XO (XO
    (XO (XO (XO (XO (XO (XO (XI (XI (XI (XI (XI (XI
    XH))))))))))))))))))))))))))))))))))))))))))))))))))))), (Zneg (XO (XI
    (XI (XI (XO XH)))))))); t_act = (AFill (false, (Some (KI (Zneg (XI (XI
    (XI (XI (XI (XI XH))))))))))) } :: ({ t_op = OLt; t_cmp = Double;
    t_chain = (Double :: []); t_k = (KF (true, (Zpos (XO (XO (XO (XO (XO (XO
    (XO (XO (XO (XO (XO (XO (XO (XO (XO (XO (XO (XO (XO (XO (XO (XO (XO (XO
    (XO (XO (XO (XO (XO (XO (XO (XO (XO (XO (XO (XO (XO (XO (XO (XO (XO (XO
    (XO (XO (XO (XO (XO (XO (XO (XO (XO (XO
    XH))))))))))))))))))))))))))))))))))))))))))))))))))))), (Zneg (XI (XO
    (XI (XI (XO XH)))))))); t_act = (AFill (false, (Some (KI (Zneg (XI (XI
    (XI (XI (XI (XI XH))))))))))) } :: [])), (Schar :: []))) } :: ({ f_dir =
    Get; f_pad = false; f_x = XFLOAT; f_i = Uchar; f_loop = LCall; f_body =
    (BTests (({ t_op = OGt; t_cmp = Double; t_chain = (Double :: []); t_k =
    (KF (false, (Zpos (XO (XO (XO (XO (XO (XO (XO (XO (XO (XO (XO (XO (XO (XO
    (XO (XO (XO (XO (XO (XO (XO (XO (XO (XO (XO (XO (XO (XO (XO (XO (XO (XO
    (XO (XO (XO (XO (XO (XO (XO (XO (XO (XO (XO (XO (XO (XI (XI (XI (XI (XI
    (XI (XI XH))))))))))))))))))))))))))))))))))))))))))))))))))))), (Zneg
    (XI (XO (XI (XI (XO XH)))))))); t_act = (AFill (false, (Some (KI (Zpos
    (XI (XI (XI (XI (XI (XI (XI XH)))))))))))) } :: ({ t_op = OLt; t_cmp =
    Float; t_chain = []; t_k = (KF (false, Z0, (Zneg (XI (XO (XI (XO (XI (XO
    (XO XH)))))))))); t_act = (AFill (false, (Some (KI (Zpos (XI (XI (XI (XI
    (XI (XI (XI XH)))))))))))) } :: [])), (Uchar :: []))) } :: ({ f_dir =
    Get; f_pad = false; f_x = XFLOAT; f_i = Short; f_loop = LCall; f_body =
    (BTests (({ t_op = OGt; t_cmp = Double; t_chain = (Double :: []); t_k =
    (KF (false, (Zpos (XO (XO (XO (XO (XO (XO (XO (XO (XO (XO (XO (XO (XO (XO
    (XO (XO (XO (XO (XO (XO (XO (XO (XO (XO (XO (XO (XO (XO (XO (XO (XO (XO
    (XO (XO (XO (XO (XO (XO (XI (XI (XI (XI (XI (XI (XI (XI (XI (XI (XI (XI
    (XI (XI XH))))))))))))))))))))))))))))))))))))))))))))))))))))), (Zneg
    (XO (XI (XI (XO (XO XH)))))))); t_act = (AFill (false, (Some (KI (Zneg
    (XI (XI (XI (XI (XI (XI (XI (XI (XI (XI (XI (XI (XI (XI
    XH))))))))))))))))))) } :: ({ t_op = OLt; t_cmp = Double; t_chain =
    (Double :: []); t_k = (KF (true, (Zpos (XO (XO (XO (XO (XO (XO (XO (XO
    (XO (XO (XO (XO (XO (XO (XO (XO (XO (XO (XO (XO (XO (XO (XO (XO (XO (XO
    (XO (XO (XO (XO (XO (XO (XO (XO (XO (XO (XO (XO (XO (XO (XO (XO (XO (XO
    (XO (XO (XO (XO (XO (XO (XO (XO
    XH))))))))))))))))))))))))))))))))))))))))))))))))))))), (Zneg (XI (XO
    (XI (XO (XO XH)))))))); t_act = (AFill (false, (Some (KI (Zneg (XI (XI
    (XI (XI (XI (XI (XI (XI (XI (XI (XI (XI (XI (XI
    XH))))))))))))))))))) } :: [])), (Short :: []))) } :: ({ f_dir = Get;
    f_pad = false; f_x = XFLOAT; f_i = Ushort; f_loop = LCall; f_body =
    (BTests (({ t_op = OGt; t_cmp = Double; t_chain = (Double :: []); t_k =
    (KF (false, (Zpos (XO (XO (XO (XO (XO (XO (XO (XO (XO (XO (XO (XO (XO (XO
    (XO (XO (XO (XO (XO (XO (XO (XO (XO (XO (XO (XO (XO (XO (XO (XO (XO (XO
    (XO (XO (XO (XO (XO (XI (XI (XI (XI (XI (XI (XI (XI (XI (XI (XI (XI (XI
    (XI (XI XH))))))))))))))))))))))))))))))))))))))))))))))))))))), (Zneg
    (XI (XO (XI (XO (XO XH)))))))); t_act = (AFill (false, (Some (KI (Zpos
    (XI (XI (XI (XI (XI (XI (XI (XI (XI (XI (XI (XI (XI (XI (XI
    XH)))))))))))))))))))) } :: ({ t_op = OLt; t_cmp = Float; t_chain = [];
    t_k = (KF (false, Z0, (Zneg (XI (XO (XI (XO (XI (XO (XO XH))))))))));
    t_act = (AFill (false, (Some (KI (Zpos (XI (XI (XI (XI (XI (XI (XI (XI
    (XI (XI (XI (XI (XI (XI (XI XH)))))))))))))))))))) } :: [])),
    (Ushort :: []))) } :: ({ f_dir = Get; f_pad = false; f_x = XFLOAT; f_i =
    Int; f_loop = LCall; f_body = (BTests (({ t_op = OGt; t_cmp = Double;
    t_chain = (Double :: []); t_k = (KF (false, (Zpos (XO (XO (XO (XO (XO (XO
    (XO (XO (XO (XO (XO (XO (XO (XO (XO (XO (XO (XO (XO (XO (XO (XO (XI (XI
    (XI (XI (XI (XI (XI (XI (XI (XI (XI (XI (XI (XI (XI (XI (XI (XI (XI (XI
    (XI (XI (XI (XI (XI (XI (XI (XI (XI (XI
    XH))))))))))))))))))))))))))))))))))))))))))))))))))))), (Zneg (XO (XI
    (XI (XO XH))))))); t_act = (AFill (false, (Some (KI (Zneg (XI (XI (XI (XI
    (XI (XI (XI (XI (XI (XI (XI (XI (XI (XI (XI (XI (XI (XI (XI (XI (XI (XI
    (XI (XI (XI (XI (XI (XI (XI (XI
    XH))))))))))))))))))))))))))))))))))) } :: ({ t_op = OLt; t_cmp = Double;
    t_chain = (Double :: []); t_k = (KF (true, (Zpos (XO (XO (XO (XO (XO (XO
    (XO (XO (XO (XO (XO (XO (XO (XO (XO (XO (XO (XO (XO (XO (XO (XO (XO (XO
    (XO (XO (XO (XO (XO (XO (XO (XO (XO (XO (XO (XO (XO (XO (XO (XO (XO (XO
    (XO (XO (XO (XO (XO (XO (XO (XO (XO (XO
    XH))))))))))))))))))))))))))))))))))))))))))))))))))))), (Zneg (XI (XO
    (XI (XO XH))))))); t_act = (AFill (false, (Some (KI (Zneg (XI (XI (XI (XI
    (XI (XI (XI (XI (XI (XI (XI (XI (XI (XI (XI (XI (XI (XI (XI (XI (XI (XI
    (XI (XI (XI (XI (XI (XI (XI (XI
    XH))))))))))))))))))))))))))))))))))) } :: [])),
    (Int :: []))) } :: ({ f_dir = Get; f_pad = false; f_x = XFLOAT; f_i =
    Uint; f_loop = LCall; f_body = (BTests (({ t_op = OGt; t_cmp = Double;
    t_chain = (Double :: []); t_k = (KF (false, (Zpos (XO (XO (XO (XO (XO (XO
    (XO (XO (XO (XO (XO (XO (XO (XO (XO (XO (XO (XO (XO (XO (XO (XI (XI (XI
    (XI (XI (XI (XI (XI (XI (XI (XI (XI (XI (XI (XI (XI (XI (XI (XI (XI (XI
    (XI (XI (XI (XI (XI (XI (XI (XI (XI (XI
    XH))))))))))))))))))))))))))))))))))))))))))))))))))))), (Zneg (XI (XO
    (XI (XO XH))))))); t_act = (AFill (false, (Some (KI (Zpos (XI (XI (XI (XI
    (XI (XI (XI (XI (XI (XI (XI (XI (XI (XI (XI (XI (XI (XI (XI (XI (XI (XI
    (XI (XI (XI (XI (XI (XI (XI (XI (XI
    XH)))))))))))))))))))))))))))))))))))) } :: ({ t_op = OLt; t_cmp = Float;
    t_chain = []; t_k = (KF (false, Z0, (Zneg (XI (XO (XI (XO (XI (XO (XO
    XH)))))))))); t_act = (AFill (false, (Some (KI (Zpos (XI (XI (XI (XI (XI
    (XI (XI (XI (XI (XI (XI (XI (XI (XI (XI (XI (XI (XI (XI (XI (XI (XI (XI
    (XI (XI (XI (XI (XI (XI (XI (XI
    XH)))))))))))))))))))))))))))))))))))) } :: [])),
    (Uint :: []))) } :: ({ f_dir = Get; f_pad = false; f_x = XFLOAT; f_i =
    Long; f_loop = LCall; f_body = (BTests (({ t_op = OGt; t_cmp = Double;
    t_chain = (Double :: []); t_k = (KF (false, (Zpos (XO (XO (XO (XO (XO (XO
    (XO (XO (XO (XO (XO (XO (XO (XO (XO (XO (XO (XO (XO (XO (XO (XO (XO (XO
    (XO (XO (XO (XO (XO (XO (XO (XO (XO (XO (XO (XO (XO (XO (XO (XO (XO (XO
    (XO (XO (XO (XO (XO (XO (XO (XO (XO (XO
    XH))))))))))))))))))))))))))))))))))))))))))))))))))))), (Zpos (XI (XI
    (XO XH)))))); t_act = (AFill (false, (Some (KI (Zneg (XI (XI (XI (XI (XI
    (XI (XI (XI (XI (XI (XI (XI (XI (XI (XI (XI (XI (XI (XI (XI (XI (XI (XI
    (XI (XI (XI (XI (XI (XI (XI
    XH))))))))))))))))))))))))))))))))))) } :: ({ t_op = OLt; t_cmp = Double;
    t_chain = (Double :: []); t_k = (KF (true, (Zpos (XO (XO (XO (XO (XO (XO
    (XO (XO (XO (XO (XO (XO (XO (XO (XO (XO (XO (XO (XO (XO (XO (XO (XO (XO
    (XO (XO (XO (XO (XO (XO (XO (XO (XO (XO (XO (XO (XO (XO (XO (XO (XO (XO
    (XO (XO (XO (XO (XO (XO (XO (XO (XO (XO
    XH))))))))))))))))))))))))))))))))))))))))))))))))))))), (Zpos (XI (XI
    (XO XH)))))); t_act = (AFill (false, (Some (KI (Zneg (XI (XI (XI (XI (XI
    (XI (XI (XI (XI (XI (XI (XI (XI (XI (XI (XI (XI (XI (XI (XI (XI (XI (XI
    (XI (XI (XI (XI (XI (XI (XI
    XH))))))))))))))))))))))))))))))))))) } :: ({ t_op = OEq; t_cmp = Double;
    t_chain = (Double :: []); t_k = (KF (false, (Zpos (XO (XO (XO (XO (XO (XO
    (XO (XO (XO (XO (XO (XO (XO (XO (XO (XO (XO (XO (XO (XO (XO (XO (XO (XO
    (XO (XO (XO (XO (XO (XO (XO (XO (XO (XO (XO (XO (XO (XO (XO (XO (XO (XO
    (XO (XO (XO (XO (XO (XO (XO (XO (XO (XO
    XH))))))))))))))))))))))))))))))))))))))))))))))))))))), (Zpos (XI (XI
    (XO XH)))))); t_act = (AStore (KI (Zpos (XI (XI (XI (XI (XI (XI (XI (XI
    (XI (XI (XI (XI (XI (XI (XI (XI (XI (XI (XI (XI (XI (XI (XI (XI (XI (XI
    (XI (XI (XI (XI (XI (XI (XI (XI (XI (XI (XI (XI (XI (XI (XI (XI (XI (XI
    (XI (XI (XI (XI (XI (XI (XI (XI (XI (XI (XI (XI (XI (XI (XI (XI (XI (XI
    XH))))))))))))))))))))))))))))))))))))))))))))))))))))))))))))))))) } :: []))),
    (Long :: []))) } :: ({ f_dir = Get; f_pad = false; f_x = XFLOAT; f_i =
    Float; f_loop = LSwap; f_body = BIdent } :: ({ f_dir = Get; f_pad =
    false; f_x = XFLOAT; f_i = Double; f_loop = LCall; f_body = (BTests ([],
    (Double :: []))) } :: ({ f_dir = Get; f_pad = false; f_x = XFLOAT; f_i =
    Longlong; f_loop = LCall; f_body = (BTests (({ t_op = OEq; t_cmp = Float;
    t_chain = []; t_k = (KF (false, (Zpos (XO (XO (XO (XO (XO (XO (XO (XO (XO
    (XO (XO (XO (XO (XO (XO (XO (XO (XO (XO (XO (XO (XO (XO
    XH)))))))))))))))))))))))), (Zpos (XO (XO (XO (XI (XO XH)))))))); t_act =
    (AStore (KI (Zpos (XI (XI (XI (XI (XI (XI (XI (XI (XI (XI (XI (XI (XI (XI
    (XI (XI (XI (XI (XI (XI (XI (XI (XI (XI (XI (XI (XI (XI (XI (XI (XI (XI
    (XI (XI (XI (XI (XI (XI (XI (XI (XI (XI (XI (XI (XI (XI (XI (XI (XI (XI
    (XI (XI (XI (XI (XI (XI (XI (XI (XI (XI (XI (XI
    XH))))))))))))))))))))))))))))))))))))))))))))))))))))))))))))))))) } :: ({ t_op =
    OEq; t_cmp = Float; t_chain = []; t_k = (KF (true, (Zpos (XO (XO (XO (XO
    (XO (XO (XO (XO (XO (XO (XO (XO (XO (XO (XO (XO (XO (XO (XO (XO (XO (XO
    (XO XH)))))))))))))))))))))))), (Zpos (XO (XO (XO (XI (XO XH))))))));
    t_act = (AStore (KI (Zneg (XO (XO (XO (XO (XO (XO (XO (XO (XO (XO (XO (XO
    (XO (XO (XO (XO (XO (XO (XO (XO (XO (XO (XO (XO (XO (XO (XO (XO (XO (XO
    (XO (XO (XO (XO (XO (XO (XO (XO (XO (XO (XO (XO (XO (XO (XO (XO (XO (XO
    (XO (XO (XO (XO (XO (XO (XO (XO (XO (XO (XO (XO (XO (XO (XO
    XH)))))))))))))))))))))))))))))))))))))))))))))))))))))))))))))))))) } :: ({ t_op =
    OGt; t_cmp = Double; t_chain = (Double :: []); t_k = (KF (false, (Zpos
    (XO (XO (XO (XO (XO (XO (XO (XO (XO (XO (XO (XO (XO (XO (XO (XO (XO (XO
    (XO (XO (XO (XO (XO (XO (XO (XO (XO (XO (XO (XO (XO (XO (XO (XO (XO (XO
    (XO (XO (XO (XO (XO (XO (XO (XO (XO (XO (XO (XO (XO (XO (XO (XO
    XH))))))))))))))))))))))))))))))))))))))))))))))))))))), (Zpos (XI (XI
    (XO XH)))))); t_act = (AFill (false, (Some (KI (Zneg (XO (XI (XI (XI (XI
    (XI (XI (XI (XI (XI (XI (XI (XI (XI (XI (XI (XI (XI (XI (XI (XI (XI (XI
    (XI (XI (XI (XI (XI (XI (XI (XI (XI (XI (XI (XI (XI (XI (XI (XI (XI (XI
    (XI (XI (XI (XI (XI (XI (XI (XI (XI (XI (XI (XI (XI (XI (XI (XI (XI (XI
    (XI (XI (XI
    XH))))))))))))))))))))))))))))))))))))))))))))))))))))))))))))))))))) } :: ({ t_op =
    OLt; t_cmp = Double; t_chain = (Double :: []); t_k = (KF (true, (Zpos (XO
    (XO (XO (XO (XO (XO (XO (XO (XO (XO (XO (XO (XO (XO (XO (XO (XO (XO (XO
    (XO (XO (XO (XO (XO (XO (XO (XO (XO (XO (XO (XO (XO (XO (XO (XO (XO (XO
    (XO (XO (XO (XO (XO (XO (XO (XO (XO (XO (XO (XO (XO (XO (XO
    XH))))))))))))))))))))))))))))))))))))))))))))))))))))), (Zpos (XI (XI
    (XO XH)))))); t_act = (AFill (false, (Some (KI (Zneg (XO (XI (XI (XI (XI
    (XI (XI (XI (XI (XI (XI (XI (XI (XI (XI (XI (XI (XI (XI (XI (XI (XI (XI
    (XI (XI (XI (XI (XI (XI (XI (XI (XI (XI (XI (XI (XI (XI (XI (XI (XI (XI
    (XI (XI (XI (XI (XI (XI (XI (XI (XI (XI (XI (XI (XI (XI (XI (XI (XI (XI
    (XI (XI (XI
    XH))))))))))))))))))))))))))))))))))))))))))))))))))))))))))))))))))) } :: [])))),
    (Longlong :: []))) } :: ({ f_dir = Get; f_pad = false; f_x = XFLOAT;
    f_i = Ulonglong; f_loop = LCall; f_body = (BTests (({ t_op = OEq; t_cmp =
    Float; t_chain = []; t_k = (KF (false, (Zpos (XO (XO (XO (XO (XO (XO (XO
    (XO (XO (XO (XO (XO (XO (XO (XO (XO (XO (XO (XO (XO (XO (XO (XO
    XH)))))))))))))))))))))))), (Zpos (XI (XO (XO (XI (XO XH)))))))); t_act =
    (AStore (KI (Zpos (XI (XI (XI (XI (XI (XI (XI (XI (XI (XI (XI (XI (XI (XI
    (XI (XI (XI (XI (XI (XI (XI (XI (XI (XI (XI (XI (XI (XI (XI (XI (XI (XI
    (XI (XI (XI (XI (XI (XI (XI (XI (XI (XI (XI (XI (XI (XI (XI (XI (XI (XI
    (XI (XI (XI (XI (XI (XI (XI (XI (XI (XI (XI (XI (XI
    XH)))))))))))))))))))))))))))))))))))))))))))))))))))))))))))))))))) } :: ({ t_op =
    OGt; t_cmp = Double; t_chain = (Double :: []); t_k = (KF (false, (Zpos
    (XO (XO (XO (XO (XO (XO (XO (XO (XO (XO (XO (XO (XO (XO (XO (XO (XO (XO
    (XO (XO (XO (XO (XO (XO (XO (XO (XO (XO (XO (XO (XO (XO (XO (XO (XO (XO
    (XO (XO (XO (XO (XO (XO (XO (XO (XO (XO (XO (XO (XO (XO (XO (XO
    XH))))))))))))))))))))))))))))))))))))))))))))))))))))), (Zpos (XO (XO
    (XI XH)))))); t_act = (AFill (false, (Some (KI (Zpos (XO (XI (XI (XI (XI
    (XI (XI (XI (XI (XI (XI (XI (XI (XI (XI (XI (XI (XI (XI (XI (XI (XI (XI
    (XI (XI (XI (XI (XI (XI (XI (XI (XI (XI (XI (XI (XI (XI (XI (XI (XI (XI
    (XI (XI (XI (XI (XI (XI (XI (XI (XI (XI (XI (XI (XI (XI (XI (XI (XI (XI
    (XI (XI (XI (XI
    XH)))))))))))))))))))))))))))))))))))))))))))))))))))))))))))))))))))) } :: ({ t_op =
    OLt; t_cmp = Float; t_chain = []; t_k = (KF (false, Z0, (Zneg (XI (XO (XI
    (XO (XI (XO (XO XH)))))))))); t_act = (AFill (false, (Some (KI (Zpos (XO
    (XI (XI (XI (XI (XI (XI (XI (XI (XI (XI (XI (XI (XI (XI (XI (XI (XI (XI
    (XI (XI (XI (XI (XI (XI (XI (XI (XI (XI (XI (XI (XI (XI (XI (XI (XI (XI
    (XI (XI (XI (XI (XI (XI (XI (XI (XI (XI (XI (XI (XI (XI (XI (XI (XI (XI
    (XI (XI (XI (XI (XI (XI (XI (XI
    XH)))))))))))))))))))))))))))))))))))))))))))))))))))))))))))))))))))) } :: []))),
    (Ulonglong :: []))) } :: ({ f_dir = Get; f_pad = false; f_x = XDOUBLE;
    f_i = Schar; f_loop = LCall; f_body = (BTests (({ t_op = OGt; t_cmp =
    Double; t_chain = []; t_k = (KF (false, (Zpos (XO (XO (XO (XO (XO (XO (XO
    (XO (XO (XO (XO (XO (XO (XO (XO (XO (XO (XO (XO (XO (XO (XO (XO (XO (XO
    (XO (XO (XO (XO (XO (XO (XO (XO (XO (XO (XO (XO (XO (XO (XO (XO (XO (XO
    (XO (XO (XO (XI (XI (XI (XI (XI (XI
    XH))))))))))))))))))))))))))))))))))))))))))))))))))))), (Zneg (XO (XI
    (XI (XI (XO XH)))))))); t_act = (AFill (false, (Some (KI (Zneg (XI (XI
    (XI (XI (XI (XI XH))))))))))) } :: ({ t_op = OLt; t_cmp = Double;
    t_chain = []; t_k = (KF (true, (Zpos (XO (XO (XO (XO (XO (XO (XO (XO (XO
    (XO (XO (XO (XO (XO (XO (XO (XO (XO (XO (XO (XO (XO (XO (XO (XO (XO (XO
    (XO (XO (XO (XO (XO (XO (XO (XO (XO (XO (XO (XO (XO (XO (XO (XO (XO (XO
    (XO (XO (XO (XO (XO (XO (XO
    XH))))))))))))))))))))))))))))))))))))))))))))))))))))), (Zneg (XI (XO
    (XI (XI (XO XH)))))))); t_act = (AFill (false, (Some (KI (Zneg (XI (XI
    (XI (XI (XI (XI XH))))))))))) } :: [])), (Schar :: []))) } :: ({ f_dir =
    Get; f_pad = false; f_x = XDOUBLE; f_i = Uchar; f_loop = LCall; f_body =
    (BTests (({ t_op = OGt; t_cmp = Double; t_chain = []; t_k = (KF (false,
    (Zpos (XO (XO (XO (XO (XO (XO (XO (XO (XO (XO (XO (XO (XO (XO (XO (XO (XO
    (XO (XO (XO (XO (XO (XO (XO (XO (XO (XO (XO (XO (XO (XO (XO (XO (XO (XO
    (XO (XO (XO (XO (XO (XO (XO (XO (XO (XO (XI (XI (XI (XI (XI (XI (XI
    XH))))))))))))))))))))))))))))))))))))))))))))))))))))), (Zneg (XI (XO
    (XI (XI (XO XH)))))))); t_act = (AFill (false, (Some (KI (Zpos (XI (XI
    (XI (XI (XI (XI (XI XH)))))))))))) } :: ({ t_op = OLt; t_cmp = Double;
    t_chain = []; t_k = (KF (false, Z0, (Zneg (XO (XI (XO (XO (XI (XI (XO (XO
    (XO (XO XH))))))))))))); t_act = (AFill (false, (Some (KI (Zpos (XI (XI
    (XI (XI (XI (XI (XI XH)))))))))))) } :: [])),
    (Uchar :: []))) } :: ({ f_dir = Get; f_pad = false; f_x = XDOUBLE; f_i =
    Short; f_loop = LCall; f_body = (BTests (({ t_op = OGt; t_cmp = Double;
    t_chain = []; t_k = (KF (false, (Zpos (XO (XO (XO (XO (XO (XO (XO (XO (XO
    (XO (XO (XO (XO (XO (XO (XO (XO (XO (XO (XO (XO (XO (XO (XO (XO (XO (XO
    (XO (XO (XO (XO (XO (XO (XO (XO (XO (XO (XO (XI (XI (XI (XI (XI (XI (XI
    (XI (XI (XI (XI (XI (XI (XI
    XH))))))))))))))))))))))))))))))))))))))))))))))))))))), (Zneg (XO (XI
    (XI (XO (XO XH)))))))); t_act = (AFill (false, (Some (KI (Zneg (XI (XI
    (XI (XI (XI (XI (XI (XI (XI (XI (XI (XI (XI (XI
    XH))))))))))))))))))) } :: ({ t_op = OLt; t_cmp = Double; t_chain = [];
    t_k = (KF (true, (Zpos (XO (XO (XO (XO (XO (XO (XO (XO (XO (XO (XO (XO
    (XO (XO (XO (XO (XO (XO (XO (XO (XO (XO (XO (XO (XO (XO (XO (XO (XO (XO
    (XO (XO (XO (XO (XO (XO (XO (XO (XO (XO (XO (XO (XO (XO (XO (XO (XO (XO
    (XO (XO (XO (XO XH))))))))))))))))))))))))))))))))))))))))))))))))))))),
    (Zneg (XI (XO (XI (XO (XO XH)))))))); t_act = (AFill (false, (Some (KI
    (Zneg (XI (XI (XI (XI (XI (XI (XI (XI (XI (XI (XI (XI (XI (XI
    XH))))))))))))))))))) } :: [])), (Short :: []))) } :: ({ f_dir = Get;
    f_pad = false; f_x = XDOUBLE; f_i = Ushort; f_loop = LCall; f_body =
    (BTests (({ t_op = OGt; t_cmp = Double; t_chain = []; t_k = (KF (false,
    (Zpos (XO (XO (XO (XO (XO (XO (XO (XO (XO (XO (XO (XO (XO (XO (XO (XO (XO
    (XO (XO (XO (XO (XO (XO (XO (XO (XO (XO (XO (XO (XO (XO (XO (XO (XO (XO
    (XO (XO (XI (XI (XI (XI (XI (XI (XI (XI (XI (XI (XI (XI (XI (XI (XI
    XH))))))))))))))))))))))))))))))))))))))))))))))))))))), (Zneg (XI (XO
    (XI (XO (XO XH)))))))); t_act = (AFill (false, (Some (KI (Zpos (XI (XI
    (XI (XI (XI (XI (XI (XI (XI (XI (XI (XI (XI (XI (XI
    XH)))))))))))))))))))) } :: ({ t_op = OLt; t_cmp = Double; t_chain = [];
    t_k = (KF (false, Z0, (Zneg (XO (XI (XO (XO (XI (XI (XO (XO (XO (XO
    XH))))))))))))); t_act = (AFill (false, (Some (KI (Zpos (XI (XI (XI (XI
    (XI (XI (XI (XI (XI (XI (XI (XI (XI (XI (XI
    XH)))))))))))))))))))) } :: [])), (Ushort :: []))) } :: ({ f_dir = Get;
    f_pad = false; f_x = XDOUBLE; f_i = Int; f_loop = LCall; f_body = (BTests
    (({ t_op = OGt; t_cmp = Double; t_chain = []; t_k = (KF (false, (Zpos (XO
    (XO (XO (XO (XO (XO (XO (XO (XO (XO (XO (XO (XO (XO (XO (XO (XO (XO (XO
    (XO (XO (XO (XI (XI (XI (XI (XI (XI (XI (XI (XI (XI (XI (XI (XI (XI (XI
    (XI (XI (XI (XI (XI (XI (XI (XI (XI (XI (XI (XI (XI (XI (XI
    XH))))))))))))))))))))))))))))))))))))))))))))))))))))), (Zneg (XO (XI
    (XI (XO XH))))))); t_act = (AFill (false, (Some (KI (Zneg (XI (XI (XI (XI
    (XI (XI (XI (XI (XI (XI (XI (XI (XI (XI (XI (XI (XI (XI (XI (XI (XI (XI
    (XI (XI (XI (XI (XI (XI (XI (XI
    XH))))))))))))))))))))))))))))))))))) } :: ({ t_op = OLt; t_cmp = Double;
    t_chain = []; t_k = (KF (true, (Zpos (XO (XO (XO (XO (XO (XO (XO (XO (XO
    (XO (XO (XO (XO (XO (XO (XO (XO (XO (XO (XO (XO (XO (XO (XO (XO (XO (XO
    (XO (XO (XO (XO (XO (XO (XO (XO (XO (XO (XO (XO (XO (XO (XO (XO (XO (XO
    (XO (XO (XO (XO (XO (XO (XO
    XH))))))))))))))))))))))))))))))))))))))))))))))))))))), (Zneg (XI (XO
    (XI (XO XH))))))); t_act = (AFill (false, (Some (KI (Zneg (XI (XI (XI (XI
    (XI (XI (XI (XI (XI (XI (XI (XI (XI (XI (XI (XI (XI (XI (XI (XI (XI (XI
    (XI (XI (XI (XI (XI (XI (XI (XI
    XH))))))))))))))))))))))))))))))))))) } :: [])),
    (Int :: []))) } :: ({ f_dir = Get; f_pad = false; f_x = XDOUBLE; f_i =
    Uint; f_loop = LCall; f_body = (BTests (({ t_op = OGt; t_cmp = Double;
    t_chain = []; t_k = (KF (false, (Zpos (XO (XO (XO (XO (XO (XO (XO (XO (XO
    (XO (XO (XO (XO (XO (XO (XO (XO (XO (XO (XO (XO (XI (XI (XI (XI (XI (XI
    (XI (XI (XI (XI (XI (XI (XI (XI (XI (XI (XI (XI (XI (XI (XI (XI (XI (XI
    (XI (XI (XI (XI (XI (XI (XI
    XH))))))))))))))))))))))))))))))))))))))))))))))))))))), (Zneg (XI (XO
    (XI (XO XH))))))); t_act = (AFill (false, (Some (KI (Zpos (XI (XI (XI (XI
    (XI (XI (XI (XI (XI (XI (XI (XI (XI (XI (XI (XI (XI (XI (XI (XI (XI (XI
    (XI (XI (XI (XI (XI (XI (XI (XI (XI
    XH)))))))))))))))))))))))))))))))))))) } :: ({ t_op = OLt; t_cmp =
    Double; t_chain = []; t_k = (KF (false, Z0, (Zneg (XO (XI (XO (XO (XI (XI
    (XO (XO (XO (XO XH))))))))))))); t_act = (AFill (false, (Some (KI (Zpos
    (XI (XI (XI (XI (XI (XI (XI (XI (XI (XI (XI (XI (XI (XI (XI (XI (XI (XI
    (XI (XI (XI (XI (XI (XI (XI (XI (XI (XI (XI (XI (XI
    XH)))))))))))))))))))))))))))))))))))) } :: [])),
    (Uint :: []))) } :: ({ f_dir = Get; f_pad = false; f_x = XDOUBLE; f_i =
    Long; f_loop = LCall; f_body = (BTests (({ t_op = OGt; t_cmp = Double;
    t_chain = []; t_k = (KF (false, (Zpos (XO (XO (XO (XO (XO (XO (XO (XO (XO
    (XO (XO (XO (XO (XO (XO (XO (XO (XO (XO (XO (XO (XO (XO (XO (XO (XO (XO
    (XO (XO (XO (XO (XO (XO (XO (XO (XO (XO (XO (XO (XO (XO (XO (XO (XO (XO
    (XO (XO (XO (XO (XO (XO (XO
    XH))))))))))))))))))))))))))))))))))))))))))))))))))))), (Zpos (XI (XI
    (XO XH)))))); t_act = (AFill (false, (Some (KI (Zneg (XI (XI (XI (XI (XI
    (XI (XI (XI (XI (XI (XI (XI (XI (XI (XI (XI (XI (XI (XI (XI (XI (XI (XI
    (XI (XI (XI (XI (XI (XI (XI
    XH))))))))))))))))))))))))))))))))))) } :: ({ t_op = OLt; t_cmp = Double;
    t_chain = []; t_k = (KF (true, (Zpos (XO (XO (XO (XO (XO (XO (XO (XO (XO
    (XO (XO (XO (XO (XO (XO (XO (XO (XO (XO (XO (XO (XO (XO (XO (XO (XO (XO
    (XO (XO (XO (XO (XO (XO (XO (XO (XO (XO (XO (XO (XO (XO (XO (XO (XO (XO
    (XO (XO (XO (XO (XO (XO (XO
    XH))))))))))))))))))))))))))))))))))))))))))))))))))))), (Zpos (XI (XI
    (XO XH)))))); t_act = (AFill (false, (Some (KI (Zneg (XI (XI (XI (XI (XI
    (XI (XI (XI (XI (XI (XI (XI (XI (XI (XI (XI (XI (XI (XI (XI (XI (XI (XI
    (XI (XI (XI (XI (XI (XI (XI
    XH))))))))))))))))))))))))))))))))))) } :: ({ t_op = OEq; t_cmp = Double;
    t_chain = []; t_k = (KF (false, (Zpos (XO (XO (XO (XO (XO (XO (XO (XO (XO
    (XO (XO (XO (XO (XO (XO (XO (XO (XO (XO (XO (XO (XO (XO (XO (XO (XO (XO
    (XO (XO (XO (XO (XO (XO (XO (XO (XO (XO (XO (XO (XO (XO (XO (XO (XO (XO
    (XO (XO (XO (XO (XO (XO (XO
    XH))))))))))))))))))))))))))))))))))))))))))))))))))))), (Zpos (XI (XI
    (XO XH)))))); t_act = (AStore (KI (Zpos (XI (XI (XI (XI (XI (XI (XI (XI
    (XI (XI (XI (XI (XI (XI (XI (XI (XI (XI (XI (XI (XI (XI (XI (XI (XI (XI
    (XI (XI (XI (XI (XI (XI (XI (XI (XI (XI (XI (XI (XI (XI (XI (XI (XI (XI
    (XI (XI (XI (XI (XI (XI (XI (XI (XI (XI (XI (XI (XI (XI (XI (XI (XI (XI
    XH))))))))))))))))))))))))))))))))))))))))))))))))))))))))))))))))) } :: []))),
    (Long :: []))) } :: ({ f_dir = Get; f_pad = false; f_x = XDOUBLE; f_i =
    Float; f_loop = LCall; f_body = (BTests (({ t_op = OGt; t_cmp = Double;
    t_chain = []; t_k = (KF (false, (Zpos (XO (XO (XO (XO (XO (XO (XO (XO (XO
    (XO (XO (XO (XO (XO (XO (XO (XO (XO (XO (XO (XO (XO (XO (XO (XO (XO (XO
    (XO (XO (XI (XI (XI (XI (XI (XI (XI (XI (XI (XI (XI (XI (XI (XI (XI (XI
    (XI (XI (XI (XI (XI (XI (XI
    XH))))))))))))))))))))))))))))))))))))))))))))))))))))), (Zpos (XI (XI
    (XO (XI (XO (XO XH))))))))); t_act = (AFill (false, (Some (KF (false,
    (Zpos (XO (XO (XO (XO (XO (XO (XO (XO (XO (XO (XO (XO (XO (XO (XO (XO (XO
    (XO (XO (XO (XI (XI (XI XH)))))))))))))))))))))))), (Zpos (XI (XI (XO (XO
    (XO (XI XH)))))))))))) } :: ({ t_op = OLt; t_cmp = Double; t_chain = [];
    t_k = (KF (true, (Zpos (XO (XO (XO (XO (XO (XO (XO (XO (XO (XO (XO (XO
    (XO (XO (XO (XO (XO (XO (XO (XO (XO (XO (XO (XO (XO (XO (XO (XO (XO (XI
    (XI (XI (XI (XI (XI (XI (XI (XI (XI (XI (XI (XI (XI (XI (XI (XI (XI (XI
    (XI (XI (XI (XI XH))))))))))))))))))))))))))))))))))))))))))))))))))))),
    (Zpos (XI (XI (XO (XI (XO (XO XH))))))))); t_act = (AFill (false, (Some
    (KF (false, (Zpos (XO (XO (XO (XO (XO (XO (XO (XO (XO (XO (XO (XO (XO (XO
    (XO (XO (XO (XO (XO (XO (XI (XI (XI XH)))))))))))))))))))))))), (Zpos (XI
    (XI (XO (XO (XO (XI XH)))))))))))) } :: [])),
    (Float :: []))) } :: ({ f_dir = Get; f_pad = false; f_x = XDOUBLE; f_i =
    Double; f_loop = LSwap; f_body = BIdent } :: ({ f_dir = Get; f_pad =
    false; f_x = XDOUBLE; f_i = Longlong; f_loop = LCall; f_body = (BTests
    (({ t_op = OEq; t_cmp = Double; t_chain = []; t_k = (KF (false, (Zpos (XO
    (XO (XO (XO (XO (XO (XO (XO (XO (XO (XO (XO (XO (XO (XO (XO (XO (XO (XO
    (XO (XO (XO (XO (XO (XO (XO (XO (XO (XO (XO (XO (XO (XO (XO (XO (XO (XO
    (XO (XO (XO (XO (XO (XO (XO (XO (XO (XO (XO (XO (XO (XO (XO
    XH))))))))))))))))))))))))))))))))))))))))))))))))))))), (Zpos (XI (XI
    (XO XH)))))); t_act = (AStore (KI (Zpos (XI (XI (XI (XI (XI (XI (XI (XI
    (XI (XI (XI (XI (XI (XI (XI (XI (XI (XI (XI (XI (XI (XI (XI (XI (XI (XI
    (XI (XI (XI (XI (XI (XI (XI (XI (XI (XI (XI (XI (XI (XI (XI (XI (XI (XI
    (XI (XI (XI (XI (XI (XI (XI (XI (XI (XI (XI (XI (XI (XI (XI (XI (XI (XI
    XH))))))))))))))))))))))))))))))))))))))))))))))))))))))))))))))))) } :: ({ t_op =
    OEq; t_cmp = Double; t_chain = []; t_k = (KF (true, (Zpos (XO (XO (XO (XO
    (XO (XO (XO (XO (XO (XO (XO (XO (XO (XO (XO (XO (XO (XO (XO (XO (XO (XO
    (XO (XO (XO (XO (XO (XO (XO (XO (XO (XO (XO (XO (XO (XO (XO (XO (XO (XO
    (XO (XO (XO (XO (XO (XO (XO (XO (XO (XO (XO (XO
    XH))))))))))))))))))))))))))))))))))))))))))))))))))))), (Zpos (XI (XI
    (XO XH)))))); t_act = (AStore (KI (Zneg (XO (XO (XO (XO (XO (XO (XO (XO
    (XO (XO (XO (XO (XO (XO (XO (XO (XO (XO (XO (XO (XO (XO (XO (XO (XO (XO
    (XO (XO (XO (XO (XO (XO (XO (XO (XO (XO (XO (XO (XO (XO (XO (XO (XO (XO
    (XO (XO (XO (XO (XO (XO (XO (XO (XO (XO (XO (XO (XO (XO (XO (XO (XO (XO
    (XO
    XH)))))))))))))))))))))))))))))))))))))))))))))))))))))))))))))))))) } :: ({ t_op =
    OGt; t_cmp = Double; t_chain = []; t_k = (KF (false, (Zpos (XO (XO (XO
    (XO (XO (XO (XO (XO (XO (XO (XO (XO (XO (XO (XO (XO (XO (XO (XO (XO (XO
    (XO (XO (XO (XO (XO (XO (XO (XO (XO (XO (XO (XO (XO (XO (XO (XO (XO (XO
    (XO (XO (XO (XO (XO (XO (XO (XO (XO (XO (XO (XO (XO
    XH))))))))))))))))))))))))))))))))))))))))))))))))))))), (Zpos (XI (XI
    (XO XH)))))); t_act = (AFill (false, (Some (KI (Zneg (XO (XI (XI (XI (XI
    (XI (XI (XI (XI (XI (XI (XI (XI (XI (XI (XI (XI (XI (XI (XI (XI (XI (XI
    (XI (XI (XI (XI (XI (XI (XI (XI (XI (XI (XI (XI (XI (XI (XI (XI (XI (XI
    (XI (XI (XI (XI (XI (XI (XI (XI (XI (XI (XI (XI (XI (XI (XI (XI (XI (XI
    (XI (XI (XI
    XH))))))))))))))))))))))))))))))))))))))))))))))))))))))))))))))))))) } :: ({ t_op =
    OLt; t_cmp = Double; t_chain = []; t_k = (KF (true, (Zpos (XO (XO (XO (XO
    (XO (XO (XO (XO (XO (XO (XO (XO (XO (XO (XO (XO (XO (XO (XO (XO (XO (XO
    (XO (XO (XO (XO (XO (XO (XO (XO (XO (XO (XO (XO (XO (XO (XO (XO (XO (XO
    (XO (XO (XO (XO (XO (XO (XO (XO (XO (XO (XO (XO
    XH))))))))))))))))))))))))))))))))))))))))))))))))))))), (Zpos (XI (XI
    (XO XH)))))); t_act = (AFill (false, (Some (KI (Zneg (XO (XI (XI (XI (XI
    (XI (XI (XI (XI (XI (XI (XI (XI (XI (XI (XI (XI (XI (XI (XI (XI (XI (XI
    (XI (XI (XI (XI (XI (XI (XI (XI (XI (XI (XI (XI (XI (XI (XI (XI (XI (XI
    (XI (XI (XI (XI (XI (XI (XI (XI (XI (XI (XI (XI (XI (XI (XI (XI (XI (XI
    (XI (XI (XI
    XH))))))))))))))))))))))))))))))))))))))))))))))))))))))))))))))))))) } :: [])))),
    (Longlong :: []))) } :: ({ f_dir = Get; f_pad = false; f_x = XDOUBLE;
    f_i = Ulonglong; f_loop = LCall; f_body = (BTests (({ t_op = OEq; t_cmp =
    Double; t_chain = []; t_k = (KF (false, (Zpos (XO (XO (XO (XO (XO (XO (XO
    (XO (XO (XO (XO (XO (XO (XO (XO (XO (XO (XO (XO (XO (XO (XO (XO (XO (XO
    (XO (XO (XO (XO (XO (XO (XO (XO (XO (XO (XO (XO (XO (XO (XO (XO (XO (XO
    (XO (XO (XO (XO (XO (XO (XO (XO (XO
    XH))))))))))))))))))))))))))))))))))))))))))))))))))))), (Zpos (XO (XO
    (XI XH)))))); t_act = (AStore (KI (Zpos (XI (XI (XI (XI (XI (XI (XI (XI
    (XI (XI (XI (XI (XI (XI (XI (XI (XI (XI (XI (XI (XI (XI (XI (XI (XI (XI
    (XI (XI (XI (XI (XI (XI (XI (XI (XI (XI (XI (XI (XI (XI (XI (XI (XI (XI
    (XI (XI (XI (XI (XI (XI (XI (XI (XI (XI (XI (XI (XI (XI (XI (XI (XI (XI
    (XI
    XH)))))))))))))))))))))))))))))))))))))))))))))))))))))))))))))))))) } :: ({ t_op =
    OGt; t_cmp = Double; t_chain = []; t_k = (KF (false, (Zpos (XO (XO (XO
    (XO (XO (XO (XO (XO (XO (XO (XO (XO (XO (XO (XO (XO (XO (XO (XO (XO (XO
    (XO (XO (XO (XO (XO (XO (XO (XO (XO (XO (XO (XO (XO (XO (XO (XO (XO (XO
    (XO (XO (XO (XO (XO (XO (XO (XO (XO (XO (XO (XO (XO
    XH))))))))))))))))))))))))))))))))))))))))))))))))))))), (Zpos (XO (XO
    (XI XH)))))); t_act = (AFill (false, (Some (KI (Zpos (XO (XI (XI (XI (XI
    (XI (XI (XI (XI (XI (XI (XI (XI (XI (XI (XI (XI (XI (XI (XI (XI (XI (XI
    (XI (XI (XI (XI (XI (XI (XI (XI (XI (XI (XI (XI (XI (XI (XI (XI (XI (XI
    (XI (XI (XI (XI (XI (XI (XI (XI (XI (XI (XI (XI (XI (XI (XI (XI (XI (XI
    (XI (XI (XI (XI
    XH)))))))))))))))))))))))))))))))))))))))))))))))))))))))))))))))))))) } :: ({ t_op =
    OLt; t_cmp = Double; t_chain = []; t_k = (KF (false, Z0, (Zneg (XO (XI
    (XO (XO (XI (XI (XO (XO (XO (XO XH))))))))))))); t_act = (AFill (false,
    (Some (KI (Zpos (XO (XI (XI (XI (XI (XI (XI (XI (XI (XI (XI (XI (XI (XI
    (XI (XI (XI (XI (XI (XI (XI (XI (XI (XI (XI (XI (XI (XI (XI (XI (XI (XI
    (XI (XI (XI (XI (XI (XI (XI (XI (XI (XI (XI (XI (XI (XI (XI (XI (XI (XI
    (XI (XI (XI (XI (XI (XI (XI (XI (XI (XI (XI (XI (XI
    XH)))))))))))))))))))))))))))))))))))))))))))))))))))))))))))))))))))) } :: []))),
    (Ulonglong :: []))) } :: ({ f_dir = Get; f_pad = false; f_x = XINT64;
    f_i = Schar; f_loop = LCall; f_body = (BTests (({ t_op = OGt; t_cmp =
    Longlong; t_chain = []; t_k = (KI (Zpos (XI (XI (XI (XI (XI (XI
    XH)))))))); t_act = (AFill (false, (Some (KI (Zneg (XI (XI (XI (XI (XI
    (XI XH))))))))))) } :: ({ t_op = OLt; t_cmp = Longlong; t_chain = [];
    t_k = (KI (Zneg (XO (XO (XO (XO (XO (XO (XO XH))))))))); t_act = (AFill
    (false, (Some (KI (Zneg (XI (XI (XI (XI (XI (XI XH))))))))))) } :: [])),
    (Schar :: []))) } :: ({ f_dir = Get; f_pad = false; f_x = XINT64; f_i =
    Uchar; f_loop = LCall; f_body = (BTests (({ t_op = OGt; t_cmp = Longlong;
    t_chain = []; t_k = (KI (Zpos (XI (XI (XI (XI (XI (XI (XI XH)))))))));
    t_act = (AFill (false, (Some (KI (Zpos (XI (XI (XI (XI (XI (XI (XI
    XH)))))))))))) } :: ({ t_op = OLt; t_cmp = Longlong; t_chain = []; t_k =
    (KI Z0); t_act = (AFill (false, (Some (KI (Zpos (XI (XI (XI (XI (XI (XI
    (XI XH)))))))))))) } :: [])), (Uchar :: []))) } :: ({ f_dir = Get;
    f_pad = false; f_x = XINT64; f_i = Short; f_loop = LCall; f_body =
    (BTests (({ t_op = OGt; t_cmp = Longlong; t_chain = []; t_k = (KI (Zpos
    (XI (XI (XI (XI (XI (XI (XI (XI (XI (XI (XI (XI (XI (XI
    XH)))))))))))))))); t_act = (AFill (false, (Some (KI (Zneg (XI (XI (XI
    (XI (XI (XI (XI (XI (XI (XI (XI (XI (XI (XI
    XH))))))))))))))))))) } :: ({ t_op = OLt; t_cmp = Longlong; t_chain = [];
    t_k = (KI (Zneg (XO (XO (XO (XO (XO (XO (XO (XO (XO (XO (XO (XO (XO (XO
    (XO XH))))))))))))))))); t_act = (AFill (false, (Some (KI (Zneg (XI (XI
    (XI (XI (XI (XI (XI (XI (XI (XI (XI (XI (XI (XI
    XH))))))))))))))))))) } :: [])), (Short :: []))) } :: ({ f_dir = Get;
    f_pad = false; f_x = XINT64; f_i = Ushort; f_loop = LCall; f_body =
    (BTests (({ t_op = OGt; t_cmp = Longlong; t_chain = []; t_k = (KI (Zpos
    (XI (XI (XI (XI (XI (XI (XI (XI (XI (XI (XI (XI (XI (XI (XI
    XH))))))))))))))))); t_act = (AFill (false, (Some (KI (Zpos (XI (XI (XI
    (XI (XI (XI (XI (XI (XI (XI (XI (XI (XI (XI (XI
    XH)))))))))))))))))))) } :: ({ t_op = OLt; t_cmp = Longlong; t_chain =
    []; t_k = (KI Z0); t_act = (AFill (false, (Some (KI (Zpos (XI (XI (XI (XI
    (XI (XI (XI (XI (XI (XI (XI (XI (XI (XI (XI
    XH)))))))))))))))))))) } :: [])), (Ushort :: []))) } :: ({ f_dir = Get;
    f_pad = false; f_x = XINT64; f_i = Int; f_loop = LCall; f_body = (BTests
    (({ t_op = OGt; t_cmp = Longlong; t_chain = []; t_k = (KI (Zpos (XI (XI
    (XI (XI (XI (XI (XI (XI (XI (XI (XI (XI (XI (XI (XI (XI (XI (XI (XI (XI
    (XI (XI (XI (XI (XI (XI (XI (XI (XI (XI
    XH)))))))))))))))))))))))))))))))); t_act = (AFill (false, (Some (KI
    (Zneg (XI (XI (XI (XI (XI (XI (XI (XI (XI (XI (XI (XI (XI (XI (XI (XI (XI
    (XI (XI (XI (XI (XI (XI (XI (XI (XI (XI (XI (XI (XI
    XH))))))))))))))))))))))))))))))))))) } :: ({ t_op = OLt; t_cmp =
    Longlong; t_chain = []; t_k = (KI (Zneg (XO (XO (XO (XO (XO (XO (XO (XO
    (XO (XO (XO (XO (XO (XO (XO (XO (XO (XO (XO (XO (XO (XO (XO (XO (XO (XO
    (XO (XO (XO (XO (XO XH))))))))))))))))))))))))))))))))); t_act = (AFill
    (false, (Some (KI (Zneg (XI (XI (XI (XI (XI (XI (XI (XI (XI (XI (XI (XI
    (XI (XI (XI (XI (XI (XI (XI (XI (XI (XI (XI (XI (XI (XI (XI (XI (XI (XI
    XH))))))))))))))))))))))))))))))))))) } :: [])),
    (Int :: []))) } :: ({ f_dir = Get; f_pad = false; f_x = XINT64; f_i =
    Uint; f_loop = LCall; f_body = (BTests (({ t_op = OGt; t_cmp = Longlong;
    t_chain = []; t_k = (KI (Zpos (XI (XI (XI (XI (XI (XI (XI (XI (XI (XI (XI
    (XI (XI (XI (XI (XI (XI (XI (XI (XI (XI (XI (XI (XI (XI (XI (XI (XI (XI
    (XI (XI XH))))))))))))))))))))))))))))))))); t_act = (AFill (false, (Some
    (KI (Zpos (XI (XI (XI (XI (XI (XI (XI (XI (XI (XI (XI (XI (XI (XI (XI (XI
    (XI (XI (XI (XI (XI (XI (XI (XI (XI (XI (XI (XI (XI (XI (XI
    XH)))))))))))))))))))))))))))))))))))) } :: ({ t_op = OLt; t_cmp =
    Longlong; t_chain = []; t_k = (KI Z0); t_act = (AFill (false, (Some (KI
    (Zpos (XI (XI (XI (XI (XI (XI (XI (XI (XI (XI (XI (XI (XI (XI (XI (XI (XI
    (XI (XI (XI (XI (XI (XI (XI (XI (XI (XI (XI (XI (XI (XI
    XH)))))))))))))))))))))))))))))))))))) } :: [])),
    (Uint :: []))) } :: ({ f_dir = Get; f_pad = false; f_x = XINT64; f_i =
    Long; f_loop = LCall; f_body = BIdent } :: ({ f_dir = Get; f_pad = false;
    f_x = XINT64; f_i = Float; f_loop = LCall; f_body = (BTests ([],
    (Float :: []))) } :: ({ f_dir = Get; f_pad = false; f_x = XINT64; f_i =
    Double; f_loop = LCall; f_body = (BTests ([],
    (Double :: []))) } :: ({ f_dir = Get; f_pad = false; f_x = XINT64; f_i =
    Longlong; f_loop = LSwap; f_body = BIdent } :: ({ f_dir = Get; f_pad =
    false; f_x = XINT64; f_i = Ulonglong; f_loop = LCall; f_body = (BTests
    (({ t_op = OLt; t_cmp = Longlong; t_chain = []; t_k = (KI Z0); t_act =
    (AFill (false, (Some (KI (Zpos (XO (XI (XI (XI (XI (XI (XI (XI (XI (XI
    (XI (XI (XI (XI (XI (XI (XI (XI (XI (XI (XI (XI (XI (XI (XI (XI (XI (XI
    (XI (XI (XI (XI (XI (XI (XI (XI (XI (XI (XI (XI (XI (XI (XI (XI (XI (XI
    (XI (XI (XI (XI (XI (XI (XI (XI (XI (XI (XI (XI (XI (XI (XI (XI (XI
    XH)))))))))))))))))))))))))))))))))))))))))))))))))))))))))))))))))))) } :: []),
    (Ulonglong :: []))) } :: ({ f_dir = Get; f_pad = false; f_x = XUINT64;
    f_i = Schar; f_loop = LCall; f_body = (BTests (({ t_op = OGt; t_cmp =
    Ulonglong; t_chain = []; t_k = (KI (Zpos (XI (XI (XI (XI (XI (XI
    XH)))))))); t_act = (AFill (false, (Some (KI (Zneg (XI (XI (XI (XI (XI
    (XI XH))))))))))) } :: []), (Schar :: []))) } :: ({ f_dir = Get; f_pad =
    false; f_x = XUINT64; f_i = Uchar; f_loop = LCall; f_body = (BTests
    (({ t_op = OGt; t_cmp = Ulonglong; t_chain = []; t_k = (KI (Zpos (XI (XI
    (XI (XI (XI (XI (XI XH))))))))); t_act = (AFill (false, (Some (KI (Zpos
    (XI (XI (XI (XI (XI (XI (XI XH)))))))))))) } :: []),
    (Uchar :: []))) } :: ({ f_dir = Get; f_pad = false; f_x = XUINT64; f_i =
    Short; f_loop = LCall; f_body = (BTests (({ t_op = OGt; t_cmp =
    Ulonglong; t_chain = []; t_k = (KI (Zpos (XI (XI (XI (XI (XI (XI (XI (XI
    (XI (XI (XI (XI (XI (XI XH)))))))))))))))); t_act = (AFill (false, (Some
    (KI (Zneg (XI (XI (XI (XI (XI (XI (XI (XI (XI (XI (XI (XI (XI (XI
    XH))))))))))))))))))) } :: []), (Short :: []))) } :: ({ f_dir = Get;
    f_pad = false; f_x = XUINT64; f_i = Ushort; f_loop = LCall; f_body =
    (BTests (({ t_op = OGt; t_cmp = Ulonglong; t_chain = []; t_k = (KI (Zpos
    (XI (XI (XI (XI (XI (XI (XI (XI (XI (XI (XI (XI (XI (XI (XI
    XH))))))))))))))))); t_act = (AFill (false, (Some (KI (Zpos (XI (XI (XI
    (XI (XI (XI (XI (XI (XI (XI (XI (XI (XI (XI (XI
    XH)))))))))))))))))))) } :: []), (Ushort :: []))) } :: ({ f_dir = Get;
    f_pad = false; f_x = XUINT64; f_i = Int; f_loop = LCall; f_body = (BTests
    (({ t_op = OGt; t_cmp = Ulonglong; t_chain = []; t_k = (KI (Zpos (XI (XI
    (XI (XI (XI (XI (XI (XI (XI (XI (XI (XI (XI (XI (XI (XI (XI (XI (XI (XI
    (XI (XI (XI (XI (XI (XI (XI (XI (XI (XI
    XH)))))))))))))))))))))))))))))))); t_act = (AFill (false, (Some (KI
    (Zneg (XI (XI (XI (XI (XI (XI (XI (XI (XI (XI (XI (XI (XI (XI (XI (XI (XI
    (XI (XI (XI (XI (XI (XI (XI (XI (XI (XI (XI (XI (XI
    XH))))))))))))))))))))))))))))))))))) } :: []),
    (Int :: []))) } :: ({ f_dir = Get; f_pad = false; f_x = XUINT64; f_i =
    Uint; f_loop = LCall; f_body = (BTests (({ t_op = OGt; t_cmp = Ulonglong;
    t_chain = []; t_k = (KI (Zpos (XI (XI (XI (XI (XI (XI (XI (XI (XI (XI (XI
    (XI (XI (XI (XI (XI (XI (XI (XI (XI (XI (XI (XI (XI (XI (XI (XI (XI (XI
    (XI (XI XH))))))))))))))))))))))))))))))))); t_act = (AFill (false, (Some
    (KI (Zpos (XI (XI (XI (XI (XI (XI (XI (XI (XI (XI (XI (XI (XI (XI (XI (XI
    (XI (XI (XI (XI (XI (XI (XI (XI (XI (XI (XI (XI (XI (XI (XI
    XH)))))))))))))))))))))))))))))))))))) } :: []),
    (Uint :: []))) } :: ({ f_dir = Get; f_pad = false; f_x = XUINT64; f_i =
    Long; f_loop = LCall; f_body = (BTests (({ t_op = OGt; t_cmp = Ulonglong;
    t_chain = []; t_k = (KI (Zpos (XI (XI (XI (XI (XI (XI (XI (XI (XI (XI (XI
    (XI (XI (XI (XI (XI (XI (XI (XI (XI (XI (XI (XI (XI (XI (XI (XI (XI (XI
    (XI (XI (XI (XI (XI (XI (XI (XI (XI (XI (XI (XI (XI (XI (XI (XI (XI (XI
    (XI (XI (XI (XI (XI (XI (XI (XI (XI (XI (XI (XI (XI (XI (XI
    XH))))))))))))))))))))))))))))))))))))))))))))))))))))))))))))))));
    t_act = (AFill (false, (Some (KI (Zneg (XI (XI (XI (XI (XI (XI (XI (XI
    (XI (XI (XI (XI (XI (XI (XI (XI (XI (XI (XI (XI (XI (XI (XI (XI (XI (XI
    (XI (XI (XI (XI XH))))))))))))))))))))))))))))))))))) } :: []),
    (Long :: []))) } :: ({ f_dir = Get; f_pad = false; f_x = XUINT64; f_i =
    Float; f_loop = LCall; f_body = (BTests ([],
    (Float :: []))) } :: ({ f_dir = Get; f_pad = false; f_x = XUINT64; f_i =
    Double; f_loop = LCall; f_body = (BTests ([],
    (Double :: []))) } :: ({ f_dir = Get; f_pad = false; f_x = XUINT64; f_i =
    Longlong; f_loop = LCall; f_body = (BTests (({ t_op = OGt; t_cmp =
    Ulonglong; t_chain = []; t_k = (KI (Zpos (XI (XI (XI (XI (XI (XI (XI (XI
    (XI (XI (XI (XI (XI (XI (XI (XI (XI (XI (XI (XI (XI (XI (XI (XI (XI (XI
    (XI (XI (XI (XI (XI (XI (XI (XI (XI (XI (XI (XI (XI (XI (XI (XI (XI (XI
    (XI (XI (XI (XI (XI (XI (XI (XI (XI (XI (XI (XI (XI (XI (XI (XI (XI (XI
    XH))))))))))))))))))))))))))))))))))))))))))))))))))))))))))))))));
    t_act = (AFill (false, (Some (KI (Zneg (XO (XI (XI (XI (XI (XI (XI (XI
    (XI (XI (XI (XI (XI (XI (XI (XI (XI (XI (XI (XI (XI (XI (XI (XI (XI (XI
    (XI (XI (XI (XI (XI (XI (XI (XI (XI (XI (XI (XI (XI (XI (XI (XI (XI (XI
    (XI (XI (XI (XI (XI (XI (XI (XI (XI (XI (XI (XI (XI (XI (XI (XI (XI (XI
    XH))))))))))))))))))))))))))))))))))))))))))))))))))))))))))))))))))) } :: []),
    (Longlong :: []))) } :: ({ f_dir = Get; f_pad = false; f_x = XUINT64;
    f_i = Ulonglong; f_loop = LSwap; f_body = BIdent } :: ({ f_dir = Put;
    f_pad = true; f_x = XBYTE; f_i = Schar; f_loop = LMemcpy; f_body =
    BIdent } :: ({ f_dir = Put; f_pad = true; f_x = XBYTE; f_i = Uchar;
    f_loop = LInline; f_body = (BTests (({ t_op = OGt; t_cmp = Int; t_chain =
    (Int :: []); t_k = (KI (Zpos (XI (XI (XI (XI (XI (XI XH)))))))); t_act =
    (AFill (true, None)) } :: []), (Schar :: []))) } :: ({ f_dir = Put;
    f_pad = true; f_x = XBYTE; f_i = Short; f_loop = LInline; f_body =
    (BTests (({ t_op = OGt; t_cmp = Int; t_chain = (Int :: []); t_k = (KI
    (Zpos (XI (XI (XI (XI (XI (XI XH)))))))); t_act = (AFill (true,
    None)) } :: ({ t_op = OLt; t_cmp = Int; t_chain = (Int :: []); t_k = (KI
    (Zneg (XO (XO (XO (XO (XO (XO (XO XH))))))))); t_act = (AFill (true,
    None)) } :: [])), (Schar :: []))) } :: ({ f_dir = Put; f_pad = true;
    f_x = XBYTE; f_i = Ushort; f_loop = LInline; f_body = (BTests (({ t_op =
    OGt; t_cmp = Int; t_chain = (Int :: []); t_k = (KI (Zpos (XI (XI (XI (XI
    (XI (XI XH)))))))); t_act = (AFill (true, None)) } :: []),
    (Schar :: []))) } :: ({ f_dir = Put; f_pad = true; f_x = XBYTE; f_i =
    Int; f_loop = LInline; f_body = (BTests (({ t_op = OGt; t_cmp = Int;
    t_chain = []; t_k = (KI (Zpos (XI (XI (XI (XI (XI (XI XH)))))))); t_act =
    (AFill (true, None)) } :: ({ t_op = OLt; t_cmp = Int; t_chain = []; t_k =
    (KI (Zneg (XO (XO (XO (XO (XO (XO (XO XH))))))))); t_act = (AFill (true,
    None)) } :: [])), (Schar :: []))) } :: ({ f_dir = Put; f_pad = true;
    f_x = XBYTE; f_i = Uint; f_loop = LInline; f_body = (BTests (({ t_op =
    OGt; t_cmp = Uint; t_chain = []; t_k = (KI (Zpos (XI (XI (XI (XI (XI (XI
    XH)))))))); t_act = (AFill (true, None)) } :: []),
    (Schar :: []))) } :: ({ f_dir = Put; f_pad = true; f_x = XBYTE; f_i =
    Long; f_loop = LInline; f_body = (BTests (({ t_op = OGt; t_cmp = Long;
    t_chain = []; t_k = (KI (Zpos (XI (XI (XI (XI (XI (XI XH)))))))); t_act =
    (AFill (true, None)) } :: ({ t_op = OLt; t_cmp = Long; t_chain = [];
    t_k = (KI (Zneg (XO (XO (XO (XO (XO (XO (XO XH))))))))); t_act = (AFill
    (true, None)) } :: [])), (Schar :: []))) } :: ({ f_dir = Put; f_pad =
    true; f_x = XBYTE; f_i = Float; f_loop = LInline; f_body = (BTests
    (({ t_op = OGt; t_cmp = Float; t_chain = []; t_k = (KF (false, (Zpos (XO
    (XO (XO (XO (XO (XO (XO (XO (XO (XO (XO (XO (XO (XO (XO (XO (XO (XI (XI
    (XI (XI (XI (XI XH)))))))))))))))))))))))), (Zneg (XI (XO (XO (XO
    XH))))))); t_act = (AFill (true, None)) } :: ({ t_op = OLt; t_cmp =
    Float; t_chain = []; t_k = (KF (true, (Zpos (XO (XO (XO (XO (XO (XO (XO
    (XO (XO (XO (XO (XO (XO (XO (XO (XO (XO (XO (XO (XO (XO (XO (XO
    XH)))))))))))))))))))))))), (Zneg (XO (XO (XO (XO XH))))))); t_act =
    (AFill (true, None)) } :: [])), (Schar :: []))) } :: ({ f_dir = Put;
    f_pad = true; f_x = XBYTE; f_i = Double; f_loop = LInline; f_body =
    (BTests (({ t_op = OGt; t_cmp = Double; t_chain = []; t_k = (KF (false,
    (Zpos (XO (XO (XO (XO (XO (XO (XO (XO (XO (XO (XO (XO (XO (XO (XO (XO (XO
    (XO (XO (XO (XO (XO (XO (XO (XO (XO (XO (XO (XO (XO (XO (XO (XO (XO (XO
    (XO (XO (XO (XO (XO (XO (XO (XO (XO (XO (XO (XI (XI (XI (XI (XI (XI
    XH))))))))))))))))))))))))))))))))))))))))))))))))))))), (Zneg (XO (XI
    (XI (XI (XO XH)))))))); t_act = (AFill (true, None)) } :: ({ t_op = OLt;
    t_cmp = Double; t_chain = []; t_k = (KF (true, (Zpos (XO (XO (XO (XO (XO
    (XO (XO (XO (XO (XO (XO (XO (XO (XO (XO (XO (XO (XO (XO (XO (XO (XO (XO
    (XO (XO (XO (XO (XO (XO (XO (XO (XO (XO (XO (XO (XO (XO (XO (XO (XO (XO
    (XO (XO (XO (XO (XO (XO (XO (XO (XO (XO (XO
    XH))))))))))))))))))))))))))))))))))))))))))))))))))))), (Zneg (XI (XO
    (XI (XI (XO XH)))))))); t_act = (AFill (true, None)) } :: [])),
    (Schar :: []))) } :: ({ f_dir = Put; f_pad = true; f_x = XBYTE; f_i =
    Longlong; f_loop = LInline; f_body = (BTests (({ t_op = OGt; t_cmp =
    Longlong; t_chain = []; t_k = (KI (Zpos (XI (XI (XI (XI (XI (XI
    XH)))))))); t_act = (AFill (true, None)) } :: ({ t_op = OLt; t_cmp =
    Longlong; t_chain = []; t_k = (KI (Zneg (XO (XO (XO (XO (XO (XO (XO
    XH))))))))); t_act = (AFill (true, None)) } :: [])),
    (Schar :: []))) } :: ({ f_dir = Put; f_pad = true; f_x = XBYTE; f_i =
    Ulonglong; f_loop = LInline; f_body = (BTests (({ t_op = OGt; t_cmp =
    Ulonglong; t_chain = []; t_k = (KI (Zpos (XI (XI (XI (XI (XI (XI
    XH)))))))); t_act = (AFill (true, None)) } :: []),
    (Schar :: []))) } :: ({ f_dir = Put; f_pad = true; f_x = XUBYTE; f_i =
    Schar; f_loop = LInline; f_body = (BTests (({ t_op = OLt; t_cmp = Int;
    t_chain = (Int :: []); t_k = (KI Z0); t_act = (AFill (true,
    None)) } :: []), (Int :: (Uchar :: [])))) } :: ({ f_dir = Put; f_pad =
    true; f_x = XUBYTE; f_i = Uchar; f_loop = LMemcpy; f_body =
    BIdent } :: ({ f_dir = Put; f_pad = true; f_x = XUBYTE; f_i = Short;
    f_loop = LInline; f_body = (BTests (({ t_op = OGt; t_cmp = Int; t_chain =
    (Int :: []); t_k = (KI (Zpos (XI (XI (XI (XI (XI (XI (XI XH)))))))));
    t_act = (AFill (true, None)) } :: ({ t_op = OLt; t_cmp = Int; t_chain =
    (Int :: []); t_k = (KI Z0); t_act = (AFill (true, None)) } :: [])),
    (Int :: (Uchar :: [])))) } :: ({ f_dir = Put; f_pad = true; f_x = XUBYTE;
    f_i = Ushort; f_loop = LInline; f_body = (BTests (({ t_op = OGt; t_cmp =
    Int; t_chain = (Int :: []); t_k = (KI (Zpos (XI (XI (XI (XI (XI (XI (XI
    XH))))))))); t_act = (AFill (true, None)) } :: []),
    (Uchar :: []))) } :: ({ f_dir = Put; f_pad = true; f_x = XUBYTE; f_i =
    Int; f_loop = LInline; f_body = (BTests (({ t_op = OGt; t_cmp = Int;
    t_chain = []; t_k = (KI (Zpos (XI (XI (XI (XI (XI (XI (XI XH)))))))));
    t_act = (AFill (true, None)) } :: ({ t_op = OLt; t_cmp = Int; t_chain =
    []; t_k = (KI Z0); t_act = (AFill (true, None)) } :: [])),
    (Uchar :: []))) } :: ({ f_dir = Put; f_pad = true; f_x = XUBYTE; f_i =
    Uint; f_loop = LInline; f_body = (BTests (({ t_op = OGt; t_cmp = Uint;
    t_chain = []; t_k = (KI (Zpos (XI (XI (XI (XI (XI (XI (XI XH)))))))));
    t_act = (AFill (true, None)) } :: []), (Uchar :: []))) } :: ({ f_dir =
    Put; f_pad = true; f_x = XUBYTE; f_i = Long; f_loop = LInline; f_body =
    (BTests (({ t_op = OGt; t_cmp = Long; t_chain = []; t_k = (KI (Zpos (XI
    (XI (XI (XI (XI (XI (XI XH))))))))); t_act = (AFill (true,
    None)) } :: ({ t_op = OLt; t_cmp = Long; t_chain = []; t_k = (KI Z0);
    t_act = (AFill (true, None)) } :: [])),
    (Int :: (Uchar :: [])))) } :: ({ f_dir = Put; f_pad = true; f_x = XUBYTE;
    f_i = Float; f_loop = LInline; f_body = (BTests (({ t_op = OGt; t_cmp =
    Float; t_chain = []; t_k = (KF (false, (Zpos (XO (XO (XO (XO (XO (XO (XO
    (XO (XO (XO (XO (XO (XO (XO (XO (XO (XI (XI (XI (XI (XI (XI (XI
    XH)))))))))))))))))))))))), (Zneg (XO (XO (XO (XO XH))))))); t_act =
    (AFill (true, None)) } :: ({ t_op = OLt; t_cmp = Float; t_chain = [];
    t_k = (KF (false, Z0, (Zneg (XI (XO (XI (XO (XI (XO (XO XH))))))))));
    t_act = (AFill (true, None)) } :: [])),
    (Int :: (Uchar :: [])))) } :: ({ f_dir = Put; f_pad = true; f_x = XUBYTE;
    f_i = Double; f_loop = LInline; f_body = (BTests (({ t_op = OGt; t_cmp =
    Double; t_chain = []; t_k = (KF (false, (Zpos (XO (XO (XO (XO (XO (XO (XO
    (XO (XO (XO (XO (XO (XO (XO (XO (XO (XO (XO (XO (XO (XO (XO (XO (XO (XO
    (XO (XO (XO (XO (XO (XO (XO (XO (XO (XO (XO (XO (XO (XO (XO (XO (XO (XO
    (XO (XO (XI (XI (XI (XI (XI (XI (XI
    XH))))))))))))))))))))))))))))))))))))))))))))))))))))), (Zneg (XI (XO
    (XI (XI (XO XH)))))))); t_act = (AFill (true, None)) } :: ({ t_op = OLt;
    t_cmp = Double; t_chain = []; t_k = (KF (false, Z0, (Zneg (XO (XI (XO (XO
    (XI (XI (XO (XO (XO (XO XH))))))))))))); t_act = (AFill (true,
    None)) } :: [])), (Int :: (Uchar :: [])))) } :: ({ f_dir = Put; f_pad =
    true; f_x = XUBYTE; f_i = Longlong; f_loop = LInline; f_body = (BTests
    (({ t_op = OGt; t_cmp = Longlong; t_chain = []; t_k = (KI (Zpos (XI (XI
    (XI (XI (XI (XI (XI XH))))))))); t_act = (AFill (true,
    None)) } :: ({ t_op = OLt; t_cmp = Longlong; t_chain = []; t_k = (KI Z0);
    t_act = (AFill (true, None)) } :: [])),
    (Int :: (Uchar :: [])))) } :: ({ f_dir = Put; f_pad = true; f_x = XUBYTE;
    f_i = Ulonglong; f_loop = LInline; f_body = (BTests (({ t_op = OGt;
    t_cmp = Ulonglong; t_chain = []; t_k = (KI (Zpos (XI (XI (XI (XI (XI (XI
    (XI XH))))))))); t_act = (AFill (true, None)) } :: []),
    (Uchar :: []))) } :: ({ f_dir = Put; f_pad = true; f_x = XSHORT; f_i =
    Schar; f_loop = LCall; f_body = (BSext []) } :: ({ f_dir = Put; f_pad =
    true; f_x = XSHORT; f_i = Uchar; f_loop = LCall; f_body = (BZext
    []) } :: ({ f_dir = Put; f_pad = true; f_x = XSHORT; f_i = Short;
    f_loop = LCall; f_body = BIdent } :: ({ f_dir = Put; f_pad = true; f_x =
    XSHORT; f_i = Ushort; f_loop = LCall; f_body = (BTests (({ t_op = OGt;
    t_cmp = Int; t_chain = (Int :: []); t_k = (KI (Zpos (XI (XI (XI (XI (XI
    (XI (XI (XI (XI (XI (XI (XI (XI (XI XH)))))))))))))))); t_act = (AFill
    (true, (Some (KI (Zneg (XI (XI (XI (XI (XI (XI (XI (XI (XI (XI (XI (XI
    (XI (XI XH))))))))))))))))))) } :: []), (Short :: []))) } :: ({ f_dir =
    Put; f_pad = true; f_x = XSHORT; f_i = Int; f_loop = LCall; f_body =
    (BTests (({ t_op = OGt; t_cmp = Int; t_chain = []; t_k = (KI (Zpos (XI
    (XI (XI (XI (XI (XI (XI (XI (XI (XI (XI (XI (XI (XI XH))))))))))))))));
    t_act = (AFill (true, (Some (KI (Zneg (XI (XI (XI (XI (XI (XI (XI (XI (XI
    (XI (XI (XI (XI (XI XH))))))))))))))))))) } :: ({ t_op = OLt; t_cmp =
    Int; t_chain = []; t_k = (KI (Zneg (XO (XO (XO (XO (XO (XO (XO (XO (XO
    (XO (XO (XO (XO (XO (XO XH))))))))))))))))); t_act = (AFill (true, (Some
    (KI (Zneg (XI (XI (XI (XI (XI (XI (XI (XI (XI (XI (XI (XI (XI (XI
    XH))))))))))))))))))) } :: [])), (Short :: []))) } :: ({ f_dir = Put;
    f_pad = true; f_x = XSHORT; f_i = Uint; f_loop = LCall; f_body = (BTests
    (({ t_op = OGt; t_cmp = Uint; t_chain = []; t_k = (KI (Zpos (XI (XI (XI
    (XI (XI (XI (XI (XI (XI (XI (XI (XI (XI (XI XH)))))))))))))))); t_act =
    (AFill (true, (Some (KI (Zneg (XI (XI (XI (XI (XI (XI (XI (XI (XI (XI (XI
    (XI (XI (XI XH))))))))))))))))))) } :: []),
    (Short :: []))) } :: ({ f_dir = Put; f_pad = true; f_x = XSHORT; f_i =
    Long; f_loop = LCall; f_body = (BTests (({ t_op = OGt; t_cmp = Long;
    t_chain = []; t_k = (KI (Zpos (XI (XI (XI (XI (XI (XI (XI (XI (XI (XI (XI
    (XI (XI (XI XH)))))))))))))))); t_act = (AFill (true, (Some (KI (Zneg (XI
    (XI (XI (XI (XI (XI (XI (XI (XI (XI (XI (XI (XI (XI
    XH))))))))))))))))))) } :: ({ t_op = OLt; t_cmp = Long; t_chain = [];
    t_k = (KI (Zneg (XO (XO (XO (XO (XO (XO (XO (XO (XO (XO (XO (XO (XO (XO
    (XO XH))))))))))))))))); t_act = (AFill (true, (Some (KI (Zneg (XI (XI
    (XI (XI (XI (XI (XI (XI (XI (XI (XI (XI (XI (XI
    XH))))))))))))))))))) } :: [])), (Short :: []))) } :: ({ f_dir = Put;
    f_pad = true; f_x = XSHORT; f_i = Float; f_loop = LCall; f_body = (BTests
    (({ t_op = OGt; t_cmp = Double; t_chain = (Double :: []); t_k = (KF
    (false, (Zpos (XO (XO (XO (XO (XO (XO (XO (XO (XO (XO (XO (XO (XO (XO (XO
    (XO (XO (XO (XO (XO (XO (XO (XO (XO (XO (XO (XO (XO (XO (XO (XO (XO (XO
    (XO (XO (XO (XO (XO (XI (XI (XI (XI (XI (XI (XI (XI (XI (XI (XI (XI (XI
    (XI XH))))))))))))))))))))))))))))))))))))))))))))))))))))), (Zneg (XO
    (XI (XI (XO (XO XH)))))))); t_act = (AFill (true, (Some (KI (Zneg (XI (XI
    (XI (XI (XI (XI (XI (XI (XI (XI (XI (XI (XI (XI
    XH))))))))))))))))))) } :: ({ t_op = OLt; t_cmp = Double; t_chain =
    (Double :: []); t_k = (KF (true, (Zpos (XO (XO (XO (XO (XO (XO (XO (XO
    (XO (XO (XO (XO (XO (XO (XO (XO (XO (XO (XO (XO (XO (XO (XO (XO (XO (XO
    (XO (XO (XO (XO (XO (XO (XO (XO (XO (XO (XO (XO (XO (XO (XO (XO (XO (XO
    (XO (XO (XO (XO (XO (XO (XO (XO
    XH))))))))))))))))))))))))))))))))))))))))))))))))))))), (Zneg (XI (XO
    (XI (XO (XO XH)))))))); t_act = (AFill (true, (Some (KI (Zneg (XI (XI (XI
    (XI (XI (XI (XI (XI (XI (XI (XI (XI (XI (XI
    XH))))))))))))))))))) } :: [])), (Short :: []))) } :: ({ f_dir = Put;
    f_pad = true; f_x = XSHORT; f_i = Double; f_loop = LCall; f_body =
    (BTests (({ t_op = OGt; t_cmp = Double; t_chain = []; t_k = (KF (false,
    (Zpos (XO (XO (XO (XO (XO (XO (XO (XO (XO (XO (XO (XO (XO (XO (XO (XO (XO
    (XO (XO (XO (XO (XO (XO (XO (XO (XO (XO (XO (XO (XO (XO (XO (XO (XO (XO
    (XO (XO (XO (XI (XI (XI (XI (XI (XI (XI (XI (XI (XI (XI (XI (XI (XI
    XH))))))))))))))))))))))))))))))))))))))))))))))))))))), (Zneg (XO (XI
    (XI (XO (XO XH)))))))); t_act = (AFill (true, (Some (KI (Zneg (XI (XI (XI
    (XI (XI (XI (XI (XI (XI (XI (XI (XI (XI (XI
    XH))))))))))))))))))) } :: ({ t_op = OLt; t_cmp = Double; t_chain = [];
    t_k = (KF (true, (Zpos (XO (XO (XO (XO (XO (XO (XO (XO (XO (XO (XO (XO
    (XO (XO (XO (XO (XO (XO (XO (XO (XO (XO (XO (XO (XO (XO (XO (XO (XO (XO
    (XO (XO (XO (XO (XO (XO (XO (XO (XO (XO (XO (XO (XO (XO (XO (XO (XO (XO
    (XO (XO (XO (XO XH))))))))))))))))))))))))))))))))))))))))))))))))))))),
    (Zneg (XI (XO (XI (XO (XO XH)))))))); t_act = (AFill (true, (Some (KI
    (Zneg (XI (XI (XI (XI (XI (XI (XI (XI (XI (XI (XI (XI (XI (XI
    XH))))))))))))))))))) } :: [])), (Short :: []))) } :: ({ f_dir = Put;
    f_pad = true; f_x = XSHORT; f_i = Longlong; f_loop = LCall; f_body =
    (BTests (({ t_op = OGt; t_cmp = Longlong; t_chain = []; t_k = (KI (Zpos
    (XI (XI (XI (XI (XI (XI (XI (XI (XI (XI (XI (XI (XI (XI
    XH)))))))))))))))); t_act = (AFill (true, (Some (KI (Zneg (XI (XI (XI (XI
    (XI (XI (XI (XI (XI (XI (XI (XI (XI (XI
    XH))))))))))))))))))) } :: ({ t_op = OLt; t_cmp = Longlong; t_chain = [];
    t_k = (KI (Zneg (XO (XO (XO (XO (XO (XO (XO (XO (XO (XO (XO (XO (XO (XO
    (XO XH))))))))))))))))); t_act = (AFill (true, (Some (KI (Zneg (XI (XI
    (XI (XI (XI (XI (XI (XI (XI (XI (XI (XI (XI (XI
    XH))))))))))))))))))) } :: [])), (Short :: []))) } :: ({ f_dir = Put;
    f_pad = true; f_x = XSHORT; f_i = Ulonglong; f_loop = LCall; f_body =
    (BTests (({ t_op = OGt; t_cmp = Ulonglong; t_chain = []; t_k = (KI (Zpos
    (XI (XI (XI (XI (XI (XI (XI (XI (XI (XI (XI (XI (XI (XI
    XH)))))))))))))))); t_act = (AFill (true, (Some (KI (Zneg (XI (XI (XI (XI
    (XI (XI (XI (XI (XI (XI (XI (XI (XI (XI XH))))))))))))))))))) } :: []),
    (Short :: []))) } :: ({ f_dir = Put; f_pad = true; f_x = XUSHORT; f_i =
    Schar; f_loop = LCall; f_body = (BSext ({ t_op = OLt; t_cmp = Int;
    t_chain = (Int :: []); t_k = (KI Z0); t_act = (AFill (true,
    None)) } :: [])) } :: ({ f_dir = Put; f_pad = true; f_x = XUSHORT; f_i =
    Uchar; f_loop = LCall; f_body = (BZext []) } :: ({ f_dir = Put; f_pad =
    true; f_x = XUSHORT; f_i = Short; f_loop = LCall; f_body = (BTests
    (({ t_op = OLt; t_cmp = Int; t_chain = (Int :: []); t_k = (KI Z0);
    t_act = (AFill (true, (Some (KI (Zpos (XI (XI (XI (XI (XI (XI (XI (XI (XI
    (XI (XI (XI (XI (XI (XI XH)))))))))))))))))))) } :: []),
    (Ushort :: []))) } :: ({ f_dir = Put; f_pad = true; f_x = XUSHORT; f_i =
    Ushort; f_loop = LCall; f_body = BIdent } :: ({ f_dir = Put; f_pad =
    true; f_x = XUSHORT; f_i = Int; f_loop = LCall; f_body = (BTests
    (({ t_op = OGt; t_cmp = Int; t_chain = []; t_k = (KI (Zpos (XI (XI (XI
    (XI (XI (XI (XI (XI (XI (XI (XI (XI (XI (XI (XI XH)))))))))))))))));
    t_act = (AFill (true, (Some (KI (Zpos (XI (XI (XI (XI (XI (XI (XI (XI (XI
    (XI (XI (XI (XI (XI (XI XH)))))))))))))))))))) } :: ({ t_op = OLt;
    t_cmp = Int; t_chain = []; t_k = (KI Z0); t_act = (AFill (true, (Some (KI
    (Zpos (XI (XI (XI (XI (XI (XI (XI (XI (XI (XI (XI (XI (XI (XI (XI
    XH)))))))))))))))))))) } :: [])), (Ushort :: []))) } :: ({ f_dir = Put;
    f_pad = true; f_x = XUSHORT; f_i = Uint; f_loop = LCall; f_body = (BTests
    (({ t_op = OGt; t_cmp = Uint; t_chain = []; t_k = (KI (Zpos (XI (XI (XI
    (XI (XI (XI (XI (XI (XI (XI (XI (XI (XI (XI (XI XH)))))))))))))))));
    t_act = (AFill (true, (Some (KI (Zpos (XI (XI (XI (XI (XI (XI (XI (XI (XI
    (XI (XI (XI (XI (XI (XI XH)))))))))))))))))))) } :: []),
    (Ushort :: []))) } :: ({ f_dir = Put; f_pad = true; f_x = XUSHORT; f_i =
    Long; f_loop = LCall; f_body = (BTests (({ t_op = OGt; t_cmp = Long;
    t_chain = []; t_k = (KI (Zpos (XI (XI (XI (XI (XI (XI (XI (XI (XI (XI (XI
    (XI (XI (XI (XI XH))))))))))))))))); t_act = (AFill (true, (Some (KI
    (Zpos (XI (XI (XI (XI (XI (XI (XI (XI (XI (XI (XI (XI (XI (XI (XI
    XH)))))))))))))))))))) } :: ({ t_op = OLt; t_cmp = Long; t_chain = [];
    t_k = (KI Z0); t_act = (AFill (true, (Some (KI (Zpos (XI (XI (XI (XI (XI
    (XI (XI (XI (XI (XI (XI (XI (XI (XI (XI XH)))))))))))))))))))) } :: [])),
    (Ushort :: []))) } :: ({ f_dir = Put; f_pad = true; f_x = XUSHORT; f_i =
    Float; f_loop = LCall; f_body = (BTests (({ t_op = OGt; t_cmp = Double;
    t_chain = (Double :: []); t_k = (KF (false, (Zpos (XO (XO (XO (XO (XO (XO
    (XO (XO (XO (XO (XO (XO (XO (XO (XO (XO (XO (XO (XO (XO (XO (XO (XO (XO
    (XO (XO (XO (XO (XO (XO (XO (XO (XO (XO (XO (XO (XO (XI (XI (XI (XI (XI
    (XI (XI (XI (XI (XI (XI (XI (XI (XI (XI
    XH))))))))))))))))))))))))))))))))))))))))))))))))))))), (Zneg (XI (XO
    (XI (XO (XO XH)))))))); t_act = (AFill (true, (Some (KI (Zpos (XI (XI (XI
    (XI (XI (XI (XI (XI (XI (XI (XI (XI (XI (XI (XI
    XH)))))))))))))))))))) } :: ({ t_op = OLt; t_cmp = Float; t_chain = [];
    t_k = (KF (false, Z0, (Zneg (XI (XO (XI (XO (XI (XO (XO XH))))))))));
    t_act = (AFill (true, (Some (KI (Zpos (XI (XI (XI (XI (XI (XI (XI (XI (XI
    (XI (XI (XI (XI (XI (XI XH)))))))))))))))))))) } :: [])),
    (Ushort :: []))) } :: ({ f_dir = Put; f_pad = true; f_x = XUSHORT; f_i =
    Double; f_loop = LCall; f_body = (BTests (({ t_op = OGt; t_cmp = Double;
    t_chain = []; t_k = (KF (false, (Zpos (XO (XO (XO (XO (XO (XO (XO (XO (XO
    (XO (XO (XO (XO (XO (XO (XO (XO (XO (XO (XO (XO (XO (XO (XO (XO (XO (XO
    (XO (XO (XO (XO (XO (XO (XO (XO (XO (XO (XI (XI (XI (XI (XI (XI (XI (XI
    (XI (XI (XI (XI (XI (XI (XI
    XH))))))))))))))))))))))))))))))))))))))))))))))))))))), (Zneg (XI (XO
    (XI (XO (XO XH)))))))); t_act = (AFill (true, (Some (KI (Zpos (XI (XI (XI
    (XI (XI (XI (XI (XI (XI (XI (XI (XI (XI (XI (XI
    XH)))))))))))))))))))) } :: ({ t_op = OLt; t_cmp = Double; t_chain = [];
    t_k = (KF (false, Z0, (Zneg (XO (XI (XO (XO (XI (XI (XO (XO (XO (XO
    XH))))))))))))); t_act = (AFill (true, (Some (KI (Zpos (XI (XI (XI (XI
    (XI (XI (XI (XI (XI (XI (XI (XI (XI (XI (XI
    XH)))))))))))))))))))) } :: [])), (Ushort :: []))) } :: ({ f_dir = Put;
    f_pad = true; f_x = XUSHORT; f_i = Longlong; f_loop = LCall; f_body =
    (BTests (({ t_op = OGt; t_cmp = Longlong; t_chain = []; t_k = (KI (Zpos
    (XI (XI (XI (XI (XI (XI (XI (XI (XI (XI (XI (XI (XI (XI (XI
    XH))))))))))))))))); t_act = (AFill (true, (Some (KI (Zpos (XI (XI (XI
    (XI (XI (XI (XI (XI (XI (XI (XI (XI (XI (XI (XI
    XH)))))))))))))))))))) } :: ({ t_op = OLt; t_cmp = Longlong; t_chain =
    []; t_k = (KI Z0); t_act = (AFill (true, (Some (KI (Zpos (XI (XI (XI (XI
    (XI (XI (XI (XI (XI (XI (XI (XI (XI (XI (XI
    XH)))))))))))))))))))) } :: [])), (Ushort :: []))) } :: ({ f_dir = Put;
    f_pad = true; f_x = XUSHORT; f_i = Ulonglong; f_loop = LCall; f_body =
    (BTests (({ t_op = OGt; t_cmp = Ulonglong; t_chain = []; t_k = (KI (Zpos
    (XI (XI (XI (XI (XI (XI (XI (XI (XI (XI (XI (XI (XI (XI (XI
    XH))))))))))))))))); t_act = (AFill (true, (Some (KI (Zpos (XI (XI (XI
    (XI (XI (XI (XI (XI (XI (XI (XI (XI (XI (XI (XI
    XH)))))))))))))))))))) } :: []), (Ushort :: []))) } :: ({ f_dir = Get;
    f_pad = true; f_x = XBYTE; f_i = Schar; f_loop = LMemcpy; f_body =
    BIdent } :: ({ f_dir = Get; f_pad = true; f_x = XBYTE; f_i = Uchar;
    f_loop = LInline; f_body = (BTests (({ t_op = OLt; t_cmp = Int; t_chain =
    (Int :: []); t_k = (KI Z0); t_act = (AFill (false, (Some (KI (Zpos (XI
    (XI (XI (XI (XI (XI (XI XH)))))))))))) } :: []),
    (Int :: (Uchar :: [])))) } :: ({ f_dir = Get; f_pad = true; f_x = XBYTE;
    f_i = Short; f_loop = LInline; f_body = (BTests ([],
    (Short :: []))) } :: ({ f_dir = Get; f_pad = true; f_x = XBYTE; f_i =
    Ushort; f_loop = LInline; f_body = (BTests (({ t_op = OLt; t_cmp = Int;
    t_chain = (Int :: []); t_k = (KI Z0); t_act = (AFill (false, (Some (KI
    (Zpos (XI (XI (XI (XI (XI (XI (XI (XI (XI (XI (XI (XI (XI (XI (XI
    XH)))))))))))))))))))) } :: []),
    (Int :: (Ushort :: [])))) } :: ({ f_dir = Get; f_pad = true; f_x = XBYTE;
    f_i = Int; f_loop = LInline; f_body = (BTests ([],
    (Int :: []))) } :: ({ f_dir = Get; f_pad = true; f_x = XBYTE; f_i = Uint;
    f_loop = LInline; f_body = (BTests (({ t_op = OLt; t_cmp = Int; t_chain =
    (Int :: []); t_k = (KI Z0); t_act = (AFill (false, (Some (KI (Zpos (XI
    (XI (XI (XI (XI (XI (XI (XI (XI (XI (XI (XI (XI (XI (XI (XI (XI (XI (XI
    (XI (XI (XI (XI (XI (XI (XI (XI (XI (XI (XI (XI
    XH)))))))))))))))))))))))))))))))))))) } :: []),
    (Int :: (Uint :: [])))) } :: ({ f_dir = Get; f_pad = true; f_x = XBYTE;
    f_i = Long; f_loop = LInline; f_body = (BTests ([],
    (Long :: []))) } :: ({ f_dir = Get; f_pad = true; f_x = XBYTE; f_i =
    Float; f_loop = LInline; f_body = (BTests ([],
    (Float :: []))) } :: ({ f_dir = Get; f_pad = true; f_x = XBYTE; f_i =
    Double; f_loop = LInline; f_body = (BTests ([],
    (Double :: []))) } :: ({ f_dir = Get; f_pad = true; f_x = XBYTE; f_i =
    Longlong; f_loop = LInline; f_body = (BTests ([],
    (Longlong :: []))) } :: ({ f_dir = Get; f_pad = true; f_x = XBYTE; f_i =
    Ulonglong; f_loop = LInline; f_body = (BTests (({ t_op = OLt; t_cmp =
    Int; t_chain = (Int :: []); t_k = (KI Z0); t_act = (AFill (false, (Some
    (KI (Zpos (XO (XI (XI (XI (XI (XI (XI (XI (XI (XI (XI (XI (XI (XI (XI (XI
    (XI (XI (XI (XI (XI (XI (XI (XI (XI (XI (XI (XI (XI (XI (XI (XI (XI (XI
    (XI (XI (XI (XI (XI (XI (XI (XI (XI (XI (XI (XI (XI (XI (XI (XI (XI (XI
    (XI (XI (XI (XI (XI (XI (XI (XI (XI (XI (XI
    XH)))))))))))))))))))))))))))))))))))))))))))))))))))))))))))))))))))) } :: []),
    (Int :: (Ulonglong :: [])))) } :: ({ f_dir = Get; f_pad = true; f_x =
    XUBYTE; f_i = Schar; f_loop = LInline; f_body = (BTests (({ t_op = OGt;
    t_cmp = Int; t_chain = (Int :: []); t_k = (KI (Zpos (XI (XI (XI (XI (XI
    (XI XH)))))))); t_act = (AFill (false, (Some (KI (Zneg (XI (XI (XI (XI
    (XI (XI XH))))))))))) } :: []), (Schar :: []))) } :: ({ f_dir = Get;
    f_pad = true; f_x = XUBYTE; f_i = Uchar; f_loop = LMemcpy; f_body =
    BIdent } :: ({ f_dir = Get; f_pad = true; f_x = XUBYTE; f_i = Short;
    f_loop = LInline; f_body = (BTests ([], (Short :: []))) } :: ({ f_dir =
    Get; f_pad = true; f_x = XUBYTE; f_i = Ushort; f_loop = LInline; f_body =
    (BTests ([], (Ushort :: []))) } :: ({ f_dir = Get; f_pad = true; f_x =
    XUBYTE; f_i = Int; f_loop = LInline; f_body = (BTests ([],
    (Int :: []))) } :: ({ f_dir = Get; f_pad = true; f_x = XUBYTE; f_i =
    Uint; f_loop = LInline; f_body = (BTests ([],
    (Uint :: []))) } :: ({ f_dir = Get; f_pad = true; f_x = XUBYTE; f_i =
    Long; f_loop = LInline; f_body = (BTests ([],
    (Long :: []))) } :: ({ f_dir = Get; f_pad = true; f_x = XUBYTE; f_i =
    Float; f_loop = LInline; f_body = (BTests ([],
    (Float :: []))) } :: ({ f_dir = Get; f_pad = true; f_x = XUBYTE; f_i =
    Double; f_loop = LInline; f_body = (BTests ([],
    (Double :: []))) } :: ({ f_dir = Get; f_pad = true; f_x = XUBYTE; f_i =
    Longlong; f_loop = LInline; f_body = (BTests ([],
    (Longlong :: []))) } :: ({ f_dir = Get; f_pad = true; f_x = XUBYTE; f_i =
    Ulonglong; f_loop = LInline; f_body = (BTests ([],
    (Ulonglong :: []))) } :: ({ f_dir = Get; f_pad = true; f_x = XSHORT;
    f_i = Schar; f_loop = LCall; f_body = (BTests (({ t_op = OGt; t_cmp =
    Int; t_chain = (Int :: []); t_k = (KI (Zpos (XI (XI (XI (XI (XI (XI
    XH)))))))); t_act = (AFill (false, (Some (KI (Zneg (XI (XI (XI (XI (XI
    (XI XH))))))))))) } :: ({ t_op = OLt; t_cmp = Int; t_chain = (Int :: []);
    t_k = (KI (Zneg (XO (XO (XO (XO (XO (XO (XO XH))))))))); t_act = (AFill
    (false, (Some (KI (Zneg (XI (XI (XI (XI (XI (XI XH))))))))))) } :: [])),
    (Schar :: []))) } :: ({ f_dir = Get; f_pad = true; f_x = XSHORT; f_i =
    Uchar; f_loop = LCall; f_body = (BTests (({ t_op = OGt; t_cmp = Int;
    t_chain = (Int :: []); t_k = (KI (Zpos (XI (XI (XI (XI (XI (XI (XI
    XH))))))))); t_act = (AFill (false, (Some (KI (Zpos (XI (XI (XI (XI (XI
    (XI (XI XH)))))))))))) } :: ({ t_op = OLt; t_cmp = Int; t_chain =
    (Int :: []); t_k = (KI Z0); t_act = (AFill (false, (Some (KI (Zpos (XI
    (XI (XI (XI (XI (XI (XI XH)))))))))))) } :: [])),
    (Uchar :: []))) } :: ({ f_dir = Get; f_pad = true; f_x = XSHORT; f_i =
    Short; f_loop = LCall; f_body = BIdent } :: ({ f_dir = Get; f_pad = true;
    f_x = XSHORT; f_i = Ushort; f_loop = LCall; f_body = (BTests (({ t_op =
    OLt; t_cmp = Int; t_chain = (Int :: []); t_k = (KI Z0); t_act = (AFill
    (false, (Some (KI (Zpos (XI (XI (XI (XI (XI (XI (XI (XI (XI (XI (XI (XI
    (XI (XI (XI XH)))))))))))))))))))) } :: []),
    (Ushort :: []))) } :: ({ f_dir = Get; f_pad = true; f_x = XSHORT; f_i =
    Int; f_loop = LCall; f_body = (BTests ([], (Int :: []))) } :: ({ f_dir =
    Get; f_pad = true; f_x = XSHORT; f_i = Uint; f_loop = LCall; f_body =
    (BTests (({ t_op = OLt; t_cmp = Int; t_chain = (Int :: []); t_k = (KI
    Z0); t_act = (AFill (false, (Some (KI (Zpos (XI (XI (XI (XI (XI (XI (XI
    (XI (XI (XI (XI (XI (XI (XI (XI (XI (XI (XI (XI (XI (XI (XI (XI (XI (XI
    (XI (XI (XI (XI (XI (XI XH)))))))))))))))))))))))))))))))))))) } :: []),
    (Uint :: []))) } :: ({ f_dir = Get; f_pad = true; f_x = XSHORT; f_i =
    Long; f_loop = LCall; f_body = (BTests ([],
    (Long :: []))) } :: ({ f_dir = Get; f_pad = true; f_x = XSHORT; f_i =
    Float; f_loop = LCall; f_body = (BTests ([],
    (Float :: []))) } :: ({ f_dir = Get; f_pad = true; f_x = XSHORT; f_i =
    Double; f_loop = LCall; f_body = (BTests ([],
    (Double :: []))) } :: ({ f_dir = Get; f_pad = true; f_x = XSHORT; f_i =
    Longlong; f_loop = LCall; f_body = (BTests ([],
    (Longlong :: []))) } :: ({ f_dir = Get; f_pad = true; f_x = XSHORT; f_i =
    Ulonglong; f_loop = LCall; f_body = (BTests (({ t_op = OLt; t_cmp = Int;
    t_chain = (Int :: []); t_k = (KI Z0); t_act = (AFill (false, (Some (KI
    (Zpos (XO (XI (XI (XI (XI (XI (XI (XI (XI (XI (XI (XI (XI (XI (XI (XI (XI
    (XI (XI (XI (XI (XI (XI (XI (XI (XI (XI (XI (XI (XI (XI (XI (XI (XI (XI
    (XI (XI (XI (XI (XI (XI (XI (XI (XI (XI (XI (XI (XI (XI (XI (XI (XI (XI
    (XI (XI (XI (XI (XI (XI (XI (XI (XI (XI
    XH)))))))))))))))))))))))))))))))))))))))))))))))))))))))))))))))))))) } :: []),
    (Ulonglong :: []))) } :: ({ f_dir = Get; f_pad = true; f_x = XUSHORT;
    f_i = Schar; f_loop = LCall; f_body = (BTests (({ t_op = OGt; t_cmp =
    Int; t_chain = (Int :: []); t_k = (KI (Zpos (XI (XI (XI (XI (XI (XI
    XH)))))))); t_act = (AFill (false, (Some (KI (Zneg (XI (XI (XI (XI (XI
    (XI XH))))))))))) } :: []), (Schar :: []))) } :: ({ f_dir = Get; f_pad =
    true; f_x = XUSHORT; f_i = Uchar; f_loop = LCall; f_body = (BTests
    (({ t_op = OGt; t_cmp = Int; t_chain = (Int :: []); t_k = (KI (Zpos (XI
    (XI (XI (XI (XI (XI (XI XH))))))))); t_act = (AFill (false, (Some (KI
    (Zpos (XI (XI (XI (XI (XI (XI (XI XH)))))))))))) } :: []),
    (Uchar :: []))) } :: ({ f_dir = Get; f_pad = true; f_x = XUSHORT; f_i =
    Short; f_loop = LCall; f_body = (BTests (({ t_op = OGt; t_cmp = Int;
    t_chain = (Int :: []); t_k = (KI (Zpos (XI (XI (XI (XI (XI (XI (XI (XI
    (XI (XI (XI (XI (XI (XI XH)))))))))))))))); t_act = (AFill (false, (Some
    (KI (Zneg (XI (XI (XI (XI (XI (XI (XI (XI (XI (XI (XI (XI (XI (XI
    XH))))))))))))))))))) } :: []), (Short :: []))) } :: ({ f_dir = Get;
    f_pad = true; f_x = XUSHORT; f_i = Ushort; f_loop = LCall; f_body =
    BIdent } :: ({ f_dir = Get; f_pad = true; f_x = XUSHORT; f_i = Int;
    f_loop = LCall; f_body = (BTests ([], (Int :: []))) } :: ({ f_dir = Get;
    f_pad = true; f_x = XUSHORT; f_i = Uint; f_loop = LCall; f_body = (BTests
    ([], (Uint :: []))) } :: ({ f_dir = Get; f_pad = true; f_x = XUSHORT;
    f_i = Long; f_loop = LCall; f_body = (BTests ([],
    (Long :: []))) } :: ({ f_dir = Get; f_pad = true; f_x = XUSHORT; f_i =
    Float; f_loop = LCall; f_body = (BTests ([],
    (Float :: []))) } :: ({ f_dir = Get; f_pad = true; f_x = XUSHORT; f_i =
    Double; f_loop = LCall; f_body = (BTests ([],
    (Double :: []))) } :: ({ f_dir = Get; f_pad = true; f_x = XUSHORT; f_i =
    Longlong; f_loop = LCall; f_body = (BTests ([],
    (Longlong :: []))) } :: ({ f_dir = Get; f_pad = true; f_x = XUSHORT;
    f_i = Ulonglong; f_loop = LCall; f_body = (BTests ([],
    (Ulonglong :: []))) } :: [])))))))))))))))))))))))))))))))))))))))))))))))))))))))))))))))))))))))))))))))))))))))))))))))))))))))))))))))))))))))))))))))))))))))))))))))))))))))))))))))))))))))))))))))))))))))))))))))))))))))))))))))))))))))))))))))))))))))))))))))))))))))))))))))))))))))))))))))))))))))))))))))))))))))))))))))))))

(** val ncx_unrecognised : nat **)

let ncx_unrecognised =
  O

(** val is_float : cty -> bool **)

let is_float = function
| Float -> true
| Double -> true
| _ -> false

(** val ibits : cty -> z **)

let ibits = function
| Schar -> Zpos (XO (XO (XO XH)))
| Uchar -> Zpos (XO (XO (XO XH)))
| Short -> Zpos (XO (XO (XO (XO XH))))
| Ushort -> Zpos (XO (XO (XO (XO XH))))
| Int -> Zpos (XO (XO (XO (XO (XO XH)))))
| Uint -> Zpos (XO (XO (XO (XO (XO XH)))))
| _ -> Zpos (XO (XO (XO (XO (XO (XO XH))))))

(** val isigned : cty -> bool **)

let isigned = function
| Schar -> true
| Short -> true
| Int -> true
| Long -> true
| Longlong -> true
| _ -> false

(** val imin : cty -> z **)

let imin t =
  if isigned t
  then Z.opp (Z.pow (Zpos (XO XH)) (Z.sub (ibits t) (Zpos XH)))
  else Z0

(** val imax : cty -> z **)

let imax t =
  if isigned t
  then Z.sub (Z.pow (Zpos (XO XH)) (Z.sub (ibits t) (Zpos XH))) (Zpos XH)
  else Z.sub (Z.pow (Zpos (XO XH)) (ibits t)) (Zpos XH)

(** val wrap : cty -> z -> z **)

let wrap t z0 =
  let m = Z.pow (Zpos (XO XH)) (ibits t) in
  let r = Z.modulo z0 m in
  if (&&) (isigned t) (Z.leb (Z.div m (Zpos (XO XH))) r) then Z.sub r m else r

(** val fprec : cty -> z **)

let fprec = function
| Float -> Zpos (XO (XO (XO (XI XH))))
| _ -> Zpos (XI (XO (XI (XO (XI XH)))))

(** val femin : cty -> z **)

let femin = function
| Float -> Zneg (XI (XO (XI (XO (XI (XO (XO XH)))))))
| _ -> Zneg (XO (XI (XO (XO (XI (XI (XO (XO (XO (XO XH))))))))))

(** val femax : cty -> z **)

let femax = function
| Float -> Zpos (XO (XO (XO (XI (XO (XI XH))))))
| _ -> Zpos (XI (XI (XO (XI (XO (XO (XI (XI (XI XH)))))))))

(** val cty_eqb : cty -> cty -> bool **)

let cty_eqb a b =
  match a with
  | Schar -> (match b with
              | Schar -> true
              | _ -> false)
  | Uchar -> (match b with
              | Uchar -> true
              | _ -> false)
  | Short -> (match b with
              | Short -> true
              | _ -> false)
  | Ushort -> (match b with
               | Ushort -> true
               | _ -> false)
  | Int -> (match b with
            | Int -> true
            | _ -> false)
  | Uint -> (match b with
             | Uint -> true
             | _ -> false)
  | Long -> (match b with
             | Long -> true
             | _ -> false)
  | Ulong -> (match b with
              | Ulong -> true
              | _ -> false)
  | Longlong -> (match b with
                 | Longlong -> true
                 | _ -> false)
  | Ulonglong -> (match b with
                  | Ulonglong -> true
                  | _ -> false)
  | Float -> (match b with
              | Float -> true
              | _ -> false)
  | Double -> (match b with
               | Double -> true
               | _ -> false)

(** val xty_eqb : xty -> xty -> bool **)

let xty_eqb a b =
  match a with
  | XBYTE -> (match b with
              | XBYTE -> true
              | _ -> false)
  | XUBYTE -> (match b with
               | XUBYTE -> true
               | _ -> false)
  | XSHORT -> (match b with
               | XSHORT -> true
               | _ -> false)
  | XUSHORT -> (match b with
                | XUSHORT -> true
                | _ -> false)
  | XINT -> (match b with
             | XINT -> true
             | _ -> false)
  | XUINT -> (match b with
              | XUINT -> true
              | _ -> false)
  | XFLOAT -> (match b with
               | XFLOAT -> true
               | _ -> false)
  | XDOUBLE -> (match b with
                | XDOUBLE -> true
                | _ -> false)
  | XINT64 -> (match b with
               | XINT64 -> true
               | _ -> false)
  | XUINT64 -> (match b with
                | XUINT64 -> true
                | _ -> false)

(** val xcty : xty -> cty **)

let xcty = function
| XBYTE -> Schar
| XUBYTE -> Uchar
| XSHORT -> Short
| XUSHORT -> Ushort
| XINT -> Int
| XUINT -> Uint
| XFLOAT -> Float
| XDOUBLE -> Double
| XINT64 -> Longlong
| XUINT64 -> Ulonglong

(** val xsize : xty -> z **)

let xsize x =
  if is_float (xcty x)
  then if cty_eqb (xcty x) Float
       then Zpos (XO (XO XH))
       else Zpos (XO (XO (XO XH)))
  else Z.div (ibits (xcty x)) (Zpos (XO (XO (XO XH))))

type val0 =
| VI of z
| VF of bool * z * z
| VInf of bool
| VNaN

(** val dy_cmp : z -> z -> z -> z -> comparison **)

let dy_cmp m1 e1 m2 e2 =
  let e0 = Z.min e1 e2 in
  Z.compare (Z.mul m1 (Z.pow (Zpos (XO XH)) (Z.sub e1 e0)))
    (Z.mul m2 (Z.pow (Zpos (XO XH)) (Z.sub e2 e0)))

(** val smant : bool -> z -> z **)

let smant neg m =
  if neg then Z.opp m else m

(** val vcmp : val0 -> val0 -> comparison option **)

let vcmp a b =
  match a with
  | VI x ->
    (match b with
     | VI y -> Some (Z.compare x y)
     | VF (n, m, e) -> Some (dy_cmp x Z0 (smant n m) e)
     | VInf nb -> Some (if nb then Gt else Lt)
     | VNaN -> None)
  | VF (n1, m1, e1) ->
    (match b with
     | VI y -> Some (dy_cmp (smant n1 m1) e1 y Z0)
     | VF (n2, m2, e2) -> Some (dy_cmp (smant n1 m1) e1 (smant n2 m2) e2)
     | VInf nb -> Some (if nb then Gt else Lt)
     | VNaN -> None)
  | VInf na ->
    (match b with
     | VInf nb ->
       Some (if na then if nb then Eq else Lt else if nb then Gt else Eq)
     | VNaN -> None
     | _ -> Some (if na then Lt else Gt))
  | VNaN -> None

(** val test_op : cop -> comparison option -> bool **)

let test_op op = function
| Some c0 ->
  (match op with
   | OGt -> (match c0 with
             | Gt -> true
             | _ -> false)
   | OLt -> (match c0 with
             | Lt -> true
             | _ -> false)
   | OGe -> (match c0 with
             | Lt -> false
             | _ -> true)
   | OLe -> (match c0 with
             | Gt -> false
             | _ -> true)
   | OEq -> (match c0 with
             | Eq -> true
             | _ -> false)
   | ONe -> (match c0 with
             | Eq -> false
             | _ -> true))
| None -> (match op with
           | ONe -> true
           | _ -> false)

(** val ftrunc : bool -> z -> z -> z **)

let ftrunc neg m e =
  let a =
    if Z.leb Z0 e
    then Z.mul m (Z.pow (Zpos (XO XH)) e)
    else Z.div m (Z.pow (Zpos (XO XH)) (Z.opp e))
  in
  if neg then Z.opp a else a

(** val rne : cty -> bool -> z -> z -> val0 **)

let rne t neg m e =
  if Z.eqb m Z0
  then VF (neg, Z0, (femin t))
  else let p = fprec t in
       let l = Z.add (Z.log2 m) (Zpos XH) in
       let e' = Z.max (Z.sub (Z.add e l) p) (femin t) in
       if Z.leb e' e
       then if Z.ltb (femax t) e'
            then VInf neg
            else VF (neg, (Z.mul m (Z.pow (Zpos (XO XH)) (Z.sub e e'))), e')
       else let sh = Z.sub e' e in
            let q = Z.div m (Z.pow (Zpos (XO XH)) sh) in
            let r = Z.modulo m (Z.pow (Zpos (XO XH)) sh) in
            let half = Z.pow (Zpos (XO XH)) (Z.sub sh (Zpos XH)) in
            let q' =
              if (||) (Z.ltb half r) ((&&) (Z.eqb r half) (Z.odd q))
              then Z.add q (Zpos XH)
              else q
            in
            if Z.eqb q' (Z.pow (Zpos (XO XH)) p)
            then let q'' = Z.pow (Zpos (XO XH)) (Z.sub p (Zpos XH)) in
                 let e'' = Z.add e' (Zpos XH) in
                 if Z.ltb (femax t) e'' then VInf neg else VF (neg, q'', e'')
            else if Z.ltb (femax t) e' then VInf neg else VF (neg, q', e')

(** val cconv : cty -> val0 -> val0 option **)

let cconv to0 v = match v with
| VI z0 ->
  if is_float to0
  then Some (rne to0 (Z.ltb z0 Z0) (Z.abs z0) Z0)
  else Some (VI (wrap to0 z0))
| VF (n, m, e) ->
  if is_float to0
  then (match to0 with
        | Double -> Some v
        | _ -> Some (rne to0 n m e))
  else let z0 = ftrunc n m e in
       if (&&) (Z.leb (imin to0) z0) (Z.leb z0 (imax to0))
       then Some (VI z0)
       else None
| _ -> if is_float to0 then Some v else None

(** val cchain : cty list -> val0 -> val0 option **)

let rec cchain ch v =
  match ch with
  | [] -> Some v
  | t :: r -> (match cconv t v with
               | Some v' -> cchain r v'
               | None -> None)

(** val kval : kconst -> val0 **)

let kval = function
| KI z0 -> VI z0
| KF (n, m, e) -> VF (n, m, e)

type res =
| ROk of val0
| RRange of val0 option
| RUndef
| RUnrec

(** val do_act : cact -> val0 option -> res **)

let do_act a fillp =
  match a with
  | AFill (p, d) ->
    RRange
      (match if p then fillp else None with
       | Some f -> Some f
       | None -> option_map kval d)
  | AStore k -> ROk (kval k)

(** val chain_ty : cty -> cty list -> cty **)

let chain_ty src ch =
  last ch src

(** val run_tests : cty -> ctest list -> val0 option -> val0 -> res -> res **)

let rec run_tests src ts fillp v dflt =
  match ts with
  | [] -> dflt
  | t :: r ->
    if negb (cty_eqb (chain_ty src t.t_chain) t.t_cmp)
    then RUnrec
    else (match cchain t.t_chain v with
          | Some l ->
            if test_op t.t_op (vcmp l (kval t.t_k))
            then do_act t.t_act fillp
            else run_tests src r fillp v dflt
          | None -> RUndef)

(** val src_ty : cfun -> cty **)

let src_ty f =
  match f.f_dir with
  | Put -> f.f_i
  | Get -> xcty f.f_x

(** val dst_ty : cfun -> cty **)

let dst_ty f =
  match f.f_dir with
  | Put -> xcty f.f_x
  | Get -> f.f_i

(** val ext_bytes : bool -> cty -> val0 -> res **)

let ext_bytes sext dst = function
| VI z0 ->
  let lo = Z.modulo z0 (Zpos (XO (XO (XO (XO (XO (XO (XO (XO XH))))))))) in
  let u =
    if (&&) sext (Z.leb (Zpos (XO (XO (XO (XO (XO (XO (XO XH)))))))) lo)
    then Z.add
           (Z.sub (Z.pow (Zpos (XO XH)) (ibits dst)) (Zpos (XO (XO (XO (XO
             (XO (XO (XO (XO XH)))))))))) lo
    else lo
  in
  ROk (VI (wrap dst u))
| _ -> RUnrec

(** val conv1 : cfun -> val0 option -> val0 -> res **)

let conv1 f fillp v =
  match f.f_body with
  | BIdent -> ROk v
  | BTests (ts, casts) ->
    if negb (cty_eqb (chain_ty (src_ty f) casts) (dst_ty f))
    then RUnrec
    else run_tests (src_ty f) ts fillp v
           (match cchain casts v with
            | Some r -> ROk r
            | None -> RUndef)
  | BSext ts -> run_tests (src_ty f) ts fillp v (ext_bytes true (dst_ty f) v)
  | BZext ts -> run_tests (src_ty f) ts fillp v (ext_bytes false (dst_ty f) v)
  | BUnrec -> RUnrec

(** val nC_NOERR : z **)

let nC_NOERR =
  Z0

(** val nC_ERANGE : z **)

let nC_ERANGE =
  Zneg (XO (XO (XI (XI (XI XH)))))

(** val nC_ECHAR : z **)

let nC_ECHAR =
  Zneg (XO (XO (XO (XI (XI XH)))))

(** val status1 : res -> z **)

let status1 = function
| RRange _ -> nC_ERANGE
| _ -> nC_NOERR

(** val loop_status : cloop -> res list -> z **)

let loop_status l rs =
  match l with
  | LCall ->
    fold_left (fun st r -> if Z.eqb st nC_NOERR then status1 r else st) rs
      nC_NOERR
  | LInline ->
    fold_left (fun st r -> match r with
                           | RRange _ -> nC_ERANGE
                           | _ -> st) rs nC_NOERR
  | _ -> nC_NOERR

(** val convn : cfun -> val0 option -> val0 list -> z * res list **)

let convn f fillp vs =
  match f.f_loop with
  | LUnrec -> (nC_NOERR, (map (fun _ -> RUnrec) vs))
  | x -> let rs = map (conv1 f fillp) vs in ((loop_status x rs), rs)

(** val dir_eqb : cdir -> cdir -> bool **)

let dir_eqb a b =
  match a with
  | Put -> (match b with
            | Put -> true
            | Get -> false)
  | Get -> (match b with
            | Put -> false
            | Get -> true)

(** val key_eqb : cfun -> cdir -> bool -> xty -> cty -> bool **)

let key_eqb f d pad x i =
  (&&) ((&&) ((&&) (dir_eqb f.f_dir d) (eqb f.f_pad pad)) (xty_eqb f.f_x x))
    (cty_eqb f.f_i i)

(** val lookup : cdir -> bool -> xty -> cty -> cfun option **)

let lookup d pad x i =
  find (fun f -> key_eqb f d pad x i) ncx_table

(** val all_x : xty list **)

let all_x =
  XBYTE :: (XUBYTE :: (XSHORT :: (XUSHORT :: (XINT :: (XUINT :: (XFLOAT :: (XDOUBLE :: (XINT64 :: (XUINT64 :: [])))))))))

(** val all_i : cty list **)

let all_i =
  Schar :: (Uchar :: (Short :: (Ushort :: (Int :: (Uint :: (Long :: (Float :: (Double :: (Longlong :: (Ulonglong :: []))))))))))

(** val fill_of_cty : cty -> val0 **)

let fill_of_cty = function
| Schar -> VI (Zneg (XI (XI (XI (XI (XI (XI XH)))))))
| Uchar -> VI (Zpos (XI (XI (XI (XI (XI (XI (XI XH))))))))
| Short ->
  VI (Zneg (XI (XI (XI (XI (XI (XI (XI (XI (XI (XI (XI (XI (XI (XI
    XH)))))))))))))))
| Ushort ->
  VI (Zpos (XI (XI (XI (XI (XI (XI (XI (XI (XI (XI (XI (XI (XI (XI (XI
    XH))))))))))))))))
| Int ->
  VI (Zneg (XI (XI (XI (XI (XI (XI (XI (XI (XI (XI (XI (XI (XI (XI (XI (XI
    (XI (XI (XI (XI (XI (XI (XI (XI (XI (XI (XI (XI (XI (XI
    XH)))))))))))))))))))))))))))))))
| Long ->
  VI (Zneg (XI (XI (XI (XI (XI (XI (XI (XI (XI (XI (XI (XI (XI (XI (XI (XI
    (XI (XI (XI (XI (XI (XI (XI (XI (XI (XI (XI (XI (XI (XI
    XH)))))))))))))))))))))))))))))))
| Longlong ->
  VI (Zneg (XO (XI (XI (XI (XI (XI (XI (XI (XI (XI (XI (XI (XI (XI (XI (XI
    (XI (XI (XI (XI (XI (XI (XI (XI (XI (XI (XI (XI (XI (XI (XI (XI (XI (XI
    (XI (XI (XI (XI (XI (XI (XI (XI (XI (XI (XI (XI (XI (XI (XI (XI (XI (XI
    (XI (XI (XI (XI (XI (XI (XI (XI (XI (XI
    XH)))))))))))))))))))))))))))))))))))))))))))))))))))))))))))))))
| Ulonglong ->
  VI (Zpos (XO (XI (XI (XI (XI (XI (XI (XI (XI (XI (XI (XI (XI (XI (XI (XI
    (XI (XI (XI (XI (XI (XI (XI (XI (XI (XI (XI (XI (XI (XI (XI (XI (XI (XI
    (XI (XI (XI (XI (XI (XI (XI (XI (XI (XI (XI (XI (XI (XI (XI (XI (XI (XI
    (XI (XI (XI (XI (XI (XI (XI (XI (XI (XI (XI
    XH))))))))))))))))))))))))))))))))))))))))))))))))))))))))))))))))
| Float ->
  VF (false, (Zpos (XO (XO (XO (XO (XO (XO (XO (XO (XO (XO (XO (XO (XO (XO
    (XO (XO (XO (XO (XO (XO (XI (XI (XI XH)))))))))))))))))))))))), (Zpos (XI
    (XI (XO (XO (XO (XI XH))))))))
| Double ->
  VF (false, (Zpos (XO (XO (XO (XO (XO (XO (XO (XO (XO (XO (XO (XO (XO (XO
    (XO (XO (XO (XO (XO (XO (XO (XO (XO (XO (XO (XO (XO (XO (XO (XO (XO (XO
    (XO (XO (XO (XO (XO (XO (XO (XO (XO (XO (XO (XO (XO (XO (XO (XO (XO (XI
    (XI (XI XH))))))))))))))))))))))))))))))))))))))))))))))))))))), (Zpos
    (XO (XI (XI (XO (XO (XO XH))))))))
| _ ->
  VI (Zpos (XI (XI (XI (XI (XI (XI (XI (XI (XI (XI (XI (XI (XI (XI (XI (XI
    (XI (XI (XI (XI (XI (XI (XI (XI (XI (XI (XI (XI (XI (XI (XI
    XH))))))))))))))))))))))))))))))))

(** val spec_default_fill : xty -> val0 **)

let spec_default_fill x =
  fill_of_cty (xcty x)

(** val fmax_m : cty -> z **)

let fmax_m t =
  Z.sub (Z.pow (Zpos (XO XH)) (fprec t)) (Zpos XH)

(** val spec_in_range : cty -> val0 -> bool **)

let spec_in_range dst = function
| VI z0 ->
  if is_float dst
  then true
  else (&&) (Z.leb (imin dst) z0) (Z.leb z0 (imax dst))
| VF (n, m, e) ->
  if is_float dst
  then (&&)
         (match dy_cmp (smant n m) e (Z.opp (fmax_m dst)) (femax dst) with
          | Lt -> false
          | _ -> true)
         (match dy_cmp (smant n m) e (fmax_m dst) (femax dst) with
          | Gt -> false
          | _ -> true)
  else (&&)
         (match dy_cmp (smant n m) e (imin dst) Z0 with
          | Lt -> false
          | _ -> true)
         (match dy_cmp (smant n m) e (imax dst) Z0 with
          | Gt -> false
          | _ -> true)
| VInf _ -> false
| VNaN -> is_float dst

(** val spec_value : cty -> val0 -> val0 **)

let spec_value dst v = match v with
| VI z0 -> if is_float dst then rne dst (Z.ltb z0 Z0) (Z.abs z0) Z0 else VI z0
| VF (n, m, e) ->
  if is_float dst
  then (match dst with
        | Double -> v
        | _ -> rne dst n m e)
  else VI (ftrunc n m e)
| _ -> v

(** val spec_fill : cdir -> cty -> val0 option -> val0 **)

let spec_fill d dst fillp =
  match d with
  | Put -> (match fillp with
            | Some f -> f
            | None -> fill_of_cty dst)
  | Get -> fill_of_cty dst

(** val same_repr : cty -> cty -> bool **)

let same_repr a b =
  if (||) (is_float a) (is_float b)
  then cty_eqb a b
  else (&&) (Z.eqb (ibits a) (ibits b)) (eqb (isigned a) (isigned b))

(** val spec_conv : cdir -> cty -> cty -> val0 option -> val0 -> res **)

let spec_conv d src dst fillp v =
  if same_repr src dst
  then ROk v
  else if spec_in_range dst v
       then ROk (spec_value dst v)
       else RRange (Some (spec_fill d dst fillp))

(** val spec_erange : cty -> cty -> val0 -> bool **)

let spec_erange src dst v =
  (&&) (negb (same_repr src dst)) (negb (spec_in_range dst v))

(** val spec_convn :
    cdir -> cty -> cty -> val0 option -> val0 list -> z * res list **)

let spec_convn d src dst fillp vs =
  ((if existsb (spec_erange src dst) vs then nC_ERANGE else nC_NOERR),
    (map (spec_conv d src dst fillp) vs))

type mty =
| MText
| MNum of cty

type nct =
| NChar
| NNum of xty

type route =
| RtEchar
| RtCopy
| RtSwap
| RtEntry of cfun option

(** val same_type : xty -> cty -> bool **)

let same_type x t =
  let t' = match t with
           | Long -> Longlong
           | _ -> t in cty_eqb (xcty x) t'

(** val route_var : z -> cdir -> nct -> mty -> route **)

let route_var fmt d x m =
  match x with
  | NChar -> (match m with
              | MText -> RtCopy
              | MNum _ -> RtEchar)
  | NNum x0 ->
    (match m with
     | MText -> RtEchar
     | MNum t ->
       if (&&) ((&&) (Z.ltb fmt (Zpos (XI (XO XH)))) (xty_eqb x0 XBYTE))
            (cty_eqb t Uchar)
       then RtCopy
       else if same_type x0 t
            then if Z.eqb (xsize x0) (Zpos XH) then RtCopy else RtSwap
            else RtEntry (lookup d false x0 t))

(** val att_pad : xty -> bool **)

let att_pad = function
| XBYTE -> true
| XUBYTE -> true
| XSHORT -> true
| XUSHORT -> true
| _ -> false

(** val route_att : z -> cdir -> nct -> mty -> route **)

let route_att fmt d x m =
  match x with
  | NChar -> (match m with
              | MText -> RtCopy
              | MNum _ -> RtEchar)
  | NNum x0 ->
    (match m with
     | MText -> RtEchar
     | MNum t ->
       let t' = match t with
                | Long -> Longlong
                | _ -> t in
       let x' =
         if (&&) ((&&) (Z.ltb fmt (Zpos (XI (XO XH)))) (xty_eqb x0 XBYTE))
              (cty_eqb t' Uchar)
         then XUBYTE
         else x0
       in
       RtEntry (lookup d (att_pad x') x' t'))

(** val reinterpret : cty -> val0 -> val0 **)

let reinterpret dst v = match v with
| VI z0 -> if is_float dst then v else VI (wrap dst z0)
| _ -> v

(** val map_ok : (val0 -> val0) -> res -> res **)

let map_ok g r = match r with
| ROk v -> ROk (g v)
| _ -> r

(** val run_route :
    route -> cty -> val0 option -> val0 list -> z * res list **)

let run_route r dstt fillp vs =
  match r with
  | RtEchar -> (nC_ECHAR, [])
  | RtEntry f0 ->
    (match f0 with
     | Some f -> convn f fillp vs
     | None -> (nC_NOERR, (map (fun _ -> RUnrec) vs)))
  | _ -> (nC_NOERR, (map (fun v -> ROk (reinterpret dstt v)) vs))

(** val api_src : cdir -> xty -> cty -> cty **)

let api_src d x t =
  match d with
  | Put -> t
  | Get -> xcty x

(** val api_dst : cdir -> xty -> cty -> cty **)

let api_dst d x t =
  match d with
  | Put -> xcty x
  | Get -> t

(** val exempt : z -> xty -> cty -> bool **)

let exempt fmt x t =
  (&&) ((&&) (Z.ltb fmt (Zpos (XI (XO XH)))) (xty_eqb x XBYTE))
    (cty_eqb t Uchar)

(** val api_var :
    z -> cdir -> nct -> mty -> val0 option -> val0 list -> z * res list **)

let api_var fmt d x m var_fill vs =
  match x with
  | NChar -> run_route (route_var fmt d x m) Schar None vs
  | NNum x' ->
    (match m with
     | MText -> run_route (route_var fmt d x m) Schar None vs
     | MNum t ->
       run_route (route_var fmt d x m) (api_dst d x' t) (Some
         (match var_fill with
          | Some f -> f
          | None -> spec_default_fill x')) vs)

(** val api_att : z -> cdir -> nct -> mty -> val0 list -> z * res list **)

let api_att fmt d x m vs =
  match x with
  | NChar -> run_route (route_att fmt d x m) Schar None vs
  | NNum x' ->
    (match m with
     | MText -> run_route (route_att fmt d x m) Schar None vs
     | MNum t ->
       if exempt fmt x' t
       then let (st, rs) =
              run_route (route_att fmt d x m) Uchar (Some
                (spec_default_fill XUBYTE)) (map (reinterpret Uchar) vs)
            in
            (st, (map (map_ok (reinterpret (api_dst d x' t))) rs))
       else run_route (route_att fmt d x m) (api_dst d x' t) (Some
              (spec_default_fill x')) vs)

(** val spec_api :
    z -> cdir -> nct -> mty -> val0 option -> val0 list -> z * res list **)

let spec_api fmt d x m fill vs =
  match x with
  | NChar ->
    (match m with
     | MText -> (nC_NOERR, (map (fun v -> ROk v) vs))
     | MNum _ -> (nC_ECHAR, []))
  | NNum x' ->
    (match m with
     | MText -> (nC_ECHAR, [])
     | MNum t ->
       if exempt fmt x' t
       then (nC_NOERR,
              (map (fun v -> ROk (reinterpret (api_dst d x' t) v)) vs))
       else spec_convn d (api_src d x' t) (api_dst d x' t)
              (match d with
               | Put ->
                 Some
                   (match fill with
                    | Some f -> f
                    | None -> spec_default_fill x')
               | Get -> None) vs)

(** val fbits : cty -> val0 -> z **)

let fbits t v =
  let p = fprec t in
  let ebits =
    match t with
    | Float -> Zpos (XO (XO (XO XH)))
    | _ -> Zpos (XI (XI (XO XH)))
  in
  let sign = fun n ->
    if n then Z.pow (Zpos (XO XH)) (Z.add (Z.sub p (Zpos XH)) ebits) else Z0
  in
  (match v with
   | VI _ -> Zneg XH
   | VF (n, m, e) ->
     if Z.eqb m Z0
     then sign n
     else let sh =
            Z.min (Z.sub (Z.sub p (Zpos XH)) (Z.log2 m)) (Z.sub e (femin t))
          in
          let m' = Z.mul m (Z.pow (Zpos (XO XH)) sh) in
          let e' = Z.sub e sh in
          if Z.ltb m' (Z.pow (Zpos (XO XH)) (Z.sub p (Zpos XH)))
          then Z.add (sign n) m'
          else Z.add
                 (Z.add (sign n)
                   (Z.mul (Z.add (Z.sub e' (femin t)) (Zpos XH))
                     (Z.pow (Zpos (XO XH)) (Z.sub p (Zpos XH)))))
                 (Z.sub m' (Z.pow (Zpos (XO XH)) (Z.sub p (Zpos XH))))
   | VInf n ->
     Z.add (sign n)
       (Z.mul (Z.sub (Z.pow (Zpos (XO XH)) ebits) (Zpos XH))
         (Z.pow (Zpos (XO XH)) (Z.sub p (Zpos XH))))
   | VNaN ->
     Z.add
       (Z.mul (Z.sub (Z.pow (Zpos (XO XH)) ebits) (Zpos XH))
         (Z.pow (Zpos (XO XH)) (Z.sub p (Zpos XH))))
       (Z.pow (Zpos (XO XH)) (Z.sub p (Zpos (XO XH)))))

(** val of_fbits : cty -> z -> val0 **)

let of_fbits t b =
  let p = fprec t in
  let ebits =
    match t with
    | Float -> Zpos (XO (XO (XO XH)))
    | _ -> Zpos (XI (XI (XO XH)))
  in
  let n = Z.leb (Z.pow (Zpos (XO XH)) (Z.add (Z.sub p (Zpos XH)) ebits)) b in
  let b' = Z.modulo b (Z.pow (Zpos (XO XH)) (Z.add (Z.sub p (Zpos XH)) ebits))
  in
  let be = Z.div b' (Z.pow (Zpos (XO XH)) (Z.sub p (Zpos XH))) in
  let fr = Z.modulo b' (Z.pow (Zpos (XO XH)) (Z.sub p (Zpos XH))) in
  if Z.eqb be (Z.sub (Z.pow (Zpos (XO XH)) ebits) (Zpos XH))
  then if Z.eqb fr Z0 then VInf n else VNaN
  else if Z.eqb be Z0
       then VF (n, fr, (femin t))
       else VF (n, (Z.add fr (Z.pow (Zpos (XO XH)) (Z.sub p (Zpos XH)))),
              (Z.add (Z.sub be (Zpos XH)) (femin t)))

(** val val_of_code : cty -> z -> val0 **)

let val_of_code t c =
  if is_float t then of_fbits t c else VI c

(** val code_of_val : cty -> val0 -> z **)

let code_of_val t v =
  if is_float t then fbits t v else (match v with
                                     | VI z0 -> z0
                                     | _ -> Zneg XH)

(** val res_code : cty -> res -> z * z **)

let res_code t = function
| ROk v -> (Z0, (code_of_val t v))
| RRange f ->
  (match f with
   | Some v -> ((Zpos XH), (code_of_val t v))
   | None -> ((Zpos (XO XH)), Z0))
| RUndef -> ((Zpos (XI XH)), Z0)
| RUnrec -> ((Zpos (XO (XO XH))), Z0)

(** val model1 : bool -> bool -> z -> z -> bool -> z -> z -> z * z **)

let model1 put pad xi ii has_fill fillc c =
  let d = if put then Put else Get in
  (match nth_error all_x (Z.to_nat xi) with
   | Some x ->
     (match nth_error all_i (Z.to_nat ii) with
      | Some i ->
        (match lookup d pad x i with
         | Some f ->
           res_code (dst_ty f)
             (conv1 f
               (if has_fill then Some (val_of_code (dst_ty f) fillc) else None)
               (val_of_code (src_ty f) c))
         | None -> ((Zpos (XO (XO XH))), Z0))
      | None -> ((Zpos (XO (XO XH))), Z0))
   | None -> ((Zpos (XO (XO XH))), Z0))

(** val spec1 : bool -> z -> z -> bool -> z -> z -> z * z **)

let spec1 put xi ii has_fill fillc c =
  let d = if put then Put else Get in
  (match nth_error all_x (Z.to_nat xi) with
   | Some x ->
     (match nth_error all_i (Z.to_nat ii) with
      | Some i ->
        let src = api_src d x i in
        let dst = api_dst d x i in
        res_code dst
          (spec_conv d src dst
            (if has_fill then Some (val_of_code dst fillc) else None)
            (val_of_code src c))
      | None -> ((Zpos (XO (XO XH))), Z0))
   | None -> ((Zpos (XO (XO XH))), Z0))

(** val nct_of : z -> nct **)

let nct_of xi =
  match nth_error all_x (Z.to_nat xi) with
  | Some x -> NNum x
  | None -> NChar

(** val mty_of : z -> mty **)

let mty_of ii =
  match nth_error all_i (Z.to_nat ii) with
  | Some t -> MNum t
  | None -> MText

(** val api_types : cdir -> nct -> mty -> cty * cty **)

let api_types d x m =
  match x with
  | NChar -> (Schar, Schar)
  | NNum x' ->
    (match m with
     | MText -> (Schar, Schar)
     | MNum t -> ((api_src d x' t), (api_dst d x' t)))

(** val api_model :
    bool -> bool -> z -> z -> z -> bool -> z -> z list -> z * (z * z) list **)

let api_model isatt put fmt xi ii has_fill fillc cs =
  let d = if put then Put else Get in
  let x = nct_of xi in
  let m = mty_of ii in
  let (src, dst) = api_types d x m in
  let vs = map (val_of_code src) cs in
  let fill = if has_fill then Some (val_of_code dst fillc) else None in
  let (st, rs) =
    if isatt then api_att fmt d x m vs else api_var fmt d x m fill vs
  in
  (st, (map (res_code dst) rs))

(** val api_spec :
    bool -> z -> z -> z -> bool -> z -> z list -> z * (z * z) list **)

let api_spec put fmt xi ii has_fill fillc cs =
  let d = if put then Put else Get in
  let x = nct_of xi in
  let m = mty_of ii in
  let (src, dst) = api_types d x m in
  let vs = map (val_of_code src) cs in
  let fill = if has_fill then Some (val_of_code dst fillc) else None in
  let (st, rs) = spec_api fmt d x m fill vs in (st, (map (res_code dst) rs))

(** val leaf_model :
    bool -> bool -> z -> z -> bool -> z -> z list -> z * (z * z) list **)

let leaf_model put pad xi ii has_fill fillc cs =
  let d = if put then Put else Get in
  (match nth_error all_x (Z.to_nat xi) with
   | Some x ->
     (match nth_error all_i (Z.to_nat ii) with
      | Some i ->
        (match lookup d pad x i with
         | Some f ->
           let fill =
             if has_fill then Some (val_of_code (dst_ty f) fillc) else None
           in
           let (st, rs) = convn f fill (map (val_of_code (src_ty f)) cs) in
           (st, (map (res_code (dst_ty f)) rs))
         | None -> (Z0, (map (fun _ -> ((Zpos (XO (XO XH))), Z0)) cs)))
      | None -> (Z0, (map (fun _ -> ((Zpos (XO (XO XH))), Z0)) cs)))
   | None -> (Z0, (map (fun _ -> ((Zpos (XO (XO XH))), Z0)) cs)))

(** val leaf_spec :
    bool -> z -> z -> bool -> z -> z list -> z * (z * z) list **)

let leaf_spec put xi ii has_fill fillc cs =
  let d = if put then Put else Get in
  (match nth_error all_x (Z.to_nat xi) with
   | Some x ->
     (match nth_error all_i (Z.to_nat ii) with
      | Some i ->
        let src = api_src d x i in
        let dst = api_dst d x i in
        let fill = if has_fill then Some (val_of_code dst fillc) else None in
        let (st, rs) = spec_convn d src dst fill (map (val_of_code src) cs) in
        (st, (map (res_code dst) rs))
      | None -> (Z0, (map (fun _ -> ((Zpos (XO (XO XH))), Z0)) cs)))
   | None -> (Z0, (map (fun _ -> ((Zpos (XO (XO XH))), Z0)) cs)))
